#!/usr/bin/env python3
"""tools/integrate.py Cxx  — take the manifest texts of a finished property from notes/Cxx.md
(bullets `technique`, `text`, `note`, possibly spanning several lines) into tools/manifest_entries/Cxx.json
and regenerate MANIFEST.json."""
import json, os, re, subprocess, sys
here = os.path.dirname(os.path.dirname(os.path.abspath(__file__)))
pid = sys.argv[1]
txt = open(os.path.join(here, "notes", f"{pid}.md")).read()
hs = [m.start() for m in re.finditer(r"^#+ .*manifest.*$", txt, re.I | re.M)]
sec = txt[hs[-1]:] if hs else txt
out = {"property_id": pid}
keys = ["technique", "text", "note"]
for k in keys:
    m = re.search(r"^[*-]\s*`?\*{0,2}" + k + r"\*{0,2}`?\s*:\s*(.*?)(?=^\s*[*-]\s*`?\*{0,2}(?:technique|text|note|level|design_ref)\*{0,2}`?\s*:|^#|\Z)",
                  sec, re.S | re.M | re.I)
    if not m:
        sys.exit(f"no `{k}` bullet found in notes/{pid}.md")
    v = " ".join(m.group(1).split()).strip()
    v = v.strip("`\"“” ")
    out[k] = v
for k in keys:
    print(f"--- {k} ({len(out[k])} chars): {out[k][:140]} … {out[k][-60:]}")
json.dump(out, open(os.path.join(here, "tools", "manifest_entries", f"{pid}.json"), "w"), indent=1)
subprocess.run([sys.executable, os.path.join(here, "tools", "gen_manifest.py")], check=True)
