#!/venv/bin/python
"""Run the pinned test suite of /repo and compare with /root/.vp/BASELINE.json (stable_pass list).
usage: tools/baseline.py [repo_dir]    exit 0 iff every stable_pass test passes."""
import json, os, subprocess, sys, tempfile, xml.etree.ElementTree as ET
repo = sys.argv[1] if len(sys.argv) > 1 else "/repo"
base = json.load(open("/root/.vp/BASELINE.json"))
with tempfile.TemporaryDirectory() as td:
    xml = os.path.join(td, "j.xml")
    env = dict(os.environ); env.pop("PYROLL_CORE_VERIF", None)
    subprocess.run(["/venv/bin/python", "-m", "pytest", "-q", "-p", "no:cacheprovider", "--timeout=900",
                    "--continue-on-collection-errors", "-n", os.environ.get("BASELINE_JOBS", "0"), f"--junitxml={xml}"] if False else
                   ["/venv/bin/python", "-m", "pytest", "-q", "-p", "no:cacheprovider", "--timeout=900",
                    "--continue-on-collection-errors", f"--junitxml={xml}"],
                   cwd=repo, env=env, stdout=subprocess.DEVNULL, stderr=subprocess.DEVNULL)
    passed = set()
    for tc in ET.parse(xml).getroot().iter("testcase"):
        if not any(c.tag in ("failure", "error", "skipped") for c in tc):
            passed.add(f"{tc.get('classname')}::{tc.get('name')}")
missing = [t for t in base["stable_pass"] if t not in passed]
print(f"passed={len(passed)} stable_pass={len(base['stable_pass'])} missing={len(missing)}")
for t in missing:
    print("  MISSING", t)
sys.exit(1 if missing else 0)
