#!/usr/bin/env python3
"""Run the registered checks against the seeded (property-breaking) changes kept under /verif/seeded/<name>/.

  tools/run_seeded.py [name ...] [--in-repo]

Default: for each seeded change a scratch worktree of /repo's HEAD is created under $TMPDIR, the patch applied there, the
check of the property run with VERIF_REPO=<worktree>, and the worktree removed.  With --in-repo the patch is applied to /repo
itself (git apply), the check run, and the patch undone (git checkout -- .) straight afterwards.
Prints one line per change: DETECTED (check exited 1 with a VIOLATION line) or MISSED, and how it was detected.
"""
import json, os, re, subprocess, sys, tempfile, shutil
here = os.path.dirname(os.path.dirname(os.path.abspath(__file__)))
seeded = os.path.join(here, "seeded")
args = [a for a in sys.argv[1:] if not a.startswith("--")]
in_repo = "--in-repo" in sys.argv
tier = "thorough" if "--thorough" in sys.argv else "quick"
names = args or sorted(d for d in os.listdir(seeded) if os.path.isdir(os.path.join(seeded, d)))
results = {}
for name in names:
    d = os.path.join(seeded, name)
    meta = json.load(open(os.path.join(d, "meta.json")))
    pid = meta["property"]
    patch = os.path.join(d, "patch.diff")
    env = dict(os.environ)
    wt = None
    try:
        if in_repo:
            subprocess.run(["git", "-C", "/repo", "apply", patch], check=True)
        else:
            wt = tempfile.mkdtemp(prefix="seedrun_")
            os.rmdir(wt)
            subprocess.run(["git", "-C", "/repo", "worktree", "add", "-q", "--detach", wt, "HEAD"], check=True)
            subprocess.run(["git", "-C", wt, "apply", patch], check=True)
            env["VERIF_REPO"] = wt
        p = subprocess.run([os.path.join(here, "check"), pid, "--tier", tier], cwd=here, env=env, capture_output=True, text=True)
        out = p.stdout
        viol = [l for l in out.splitlines() if l.startswith("VIOLATION")]
        how = "-"
        if viol:
            how = "concrete replay" if not all("no-failing-input-found" in v for v in viol) else "tie broken, no failing input found"
        status = "DETECTED" if (p.returncode == 1 and viol) else ("MISSED" if p.returncode == 0 else f"ERROR rc={p.returncode}")
        results[name] = (pid, status, how, [v.split("replay=")[1] for v in viol][:3])
        print(f"{name:28s} {pid} {status:9s} {how}  {' '.join(results[name][3])}", flush=True)
        if status.startswith("ERROR"):
            print(p.stderr[-1500:])
    finally:
        if in_repo:
            subprocess.run(["git", "-C", "/repo", "checkout", "--", "."], check=True)
        elif wt:
            subprocess.run(["git", "-C", "/repo", "worktree", "remove", "--force", wt])
            shutil.rmtree(wt, ignore_errors=True)
# leave generated files as the pristine tree produces them
for pid in sorted({r[0] for r in results.values()}):
    subprocess.run([os.path.join(here, "check"), pid], cwd=here, capture_output=True, text=True)
# keep the outcome of the latest run of every seeded change (read by tools/seeded_table.py for DESIGN.md)
resfile = os.path.join(seeded, "results.json")
import fcntl
_lk = open(os.path.join(seeded, ".results.lock"), "w"); fcntl.flock(_lk, fcntl.LOCK_EX)   # parallel invocations
allres = json.load(open(resfile)) if os.path.exists(resfile) else {}
head = subprocess.run(["git", "-C", "/repo", "rev-parse", "--short", "HEAD"], capture_output=True, text=True).stdout.strip()
for n, r in results.items():
    allres[n] = {"property": r[0], "status": r[1], "how": r[2], "tier": tier, "repo_head": head,
                 "replays": [os.path.basename(x).split(" ")[0] for x in r[3]]}
json.dump(allres, open(resfile, "w"), indent=1, sort_keys=True)
missed = [n for n, r in results.items() if r[1] != "DETECTED"]
print(f"{len(results) - len(missed)}/{len(results)} detected; missed: {missed}")
sys.exit(1 if missed else 0)
