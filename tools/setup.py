#!/venv/bin/python
"""MANIFEST.setup_cmd: build (offline) exactly the Lean modules the claimed checks need.
A half-finished, unclaimed property can therefore never break the set-up of the claimed ones."""
import importlib, json, os, subprocess, sys
here = os.path.dirname(os.path.dirname(os.path.abspath(__file__)))
sys.path.insert(0, here)
m = json.load(open(os.path.join(here, "MANIFEST.json")))
targets = []
for c in m["checks"]:
    mod = importlib.import_module("driver.props." + c["property_id"].lower())
    for t in list(getattr(mod, "LEAN_MODULES", [])) + list(getattr(mod, "MODEL_MODULES", [])):
        if t not in targets:
            targets.append(t)
print("building", len(targets), "lean targets")
r = subprocess.run(["lake", "build"] + targets, cwd=os.path.join(here, "lean"))
sys.exit(r.returncode)
