#!/venv/bin/python
"""MANIFEST.setup_cmd: build (offline) exactly the Lean modules the claimed checks need.
A half-finished, unclaimed property can therefore never break the set-up of the claimed ones.

The generated modules (lean/PyrollModel/Gen/*.lean) are first regenerated from /repo's working tree by the translators
of the claimed checks, exactly as every check does, so a stale committed generated file cannot fail the set-up.
If /repo's current source no longer satisfies a proof obligation, that is for the property's check to report (it
rebuilds on every run); the set-up then only has to leave a working Lean project behind, so it exits 0 as long as the
shared base modules build."""
import importlib, json, os, subprocess, sys, traceback
here = os.path.dirname(os.path.dirname(os.path.abspath(__file__)))
sys.path.insert(0, here)
repo = os.environ.get("VERIF_REPO", "/repo")
sys.path.insert(1, repo)
os.environ.setdefault("MPLBACKEND", "Agg")
m = json.load(open(os.path.join(here, "MANIFEST.json")))
from driver import core
targets = []
for c in m["checks"]:
    pid = c["property_id"]
    mod = importlib.import_module("driver.props." + pid.lower())
    if hasattr(mod, "translate"):
        try:
            mod.translate(core.Ctx(pid, "quick", 0))
        except Exception:
            print(f"setup: translator of {pid} failed (left to the check to report):", file=sys.stderr)
            traceback.print_exc()
    for t in list(getattr(mod, "LEAN_MODULES", [])) + list(getattr(mod, "MODEL_MODULES", [])):
        if t not in targets:
            targets.append(t)
print("building", len(targets), "lean targets", flush=True)
r = subprocess.run(["lake", "build"] + targets, cwd=os.path.join(here, "lean"))
if r.returncode != 0:
    print("setup: some targets did not build; building them one by one (each check reports its own)", flush=True)
    for t in targets:
        subprocess.run(["lake", "build", t], cwd=os.path.join(here, "lean"), stdout=subprocess.DEVNULL)
    r = subprocess.run(["lake", "build", "PyrollModel.Num", "PyrollModel.Expr", "PyrollProofs.RealNum"],
                       cwd=os.path.join(here, "lean"))
sys.exit(r.returncode)
