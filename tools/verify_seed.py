#!/venv/bin/python
"""Confirm a seeded (property-breaking) change delivered by a sub-agent and keep it under /verif/seeded/<name>/.

  tools/verify_seed.py <src_dir> <name> [--no-suite]

<src_dir> holds patch.diff, demo.py, meta.json.  In a scratch worktree of /repo's HEAD (outside /repo and /verif, removed
afterwards): demo.py must exit 0 unpatched, the patch must apply, demo.py must exit non-zero patched, and the pinned suite
(tools/baseline.py) must still pass patched.  Only then is the change copied to seeded/<name>/ with what was run recorded.
"""
import json, os, shutil, subprocess, sys, tempfile
here = os.path.dirname(os.path.dirname(os.path.abspath(__file__)))
src, name = sys.argv[1], sys.argv[2]
suite = "--no-suite" not in sys.argv
wt = tempfile.mkdtemp(prefix="seedverify_"); os.rmdir(wt)
subprocess.run(["git", "-C", "/repo", "worktree", "add", "-q", "--detach", wt, "HEAD"], check=True)
ran = []
try:
    env = dict(os.environ, PYTHONPATH=wt, PYTHONDONTWRITEBYTECODE="1", MPLBACKEND="Agg")
    def demo():
        p = subprocess.run(["/venv/bin/python", os.path.join(src, "demo.py")], cwd=wt, env=env, capture_output=True, text=True, timeout=1800)
        return p.returncode, (p.stdout + p.stderr)[-600:]
    rc0, out0 = demo(); ran.append(f"demo.py on unchanged HEAD: exit {rc0}")
    if rc0 != 0:
        print("REJECT: demo fails on the unchanged tree\n" + out0); sys.exit(1)
    subprocess.run(["git", "-C", wt, "apply", os.path.join(src, "patch.diff")], check=True)
    rc1, out1 = demo(); ran.append(f"demo.py with patch: exit {rc1}")
    if rc1 == 0:
        print("REJECT: demo passes with the patch"); sys.exit(1)
    if suite:
        p = subprocess.run([os.path.join(here, "tools", "baseline.py"), wt], env=env, capture_output=True, text=True)
        ran.append("pinned suite with patch: " + p.stdout.splitlines()[0])
        if p.returncode != 0:
            print("REJECT: pinned suite fails with the patch\n" + p.stdout[-1500:]); sys.exit(1)
    dst = os.path.join(here, "seeded", name)
    os.makedirs(dst, exist_ok=True)
    for f in ("patch.diff", "demo.py"):
        shutil.copy(os.path.join(src, f), os.path.join(dst, f))
    meta = json.load(open(os.path.join(src, "meta.json")))
    meta["confirmed"] = ran
    meta["demo_output_with_patch"] = out1
    meta["head"] = subprocess.run(["git", "-C", "/repo", "rev-parse", "--short", "HEAD"], capture_output=True, text=True).stdout.strip()
    json.dump(meta, open(os.path.join(dst, "meta.json"), "w"), indent=1)
    print("KEPT", name, "|", "; ".join(ran))
finally:
    subprocess.run(["git", "-C", "/repo", "worktree", "remove", "--force", wt])
    shutil.rmtree(wt, ignore_errors=True)
