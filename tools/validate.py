#!/usr/bin/env python3
"""validate MANIFEST.json and every evidence file against the schemas (run with python3-vt)"""
import json, glob, sys, jsonschema
ok = True
try:
    jsonschema.validate(json.load(open('MANIFEST.json')), json.load(open('/root/.vp/MANIFEST.schema.json'))); print("MANIFEST ok")
except Exception as e:
    ok = False; print("MANIFEST INVALID", str(e)[:500])
claimed = [c["property_id"] for c in json.load(open('MANIFEST.json'))["checks"]]
for pid in claimed:
    f = f"evidence/{pid}.json"
    try:
        ev = json.load(open(f)); jsonschema.validate(ev, json.load(open('/root/.vp/EVIDENCE.schema.json')))
        c = ev["coverage"]
        assert c["obligations"] == c["discharged"] > 0, "obligations!=discharged"
        print(f, "ok", ev["tier"], "viol", ev.get("violations"))
    except Exception as e:
        ok = False; print(f, "INVALID", str(e)[:300])
sys.exit(0 if ok else 1)
