#!/bin/bash
# tools/refresh_all.sh [seed] [tier]  — run every claimed check against /repo (5 at a time), print the ones that did not
# exit 0, then validate MANIFEST.json and all evidence files.  Used before committing evidence.
cd "$(dirname "$0")/.."
seed=${1:-0}; tier=${2:-quick}
ids=$(python3 -c "import json;print(' '.join(c['property_id'] for c in json.load(open('MANIFEST.json'))['checks']))")
mkdir -p replays/logs
printf '%s\n' $ids | xargs -P 5 -I{} bash -c "VERIF_SEED=$seed ./check {} --tier $tier > replays/logs/{}_$seed.log 2>&1; echo {} exit \$? \$(tail -n 1 replays/logs/{}_$seed.log)" | sort
python3-vt tools/validate.py | grep -v " ok " 
