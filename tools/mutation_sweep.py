#!/usr/bin/env python3
"""tools/mutation_sweep.py — systematic first-order mutants of the ANCHORED source lines of each property.

  python3 tools/mutation_sweep.py [--props C01,C05] [--per 6] [--seed 1] [--jobs 6] [--out notes/MUTATION_SWEEP.json]

For every property: the line ranges named in its anchors (`mechanism[*].where`, `state[*].where` of properties.jsonl) are
mutated with small AST rewrites (arithmetic / comparison / boolean operator swaps, `not` inserted or dropped, numeric constants
changed, `reversed(x)` -> `x`, `True` <-> `False`, a `return e` of a numeric expression scaled, a statement deleted (-> pass), an
`if` test negated).  `--per` mutants are drawn per property (deterministically from `--seed`).  Each one is applied in a scratch
worktree of /repo (under $TMPDIR/mut_*, removed afterwards); the pinned suite must still pass (otherwise the mutant is `killed by
the suite` and of no interest), then `./check <property>` runs against the worktree.  Outcome per mutant: detected (concrete /
tie only) or SURVIVED — a survivor is either a harmless change (the property still holds) or a gap of the check: it needs a look.

Run this from a PRIVATE COPY of /verif (it regenerates Gen files for other trees while it runs):  cp -r /verif /tmp/vf/MUT.
This is mutation TESTING of the machinery, never evidence for a property.
"""
import argparse, ast, copy, json, os, random, re, shutil, subprocess, sys, tempfile
from concurrent.futures import ThreadPoolExecutor

here = os.path.dirname(os.path.dirname(os.path.abspath(__file__)))
ap = argparse.ArgumentParser()
ap.add_argument("--props", default="")
ap.add_argument("--per", type=int, default=6)
ap.add_argument("--seed", type=int, default=1)
ap.add_argument("--jobs", type=int, default=6)
ap.add_argument("--out", default=os.path.join(here, "notes", "MUTATION_SWEEP.json"))
ap.add_argument("--repo", default="/repo")
args = ap.parse_args()
props = {json.loads(l)["id"]: json.loads(l) for l in open(os.path.join(here, "properties.jsonl"))}
want = [p for p in args.props.split(",") if p] or sorted(props)


def ranges(p):
    out = {}
    a = p["anchors"]
    for item in a.get("mechanism", []) + a.get("state", []):
        w = item.get("where", "")
        for part in w.split(", "):
            part = part.strip()
            m = re.match(r"(pyroll/[\w/\.]+\.py):([\d,\-]+)$", part)
            if not m:
                m2 = re.match(r"(pyroll/[\w/\.]+\.py)$", part)
                if m2:
                    out.setdefault(m2.group(1), []).append((1, 10 ** 6))
                continue
            for r in m.group(2).split(","):
                lo, _, hi = r.partition("-")
                out.setdefault(m.group(1), []).append((int(lo), int(hi or lo)))
    return out


ARITH = {ast.Add: ast.Sub, ast.Sub: ast.Add, ast.Mult: ast.Div, ast.Div: ast.Mult}
CMP = {ast.Lt: ast.LtE, ast.LtE: ast.Lt, ast.Gt: ast.GtE, ast.GtE: ast.Gt, ast.Eq: ast.NotEq, ast.NotEq: ast.Eq,
       ast.Is: ast.IsNot, ast.IsNot: ast.Is, ast.In: ast.NotIn, ast.NotIn: ast.In}


def sites(tree, rngs, slack=12):
    """(node, kind) pairs inside (or within `slack` lines after: anchors were written for the pinned commit) the ranges"""
    def inside(n):
        ln = getattr(n, "lineno", None)
        return ln is not None and any(lo <= ln <= hi + slack for lo, hi in rngs)
    out = []
    for n in ast.walk(tree):
        if not inside(n):
            continue
        if isinstance(n, ast.BinOp) and type(n.op) in ARITH:
            out.append((n, "arith"))
        if isinstance(n, ast.Compare) and len(n.ops) == 1 and type(n.ops[0]) in CMP:
            out.append((n, "cmp"))
        if isinstance(n, ast.BoolOp):
            out.append((n, "bool"))
        if isinstance(n, ast.UnaryOp) and isinstance(n.op, ast.Not):
            out.append((n, "dropnot"))
        if isinstance(n, ast.Constant) and isinstance(n.value, (int, float)) and not isinstance(n.value, bool):
            out.append((n, "const"))
        if isinstance(n, ast.Constant) and isinstance(n.value, bool):
            out.append((n, "boolconst"))
        if isinstance(n, ast.Call) and isinstance(n.func, ast.Name) and n.func.id in ("reversed", "sorted", "abs", "list", "set") \
                and len(n.args) == 1 and not n.keywords:
            out.append((n, "unwrap"))
        if isinstance(n, ast.If):
            out.append((n, "negif"))
        if isinstance(n, (ast.Assign, ast.AugAssign, ast.Expr)) and not (isinstance(n, ast.Expr) and isinstance(n.value, ast.Constant)):
            out.append((n, "delstmt"))
        if isinstance(n, ast.Return) and n.value is not None and isinstance(n.value, (ast.BinOp, ast.Call, ast.Attribute, ast.Name)):
            out.append((n, "return"))
    return out


def _offsets(src):
    """byte offset of the start of every line (ast column offsets are utf-8 byte offsets)"""
    offs, o = [], 0
    for line in src.encode().splitlines(keepends=True):
        offs.append(o)
        o += len(line)
    return offs


def mutate(src, rngs, rnd, k):
    """k distinct mutants of one file: [(description, new_source)] - only the mutated node's source segment is rewritten"""
    tree = ast.parse(src)
    b = src.encode()
    offs = _offsets(src)
    ss = sites(tree, rngs)
    rnd.shuffle(ss)
    res, seen = [], set()
    for node, kind in ss:
        if len(res) >= k:
            break
        tgt = copy.deepcopy(node)
        before = ast.unparse(node)[:70]
        seg = node
        if kind == "arith":
            tgt.op = ARITH[type(tgt.op)]()
            text = "(" + ast.unparse(tgt) + ")"
        elif kind == "cmp":
            tgt.ops = [CMP[type(tgt.ops[0])]()]
            text = "(" + ast.unparse(tgt) + ")"
        elif kind == "bool":
            tgt.op = ast.Or() if isinstance(tgt.op, ast.And) else ast.And()
            text = "(" + ast.unparse(tgt) + ")"
        elif kind == "dropnot":
            text = "(" + ast.unparse(tgt.operand) + ")"
        elif kind == "const":
            v = tgt.value
            text = repr((v + 1) if isinstance(v, int) else (v * 2 if v != 0 else 1e-3))
        elif kind == "boolconst":
            text = repr(not tgt.value)
        elif kind == "unwrap":
            text = "(" + ast.unparse(tgt.args[0]) + ")"
        elif kind == "negif":
            seg = node.test
            text = "not (" + ast.unparse(node.test) + ")"
        elif kind == "delstmt":
            text = "pass"
        elif kind == "return":
            seg = node.value
            text = "(" + ast.unparse(node.value) + ") * 1.001"
        else:
            continue
        try:
            lo = offs[seg.lineno - 1] + seg.col_offset
            hi = offs[seg.end_lineno - 1] + seg.end_col_offset
            new_src = (b[:lo] + text.encode() + b[hi:]).decode()
            compile(new_src, "<mutant>", "exec")
        except Exception:
            continue
        desc = f"{kind}@{node.lineno}: {before}"
        if desc in seen or new_src == src:
            continue
        seen.add(desc)
        res.append((desc, new_src))
    return res


def normalised(path):
    """the file as ast.unparse prints it (so that a mutant differs from the baseline only by the mutation)"""
    return ast.unparse(ast.parse(open(path).read()))


def one(pid, rel, desc, new_src):
    wt = tempfile.mkdtemp(prefix="mut_")
    os.rmdir(wt)
    subprocess.run(["git", "-C", args.repo, "worktree", "add", "-q", "--detach", wt, "HEAD"], check=True)
    try:
        open(os.path.join(wt, rel), "w").write(new_src)
        env = dict(os.environ, PYTHONPATH=wt, PYTHONDONTWRITEBYTECODE="1", MPLBACKEND="Agg")
        p = subprocess.run([os.path.join(here, "tools", "baseline.py"), wt], env=env, capture_output=True, text=True)
        if p.returncode != 0:
            return dict(property=pid, file=rel, mutant=desc, outcome="killed by the suite")
        env["VERIF_REPO"] = wt
        p = subprocess.run([os.path.join(here, "check"), pid, "--tier", "quick"], cwd=here, env=env, capture_output=True, text=True)
        viol = [l for l in p.stdout.splitlines() if l.startswith("VIOLATION")]
        if p.returncode == 1 and viol:
            how = "tie only" if all("no-failing-input-found" in v for v in viol) else "concrete replay"
            return dict(property=pid, file=rel, mutant=desc, outcome="detected: " + how,
                        keys=[v.split("replay=")[1].split()[0].replace("replays/", "") for v in viol][:3])
        if p.returncode == 0:
            return dict(property=pid, file=rel, mutant=desc, outcome="SURVIVED")
        return dict(property=pid, file=rel, mutant=desc, outcome=f"error rc={p.returncode}", tail=(p.stdout + p.stderr)[-400:])
    finally:
        subprocess.run(["git", "-C", args.repo, "worktree", "remove", "--force", wt], capture_output=True)
        shutil.rmtree(wt, ignore_errors=True)


def per_property(pid):
    rnd = random.Random(f"{args.seed}:{pid}")
    rr = ranges(props[pid])
    files = [f for f in rr if os.path.exists(os.path.join(args.repo, f))]
    cands = []
    for f in files:
        try:
            for desc, new_src in mutate(open(os.path.join(args.repo, f)).read(), rr[f], rnd, args.per):
                cands.append((f, desc, new_src))
        except SyntaxError:
            pass
    rnd.shuffle(cands)
    out = []
    for f, desc, new_src in cands[:args.per]:
        r = one(pid, f, desc, new_src)
        print(f"{pid} {r['outcome']:28s} {f} {desc}", flush=True)
        out.append(r)
    return out


results = []
with ThreadPoolExecutor(max_workers=args.jobs) as ex:
    for rs in ex.map(per_property, want):
        results += rs
# leave generated files as the pristine tree produces them
for pid in want:
    subprocess.run([os.path.join(here, "check"), pid], cwd=here, capture_output=True, text=True)
old = json.load(open(args.out)) if os.path.exists(args.out) else {"runs": []}
head = subprocess.run(["git", "-C", args.repo, "rev-parse", "--short", "HEAD"], capture_output=True, text=True).stdout.strip()
old["runs"].append({"seed": args.seed, "per": args.per, "repo_head": head, "results": results})
json.dump(old, open(args.out, "w"), indent=1)
import collections
c = collections.Counter(r["outcome"].split(":")[0] for r in results)
print(dict(c))
