#!/usr/bin/env python3
"""Regenerates MANIFEST.json from tools/manifest_data.py (keeps it valid and in one place)."""
import json, os, sys
here = os.path.dirname(os.path.abspath(__file__))
sys.path.insert(0, here)
from manifest_data import CHECKS, NOT_APPLICABLE, NOTES
props = [json.loads(l)["id"] for l in open(os.path.join(here, "..", "properties.jsonl"))]
claimed = [c["property_id"] for c in CHECKS]
na = [n["property_id"] for n in NOT_APPLICABLE]
assert set(claimed) | set(na) == set(props), (sorted(set(props) - set(claimed) - set(na)))
assert not set(claimed) & set(na)
m = {
    "version": 1,
    "setup_cmd": "/venv/bin/python tools/setup.py",
    "hooks": {
        "guard": "PYROLL_CORE_VERIF",
        "enable": "no instrumentation is compiled into /repo: every observation point is reachable from outside (DESIGN.md section 7); checks import /repo's working tree in-process",
        "baseline_off_cmd": "cd /repo && /venv/bin/python -m pytest -ra -q -p no:cacheprovider --timeout=900 --continue-on-collection-errors",
        "source_commits": [],
        "add_only": True,
    },
    "engines": [
        {"name": "lean4-proof", "path": "lean", "serves_properties": claimed,
         "kind_free_text": "Lean 4.33 + Mathlib theorems about a model of pyroll-core; model tied to /repo by an ast->Lean translator (regenerated every run) and by a differential correspondence harness (driver/)"},
    ],
    "checks": [],
    "notes": NOTES,
    "not_applicable": NOT_APPLICABLE,
}
for c in CHECKS:
    pid = c["property_id"]
    m["checks"].append({
        "property_id": pid,
        "quick_cmd": f"./check {pid} --tier quick",
        "thorough_cmd": f"./check {pid} --tier thorough",
        "evidence_file": f"evidence/{pid}.json",
        "replay_cmd_template": f"./check {pid} --replay {{path}}",
        "engine": "lean4-proof",
        "level_claimed": {"category": "proof", "text": c["text"], "design_ref": c.get("design_ref", f"DESIGN.md section 5 {pid}")},
        "level_note": c["note"],
        "technique": c["technique"],
    })
json.dump(m, open(os.path.join(here, "..", "MANIFEST.json"), "w"), indent=1)
print("MANIFEST.json written:", len(CHECKS), "checks,", len(NOT_APPLICABLE), "not applicable")
