#!/usr/bin/env python3
"""print the markdown table 'which check catches which seeded change' from seeded/results.json + seeded/*/meta.json"""
import json, os
here = os.path.dirname(os.path.dirname(os.path.abspath(__file__)))
res = json.load(open(os.path.join(here, "seeded", "results.json")))
print("| seeded change | what it changes | needs, to manifest | outcome of `./check` | replay keys |")
print("|---|---|---|---|---|")
for n in sorted(res):
    m = json.load(open(os.path.join(here, "seeded", n, "meta.json")))
    r = res[n]
    out = {"concrete replay": "VIOLATION with concrete replay", "tie broken, no failing input found": "VIOLATION … no-failing-input-found (tie broken)", "-": r["status"]}[r["how"]]
    keys = ", ".join(x.replace(r["property"] + "_", "").replace(".json", "") for x in r["replays"])
    t = str(m.get("title", "")).replace("|", "/")[:140]
    nd = str(m.get("needs", "")).replace("|", "/").replace("\n", " ")[:160]
    print(f"| {n} | {t} | {nd} | {out} | {keys} |")
