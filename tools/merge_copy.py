#!/usr/bin/env python3
"""tools/merge_copy.py Cxx [copy_dir]  — take a property's files from a private copy of the framework (default /tmp/vf/Cxx)
into /verif: every file the copy changed or added (git status there), except evidence/, replays/ and seeded/results.json
(its entries for Cxx-* are merged).  Refuses files that obviously belong to another property."""
import json, os, re, shutil, subprocess, sys
here = os.path.dirname(os.path.dirname(os.path.abspath(__file__)))
pid = sys.argv[1]
src = sys.argv[2] if len(sys.argv) > 2 else f"/tmp/vf/{pid}"
out = subprocess.run(["git", "-C", src, "status", "--short", "--untracked-files=all"], capture_output=True, text=True).stdout
for line in out.splitlines():
    st, f = line[:2], line[3:].strip()
    if f.startswith(("evidence/", "replays/")) or f.endswith((".pyc",)) or "/.lake/" in f or f == ".gitignore":
        continue
    if f == "seeded/results.json":
        a = json.load(open(os.path.join(here, f))); b = json.load(open(os.path.join(src, f)))
        a.update({k: v for k, v in b.items() if k.startswith(pid + "-")})
        json.dump(a, open(os.path.join(here, f), "w"), indent=1, sort_keys=True)
        print("merged entries", f); continue
    other = re.findall(r"[cC](\d\d)", os.path.basename(f))
    if other and all("C" + o != pid for o in other):
        print("SKIP (other property's file):", f); continue
    if "D" in st:
        print("deleted in copy (not applied):", f); continue
    if f.startswith("seeded/") or f in ("KNOWN_FINDINGS.txt", "DESIGN.md", "MANIFEST.json", "properties.jsonl", "CONVENTIONS.md"):
        print("SKIP (shared file):", f); continue
    dst = os.path.join(here, f)
    if os.path.exists(dst) and "?" not in st:
        # a file the copy MODIFIED: take it only if /verif still has what the copy started from (else /verif moved on meanwhile)
        base = subprocess.run(["git", "-C", src, "show", "HEAD:" + f], capture_output=True).stdout
        if base != open(dst, "rb").read() and open(dst, "rb").read() != open(os.path.join(src, f), "rb").read():
            print("CONFLICT (/verif changed this file since the copy was taken; not copied):", f); continue
    os.makedirs(os.path.dirname(os.path.join(here, f)) or here, exist_ok=True)
    shutil.copy2(os.path.join(src, f), os.path.join(here, f))
    print("copied", f)
