NOTES = ("All checks are driven by ./check <id>; see DESIGN.md. A broken proof obligation or model/implementation "
         "disagreement triggers a failing-input search on the real code; KNOWN_FINDINGS.txt lists recorded defects.")

CHECKS = [
    {"property_id": "C13",
     "technique": "Lean 4 invariant proof by induction over edit histories + model/implementation correspondence",
     "text": "Lean theorems (PyrollProps/C13.lean): the parent/children invariant is preserved by every list and sequence "
             "operation (construct, append, prepend, insert, extend, +=, item/slice assignment and deletion, pop, remove, "
             "clear, drop, flatten, copy, deep copy) for all states and all histories whose inserted units are unlisted at "
             "that moment; prev/next agree with list order; index/slice/label/type lookups. The full-strength statement is "
             "refuted in Lean (C13_counterexample) and recorded as known finding F10. The hand-written model is tied to "
             "pyroll/core/unit/unit.py and sequence.py by differential runs comparing the whole tree state after every op.",
     "note": "Trusted: Lean kernel; axioms propext/Classical.choice/Quot.sound; CPython list/weakref/deepcopy semantics as "
             "modelled; the correspondence is sampled (random histories), so the model is believed as far as exercised. "
             "Deep copies of subtrees that list a unit twice (memo sharing) are outside the model."},
]

_PENDING = "machinery for this property is not built yet in this round (planned: Lean proof per DESIGN.md section 5); not claimed until its check exists"
NOT_APPLICABLE = [{"property_id": f"C{n:02d}", "reason": _PENDING} for n in range(1, 21) if f"C{n:02d}" not in {c["property_id"] for c in CHECKS}]
