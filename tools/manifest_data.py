"""Data of MANIFEST.json: one file tools/manifest_entries/Cxx.json per CLAIMED property
({"property_id", "technique", "text", "note"}); every other property is listed under not_applicable with the
reason given in NOT_CLAIMED (or the default)."""
import glob, json, os
here = os.path.dirname(os.path.abspath(__file__))
NOTES = ("All checks are driven by ./check <id>; see DESIGN.md. A broken proof obligation or model/implementation "
         "disagreement triggers a failing-input search on the real code; KNOWN_FINDINGS.txt lists recorded defects.")
CHECKS = [json.load(open(f)) for f in sorted(glob.glob(os.path.join(here, "manifest_entries", "C*.json")))]
_PENDING = ("not claimed: the Lean model, theorems and correspondence harness for this property (planned in DESIGN.md "
            "section 5) are not finished, so no check is registered for it; the technique applies, the work is pending")
NOT_CLAIMED = {}
NOT_APPLICABLE = [{"property_id": f"C{n:02d}", "reason": NOT_CLAIMED.get(f"C{n:02d}", _PENDING)}
                  for n in range(1, 21) if f"C{n:02d}" not in {c["property_id"] for c in CHECKS}]
