NOTES = ("All checks are driven by ./check <id>; see DESIGN.md. A broken proof obligation or model/implementation "
         "disagreement triggers a failing-input search on the real code; KNOWN_FINDINGS.txt lists recorded defects.")

CHECKS = [
    {"property_id": "C13",
     "technique": "Lean 4 invariant proof by induction over edit histories + model/implementation correspondence",
     "text": "Lean theorems (PyrollProps/C13.lean): the parent/children invariant is preserved by every list and sequence "
             "operation (construct, append, prepend, insert, extend, +=, item/slice assignment and deletion, pop, remove, "
             "clear, drop, flatten, copy, deep copy) for all states and all histories whose inserted units are unlisted at "
             "that moment; prev/next agree with list order; index/slice/label/type lookups. The full-strength statement is "
             "refuted in Lean (C13_counterexample) and recorded as known finding F10. The hand-written model is tied to "
             "pyroll/core/unit/unit.py and sequence.py by differential runs comparing the whole tree state after every op.",
     "note": "Trusted: Lean kernel; axioms propext/Classical.choice/Quot.sound; CPython list/weakref/deepcopy semantics as "
             "modelled; the correspondence is sampled (random histories), so the model is believed as far as exercised. "
             "Deep copies of subtrees that list a unit twice (memo sharing) are outside the model."},
]

CHECKS.append(
    {"property_id": "C17",
     "technique": "Lean 4 theorems over the reals about formulas regenerated from the source by an ast->Lean translator + formula/oracle correspondence",
     "text": "The hook implementations for equivalent rectangle/radius, hydrostatic and von Mises stress, thermal diffusivity / "
             "heat penetration (profile and roll) and the draught/spread/elongation coefficient families are translated from "
             "/repo to Lean terms on every run; PyrollProps/C17.lean proves over the reals: rectangle area and ratio, radius area, "
             "mean stress, von Mises value / all permutations / hydrostatic zero / uniaxial |s|, k = a*rho*c, e^2 = k*rho*c, "
             "relative = coefficient-1, log = log(coefficient), product of the three coefficients = 1 and log sum = 0, pass strain. "
             "Each generated term is also evaluated over Float and compared with the python function; the oracle checks the "
             "identities and the chord bounds/integrals on real Profile objects and solved passes. Partial: chord properties "
             "(shapely intersections) are numerical checks, not theorems.",
     "note": "Trusted: Lean kernel, standard axioms, the translator (cross-checked by Float evaluation against the python "
             "functions), IEEE rounding (theorems are over the reals; float checks use rtol 1e-9), shapely geometry."})

_PENDING = "machinery for this property is not built yet in this round (planned: Lean proof per DESIGN.md section 5); not claimed until its check exists"
NOT_APPLICABLE = [{"property_id": f"C{n:02d}", "reason": _PENDING} for n in range(1, 21) if f"C{n:02d}" not in {c["property_id"] for c in CHECKS}]
