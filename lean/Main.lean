import PyrollModel.TreeDriver

/-- `lake env lean --run Main.lean <model>` : line-protocol model driver (one op per line on stdin). -/
def main (args : List String) : IO UInt32 := do
  match args with
  | ["c13"] => Tree.main; return 0
  | _ => IO.eprintln "usage: Main <model>"; return 2
