import PyrollModel.Num
import PyrollModel.Expr
import PyrollModel.Proto
import PyrollModel.Tree
import PyrollModel.TreeDriver
