import PyrollModel.RotDriver
/-- `lake env lean --run Drivers/c14.lean` : line-protocol driver of the rotation model (C14). -/
def main : IO Unit := RotDriver.main
