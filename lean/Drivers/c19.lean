import PyrollModel.VeloDriver
/-- `lake env lean --run Drivers/c19.lean` : line-protocol driver of the velocity-loop model (C19). -/
def main : IO Unit := VeloDriver.main
