import PyrollModel.GrooveWFDriver
/-- Float run of the groove construction model (C03) on the tables generated from the source
    (see PyrollModel/GrooveWFDriver.lean for the protocol). -/
def main : IO Unit := GrooveWFDriver.main
