import PyrollModel.Gen.C10
import PyrollModel.GrooveRepDriver
/-- `lake env lean --run Drivers/c10.lean` : line-protocol driver of the groove-representation model (C10) on the
    generated tables. -/
def main : IO Unit :=
  GrooveRepDriver.main {
    useAbs := Gen.C10.depth_abs, argOps := Gen.C10.depth_arg_ops,
    interpXOps := Gen.C10.interp_x_ops, interpZOps := Gen.C10.interp_z_ops, pieces := Gen.C10.pieces, dflt := Gen.C10.depth_default,
    segments := Gen.C10.segments, xSpecs := Gen.C10.surface_x_specs, xOuter := Gen.C10.surface_x_outer,
    xAngleSet := Gen.C10.surface_x_angle_set, xAngleDefault := Gen.C10.surface_x_angle_default,
    surfaceY := Gen.C10.surface_y, transposed := Gen.C10.interp_grid_transposed,
    stripKind := Gen.C10.spline_strip, faceTest := Gen.C10.spline_face, centre := Gen.C10.spline_centre, width := Gen.C10.spline_width, usableDefault := Gen.C10.spline_usable_default,
    depth := Gen.C10.spline_depth, arrOps := Gen.C10.spline_array_ops, rollTables := Gen.C10.roll_tables, table := Gen.C10.table }
