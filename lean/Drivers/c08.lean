import PyrollModel.Gen.C08
import PyrollModel.Gen.C08Geom
import PyrollModel.Gen.C08Cache
import PyrollModel.OutCSDriver
/-- `lake env lean --run Drivers/c08.lean` : line-protocol driver of the outgoing-cross-section model (C08):
    the generated programs run under the vertex-list interpretation, and the generated formula table. -/
def main : IO Unit :=
  OutCSDriver.main {
    progs := [("two_cross_section", Gen.C08.two_cross_section), ("three_cross_section", Gen.C08.three_cross_section),
              ("two_usable_cs", Gen.C08.two_usable_cs), ("three_usable_cs", Gen.C08.three_usable_cs),
              ("two_tip_cs", Gen.C08.two_tip_cs), ("three_tip_cs", Gen.C08.three_tip_cs),
              ("from_groove_wg", Gen.C08.from_groove_wg), ("from_groove_fg", Gen.C08.from_groove_fg),
              ("from_groove_wh", Gen.C08.from_groove_wh), ("from_groove_fh", Gen.C08.from_groove_fh)],
    table := Gen.C08.table,
    caches := [("two", { pass := Gen.C08.two_pass, loop := Gen.C08.solve_loop, init := Gen.C08.init_solve_ops }),
               ("three", { pass := Gen.C08.three_pass, loop := Gen.C08.solve_loop, init := Gen.C08.init_solve_ops })] }
