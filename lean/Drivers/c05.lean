import PyrollModel.SolveDriver
/-- `lake env lean --run Drivers/c05.lean` : line-protocol driver of the solve-loop model (C05). -/
def main : IO Unit := SolveDriver.main
