import PyrollModel.Gen.C09Contours
import PyrollModel.PassGeomDriver
/-- `lake env lean --run Drivers/c09.lean` : line-protocol driver of the pass-opening model (C09):
    generated placements, generated implementation tables, generated formula table. -/
def main : IO Unit :=
  PassGeomDriver.main { twoCls := Gen.C09.two_cls, twoLines := Gen.C09.two_roll_lines,
                        threeCls := Gen.C09.three_cls, threeLines := Gen.C09.three_roll_lines,
                        table := Gen.C09.table,
                        twoCs := Gen.C09.two_usable_cs, twoCsHelper := Gen.C09.two_usable_cs_helper,
                        threeCs := Gen.C09.three_usable_cs, threeCsHelper := Gen.C09.three_usable_cs_helper }
