import PyrollModel.ProcDriver
/-- `lake env lean --run Drivers/c18.lean` : line-protocol driver of the processor model (C18). -/
def main : IO Unit := Proc.main
