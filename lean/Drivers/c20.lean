import PyrollModel.ConfigDriver
/-- `lake env lean --run Drivers/c20.lean` : line-protocol driver of the configuration model (C20). -/
def main : IO Unit := Config.main
