import PyrollModel.RootUnitsDriver
/-- `lake env lean --run Drivers/c02units.lean` : which objects one call of `get_root_hook_results` evaluates, which root
hooks belong to a class, which objects the library constructs for a unit class (C02; tables read from the source). -/
def main : IO Unit := RootUnits.main
