import PyrollModel.FailureDriver
/-- `lake env lean --run Drivers/c07.lean` : line-protocol driver of the failed-evaluation model (C07). -/
def main : IO Unit := Failure.main
