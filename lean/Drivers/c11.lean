import PyrollModel.Gen.C11
import PyrollModel.EvalDriver
/-- Float evaluation of every term generated for C11 (see PyrollModel/EvalDriver.lean for the protocol). -/
def main : IO Unit := EvalDriver.main Gen.C11.table
