import PyrollModel.LifecycleDriver
/-- `lake env lean --run Drivers/c02.lean` : line-protocol driver of the hook value life-cycle model (C02). -/
def main : IO Unit := Life.main
