import PyrollModel.Gen.C04
import PyrollModel.Gen.C04Groove
import PyrollModel.EvalDriver
/-- Float evaluation of everything generated for C04: solver closed forms and residuals, constructor plumbing
    (`<plumb name>.<keyword>`), the junction chain, the four-way resolution and the contour-line functions
    (see PyrollModel/EvalDriver.lean for the protocol). -/
def main : IO Unit := EvalDriver.main (Gen.C04.fullTable ++ Gen.C04.Groove.table)
