import PyrollModel.Gen.C04
import PyrollModel.Gen.C04Groove
import PyrollModel.Gen.C04Valid
import PyrollModel.Gen.C04Stored
import PyrollModel.EvalDriver
/-- Float evaluation of everything generated for C04: solver closed forms and residuals, constructor plumbing
    (`<plumb name>.<keyword>`), the junction chain, the four-way resolution, the contour-line functions and both sides of
    every test of `test_plausibility`, and the values the finished objects report through their public properties
    (`reported_<Class>_<k>.<name>`, `getters_GenericElongationGroove.<name>`; see PyrollModel/EvalDriver.lean for the protocol). -/
def main : IO Unit := EvalDriver.main (Gen.C04.fullTable ++ Gen.C04.Groove.table ++ Gen.C04.Valid.table
  ++ Gen.C04.Stored.reportedTable)
