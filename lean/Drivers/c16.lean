import PyrollModel.Gen.C16
import PyrollModel.MutualDriver
/-- `lake env lean --run Drivers/c16.lean` : line-protocol driver of the symbolic hook interpreter over the tables
    generated for C16 (see PyrollModel/MutualDriver.lean for the protocol). -/
def main : IO Unit := MutualDriver.main
  { classes := Gen.C16.classes, conv := Gen.C16.hookget_call, copies := Gen.C16.template_copies }
