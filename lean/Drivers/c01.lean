import PyrollModel.HookDriver
/-- `lake env lean --run Drivers/c01.lean` : line-protocol driver of the hook registry / resolution model (C01). -/
def main : IO Unit := Hooks.main
