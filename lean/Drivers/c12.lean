import PyrollModel.HeapDriver
/-- `lake env lean --run Drivers/c12.lean` : line-protocol driver of the heap model (C12). -/
def main : IO Unit := Heap.main
