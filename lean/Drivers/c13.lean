import PyrollModel.TreeDriver
/-- `lake env lean --run Drivers/c13.lean` : line-protocol driver of the unit-tree model (C13). -/
def main : IO Unit := Tree.main
