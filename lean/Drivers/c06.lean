import PyrollModel.HandoverDriver
/-- `lake env lean --run Drivers/c06.lean` : line-protocol driver of the C06 models (generated formulas, sums, hand-over). -/
def main : IO Unit := HandoverDriver.main
