import PyrollModel.Gen.C17
import PyrollModel.Gen.C17Geo
import PyrollModel.EvalDriver
/-- one evaluable entry `<name>#<k>` per FORMULA alternative `k` (index in `Impl.alts`) of every translated
    implementation, so that the harness can run each guarded branch against the python function it came from -/
def altTable : List (String × Expr) :=
  Gen.C17.impls.flatMap fun (n, i) =>
    i.alts.zipIdx.filterMap fun (a, k) =>
      match a.2 with
      | .expr e => some (n ++ "#" ++ toString k, e)
      | _ => none

def fullTable : List (String × Expr) := Gen.C17.table ++ altTable ++ Gen.C17Geo.table

/-- `@rect width=<bits> height=<bits>`: the polygon `shapes.rectangle(width, height)` as the model sees it - corner
    coordinates, `bounds`, the translated `width` / `height` properties evaluated on these bounds, shoelace area -/
def rectLine (rest : List String) : String :=
  match rest.mapM EvalDriver.parseBinding with
  | none => "bad-op"
  | some env =>
    let ρ := envOf (0.0 / 0.0 : Float) env
    let pts := C17Geom.evalCorners ρ Gen.C17Geo.rectangle_corners
    let b := C17Geom.bounds pts
    let be := C17Geom.boundsEnv pts
    let nums := pts.flatMap (fun p => [p.1, p.2]) ++ [b.1, b.2.1, b.2.2.1, b.2.2.2,
      Gen.C17Geo.shape_width_e.eval be, Gen.C17Geo.shape_height_e.eval be, C17Geom.shoelaceArea pts]
    " ".intercalate (nums.map floatToBitsStr)

def handleLine (line : String) : String :=
  match Proto.toks line with
  | "@rect" :: rest => rectLine rest
  | _ => EvalDriver.handle fullTable line

partial def loop (h : IO.FS.Stream) : IO Unit := do
  let line ← h.getLine
  if line.isEmpty then return ()
  IO.println (handleLine (line.trimAscii.toString))
  loop h

/-- Float evaluation of the formulas generated for C17 (see PyrollModel/EvalDriver.lean for the protocol). -/
def main : IO Unit := do loop (← IO.getStdin)
