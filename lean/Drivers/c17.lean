import PyrollModel.Gen.C17
import PyrollModel.EvalDriver
/-- one evaluable entry `<name>#<k>` per FORMULA alternative `k` (index in `Impl.alts`) of every translated
    implementation, so that the harness can run each guarded branch against the python function it came from -/
def altTable : List (String × Expr) :=
  Gen.C17.impls.flatMap fun (n, i) =>
    i.alts.zipIdx.filterMap fun (a, k) =>
      match a.2 with
      | .expr e => some (n ++ "#" ++ toString k, e)
      | _ => none

/-- Float evaluation of the formulas generated for C17 (see PyrollModel/EvalDriver.lean for the protocol). -/
def main : IO Unit := EvalDriver.main (Gen.C17.table ++ altTable)
