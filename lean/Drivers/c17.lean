import PyrollModel.Gen.C17
import PyrollModel.EvalDriver
/-- Float evaluation of the formulas generated for C17 (see PyrollModel/EvalDriver.lean for the protocol). -/
def main : IO Unit := EvalDriver.main Gen.C17.table
