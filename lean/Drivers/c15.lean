import PyrollModel.FactoryDriver
/-- `lake env lean --run Drivers/c15.lean` : line-protocol driver of the profile-factory model (C15). -/
def main : IO Unit := FactoryDriver.main
