import PyrollProofs.FailureLemmas
import PyrollProofs.FailureTwin
import PyrollModel.HookSource

/-!
# C07 — a failed hook evaluation raises the documented error and leaves no residue

Model: `PyrollModel/Failure.lean` (tied to `pyroll/core/hooks.py` — `_all_finite`, `Hook.__get__`, `Hook.get_result`,
`HookFunction.__call__`, `HookHost.has_value` — by the source-level tie of section 0 (T) and by the correspondence harness
`driver/props/c07.py` (K)).
Only property theorems live here; helper lemmas are in `PyrollProofs/FailureLemmas.lean`.

Reading guide.  `eval P n st (.read i h)` is `Hook.__get__` of hook `h` on instance `i` with `n` stack frames left;
`getResult` is the call `self.get_result(instance)` inside it; implementations are arbitrary programs `P.body f`
(nested reads of any instance, `has_value` guards, `cycle` branches, any result, any exception), so every theorem
quantifies over all nesting depths and all positions at which a failure can strike.
-/

-- every unfolding of `eval` names the lemmas about the generated source tables, whether the goal has that case or not
set_option linter.unusedSimpArgs false

namespace Failure

/-! ## 0. the tie of the hand-written model to the source (T)

`pyroll/core/hooks.py` is re-read on every run of `./check C07` (`driver/translate/hooks_skeleton.py` →
`PyrollModel/Gen/C07Hooks.lean`).

* `hooks_source_consumed` - `post` (the conversions of `Hook.__get__`: which outcome of `get_result` becomes which
  exception, in source order), `stored` (how many of them precede the write to `__cache__`) and `unmark` (the discard of the
  re-entrancy mark: in `finally`, unless the call was a cycled one) are the model's functions INSTANTIATED with the
  generated tables; `eval`, and therefore every theorem below, is about this instance.  The theorem states what the
  instance is; the proofs (`PyrollProofs/FailureLemmas.lean`: `post_gen`, `stored_gen`, `unmark_gen`) rest on it.
* `hooks_source_as_modelled` - the statements of `_all_finite`, `HookFunction.__call__`, `_determine_extra_args`,
  `HookFunction.cycle`, `Hook.__get__` (explicit-value and remembered-value part; the computing part is covered by the
  consumed facts, whose recogniser accepts nothing else), `Hook.get_result`, `HookHost.has_value` in canonical form are the
  ones the model was written against (`PyrollModel/HookSource.lean`), with every writer of `__dict__`, `__cache__`,
  `_active_instances` anywhere in the file outside the functions that C01 / C02 / C12 mirror (`reevaluate_cache`,
  `evaluate_and_set_hooks`, `extension_class`, `__copy__`, `__deepcopy__`). -/

/-- **Source tie, consumed part** -/
theorem hooks_source_consumed :
    (∀ r, post r = postRef r) ∧ (∀ r, stored r = post r) ∧
    (∀ st1 f i cyc r, unmark st1 f i cyc r = if cyc then st1 else st1.setMark f i false) :=
  ⟨fun r => congrFun post_gen r, stored_gen, unmark_gen⟩

/-- the model really follows the tables: without the `except RecursionError` entry the RecursionError escapes; with the
    store moved in front of the finiteness test a non-finite value reaches the store; with the discard after the `try` an
    exception leaves the mark set -/
example : postWith [("is None", "AttributeError"), ("not _all_finite", "ValueError")] (.exc .recursionError)
      = .exc .recursionError ∧
    postWith ([("except RecursionError", "AttributeError"), ("is None", "AttributeError"),
      ("not _all_finite", "ValueError")].take 2) (.val (.flt .nan)) = .val (.flt .nan) ∧
    postWith [("except RecursionError", "AttributeError"), ("is None", "AttributeError"),
      ("not _all_finite", "ValueError")] (.val (.flt .nan)) = .exc .valueError := by decide

/-- **Source tie, pinned part**: the mirrored statements; the explicit value and the remembered value are looked up by
    name in `__dict__` then `__cache__` and count when they are `is not None`; a computed value is stored in `__cache__`; a
    result of an implementation is final when it `is not None`; the mark is `id(instance)`, `cycle` is computed before the
    mark is set, the mark is set before the `try` -/
theorem hooks_source_as_modelled :
    Gen.C07.Hooks.hook_getExplicit = HookSource.hook_getExplicit ∧
    Gen.C07.Hooks.hook_getCached = HookSource.hook_getCached ∧
    Gen.C07.Hooks.allFinite = HookSource.allFinite ∧
    Gen.C07.Hooks.hookFunction_cycle = HookSource.hookFunction_cycle ∧
    Gen.C07.Hooks.hookFunction_call = HookSource.hookFunction_call ∧
    Gen.C07.Hooks.hookFunction_determineExtraArgs = HookSource.hookFunction_determineExtraArgs ∧
    Gen.C07.Hooks.hook_getResult = HookSource.hook_getResult ∧
    Gen.C07.Hooks.hookHost_hasValue = HookSource.hookHost_hasValue ∧
    Gen.C07.Hooks.stateWriters = (HookSource.writersOf ["__dict__", "__cache__", "_active_instances"]).filter
      (fun w => !(["HookHost.reevaluate_cache", "HookHost.evaluate_and_set_hooks", "HookHost.extension_class",
        "HookHost.__copy__", "HookHost.__deepcopy__"].contains w.1)) ∧
    Gen.C07.Hooks.classMembers = HookSource.membersOf ["HookFunction()"] ∧
    Gen.C07.Hooks.getLookups = [("__dict__", "is not None"), ("__cache__", "is not None")] ∧
    Gen.C07.Hooks.getStore = "__cache__" ∧ Gen.C07.Hooks.getResultTest = "is not None" ∧
    Gen.C07.Hooks.callKey = "id(instance)" ∧ Gen.C07.Hooks.callCycleBeforeMark = true ∧
    Gen.C07.Hooks.callMarkBeforeTry = true ∧ Gen.C07.Hooks.callDiscardClause = "finally" := by
  refine ⟨?_, ?_, ?_, ?_, ?_, ?_, ?_, ?_, ?_, ?_, ?_, ?_, ?_, ?_, ?_, ?_, ?_⟩ <;> first | rfl | decide


/-- the call `self.get_result(instance)` made by `Hook.__get__` when neither `__dict__` nor `__cache__` has a value -/
def getResult (P : Prog) (n : Nat) (st : St) (i h : Nat) : Res × St :=
  eval P n (st.enter i h) (.chain i h (P.chain h))

/-- `Hook.__get__` has to compute: no explicit and no remembered value -/
def Computes (st : St) (i h : Nat) : Prop := present (st.dict i h) = none ∧ present (st.cache i h) = none

/-- `Hook.__get__`, when it has to compute, is `post` (the three checks) of `get_result`, and it stores only then. -/
theorem read_computes (P : Prog) (n : Nat) (st : St) (i h : Nat) (hc : Computes st i h) :
    eval P (n + 1) st (.read i h) =
      (post (getResult P n st i h).1,
       store ((getResult P n st i h).2.setReading i h (st.reading i h)) i h (post (getResult P n st i h).1)) := by
  simp only [eval, unmark_gen, stored_gen, errTask_gen, finish, hc.1, hc.2, getResult]

/-! ### 0b. the error paths (T): what the construction of the exception evaluates

`driver/translate/c07_errpath.py` reads, for every block of `Hook.__get__` that is entered when a check on the outcome of
`get_result` fails, what the block evaluates: the format fields of the message, the arguments of the exception and of `logger`
calls, any other statement (`PyrollModel/Gen/C07ErrPath.lean`).  `self.name`, `type(instance).__name__` are effect-free;
`{instance}` is `str(instance)`, resolved against every `__str__` of the package's host classes (type name and plain data
attributes only); `{instance!r}`, `instance.__attrs__`, `f(instance)` are evaluations ON the instance.  The model's
`Hook.__get__` ends with the step `finish (errTask P i r)`: when the entry of the failing check in `onInstance` is not empty it
runs the instance's `__attrs__` program before raising. -/

/-- **Source tie, consumed part (error paths)**: for the tables as generated the error-path step does nothing - no failing
    check evaluates anything on the instance -; the blocks read are exactly the checks the model applies (same conditions, same
    exceptions, same order as `getChecks`, which comes from the other extractor); the `except` / `finally` clauses of
    `HookFunction.__call__` and `has_value` evaluate nothing on the instance either. -/
theorem error_path_source_consumed :
    (∀ (P : Prog) (i : Nat) (r : Res), errTask P i r = none) ∧
    Gen.C07.ErrPath.raises.map (fun p => (p.1, p.2.1)) = Gen.C07.Hooks.getChecks ∧
    Gen.C07.ErrPath.onInstance.length = Gen.C07.Hooks.getChecks.length ∧
    Gen.C07.ErrPath.onInstance.all List.isEmpty = true ∧
    Gen.C07.ErrPath.strEvaluates = [] ∧ Gen.C07.ErrPath.callHandlers = [] :=
  ⟨errTask_gen, by decide, by decide, by decide, by decide, by decide⟩

/-- a host whose `__attrs__` reads hook 1 (as a roll pass reads `gap`); hook 0 yields nan, hook 1 yields 2 -/
def attrsProg : Prog :=
  { chain := fun h => [h]
    body := fun f => if f = 0 then .ret (.flt .nan) else .ret (.int 2)
    attrs := fun _ => .read none 1 (.ret .none) }

/-- the same host, but nothing provides hook 1 (a roll pass without gap and height) -/
def attrsProgIncomplete : Prog :=
  { chain := fun h => if h = 0 then [0] else []
    body := fun _ => .ret (.flt .nan)
    attrs := fun _ => .read none 1 (.ret .none) }

/-- the table of a source whose ValueError message formats the instance with `!r` -/
def reprTable : List (List String) := [[], [], ["repr(instance)"]]

/-- the model really follows the table: for that source the failing finiteness check runs the `__attrs__` program, the other
    checks and successful reads do not; for the generated table nothing is run -/
example : errTaskWith reprTable Gen.C07.Hooks.getChecks attrsProg 0 (.val (.flt .nan)) = some (.read none 1 (.ret .none)) ∧
    errTaskWith reprTable Gen.C07.Hooks.getChecks attrsProg 0 (.val .none) = none ∧
    errTaskWith reprTable Gen.C07.Hooks.getChecks attrsProg 0 (.val (.int 3)) = none ∧
    errTaskWith reprTable Gen.C07.Hooks.getChecks attrsProg 0 (.exc (.other 3)) = none ∧
    errTaskWith [["instance.__attrs__"], [], []] Gen.C07.Hooks.getChecks attrsProg 0 (.exc .recursionError)
      = some (.read none 1 (.ret .none)) ∧
    errTask attrsProg 0 (.val (.flt .nan)) = none := by decide

/-- a computing `Hook.__get__` whose error paths are those of the table `tbl` (the reads nested inside: as generated) -/
def readWithErrTable (tbl : List (List String)) (P : Prog) (n : Nat) (st : St) (i h : Nat) : Res × St :=
  finish (errTaskWith tbl Gen.C07.Hooks.getChecks P i (getResult P n st i h).1) (eval P n) i (post (getResult P n st i h).1)
    (store ((getResult P n st i h).2.setReading i h (st.reading i h)) i h (stored (getResult P n st i h).1))

/-- … with the generated table it is the model's `Hook.__get__` -/
theorem readWithErrTable_generated (P : Prog) (n : Nat) (st : St) (i h : Nat) (hc : Computes st i h) :
    readWithErrTable Gen.C07.ErrPath.onInstance P n st i h = eval P (n + 1) st (.read i h) := by
  simp only [eval, hc.1, hc.2, getResult, readWithErrTable, errTask]

example : Computes init 0 0 := ⟨rfl, rfl⟩

/-- **Why the error path must evaluate nothing on the instance** (the obligation `errTask_gen` is not idle): with a message
    that formats the instance with `repr`, on a host whose `__attrs__` reads a hook, (1) the failing read still raises
    ValueError but the hook read while building the message is remembered - a residue of the failed read, which the model with
    the generated table does not leave -; (2) if that hook has no value, the documented ValueError is replaced by the
    AttributeError raised while the message is built.  Replayed on the implementation by the oracle stream `hosts`. -/
theorem error_path_evaluation_leaves_residue :
    (readWithErrTable reprTable attrsProg 10 init 0 0).1 = .exc .valueError ∧
    (readWithErrTable reprTable attrsProg 10 init 0 0).2.cache 0 1 = some (.int 2) ∧
    (readHook attrsProg 11 init 0 0).1 = .exc .valueError ∧
    (readHook attrsProg 11 init 0 0).2.cache 0 1 = none ∧
    (readWithErrTable reprTable attrsProgIncomplete 10 init 0 0).1 = .exc .attributeError ∧
    (readHook attrsProgIncomplete 11 init 0 0).1 = .exc .valueError := by decide

/-- The construction of the error leaves the state alone: a computing read that fails - whichever check converts the
    outcome, or an exception of an implementation passing through - ends in exactly the state `get_result` left (the ghost
    `reading` reset): nothing is evaluated, stored or marked after `get_result` returned. -/
theorem failed_read_leaves_state_of_get_result (P : Prog) (n : Nat) (st : St) (i h : Nat) (hc : Computes st i h) (e : Exc)
    (hf : post (getResult P n st i h).1 = .exc e) :
    eval P (n + 1) st (.read i h) = (.exc e, (getResult P n st i h).2.setReading i h (st.reading i h)) := by
  rw [read_computes P n st i h hc, hf]; rfl

example : post (getResult attrsProg 10 init 0 0).1 = .exc .valueError ∧
    post (getResult attrsProgIncomplete 10 init 0 1).1 = .exc .attributeError := by decide

/-! ## 1. the documented error -/

/-- The finiteness test of the code (`_all_finite`: `np.isfinite(value).all()`, element-wise for sequences that numpy
cannot take as a whole) decides exactly the specification: no float reachable through lists, tuples and arrays is
nan or ±inf.  (False for the code before the repair 804eb69: `['a', nan]` counted as finite.) -/
theorem allFinite_spec (v : Val) : allFinite v = leavesFinite v := (af_spec v).1

example : allFinite (.cons (.str 0) (.cons (.flt .nan) (.nil false))) = false := by decide
example : allFinite (.cons (.int 1) (.cons (.cons (.int 2) (.cons (.int 3) (.nil true))) (.nil true))) = true := by decide

/-- no implementation yields a value ⇒ AttributeError, and the failing `__get__` adds nothing to what `get_result` left -/
theorem none_is_attribute_error (P : Prog) (n : Nat) (st : St) (i h : Nat) (hc : Computes st i h)
    (hr : (getResult P n st i h).1 = .val .none) :
    (eval P (n + 1) st (.read i h)).1 = .exc .attributeError ∧
    (eval P (n + 1) st (.read i h)).2.cache = (getResult P n st i h).2.cache := by
  rw [read_computes P n st i h hc, hr]
  exact ⟨rfl, rfl⟩

/-- a hook without implementations: `get_result` returns None -/
example (P : Prog) (n : Nat) (st : St) (i h : Nat) (hP : P.chain h = []) :
    (getResult P (n + 1) st i h).1 = .val .none := by
  simp [getResult, hP, eval]

/-- a result that is, or contains (lists, tuples, arrays, any nesting), a non-finite number ⇒ ValueError; nothing stored -/
theorem nonfinite_is_value_error (P : Prog) (n : Nat) (st : St) (i h : Nat) (hc : Computes st i h) (v : Val)
    (hr : (getResult P n st i h).1 = .val v) (hv : leavesFinite v = false) :
    (eval P (n + 1) st (.read i h)).1 = .exc .valueError ∧
    (eval P (n + 1) st (.read i h)).2.cache = (getResult P n st i h).2.cache := by
  rw [read_computes P n st i h hc, hr]
  have hn : v ≠ .none := by intro h'; subst h'; simp [leavesFinite] at hv
  have : post (.val v) = .exc .valueError := by
    rw [post_gen]; unfold postRef
    split
    · next heq => cases heq
    · next heq => cases heq
    · next heq => cases heq; exact absurd rfl hn
    · next heq => cases heq; simp [allFinite_spec, hv]
  rw [this]
  exact ⟨rfl, rfl⟩

example : leavesFinite (.cons (.int 1) (.cons (.cons (.int 2) (.cons (.flt .pinf) (.nil false))) (.nil true))) = false := by
  decide
example : leavesFinite (.arr [.fin 1, .nan]) = false := by decide

/-- every other result passes and is remembered: finite numbers and containers of them … -/
theorem finite_passes (P : Prog) (n : Nat) (st : St) (i h : Nat) (hc : Computes st i h) (v : Val)
    (hr : (getResult P n st i h).1 = .val v) (hn : v ≠ .none) (hv : leavesFinite v = true) :
    (eval P (n + 1) st (.read i h)).1 = .val v ∧ (eval P (n + 1) st (.read i h)).2.cache i h = some v := by
  rw [read_computes P n st i h hc, hr]
  have : post (.val v) = .val v := by
    rw [post_gen]; unfold postRef
    split
    · next heq => cases heq
    · next heq => cases heq
    · next heq => cases heq; exact absurd rfl hn
    · next heq => cases heq; simp [allFinite_spec, hv]
  rw [this]
  exact ⟨rfl, by simp [store, St.setCache]⟩

/-- … and everything that is not a number: strings, sets, geometry objects, callables (whatever they hold) -/
def Val.nonNumeric : Val → Prop
  | .str _ | .set _ | .geom _ | .fn _ => True
  | _ => False

theorem non_numeric_passes (P : Prog) (n : Nat) (st : St) (i h : Nat) (hc : Computes st i h) (v : Val)
    (hr : (getResult P n st i h).1 = .val v) (hv : v.nonNumeric) :
    (eval P (n + 1) st (.read i h)).1 = .val v ∧ (eval P (n + 1) st (.read i h)).2.cache i h = some v := by
  apply finite_passes P n st i h hc v hr <;> cases v <;> simp_all [Val.nonNumeric, leavesFinite]

example : (Val.set 3).nonNumeric := trivial

/-- A read never fails with RecursionError: whatever raised it (the recursion limit, or an implementation), the
innermost `Hook.__get__` whose `get_result` it leaves converts it. -/
theorem read_never_recursion_error (P : Prog) (n : Nat) (st : St) (i h : Nat) :
    (eval P (n + 1) st (.read i h)).1 ≠ .exc .recursionError := by
  simp only [eval, unmark_gen, stored_gen, errTask_gen, finish]
  split
  · simp
  · split
    · simp
    · generalize (eval P n (st.enter i h) (.chain i h (P.chain h))).1 = r
      rw [post_gen]; unfold postRef
      split <;> simp_all
      split <;> simp

/-- Runaway recursion fails with AttributeError: if the recursion limit is reached anywhere inside a read of a
program without `has_value` guards (at any depth, in any implementation), that read raises AttributeError. -/
theorem runaway_is_attribute_error (P : Prog) (hP : ∀ f, (P.body f).guardFree = true) (n : Nat) (st : St) (i h : Nat)
    (h0 : st.hitLimit = false) (h1 : (readHook P (n + 1) st i h).2.hitLimit = true) :
    (readHook P (n + 1) st i h).1 = .exc .attributeError := by
  rcases limit_propagates P hP (n + 1) st (.read i h) rfl h0 h1 with e | e
  · exact absurd e (read_never_recursion_error P n st i h)
  · exact e

/-- two hooks defined by each other -/
def pingPong : Prog := { chain := fun h => [h], body := fun f => .read none (1 - f) (.retAcc 1) }

example : ∀ f, (pingPong.body f).guardFree = true := fun _ => rfl
example : (readHook pingPong 30 init 0 0).2.hitLimit = true := by decide

/-- … for EVERY recursion limit: mutual recursion between two hooks raises AttributeError, remembers nothing, marks nothing -/
theorem runaway_mutual_recursion (n i h : Nat) :
    (readHook pingPong (n + 1) init i h).1 = .exc .attributeError ∧
    (readHook pingPong (n + 1) init i h).2.cache = init.cache ∧
    (readHook pingPong (n + 1) init i h).2.marks = init.marks := by
  have key : ∀ n (st : St) (task : Task), st.dict = init.dict → st.cache = init.cache →
      (match task with | .read _ _ => True | .chain _ _ fs => fs ≠ [] | .body _ _ _ _ b => ∃ r k c, b = .read r k c) →
      (eval pingPong n st task).1.isLimitErr ∧ (eval pingPong n st task).2.cache = init.cache := by
    intro n
    induction n with
    | zero => intro st task _ hc _; simp only [eval, unmark_gen, stored_gen, errTask_gen, finish]; exact ⟨.inl rfl, hc⟩
    | succ n ih =>
      intro st task hd hc ht
      cases task with
      | read i h =>
        have hcomp : Computes st i h := by simp [Computes, hd, hc, init, present]
        rw [read_computes pingPong n st i h hcomp]
        obtain ⟨h1, h2⟩ := ih (st.enter i h) (.chain i h (pingPong.chain h)) hd hc (by simp [pingPong])
        rcases h1 with e | e <;> simp only [getResult, e, post_gen, postRef, store, St.setReading] <;> exact ⟨.inr rfl, h2⟩
      | chain i h fs =>
        cases fs with
        | nil => simp at ht
        | cons f fs =>
          simp only [eval, unmark_gen, stored_gen, errTask_gen, finish]
          obtain ⟨h1, h2⟩ := ih (st.setMark f i true) (.body f i (st.marks f i) 0 (pingPong.body f)) hd hc
            ⟨none, 1 - f, .retAcc 1, rfl⟩
          generalize eval pingPong n (st.setMark f i true) (.body f i (st.marks f i) 0 (pingPong.body f)) = res at h1 h2
          obtain ⟨r, st1⟩ := res
          have h3 : (if st.marks f i = true then st1 else st1.setMark f i false).cache = init.cache := by
            split <;> exact h2
          rcases h1 with e | e <;> simp only at e <;> subst e <;> exact ⟨by first | exact .inl rfl | exact .inr rfl, h3⟩
      | body f i cyc acc b =>
        obtain ⟨r, k, c, hb⟩ := ht
        subst hb
        simp only [eval, unmark_gen, stored_gen, errTask_gen, finish]
        obtain ⟨h1, h2⟩ := ih st (.read (resolve i r) k) hd hc trivial
        generalize eval pingPong n st (.read (resolve i r) k) = res at h1 h2
        obtain ⟨r1, st1⟩ := res
        rcases h1 with e | e <;> simp only at e <;> subst e <;> exact ⟨by first | exact .inl rfl | exact .inr rfl, h2⟩
  refine ⟨?_, (key (n + 1) init (.read i h) rfl rfl trivial).2, (frame_readHook pingPong (n + 1) init i h).marks⟩
  rcases (key (n + 1) init (.read i h) rfl rfl trivial).1 with e | e
  · exact absurd e (read_never_recursion_error pingPong n init i h)
  · exact e

/-- With a `has_value` guard the statement is not true of the code (nor of the model): `hasattr` swallows the
AttributeError near the limit and the read yields a value that depends on the depth at which the limit struck.
Replayed on the implementation (corpus case `runaway-guarded`). -/
def guardedPingPong : Prog :=
  { chain := fun h => [h]
    body := fun f => if f = 0 then .ifHas none 1 (.read none 1 (.retAcc 1)) (.ret (.int 7)) else .read none 0 (.retAcc 1) }

theorem guarded_runaway_yields_a_value :
    (readHook guardedPingPong 30 init 0 0).2.hitLimit = true ∧ (readHook guardedPingPong 30 init 0 0).1 = .val (.int 15) ∧
    (readHook guardedPingPong 40 init 0 0).1 = .val (.int 19) := by decide

/-! ## 2. no residue -/

/-- Re-entrancy marks: after ANY evaluation — a read, the rest of a chain, the rest of an implementation body; whatever
its outcome (value, AttributeError, ValueError, any other exception, the recursion limit), at any nesting depth — the
marks of all implementations on all instances are what they were before, and `__dict__` is untouched. -/
theorem marks_restored (P : Prog) (n : Nat) (st : St) (task : Task) :
    (eval P n st task).2.marks = st.marks ∧ (eval P n st task).2.dict = st.dict :=
  ⟨(frame_eval P n st task).marks, (frame_eval P n st task).dict⟩

/-- … hence between operations from outside nothing is ever marked, whatever failed in the history -/
theorem never_marked_outside (P : Prog) (fuel : Nat) (ops : List Op) :
    (run P fuel init ops).2.marks = fun _ _ => false := by
  rw [run_marks]; rfl

/-- a BaseException three levels down, on a second instance -/
def deepFail : Prog :=
  { chain := fun h => [h]
    body := fun f => if f = 0 then .read (some 1) 1 (.retAcc 0) else if f = 1 then .read none 2 (.retAcc 0)
                     else .raise (.other 5) }

example : (readHook deepFail 20 init 0 0).1 = .exc (.other 5) := by decide

/-- A failed read remembers nothing (a): the cache entries that differ afterwards hold valid values (not None, finite) —
they were stored by successful nested reads; the failing `__get__` frames store nothing (see also
`none_is_attribute_error`, `nonfinite_is_value_error`: state = state after `get_result`). -/
theorem failed_read_stores_no_invalid_value (P : Prog) (n : Nat) (st : St) (i h : Nat) (j k : Nat) :
    (readHook P n st i h).2.cache j k = st.cache j k ∨
    ∃ v, (readHook P n st i h).2.cache j k = some v ∧ v ≠ .none ∧ leavesFinite v = true := by
  rcases (frame_readHook P n st i h).cache j k with e | ⟨v, h1, h2, h3⟩
  · exact .inl e
  · exact .inr ⟨v, h1, h2, by rw [← allFinite_spec]; exact h3⟩

/-- A failed read remembers nothing (b): the entry of the hook that failed is unchanged, unless that very hook was read
again — and had to be computed again — while it was being computed (`reentered`; then the nested read is a read of its
own, see `reentrant_read_is_remembered`). -/
theorem failed_read_remembers_nothing (P : Prog) (n : Nat) (st : St) (i h : Nat) (e : Exc)
    (hfail : (readHook P n st i h).1 = .exc e) (hre : (readHook P n st i h).2.reentered = false) :
    (readHook P n st i h).2.cache i h = st.cache i h := by
  cases n with
  | zero => simp [readHook, eval]
  | succ n =>
    simp only [readHook, eval, unmark_gen, stored_gen, errTask_gen, finish] at hfail hre ⊢
    split at hfail
    · cases hfail
    · split at hfail
      · cases hfail
      · rename_i hd _ hc
        simp only [hd, hc] at hre ⊢
        have ho := own_entry P i h n (st.enter i h) (.chain i h (P.chain h)) (by simp [St.enter])
        generalize eval P n (st.enter i h) (.chain i h (P.chain h)) = res at ho hfail hre
        obtain ⟨r, st1⟩ := res
        simp only at ho hfail hre ⊢
        rw [hfail] at hre ⊢
        simp only [store, St.setReading] at hre ⊢
        exact ho hre

example : (readHook deepFail 20 init 0 0).2.reentered = false ∧ (readHook deepFail 20 init 0 0).2.cache 0 0 = none := by
  decide

/-- The explicit boundary of (b): an implementation that branches on `cycle` lets a nested, re-entrant read of the same
hook succeed; that nested read is remembered although the outer read of the hook fails. -/
def cycProg : Prog :=
  { chain := fun h => [h]
    body := fun f => if f = 0 then .ifCycle (.ret (.int 5)) (.read none 1 (.raise (.other 3)))
                     else .read none 0 (.retAcc 1) }

theorem reentrant_read_is_remembered :
    (readHook cycProg 20 init 0 0).1 = .exc (.other 3) ∧ (readHook cycProg 20 init 0 0).2.reentered = true ∧
    (readHook cycProg 20 init 0 0).2.cache 0 0 = some (.int 5) := by decide

/-- Twin equivalence.  If the failed read left the caches as they were (no nested read computed a value), every later
history of operations behaves exactly as if the failed read had not happened: same outcomes, same observable state.
(Marks and `__dict__` need no hypothesis — `marks_restored`.) -/
theorem no_residue (P : Prog) (fuel : Nat) (st : St) (i h : Nat) (e : Exc)
    (_hfail : (readHook P fuel st i h).1 = .exc e)
    (hcache : (readHook P fuel st i h).2.cache = st.cache) (ops : List Op) :
    (run P fuel (readHook P fuel st i h).2 ops).1 = (run P fuel st ops).1 ∧
    CoreEq (run P fuel (readHook P fuel st i h).2 ops).2 (run P fuel st ops).2 := by
  have hf := frame_readHook P fuel st i h
  exact run_core P fuel ops _ _ ⟨hf.dict, hcache, hf.marks⟩

example : (readHook deepFail 20 init 0 0).2.cache 1 1 = init.cache 1 1 := by decide
example : (readHook pingPong 20 init 0 0).2.cache = init.cache := (runaway_mutual_recursion 19 0 0).2.1

/-- Twin equivalence when nested reads DID succeed inside the failed read (they are reads of their own and are
remembered).  For a program that never branches on `cycle`, started in a state whose remembered values are coherent
(`CohD`: each is what its hook evaluates to from `__dict__`; true of the empty cache and after `clear`), a failed read
that stayed below the recursion limit changes no later answer: every history of questions (reads, `has_value`,
forgetting) gets the same outcomes as if the failed read had not happened — both are the reference answers
`refOut`, a function of `__dict__` alone.  Hypotheses explicit; `no_residue_full_false` shows the first is needed. -/
theorem no_residue_coherent (P : Prog) (hP : ∀ f, (P.body f).cycleFree = true) (fuel : Nat) (st : St)
    (hc : CohD P st.dict st.cache) (i h : Nat) (e : Exc) (_hfail : (readHook P fuel st i h).1 = .exc e)
    (hlim : (pev P st.dict fuel (.read i h)).2 = false)
    (ops : List Op) (hq : ∀ op ∈ ops, op.isQuery = true) (hl : RefBelowLimit P st.dict fuel ops) :
    (run P fuel (readHook P fuel st i h).2 ops).1 = (run P fuel st ops).1 := by
  have hs := sim P hP st.dict fuel st (.read i h) _ rfl rfl hc (Prod.ext rfl hlim)
  have hd' := (frame_readHook P fuel st i h).dict
  rw [coherent_run P hP st.dict fuel ops _ hq hd' hs.2 hl, coherent_run P hP st.dict fuel ops st hq rfl hc hl]

/-- a failed read inside which a nested read succeeded: `no_residue` does not apply, `no_residue_coherent` does -/
def nestFail : Prog :=
  { chain := fun h => [h]
    body := fun f => if f = 0 then .read none 1 (.raise (.other 3)) else .ret (.int 3) }

example : (readHook nestFail 20 init 0 0).1 = .exc (.other 3) ∧
    (readHook nestFail 20 init 0 0).2.cache 0 1 = some (.int 3) ∧
    (pev nestFail init.dict 20 (.read 0 0)).2 = false := by decide

example : (run nestFail 20 (readHook nestFail 20 init 0 0).2 [.read 0 1, .has 0 0, .clear, .read 0 0]).1 =
    (run nestFail 20 init [.read 0 1, .has 0 0, .clear, .read 0 0]).1 :=
  no_residue_coherent nestFail (by intro f; unfold nestFail; simp only []; split <;> rfl) 20 init (init_coherent _)
    0 0 (.other 3) (by decide) (by decide) _ (by decide) (by decide)

/-- The statement without the hypothesis … -/
def NoResidueFull : Prop :=
  ∀ (P : Prog) (fuel : Nat) (st : St) (i h : Nat) (e : Exc) (ops : List Op),
    (readHook P fuel st i h).1 = .exc e →
    (run P fuel (readHook P fuel st i h).2 ops).1 = (run P fuel st ops).1

/-- … is false, of the model and of the code (corpus case `cycle-residue` replays it on the implementation): values
remembered by successful nested reads may depend on the `cycle` flags of the frames that later fail. -/
theorem no_residue_full_false : ¬ NoResidueFull := by
  intro h
  have := h cycProg 20 init 0 0 (.other 3) [.read 0 0] (by decide)
  revert this
  decide

end Failure
