import PyrollModel.Gen.C04Stored
import PyrollProps.C04

/-!
# C04 — the values a groove object *reports* (stored on the object, handed out by its public properties)

`PyrollProps/C04.lean` is about what a constructor hands to `GenericElongationGroove.__init__` (`plumb_*`).  A groove class
may keep further values on the object and hand them out through public properties — `DiamondGroove` / `SquareGroove`:
`tip_depth`, `tip_angle`; `EquivalentRibbedGroove`: the rib data; the generic class: `usable_width`, `width`, `depth`.  When
such a value is *derived* (the member of the tip triangle that was not given) it must satisfy the same defining relation as
the values that go into the contour, whichever subset was given.

Everything below is about `PyrollModel/Gen/C04Stored.lean`, GENERATED on every run by `driver/translate/c04_stored.py`:
`stored_<Class>_<k>` (attribute ↦ expression stored, per None-pattern `k`, numbering of `plumb_<Class>_<k>`),
`getters_<Class>` (public property ↦ what its body returns, over `self.<attribute>`), and their composition
`reported_<Class>_<k>` (public name ↦ the value the finished object reports, over the constructor's own parameters, in the
unit in which the property hands it out).  The statements take the reported tip angle / tip depth from these lists — not
from a formula written here —, so a change of a stored expression or of a getter (a sign, a dropped or added unit
conversion, the wrong local stored) changes the generated term and the theorem stops building.

Also here (about the generated chain of `Gen/C04Groove.lean`): `face_end_on_face_line` — the end point `(z0, y0)` of the roll
face, the outermost vertex the object reports, lies on the face line whatever padding (`pad` / `rel_pad`) was given.
-/

open Gen.C04 Gen.C04.Groove Gen.C04.Stored GrooveC04
set_option linter.unusedSimpArgs false
set_option linter.unusedVariables false
set_option linter.unusedTactic false
set_option linter.unreachableTactic false
set_option linter.unnecessarySeqFocus false

namespace C04

local macro "norm_env" : tactic => `(tactic| simp only [Expr.eval, PyNum.nat_real, PyNum.sin_real, PyNum.cos_real,
  PyNum.tan_real, PyNum.acos_real, PyNum.atan_real, PyNum.pi_real, String.reduceEq, reduceIte, if_true, Nat.cast_one,
  Nat.cast_ofNat, Nat.cast_zero] at *)

/-- closes an echo / a linear identity whichever way the source happens to write the term (`π − 2·(π/2 − t/2)` for `t`) -/
local macro "triv" : tactic => `(tactic| first | rfl | trivial | ring | linarith)

local macro "norm_rep" : tactic => `(tactic| simp only [DiamondOut, kw, plumb_DiamondGroove_1, plumb_DiamondGroove_2,
  plumb_DiamondGroove_3, reported_DiamondGroove_1, reported_DiamondGroove_2, reported_DiamondGroove_3,
  List.lookup, String.reduceBEq, Option.getD] at *)

section diamond
variable (ρ : String → ℝ)

/-- the value the finished diamond groove of pattern `l` reports under the public name `k` (`tip_depth`, `tip_angle`) -/
noncomputable abbrev rep (ρ : String → ℝ) (l : List (String × Expr)) (k : String) : ℝ := Expr.eval ρ (kw l k)

/-- **The tip triangle, as the object reports it.**  For each of the three admissible patterns (width+depth, width+angle,
    depth+angle) the values the finished object *reports* — `tip_depth` and `tip_angle` through its public properties (the
    generated `reported_DiamondGroove_k`; the angle in radians, the unit in which the property hands it out), the usable
    width, flank angle and depth handed to the generic constructor (`plumb_DiamondGroove_k`) — satisfy one and the same
    relation `DiamondRel`; the members that were given are reported as given (the angle converted from degrees exactly
    once). -/
theorem diamond_triangle (hw : ρ "usable_width" ≠ 0) :
    (DiamondRel (rep ρ plumb_DiamondGroove_1 "usable_width") (rep ρ reported_DiamondGroove_1 "tip_depth")
        (rep ρ reported_DiamondGroove_1 "tip_angle") (ρ "r2")
        (rep ρ plumb_DiamondGroove_1 "flank_angle") (rep ρ plumb_DiamondGroove_1 "depth")
      ∧ rep ρ plumb_DiamondGroove_1 "usable_width" = ρ "usable_width"
      ∧ rep ρ reported_DiamondGroove_1 "tip_depth" = ρ "tip_depth") ∧
    (DiamondRel (rep ρ plumb_DiamondGroove_2 "usable_width") (rep ρ reported_DiamondGroove_2 "tip_depth")
        (rep ρ reported_DiamondGroove_2 "tip_angle") (ρ "r2")
        (rep ρ plumb_DiamondGroove_2 "flank_angle") (rep ρ plumb_DiamondGroove_2 "depth")
      ∧ rep ρ plumb_DiamondGroove_2 "usable_width" = ρ "usable_width"
      ∧ rep ρ reported_DiamondGroove_2 "tip_angle" = ρ "tip_angle" * (Real.pi / 180)) ∧
    ((Real.tan (rep ρ plumb_DiamondGroove_3 "flank_angle") ≠ 0 →
      DiamondRel (rep ρ plumb_DiamondGroove_3 "usable_width") (rep ρ reported_DiamondGroove_3 "tip_depth")
        (rep ρ reported_DiamondGroove_3 "tip_angle") (ρ "r2")
        (rep ρ plumb_DiamondGroove_3 "flank_angle") (rep ρ plumb_DiamondGroove_3 "depth"))
      ∧ rep ρ reported_DiamondGroove_3 "tip_depth" = ρ "tip_depth"
      ∧ rep ρ reported_DiamondGroove_3 "tip_angle" = ρ "tip_angle" * (Real.pi / 180)) := by
  simp only [rep]
  norm_rep
  simp only [DiamondRel]
  norm_env
  refine ⟨⟨⟨?_, by ring, by triv⟩, by triv, by triv⟩, ⟨⟨by triv, by triv, by triv⟩, by triv, by triv⟩,
    ⟨fun ht => ⟨?_, by triv, by triv⟩, by triv, by triv⟩⟩
  · rw [Real.tan_arctan]; field_simp
  · generalize Real.tan _ = T at ht ⊢
    field_simp

/-- the relation in the form the harness checks on the reported values: half the tip angle, the tip depth and half the usable
    width form a right-angled triangle — `tan(tip_angle/2) · tip_depth = usable_width/2` (tip angle in radians) -/
theorem diamondRel_tan_half (uw td ta r2 fa depth : ℝ) (h : DiamondRel uw td ta r2 fa depth)
    (hs : Real.sin fa ≠ 0) (hc : Real.cos fa ≠ 0) : Real.tan (ta / 2) * td = uw / 2 := by
  obtain ⟨t1, t2, -⟩ := h
  have e : ta / 2 = Real.pi / 2 - fa := by linarith
  rw [e, Real.tan_pi_div_two_sub, t1, Real.tan_eq_sin_div_cos]
  field_simp

/-- … and the flank angle that goes into the contour is the complement of half the reported tip angle, the depth handed to
    the generic constructor the reported tip depth minus the rounding of the tip -/
theorem diamondRel_flank (uw td ta r2 fa depth : ℝ) (h : DiamondRel uw td ta r2 fa depth) :
    ta = Real.pi - 2 * fa ∧ depth = td - r2 / Real.cos fa + r2 := by
  obtain ⟨-, t2, t3⟩ := h
  exact ⟨by linarith, t3⟩

/-- **Reported values, all three patterns, in the harness's form** (`0 < usable_width`, `0 < tip_depth`,
    `0 < tip_angle < 180°`: the ranges of the three parameters): whatever pair was given, the reported values satisfy
    `tan(tip_angle/2) · tip_depth = usable_width/2`. -/
theorem diamond_reported_triangle (hw : 0 < ρ "usable_width") (hd : 0 < ρ "tip_depth")
    (ha0 : 0 < ρ "tip_angle") (ha1 : ρ "tip_angle" < 180) :
    Real.tan (rep ρ reported_DiamondGroove_1 "tip_angle" / 2) * rep ρ reported_DiamondGroove_1 "tip_depth"
        = rep ρ plumb_DiamondGroove_1 "usable_width" / 2 ∧
    Real.tan (rep ρ reported_DiamondGroove_2 "tip_angle" / 2) * rep ρ reported_DiamondGroove_2 "tip_depth"
        = rep ρ plumb_DiamondGroove_2 "usable_width" / 2 ∧
    Real.tan (rep ρ reported_DiamondGroove_3 "tip_angle" / 2) * rep ρ reported_DiamondGroove_3 "tip_depth"
        = rep ρ plumb_DiamondGroove_3 "usable_width" / 2 := by
  obtain ⟨⟨R1, -, -⟩, ⟨R2, -, -⟩, ⟨R3, -, -⟩⟩ := diamond_triangle ρ hw.ne'
  have hpi := Real.pi_pos
  -- the flank angle of every pattern lies strictly between 0 and π/2
  have r1 : 0 < rep ρ plumb_DiamondGroove_1 "flank_angle" ∧ rep ρ plumb_DiamondGroove_1 "flank_angle" < Real.pi / 2 := by
    simp only [rep]; norm_rep; norm_env
    refine ⟨?_, Real.arctan_lt_pi_div_two _⟩
    rw [← Real.arctan_zero]; exact Real.arctan_strictMono (by positivity)
  have r23 : 0 < Real.pi / 2 - ρ "tip_angle" * (Real.pi / 180) / 2 ∧
      Real.pi / 2 - ρ "tip_angle" * (Real.pi / 180) / 2 < Real.pi / 2 := by
    constructor
    · have : ρ "tip_angle" * (Real.pi / 180) < 180 * (Real.pi / 180) := by
        apply mul_lt_mul_of_pos_right ha1; positivity
      linarith
    · have : 0 < ρ "tip_angle" * (Real.pi / 180) := by positivity
      linarith
  have r2 : 0 < rep ρ plumb_DiamondGroove_2 "flank_angle" ∧ rep ρ plumb_DiamondGroove_2 "flank_angle" < Real.pi / 2 := by
    simp only [rep]; norm_rep; norm_env; exact r23
  have r3 : 0 < rep ρ plumb_DiamondGroove_3 "flank_angle" ∧ rep ρ plumb_DiamondGroove_3 "flank_angle" < Real.pi / 2 := by
    simp only [rep]; norm_rep; norm_env; exact r23
  have sc : ∀ x : ℝ, 0 < x ∧ x < Real.pi / 2 → Real.sin x ≠ 0 ∧ Real.cos x ≠ 0 := fun x hx =>
    ⟨(Real.sin_pos_of_pos_of_lt_pi hx.1 (by linarith [hx.2])).ne', (Real.cos_pos_of_mem_Ioo ⟨by linarith [hx.1], hx.2⟩).ne'⟩
  have t3 : Real.tan (rep ρ plumb_DiamondGroove_3 "flank_angle") ≠ 0 := by
    rw [Real.tan_eq_sin_div_cos]; exact div_ne_zero (sc _ r3).1 (sc _ r3).2
  exact ⟨diamondRel_tan_half _ _ _ _ _ _ R1 (sc _ r1).1 (sc _ r1).2,
    diamondRel_tan_half _ _ _ _ _ _ R2 (sc _ r2).1 (sc _ r2).2,
    diamondRel_tan_half _ _ _ _ _ _ (R3 t3) (sc _ r3).1 (sc _ r3).2⟩

/-! ### cross-subset on the reported values

Whatever produced a tuple satisfying `DiamondRel` (any of the three patterns, by `diamond_triangle`): a constructor that is
given two of the REPORTED values (`tip_angle` in degrees, as the constructor takes it: `ρ "tip_angle" · π/180 = ta`) reports
the same tip depth and tip angle again.  With `diamond_roundtrip_*` (same usable width, flank angle, depth, hence — by
`diamond_closure` — the same contour) this is the cross-subset clause for the values the object reports. -/

theorem diamond_reported_roundtrip_uw_td (uw td ta r2 fa depth : ℝ) (h : DiamondRel uw td ta r2 fa depth)
    (h1 : ρ "usable_width" = uw) (h2 : ρ "tip_depth" = td)
    (hw : uw ≠ 0) (hfa0 : 0 < fa) (hfa1 : fa < Real.pi / 2) :
    rep ρ reported_DiamondGroove_1 "tip_depth" = td ∧ rep ρ reported_DiamondGroove_1 "tip_angle" = ta := by
  obtain ⟨t1, t2, t3⟩ := h
  have hat : Real.arctan (td / (uw / 2)) = fa := by
    have : td / (uw / 2) = Real.tan fa := by rw [t1]; field_simp
    rw [this, Real.arctan_tan (by linarith) hfa1]
  simp only [rep]
  norm_rep
  norm_env
  rw [h1, h2, hat]
  exact ⟨by triv, by linarith⟩

theorem diamond_reported_roundtrip_uw_ta (uw td ta r2 fa depth : ℝ) (h : DiamondRel uw td ta r2 fa depth)
    (h1 : ρ "usable_width" = uw) (h2 : ρ "tip_angle" * (Real.pi / 180) = ta) :
    rep ρ reported_DiamondGroove_2 "tip_depth" = td ∧ rep ρ reported_DiamondGroove_2 "tip_angle" = ta := by
  obtain ⟨t1, t2, t3⟩ := h
  simp only [rep]
  norm_rep
  norm_env
  rw [h1, h2]
  refine ⟨?_, by triv⟩
  rw [← t2, ← t1]

theorem diamond_reported_roundtrip_td_ta (uw td ta r2 fa depth : ℝ) (h : DiamondRel uw td ta r2 fa depth)
    (h1 : ρ "tip_depth" = td) (h2 : ρ "tip_angle" * (Real.pi / 180) = ta) :
    rep ρ reported_DiamondGroove_3 "tip_depth" = td ∧ rep ρ reported_DiamondGroove_3 "tip_angle" = ta := by
  simp only [rep]
  norm_rep
  norm_env
  exact ⟨by linarith, by linarith⟩

end diamond

/-! ## kernel-evaluated facts about the generated tables -/
section tables

/-- **Inventory**: which solver-backed classes keep values of their own on the object, and under which attribute names.
    A class that starts to store a further value (or a further class that starts to store one) changes the generated list:
    this theorem stops building until a statement about the new value has been added here. -/
theorem stored_inventory : storedInventory =
    [("DiamondGroove", ["_tip_angle", "_tip_depth"]),
     ("EquivalentRibbedGroove", ["base_body_height", "nominal_outer_diameter", "rib_distance", "rib_flank_angle", "rib_width"])] := by
  decide

/-- **Getters of the diamond**: each public property returns the attribute of its own name, unconverted — the unit of the
    reported tip angle is the unit in which the constructor stores it (radians, `diamond_triangle`) -/
theorem diamond_getters : getters_DiamondGroove =
    [("tip_depth", .var "self._tip_depth"), ("tip_angle", .var "self._tip_angle")] := by
  decide

/-- **Echo of the rib data** (EquivalentRibbed): every value kept on the object is literally the constructor's parameter of
    that name; with the optional `rib_flank_angle` left out the other four are still kept. -/
theorem ribbed_reported_echo :
    reported_EquivalentRibbedGroove_1 = ["nominal_outer_diameter", "base_body_height", "rib_distance", "rib_width",
      "rib_flank_angle"].map (fun k => (k, Expr.var k)) ∧
    reported_EquivalentRibbedGroove_2 = ["nominal_outer_diameter", "base_body_height", "rib_distance", "rib_width"].map
      (fun k => (k, Expr.var k)) ∧
    getters_EquivalentRibbedGroove = [] := by
  decide

/-- **The generic class's numeric properties**: `usable_width` and `depth` hand out the resolved values the chain is built
    from, `width` is twice the `z` of junction 1 -/
theorem generic_getters : getters_GenericElongationGroove =
    [("usable_width", .var "usable_width"), ("width", .mul (.nat 2) (.var "z1")), ("depth", .var "depth")] := by
  decide

/-- … so that the reported `width` is the usable width plus, on either side, the tangent length of the face fillet `r1`
    projected on the `z` axis (`σ`: the generic constructor's environment, `z1` bound to the chain entry) -/
theorem generic_width_reported (σ : String → ℝ) (hz : σ "z1" = Expr.eval σ z1) :
    Expr.eval σ (kw getters_GenericElongationGroove "width") =
      σ "usable_width" + 2 * (σ "r1" * Real.tan ((σ "flank_angle" + σ "pad_angle") / 2) * Real.cos (σ "pad_angle")) := by
  simp only [kw, getters_GenericElongationGroove, List.lookup, String.reduceBEq, Option.getD]
  simp only [Expr.eval]
  rw [hz]
  simp only [z1, l12, z2, alpha1]
  norm_env
  ring

/-- **The roll face up to its end point** (`σ "pad"`: the length the constructor resolved from `pad` / `rel_pad`): the
    outermost contour point `(z0, y0)` lies on the line through the face corner `(usable_width/2, 0)` inclined by the pad
    angle — the same line junction 1 lies on (`joints_tangent`), so the face joins the fillet `r1` tangentially and,
    prolonged back to `y = 0`, gives the usable width — at the distance `pad` beyond junction 1 measured along the face,
    whatever the pad angle. -/
theorem face_end_on_face_line (σ : String → ℝ) :
    (Expr.eval σ z0 - Expr.eval σ z2) * Real.sin (σ "pad_angle") - (Expr.eval σ y0 - Expr.eval σ y2) * Real.cos (σ "pad_angle") = 0 ∧
    (Expr.eval σ z0 - Expr.eval σ z1) * Real.cos (σ "pad_angle") + (Expr.eval σ y0 - Expr.eval σ y1) * Real.sin (σ "pad_angle")
      = σ "pad" := by
  simp only [z0, y0, z1, y1, z2, y2, l12, alpha1]
  norm_env
  refine ⟨by ring, ?_⟩
  linear_combination (σ "pad") * Real.sin_sq_add_cos_sq (σ "pad_angle")

end tables

/-! ## non-vacuity -/

/-- `diamond_triangle` / `diamond_reported_triangle`: usable width 2, tip depth 1, tip angle 90° -/
example : ∃ ρ : String → ℝ, ρ "usable_width" ≠ 0 ∧ 0 < ρ "usable_width" ∧ 0 < ρ "tip_depth" ∧ 0 < ρ "tip_angle" ∧
    ρ "tip_angle" < 180 :=
  ⟨fun n => if n = "usable_width" then 2 else if n = "tip_depth" then 1 else if n = "tip_angle" then 90 else 0,
    by simp, by simp, by simp, by simp, by simp; norm_num⟩

/-- on that input pattern 1 reports the right angle in radians: `tip_angle = π/2` -/
example : rep (fun n => if n = "usable_width" then 2 else if n = "tip_depth" then 1 else 0) reported_DiamondGroove_1
    "tip_angle" = Real.pi / 2 := by
  simp only [rep, kw, reported_DiamondGroove_1, List.lookup, String.reduceBEq, Option.getD]
  norm_env
  norm_num [Real.arctan_one]
  ring

/-- `diamondRel_tan_half`, `diamondRel_flank`, `diamond_reported_roundtrip_*`: the right-angled tip satisfies the relation
    and the side conditions -/
example : DiamondRel 2 1 (Real.pi / 2) 0 (Real.pi / 4) 1 ∧ Real.sin (Real.pi / 4) ≠ 0 ∧ Real.cos (Real.pi / 4) ≠ 0 ∧
    (0:ℝ) < Real.pi / 4 ∧ Real.pi / 4 < Real.pi / 2 := by
  have hpi := Real.pi_pos
  refine ⟨⟨by rw [Real.tan_pi_div_four]; norm_num, by ring, by norm_num⟩, ?_, ?_, by positivity, by linarith⟩
  · rw [Real.sin_pi_div_four]; positivity
  · rw [Real.cos_pi_div_four]; positivity

/-- `face_end_on_face_line` holds for every environment; a four-roll face (pad angle 45°) with an absolute padding of 1 -/
example : ∃ σ : String → ℝ, σ "pad_angle" = Real.pi / 4 ∧ σ "pad" = 1 :=
  ⟨fun n => if n = "pad_angle" then Real.pi / 4 else if n = "pad" then 1 else 0, by simp, by simp⟩

/-- `generic_width_reported`: an environment whose `z1` is the chain entry -/
example : ∃ σ : String → ℝ, σ "z1" = Expr.eval σ z1 ∧ σ "usable_width" = 2 :=
  ⟨fun n => if n = "usable_width" then 2 else if n = "z1" then 1 else 0, by
    simp only [z1, l12, z2, alpha1]; norm_env; norm_num, by simp⟩

end C04
