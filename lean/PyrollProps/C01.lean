import PyrollProofs.HookOrderLemmas
import PyrollProofs.HookEvalLemmas
import PyrollProofs.HookUseLemmas
import PyrollModel.HookSource

/-!
# C01 — hook resolution order is a pure function of the registrations and the class hierarchy

Model: `PyrollModel/HookReg.lean` (six stores per class, lazily created per-subclass hook objects, `functions_gen`),
`PyrollModel/HookEval.lean` (`get_result` / `HookFunction.__call__`: wrappers, per-(function, object) re-entrancy marks),
`PyrollModel/HookOps.lean` (histories: the concrete machine `run` and the abstract machine `arun` = class hierarchy +
log of live registrations, which ignores every mere access), `PyrollModel/HookUse.lean` (objects that are used several
times: the marks as STATE with the `try … finally` of `HookFunction.__call__`, implementations that fail while the input
of their object is missing, `has_value`, `reevaluate_cache`, the value cache).  Tied to `pyroll/core/hooks.py` by the source-level
tie of the first section (T: tables regenerated from the source on every run, consumed by the model or pinned) and by the
correspondence harness `driver/props/c01.py` (K).  Only property theorems live here; helper lemmas are in `PyrollProofs/Hook*Lemmas.lean`.

All theorems quantify over EVERY history `ops : List Op` (class definitions with arbitrary `__mro__` data - ill-formed
ones are rejected by `classOk` on both machines -, `extension_class`, registrations, removals through any class,
accesses through classes and instances - by plain attribute lookup, through `super(K, x).h` and by explicit descriptor
calls `S.__dict__["h"].__get__(x, C)`, which reach `Hook.__get__` of a BASE class' hook object with an owner that may carry a
hook object of its own -, reads); no well-formedness hypothesis on the history is needed.
-/

namespace Hooks

/-! ## the tie of the hand-written model to the source (T)

`pyroll/core/hooks.py` is re-read on every run of `./check C01` (`driver/translate/hooks_skeleton.py` →
`PyrollModel/Gen/C01Hooks.lean`).  Two theorems tie the models above to what was read:

* `hooks_source_consumed` - the parts of the source that are pure data are not written into the model but CONSUMED by it:
  the order of the six `yield from` lines of `functions_gen` (`implTiers`), the `reversed(...)` of
  `_yield_functions_from` (`orient`), the store `add_function` appends to for each flag combination (`addStore?`), the
  stores `remove_function` looks into (`removeHits`), whether the re-entrancy mark is discarded in the `finally` clause
  (`excUnmark`), whether `Hook.__get__` asked with an owner other than its own uses the hook object that class carries
  already (`ownerReuse` / `askAs`).  `implOrder`, `run`, `urun`, `evx`, `readOut` - everything the theorems of this file are about - are the
  model instantiated with the generated values, and the theorem states what these values are; the simulation proof
  (`PyrollProofs/HookRegLemmas.lean`: `implTiers_eq`, `orient_gen`, `addStore_gen`, `removeHits_gen`, `ownerReuse_gen`;
  `HookUseLemmas.lean`: `excUnmark_gen`) uses exactly these facts, so a source change that alters one of them stops `order_refines` and
  `marks_restored_on_every_path` (and what follows from them) from building.
* `hooks_source_as_modelled` - the statements of the other mirrored functions, in canonical form, are the ones the
  hand-written model was read against (`PyrollModel/HookSource.lean`), together with every writer of the six stores and of
  `_active_instances` anywhere in the file and the names defined in the classes `HookFunction`, `Hook`, `_HookHostMeta`. -/

/-- **Source tie, consumed part**: the generated tables the model is instantiated with say what the model's proofs need -/
theorem hooks_source_consumed :
    implTiers = tiers6 ∧
    Gen.C01.Hooks.functionsGenOrder.map storeKey = tiers6.map some ∧
    (∀ l : List HF, orient Gen.C01.Hooks.yieldReversed l = l.reverse) ∧
    (∀ (w : Bool) (t : Tier), addStore? w t = some (w, t)) ∧
    (∀ (w : Bool) (t : Tier), removeHits w t = true) ∧
    (∀ (m : List (Nat × Nat)) (k : Nat × Nat), excUnmark m k = m.erase k) ∧
    ownerReuse = true ∧ (∀ (st : State) (op : Op), step st op = stepWith true st op) :=
  ⟨implTiers_eq, by decide, orient_gen, addStore_gen, removeHits_gen, excUnmark_gen, ownerReuse_gen, step_eq⟩

/-- the model really follows the tables: with the `reversed` dropped, two tier lines swapped, a store forgotten by
    `remove_function` or the tryfirst / trylast tests exchanged it computes something else -/
example : orient false [⟨0, false, .ret none⟩, ⟨1, false, .ret none⟩] = [⟨0, false, .ret none⟩, ⟨1, false, .ret none⟩] ∧
    ["_wrappers", "_first_wrappers"].filterMap storeKey = [(true, .normal), (true, .first)] ∧
    (selectStore [(false, "trylast", "_last_functions"), (false, "", "_functions")] false true false).bind storeKey
      = some (false, .normal) ∧
    (["_functions"].any fun s => storeKey s == some (true, Tier.last)) = false ∧
    ((askAs false (run [.defClass 0 [0] true, .defClass 1 [1, 0] false, .add 1 .normal false (.ret (some 2))]) 0 1).own 1).map
      (·.fns.length) = some 0 := by decide

/-- **Source tie, pinned part**: the mirrored statements (canonical form) are the ones the model was written against;
    `_yield_functions_from` walks `self.owner.__mro__` and passes over an absent or empty store; `remove_function` passes
    over a store that does not hold the function; the mark is `id(instance)`, `cycle` is computed before the mark is set,
    the mark is set before the `try`, discarded in `finally` unless the call was a cycled one; a result is final when it
    `is not None`; of `Hook.__get__` the class-level part (the per-subclass hook object: in the form the consumed flag
    `getOwnerReuse` says - the one the class carries already, a new one only when it carries none) and the remembered-value
    part are pinned,
    of its computing part what `HookUse.useEval` mirrors: a remembered value that `is not None` is served from `__cache__`,
    a computed value is stored there, and a `None` result raises AttributeError before anything is stored (the explicit-value
    part and the other conversions are C02's and C07's) -/
theorem hooks_source_as_modelled :
    Gen.C01.Hooks.hook_getClass = HookSource.hook_getClass Gen.C01.Hooks.getOwnerReuse ∧
    Gen.C01.Hooks.hook_getCached = HookSource.hook_getCached ∧
    Gen.C01.Hooks.hookFunction_init = HookSource.hookFunction_init ∧
    Gen.C01.Hooks.hookFunction_cycle = HookSource.hookFunction_cycle ∧
    Gen.C01.Hooks.hookFunction_call = HookSource.hookFunction_call ∧
    Gen.C01.Hooks.hookFunction_determineExtraArgs = HookSource.hookFunction_determineExtraArgs ∧
    Gen.C01.Hooks.hookFunction_enter = HookSource.hookFunction_enter ∧
    Gen.C01.Hooks.hookFunction_exit = HookSource.hookFunction_exit ∧
    Gen.C01.Hooks.hook_init = HookSource.hook_init ∧
    Gen.C01.Hooks.hook_setName = HookSource.hook_setName ∧
    Gen.C01.Hooks.hook_functions = HookSource.hook_functions ∧
    Gen.C01.Hooks.hook_getResult = HookSource.hook_getResult ∧
    Gen.C01.Hooks.hook_addFunction = HookSource.hook_addFunction ∧
    Gen.C01.Hooks.hook_call = HookSource.hook_call ∧
    Gen.C01.Hooks.hookHostMeta_setattr = HookSource.hookHostMeta_setattr ∧
    Gen.C01.Hooks.hookHost_extensionClass = HookSource.hookHost_extensionClass ∧
    Gen.C01.Hooks.hookHost_hasValue = HookSource.hookHost_hasValue ∧
    Gen.C01.Hooks.hookHost_reevaluateCache = HookSource.hookHost_reevaluateCache ∧
    Gen.C01.Hooks.stateWriters = HookSource.writersOf ["_first_wrappers", "_wrappers", "_last_wrappers",
      "_first_functions", "_functions", "_last_functions", "_active_instances"] ∧
    Gen.C01.Hooks.classMembers = HookSource.membersOf ["HookFunction()", "Hook(Generic[T])", "_HookHostMeta(ABCMeta)"] ∧
    Gen.C01.Hooks.yieldOver = "self.owner.__mro__" ∧ Gen.C01.Hooks.yieldGuard = "truthy" ∧
    Gen.C01.Hooks.removeIgnoresAbsent = true ∧ Gen.C01.Hooks.callKey = "id(instance)" ∧
    Gen.C01.Hooks.callCycleBeforeMark = true ∧ Gen.C01.Hooks.callMarkBeforeTry = true ∧
    Gen.C01.Hooks.callDiscardClause = "finally" ∧ Gen.C01.Hooks.callDiscardGuard = "unless cycle" ∧
    Gen.C01.Hooks.getResultTest = "is not None" ∧
    Gen.C01.Hooks.getLookups.getLast? = some ("__cache__", "is not None") ∧ Gen.C01.Hooks.getStore = "__cache__" ∧
    (Gen.C01.Hooks.getChecks.take Gen.C01.Hooks.getStoreAfter).contains ("is None", "AttributeError") = true := by
  refine ⟨?_, ?_, ?_, ?_, ?_, ?_, ?_, ?_, ?_, ?_, ?_, ?_, ?_, ?_, ?_, ?_, ?_, ?_, ?_, ?_, ?_, ?_, ?_, ?_, ?_, ?_, ?_, ?_, ?_, ?_, ?_, ?_⟩ <;> first | rfl | decide

/-! ## the order -/

theorem run_mro (ops : List Op) : (run ops).mro = (arun ops).mro := (rel_run ops).mro_eq

/-- **Order refinement.**  After any history, the order in which the code consults the implementations for an object of
class `c` (six per-owner stores, walked tier-major / MRO-minor / reversed, creating hook objects on the way) is the
documented pure function `specOrder` of the class' `__mro__` and the log of live registrations. -/
theorem order_refines (ops : List Op) (c : Cls) :
    implOrder (run ops) c = specOrder ((run ops).mro c) (liveLog ops) := by
  rw [run_mro]; exact (rel_run ops).implOrder_eq c

/-- example history: three-level chain 2 < 1 < 0, hook defined on 0, two wrappers, all three tiers, an access in between -/
def chain3 : List Op :=
  [.defClass 0 [0] true, .defClass 1 [1, 0] false, .defClass 2 [2, 1, 0] false,
    .add 0 .normal false (.ret (some 1)), .add 1 .last false (.ret (some 2)), .add 2 .first false (.ret none),
    .add 0 .last true (.wrap 1 none), .add 2 .normal true (.wrap 2 none), .touchClass 1,
    .add 1 .normal false (.ret (some 3))]

example : (implOrder (run chain3) 2).map (·.id) = [4, 3, 2, 5, 0, 1] := by decide

/-- the hierarchy of every history is well-formed and the log is sorted by registration number -/
theorem history_ok (ops : List Op) :
    (∀ c, ((run ops).mro c).Nodup) ∧ (liveLog ops).Pairwise (fun r1 r2 => r1.hf.id < r2.hf.id) := by
  rw [run_mro]; exact ⟨(rel_run ops).ok.nodup, (rel_run ops).ids_sorted⟩

/-- **Scope.**  An implementation takes part for an object of class `c` exactly when it is a live registration whose
owner is `c` or one of its base classes (a member of `c.__mro__`) - never for a base or a sibling of its owner. -/
theorem scope_exact (ops : List Op) (c : Cls) (f : HF) :
    f ∈ implOrder (run ops) c ↔ ∃ r ∈ liveLog ops, r.hf = f ∧ r.cls ∈ (run ops).mro c := by
  rw [order_refines, specOrder, List.mem_map]
  constructor
  · rintro ⟨r, hr, rfl⟩
    exact ⟨r, (mem_specRegs.1 hr).1, rfl, (mem_specRegs.1 hr).2⟩
  · rintro ⟨r, hr, rfl, hc⟩
    exact ⟨r, mem_specRegs.2 ⟨hr, hc⟩, rfl⟩

-- registered on the subclass 1: takes part for 1 and its subclass 3, not for the base 0 nor the sibling 2
example :
    let ops := [Op.defClass 0 [0] true, .defClass 1 [1, 0] false, .defClass 2 [2, 0] false, .defClass 3 [3, 1, 0] false,
      .touchClass 2, .add 1 .normal false (.ret (some 1))]
    ((implOrder (run ops) 0).map (·.id), (implOrder (run ops) 1).map (·.id), (implOrder (run ops) 2).map (·.id),
      (implOrder (run ops) 3).map (·.id)) = ([], [0], [], [0]) := by decide

/-- **Priority.**  Two live registrations in scope are consulted in the order of the documented key `Before`:
wrappers before plain implementations and tryfirst < normal < trylast (`rank`), then the index of the owner in the
`__mro__` of the object's class (most derived first), then the latest registration first. -/
theorem consulted_in_priority_order (ops : List Op) (c : Cls) (r1 r2 : Reg) (h1 : r1 ∈ liveLog ops)
    (h2 : r2 ∈ liveLog ops) (hc1 : r1.cls ∈ (run ops).mro c) (hc2 : r2.cls ∈ (run ops).mro c)
    (hb : Before ((run ops).mro c) r1 r2) : [r1.hf, r2.hf].Sublist (implOrder (run ops) c) := by
  rw [order_refines]
  exact specOrder_pair ((history_ok ops).1 c) (history_ok ops).2 h1 h2 hc1 hc2 hb

-- the hypotheses are satisfiable: the trylast wrapper of the base class 0 and the tryfirst plain implementation of
-- class 2 are both live and in scope for class 2, and the wrapper has priority
example :
    let w : Reg := ⟨⟨3, true, .wrap 1 none⟩, 0, .last⟩
    let p : Reg := ⟨⟨2, false, .ret none⟩, 2, .first⟩
    w ∈ liveLog chain3 ∧ p ∈ liveLog chain3 ∧ w.cls ∈ (run chain3).mro 2 ∧ p.cls ∈ (run chain3).mro 2 ∧
      Before ((run chain3).mro 2) w p ∧ ¬ Before ((run chain3).mro 2) p w := by decide

-- most derived first (class 1 before class 0, both normal plain) and latest first (ids 5, 0 vs. a later one)
example :
    let a : Reg := ⟨⟨5, false, .ret (some 3)⟩, 1, .normal⟩
    let b : Reg := ⟨⟨0, false, .ret (some 1)⟩, 0, .normal⟩
    a ∈ liveLog chain3 ∧ b ∈ liveLog chain3 ∧ Before ((run chain3).mro 2) a b ∧
      ((run chain3).mro 2).idxOf a.cls < ((run chain3).mro 2).idxOf b.cls := by decide

/-- the key is total on different live registrations in scope: the order is completely determined by it -/
theorem priority_total (ops : List Op) (c : Cls) (r1 r2 : Reg) (h1 : r1 ∈ liveLog ops) (h2 : r2 ∈ liveLog ops)
    (hc1 : r1.cls ∈ (run ops).mro c) (hne : r1 ≠ r2) :
    Before ((run ops).mro c) r1 r2 ∨ Before ((run ops).mro c) r2 r1 := by
  have hid : r1.hf.id ≠ r2.hf.id := fun e => hne (id_inj_of_sorted (history_ok ops).2 h1 h2 e)
  unfold Before
  by_cases hc : r1.cls = r2.cls
  · rcases Nat.lt_trichotomy r1.rank r2.rank with h | h | h
    · exact Or.inl (Or.inl h)
    · rcases Nat.lt_or_gt_of_ne hid with h' | h'
      · exact Or.inr (Or.inr ⟨h.symm, Or.inr ⟨hc.symm, h'⟩⟩)
      · exact Or.inl (Or.inr ⟨h, Or.inr ⟨hc, h'⟩⟩)
    · exact Or.inr (Or.inl h)
  · have : ((run ops).mro c).idxOf r1.cls ≠ ((run ops).mro c).idxOf r2.cls := fun e => hc (idxOf_inj_of_mem hc1 e)
    omega

theorem wrappers_before_plain (ops : List Op) (c : Cls) (r1 r2 : Reg) (h1 : r1 ∈ liveLog ops) (h2 : r2 ∈ liveLog ops)
    (hc1 : r1.cls ∈ (run ops).mro c) (hc2 : r2.cls ∈ (run ops).mro c)
    (hw1 : r1.hf.wrapper = true) (hw2 : r2.hf.wrapper = false) :
    [r1.hf, r2.hf].Sublist (implOrder (run ops) c) := by
  refine consulted_in_priority_order ops c r1 r2 h1 h2 hc1 hc2 (Or.inl ?_)
  simp only [Reg.rank, rank, hw1, hw2]
  cases r1.tier <;> cases r2.tier <;> simp

theorem tier_major (ops : List Op) (c : Cls) (r1 r2 : Reg) (h1 : r1 ∈ liveLog ops) (h2 : r2 ∈ liveLog ops)
    (hc1 : r1.cls ∈ (run ops).mro c) (hc2 : r2.cls ∈ (run ops).mro c) (hw : r1.hf.wrapper = r2.hf.wrapper)
    (ht : (r1.tier = .first ∧ r2.tier ≠ .first) ∨ (r1.tier ≠ .last ∧ r2.tier = .last)) :
    [r1.hf, r2.hf].Sublist (implOrder (run ops) c) := by
  refine consulted_in_priority_order ops c r1 r2 h1 h2 hc1 hc2 (Or.inl ?_)
  simp only [Reg.rank, rank, hw]
  revert ht
  cases r1.tier <;> cases r2.tier <;> simp

/-- within a tier: the owner that comes first in the `__mro__` of the object's class (the most derived) first -/
theorem mro_minor_most_derived_first (ops : List Op) (c : Cls) (r1 r2 : Reg) (h1 : r1 ∈ liveLog ops)
    (h2 : r2 ∈ liveLog ops) (hc1 : r1.cls ∈ (run ops).mro c) (hc2 : r2.cls ∈ (run ops).mro c)
    (hw : r1.hf.wrapper = r2.hf.wrapper) (ht : r1.tier = r2.tier)
    (hm : ((run ops).mro c).idxOf r1.cls < ((run ops).mro c).idxOf r2.cls) :
    [r1.hf, r2.hf].Sublist (implOrder (run ops) c) :=
  consulted_in_priority_order ops c r1 r2 h1 h2 hc1 hc2 (Or.inr ⟨by simp [Reg.rank, hw, ht], Or.inl hm⟩)

/-- within a class and tier: the latest registration first -/
theorem latest_first_within_class (ops : List Op) (c : Cls) (r1 r2 : Reg) (h1 : r1 ∈ liveLog ops)
    (h2 : r2 ∈ liveLog ops) (hc1 : r1.cls ∈ (run ops).mro c)
    (hw : r1.hf.wrapper = r2.hf.wrapper) (ht : r1.tier = r2.tier) (hk : r1.cls = r2.cls)
    (hlater : r2.hf.id < r1.hf.id) : [r1.hf, r2.hf].Sublist (implOrder (run ops) c) :=
  consulted_in_priority_order ops c r1 r2 h1 h2 hc1 (hk ▸ hc1)
    (Or.inr ⟨by simp [Reg.rank, hw, ht], Or.inr ⟨hk, hlater⟩⟩)

/-- every implementation is consulted at most once per chain - also along a diamond, where a base class is reached
on two inheritance paths -/
theorem each_registration_once (ops : List Op) (c : Cls) : ((implOrder (run ops) c).map (·.id)).Nodup := by
  rw [order_refines]
  exact specOrder_ids_nodup ((history_ok ops).1 c) (history_ok ops).2

-- diamond 3(1,2), 1(0), 2(0): the registration on the shared base 0 appears once, after those of 1 and 2
example : (implOrder (run [.defClass 0 [0] true, .defClass 1 [1, 0] false, .defClass 2 [2, 0] false,
      .add 2 .normal false (.ret (some 2)), .defClass 3 [3, 1, 2, 0] false, .readFns 3,
      .add 1 .normal false (.ret (some 1)), .add 0 .first false (.ret none), .add 0 .normal false (.ret (some 5)),
      .add 3 .last false (.ret (some 3))]) 3).map (·.id) = [2, 1, 0, 3, 4] := by decide

/-! ## removal -/

/-- **Removal.**  Once a live registration has been removed (through its owner: `Owner.h.remove_function(f)` or
`with f:`), it is never consulted again - whatever happens afterwards, for whatever class. -/
theorem removed_never_consulted (ops ops' : List Op) (r : Reg) (hr : r ∈ liveLog ops) (c : Cls) :
    ∀ f ∈ implOrder (run (ops ++ Op.remove r.cls r.hf.id :: ops')) c, f.id ≠ r.hf.id := by
  intro f hf e
  obtain ⟨r', hr', rfl, _⟩ := (scope_exact _ c f).1 hf
  simp only [liveLog, arun, List.foldl_append, List.foldl_cons] at hr'
  have hrel := rel_run ops
  rcases (afoldl_log ops' _).2 r' hr' with h | h
  · simp only [astep, List.mem_filter, Bool.not_eq_true', Bool.and_eq_false_iff, beq_eq_false_iff_ne, ne_eq] at h
    have : r' = r := id_inj_of_sorted hrel.ids_sorted h.1 hr e
    subst this
    rcases h.2 with h' | h' <;> exact h' rfl
  · have := hrel.ids_lt r hr
    simp only [astep, arun] at h this
    omega

example :
    let ops := [Op.defClass 0 [0] true, .defClass 1 [1, 0] false, .add 0 .normal false (.ret (some 1)),
      .add 1 .normal false (.ret (some 2)), .readFns 1]
    (⟨⟨0, false, .ret (some 1)⟩, 0, .normal⟩ : Reg) ∈ liveLog ops ∧
    (implOrder (run ops) 1).map (·.id) = [1, 0] ∧
    (implOrder (run (ops ++ Op.remove 0 0 :: [.add 0 .normal false (.ret (some 3))])) 1).map (·.id) = [1, 2] := by
  decide

/-! ## independence from accesses -/

/-- **Independence from when / through which class or instance the hook was first touched.**  Two histories that
differ only in accesses (`getattr` on classes, attribute access through instances, `Hook.functions`, reads - all of
which lazily create per-subclass hook objects -, and accesses that reach the hook object of a BASE class with the class
as owner although the class may carry a hook object of its own: `super(K, C).h`, `super(K, obj).h`, the explicit
descriptor call `Base.__dict__["h"].__get__(x, C)`, with or without evaluation), inserted or deleted anywhere, resolve
every hook alike: same order, same value, same invocations. -/
theorem touch_irrelevant (ops ops' : List Op)
    (h : (ops.filter fun o => !o.isTouch) = (ops'.filter fun o => !o.isTouch)) (c : Cls) :
    implOrder (run ops) c = implOrder (run ops') c ∧ readOut (run ops) c = readOut (run ops') c := by
  have ha : arun ops = arun ops' := by
    unfold arun; rw [← afoldl_filter ops, ← afoldl_filter ops', h]
  have ho : implOrder (run ops) = implOrder (run ops') := by
    funext k
    rw [(rel_run ops).implOrder_eq, (rel_run ops').implOrder_eq, ha]
  exact ⟨congrFun ho c, by simp only [readOut, ho]⟩

example :
    let ops := [Op.defClass 0 [0] true, .defClass 1 [1, 0] false, .add 0 .normal false (.ret (some 1)),
      .add 1 .first true (.wrap 2 none)]
    let ops' := [Op.defClass 0 [0] true, .defClass 1 [1, 0] false, .read 1, .touchInst 1,
      .add 0 .normal false (.ret (some 1)), .readFns 0, .add 1 .first true (.wrap 2 none), .touchClass 1]
    (ops.filter fun o => !o.isTouch) = (ops'.filter fun o => !o.isTouch) ∧ (readOut (run ops') 1).1 = some 12 := by
  decide

/-- base 0 (hook), subclass 1, sub-subclass 2; one plain implementation registered on each -/
def threeLevels : List Op :=
  [.defClass 0 [0] true, .defClass 1 [1, 0] false, .defClass 2 [2, 1, 0] false, .add 0 .normal false (.ret (some 1)),
    .add 1 .normal false (.ret (some 2)), .add 2 .normal false (.ret (some 3))]

-- the same with accesses that ask the hook object of a base class for the subclass: `super(K1, K1).h`,
-- `super(K1, K2()).h`, `K0.__dict__["h"].__get__(None, K2)`, `super(K2, K2()).h` - the subclasses keep their registrations
example :
    let ops' := threeLevels ++ [.touchVia (.super 1) 1, .readVia (.super 1) 2, .touchVia (.dict 0) 2, .readVia (.super 2) 2]
    (threeLevels.filter fun o => !o.isTouch) = (ops'.filter fun o => !o.isTouch) ∧
      (implOrder (run ops') 2).map (·.id) = [2, 1, 0] ∧ (implOrder (run ops') 1).map (·.id) = [1, 0] ∧
      (readOut (run ops') 2).1 = some 3 ∧ viaLookup (run threeLevels) (.super 1) 2 = some 0 := by
  decide

/-- the same statement for the machine in the reusing form, whatever the source says (`run = runWith true` is the consumed
    fact `ownerReuse_gen`) -/
theorem touch_irrelevant_in_reusing_form (ops ops' : List Op)
    (h : (ops.filter fun o => !o.isTouch) = (ops'.filter fun o => !o.isTouch)) (c : Cls) :
    implOrder (runWith true ops) c = implOrder (runWith true ops') c ∧
      readOut (runWith true ops) c = readOut (runWith true ops') c := by
  have ha : arun ops = arun ops' := by
    unfold arun; rw [← afoldl_filter ops, ← afoldl_filter ops', h]
  have ho : implOrder (runWith true ops) = implOrder (runWith true ops') := by
    funext k
    rw [(rel_runWith_true ops).implOrder_eq, (rel_runWith_true ops').implOrder_eq, ha]
  exact ⟨congrFun ho c, by simp only [readOut, ho]⟩

example :
    let ops' := threeLevels ++ [.touchVia (.super 1) 1, .readVia (.dict 0) 2]
    (threeLevels.filter fun o => !o.isTouch) = (ops'.filter fun o => !o.isTouch) ∧
      (implOrder (runWith true ops') 2).map (·.id) = [2, 1, 0] := by decide

/-- **The other form of the source violates it.**  Were `Hook.__get__`, asked with an owner other than its own, to create
a new hook object for that owner every time (the form of the source before the repair: `hook = Hook(); setattr(owner,
name, hook)` without a look into `owner.__dict__`), one access through `super` would change order and value: the hook
object of the subclass is replaced by an empty one and everything registered on the subclass is forgotten.  Concrete
witness (replayed on the implementation: corpus history 15 of driver/props/c01.py): base 0 with `ret 1`, subclass 1 with
`ret 2`; after `super(K1, K1()).h` the chain of class 1 is `[0]` instead of `[1, 0]` and `K1().h` is 1 instead of 2. -/
theorem new_hook_for_other_owner_forgets_registrations :
    ∃ (ops ops' : List Op) (c : Cls), (ops.filter fun o => !o.isTouch) = (ops'.filter fun o => !o.isTouch) ∧
      implOrder (runWith false ops) c ≠ implOrder (runWith false ops') c ∧
      (readOut (runWith false ops) c).1 ≠ (readOut (runWith false ops') c).1 :=
  ⟨[.defClass 0 [0] true, .defClass 1 [1, 0] false, .add 0 .normal false (.ret (some 1)),
      .add 1 .normal false (.ret (some 2))],
    [.defClass 0 [0] true, .defClass 1 [1, 0] false, .add 0 .normal false (.ret (some 1)),
      .add 1 .normal false (.ret (some 2)), .readVia (.super 1) 1], 1, by decide, by decide, by decide⟩

example :
    let ops := [Op.defClass 0 [0] true, .defClass 1 [1, 0] false, .add 0 .normal false (.ret (some 1)),
      .add 1 .normal false (.ret (some 2))]
    (implOrder (runWith false ops) 1).map (·.id) = [1, 0] ∧ (readOut (runWith false ops) 1).1 = some 2 ∧
    (implOrder (runWith false (ops ++ [.readVia (.super 1) 1])) 1).map (·.id) = [0] ∧
    (readOut (runWith false (ops ++ [.readVia (.super 1) 1])) 1).1 = some 1 ∧
    (implOrder (runWith true (ops ++ [.readVia (.super 1) 1])) 1).map (·.id) = [1, 0] := by decide

/-- **Through whichever hook object the question arrives, the object's class answers.**  A read that reaches the hook
object of a base class with the object's class as owner (`super(K, obj).h`, `Base.__dict__["h"].__get__(obj, C)`) either
finds no hook object to ask (AttributeError: no class after `K` carries the hook) or yields exactly the value and the
invocation trace of the plain read `C().h` - the chain of the OBJECT's class, not the one of the class whose hook object
was asked. -/
theorem read_through_base_hook_resolves_alike (ops : List Op) (v : Via) (c : Cls) :
    readViaOut ownerReuse (run ops) v c = none ∨
      readViaOut ownerReuse (run ops) v c = some (readOut (run ops) c) := by
  unfold readViaOut
  cases hl : viaLookup (run ops) v c with
  | none => exact Or.inl rfl
  | some s =>
    refine Or.inr ?_
    obtain ⟨hm, ho⟩ := viaLookup_some hl
    have hrel := rel_run ops
    have h1 : Rel (askAs ownerReuse (run ops) s c) (arun ops) := by
      rw [ownerReuse_gen]; exact hrel.askAs (hrel.mro_eq ▸ hm) ho
    have hord : implOrder (askAs ownerReuse (run ops) s c) = implOrder (run ops) := by
      funext k
      rw [h1.implOrder_eq, hrel.implOrder_eq]
    simp only [Option.map_some, readOut, hord]

-- `super(K1, K2()).h` asks the hook object of class 0 and yields what `K2().h` yields; `super(K0, K2()).h`: AttributeError
example :
    readViaOut ownerReuse (run threeLevels) (.super 1) 2 = some (some 3, [.call 2]) ∧
    readOut (run threeLevels) 2 = (some 3, [.call 2]) ∧
    readViaOut ownerReuse (run threeLevels) (.super 0) 2 = none := by decide

/-! ## every registration is an entry of its own

Function objects are not a separate notion of the model: an implementation IS its kind and body, so "the same function
registered once more" is an `add` with the `wrapper` flag and `Body` of an earlier one.  The code creates a new
`HookFunction` (= the identity `id`) for every `add_function` call and `remove_function` removes that object from the
stores of one class, so registrations of one function never interact; the correspondence harness registers the SAME
python function object in these cases (stream `same`). -/

/-- base 0 (hook), subclass 1; the function `ret 1` (registration 0) and another one (registration 1) on the base -/
def twoOnBase : List Op :=
  [.defClass 0 [0] true, .defClass 1 [1, 0] false, .add 0 .normal false (.ret (some 1)),
    .add 0 .normal false (.ret (some 2)), .readFns 1]

/-- the log entry a successful registration `C.h.add_function(f, …)` after the history `ops` creates -/
def newReg (ops : List Op) (c : Cls) (t : Tier) (w : Bool) (b : Body) : Reg := ⟨⟨(arun ops).next, w, b⟩, c, t⟩

/-- **Every registration is appended to the log** - whatever is registered already, in particular when the very same
implementation (same function: same kind and body) is live on this class, on a base class or on a subclass, in the
same tier.  The only condition is the one of the code: the hook exists for the class (else `AttributeError`). -/
theorem add_appends (ops : List Op) (c : Cls) (t : Tier) (w : Bool) (b : Body) (hv : avisible (arun ops) c = true) :
    liveLog (ops ++ [.add c t w b]) = liveLog ops ++ [newReg ops c t w b] := by
  rw [liveLog_append]
  simp only [List.foldl_cons, List.foldl_nil, astep, hv, if_true, liveLog, newReg]

-- the function of registration 0 once more on the same class: a third entry, consulted first
example : avisible (arun twoOnBase) 0 = true ∧ newReg twoOnBase 0 .normal false (.ret (some 1)) = ⟨⟨2, false, .ret (some 1)⟩, 0, .normal⟩ ∧
    (⟨⟨0, false, .ret (some 1)⟩, 0, .normal⟩ : Reg) ∈ liveLog twoOnBase ∧
    (implOrder (run (twoOnBase ++ [.add 0 .normal false (.ret (some 1))])) 0).map (·.id) = [2, 1, 0] ∧
    (readOut (run (twoOnBase ++ [.add 0 .normal false (.ret (some 1))])) 0).1 = some 1 := by decide

/-- **Every registration counts, and comes first among its equals.**  After a registration through a class `c` on
which the hook exists, the new implementation is in the chain of `c` and of every subclass `k`, and it is consulted
before every registration `r` that was live already with the same kind and tier on `c` itself (latest first) or on a
class that comes later in `k.__mro__` (most derived first) - no matter whether `r` is a registration of the very same
function. -/
theorem registration_always_counts (ops : List Op) (c : Cls) (t : Tier) (w : Bool) (b : Body) (k : Cls)
    (hv : avisible (arun ops) c = true) (hk : c ∈ (run ops).mro k) :
    (newReg ops c t w b).hf ∈ implOrder (run (ops ++ [.add c t w b])) k ∧
    ∀ r ∈ liveLog ops, r.cls ∈ (run ops).mro k → r.hf.wrapper = w → r.tier = t →
      (r.cls = c ∨ ((run ops).mro k).idxOf c < ((run ops).mro k).idxOf r.cls) →
      [(newReg ops c t w b).hf, r.hf].Sublist (implOrder (run (ops ++ [.add c t w b])) k) := by
  have hlog := add_appends ops c t w b hv
  have hm := run_add_mro ops c t w b
  have hn : newReg ops c t w b ∈ liveLog (ops ++ [.add c t w b]) := by rw [hlog]; simp
  refine ⟨(scope_exact _ k _).2 ⟨_, hn, rfl, by rw [hm]; exact hk⟩, ?_⟩
  intro r hr hrk hw ht hpos
  have hr' : r ∈ liveLog (ops ++ [.add c t w b]) := by rw [hlog]; exact List.mem_append_left _ hr
  have hlt : r.hf.id < (arun ops).next := (rel_run ops).ids_lt r hr
  refine consulted_in_priority_order _ k _ r hn hr' (by rw [hm]; exact hk) (by rw [hm]; exact hrk) ?_
  rw [hm]
  refine Or.inr ⟨by simp [Reg.rank, newReg, hw, ht], ?_⟩
  rcases hpos with h | h
  · exact Or.inr ⟨h.symm, hlt⟩
  · exact Or.inl h

-- the hypotheses are satisfiable with `r` a registration of the very same function: `ret 1` is live on the base 0
-- (registration 0) and is registered on the subclass 1: there it comes first (most derived first), the base is unaffected
example :
    let r : Reg := ⟨⟨0, false, .ret (some 1)⟩, 0, .normal⟩
    avisible (arun twoOnBase) 1 = true ∧ 1 ∈ (run twoOnBase).mro 1 ∧ r ∈ liveLog twoOnBase ∧ r.cls ∈ (run twoOnBase).mro 1 ∧
      ((run twoOnBase).mro 1).idxOf 1 < ((run twoOnBase).mro 1).idxOf r.cls ∧
      (implOrder (run (twoOnBase ++ [.add 1 .normal false (.ret (some 1))])) 1).map (·.id) = [2, 1, 0] ∧
      (readOut (run (twoOnBase ++ [.add 1 .normal false (.ret (some 1))])) 1).1 = some 1 ∧
      (implOrder (run (twoOnBase ++ [.add 1 .normal false (.ret (some 1))])) 0).map (·.id) = [1, 0] := by decide

/-- **Removing one registration leaves every other one** - in particular the other registrations of the same function
(`remove_function` takes the `HookFunction` object = one registration, through its owner). -/
theorem remove_only_that_registration (ops : List Op) (c : Cls) (id : Nat) (r : Reg) (hr : r ∈ liveLog ops)
    (hne : r.hf.id ≠ id ∨ r.cls ≠ c) (k : Cls) (hk : r.cls ∈ (run ops).mro k) :
    r ∈ liveLog (ops ++ [.remove c id]) ∧ r.hf ∈ implOrder (run (ops ++ [.remove c id])) k := by
  have h1 : r ∈ liveLog (ops ++ [.remove c id]) := by
    simp only [liveLog_append, List.foldl_cons, List.foldl_nil, astep, List.mem_filter]
    refine ⟨hr, ?_⟩
    rcases hne with h | h <;> simp [h]
  have hm := run_remove_mro ops c id
  exact ⟨h1, (scope_exact _ k _).2 ⟨r, h1, rfl, by rw [hm]; exact hk⟩⟩

-- `ret 1` registered on base (0) and subclass (2); removing the registration of the BASE leaves the one of the subclass,
-- removing the one of the subclass leaves the one of the base; a wrapper function registered twice is applied twice
example :
    let ops := twoOnBase ++ [.add 1 .normal false (.ret (some 1))]
    (⟨⟨2, false, .ret (some 1)⟩, 1, .normal⟩ : Reg) ∈ liveLog ops ∧
    (implOrder (run (ops ++ [.remove 0 0])) 1).map (·.id) = [2, 1] ∧
    (implOrder (run (ops ++ [.remove 1 2])) 1).map (·.id) = [1, 0] ∧
    (implOrder (run (ops ++ [.remove 1 2])) 0).map (·.id) = [1, 0] := by decide

example :
    (readOut (run [.defClass 0 [0] true, .defClass 1 [1, 0] false, .add 0 .normal true (.wrap 3 none),
      .add 0 .last false (.ret (some 4)), .add 1 .normal true (.wrap 3 none)]) 1).1 = some 433 := by decide

/-- **A temporary registration leaves no trace** (`with C.h(f): …` - the block only reads / accesses): afterwards the
log of live registrations, hence the chain, value and invocation trace of every class, are those of before - also when
`f` is registered elsewhere (then THAT registration stays). -/
theorem temporary_registration_restores (ops mid : List Op) (c : Cls) (t : Tier) (w : Bool) (b : Body)
    (hmid : ∀ o ∈ mid, o.isTouch = true) (k : Cls) :
    let ops' := ops ++ .add c t w b :: (mid ++ [.remove c (arun ops).next])
    liveLog ops' = liveLog ops ∧ implOrder (run ops') k = implOrder (run ops) k ∧
      readOut (run ops') k = readOut (run ops) k := by
  intro ops'
  have hids := (rel_run ops).ids_lt
  have hfil : ∀ l : List Reg, (∀ r ∈ l, r.hf.id < (arun ops).next) →
      l.filter (fun r => !(r.cls == c && r.hf.id == (arun ops).next)) = l := by
    intro l hl
    refine List.filter_eq_self.2 fun r hr => ?_
    have := hl r hr
    have : r.hf.id ≠ (arun ops).next := by omega
    simp [this]
  have hmro : (arun ops').mro = (arun ops).mro := by
    simp only [ops', arun, List.foldl_append, List.foldl_cons, List.foldl_nil]
    by_cases hv : avisible (List.foldl astep ainit ops) c = true
    · simp only [astep, hv, if_true]; rw [afoldl_touch mid hmid]
    · simp only [astep, hv]; rw [afoldl_touch mid hmid]; rfl
  have hlog : liveLog ops' = liveLog ops := by
    simp only [ops', liveLog, arun, List.foldl_append, List.foldl_cons, List.foldl_nil]
    by_cases hv : avisible (List.foldl astep ainit ops) c = true
    · simp only [astep, hv, if_true]
      rw [afoldl_touch mid hmid]
      simp only [List.filter_append, List.filter_cons, List.filter_nil]
      have h := hfil _ hids
      simp only [arun] at h
      rw [h]
      simp
    · simp only [astep, hv]
      rw [afoldl_touch mid hmid]
      have h := hfil _ hids
      simp only [arun] at h
      exact h
  have ho : implOrder (run ops') = implOrder (run ops) := by
    funext j
    rw [(rel_run ops').implOrder_eq, (rel_run ops).implOrder_eq]
    have := hlog
    simp only [liveLog] at this
    rw [this, hmro]
  exact ⟨hlog, congrFun ho k, by simp only [readOut, ho]⟩

-- `with K1.h(f): K1().h; K0.h.functions` where `f` is registered on the base class K0 already: inside the block the
-- subclass consults its own registration first, afterwards everything is as before - the base keeps its registration
example :
    let mid := [Op.read 1, .readFns 0]
    (∀ o ∈ mid, o.isTouch = true) ∧ (arun twoOnBase).next = 2 ∧
    (implOrder (run (twoOnBase ++ .add 1 .normal false (.ret (some 1)) :: mid)) 1).map (·.id) = [2, 1, 0] ∧
    (implOrder (run (twoOnBase ++ .add 1 .normal false (.ret (some 1)) :: (mid ++ [.remove 1 2]))) 1).map (·.id) = [1, 0] ∧
    (readOut (run (twoOnBase ++ .add 1 .normal false (.ret (some 1)) :: (mid ++ [.remove 1 2]))) 0).1 = some 2 := by
  decide

/-! ## evaluation -/

/-- hypotheses of the evaluation theorems for a read on a fresh object of class `c` after the history `ops`:
* the chain is shorter than what python's recursion limit / the model's fuel carries,
* no plain implementation in the chain reads the hook on another object (that case: `eval_other_objects_irrelevant`),
* the wrappers follow the documented protocol: a wrapper that wraps answers a value. -/
structure ReadOk (ops : List Op) (c : Cls) : Prop where
  size : (implOrder (run ops) c).length ≤ 900
  plain : noDelegate (plainsOf (implOrder (run ops) c)) = true
  protocol : coop (firstSome (plainsOf (implOrder (run ops) c))) (wrappersOf (implOrder (run ops) c)) = true

/-- **Evaluation.**  The read `C().h` on a fresh object evaluates exactly as `specM` prescribes: wrappers of the chain of
the OBJECT's class from the outermost (highest priority) inwards, each marked active once; the plain implementations
of that same chain in order up to the first result that is not `None`. -/
theorem eval_refines (ops : List Op) (c : Cls) (h : ReadOk ops c) :
    readOut (run ops) c =
      specM (plainsOf (implOrder (run ops) c)) [] (wrappersOf (implOrder (run ops) c)) := by
  have hsplit : implOrder (run ops) c = wrappersOf (implOrder (run ops) c) ++ plainsOf (implOrder (run ops) c) := by
    rw [order_refines]; exact specOrder_split _ _
  have hids := each_registration_once ops c
  have hlen : (wrappersOf (implOrder (run ops) c)).length + (plainsOf (implOrder (run ops) c)).length ≤ 900 := by
    have := congrArg List.length hsplit
    rw [List.length_append] at this
    have := h.size; omega
  have hfuel : needM (plainsOf (implOrder (run ops) c)) [] (wrappersOf (implOrder (run ops) c)) ≤ evalFuel := by
    have h1 := needM_le (plainsOf (implOrder (run ops) c)) (wrappersOf (implOrder (run ops) c)) []
    have h2 : (wrappersOf (implOrder (run ops) c)).length * (([] : List HF).length + (wrappersOf (implOrder (run ops) c)).length + 2)
        ≤ 900 * 902 := Nat.mul_le_mul (by omega) (by simp; omega)
    simp only [evalFuel]; omega
  have key := ev_wrappers (implOrder (run ops)) (plainsOf (implOrder (run ops) c)) 0 0
    (fun p hp => by simpa [plainsOf] using (List.mem_filter.1 hp).2)
    (Or.inr (noDelegate_iff h.plain))
    (wrappersOf (implOrder (run ops) c)) [] evalFuel [] []
    (fun w hw => by simpa [wrappersOf] using (List.mem_filter.1 hw).2)
    (fun _ hh => by cases hh)
    (by
      simp only [List.nil_append]
      exact (List.filter_sublist.map _).nodup hids)
    (fun _ _ => by simp)
    h.protocol hfuel
  simp only [List.nil_append] at key
  rw [readOut]
  conv => lhs; arg 3; rw [hsplit]
  conv => lhs; arg 4; rw [hsplit]
  rw [key]

/-- **First result that is not `None` wins; each wrapper is applied exactly once, to the value the rest of the chain
yields for that same object.**  The value of the read is the fold of the wrappers of the object's class chain
(outermost = highest priority) over the first non-`None` result of the plain implementations of that chain; the
wrappers entered are exactly the wrapping wrappers in priority order, each once, left in the opposite order; the plain
implementations called are the prefix of the plain chain up to the first result. -/
theorem eval_wrappers_once (ops : List Op) (c : Cls) (h : ReadOk ops c) :
    let ws := wrappersOf (implOrder (run ops) c)
    let ps := plainsOf (implOrder (run ops) c)
    (readOut (run ops) c).1 = foldW ws (firstSome ps) ∧
    enters (readOut (run ops) c).2 = (ws.filter fun w => w.body != .decline).map (·.id) ∧
    exits (readOut (run ops) c).2 = ((ws.filter fun w => w.body != .decline).map (·.id)).reverse ∧
    calls (readOut (run ops) c).2 = calls (plainSpec ps).2 ∧
    ∀ w ∈ ws, w.body ≠ .decline → (enters (readOut (run ops) c).2).count w.id = 1 := by
  intro ws ps
  rw [eval_refines ops c h]
  refine ⟨specM_val _ _ _, enters_specM _ _ _, exits_specM _ _ _, calls_specM _ _ _, ?_⟩
  intro w hw hb
  rw [enters_specM]
  have hn : (((ws.filter fun w => w.body != .decline)).map (·.id)).Nodup :=
    ((List.filter_sublist.trans List.filter_sublist).map _).nodup (each_registration_once ops c)
  rw [hn.count]
  have : w.id ∈ ((ws.filter fun w => w.body != .decline)).map (·.id) :=
    List.mem_map.2 ⟨w, List.mem_filter.2 ⟨hw, by simp [hb]⟩, rfl⟩
  simp [this]

/-- without wrappers: the plain implementations in priority order, the first result that is not `None` -/
theorem eval_first_non_none (ops : List Op) (c : Cls) (h : ReadOk ops c)
    (hw : wrappersOf (implOrder (run ops) c) = []) :
    readOut (run ops) c = plainSpec (implOrder (run ops) c) := by
  have hsplit : implOrder (run ops) c = wrappersOf (implOrder (run ops) c) ++ plainsOf (implOrder (run ops) c) := by
    rw [order_refines]; exact specOrder_split _ _
  rw [eval_refines ops c h, hw, specM]
  rw [hw, List.nil_append] at hsplit
  rw [← hsplit]

-- three-level chain, two wrappers (one registered on the BASE class 0, one on the object's class 2), all three tiers:
-- the wrapper of the base class wraps the chain of class 2 (F1), both wrappers are applied once (F2)
example :
    let ops := chain3
    readOut (run ops) 2 = (some 312, [.enter 4, .cyc 4, .enter 3, .cyc 4, .cyc 3, .call 2, .call 5, .exit 3, .exit 4])
      ∧ (readOut (run ops) 0).1 = some 11 := by decide

example : ReadOk chain3 2 := ⟨by decide, by decide, by decide⟩

/-- **Same object.**  What is executing on OTHER objects has no influence: the evaluation of a chain on object `j`
(here: an object created by an implementation that runs inside another evaluation, `depth = 1`) under any set `act` of
active (function, object) pairs none of which concerns `j` is the evaluation `specM` of a fresh read. -/
theorem eval_other_objects_irrelevant (chainOf : Cls → List HF) (ws ps : List HF) (j fuel : Nat)
    (act : List (Nat × Nat)) (tr : List Ev) (hact : ∀ p ∈ act, p.2 ≠ j)
    (hws : ∀ w ∈ ws, w.wrapper = true) (hps : ∀ p ∈ ps, p.wrapper = false) (hid : (ws.map (·.id)).Nodup)
    (hcoop : coop (firstSome ps) ws = true) (hfuel : needM ps [] ws ≤ fuel) :
    ev chainOf fuel (ws ++ ps) (ws ++ ps) j 1 act tr = ((specM ps [] ws).1, tr ++ (specM ps [] ws).2) := by
  have := ev_wrappers chainOf ps j 1 hps (Or.inl (by decide)) ws [] fuel act tr hws (fun _ hh => by cases hh)
    (by simpa using hid) (fun w _ hm => hact _ hm rfl) hcoop hfuel
  simpa using this

example :
    ev (fun _ => []) 10 ([⟨0, true, .wrap 2 none⟩] ++ [⟨1, false, .ret (some 6)⟩])
      ([⟨0, true, .wrap 2 none⟩] ++ [⟨1, false, .ret (some 6)⟩]) 5 1 [(0, 0), (2, 0)] [.enter 0] =
    (some 62, [.enter 0, .enter 0, .cyc 0, .call 1, .exit 0]) := by decide

-- F3: the wrapper 0 is executing on the object of the read (class 1) when the implementation 2 reads the hook on a
-- fresh object of class 0: there the wrapper is entered again (not cycled) and wraps that object's chain
example :
    readOut (run [.defClass 0 [0] true, .defClass 1 [1, 0] false, .add 0 .normal true (.wrap 2 none),
      .add 0 .last false (.ret (some 6)), .add 1 .normal false (.delegate 0)]) 1 =
    (some 622, [.enter 0, .cyc 0, .call 2, .inst 0, .enter 0, .cyc 0, .call 1, .exit 0, .exit 0]) := by decide

-- the point excluded by `ReadOk.protocol` (exercised by the correspondence harness): a wrapper that wraps but answers
-- `None` is passed over like any function that answers `None`, so the rest of the chain runs again (`call 0` twice);
-- the value is still the fold
example :
    readOut (run [.defClass 0 [0] true, .add 0 .normal false (.ret none), .add 0 .normal true (.wrap 2 none),
      .add 0 .normal true (.wrap 1 (some 7))]) 0 =
    (some 7, [.enter 2, .cyc 2, .enter 1, .cyc 2, .cyc 1, .call 0, .exit 1, .call 0, .exit 2]) := by decide

/-! ## objects that are used again: reads that fail, `has_value`, `reevaluate_cache`

`evx` (PyrollModel/HookUse.lean) is `ev` with the re-entrancy marks as state that every call receives and hands back,
implementations that raise while the input of their object is missing or unusable, plain implementations that take the
`cycle` argument, and the `finally` clause of `HookFunction.__call__` written out on the normal and on the exceptional
path.  `urun` runs a use-history: the operations of the registry machine, registrations of implementations that need
the input, objects that stay, their input being removed / spoiled / supplied, attribute reads, `has_value` probes and
`reevaluate_cache` on them - the marks are kept from one operation to the next. -/

/-- **The re-entrancy mark is cleared on every path.**  Whatever a call does - it yields a value, `None`, an
implementation or the chain inside a wrapper raises, the recursion is cut off - it hands the marks back exactly as it
found them (every chain, every side table, every input state, any marks found). -/
theorem marks_restored_on_every_path (chainOf : Cls → List HF) (fl : Flags) (s fuel : Nat) (full rest : List HF)
    (i depth : Nat) (act : List (Nat × Nat)) (tr : List Ev) :
    (evx chainOf fl s fuel full rest i depth act tr).marks = act := evx_marks chainOf fl s fuel full rest i depth act tr

-- a wrapper (0) around an implementation (1) that fails for a missing input: the exception comes out, the wrapper was
-- entered and never left, and no mark stays behind
example :
    evx (fun _ => []) ⟨fun i => i == 1, fun i => i == 1⟩ 0 10 [⟨0, true, .wrap 1 none⟩, ⟨1, false, .ret (some 4)⟩]
      [⟨0, true, .wrap 1 none⟩, ⟨1, false, .ret (some 4)⟩] 0 0 [] [] = ⟨.err true, [.enter 0, .cyc 0, .call 1], []⟩ := by
  decide

-- what the theorem excludes: were the marks of that failed call still there, the same object - now WITH its input -
-- would be told `cycle=True` on a top-level read: wrapper and implementation step aside, the fallback (2) answers
example :
    let chain : List HF := [⟨0, true, .wrap 1 none⟩, ⟨1, false, .ret (some 4)⟩, ⟨2, false, .ret (some 5)⟩]
    (evx (fun _ => []) ⟨fun i => i == 1, fun i => i == 1⟩ 2 10 chain chain 0 0 [(0, 0), (1, 0)] []).res = .val (some 5) ∧
    (evx (fun _ => []) ⟨fun i => i == 1, fun i => i == 1⟩ 2 10 chain chain 0 0 [] []).res = .val (some 41) := by decide

-- a wrapper (1) that reads the input before its yield, inside another wrapper (0): `next(gen)` raises, both marks go
example :
    let chain : List HF := [⟨0, true, .wrap 1 none⟩, ⟨1, true, .wrap 3 none⟩, ⟨2, false, .ret (some 2)⟩]
    evx (fun _ => []) ⟨fun i => i == 1, fun _ => false⟩ 1 10 chain chain 0 0 [] [] =
      ⟨.err false, [.enter 0, .cyc 0, .enter 1], []⟩ ∧
    (evx (fun _ => []) ⟨fun i => i == 1, fun _ => false⟩ 2 10 chain chain 0 0 [] []).res = .val (some 231) := by decide

/-- between two operations of a use-history no mark is set - also after reads, `has_value` probes and re-evaluations
that failed -/
theorem no_mark_survives (l : List UOp) : (urun l).marks = [] := by
  unfold urun; rw [ufoldl_marks]; rfl

/-- **A used object resolves like an unused one.**  After any use-history - whatever was read on the object before, too
early, with unusable input, successfully, through `has_value` or `reevaluate_cache`, and whatever happened to other
objects - the evaluation the next use of object `o` performs (`evalObj`, what `ustep` runs for `get` / `has` / `reeval`
when a value has to be computed) is the evaluation `freshOut` on an object of the same class and input that was never
touched: same outcome (value, `None` or exception), same invocations. -/
theorem used_object_resolves_as_unused (l : List UOp) (ob : Obj) :
    evalObj (urun l) ob = freshOut (urun l).reg (urun l).flags ob.cls ob.inp := by
  simp only [evalObj, freshOut, no_mark_survives]

/-- hook on class 0: a trylast fallback (0), an implementation that needs the input and takes `cycle` (1), a cooperating
wrapper (2); object 0 is read too early, probed with `has_value`, then its input is supplied -/
def tooEarly : List UOp :=
  [.reg (.defClass 0 [0] true), .reg (.add 0 .last false (.ret (some 5))), .addNeed 0 .normal 4 true,
    .reg (.add 0 .normal true (.wrap 1 none)), .newObj 0 0, .get 0, .has 0, .setInp 0 2]

example :
    -- the early read fails inside the wrapper …
    evalObj (urun (tooEarly.take 5)) ⟨0, 0, none⟩ = ⟨.err true, [.enter 2, .cyc 2, .call 1], []⟩ ∧
    -- … and once the input is there the object resolves as any other: wrapper applied once, the implementation answers
    findObj (urun tooEarly).objs 0 = some ⟨0, 2, none⟩ ∧
    evalObj (urun tooEarly) ⟨0, 2, none⟩ = ⟨.val (some 41), [.enter 2, .cyc 2, .call 1, .exit 2], []⟩ ∧
    (urun tooEarly).marks = [] := by decide

/-- **The order does not depend on what objects were used for.**  After a use-history the chain of every class is the
chain after its registry operations alone (`regOps`: class definitions, registrations - those of implementations that
need the input included -, removals, accesses): the documented pure function of `__mro__` and live registrations.  Failed
reads, probes, re-evaluations and cached values have no influence on it, nor on the read of a fresh object. -/
theorem use_history_order (l : List UOp) (c : Cls) :
    implOrder (urun l).reg c = specOrder ((run (regOps l)).mro c) (liveLog (regOps l)) ∧
    implOrder (urun l).reg c = implOrder (run (regOps l)) c ∧
    readOut (urun l).reg c = readOut (run (regOps l)) c := by
  have ho : implOrder (urun l).reg = implOrder (run (regOps l)) := by
    funext k
    rw [(urun_rel l).implOrder_eq, (rel_run (regOps l)).implOrder_eq]
  refine ⟨?_, congrFun ho c, by simp only [readOut, ho]⟩
  rw [congrFun ho c, order_refines]

example :
    (regOps tooEarly).length = 4 ∧ (implOrder (urun tooEarly).reg 0).map (·.id) = [2, 1, 0] := by decide

/-- **With its input, a used object resolves exactly like a fresh one** - the read `C().h` after the registry operations
of the history, to which every theorem above applies (order, scope, first result that is not `None`, each wrapper once):
same value, same invocation trace, no mark left.  No side condition: the table of `cycle`-taking implementations names
plain constant implementations only (`urun_sep`), so none of them is ever told `cycle=True` on such a read. -/
theorem used_object_with_input_resolves_as_fresh_read (l : List UOp) (ob : Obj) (hs : ob.inp = 2) :
    evalObj (urun l) ob =
      ⟨.val (readOut (run (regOps l)) ob.cls).1, (readOut (run (regOps l)) ob.cls).2, []⟩ := by
  rw [← (use_history_order l ob.cls).2.2]
  simp only [evalObj, no_mark_survives, hs, readOut]
  exact evx_eq_ev _ _ (urun_sep l) _ _ _ _ _ _ _ (urun_sep l ob.cls) (urun_sep l ob.cls) (fun _ h => by cases h)

example :
    readOut (run (regOps tooEarly)) 0 = (some 41, [.enter 2, .cyc 2, .call 1, .exit 2]) := by decide

end Hooks
