import PyrollProofs.HookOrderLemmas
import PyrollProofs.HookEvalLemmas

/-!
# C01 — hook resolution order is a pure function of the registrations and the class hierarchy

Model: `PyrollModel/HookReg.lean` (six stores per class, lazily created per-subclass hook objects, `functions_gen`),
`PyrollModel/HookEval.lean` (`get_result` / `HookFunction.__call__`: wrappers, per-(function, object) re-entrancy marks),
`PyrollModel/HookOps.lean` (histories: the concrete machine `run` and the abstract machine `arun` = class hierarchy +
log of live registrations, which ignores every mere access).  Tied to `pyroll/core/hooks.py` by the correspondence
harness `driver/props/c01.py`.  Only property theorems live here; helper lemmas are in `PyrollProofs/Hook*Lemmas.lean`.

All theorems quantify over EVERY history `ops : List Op` (class definitions with arbitrary `__mro__` data - ill-formed
ones are rejected by `classOk` on both machines -, `extension_class`, registrations, removals through any class,
accesses through classes and instances, reads); no well-formedness hypothesis on the history is needed.
-/

namespace Hooks

/-! ## the order -/

theorem run_mro (ops : List Op) : (run ops).mro = (arun ops).mro := (rel_run ops).mro_eq

/-- **Order refinement.**  After any history, the order in which the code consults the implementations for an object of
class `c` (six per-owner stores, walked tier-major / MRO-minor / reversed, creating hook objects on the way) is the
documented pure function `specOrder` of the class' `__mro__` and the log of live registrations. -/
theorem order_refines (ops : List Op) (c : Cls) :
    implOrder (run ops) c = specOrder ((run ops).mro c) (liveLog ops) := by
  rw [run_mro]; exact (rel_run ops).implOrder_eq c

/-- example history: three-level chain 2 < 1 < 0, hook defined on 0, two wrappers, all three tiers, an access in between -/
def chain3 : List Op :=
  [.defClass 0 [0] true, .defClass 1 [1, 0] false, .defClass 2 [2, 1, 0] false,
    .add 0 .normal false (.ret (some 1)), .add 1 .last false (.ret (some 2)), .add 2 .first false (.ret none),
    .add 0 .last true (.wrap 1 none), .add 2 .normal true (.wrap 2 none), .touchClass 1,
    .add 1 .normal false (.ret (some 3))]

example : (implOrder (run chain3) 2).map (·.id) = [4, 3, 2, 5, 0, 1] := by decide

/-- the hierarchy of every history is well-formed and the log is sorted by registration number -/
theorem history_ok (ops : List Op) :
    (∀ c, ((run ops).mro c).Nodup) ∧ (liveLog ops).Pairwise (fun r1 r2 => r1.hf.id < r2.hf.id) := by
  rw [run_mro]; exact ⟨(rel_run ops).ok.nodup, (rel_run ops).ids_sorted⟩

/-- **Scope.**  An implementation takes part for an object of class `c` exactly when it is a live registration whose
owner is `c` or one of its base classes (a member of `c.__mro__`) - never for a base or a sibling of its owner. -/
theorem scope_exact (ops : List Op) (c : Cls) (f : HF) :
    f ∈ implOrder (run ops) c ↔ ∃ r ∈ liveLog ops, r.hf = f ∧ r.cls ∈ (run ops).mro c := by
  rw [order_refines, specOrder, List.mem_map]
  constructor
  · rintro ⟨r, hr, rfl⟩
    exact ⟨r, (mem_specRegs.1 hr).1, rfl, (mem_specRegs.1 hr).2⟩
  · rintro ⟨r, hr, rfl, hc⟩
    exact ⟨r, mem_specRegs.2 ⟨hr, hc⟩, rfl⟩

-- registered on the subclass 1: takes part for 1 and its subclass 3, not for the base 0 nor the sibling 2
example :
    let ops := [Op.defClass 0 [0] true, .defClass 1 [1, 0] false, .defClass 2 [2, 0] false, .defClass 3 [3, 1, 0] false,
      .touchClass 2, .add 1 .normal false (.ret (some 1))]
    ((implOrder (run ops) 0).map (·.id), (implOrder (run ops) 1).map (·.id), (implOrder (run ops) 2).map (·.id),
      (implOrder (run ops) 3).map (·.id)) = ([], [0], [], [0]) := by decide

/-- **Priority.**  Two live registrations in scope are consulted in the order of the documented key `Before`:
wrappers before plain implementations and tryfirst < normal < trylast (`rank`), then the index of the owner in the
`__mro__` of the object's class (most derived first), then the latest registration first. -/
theorem consulted_in_priority_order (ops : List Op) (c : Cls) (r1 r2 : Reg) (h1 : r1 ∈ liveLog ops)
    (h2 : r2 ∈ liveLog ops) (hc1 : r1.cls ∈ (run ops).mro c) (hc2 : r2.cls ∈ (run ops).mro c)
    (hb : Before ((run ops).mro c) r1 r2) : [r1.hf, r2.hf].Sublist (implOrder (run ops) c) := by
  rw [order_refines]
  exact specOrder_pair ((history_ok ops).1 c) (history_ok ops).2 h1 h2 hc1 hc2 hb

-- the hypotheses are satisfiable: the trylast wrapper of the base class 0 and the tryfirst plain implementation of
-- class 2 are both live and in scope for class 2, and the wrapper has priority
example :
    let w : Reg := ⟨⟨3, true, .wrap 1 none⟩, 0, .last⟩
    let p : Reg := ⟨⟨2, false, .ret none⟩, 2, .first⟩
    w ∈ liveLog chain3 ∧ p ∈ liveLog chain3 ∧ w.cls ∈ (run chain3).mro 2 ∧ p.cls ∈ (run chain3).mro 2 ∧
      Before ((run chain3).mro 2) w p ∧ ¬ Before ((run chain3).mro 2) p w := by decide

-- most derived first (class 1 before class 0, both normal plain) and latest first (ids 5, 0 vs. a later one)
example :
    let a : Reg := ⟨⟨5, false, .ret (some 3)⟩, 1, .normal⟩
    let b : Reg := ⟨⟨0, false, .ret (some 1)⟩, 0, .normal⟩
    a ∈ liveLog chain3 ∧ b ∈ liveLog chain3 ∧ Before ((run chain3).mro 2) a b ∧
      ((run chain3).mro 2).idxOf a.cls < ((run chain3).mro 2).idxOf b.cls := by decide

/-- the key is total on different live registrations in scope: the order is completely determined by it -/
theorem priority_total (ops : List Op) (c : Cls) (r1 r2 : Reg) (h1 : r1 ∈ liveLog ops) (h2 : r2 ∈ liveLog ops)
    (hc1 : r1.cls ∈ (run ops).mro c) (hne : r1 ≠ r2) :
    Before ((run ops).mro c) r1 r2 ∨ Before ((run ops).mro c) r2 r1 := by
  have hid : r1.hf.id ≠ r2.hf.id := fun e => hne (id_inj_of_sorted (history_ok ops).2 h1 h2 e)
  unfold Before
  by_cases hc : r1.cls = r2.cls
  · rcases Nat.lt_trichotomy r1.rank r2.rank with h | h | h
    · exact Or.inl (Or.inl h)
    · rcases Nat.lt_or_gt_of_ne hid with h' | h'
      · exact Or.inr (Or.inr ⟨h.symm, Or.inr ⟨hc.symm, h'⟩⟩)
      · exact Or.inl (Or.inr ⟨h, Or.inr ⟨hc, h'⟩⟩)
    · exact Or.inr (Or.inl h)
  · have : ((run ops).mro c).idxOf r1.cls ≠ ((run ops).mro c).idxOf r2.cls := fun e => hc (idxOf_inj_of_mem hc1 e)
    omega

theorem wrappers_before_plain (ops : List Op) (c : Cls) (r1 r2 : Reg) (h1 : r1 ∈ liveLog ops) (h2 : r2 ∈ liveLog ops)
    (hc1 : r1.cls ∈ (run ops).mro c) (hc2 : r2.cls ∈ (run ops).mro c)
    (hw1 : r1.hf.wrapper = true) (hw2 : r2.hf.wrapper = false) :
    [r1.hf, r2.hf].Sublist (implOrder (run ops) c) := by
  refine consulted_in_priority_order ops c r1 r2 h1 h2 hc1 hc2 (Or.inl ?_)
  simp only [Reg.rank, rank, hw1, hw2]
  cases r1.tier <;> cases r2.tier <;> simp

theorem tier_major (ops : List Op) (c : Cls) (r1 r2 : Reg) (h1 : r1 ∈ liveLog ops) (h2 : r2 ∈ liveLog ops)
    (hc1 : r1.cls ∈ (run ops).mro c) (hc2 : r2.cls ∈ (run ops).mro c) (hw : r1.hf.wrapper = r2.hf.wrapper)
    (ht : (r1.tier = .first ∧ r2.tier ≠ .first) ∨ (r1.tier ≠ .last ∧ r2.tier = .last)) :
    [r1.hf, r2.hf].Sublist (implOrder (run ops) c) := by
  refine consulted_in_priority_order ops c r1 r2 h1 h2 hc1 hc2 (Or.inl ?_)
  simp only [Reg.rank, rank, hw]
  revert ht
  cases r1.tier <;> cases r2.tier <;> simp

/-- within a tier: the owner that comes first in the `__mro__` of the object's class (the most derived) first -/
theorem mro_minor_most_derived_first (ops : List Op) (c : Cls) (r1 r2 : Reg) (h1 : r1 ∈ liveLog ops)
    (h2 : r2 ∈ liveLog ops) (hc1 : r1.cls ∈ (run ops).mro c) (hc2 : r2.cls ∈ (run ops).mro c)
    (hw : r1.hf.wrapper = r2.hf.wrapper) (ht : r1.tier = r2.tier)
    (hm : ((run ops).mro c).idxOf r1.cls < ((run ops).mro c).idxOf r2.cls) :
    [r1.hf, r2.hf].Sublist (implOrder (run ops) c) :=
  consulted_in_priority_order ops c r1 r2 h1 h2 hc1 hc2 (Or.inr ⟨by simp [Reg.rank, hw, ht], Or.inl hm⟩)

/-- within a class and tier: the latest registration first -/
theorem latest_first_within_class (ops : List Op) (c : Cls) (r1 r2 : Reg) (h1 : r1 ∈ liveLog ops)
    (h2 : r2 ∈ liveLog ops) (hc1 : r1.cls ∈ (run ops).mro c)
    (hw : r1.hf.wrapper = r2.hf.wrapper) (ht : r1.tier = r2.tier) (hk : r1.cls = r2.cls)
    (hlater : r2.hf.id < r1.hf.id) : [r1.hf, r2.hf].Sublist (implOrder (run ops) c) :=
  consulted_in_priority_order ops c r1 r2 h1 h2 hc1 (hk ▸ hc1)
    (Or.inr ⟨by simp [Reg.rank, hw, ht], Or.inr ⟨hk, hlater⟩⟩)

/-- every implementation is consulted at most once per chain - also along a diamond, where a base class is reached
on two inheritance paths -/
theorem each_registration_once (ops : List Op) (c : Cls) : ((implOrder (run ops) c).map (·.id)).Nodup := by
  rw [order_refines]
  exact specOrder_ids_nodup ((history_ok ops).1 c) (history_ok ops).2

-- diamond 3(1,2), 1(0), 2(0): the registration on the shared base 0 appears once, after those of 1 and 2
example : (implOrder (run [.defClass 0 [0] true, .defClass 1 [1, 0] false, .defClass 2 [2, 0] false,
      .add 2 .normal false (.ret (some 2)), .defClass 3 [3, 1, 2, 0] false, .readFns 3,
      .add 1 .normal false (.ret (some 1)), .add 0 .first false (.ret none), .add 0 .normal false (.ret (some 5)),
      .add 3 .last false (.ret (some 3))]) 3).map (·.id) = [2, 1, 0, 3, 4] := by decide

/-! ## removal -/

/-- **Removal.**  Once a live registration has been removed (through its owner: `Owner.h.remove_function(f)` or
`with f:`), it is never consulted again - whatever happens afterwards, for whatever class. -/
theorem removed_never_consulted (ops ops' : List Op) (r : Reg) (hr : r ∈ liveLog ops) (c : Cls) :
    ∀ f ∈ implOrder (run (ops ++ Op.remove r.cls r.hf.id :: ops')) c, f.id ≠ r.hf.id := by
  intro f hf e
  obtain ⟨r', hr', rfl, _⟩ := (scope_exact _ c f).1 hf
  simp only [liveLog, arun, List.foldl_append, List.foldl_cons] at hr'
  have hrel := rel_run ops
  rcases (afoldl_log ops' _).2 r' hr' with h | h
  · simp only [astep, List.mem_filter, Bool.not_eq_true', Bool.and_eq_false_iff, beq_eq_false_iff_ne, ne_eq] at h
    have : r' = r := id_inj_of_sorted hrel.ids_sorted h.1 hr e
    subst this
    rcases h.2 with h' | h' <;> exact h' rfl
  · have := hrel.ids_lt r hr
    simp only [astep, arun] at h this
    omega

example :
    let ops := [Op.defClass 0 [0] true, .defClass 1 [1, 0] false, .add 0 .normal false (.ret (some 1)),
      .add 1 .normal false (.ret (some 2)), .readFns 1]
    (⟨⟨0, false, .ret (some 1)⟩, 0, .normal⟩ : Reg) ∈ liveLog ops ∧
    (implOrder (run ops) 1).map (·.id) = [1, 0] ∧
    (implOrder (run (ops ++ Op.remove 0 0 :: [.add 0 .normal false (.ret (some 3))])) 1).map (·.id) = [1, 2] := by
  decide

/-! ## independence from accesses -/

/-- **Independence from when / through which class or instance the hook was first touched.**  Two histories that
differ only in accesses (`getattr` on classes, attribute access through instances, `Hook.functions`, reads - all of
which lazily create per-subclass hook objects), inserted or deleted anywhere, resolve every hook alike: same order,
same value, same invocations. -/
theorem touch_irrelevant (ops ops' : List Op)
    (h : (ops.filter fun o => !o.isTouch) = (ops'.filter fun o => !o.isTouch)) (c : Cls) :
    implOrder (run ops) c = implOrder (run ops') c ∧ readOut (run ops) c = readOut (run ops') c := by
  have ha : arun ops = arun ops' := by
    unfold arun; rw [← afoldl_filter ops, ← afoldl_filter ops', h]
  have ho : implOrder (run ops) = implOrder (run ops') := by
    funext k
    rw [(rel_run ops).implOrder_eq, (rel_run ops').implOrder_eq, ha]
  exact ⟨congrFun ho c, by simp only [readOut, ho]⟩

example :
    let ops := [Op.defClass 0 [0] true, .defClass 1 [1, 0] false, .add 0 .normal false (.ret (some 1)),
      .add 1 .first true (.wrap 2 none)]
    let ops' := [Op.defClass 0 [0] true, .defClass 1 [1, 0] false, .read 1, .touchInst 1,
      .add 0 .normal false (.ret (some 1)), .readFns 0, .add 1 .first true (.wrap 2 none), .touchClass 1]
    (ops.filter fun o => !o.isTouch) = (ops'.filter fun o => !o.isTouch) ∧ (readOut (run ops') 1).1 = some 12 := by
  decide

/-! ## evaluation -/

/-- hypotheses of the evaluation theorems for a read on a fresh object of class `c` after the history `ops`:
* the chain is shorter than what python's recursion limit / the model's fuel carries,
* no plain implementation in the chain reads the hook on another object (that case: `eval_other_objects_irrelevant`),
* the wrappers follow the documented protocol: a wrapper that wraps answers a value. -/
structure ReadOk (ops : List Op) (c : Cls) : Prop where
  size : (implOrder (run ops) c).length ≤ 900
  plain : noDelegate (plainsOf (implOrder (run ops) c)) = true
  protocol : coop (firstSome (plainsOf (implOrder (run ops) c))) (wrappersOf (implOrder (run ops) c)) = true

/-- **Evaluation.**  The read `C().h` on a fresh object evaluates exactly as `specM` prescribes: wrappers of the chain of
the OBJECT's class from the outermost (highest priority) inwards, each marked active once; the plain implementations
of that same chain in order up to the first result that is not `None`. -/
theorem eval_refines (ops : List Op) (c : Cls) (h : ReadOk ops c) :
    readOut (run ops) c =
      specM (plainsOf (implOrder (run ops) c)) [] (wrappersOf (implOrder (run ops) c)) := by
  have hsplit : implOrder (run ops) c = wrappersOf (implOrder (run ops) c) ++ plainsOf (implOrder (run ops) c) := by
    rw [order_refines]; exact specOrder_split _ _
  have hids := each_registration_once ops c
  have hlen : (wrappersOf (implOrder (run ops) c)).length + (plainsOf (implOrder (run ops) c)).length ≤ 900 := by
    have := congrArg List.length hsplit
    rw [List.length_append] at this
    have := h.size; omega
  have hfuel : needM (plainsOf (implOrder (run ops) c)) [] (wrappersOf (implOrder (run ops) c)) ≤ evalFuel := by
    have h1 := needM_le (plainsOf (implOrder (run ops) c)) (wrappersOf (implOrder (run ops) c)) []
    have h2 : (wrappersOf (implOrder (run ops) c)).length * (([] : List HF).length + (wrappersOf (implOrder (run ops) c)).length + 2)
        ≤ 900 * 902 := Nat.mul_le_mul (by omega) (by simp; omega)
    simp only [evalFuel]; omega
  have key := ev_wrappers (implOrder (run ops)) (plainsOf (implOrder (run ops) c)) 0 0
    (fun p hp => by simpa [plainsOf] using (List.mem_filter.1 hp).2)
    (Or.inr (noDelegate_iff h.plain))
    (wrappersOf (implOrder (run ops) c)) [] evalFuel [] []
    (fun w hw => by simpa [wrappersOf] using (List.mem_filter.1 hw).2)
    (fun _ hh => by cases hh)
    (by
      simp only [List.nil_append]
      exact (List.filter_sublist.map _).nodup hids)
    (fun _ _ => by simp)
    h.protocol hfuel
  simp only [List.nil_append] at key
  rw [readOut]
  conv => lhs; arg 3; rw [hsplit]
  conv => lhs; arg 4; rw [hsplit]
  rw [key]

/-- **First result that is not `None` wins; each wrapper is applied exactly once, to the value the rest of the chain
yields for that same object.**  The value of the read is the fold of the wrappers of the object's class chain
(outermost = highest priority) over the first non-`None` result of the plain implementations of that chain; the
wrappers entered are exactly the wrapping wrappers in priority order, each once, left in the opposite order; the plain
implementations called are the prefix of the plain chain up to the first result. -/
theorem eval_wrappers_once (ops : List Op) (c : Cls) (h : ReadOk ops c) :
    let ws := wrappersOf (implOrder (run ops) c)
    let ps := plainsOf (implOrder (run ops) c)
    (readOut (run ops) c).1 = foldW ws (firstSome ps) ∧
    enters (readOut (run ops) c).2 = (ws.filter fun w => w.body != .decline).map (·.id) ∧
    exits (readOut (run ops) c).2 = ((ws.filter fun w => w.body != .decline).map (·.id)).reverse ∧
    calls (readOut (run ops) c).2 = calls (plainSpec ps).2 ∧
    ∀ w ∈ ws, w.body ≠ .decline → (enters (readOut (run ops) c).2).count w.id = 1 := by
  intro ws ps
  rw [eval_refines ops c h]
  refine ⟨specM_val _ _ _, enters_specM _ _ _, exits_specM _ _ _, calls_specM _ _ _, ?_⟩
  intro w hw hb
  rw [enters_specM]
  have hn : (((ws.filter fun w => w.body != .decline)).map (·.id)).Nodup :=
    ((List.filter_sublist.trans List.filter_sublist).map _).nodup (each_registration_once ops c)
  rw [hn.count]
  have : w.id ∈ ((ws.filter fun w => w.body != .decline)).map (·.id) :=
    List.mem_map.2 ⟨w, List.mem_filter.2 ⟨hw, by simp [hb]⟩, rfl⟩
  simp [this]

/-- without wrappers: the plain implementations in priority order, the first result that is not `None` -/
theorem eval_first_non_none (ops : List Op) (c : Cls) (h : ReadOk ops c)
    (hw : wrappersOf (implOrder (run ops) c) = []) :
    readOut (run ops) c = plainSpec (implOrder (run ops) c) := by
  have hsplit : implOrder (run ops) c = wrappersOf (implOrder (run ops) c) ++ plainsOf (implOrder (run ops) c) := by
    rw [order_refines]; exact specOrder_split _ _
  rw [eval_refines ops c h, hw, specM]
  rw [hw, List.nil_append] at hsplit
  rw [← hsplit]

-- three-level chain, two wrappers (one registered on the BASE class 0, one on the object's class 2), all three tiers:
-- the wrapper of the base class wraps the chain of class 2 (F1), both wrappers are applied once (F2)
example :
    let ops := chain3
    readOut (run ops) 2 = (some 312, [.enter 4, .cyc 4, .enter 3, .cyc 4, .cyc 3, .call 2, .call 5, .exit 3, .exit 4])
      ∧ (readOut (run ops) 0).1 = some 11 := by decide

example : ReadOk chain3 2 := ⟨by decide, by decide, by decide⟩

/-- **Same object.**  What is executing on OTHER objects has no influence: the evaluation of a chain on object `j`
(here: an object created by an implementation that runs inside another evaluation, `depth = 1`) under any set `act` of
active (function, object) pairs none of which concerns `j` is the evaluation `specM` of a fresh read. -/
theorem eval_other_objects_irrelevant (chainOf : Cls → List HF) (ws ps : List HF) (j fuel : Nat)
    (act : List (Nat × Nat)) (tr : List Ev) (hact : ∀ p ∈ act, p.2 ≠ j)
    (hws : ∀ w ∈ ws, w.wrapper = true) (hps : ∀ p ∈ ps, p.wrapper = false) (hid : (ws.map (·.id)).Nodup)
    (hcoop : coop (firstSome ps) ws = true) (hfuel : needM ps [] ws ≤ fuel) :
    ev chainOf fuel (ws ++ ps) (ws ++ ps) j 1 act tr = ((specM ps [] ws).1, tr ++ (specM ps [] ws).2) := by
  have := ev_wrappers chainOf ps j 1 hps (Or.inl (by decide)) ws [] fuel act tr hws (fun _ hh => by cases hh)
    (by simpa using hid) (fun w _ hm => hact _ hm rfl) hcoop hfuel
  simpa using this

example :
    ev (fun _ => []) 10 ([⟨0, true, .wrap 2 none⟩] ++ [⟨1, false, .ret (some 6)⟩])
      ([⟨0, true, .wrap 2 none⟩] ++ [⟨1, false, .ret (some 6)⟩]) 5 1 [(0, 0), (2, 0)] [.enter 0] =
    (some 62, [.enter 0, .enter 0, .cyc 0, .call 1, .exit 0]) := by decide

-- F3: the wrapper 0 is executing on the object of the read (class 1) when the implementation 2 reads the hook on a
-- fresh object of class 0: there the wrapper is entered again (not cycled) and wraps that object's chain
example :
    readOut (run [.defClass 0 [0] true, .defClass 1 [1, 0] false, .add 0 .normal true (.wrap 2 none),
      .add 0 .last false (.ret (some 6)), .add 1 .normal false (.delegate 0)]) 1 =
    (some 622, [.enter 0, .cyc 0, .call 2, .inst 0, .enter 0, .cyc 0, .call 1, .exit 0, .exit 0]) := by decide

-- the point excluded by `ReadOk.protocol` (exercised by the correspondence harness): a wrapper that wraps but answers
-- `None` is passed over like any function that answers `None`, so the rest of the chain runs again (`call 0` twice);
-- the value is still the fold
example :
    readOut (run [.defClass 0 [0] true, .add 0 .normal false (.ret none), .add 0 .normal true (.wrap 2 none),
      .add 0 .normal true (.wrap 1 (some 7))]) 0 =
    (some 7, [.enter 2, .cyc 2, .enter 1, .cyc 2, .cyc 1, .call 0, .exit 1, .call 0, .exit 2]) := by decide

end Hooks
