import PyrollProofs.LifecycleLemmas
import PyrollModel.HookSource

/-!
# C02 — hook value life-cycle: explicit value, then remembered value, then computation

Model: `PyrollModel/Lifecycle.lean` (tied to `pyroll/core/hooks.py` — `Hook.__get__/__set__/__delete__/get_result`,
`HookHost.reevaluate_cache / has_* / evaluate_and_set_hooks / root_hook_fallback` — and to `Unit.Profile.__init__` in
`pyroll/core/unit/unit.py` by the source-level tie of section 0 (T; `hooks.py` only) and by the correspondence harness
`driver/props/c02.py` (K), which compares result, invocation trace
and the ordered `__dict__`/`__cache__` of every instance after every operation).  Helper lemmas:
`PyrollProofs/LifecycleLemmas.lean`.  Only property theorems and their non-vacuity examples live here.

All theorems hold for EVERY state (any number of classes, instances, registrations), every amount of fuel and — the
history theorems — every operation list; `step fuel st op` first empties the invocation log, so `(step ..).1.trace` is
the list of implementations / explicit callables invoked by that one operation.
-/

-- every unfolding of `step` names the lemmas about the generated source tables, whether the goal has that case or not
set_option linter.unusedSimpArgs false

namespace Life

/-! ## 0. the tie of the hand-written model to the source (T)

`pyroll/core/hooks.py` is re-read on every run of `./check C02` (`driver/translate/hooks_skeleton.py` →
`PyrollModel/Gen/C02Hooks.lean`).

* `hooks_source_consumed` - `hasSet` / `hasCached` (which dictionary `has_set` / `has_cached` look into), `reeval` (what
  `reevaluate_cache` does with the remembered names) and `noneOutcome` (a `None` result of `get_result`: the AttributeError
  check exists and precedes the store) are the model's functions INSTANTIATED with the generated tables; `step`, `ev`, `run`
  and therefore the theorems below are about this instance.  The theorem states what the instance is; the proofs
  (`PyrollProofs/LifecycleLemmas.lean`: `hasSet_gen`, `hasCached_gen`, `reeval_gen`, `noneOutcome_gen`) rest on it.
* `hooks_source_as_modelled` - the statements of `Hook.__get__` (explicit and remembered part) `/ __set__ / __delete__ /
  get_result`, `HookHost.__init__`, `has_set_or_cached`, `has_value`, `__attrs__`, `root_hook_fallback`,
  `evaluate_and_set_hooks` and the `root_hooks` list class, in canonical form, are the ones the model was written against (`PyrollModel/HookSource.lean`), with every writer
  of `__dict__` / `__cache__` anywhere in the file, the names defined in `HookHost` and `_RootHooksList`, and the module-level
  statement that creates `root_hooks`. -/

/-- **Source tie, consumed part** -/
theorem hooks_source_consumed :
    (∀ st i n, hasSet st i n = (lookup n (st.obj i).dict).isSome) ∧
    (∀ st i n, hasCached st i n = (lookup n (st.obj i).cache).isSome) ∧
    (∀ fuel i st, reeval fuel i st = reevalLoop fuel i st (keys (st.obj i).cache)) ∧
    (∀ i n s, noneOutcome i n s = (s, .attrErr)) :=
  ⟨hasSet_gen, hasCached_gen, reeval_gen, noneOutcome_gen⟩

/-- the model really follows the tables: a `has_set` that looked into `__cache__` would answer from the cache -/
example : hasIn { cls := 0, dict := [], cache := [(3, none)], fb := none } 3 "__cache__" = true ∧
    hasIn { cls := 0, dict := [], cache := [(3, none)], fb := none } 3 "__dict__" = false ∧
    checkIdx ("is None", "AttributeError") [("except RecursionError", "AttributeError"), ("not _all_finite", "ValueError")]
      = none := by decide

/-- **Source tie, pinned part**: the mirrored statements (of `Hook.__get__` the explicit-value and the remembered-value
    part; its computing part, `has_set`, `has_cached` and `reevaluate_cache` are covered by the consumed facts, their
    recognisers accept nothing else); the explicit value and the remembered value are looked up by name in `__dict__` then
    `__cache__` and count when they are `is not None` (so `0` and `False` count); a computed value is stored in `__cache__`;
    a result of an implementation is final when it `is not None`.  The conversions RecursionError → AttributeError and
    non-finite → ValueError lie outside this model's domain (values are integers and booleans, exhausted fuel is
    `fuelOut`) and are C07's. -/
theorem hooks_source_as_modelled :
    Gen.C02.Hooks.hook_getExplicit = HookSource.hook_getExplicit ∧
    Gen.C02.Hooks.hook_getCached = HookSource.hook_getCached ∧
    Gen.C02.Hooks.hook_set = HookSource.hook_set ∧
    Gen.C02.Hooks.hook_delete = HookSource.hook_delete ∧
    Gen.C02.Hooks.hook_getResult = HookSource.hook_getResult ∧
    Gen.C02.Hooks.hookHost_init = HookSource.hookHost_init ∧
    Gen.C02.Hooks.hookHost_hasSetOrCached = HookSource.hookHost_hasSetOrCached ∧
    Gen.C02.Hooks.hookHost_hasValue = HookSource.hookHost_hasValue ∧
    Gen.C02.Hooks.hookHost_attrs = HookSource.hookHost_attrs ∧
    Gen.C02.Hooks.hookHost_rootHookFallback = HookSource.hookHost_rootHookFallback ∧
    Gen.C02.Hooks.hookHost_evaluateAndSetHooks = HookSource.hookHost_evaluateAndSetHooks ∧
    Gen.C02.Hooks.rootHooksList_add = HookSource.rootHooksList_add ∧
    Gen.C02.Hooks.rootHooksList_insertBefore = HookSource.rootHooksList_insertBefore ∧
    Gen.C02.Hooks.rootHooksList_insertAfter = HookSource.rootHooksList_insertAfter ∧
    Gen.C02.Hooks.rootHooksList_removeLast = HookSource.rootHooksList_removeLast ∧
    Gen.C02.Hooks.stateWriters = HookSource.writersOf ["__dict__", "__cache__"] ∧
    Gen.C02.Hooks.classMembers =
      HookSource.membersOf ["HookHost(ReprMixin, LogMixin, metaclass=_HookHostMeta)", "_RootHooksList(list)"] ∧
    Gen.C02.Hooks.moduleLevel = HookSource.moduleLevel ∧
    Gen.C02.Hooks.getLookups = [("__dict__", "is not None"), ("__cache__", "is not None")] ∧
    Gen.C02.Hooks.getStore = "__cache__" ∧
    Gen.C02.Hooks.getResultTest = "is not None" := by
  refine ⟨?_, ?_, ?_, ?_, ?_, ?_, ?_, ?_, ?_, ?_, ?_, ?_, ?_, ?_, ?_, ?_, ?_, ?_, ?_, ?_, ?_⟩ <;> first | rfl | decide


/-- the state an operation starts from: `st` with the invocation log emptied -/
abbrev State.fresh (st : State) : State := { st with trace := [] }

/-- "no usable explicit value": the name is absent from `__dict__` or holds `None` -/
def Unset (st : State) (i : Inst) (n : Name) : Prop :=
  lookup n (st.obj i).dict = none ∨ lookup n (st.obj i).dict = some .none

/-! ## 1. Reading: explicit value first -/

/-- An explicit plain value — **including the falsy `0` and `False`** — is what a read returns; nothing is invoked
(empty trace) and nothing changes, whatever the cache holds and whatever is registered. -/
theorem read_explicit (fuel : Nat) (st : State) (i : Inst) (n : Name) (v : Val)
    (h : lookup n (st.obj i).dict = some (.plain v)) :
    step (fuel + 1) st (.read i n) = (st.fresh, .res (.val v)) := by
  simp [step, ev, h]

/-- An explicit callable without parameters is invoked with NO argument; its result is returned (a `None` result
included) and is not remembered: the state changes by the invocation record only. -/
theorem read_explicit_callable0 (fuel : Nat) (st : State) (i : Inst) (n : Name) (id : Id) (r : Option Val)
    (h : lookup n (st.obj i).dict = some (.call0 id r)) :
    step (fuel + 1) st (.read i n) = (st.fresh.log id, .res (Res.ofOpt r)) := by
  simp [step, ev, h]

/-- An explicit callable with one parameter is invoked with the INSTANCE: the read is the evaluation of its body on
`i` (after recording the invocation); the cache and the implementations of `n` are not consulted. -/
theorem read_explicit_callable1 (fuel : Nat) (st : State) (i : Inst) (n : Name) (id : Id) (b : Body)
    (h : lookup n (st.obj i).dict = some (.call1 id b)) :
    step (fuel + 1) st (.read i n) =
      ((ev fuel (st.fresh.log id) (.body i b)).1, .res (ev fuel (st.fresh.log id) (.body i b)).2) := by
  simp [step, ev, h]

/-- A callable with more parameters is called with the instance only: TypeError, nothing changes. -/
theorem read_explicit_callable2 (fuel : Nat) (st : State) (i : Inst) (n : Name) (id : Id)
    (h : lookup n (st.obj i).dict = some (.call2 id)) :
    step (fuel + 1) st (.read i n) = (st.fresh, .res .typeErr) := by
  simp [step, ev, h]

/-- An explicit `None` is "set" (see `has_set_answers`) but reads exactly like an absent value (stated as it is). -/
theorem read_explicit_none_as_unset (fuel : Nat) (st : State) (i : Inst) (n : Name) (h : Unset st i n) :
    step (fuel + 1) st (.read i n) =
      ((ev fuel st.fresh (.unset i n)).1, .res (ev fuel st.fresh (.unset i n)).2) := by
  rcases h with h | h <;> simp [step, ev, h]

/-! ## 2. Reading: the remembered value, silently -/

/-- Without a usable explicit value a remembered value is returned **without invoking any implementation** (empty
trace) and without any change of state — whatever is registered at that moment. -/
theorem read_cached_silent (fuel : Nat) (st : State) (i : Inst) (n : Name) (v : Val) (hd : Unset st i n)
    (hc : lookup n (st.obj i).cache = some (some v)) :
    step (fuel + 2) st (.read i n) = (st.fresh, .res (.val v)) := by
  rcases hd with h | h <;> simp [step, ev, h, hc]

/-! ## 3. Reading: computation, which is then remembered -/

/-- "nothing remembered": no entry, or the entry holds `None` (which `reevaluate_cache` can leave behind) -/
def NotRemembered (st : State) (i : Inst) (n : Name) : Prop :=
  ∀ w, lookup n (st.obj i).cache ≠ some (some w)

/-- Neither explicit nor remembered: the implementations of the instance's class are run in resolution order
(`chain`); a value `v` they produce is returned AND stored in the cache (`remember`), no explicit value is created;
and from then on — with any fuel — the read is served silently from the cache. -/
theorem read_computes_and_remembers (fuel : Nat) (st s1 : State) (i : Inst) (n : Name) (v : Val) (hd : Unset st i n)
    (hc : NotRemembered st i n)
    (hx : ev fuel st.fresh (.chain i (order st (st.obj i).cls n)) = (s1, .val v)) :
    step (fuel + 2) st (.read i n) = (s1.remember i n (some v), .res (.val v)) ∧
    (∀ j, ((s1.remember i n (some v)).obj j).dict = (st.obj j).dict) ∧
    ∀ g, step (g + 2) (s1.remember i n (some v)) (.read i n) = ((s1.remember i n (some v)).fresh, .res (.val v)) := by
  have hp := ev_pres fuel st.fresh (.chain i (order st (st.obj i).cls n))
  rw [hx] at hp
  have hdict : ∀ j, ((s1.remember i n (some v)).obj j).dict = (st.obj j).dict := fun j =>
    (remember_dict s1 i j n _).trans (hp.dict j)
  refine ⟨?_, hdict, ?_⟩
  · have : ev (fuel + 1) st.fresh (.unset i n) = (s1.remember i n (some v), .val v) := by
      rw [unset_eq fuel st.fresh i n hc]
      show finishGet i n (ev fuel st.fresh (.chain i (order st (st.obj i).cls n))) = _
      rw [hx]; rfl
    rw [read_explicit_none_as_unset (fuel + 1) st i n hd, this]
  · intro g
    exact read_cached_silent g _ i n v (by unfold Unset; rw [hdict i]; exact hd) (remember_lookup_self _ _ _ _)

/-- ... and when no implementation produces a value the read raises AttributeError and remembers nothing under `n`. -/
theorem read_nothing_available (fuel : Nat) (st s1 : State) (i : Inst) (n : Name) (hd : Unset st i n)
    (hc : NotRemembered st i n)
    (hx : ev fuel st.fresh (.chain i (order st (st.obj i).cls n)) = (s1, .none)) :
    step (fuel + 2) st (.read i n) = (s1, .res .attrErr) := by
  have : ev (fuel + 1) st.fresh (.unset i n) = (s1, .attrErr) := by
    rw [unset_eq fuel st.fresh i n hc]
    show finishGet i n (ev fuel st.fresh (.chain i (order st (st.obj i).cls n))) = _
    rw [hx]; rfl
  rw [read_explicit_none_as_unset (fuel + 1) st i n hd, this]

/-- A finished read does not depend on the amount of fuel (the model's stand-in for the recursion limit). -/
theorem read_fuel_independent (f g : Nat) (hfg : f ≤ g) (st : State) (i : Inst) (n : Name)
    (h : (step f st (.read i n)).2 ≠ .res .fuelOut) : step g st (.read i n) = step f st (.read i n) := by
  simp only [step, reeval_gen] at h ⊢
  rw [ev_fuel_mono hfg _ _ (fun e => h (by rw [e]))]

/-! ## 4. Assigning and deleting touch only the explicit value -/

/-- Assignment (of anything: plain, falsy, callable, `None`) stores the explicit value under `(i, n)` and changes
neither another explicit value nor ANY cache. -/
theorem assign_keeps_cache (fuel : Nat) (st : State) (i : Inst) (n : Name) (x : PyVal) :
    lookup n ((step fuel st (.assign i n x)).1.obj i).dict = some x ∧
    (∀ j, ((step fuel st (.assign i n x)).1.obj j).cache = (st.obj j).cache) ∧
    (∀ j m, (j ≠ i ∨ m ≠ n) → lookup m ((step fuel st (.assign i n x)).1.obj j).dict = lookup m (st.obj j).dict) := by
  refine ⟨assign_lookup_self _ _ _ _, fun j => assign_cache _ _ _ _ _, ?_⟩
  intro j m h
  simp only [step, reeval_gen]
  by_cases hj : j = i
  · subst hj
    have hm : m ≠ n := by rcases h with h | h; exact absurd rfl h; exact h
    exact assign_lookup_ne _ _ hm _
  · rw [assign_other _ _ _ _ _ hj]

/-- Deletion removes the explicit value under `(i, n)` (no error when there is none) and changes neither another
explicit value nor ANY cache. -/
theorem delete_keeps_cache (fuel : Nat) (st : State) (i : Inst) (n : Name) :
    lookup n ((step fuel st (.delete i n)).1.obj i).dict = none ∧
    (∀ j, ((step fuel st (.delete i n)).1.obj j).cache = (st.obj j).cache) ∧
    (∀ j m, (j ≠ i ∨ m ≠ n) → lookup m ((step fuel st (.delete i n)).1.obj j).dict = lookup m (st.obj j).dict) := by
  refine ⟨?_, ?_, ?_⟩
  · simp only [step, setObj_self]; exact lookup_del_self _ _
  · intro j
    simp only [step, reeval_gen]
    by_cases hj : j = i
    · subst hj; rw [setObj_self]
    · rw [setObj_other _ _ _ _ hj]
  · intro j m h
    simp only [step, reeval_gen]
    by_cases hj : j = i
    · subst hj
      have hm : m ≠ n := by rcases h with h | h; exact absurd rfl h; exact h
      rw [setObj_self]; exact lookup_del_ne hm _
    · rw [setObj_other _ _ _ _ hj]

/-- delete-then-read is served from the cache when a value is remembered -/
theorem delete_then_read_from_cache (fuel g : Nat) (st : State) (i : Inst) (n : Name) (v : Val)
    (hc : lookup n (st.obj i).cache = some (some v)) :
    step (g + 2) (step fuel st (.delete i n)).1 (.read i n) = ((step fuel st (.delete i n)).1.fresh, .res (.val v)) := by
  obtain ⟨h1, h2, _⟩ := delete_keeps_cache fuel st i n
  exact read_cached_silent g _ i n v (Or.inl h1) (by rw [h2]; exact hc)

/-! ## 5. Computation never overwrites an explicit value -/

/-- the operations that compute: reading, `has_value`, re-evaluation -/
def Op.computes : Op → Bool
  | .read _ _ | .hasValue _ _ | .reevaluate _ => true
  | _ => false

/-- A read, a `has_value` test or a re-evaluation — on any instance, with any registry, finished or failed — leaves the
`__dict__` of EVERY instance exactly as it was (order included).  (Root-hook evaluation is the stated exception:
section 8.) -/
theorem compute_keeps_dict (fuel : Nat) (st : State) (op : Op) (h : op.computes = true) (j : Inst) :
    ((step fuel st op).1.obj j).dict = (st.obj j).dict := by
  cases op with
  | read i n => simp only [step, reeval_gen]; rw [(ev_pres _ _ _).dict]
  | hasValue i n =>
    simp only [step, reeval_gen]
    have h1 := (ev_pres fuel st.fresh (.get i n)).dict j
    split <;> (next h' => rw [h'] at h1; simp only; rw [h1])
  | reevaluate i => simp only [step, reeval_gen]; rw [(reevalLoop_pres _ _ _ _).dict]
  | _ => simp [Op.computes] at h

/-- A read or `has_value` test never forgets or alters a remembered value either, on any instance; it only adds
names at the end of the cache (python dict order) — and only on the instance it was applied to. -/
theorem read_keeps_remembered (fuel : Nat) (st : State) (i : Inst) (n : Name) :
    (∀ j m v, lookup m (st.obj j).cache = some (some v) →
      lookup m ((step fuel st (.read i n)).1.obj j).cache = some (some v)) ∧
    (∀ j, keys (st.obj j).cache <+: keys ((step fuel st (.read i n)).1.obj j).cache) ∧
    (∀ j, j ≠ i → (step fuel st (.read i n)).1.obj j = st.obj j) := by
  simp only [step, reeval_gen]
  exact ⟨(ev_pres fuel st.fresh (.get i n)).cacheMono, (ev_pres fuel st.fresh (.get i n)).keysPrefix,
    fun j hj => ev_frame _ _ (.get i n) j hj⟩

/-! ## 6. Re-evaluation recomputes exactly the remembered names from the current registry -/

/-- Re-evaluation never drops a remembered name (it does not clear): the old names, in their order, are a prefix of the
new ones (a dependent read may remember further names through the ordinary read path); explicit values and all other
instances are untouched; the registry is only read. -/
theorem reevaluate_keeps_names (fuel : Nat) (st : State) (i : Inst) :
    keys (st.obj i).cache <+: keys ((step fuel st (.reevaluate i)).1.obj i).cache ∧
    (∀ j, j ≠ i → (step fuel st (.reevaluate i)).1.obj j = st.obj j) ∧
    (step fuel st (.reevaluate i)).1.regs = st.regs := by
  simp only [step, reeval_gen]
  have h := reevalLoop_pres fuel i (keys (st.obj i).cache) st.fresh
  exact ⟨h.keysPrefix i, h.other, h.regs⟩

/-- **Every remembered name is recomputed, from the implementations registered at that moment**: if the
re-evaluation finishes, then for each remembered name `n` (the names before it being `pre`) the chain of `n` for the
CURRENT registry `st.regs` was run in the state `s` reached by re-evaluating `pre` (Gauss–Seidel order = dict order;
`s` has the same registry and explicit values), and a value it produced is what is remembered afterwards; a `None`
result is stored too (the name stays remembered, `has_cached` stays true). -/
theorem reevaluate_recomputes (fuel : Nat) (st fin : State) (i : Inst) (pre post : List Name) (n : Name)
    (hnd : (keys (st.obj i).cache).Nodup) (hsplit : keys (st.obj i).cache = pre ++ n :: post)
    (hfin : step fuel st (.reevaluate i) = (fin, .res .none)) :
    ∃ s s1 r, reevalLoop fuel i st.fresh pre = (s, .none) ∧ s.regs = st.regs ∧ (∀ j, (s.obj j).dict = (st.obj j).dict) ∧
      ev fuel s (.chain i (order st (st.obj i).cls n)) = (s1, r) ∧
      ((∃ v, r = .val v ∧ lookup n (fin.obj i).cache = some (some v)) ∨
       (r = .none ∧ n ∈ keys (fin.obj i).cache)) := by
  have hn : n ∉ post := by
    rw [hsplit] at hnd
    have := (List.nodup_append.1 hnd).2.1
    exact (List.nodup_cons.1 this).1
  have hloop : reevalLoop fuel i st.fresh (pre ++ n :: post) = (fin, .none) := by
    have := reevaluate_loop hfin
    rw [hsplit] at this; exact this
  obtain ⟨s, s1, r, h1, hp, h3, h4⟩ := reevalLoop_recomputes fuel i pre post n st.fresh fin hn hloop
  exact ⟨s, s1, r, h1, hp.regs, hp.dict, h3, h4⟩

/-- **Closed form when the implementations have no dependencies** (constants and `None`): re-evaluation succeeds,
the remembered names are EXACTLY the same afterwards (same order), and under each of them sits the first non-`None`
result of the registry as it is NOW (`None` if there is none) — nothing of the old values survives, nothing else is
computed. -/
theorem reevaluate_exactly_cached_names (fuel : Nat) (st : State) (i : Inst)
    (hleaf : ∀ r ∈ st.regs, r.body.isLeaf = true) (hfuel : ∀ n, (order st (st.obj i).cls n).length < fuel) :
    ∃ fin, step fuel st (.reevaluate i) = (fin, .res .none) ∧
      keys (fin.obj i).cache = keys (st.obj i).cache ∧
      (∀ n ∈ keys (st.obj i).cache, lookup n (fin.obj i).cache = some (firstConst (order st (st.obj i).cls n))) ∧
      (∀ n, n ∉ keys (st.obj i).cache → lookup n (fin.obj i).cache = none) := by
  obtain ⟨fin, h1, h2, h3, h4⟩ := reevalLoop_leaf fuel i (keys (st.obj i).cache) st.fresh hleaf hfuel (fun _ h => h)
  refine ⟨fin, ?_, h2, h3, ?_⟩
  · simp only [step, reeval_gen]
    show ((reevalLoop fuel i st.fresh (keys (st.obj i).cache)).1, Out.res (reevalLoop fuel i st.fresh _).2) = _
    rw [h1]
  · intro n hn
    rw [h4 n hn]
    cases hl : lookup n (st.obj i).cache with
    | none => rfl
    | some x => exact absurd (mem_keys_of_lookup hl) hn

/-! ## 7. `has_set`, `has_cached`, `has_set_or_cached`, `has_value` -/

/-- `has_set` is true exactly when the name is a key of `__dict__` — an explicit `None` or falsy value counts. -/
theorem has_set_answers (fuel : Nat) (st : State) (i : Inst) (n : Name) :
    step fuel st (.hasSet i n) = (st.fresh, .flag (decide (n ∈ keys (st.obj i).dict))) := by
  simp only [step, hasSet_gen]
  congr 2
  rw [Bool.eq_iff_iff]; simp [lookup_isSome_iff]

/-- `has_cached` is true exactly when the name is a key of `__cache__` (a remembered `None` counts). -/
theorem has_cached_answers (fuel : Nat) (st : State) (i : Inst) (n : Name) :
    step fuel st (.hasCached i n) = (st.fresh, .flag (decide (n ∈ keys (st.obj i).cache))) := by
  simp only [step, hasCached_gen]
  congr 2
  rw [Bool.eq_iff_iff]; simp [lookup_isSome_iff]

theorem has_set_or_cached_answers (fuel : Nat) (st : State) (i : Inst) (n : Name) :
    step fuel st (.hasSetOrCached i n) =
      (st.fresh, .flag (decide (n ∈ keys (st.obj i).dict) || decide (n ∈ keys (st.obj i).cache))) := by
  simp only [step, hasSet_gen, hasCached_gen]
  congr 3 <;> (rw [Bool.eq_iff_iff]; simp [lookup_isSome_iff])

/-- `has_value` answers whether a read would succeed: it performs the read (same state change, same invocations,
including remembering a computed value), answers `True` when that yields a result, `False` exactly when it raises
AttributeError, and lets a TypeError through. -/
theorem has_value_answers (fuel : Nat) (st : State) (i : Inst) (n : Name) :
    (step fuel st (.hasValue i n)).1 = (step fuel st (.read i n)).1 ∧
    (step fuel st (.hasValue i n)).2 =
      (match (step fuel st (.read i n)).2 with
       | .res (.val _) => .flag true
       | .res .none => .flag true
       | .res .attrErr => .flag false
       | o => o) := by
  simp only [step, reeval_gen]
  generalize ev fuel st.fresh (.get i n) = x
  obtain ⟨s, r⟩ := x
  cases r <;> exact ⟨rfl, rfl⟩

/-- after an assignment `has_set` is true — also for `None`, `0`, `False`; after a deletion it is false -/
theorem has_set_after_assign_delete (fuel : Nat) (st : State) (i : Inst) (n : Name) (x : PyVal) :
    (step fuel (step fuel st (.assign i n x)).1 (.hasSet i n)).2 = .flag true ∧
    (step fuel (step fuel st (.delete i n)).1 (.hasSet i n)).2 = .flag false := by
  constructor
  · have := (assign_keeps_cache fuel st i n x).1
    simp only [step, hasSet_gen] at this ⊢
    rw [this]; rfl
  · have := (delete_keeps_cache fuel st i n).1
    simp only [step, hasSet_gen] at this ⊢
    rw [this]; rfl

/-! ## 8. Root hooks become explicit values -/

/-- After a successful `evaluate_and_set_hooks` every root hook whose owner is a class of the instance is a PLAIN
EXPLICIT value of the instance (`has_set` true), that value is among the returned ones; explicit values of other
instances are untouched and no remembered value of any instance is lost. -/
theorem root_becomes_explicit (fuel : Nat) (st fin : State) (i : Inst) (out : List Val)
    (hfin : step fuel st (.evalRoot i) = (fin, .vals .none out)) :
    (∀ c n, (c, n) ∈ st.roots → (st.mro (st.obj i).cls).contains c = true →
      ∃ v, lookup n (fin.obj i).dict = some (.plain v) ∧ v ∈ out) ∧
    (∀ j, j ≠ i → (fin.obj j).dict = (st.obj j).dict) ∧
    (∀ j m v, lookup m (st.obj j).cache = some (some v) → lookup m (fin.obj j).cache = some (some v)) ∧
    (∀ m, (∀ e ∈ st.roots, e.2 ≠ m) → lookup m (fin.obj i).dict = lookup m (st.obj i).dict) := by
  have hp := rootLoop_pres fuel i st.roots st.fresh []
  have ho := fun m hm => rootLoop_dict_outside fuel i m st.roots st.fresh [] hm
  have hloop : rootLoop fuel i st.fresh st.roots [] = (fin, .none, out) := evalRoot_loop hfin
  rw [hloop] at hp ho
  exact ⟨fun c n hm hc => rootLoop_explicit fuel i st.roots st.fresh fin [] out hloop c n hm hc,
         hp.dictOther, hp.cacheMono, ho⟩

/-- The value made explicit is the one computed from the implementations registered at that moment (the fall-back
value when they give `None`) — for the first root of the list (any root, by the loop structure), when its name is not
evaluated again further down. -/
theorem root_value_is_computed (fuel : Nat) (st fin : State) (i : Inst) (c : Cls) (n : Name)
    (rs : List (Cls × Name)) (out : List Val) (hroots : st.roots = (c, n) :: rs)
    (hc : (st.mro (st.obj i).cls).contains c = true) (hrs : ∀ e ∈ rs, e.2 ≠ n)
    (hfin : step fuel st (.evalRoot i) = (fin, .vals .none out)) :
    ∃ s w, (ev fuel st.fresh (.chain i (order st (st.obj i).cls n)) = (s, .val w) ∨
        ∃ st1, ev fuel st.fresh (.chain i (order st (st.obj i).cls n)) = (st1, .none) ∧
          fallback fuel st1 i n = (s, .val w)) ∧
      lookup n (fin.obj i).dict = some (.plain w) := by
  have hloop : rootLoop fuel i st.fresh ((c, n) :: rs) [] = (fin, .none, out) := by
    have e : rootLoop fuel i st.fresh st.roots [] = (fin, .none, out) := evalRoot_loop hfin
    rw [hroots] at e; exact e
  exact rootLoop_head_value hloop hc hrs

/-! ## 9. Histories: what survives what (induction over operation lists, several instances and classes) -/

/-- **An explicit value survives every history that does not set it**: reads, re-evaluations, cache clears,
registrations and removals (on any class), operations on other instances, hand-overs, creation of instances, root
evaluation of OTHER instances. -/
theorem explicit_value_stable (fuel : Nat) (i : Inst) (n : Name) (ops : List Op) : ∀ st : State, i < st.n →
    (∀ op ∈ ops, op.setsExplicit i n = false) →
    lookup n ((run fuel st ops).obj i).dict = lookup n (st.obj i).dict := by
  induction ops with
  | nil => intro st _ _; rfl
  | cons op ops ih =>
    intro st hi h
    rw [run_cons, ih _ (Nat.lt_of_lt_of_le hi (step_n_mono fuel st op)) (fun o ho => h o (by simp [ho]))]
    exact step_dict_stable fuel st op i n hi (h op (by simp))

/-- ... hence it is what a read returns afterwards, with no invocation. -/
theorem explicit_read_after_history (fuel g : Nat) (i : Inst) (n : Name) (v : Val) (ops : List Op) (st : State)
    (hi : i < st.n) (hops : ∀ op ∈ ops, op.setsExplicit i n = false)
    (h : lookup n (st.obj i).dict = some (.plain v)) :
    step (g + 1) (run fuel st ops) (.read i n) = ((run fuel st ops).fresh, .res (.val v)) :=
  read_explicit g _ i n v (by rw [explicit_value_stable fuel i n ops st hi hops]; exact h)

/-- **An assigned callable is invoked on EVERY read, after every history that does not set the hook again** (reads —
also of this hook —, re-evaluations, cache clears, registrations, removals, other instances, hand-overs): a callable
without parameters is invoked with no argument, exactly once per read (trace `[id]`), and its result — `None`
included — is returned; neither a remembered value nor an implementation stands in for it.  (`call0` = a python
callable for which `inspect.signature` reports no parameter, whatever its kind: lambda, def, bound method, partial,
callable object, builtin; that classification is the harness's and is part of the trusted base.) -/
theorem explicit_callable0_every_read (fuel g : Nat) (i : Inst) (n : Name) (id : Id) (r : Option Val) (ops : List Op)
    (st : State) (hi : i < st.n) (hops : ∀ op ∈ ops, op.setsExplicit i n = false)
    (h : lookup n (st.obj i).dict = some (.call0 id r)) :
    step (g + 1) (run fuel st ops) (.read i n) = ((run fuel st ops).fresh.log id, .res (Res.ofOpt r)) :=
  read_explicit_callable0 g _ i n id r (by rw [explicit_value_stable fuel i n ops st hi hops]; exact h)

/-- ... and a one-parameter callable is invoked with the instance: after every such history the read IS the evaluation
of its body on `i` in the state reached (invocation recorded first). -/
theorem explicit_callable1_every_read (fuel g : Nat) (i : Inst) (n : Name) (id : Id) (b : Body) (ops : List Op)
    (st : State) (hi : i < st.n) (hops : ∀ op ∈ ops, op.setsExplicit i n = false)
    (h : lookup n (st.obj i).dict = some (.call1 id b)) :
    step (g + 1) (run fuel st ops) (.read i n) =
      ((ev g ((run fuel st ops).fresh.log id) (.body i b)).1,
       .res (ev g ((run fuel st ops).fresh.log id) (.body i b)).2) :=
  read_explicit_callable1 g _ i n id b (by rw [explicit_value_stable fuel i n ops st hi hops]; exact h)

/-- **The value an assigned callable produces is not remembered**: the read leaves every instance (explicit and
remembered values) exactly as it was, and an immediately following read invokes the callable again. -/
theorem explicit_callable_not_remembered (fuel g : Nat) (st : State) (i : Inst) (n : Name) (id : Id) (r : Option Val)
    (h : lookup n (st.obj i).dict = some (.call0 id r)) :
    step (g + 1) (step (fuel + 1) st (.read i n)).1 (.read i n) = (st.fresh.log id, .res (Res.ofOpt r)) ∧
    (step (fuel + 1) st (.read i n)).1.obj = st.obj := by
  rw [read_explicit_callable0 fuel st i n id r h]
  refine ⟨?_, rfl⟩
  rw [read_explicit_callable0 g (st.fresh.log id) i n id r (by simpa [State.log] using h)]
  simp [State.log]

/-- **Root hooks survive re-evaluation (and every further solver iteration)**: a plain explicit value — which is what
root-hook evaluation leaves — stays a plain explicit value through every history in which nobody assigns or deletes it
by hand; later root evaluations only replace it by the newly computed plain value. -/
theorem root_survives_history (fuel : Nat) (i : Inst) (n : Name) (ops : List Op) : ∀ st : State, i < st.n →
    (∀ op ∈ ops, op.userSets i n = false) → (∃ v, lookup n (st.obj i).dict = some (.plain v)) →
    ∃ v, lookup n ((run fuel st ops).obj i).dict = some (.plain v) := by
  induction ops with
  | nil => intro st _ _ h; exact h
  | cons op ops ih =>
    intro st hi h hp
    rw [run_cons]
    exact ih _ (Nat.lt_of_lt_of_le hi (step_n_mono fuel st op)) (fun o ho => h o (by simp [ho]))
      (step_plain_stays fuel st op i n hi (h op (by simp)) hp)

/-- the single-step reading of the property sentence: re-evaluation keeps the root value, a read returns it -/
theorem root_survives_reevaluate (fuel g : Nat) (st : State) (i : Inst) (n : Name) (v : Val) (hi : i < st.n)
    (h : lookup n (st.obj i).dict = some (.plain v)) :
    step (g + 1) (step fuel st (.reevaluate i)).1 (.read i n) =
      ((step fuel st (.reevaluate i)).1.fresh, .res (.val v)) :=
  explicit_read_after_history fuel g i n v [.reevaluate i] st hi (by simp [Op.setsExplicit]) h

/-- **Hand-over**: the profile constructed from `i` receives exactly the explicit values of `i` (same order) and an
EMPTY cache — remembered values are not handed over; `i` itself is unchanged.  In particular a root value of `i` is an
explicit value of the new object and is what a read there returns. -/
theorem root_survives_handover (fuel g : Nat) (st : State) (i : Inst) (c : Cls) :
    ((step fuel st (.handOver i c)).1.obj st.n).dict = (st.obj i).dict ∧
    ((step fuel st (.handOver i c)).1.obj st.n).cache = [] ∧
    (∀ j, j ≠ st.n → (step fuel st (.handOver i c)).1.obj j = st.obj j) ∧
    (∀ n v, lookup n (st.obj i).dict = some (.plain v) →
      step (g + 1) (step fuel st (.handOver i c)).1 (.read st.n n) =
        ((step fuel st (.handOver i c)).1.fresh, .res (.val v))) := by
  have hd : ((step fuel st (.handOver i c)).1.obj st.n).dict = (st.obj i).dict := by simp [step, State.setObj]
  refine ⟨hd, by simp [step, State.setObj], ?_, ?_⟩
  · intro j hj; simp only [step, reeval_gen]; exact setObj_other _ _ _ _ hj
  · intro n v h
    exact read_explicit g _ st.n n v (by rw [hd]; exact h)

/-- **A remembered value is served until re-evaluation is requested**: it survives every history without a
re-evaluation / cache clear of that instance — registrations and removals included — ... -/
theorem remembered_value_stable (fuel : Nat) (i : Inst) (n : Name) (v : Val) (ops : List Op) : ∀ st : State,
    i < st.n → (∀ op ∈ ops, op.resetsCache i = false) → lookup n (st.obj i).cache = some (some v) →
    lookup n ((run fuel st ops).obj i).cache = some (some v) := by
  induction ops with
  | nil => intro st _ _ h; exact h
  | cons op ops ih =>
    intro st hi h hc
    rw [run_cons]
    exact ih _ (Nat.lt_of_lt_of_le hi (step_n_mono fuel st op)) (fun o ho => h o (by simp [ho]))
      (step_cache_stable fuel st op i n v hi (h op (by simp)) hc)

/-- ... and, when no usable explicit value stands before it at the end, a read returns it without invoking any
implementation, although the registry may have changed completely in between. -/
theorem remembered_served_after_history (fuel g : Nat) (i : Inst) (n : Name) (v : Val) (ops : List Op) (st : State)
    (hi : i < st.n) (hops : ∀ op ∈ ops, op.resetsCache i = false)
    (hc : lookup n (st.obj i).cache = some (some v)) (hd : Unset (run fuel st ops) i n) :
    step (g + 2) (run fuel st ops) (.read i n) = ((run fuel st ops).fresh, .res (.val v)) :=
  read_cached_silent g _ i n v hd (remembered_value_stable fuel i n v ops st hi hops hc)

/-- **Instances are independent**: a history applied to other instances (any operations; registrations on any class;
new instances and hand-overs) leaves the object `i` — all explicit and remembered values — untouched, provided no root
evaluation falls back on `i` (`root_hook_fallback` reads, and may thereby remember, values of the fall-back object). -/
theorem instances_independent (fuel : Nat) (i : Inst) (ops : List Op) : ∀ st : State, i < st.n →
    (∀ op ∈ ops, op.target ≠ some i) →
    (∀ op ∈ ops, ∀ j, op ≠ .evalRoot j) →
    (run fuel st ops).obj i = st.obj i := by
  induction ops with
  | nil => intro st _ _ _; rfl
  | cons op ops ih =>
    intro st hi h1 h2
    rw [run_cons, ih _ (Nat.lt_of_lt_of_le hi (step_n_mono fuel st op)) (fun o ho => h1 o (by simp [ho]))
      (fun o ho => h2 o (by simp [ho]))]
    exact step_frame fuel st op i hi (h1 op (by simp)) (fun j hj => absurd hj (h2 op (by simp) j))

/-- In every reachable state (any history from the empty world) no cache lists a name twice — the side condition of
`reevaluate_recomputes` is always met. -/
theorem cache_names_distinct (fuel : Nat) (ops : List Op) (j : Inst) :
    (keys ((run fuel init ops).obj j).cache).Nodup := by
  suffices h : ∀ (ops : List Op) (st : State), (∀ j, (keys (st.obj j).cache).Nodup) →
      ∀ j, (keys ((run fuel st ops).obj j).cache).Nodup from h ops init (by simp [init, blank, keys]) j
  intro ops
  induction ops with
  | nil => intro st h; exact h
  | cons op ops ih => intro st h; rw [run_cons]; exact ih _ (step_nodup fuel st op h)


/-! ## 10. Failed evaluations and the "currently executing" marks (`HookFunction.__call__`)

`State.active` holds the pairs (registration, instance) that are executing at the moment.  A registration whose function
takes the `cycle` parameter (`Body.cread`, `Body.ctry`) yields `None` at once when it finds its own mark.  A mark that
stayed behind after a FAILED evaluation would therefore silently replace the value of that implementation by the next
one's (or by AttributeError) in every later computation on that instance.  The theorems: no evaluation - whatever its
outcome - leaves a mark behind; hence no reachable state carries one; hence every fresh computation runs every
implementation un-cycled, exactly as on a twin object that never failed. -/

/-- **Source tie, consumed part II** (`PyrollModel/Gen/C02Extra.lean`, regenerated by `driver/translate/c02_extra.py`): the
model's treatment of the executing mark, the store order, the store chosen by `add_function`, what `remove_function`
removes and the `root_hooks` list API are the model's functions INSTANTIATED with the generated tables. -/
theorem hooks_source_extra_consumed :
    (∀ cyc failed, discards cyc failed = !cyc) ∧
    tierOrder = [0, 1, 2] ∧
    (∀ st c n t, tierRegs st c n t =
      (st.mro c).flatMap fun k => (st.regs.filter fun r => r.cls == k && r.hook == n && r.tier == t).reverse) ∧
    (∀ first last, tierOfFlags first last = if first then 0 else if last then 2 else 1) ∧
    (∀ r key, removes r key = (r.key == key)) ∧
    (∀ (x : Cls × Name) l, rootAdd x l = l ++ [x]) ∧
    (∀ (x : Cls × Name) l, rootRemove x l = removeLastOcc x l) ∧
    Gen.C02.Extra.insertBeforeShift = 0 ∧ Gen.C02.Extra.insertAfterShift = 1 :=
  ⟨discards_gen, tierOrder_gen, tierRegs_gen, tierOfFlags_gen, removes_gen, fun _ _ => rfl, fun _ _ => rfl, rfl, rfl⟩

/-- the model really follows the tables: with the discard outside the `finally` clause a failed call keeps its mark -/
example : (if "unless cycle" == "unless cycle" then !false else false) && (!true || false) = false := by decide

/-- **Source tie, pinned part II**: the statements of `HookFunction.__call__ / _determine_extra_args / __enter__ / __exit__`,
`Hook.add_function / __call__ / remove_function` are the ones the model was written against; the remaining facts of
`Gen/C02Extra.lean`; the canonical statements of `HookHost.__copy__` (a new object whose `__dict__` receives the ENTRIES
of the original - the entry `__cache__`, i.e. the same remembered-value dictionary, included) and `HookHost.__hooks__`. -/
theorem hooks_source_extra_as_modelled :
    Gen.C02.Extra.hookFunction_call = HookSource.hookFunction_call ∧
    Gen.C02.Extra.hookFunction_determineExtraArgs = HookSource.hookFunction_determineExtraArgs ∧
    Gen.C02.Extra.hookFunction_enter = HookSource.hookFunction_enter ∧
    Gen.C02.Extra.hookFunction_exit = HookSource.hookFunction_exit ∧
    Gen.C02.Extra.hook_addFunction = HookSource.hook_addFunction ∧
    Gen.C02.Extra.hook_call = HookSource.hook_call ∧
    Gen.C02.Extra.hook_removeFunction = HookSource.hook_removeFunction ∧
    Gen.C02.Extra.hookHost_copy =
      ["def(self)", "v0 := self.__class__", "v1 := v0.__new__(v0)", "v1.__dict__.update(self.__dict__)", "return v1"] ∧
    Gen.C02.Extra.hookHost_hooks =
      ["def(cls) @classmethod @property", "v0 := set()", "for v1 in cls.__mro__:",
       "  v0 := v0.union([v2 for (v2, v3) in v1.__dict__.items() if not v2.startswith('_') if isinstance(v3, Hook)])",
       "return v0"] ∧
    Gen.C02.Extra.callKey = "id(instance)" ∧ Gen.C02.Extra.callCycleBeforeMark = true ∧
    Gen.C02.Extra.callMarkBeforeTry = true ∧ Gen.C02.Extra.callDiscardClause = "finally" ∧
    Gen.C02.Extra.extraArgCycle = true ∧ Gen.C02.Extra.removeIgnoresAbsent = true ∧
    Gen.C02.Extra.addCreatesRegistration = true ∧ Gen.C02.Extra.addUnwraps = true ∧
    Gen.C02.Extra.exitRemoves = "self.hook.remove_function(self)" ∧ Gen.C02.Extra.enterDoes = "pass" ∧
    Gen.C02.Extra.setWrites = "__dict__" ∧ Gen.C02.Extra.deleteFrom = "__dict__" ∧ Gen.C02.Extra.deleteTolerant = true ∧
    Gen.C02.Extra.rootLoopOver = "root_hooks" ∧ Gen.C02.Extra.rootGuard = "issubclass(type(self), entry.owner)" ∧
    Gen.C02.Extra.rootHookOf = "type(self)" ∧ Gen.C02.Extra.rootCompute = "get_result" ∧
    Gen.C02.Extra.rootFallbackWhen = "is None" ∧ Gen.C02.Extra.rootNoneRaises = "AttributeError" ∧
    Gen.C02.Extra.rootStore = "setattr(self)" ∧ Gen.C02.Extra.rootReturns = "list of the yielded numbers" ∧
    Gen.C02.Extra.copyMode = "new(cls); __dict__.update(self.__dict__)" ∧
    Gen.C02.Extra.initCache = "self.__cache__ := dict()" := by
  refine ⟨?_, ?_, ?_, ?_, ?_, ?_, ?_, ?_, ?_, ?_, ?_, ?_, ?_, ?_, ?_, ?_, ?_, ?_, ?_, ?_, ?_, ?_, ?_, ?_, ?_, ?_, ?_, ?_, ?_,
    ?_, ?_, ?_⟩ <;> first | rfl | decide

/-- **No operation leaves an executing mark behind** - a read, `has_value`, re-evaluation or root evaluation that FAILED
(AttributeError, TypeError, exhausted recursion) included: the marks after the operation are the marks before it. -/
theorem evaluation_restores_marks (fuel : Nat) (st : State) (op : Op) : (step fuel st op).1.active = st.active :=
  step_active fuel st op

/-- ... hence **no reachable state carries a mark** (any history from the empty world, failed reads included), and every
registration finds `cycle = False` when a computation on any instance starts. -/
theorem no_marks_between_operations (fuel : Nat) (ops : List Op) :
    (run fuel init ops).active = [] ∧ ∀ k i, (run fuel init ops).marked k i = false := by
  have h : (run fuel init ops).active = [] := by rw [run_active]; rfl
  exact ⟨h, fun k i => by simp [State.marked, h]⟩

/-- **A failed read changes nothing but what its dependencies legitimately remembered**: no explicit value of any
instance changes, no remembered value is lost or altered, the registry and the executing marks are as before; and the read
itself stores nothing - the state is exactly the one the chain of implementations left. -/
theorem failed_read_leaves_no_trace (fuel : Nat) (st s1 : State) (i : Inst) (n : Name) (r : Res) (hd : Unset st i n)
    (hc : NotRemembered st i n) (hr : ∀ v, r ≠ .val v)
    (h : step (fuel + 2) st (.read i n) = (s1, .res r)) :
    s1 = (ev fuel st.fresh (.chain i (order st (st.obj i).cls n))).1 ∧
    s1.active = st.active ∧ s1.regs = st.regs ∧ (∀ j, (s1.obj j).dict = (st.obj j).dict) ∧
    (∀ j m v, lookup m (st.obj j).cache = some (some v) → lookup m (s1.obj j).cache = some (some v)) := by
  have hs : s1 = (step (fuel + 2) st (.read i n)).1 := by rw [h]
  have hp := ev_pres (fuel + 2) st.fresh (.get i n)
  refine ⟨?_, ?_, ?_, ?_, ?_⟩
  · have key : ev (fuel + 1) st.fresh (.unset i n) =
        finishGet i n (ev fuel st.fresh (.chain i (order st (st.obj i).cls n))) := unset_eq fuel st.fresh i n hc
    rw [read_explicit_none_as_unset (fuel + 1) st i n hd, key] at h
    generalize ev fuel st.fresh (.chain i (order st (st.obj i).cls n)) = x at h ⊢
    obtain ⟨s, q⟩ := x
    cases q with
    | val v =>
      simp only [finishGet, Prod.mk.injEq, Out.res.injEq] at h
      exact absurd h.2.symm (hr v)
    | none => simp only [finishGet, noneOutcome_gen, Prod.mk.injEq] at h; exact h.1.symm
    | attrErr => simp only [finishGet, Prod.mk.injEq] at h; exact h.1.symm
    | typeErr => simp only [finishGet, Prod.mk.injEq] at h; exact h.1.symm
    | fuelOut => simp only [finishGet, Prod.mk.injEq] at h; exact h.1.symm
  · rw [hs]; exact step_active _ _ _
  · rw [hs]; exact hp.regs
  · intro j; rw [hs]; exact hp.dict j
  · intro j m v hv; rw [hs]; exact hp.cacheMono j m v hv

/-- **After a failed read everything goes on exactly as on a twin that never failed**: from a state without marks (every
reachable state), let a read fail (or succeed), then apply ANY history (supplying the missing input, registering
implementations, reads, re-evaluations ...): every later operation behaves as from the twin state whose marks are wiped,
and the state reached carries no mark either. -/
theorem read_after_failure_as_on_twin (fuel g : Nat) (st : State) (i : Inst) (n : Name) (ops : List Op) (op : Op)
    (hq : st.active = []) :
    (run fuel (step fuel st (.read i n)).1 ops).active = [] ∧
    step g (run fuel (step fuel st (.read i n)).1 ops) op =
      step g (run fuel { (step fuel st (.read i n)).1 with active := [] } ops) op := by
  have h1 : (step fuel st (.read i n)).1.active = [] := by rw [step_active]; exact hq
  have h2 : ({ (step fuel st (.read i n)).1 with active := [] } : State) = (step fuel st (.read i n)).1 := by
    generalize (step fuel st (.read i n)).1 = s at h1
    cases s; simp_all
  exact ⟨by rw [run_active]; exact h1, by rw [h2]⟩

/-- What a mark does, and why it must not stay: a `cycle`-aware implementation that finds NO mark of its own is evaluated
as the plain implementation (`cycle = False`) ... -/
theorem cycle_aware_runs_when_unmarked (f : Nat) (st : State) (i : Inst) (r : Reg) (rs : List Reg) (m : Name) (k c : Int)
    (hb : r.body = .cread m k c) (hm : st.marked r.key i = false) :
    ev (f + 1) st (.chain i (r :: rs)) = ev (f + 1) st (.chain i ({ r with body := .read m k c } :: rs)) := by
  simp only [ev, hb, hm, Body.under, Bool.false_eq_true, if_false]

/-- ... and one that finds its mark yields `None` without running: the chain goes on with the NEXT implementation (only the
invocation is recorded; the mark stays for the outer call that set it). -/
theorem cycle_aware_skipped_when_marked (f : Nat) (st : State) (i : Inst) (r : Reg) (rs : List Reg) (m : Name) (k c : Int)
    (hb : r.body = .cread m k c ∨ r.body = .ctry m k c) (hm : st.marked r.key i = true) :
    ev (f + 2) st (.chain i (r :: rs)) = ev (f + 1) (st.log r.id) (.chain i rs) := by
  have he : (st.log r.id).enter r.key i = st.log r.id := by
    unfold State.enter
    have : (st.log r.id).marked r.key i = true := hm
    simp [this]
  rcases hb with hb | hb <;>
    · rw [ev]
      simp only [hb, hm, Body.under, if_true, he, ev]
      rw [leave_gen]; rfl

/-! ## 11. Registrations are a multiset of registration objects

`Reg.id` is the function (what the invocation trace shows), `Reg.key` the registration (`HookFunction`) that
`add_function` creates on EVERY call - also when the same function, or the `HookFunction` of an earlier registration, is
handed in (`with Host.hook(model, tryfirst=True):` for a `model` that is also registered permanently). -/

/-- `add_function(f, tryfirst, trylast)` appends ONE registration (new key) in the store the flags select and changes no
other registration; `tryfirst` wins over `trylast`. -/
theorem add_appends_one_registration (fuel : Nat) (st : State) (key fn : Id) (c : Cls) (n : Name) (b : Body)
    (first last : Bool) :
    (step fuel st (.addReg key fn c n b first last)).1.regs =
      st.regs ++ [{ id := fn, cls := c, hook := n, body := b, key := key,
                    tier := if first then 0 else if last then 2 else 1 }] := by
  simp [step, tierOfFlags_gen]

/-- **`remove_function` removes exactly the registration it is given**: with distinct registration objects (every reachable
state, `registration_keys_distinct`) the registry afterwards is the registry with that ONE entry erased - every other
registration, those of the SAME FUNCTION included, stays where it was. -/
theorem remove_removes_exactly_one (fuel : Nat) (st : State) (r : Reg) (hnd : (st.regs.map (·.key)).Nodup)
    (hr : r ∈ st.regs) : (step fuel st (.removeImpl r.key)).1.regs = st.regs.erase r := by
  simp only [step, removes_gen]
  exact filter_key_erase st.regs r hnd hr

/-- ... so a second registration of the same function keeps providing the value: it is still registered and still listed
in the resolution order of every class and hook it was listed for - and nothing new is listed. -/
theorem remove_keeps_other_registrations (fuel : Nat) (st : State) (key : Id) (r2 : Reg) (c : Cls) (n : Name) :
    (r2 ∈ order (step fuel st (.removeImpl key)).1 c n ↔ r2 ∈ order st c n ∧ r2.key ≠ key) := by
  simp only [mem_order_iff]
  simp only [step, removes_gen, List.mem_filter, Bool.not_eq_true', beq_eq_false_iff_ne, ne_eq]
  constructor
  · rintro ⟨⟨h1, h2⟩, h3, h4, h5⟩; exact ⟨⟨h1, h3, h4, h5⟩, h2⟩
  · rintro ⟨⟨h1, h3, h4, h5⟩, h2⟩; exact ⟨⟨h1, h2⟩, h3, h4, h5⟩

/-- the number of registrations of a function drops by exactly one when one of them is removed -/
theorem remove_drops_one_of_function (fuel : Nat) (st : State) (r : Reg) (hnd : (st.regs.map (·.key)).Nodup)
    (hr : r ∈ st.regs) :
    ((step fuel st (.removeImpl r.key)).1.regs.filter (fun x => x.id == r.id)).length + 1 =
      (st.regs.filter (fun x => x.id == r.id)).length := by
  rw [remove_removes_exactly_one fuel st r hnd hr]
  have h := List.length_erase_of_mem (l := st.regs.filter (fun x => x.id == r.id)) (a := r)
    (List.mem_filter.2 ⟨hr, by simp⟩)
  have e : (st.regs.erase r).filter (fun x => x.id == r.id) = (st.regs.filter (fun x => x.id == r.id)).erase r := by
    rw [List.erase_filter]
  rw [e, h]
  have : 0 < (st.regs.filter (fun x => x.id == r.id)).length :=
    List.length_pos_of_mem (List.mem_filter.2 ⟨hr, by simp⟩)
  omega

/-- **A `with hook(f, ...):` block registers for exactly its extent**: entering appends a registration under a fresh key,
leaving removes that registration only; whatever happens inside (reads, failures, re-evaluations - anything but other
registry edits), the registry afterwards is the registry before, permanent registrations of the same function included. -/
theorem with_block_restores_registry (fuel : Nat) (st : State) (key fn : Id) (c : Cls) (n : Name) (b : Body)
    (first last : Bool) (ops : List Op) (hfresh : ∀ r ∈ st.regs, r.key ≠ key)
    (hops : ∀ op ∈ ops, op.editsRegistry = false) :
    (step fuel (run fuel (step fuel st (.addReg key fn c n b first last)).1 ops) (.removeImpl key)).1.regs = st.regs := by
  have h1 := run_regs_stable fuel ops (step fuel st (.addReg key fn c n b first last)).1 hops
  simp only [step, removes_gen] at h1 ⊢
  rw [h1, List.filter_append]
  have : st.regs.filter (fun r => !(r.key == key)) = st.regs := by
    apply List.filter_eq_self.mpr
    intro r hr; simp [hfresh r hr]
  rw [this]; simp

/-- In every state reached by a history whose registrations use fresh keys (python: every `add_function` creates a new
`HookFunction` object) the registration keys are distinct - the side condition of the removal theorems always holds. -/
theorem registration_keys_distinct (fuel : Nat) (ops : List Op) (h : freshKeys [] ops = true) :
    ((run fuel init ops).regs.map (·.key)).Nodup :=
  run_keys fuel ops init [] (by simp [init]) (by simp [init]) h

/-! ## 12. The `root_hooks` list: editing API and evaluation order -/

/-- `insert_before(position, item)`: the list is split at the FIRST occurrence of `position`, `item` goes directly in
front of it; every other entry and the relative order of all entries are kept.  ValueError - nothing changes - exactly
when `position` is not in the list. -/
theorem root_insert_before_spec (fuel : Nat) (st : State) (p e : Cls × Name) :
    (p ∈ st.roots → ∃ pre post, st.roots = pre ++ p :: post ∧ p ∉ pre ∧
      step fuel st (.rootInsertBefore p e) = ({ st.fresh with roots := pre ++ e :: p :: post }, .ok)) ∧
    (p ∉ st.roots → step fuel st (.rootInsertBefore p e) = (st.fresh, .valueErr)) := by
  constructor
  · intro hp
    cases hk : idxOf p st.roots with
    | none => exact absurd hp ((idxOf_none p st.roots).1 hk)
    | some k =>
      obtain ⟨pre, post, h1, h2, h3⟩ := idxOf_split p st.roots k hk
      refine ⟨pre, post, h1, h2, ?_⟩
      simp only [step, insertBeforeShift_gen, insertRel, hk, Option.map_some]
      have : insertAt e (k + 0) st.roots = pre ++ e :: p :: post := by
        rw [h1, ← h3, insertAt_append]; rfl
      rw [this]
  · intro hp
    simp only [step, insertRel, (idxOf_none p st.roots).2 hp, Option.map_none]

/-- `insert_after(position, item)`: `item` goes directly behind the FIRST occurrence of `position`. -/
theorem root_insert_after_spec (fuel : Nat) (st : State) (p e : Cls × Name) :
    (p ∈ st.roots → ∃ pre post, st.roots = pre ++ p :: post ∧ p ∉ pre ∧
      step fuel st (.rootInsertAfter p e) = ({ st.fresh with roots := pre ++ p :: e :: post }, .ok)) ∧
    (p ∉ st.roots → step fuel st (.rootInsertAfter p e) = (st.fresh, .valueErr)) := by
  constructor
  · intro hp
    cases hk : idxOf p st.roots with
    | none => exact absurd hp ((idxOf_none p st.roots).1 hk)
    | some k =>
      obtain ⟨pre, post, h1, h2, h3⟩ := idxOf_split p st.roots k hk
      refine ⟨pre, post, h1, h2, ?_⟩
      simp only [step, insertAfterShift_gen, insertRel, hk, Option.map_some]
      have : insertAt e (k + 1) st.roots = pre ++ p :: e :: post := by
        rw [h1, ← h3, insertAt_append]; rfl
      rw [this]
  · intro hp
    simp only [step, insertRel, (idxOf_none p st.roots).2 hp, Option.map_none]

/-- `remove_last(item)` deletes the LAST occurrence of `item` and nothing else; ValueError exactly when there is none. -/
theorem root_remove_last_spec (fuel : Nat) (st : State) (e : Cls × Name) :
    (e ∈ st.roots → ∃ pre post, st.roots = pre ++ e :: post ∧ e ∉ post ∧
      step fuel st (.rootRemoveLast e) = ({ st.fresh with roots := pre ++ post }, .ok)) ∧
    (e ∉ st.roots → step fuel st (.rootRemoveLast e) = (st.fresh, .valueErr)) := by
  constructor
  · intro he
    cases hk : removeLastOcc e st.roots with
    | none => exact absurd he ((removeLastOcc_none e st.roots).1 hk)
    | some l =>
      obtain ⟨pre, post, h1, h2, h3⟩ := removeLastOcc_split e st.roots l hk
      refine ⟨pre, post, h1, h2, ?_⟩
      simp only [step, rootRemove_gen, hk, h3]
  · intro he
    simp only [step, rootRemove_gen, (removeLastOcc_none e st.roots).2 he]

/-- `add(item)` appends - also an item that is already listed (no duplicate check: it is then evaluated twice). -/
theorem root_add_appends (fuel : Nat) (st : State) (e : Cls × Name) :
    step fuel st (.rootAdd e) = ({ st.fresh with roots := st.roots ++ [e] }, .ok) := by
  simp only [step, rootAdd_gen]

/-- **Root hooks are evaluated in list order**: with `root_hooks = l1 ++ l2` the evaluation is the evaluation of `l1`
followed - when that went through - by the evaluation of `l2` in the state `l1` left (so the implementations of a later
root hook see the EXPLICIT values of the earlier ones); an error in `l1` ends it there. -/
theorem root_evaluation_in_list_order (fuel : Nat) (st : State) (i : Inst) (l1 l2 : List (Cls × Name))
    (h : st.roots = l1 ++ l2) :
    step fuel st (.evalRoot i) =
      match rootLoop fuel i st.fresh l1 [] with
      | (s, .none, a) => ((rootLoop fuel i s l2 a).1, .vals (rootLoop fuel i s l2 a).2.1 (rootLoop fuel i s l2 a).2.2)
      | (s, r, a) => (s, .vals r a) := by
  have e : step fuel st (.evalRoot i) = ((rootLoop fuel i st.fresh st.roots []).1,
      .vals (rootLoop fuel i st.fresh st.roots []).2.1 (rootLoop fuel i st.fresh st.roots []).2.2) := rfl
  rw [e, h, rootLoop_append]
  generalize rootLoop fuel i st.fresh l1 [] = x
  obtain ⟨s, r, a⟩ := x
  cases r <;> rfl

/-- **A root hook evaluated becomes explicit and survives re-evaluation, list edits and every further history**: after a
successful `evaluate_and_set_hooks`, any history without a manual assign / delete of that hook (re-evaluations, cache
clears, registry changes, `insert_before` / `insert_after` / `remove_last` / `add` on the root list, further root
evaluations) leaves a PLAIN explicit value under it, and a read returns it without any invocation. -/
theorem root_explicit_survives (fuel g : Nat) (st fin : State) (i : Inst) (c : Cls) (n : Name) (out : List Val)
    (ops : List Op) (hi : i < st.n) (hfin : step fuel st (.evalRoot i) = (fin, .vals .none out))
    (hroot : (c, n) ∈ st.roots) (hc : (st.mro (st.obj i).cls).contains c = true)
    (hops : ∀ op ∈ ops, op.userSets i n = false) :
    ∃ v, lookup n ((run fuel fin ops).obj i).dict = some (.plain v) ∧
      step (g + 1) (run fuel fin ops) (.read i n) = ((run fuel fin ops).fresh, .res (.val v)) := by
  obtain ⟨w, hw, _⟩ := (root_becomes_explicit fuel st fin i out hfin).1 c n hroot hc
  have hn : i < fin.n := by
    have := step_n_mono fuel st (.evalRoot i)
    rw [hfin] at this; exact Nat.lt_of_lt_of_le hi this
  obtain ⟨v, hv⟩ := root_survives_history fuel i n ops fin hn hops ⟨w, hw⟩
  exact ⟨v, hv, read_explicit g _ i n v hv⟩

/-! ## Non-vacuity: concrete histories over two classes and two instances -/

/-- class 0, subclass 1; instance 0 of class 1, instance 1 of class 0; `h0 = 5` on the base, `h1 = h0 * 10` on the
subclass -/
def exBase : List Op :=
  [.defClass 0 [0], .defClass 1 [1, 0], .newInst 1, .newInst 0,
   .addImpl 0 0 0 (.const (.int 5)), .addImpl 1 1 1 (.read 0 10 0)]

-- falsy explicit values win over the remembered value and the implementation
example : (step 9 (run 9 init (exBase ++ [.read 0 0, .assign 0 0 (.plain (.int 0))])) (.read 0 0)).2
    = .res (.val (.int 0)) := by decide
example : (step 9 (run 9 init (exBase ++ [.read 0 0, .assign 0 0 (.plain (.bool false))])) (.read 0 0)).2
    = .res (.val (.bool false)) := by decide
-- hypotheses of `read_explicit` / `read_cached_silent` / `read_computes_and_remembers` are satisfiable
example : lookup 0 ((run 9 init (exBase ++ [.assign 0 0 (.plain (.int 0))])).obj 0).dict = some (.plain (.int 0)) := by
  decide
example : Unset (run 9 init (exBase ++ [.read 0 1])) 0 1 ∧
    lookup 1 ((run 9 init (exBase ++ [.read 0 1])).obj 0).cache = some (some (.int 50)) := by
  constructor
  · left; decide
  · decide
example : Unset (run 9 init exBase) 0 1 ∧ NotRemembered (run 9 init exBase) 0 1 ∧
    (ev 7 (run 9 init exBase).fresh (.chain 0 (order (run 9 init exBase) 1 1))).2 = .val (.int 50) := by
  refine ⟨Or.inl (by decide), ?_, by decide⟩
  intro w; have : lookup 1 ((run 9 init exBase).obj 0).cache = none := by decide
  rw [this]; simp
-- computed once, then silent: the second read invokes nothing (trace `[]`), the first one ran implementations 1 and 0
example : (step 9 (run 9 init exBase) (.read 0 1)).1.trace = [1, 0] ∧
    (step 9 (step 9 (run 9 init exBase) (.read 0 1)).1 (.read 0 1)).1.trace = [] := by decide
-- callables by arity; explicit `None` is set but reads as unset (falls through to the implementation)
example : (step 9 (run 9 init (exBase ++ [.assign 0 1 (.call1 7 (.read 0 3 1))])) (.read 0 1)).2
    = .res (.val (.int 16)) := by decide
example : (step 9 (run 9 init (exBase ++ [.assign 0 1 (.call0 7 (some (.bool false)))])) (.read 0 1)).2
    = .res (.val (.bool false)) := by decide
-- an explicit callable over a remembered value: invoked (trace `[7]`) on the read after re-evaluation, cache clear and a
-- new registration; the falsy result `0` is returned; hypotheses of `explicit_callable0/1_every_read` are satisfiable
example : (step 9 (run 9 init (exBase ++ [.read 0 1, .assign 0 1 (.call0 7 (some (.int 0))), .read 0 1, .reevaluate 0,
      .clearCache 0, .addImpl 2 1 1 (.const (.int 3))])) (.read 0 1)) |> fun r => (r.1.trace, r.2)
    = ([7], .res (.val (.int 0))) := by decide
example : (∀ op ∈ [Op.read 0 1, .reevaluate 0, .clearCache 0, .addImpl 2 1 1 (.const (.int 3))],
      op.setsExplicit 0 1 = false) ∧
    lookup 1 ((run 9 init (exBase ++ [.read 0 1, .assign 0 1 (.call1 7 (.read 0 3 1))])).obj 0).dict
      = some (.call1 7 (.read 0 3 1)) ∧ 0 < (run 9 init exBase).n := by decide
-- the result of the callable is not remembered: `h1` keeps the value 50 computed before the assignment
example : ((step 9 (run 9 init (exBase ++ [.read 0 1, .assign 0 1 (.call0 7 (some (.int 0)))])) (.read 0 1)).1.obj 0).cache
    = [(0, some (.int 5)), (1, some (.int 50))] := by decide
example : (step 9 (run 9 init (exBase ++ [.assign 0 0 .none])) (.hasSet 0 0)).2 = .flag true ∧
    (step 9 (run 9 init (exBase ++ [.assign 0 0 .none])) (.read 0 0)).2 = .res (.val (.int 5)) := by decide
-- re-evaluation after a registration change on the BASE class recomputes the remembered names from the new registry;
-- without re-evaluation the old value keeps being served
example : (step 9 (run 9 init (exBase ++ [.read 0 1, .addImpl 2 0 0 (.const (.int 2))])) (.read 0 1)).2
    = .res (.val (.int 50)) := by decide
example : (step 9 (run 9 init (exBase ++ [.read 0 1, .addImpl 2 0 0 (.const (.int 2)), .reevaluate 0])) (.read 0 1)).2
    = .res (.val (.int 20)) := by decide
-- `reevaluate_exactly_cached_names`: leaf registry, hypotheses hold, instance 1 remembers `h0`
def exLeaf : List Op :=
  [.defClass 0 [0], .newInst 0, .addImpl 0 0 0 (.const (.int 5)), .addImpl 1 0 1 (.const (.bool false)),
   .read 0 0, .read 0 1, .removeImpl 0, .addImpl 2 0 0 .none]
example : (∀ r ∈ (run 9 init exLeaf).regs, r.body.isLeaf = true) ∧
    keys ((run 9 init exLeaf).obj 0).cache = [0, 1] ∧
    ((step 9 (run 9 init exLeaf) (.reevaluate 0)).1.obj 0).cache = [(0, none), (1, some (.bool false))] := by
  decide
-- root hooks: evaluated, explicit, surviving removal of the implementation + re-evaluation + cache clear + hand-over
def exRoot : List Op :=
  exBase ++ [.setRoots [(0, 0), (1, 1)], .evalRoot 0]
example : (step 9 (run 9 init (exBase ++ [.setRoots [(0, 0), (1, 1)]])) (.evalRoot 0)).2
    = .vals .none [.int 5, .int 50] := by decide
example : ((run 9 init exRoot).obj 0).dict = [(0, .plain (.int 5)), (1, .plain (.int 50))] := by decide
example : (step 9 (run 9 init (exRoot ++ [.removeImpl 0, .reevaluate 0, .clearCache 0, .handOver 0 0])) (.read 2 1)).2
    = .res (.val (.int 50)) := by decide
example : ((run 9 init (exRoot ++ [.read 0 0, .handOver 0 0])).obj 2).cache = [] := by decide


-- ## sections 10-12
-- a read that FAILS first: the `cycle`-aware implementation 0 of `h1` reads the still missing `h0` (AttributeError passes
-- through the chain); a low-priority (`trylast`) constant 7 is registered too.  Then the input is supplied and the value is
-- computed from implementation 0 (not from the stand-in 7), remembered and served silently; no mark stays in between.
def exFail : List Op :=
  [.defClass 0 [0], .newInst 0, .addReg 0 0 0 1 (.cread 0 2 1) false false, .addReg 1 1 0 1 (.const (.int 7)) false true]
example : (step 9 (run 9 init exFail) (.read 0 1)).2 = .res .attrErr ∧
    (step 9 (run 9 init exFail) (.read 0 1)).1.active = [] ∧
    ((step 9 (run 9 init exFail) (.read 0 1)).1.obj 0).cache = [] := by decide
example : (step 9 (run 9 init (exFail ++ [.read 0 1, .hasValue 0 1, .assign 0 0 (.plain (.int 4))])) (.read 0 1))
    |> fun r => (r.1.trace, r.2, (r.1.obj 0).cache) = ([0], .res (.val (.int 9)), [(1, some (.int 9))]) := by decide
example : (step 9 (run 9 init (exFail ++ [.read 0 1, .assign 0 0 (.plain (.int 4)), .read 0 1])) (.read 0 1))
    |> fun r => (r.1.trace, r.2) = ([], .res (.val (.int 9))) := by decide
-- hypotheses of `failed_read_leaves_no_trace` are satisfiable
example : Unset (run 9 init exFail) 0 1 ∧ NotRemembered (run 9 init exFail) 0 1 ∧
    (step (7 + 2) (run 9 init exFail) (.read 0 1)).2 = .res .attrErr := by
  refine ⟨Or.inl (by decide), ?_, by decide⟩
  intro w; have : lookup 1 ((run 9 init exFail).obj 0).cache = none := by decide
  rw [this]; simp
-- what a mark that stayed behind WOULD do (`cycle_aware_skipped_when_marked`; the state is not reachable): the value of
-- implementation 0 is silently replaced by the stand-in 7
example : (step 9 { run 9 init (exFail ++ [.assign 0 0 (.plain (.int 4))]) with active := [(0, 0)] } (.read 0 1)).2
    = .res (.val (.int 7)) := by decide
example : ({ run 9 init exFail with active := [(0, 0)] } : State).marked 0 0 = true ∧
    (run 9 init exFail).marked 0 0 = false := by decide
-- re-evaluation after a failed re-evaluation: `h1` remembered, the input deleted (re-evaluation fails), supplied again
example : (step 9 (run 9 init (exFail ++ [.assign 0 0 (.plain (.int 4)), .read 0 1, .delete 0 0, .reevaluate 0,
      .assign 0 0 (.plain (.int 5)), .reevaluate 0])) (.read 0 1)).2 = .res (.val (.int 11)) ∧
    (step 9 (run 9 init (exFail ++ [.assign 0 0 (.plain (.int 4)), .read 0 1, .delete 0 0])) (.reevaluate 0)).2
      = .res .attrErr := by decide

-- one function (id 1, "model") registered permanently AND a second time with `tryfirst` (`with Host.h0(model, tryfirst=True):`,
-- registration key 2), besides `base` (0) and `override` (3): leaving the block (`removeImpl 2`) removes that registration
-- only; after removing `override` too the permanent registration of `model` provides the value
def exTwice : List Op :=
  [.defClass 0 [0], .newInst 0, .addReg 0 0 0 0 (.const (.int 1)) false false,
   .addReg 1 1 0 0 (.const (.int 21)) false false, .addReg 3 3 0 0 (.const (.int 42)) false false,
   .addReg 2 1 0 0 (.const (.int 21)) true false]
example : freshKeys [] exTwice = true ∧ ((run 9 init exTwice).regs.map (·.key)) = [0, 1, 3, 2] ∧
    ((run 9 init exTwice).regs.map (·.id)) = [0, 1, 3, 1] := by decide
example : (step 9 (run 9 init exTwice) (.read 0 0)) |> fun r => (r.1.trace, r.2) = ([1], .res (.val (.int 21))) := by decide
example : (step 9 (run 9 init (exTwice ++ [.read 0 0, .removeImpl 2, .reevaluate 0])) (.read 0 0)).2
    = .res (.val (.int 42)) := by decide
example : (step 9 (run 9 init (exTwice ++ [.read 0 0, .removeImpl 2, .removeImpl 3])) (.reevaluate 0))
    |> fun r => (r.1.trace, (r.1.obj 0).cache) = ([1], [(0, some (.int 21))]) := by decide
example : ((run 9 init (exTwice ++ [.removeImpl 2])).regs.map (·.key)) = [0, 1, 3] ∧
    (∀ r ∈ (run 9 init exTwice).regs.take 3, r.key ≠ 2) := by decide

-- the root list API (first occurrence of the position, last occurrence removed, duplicates appended, ValueError)
example : (run 9 init [.setRoots [(0, 0), (0, 1), (0, 0)], .rootInsertBefore (0, 0) (0, 2), .rootInsertAfter (0, 0) (0, 3),
      .rootAdd (0, 1), .rootRemoveLast (0, 0)]).roots = [(0, 2), (0, 0), (0, 3), (0, 1), (0, 1)] := by decide
example : (step 9 init (.rootInsertBefore (0, 1) (0, 2))).2 = .valueErr ∧
    (step 9 init (.rootRemoveLast (0, 1))).2 = .valueErr ∧
    (step 9 (run 9 init [.setRoots [(0, 1)]]) (.rootInsertAfter (0, 1) (0, 2))).2 = .ok := by decide
-- evaluation in list order: `h0` inserted BEFORE `h1` is made explicit first, so the implementation of `h1` (reading `h0`)
-- sees the explicit value (trace `[0, 1]`, no second invocation of 0); listed after it, `h0` is computed twice
example : (step 9 (run 9 init (exBase ++ [.setRoots [(1, 1)], .rootInsertBefore (1, 1) (0, 0)])) (.evalRoot 0))
    |> fun r => (r.1.trace, r.2, (r.1.obj 0).dict) =
      ([0, 1], .vals .none [.int 5, .int 50], [(0, .plain (.int 5)), (1, .plain (.int 50))]) := by decide
example : (step 9 (run 9 init (exBase ++ [.setRoots [(1, 1)], .rootInsertAfter (1, 1) (0, 0)])) (.evalRoot 0))
    |> fun r => (r.1.trace, r.2) = ([1, 0, 0], .vals .none [.int 50, .int 5]) := by decide
-- `root_explicit_survives`: hypotheses satisfiable; the root value survives re-evaluation and edits of the root list
example : (step 9 (run 9 init (exRoot ++ [.removeImpl 1, .reevaluate 0, .rootRemoveLast (1, 1), .rootAdd (0, 2)]))
    (.read 0 1)) |> fun r => (r.1.trace, r.2) = ([], .res (.val (.int 50))) := by decide
example : (∀ op ∈ [Op.removeImpl 1, .reevaluate 0, .rootRemoveLast (1, 1), .rootAdd (0, 2)], op.userSets 0 1 = false) ∧
    (∀ op ∈ [Op.read 0 1, .reevaluate 0, .hasValue 0 0], op.editsRegistry = false) := by decide

-- remaining hypotheses of sections 10-12 are satisfiable
example : (run 9 init exFail).active = [] ∧
    ((run 9 init exFail).regs.head?).map (·.body) = some (.cread 0 2 1) := by decide
example : ((run 9 init exTwice).regs.map (·.key)).Nodup ∧
    (∃ r ∈ (run 9 init exTwice).regs, r.key = 2 ∧ r.id = 1 ∧ r.tier = 0) := by decide
example : ((1, 1) ∈ (run 9 init (exBase ++ [.setRoots [(0, 0), (1, 1)]])).roots) ∧
    ((run 9 init exBase).mro ((run 9 init exBase).obj 0).cls).contains 1 = true ∧ 0 < (run 9 init exBase).n := by decide

end Life
