import PyrollModel.Gen.C14
import PyrollProofs.RotLemmas
import PyrollProofs.RotHist
import PyrollProofs.RotNavLemmas
import PyrollProofs.RotReal
import PyrollProofs.RotGeom

/-!
# C14 — the workpiece is turned exactly once between consecutive roll passes; rotator geometry

Model: `PyrollModel/Rot.lean` (interpreters) applied to `PyrollModel/Gen/C14.lean` (`T`, the tables GENERATED on every run from
`rotator/hookimpls.py`, `roll_pass/hookimpls/base_roll_pass.py`, `roll_pass/base.py`, `rotator/rotator.py`, `unit/unit.py`,
`config.py` by `driver/translate/c14_rot.py`), and `PyrollModel/GeomRot.lean` (vertex-list geometry).  The same interpreters
are run on `Float` against the real objects by `driver/props/c14.py`.  Only property theorems live here; helper lemmas are
in `PyrollProofs/Rot{Lemmas,Hist,NavLemmas,Real,Geom}.lean`.  Section 9 is about the object graph (`PyrollModel/RotNav.lean`): the
walk as a navigation over parent pointers and member lists (`Unit.prev`), `_SubUnitsList`, `PassSequence.flatten`.

A flat pass sequence is a `List (U α)`; `go` solves it unit by unit and emits one observation per unit, `stateAt … n` is
the state in which unit `n` is entered (`before` = kinds of the units already passed, nearest first = the `prev` chain).
The discrete theorems hold for every numeric carrier `α`; the geometric ones are over ℝ.
-/

namespace C14
open Rot

/-- the tables generated from the source -/
abbrev T : Tables := Gen.C14.tables

/-! ## 0. what the translator found (re-checked against the regenerated tables on every run) -/

/-- `detect_already_rotated`: guarded by the switch and by `parent is not None`; first unit ⇒ `True`; walking back, a roll pass
⇒ `True`, a rotator ⇒ `False`, anything else is stepped over; start of the sequence reached ⇒ `True` -/
theorem walk_as_read : Gen.C14.walk = expectedWalk := by decide

/-- registration order on `BaseRollPass.rotation` (the walk is asked first, the switch value is the fallback) -/
theorem rotation_functions_as_read : Gen.C14.rotationFns = [.configValue, .detect] := by decide

/-- `rotator_factory`: only for a truthy `rotation`; `True` ⇒ angle left to the rules, a number ⇒ that angle; the pass is the
rotator's parent; registered as pre-processor of every roll pass -/
theorem factory_as_read : Gen.C14.factory = expectedFactory := by decide

/-- `Rotator.OutProfile.cross_section = shapely.affinity.rotate(in cross-section, angle=rotation (degrees), origin=(0, 0))` -/
theorem cross_section_as_read :
    Gen.C14.xsec = XsecSpec.mk "shapely.affinity.rotate" "rotator.in_profile.cross_section" "rotator.rotation" 0 0 false := by
  decide

/-- `next_roll_pass` of a rotator owned by a pass is that pass; `init_solve` hands the pre-processors' result on as in profile -/
theorem flow_as_read : Gen.C14.flow = FlowSpec.mk true true true true true := by decide

theorem auto_rotation_default_on : Gen.C14.autoDefault = true := by decide

/-- the unconditional rule `default_90` is registered on `Rotator.rotation` -/
theorem default_rule_as_read : defaultRule ∈ evalOrder Gen.C14.rules := by decide

/-- all rules are registered without `tryfirst`/`trylast`: evaluation order = reverse registration order -/
theorem rules_plain_as_read : evalOrder Gen.C14.rules = Gen.C14.rules.reverse := by decide

/-- everything the discrete proofs use of the tables -/
theorem tables_as_read : AsRead T :=
  ⟨walk_as_read, rotation_functions_as_read, factory_as_read, default_rule_as_read⟩

/-! ## 1. exactly once -/

section discrete
variable {α : Type} [PyNum α]

/-- **Exactly once (hook level).**  With automatic rotation on and `rotation` unset, for a pass whose predecessors are — nearest
first — a stretch `mid` without roll pass and then a roll pass: an auto-rotator is created **iff** no explicit rotator stands in
`mid`; never both, never neither. -/
theorem exactly_once (mid : List (U α)) (rest : List Kind) (hmid : ∀ u ∈ mid, u.isPass = false) :
    ∃ v : RotVal α,
      rotationValue T true true ((mid.map U.kind).reverse ++ .pass :: rest) .unset = some v ∧
      v = RotVal.ofBool (!mid.any U.isRotator) ∧
      (factory T.factory v).isSome = !mid.any U.isRotator := by
  have hk : ∀ k ∈ (mid.map U.kind).reverse, k ≠ Kind.pass := by
    intro k hk
    simp only [List.mem_reverse, List.mem_map] at hk
    obtain ⟨u, hu, rfl⟩ := hk
    have := hmid u hu
    cases u <;> simp_all [U.kind, U.isPass]
  have hc : (mid.map U.kind).reverse.contains Kind.rotator = mid.any U.isRotator := by
    induction mid with
    | nil => rfl
    | cons u mid ih =>
      have ih' := ih (fun u' hu' => hmid u' (by simp [hu']))
        (fun k hk' => hk k (by simp only [List.map_cons, List.reverse_cons, List.mem_append]; exact Or.inl hk'))
      simp only [List.map_cons, List.reverse_cons, List.any_cons]
      rw [← ih']
      cases u <;> simp [U.kind, U.isRotator]
  refine ⟨_, rotationValue_unset tables_as_read true true _, ?_, ?_⟩
  · rw [detect_in_sequence tables_as_read _ _ hk, hc]; rfl
  · rw [detect_in_sequence tables_as_read _ _ hk, hc, Option.getD_some, factory_ofBool tables_as_read]
    cases mid.any U.isRotator <;> rfl

/-- never both … -/
theorem never_both (mid : List (U α)) (rest : List Kind) (hmid : ∀ u ∈ mid, u.isPass = false)
    (hrot : mid.any U.isRotator = true) :
    ∃ v : RotVal α, rotationValue T true true ((mid.map U.kind).reverse ++ .pass :: rest) .unset = some v ∧
      factory T.factory v = none := by
  obtain ⟨v, hv, _, hf⟩ := exactly_once mid rest hmid
  refine ⟨v, hv, ?_⟩
  rw [hrot] at hf
  cases h : factory T.factory v with
  | none => rfl
  | some a => rw [h] at hf; cases hf

/-- … and never neither (the rotator that is created takes its angle from the rule table) -/
theorem never_neither (mid : List (U α)) (rest : List Kind) (hmid : ∀ u ∈ mid, u.isPass = false)
    (hrot : mid.any U.isRotator = false) :
    ∃ v : RotVal α, rotationValue T true true ((mid.map U.kind).reverse ++ .pass :: rest) .unset = some v ∧
      factory T.factory v = some none := by
  obtain ⟨v, hv, hb, _⟩ := exactly_once mid rest hmid
  refine ⟨v, hv, ?_⟩
  rw [hrot] at hb
  subst hb
  exact factory_tt tables_as_read

/-- **Exactly once (run level).**  In ANY flat sequence `pre ++ pass₁ :: mid ++ pass₂ :: post` (`mid` without roll pass;
transports, other units, explicit and rule-based rotators allowed), fed with any profile, automatic rotation on and `pass₂`
unset: nothing raises up to `pass₂`, and the observation the run emits there is

* `rotation = False`, no auto-rotator, the profile enters as the explicit rotators left it — if `mid` holds a rotator;
* `rotation = True`, one auto-rotator with the angle `k` of the rule table, turn grown by `k` — if it holds none. -/
theorem exactly_once_run (st0 : St α) (pre mid post : List (U α)) (s₁ : Setting α) (c₁ c₂ : List String)
    (hmid : ∀ u ∈ mid, u.isPass = false) :
    let us := pre ++ .pass s₁ c₁ :: (mid ++ .pass .unset c₂ :: post)
    let n := pre.length + 1 + mid.length
    ∃ st : St α, stateAt T true st0 us n = some st ∧
      ∃ o, (go T true st0 us)[n]? = some o ∧
        (mid.any U.isRotator = true → o = .pass .ff none st.turn st.cls) ∧
        (mid.any U.isRotator = false → ∃ k, ruleAngle T.rules st.cls c₂ = some k ∧
          o = .pass .tt (some (PyNum.nat k)) (st.turn + PyNum.nat k) (marksOut T.marks st.cls (PyNum.nat k : α))) := by
  intro us n
  have hget : us[n]? = some (.pass .unset c₂) := by
    simp only [us, n]
    rw [List.getElem?_append_right (by omega)]
    have : pre.length + 1 + mid.length - pre.length = mid.length + 1 := by omega
    rw [this, List.getElem?_cons_succ, List.getElem?_append_right (by omega)]
    simp
  obtain ⟨st, hst⟩ := Option.isSome_iff_exists.1 (stateAt_isSome_of_pass tables_as_read true us st0 n .unset c₂ hget)
  have hb := stateAt_before true us st0 st n hst
  have htake : (us.take n).map U.kind = (pre.map U.kind) ++ Kind.pass :: mid.map U.kind := by
    have hus : us = (pre ++ .pass s₁ c₁ :: mid) ++ (.pass .unset c₂ :: post) := by simp [us]
    have hn : n = (pre ++ .pass s₁ c₁ :: mid).length := by simp [n]; omega
    rw [hus, hn, List.take_left']
    · simp [U.kind]
    · rfl
  have hbefore : st.before = (mid.map U.kind).reverse ++ Kind.pass :: ((pre.map U.kind).reverse ++ st0.before) := by
    rw [hb, htake]; simp
  refine ⟨st, hst, _, go_get_pass true us st0 st n .unset c₂ hst hget, ?_, ?_⟩
  · intro hrot
    obtain ⟨v, hv, hf⟩ := never_both mid ((pre.map U.kind).reverse ++ st0.before) hmid hrot
    rw [← hbefore] at hv
    have : v = .ff := by
      obtain ⟨v'', hv'', hvb'', _⟩ := exactly_once mid ((pre.map U.kind).reverse ++ st0.before) hmid
      rw [← hbefore, hv] at hv''
      cases hv''
      rw [hvb'', hrot]; rfl
    subst this
    exact enterPass_none true st .unset c₂ .ff hv hf
  · intro hrot
    obtain ⟨v, hv, hf⟩ := never_neither mid ((pre.map U.kind).reverse ++ st0.before) hmid hrot
    rw [← hbefore] at hv
    have : v = .tt := by
      obtain ⟨v'', hv'', hvb'', _⟩ := exactly_once mid ((pre.map U.kind).reverse ++ st0.before) hmid
      rw [← hbefore, hv] at hv''
      cases hv''
      rw [hvb'', hrot]; rfl
    subst this
    exact enterPass_rule tables_as_read true st .unset c₂ .tt hv hf

/-- What the explicit rotators between two passes did to the profile when `pass₂` is entered: the turn is the sum of their
angles (in order, starting from 0 at `pass₁`'s exit), the classifiers are `pass₁`'s plus their marks.  (Stated for rotators
with explicit angles; a rule-based one contributes its rule angle in the same way, see `stateAt`.) -/
theorem turn_between_passes (auto : Bool) (st : St α) (s₁ : Setting α) (c₁ : List String) (mid rest : List (U α))
    (hm : Plain mid) :
    stateAt T auto st (.pass s₁ c₁ :: mid ++ rest) (1 + mid.length) = some
      { before := (mid.map U.kind).reverse ++ .pass :: st.before,
        cls := (explicitAngles mid).foldl (fun c θ => marksOut T.marks c θ) c₁,
        turn := (explicitAngles mid).foldl (· + ·) (PyNum.nat 0) } :=
  stateAt_next_pass tables_as_read auto st s₁ c₁ mid rest hm

omit [PyNum α] in
/-- the first pass of a sequence (no pass before it) follows the same rule: rotated on entry iff no rotator precedes it -/
theorem first_pass (mid : List (U α)) (hmid : ∀ u ∈ mid, u.isPass = false) :
    rotationValue (α := α) T true true (mid.map U.kind).reverse .unset
      = some (RotVal.ofBool (!(mid.map U.kind).reverse.contains .rotator)) := by
  have hk : ∀ k ∈ (mid.map U.kind).reverse, k ≠ Kind.pass := by
    intro k hk
    simp only [List.mem_reverse, List.mem_map] at hk
    obtain ⟨u, hu, rfl⟩ := hk
    have := hmid u hu
    cases u <;> simp_all [U.kind, U.isPass]
  rw [rotationValue_unset tables_as_read, detect_at_start tables_as_read _ hk]; rfl

/-! ## 2. an explicit setting wins — whatever stands before the pass, whatever the switch says -/

/-- `rotation=False`: no rotator, the profile enters as it comes -/
theorem explicit_false (auto : Bool) (st : St α) (c : List String) :
    enterPass T auto st .ff c = .pass .ff none st.turn st.cls :=
  enterPass_none auto st .ff c .ff rfl (factory_ff tables_as_read)

/-- `rotation=<number>`: zero ⇒ no rotator; otherwise one rotator with exactly that angle -/
theorem explicit_number (auto : Bool) (st : St α) (c : List String) (x : α) :
    enterPass T auto st (.num x) c =
      if isZero x then .pass (.num x) none st.turn st.cls
      else .pass (.num x) (some x) (st.turn + x) (marksOut T.marks st.cls x) := by
  cases h : isZero x
  · simpa [h] using enterPass_angle auto st (.num x) c (.num x) x rfl (by simp [factory_num tables_as_read, h])
  · simpa [h] using enterPass_none auto st (.num x) c (.num x) rfl (by simp [factory_num tables_as_read, h])

/-- `rotation=True`: one rotator whose angle comes from the rule table — also directly behind an explicit rotator -/
theorem explicit_true (auto : Bool) (st : St α) (c : List String) :
    ∃ k, ruleAngle T.rules st.cls c = some k ∧
      enterPass T auto st .tt c
        = .pass .tt (some (PyNum.nat k)) (st.turn + PyNum.nat k) (marksOut T.marks st.cls (PyNum.nat k : α)) :=
  enterPass_rule tables_as_read auto st .tt c .tt rfl (factory_tt tables_as_read)

/-! ## 3. switched off globally: only explicit rotators turn the workpiece -/

theorem global_off_unset (st : St α) (c : List String) :
    enterPass T false st .unset c = .pass .ff none st.turn st.cls := by
  have hv : rotationValue (α := α) T false true st.before .unset = some .ff := by
    rw [rotationValue_unset tables_as_read, detect_off tables_as_read]; rfl
  exact enterPass_none false st .unset c .ff hv (factory_ff tables_as_read)

/-- the auto-rotator of an observation, if any -/
def autoOf : Obs α → Option α
  | .pass _ a _ _ => a
  | _ => none

/-- with the switch off, a whole run of a sequence whose passes leave `rotation` unset creates no auto-rotator anywhere -/
theorem global_off_only_explicit : ∀ (us : List (U α)) (st : St α),
    (∀ u ∈ us, ∀ s c, u = .pass s c → s = .unset) → ∀ o ∈ go T false st us, autoOf o = none
  | [], _, _, o, ho => by simp [go] at ho
  | u :: us, st, h, o, ho => by
    have ih := fun st' => global_off_only_explicit us st' (fun u' hu' => h u' (by simp [hu']))
    cases u with
    | pass s c =>
      have hs : s = .unset := h _ (by simp) s c rfl
      subst hs
      simp only [go, global_off_unset] at ho
      simp only [Obs.isErr, Bool.false_eq_true, if_false, List.mem_cons] at ho
      rcases ho with rfl | ho
      · rfl
      · exact ih _ o ho
    | rotator a =>
      simp only [go] at ho
      split at ho
      · simp only [List.mem_singleton] at ho; subst ho; rfl
      · simp only [List.mem_cons] at ho
        rcases ho with rfl | ho
        · rfl
        · exact ih _ o ho
    | transport =>
      simp only [go, List.mem_cons] at ho
      rcases ho with rfl | ho
      · rfl
      · exact ih _ o ho
    | other =>
      simp only [go, List.mem_cons] at ho
      rcases ho with rfl | ho
      · rfl
      · exact ih _ o ho

omit [PyNum α] in
/-- a stand-alone pass (no parent): the walk does not apply, the switch decides -/
theorem solo_pass (auto : Bool) :
    rotationValue (α := α) T auto false [] .unset = some (RotVal.ofBool auto) := by
  rw [rotationValue_unset tables_as_read, detect_noParent tables_as_read]; rfl

/-! ## 4. the rule table -/

/-- total: every pair of classifier sets selects an angle (the unconditional rule is registered) -/
theorem rule_total (a b : List String) : ∃ k, ruleAngle T.rules a b = some k := ruleAngle_total tables_as_read a b

/-- deterministic with the translated priority: the selected angle is that of the LATEST-registered rule function that returns
one (`evalOrder` = reverse registration order, all rules being registered without `tryfirst/trylast`) -/
theorem rule_priority (a b : List String) (k : Nat) :
    ruleAngle T.rules a b = some k ↔
      ∃ later r earlier, T.rules = earlier ++ r :: later ∧ r.eval a b = some k ∧ ∀ r' ∈ later, r'.eval a b = none := by
  have ho : evalOrder T.rules = T.rules.reverse := rules_plain_as_read
  unfold ruleAngle
  rw [ho, firstSome_eq_some]
  constructor
  · rintro ⟨pre, r, post, hl, hr, hp⟩
    refine ⟨pre.reverse, r, post.reverse, ?_, hr, fun r' h => hp r' (List.mem_reverse.1 h)⟩
    have := congrArg List.reverse hl
    simpa using this
  · rintro ⟨later, r, earlier, hl, hr, hp⟩
    refine ⟨later.reverse, r, earlier.reverse, ?_, hr, fun r' h => hp r' (List.mem_reverse.1 h)⟩
    rw [hl]; simp

/-- the rule table as documented by the NAMES `<in>_<next>_<angle>` of the rule functions; later registrations win -/
def specAngle (a b : List String) : Nat :=
  if b.contains "3fold" then 180
  else if a.contains "upset" then 0
  else if a.contains "oval" && b.contains "flat" then 0
  else if a.contains "square" && b.contains "flat" then 45
  else if a.contains "box" && b.contains "flat" then 0
  else if a.contains "flat" && b.contains "flat" then 0
  else if a.contains "box" && b.contains "diamond" then 45
  else if a.contains "square" && b.contains "box" then 45
  else if a.contains "square" && b.contains "oval" then 45
  else 90

/-- the table, written out -/
theorem rule_table (a b : List String) : ruleAngle T.rules a b = some (specAngle a b) := by
  simp only [ruleAngle, T, Gen.C14.tables, rules_plain_as_read]
  simp only [Gen.C14.rules, List.reverse_cons, List.reverse_nil, List.nil_append, List.cons_append, firstSome, Rule.eval,
    evalAlts, Cond.eval, specAngle]
  by_cases h : "3fold" ∈ b <;> simp [h]
  <;> (try (by_cases h : "upset" ∈ a <;> simp [h]))
  <;> (try (by_cases h : "flat" ∈ b <;> simp [h]))
  <;> (try (by_cases h : "oval" ∈ a <;> simp [h]))
  <;> (try (by_cases h : "square" ∈ a <;> simp [h]))
  <;> (try (by_cases h : "box" ∈ a <;> simp [h]))
  <;> (try (by_cases h : "flat" ∈ a <;> simp [h]))
  <;> (try (by_cases h : "diamond" ∈ b <;> simp [h]))
  <;> (try (by_cases h : "box" ∈ b <;> simp [h]))
  <;> (try (by_cases h : "oval" ∈ b <;> simp [h]))

/-- only quarter/eighth/half turns (and no turn) are ever selected -/
theorem rule_angles (a b : List String) (k : Nat) (h : ruleAngle T.rules a b = some k) :
    k = 0 ∨ k = 45 ∨ k = 90 ∨ k = 180 := by
  rw [rule_table] at h
  cases h
  unfold specAngle
  repeat' split
  all_goals simp

/-! ## 5. classifiers of a rotator's out profile = the incoming ones plus the rotation marks -/

theorem classifiers_out (inC : List String) (θ : α) (x : String) :
    x ∈ marksOut T.marks inC θ ↔ x ∈ inC ∨ x = "rotated" ∨ markOf θ T.marks.marks = some x := by
  rw [mem_marksOut]
  have : T.marks.base = ["rotated"] := by decide
  simp [this]

/-- the incoming classifier set is not written to: the union is built as a new set (`|`) -/
theorem classifiers_built_as_new_set : T.marks.copies = true := by decide

end discrete

/-- the marks over ℝ: 45 ↦ `edged`, 90 ↦ `vertical`, 180 ↦ `mirrored`, any other angle none -/
theorem rotation_marks (θ : ℝ) :
    markOf θ T.marks.marks =
      if θ = 45 then some "edged" else if θ = 90 then some "vertical" else if θ = 180 then some "mirrored" else none := by
  have : T.marks.marks = [(45, "edged"), (90, "vertical"), (180, "mirrored")] := by decide
  rw [this]
  simp only [markOf, eqNat_real, decide_eq_true_eq]
  norm_num

/-- over ℝ "zero ⇒ no rotator" reads `x = 0` -/
theorem explicit_number_real (auto : Bool) (st : St ℝ) (c : List String) (x : ℝ) :
    enterPass T auto st (.num x) c =
      if x = 0 then .pass (.num x) none st.turn st.cls
      else .pass (.num x) (some x) (st.turn + x) (marksOut T.marks st.cls x) := by
  rw [explicit_number, isZero_real]
  by_cases h : x = 0 <;> simp [h]

/-! ## 6. geometry over ℝ: the out cross-section is the in cross-section turned about the rolling axis -/

open GeomRot

/-- `rotPoly d` is the model of `rotate(ring, angle=d, origin=(0,0))`; it keeps the number and order of the vertices -/
theorem rotate_vertices (d : ℝ) (ring : List (Pt ℝ)) : (rotPoly d ring).length = ring.length := by
  simp [rotPoly]

/-- congruent: all distances are preserved (isometry) … -/
theorem rotate_isometry (d : ℝ) (p q : Pt ℝ) : dist (rotateDeg d p) (rotateDeg d q) = dist p q :=
  dist_rotate _ p q

/-- … and so is the orientation (a turn, not a reflection); the rolling axis (origin) stays fixed -/
theorem rotate_orientation (d : ℝ) (p q : Pt ℝ) : cross (rotateDeg d p) (rotateDeg d q) = cross p q :=
  cross_rotate _ p q

theorem rotate_axis_fixed (d : ℝ) : rotateDeg d (⟨0, 0⟩ : Pt ℝ) = ⟨0, 0⟩ := by
  simp [rotateDeg, rotate]

/-- equal (signed and absolute) shoelace area -/
theorem rotate_area (d : ℝ) (ring : List (Pt ℝ)) :
    sumCross (rotPoly d ring) = sumCross ring ∧ area (rotPoly d ring) = area ring := by
  have h : sumCross (rotPoly d ring) = sumCross ring := sumCross_map_rotate _ ring
  exact ⟨h, by unfold area; rw [h]⟩

/-- equal perimeter -/
theorem rotate_perimeter (d : ℝ) (ring : List (Pt ℝ)) : perimeter (rotPoly d ring) = perimeter ring :=
  perimeter_map_rotate _ ring

/-- successive rotations add up -/
theorem rotate_add (d e : ℝ) (ring : List (Pt ℝ)) : rotPoly d (rotPoly e ring) = rotPoly (d + e) ring := by
  simp only [rotPoly, List.map_map]
  congr 1
  funext p
  simp only [Function.comp, rotateDeg, rotate_rotate]
  congr 1
  simp only [rad_real]
  ring

/-- no turn and a full turn leave the ring where it is (so turns are compared modulo 360°) -/
theorem rotate_zero_full (ring : List (Pt ℝ)) : rotPoly 0 ring = ring ∧ rotPoly 360 ring = ring := by
  constructor
  · simp only [rotPoly]
    conv_rhs => rw [← List.map_id ring]
    congr 1; funext p
    have : rad (0 : ℝ) = 0 := by simp [rad_real]
    simp [rotateDeg, this, rotate_zero]
  · simp only [rotPoly]
    conv_rhs => rw [← List.map_id ring]
    congr 1; funext p
    have : rad (360 : ℝ) = 2 * Real.pi := by simp only [rad_real]; ring
    simp [rotateDeg, this, rotate_two_pi]

/-! ## 7. further pre-processors on the class of the pass -/

/-- `Unit.init_solve`: a factory returning `None` is skipped, every pre-processor is fed the output of the one before it, the
output of the last one becomes the in profile -/
theorem init_solve_as_read : FlowThreads Gen.C14.flow := ⟨by decide, by decide, by decide⟩

/-- the in profile is the composition of ALL pre-processors in yield order applied to the incoming profile (for every
profile type and every list of factories) -/
theorem init_solve_threads {P : Type} (pres : List (Option (P → P))) (p : P) :
    initSolve Gen.C14.flow pres p = some ((pres.filterMap id).foldl (fun q f => f q) p) :=
  initSolve_threads init_solve_as_read pres p

section discrete2
variable {α : Type} [PyNum α]

/-- **Further pre-processors are harmless.**  Whatever geometry-neutral pre-processors a (plug-in's) pass class registers before
or after the inherited `rotator_factory` — returning new profiles or `None` — the pass is entered exactly as a plain pass is:
the auto-rotator's output arrives as in profile (never "turned by neither"), for every setting and switch value. -/
theorem extra_preprocessors_harmless (auto : Bool) (st : St α) (s : Setting α) (c : List String) (pres : List PreKind)
    (h : OneFactory pres) : enterPassWith Gen.C14.flow T auto st s c pres = enterPass T auto st s c := by
  unfold enterPassWith
  rw [← enterPassV_eq]
  exact applyPre_shaped init_solve_as_read st pres h _ (enterPassV_shaped st _ c)

/-! ## 8. histories: a sequence that is solved, edited and solved again -/

/-- `rotator_factory` starts with `roll_pass.__cache__.pop("rotation", None)`: the value cached by an earlier solve is
discarded before `rotation` is read -/
theorem cache_as_read : Gen.C14.cache = ⟨true⟩ := by decide

/-- **Every arrangement, however it was reached.**  For EVERY history — any sequence of solves of arrangements over the same
pass objects (units inserted, removed, replaced, reordered, settings changed, the switch toggled in between), any number of
outer iterations per solve, any caches to start with, any geometry-neutral further pre-processors on the pass classes — each
solve ends in exactly the observations a freshly built sequence gives (`runSeq`, about which sections 1–3 speak). -/
theorem resolve_any_history (cls0 : List String) (hs : List (Step α)) (store : Store) (hok : ∀ h ∈ hs, PresOk h.us) :
    runHistory Gen.C14.flow T Gen.C14.cache cls0 store hs = hs.map (fun h => runSeq T h.auto cls0 (h.us.map Slot.u)) :=
  runHistory_fresh init_solve_as_read (by rw [cache_as_read]) cls0 hs store hok

/-- the auto-rotator of an observation exists -/
def hasAuto (o : Obs α) : Bool := (autoOf o).isSome

/-- **Why the discarding statement is needed** — witness for the source shape WITHOUT it (`⟨false⟩`; the statement above is
false there, this was the behaviour of pyroll-core before the repair c84139f): solve
`[pass, transport, pass]` with the switch on, switch it off, solve again with one outer iteration — the second pass is still
entered through an auto-rotator (first list: first solve, second list: second solve; compare `global_off_only_explicit`).
The harness replays this history on the implementation (`CORPUS_HIST`). -/
theorem stale_cache_witness :
    (runHistory (α := α) Gen.C14.flow T ⟨false⟩ ["round"] []
      [⟨true, 0, [⟨0, .pass .unset ["oval"], [.factory]⟩, ⟨1, .transport, []⟩, ⟨2, .pass .unset ["round"], [.factory]⟩]⟩,
       ⟨false, 0, [⟨0, .pass .unset ["oval"], [.factory]⟩, ⟨1, .transport, []⟩, ⟨2, .pass .unset ["round"], [.factory]⟩]⟩]).map
      (fun obs => obs.map hasAuto) = [[true, false, true], [true, false, true]] := by
  have hr : ∀ a b, ruleAngle Gen.C14.rules a b = some (specAngle a b) := rule_table
  simp [runHistory, solveH, goH, entryValue, cacheAfter, fnValue, Store.get, Store.set, Store.erase, enterPassV, applyPre,
    initSolve, runPre, preFn, rotationValue, firstFn, RotFn.eval, detect, walkLoop, testKind, factory, RotVal.truthy,
    RotVal.ofBool, resolveAngle, hr, specAngle, hasAuto, autoOf, Obs.isErr, T, Gen.C14.tables, Gen.C14.walk,
    Gen.C14.rotationFns, Gen.C14.factory, Gen.C14.flow, List.lookup]

/-- **What holds for either source shape:** from the SECOND outer iteration of a solve on, the final state is that
of a freshly built sequence — whatever caches the earlier solves left, whatever `Gen.C14.cache` says (pass objects listed
once, `passIds … Nodup`).  Only a solve that stops after ONE outer iteration (converged at once against the results kept from
the previous solve, `max_iteration_count = 2`, a pass solved on its own) can end with the stale decision of
`stale_cache_witness`. -/
theorem second_iteration_right (auto : Bool) (us : List (Slot α)) (st : St α) (h : PresOk us) (hn : (passIds us).Nodup)
    (n : Nat) (store : Store) :
    (solveH Gen.C14.flow T Gen.C14.cache auto (n + 1) store st us).1 = go T auto st (us.map Slot.u) :=
  solveH_second_iteration tables_as_read init_solve_as_read Gen.C14.cache auto us st h hn n store

end discrete2

/-! ## 9. the object graph: `prev`, parents, disk elements, `flatten` -/

/-- `Unit.prev`: `ValueError` without parent, `IndexError` for the first member, else `parent.subunits[i - 1]` -/
theorem prev_as_read : Gen.C14.prevSpec = expectedPrev := by decide

/-- `_SubUnitsList(owner, units)` stores the units and THEN makes the owner their parent; `.clear()` takes the parent away from
every member BEFORE the list is emptied -/
theorem list_ops_as_read : Gen.C14.listOps = expectedListOps := by decide

/-- `PassSequence.flatten`: a member that is a sequence is emptied and detached inside the loop; the new list is installed LAST -/
theorem flatten_as_read : Gen.C14.flattenSpec = expectedFlatten := by decide

/-- **The walk reads the kinds of the members in front of the pass and nothing else.**  Unit `i` of sequence `s`, the members
`pre` in front of it (distinct objects whose parent is `s`): `detect_already_rotated`, run on the object graph through
`self.parent` / `self.prev` / `prev.prev`, returns what `detect` returns on the list of kinds - for EVERY graph: whatever the
members hold as subunits of their own (disk elements of a transport or roll pass, parts of another unit), whatever follows. -/
theorem walk_reads_members_only (auto : Bool) (h : Heap) (s i : Nat) (pre post : List Nat)
    (hs : h.subs s = pre ++ i :: post) (hnd : (pre ++ [i]).Nodup) (hp : ∀ x ∈ pre ++ [i], h.parent x = some s)
    (fuel : Nat) (hf : pre.length ≤ fuel) :
    detectNav T.walk Gen.C14.prevSpec auto h i fuel = .val (detect T.walk auto true (pre.map h.kind).reverse) := by
  rw [prev_as_read]
  exact detectNav_members T.walk auto h s i pre post hs hnd hp fuel hf

/-- **Exactly once, on the object graph.**  If the members in front of pass `i` are - nearest first - a pass-free stretch `mid`
and then a roll pass, the walk answers "already rotated" (`False`) iff `mid` holds a rotator - whatever subunits `mid`'s
transports carry. -/
theorem exactly_once_on_graph (h : Heap) (s i : Nat) (pre post : List Nat) (mid rest : List Kind)
    (hs : h.subs s = pre ++ i :: post) (hnd : (pre ++ [i]).Nodup) (hp : ∀ x ∈ pre ++ [i], h.parent x = some s)
    (hk : (pre.map h.kind).reverse = mid ++ .pass :: rest) (hmid : ∀ k ∈ mid, k ≠ .pass) :
    detectNav T.walk Gen.C14.prevSpec true h i pre.length = .val (some (!mid.contains .rotator)) := by
  rw [walk_reads_members_only true h s i pre post hs hnd hp _ (Nat.le_refl _), hk, detect_in_sequence tables_as_read mid rest hmid]

/-- **A flattened sequence is a sequence.**  After `s.flatten()` the members of `s` are the former members in order, each
sub-sequence replaced by its units (`flatMembers`), every one of them has `s` as parent, and the walk of a unit `i` among them
returns what `detect` returns on the kinds of the units in front of it - exactly as in a sequence constructed flat. -/
theorem flattened_like_constructed (auto : Bool) (h : Heap) (s i : Nat) (pre post : List Nat)
    (hm : (h.subs s).Nodup) (hs : flatMembers h s = pre ++ i :: post) (hnd : (pre ++ [i]).Nodup) :
    let h' := flatten Gen.C14.listOps Gen.C14.flattenSpec h s
    h'.subs s = pre ++ i :: post ∧ (∀ u ∈ h'.subs s, h'.parent u = some s) ∧
      detectNav T.walk Gen.C14.prevSpec auto h' i pre.length = .val (detect T.walk auto true (pre.map h.kind).reverse) := by
  intro h'
  have hsub : h'.subs s = pre ++ i :: post := by
    show (flatten Gen.C14.listOps Gen.C14.flattenSpec h s).subs s = _
    rw [list_ops_as_read, flatten_as_read, flatten_members h s hm, hs]
  have hpar : ∀ u ∈ h'.subs s, h'.parent u = some s := by
    show ∀ u ∈ (flatten Gen.C14.listOps Gen.C14.flattenSpec h s).subs s, (flatten Gen.C14.listOps Gen.C14.flattenSpec h s).parent u = some s
    rw [list_ops_as_read, flatten_as_read]
    exact flatten_adopts h s
  have hkind : h'.kind = h.kind := by
    show (flatten Gen.C14.listOps Gen.C14.flattenSpec h s).kind = _
    rw [list_ops_as_read, flatten_as_read, flatten_kind]
  refine ⟨hsub, hpar, ?_⟩
  rw [walk_reads_members_only auto h' s i pre post hsub hnd (fun x hx => hpar x (by rw [hsub]; simp at hx ⊢; rcases hx with h1 | h1 <;> simp [h1])) _ (Nat.le_refl _), hkind]

/-- the graph of `PassSequence([PassSequence([pass 2, rotator 3, pass 4])])` (0 = the outer, 1 = the inner sequence) -/
def nestedGraph : Heap := Heap.ofNodes
  [⟨0, .other, true, none, [1]⟩, ⟨1, .other, true, some 0, [2, 3, 4]⟩,
   ⟨2, .pass, false, some 1, []⟩, ⟨3, .rotator, false, some 1, []⟩, ⟨4, .pass, false, some 1, []⟩]

/-- **Why the order inside `flatten` matters** (the negation of `flattened_like_constructed` for the other statement order): if
the dissolved sub-sequences were emptied only AFTER the new list is installed, the units moved out of them would end up without
parent - the walk of pass 4 is then skipped (`None`), the switch value decides, and with automatic rotation on the pass turns the
workpiece although rotator 3 stands in front of it: turned by both. -/
theorem flatten_order_witness :
    let h' := flatten expectedListOps [.main [.collect, .remember], .install, .deferred [.clear, .orphan]] nestedGraph 0
    h'.subs 0 = [2, 3, 4] ∧ h'.parent 4 = none ∧
      detectNav T.walk Gen.C14.prevSpec true h' 4 2 = .val none ∧
      detectNav T.walk Gen.C14.prevSpec true (flatten Gen.C14.listOps Gen.C14.flattenSpec nestedGraph 0) 4 2 = .val (some false) := by
  decide

example : (flatten Gen.C14.listOps Gen.C14.flattenSpec nestedGraph 0).parent 4 = some 0 := by decide

/-- a transport (5) subdivided into three disk elements (6, 7, 8) behind a rotator (3): the walk of pass 4 steps over it -/
def diskGraph : Heap := Heap.ofNodes
  [⟨0, .other, true, none, [2, 3, 5, 4]⟩, ⟨2, .pass, false, some 0, [9]⟩, ⟨3, .rotator, false, some 0, []⟩,
   ⟨5, .transport, false, some 0, [6, 7, 8]⟩, ⟨4, .pass, false, some 0, []⟩,
   ⟨6, .other, false, some 5, []⟩, ⟨7, .other, false, some 5, []⟩, ⟨8, .other, false, some 5, []⟩, ⟨9, .other, false, some 2, []⟩]

example : detectNav T.walk Gen.C14.prevSpec true diskGraph 4 3 = .val (some false) := by decide

/-- `exactly_once_on_graph` on that graph -/
example : detectNav T.walk Gen.C14.prevSpec true diskGraph 4 3 = .val (some (!(([Kind.transport, Kind.rotator] : List Kind).contains .rotator))) :=
  exactly_once_on_graph diskGraph 0 4 [2, 3, 5] [] [.transport, .rotator] [] (by decide) (by decide) (by decide) (by decide)
    (by decide)

/-! ## non-vacuity: concrete instances -/

/-- `second_iteration_right` on the edited arrangement of `stale_cache_witness`' kind, started from stale caches -/
example : (solveH Gen.C14.flow T Gen.C14.cache true 1 [(0, true), (2, true)] (⟨[], ["round"], 0⟩ : St ℝ)
      [⟨0, .pass .unset ["oval"], [.factory]⟩, ⟨3, .rotator (some 0), []⟩, ⟨2, .pass .unset ["round"], [.factory]⟩]).1
    = go T true ⟨[], ["round"], 0⟩ [.pass .unset ["oval"], .rotator (some 0), .pass .unset ["round"]] := by
  refine second_iteration_right true _ _ ?_ (by simp [passIds]) 0 _
  intro sl hsl hp
  simp only [List.mem_cons, List.mem_nil_iff, or_false] at hsl
  rcases hsl with rfl | rfl | rfl
  · exact ⟨[], [], rfl, by simp, by simp⟩
  · simp [U.isPass] at hp
  · exact ⟨[], [], rfl, by simp, by simp⟩

/-- `OneFactory`: a plug-in's neutral pre-processor behind, one returning `None` in front of the rotator factory -/
example : OneFactory [.absent, .factory, .neutral] := ⟨[.absent], [.neutral], rfl, by simp, by simp⟩

/-- `extra_preprocessors_harmless` on such a class, behind `[pass, transport]`, setting 45 -/
example : enterPassWith Gen.C14.flow T true (⟨[.transport, .pass], ["oval"], 0⟩ : St ℝ) (.num 45) ["round"]
    [.absent, .factory, .neutral] = .pass (.num 45) (some 45) (0 + 45) (marksOut T.marks ["oval"] (45 : ℝ)) := by
  have h : OneFactory [.absent, .factory, .neutral] := ⟨[.absent], [.neutral], rfl, by simp, by simp⟩
  rw [extra_preprocessors_harmless _ _ _ _ _ h, explicit_number_real]
  norm_num

/-- `resolve_any_history` on: solve `[pass₀, transport, pass₂]`, insert `Rotator(0)`, solve again (one iteration) -/
example : runHistory Gen.C14.flow T Gen.C14.cache ["round"] []
      ([⟨true, 0, [⟨0, .pass .unset ["oval"], [.factory]⟩, ⟨1, .transport, []⟩, ⟨2, .pass .unset ["round"], [.factory]⟩]⟩,
        ⟨true, 0, [⟨0, .pass .unset ["oval"], [.factory]⟩, ⟨3, .rotator (some 0), []⟩, ⟨1, .transport, []⟩,
                   ⟨2, .pass .unset ["round"], [.neutral, .factory]⟩]⟩] : List (Step ℝ))
    = [runSeq T true ["round"] [.pass .unset ["oval"], .transport, .pass .unset ["round"]],
       runSeq T true ["round"] [.pass .unset ["oval"], .rotator (some 0), .transport, .pass .unset ["round"]]] := by
  rw [resolve_any_history]
  · rfl
  · intro h hh sl hsl hp
    simp only [List.mem_cons, List.mem_nil_iff, or_false] at hh
    rcases hh with rfl | rfl <;> simp only [List.mem_cons, List.mem_nil_iff, or_false] at hsl <;>
      rcases hsl with rfl | rfl | rfl | rfl <;>
      first
        | exact ⟨[], [], rfl, by simp, by simp⟩
        | exact ⟨[.neutral], [], rfl, by simp, by simp⟩
        | (simp [U.isPass] at hp)


/-- `exactly_once_run` on `[pass, transport, Rotator(90), pass]` fed with a round profile: the second pass does not rotate -/
example : ∃ st o, stateAt T true (⟨[], ["round"], 0⟩ : St ℝ)
      [.pass .unset ["oval"], .transport, .rotator (some 90), .pass .unset ["round"]] 3 = some st ∧
    (go T true (⟨[], ["round"], 0⟩ : St ℝ)
      [.pass .unset ["oval"], .transport, .rotator (some 90), .pass .unset ["round"]])[3]? = some o ∧
    o = .pass .ff none st.turn st.cls := by
  obtain ⟨st, hst, o, ho, h1, _⟩ := exactly_once_run (α := ℝ) ⟨[], ["round"], 0⟩ [] [.transport, .rotator (some 90)] []
    .unset ["oval"] ["round"] (by simp [U.isPass])
  exact ⟨st, o, hst, ho, h1 (by simp [U.isRotator])⟩

/-- … and on `[transport, pass, transport, other, pass, pass]`: the pass behind the transports is rotated by the rule angle -/
example : ∃ (st : St ℝ) (o : Obs ℝ) (k : Nat), (go T true (⟨[], ["square"], 0⟩ : St ℝ)
      [.transport, .pass .tt ["oval"], .transport, .other, .pass .unset ["round"], .pass .ff ["oval"]])[4]? = some o ∧
    ruleAngle T.rules st.cls ["round"] = some k ∧
    o = .pass .tt (some (k : ℝ)) (st.turn + (k : ℝ)) (marksOut T.marks st.cls (k : ℝ)) := by
  obtain ⟨st, _, o, ho, _, h2⟩ := exactly_once_run (α := ℝ) ⟨[], ["square"], 0⟩ [.transport] [.transport, .other]
    [.pass .ff ["oval"]] .tt ["oval"] ["round"] (by simp [U.isPass])
  obtain ⟨k, hk, hok⟩ := h2 (by simp [U.isRotator])
  exact ⟨st, o, k, ho, hk, hok⟩

/-- `turn_between_passes` on two explicit eighth turns: the profile arrives turned by `0 + 45 + 45` -/
example : ∃ st : St ℝ, stateAt T true (⟨[], ["round"], 0⟩ : St ℝ)
      (.pass .unset ["oval"] :: [.transport, .rotator (some 45), .rotator (some 45), .other] ++ [.pass .unset ["round"]]) (1 + 4)
        = some st ∧ st.turn = 0 + 45 + 45 := by
  refine ⟨_, turn_between_passes (α := ℝ) true ⟨[], ["round"], 0⟩ .unset ["oval"]
    [.transport, .rotator (some 45), .rotator (some 45), .other] [.pass .unset ["round"]] ?_, ?_⟩
  · intro u hu
    simp only [List.mem_cons, List.mem_nil_iff, or_false] at hu
    rcases hu with rfl | rfl | rfl | rfl <;> simp [U.isPass]
  · simp [explicitAngles]

example : ∃ mid : List (U ℝ), (∀ u ∈ mid, u.isPass = false) ∧ mid.any U.isRotator = true :=
  ⟨[.transport, .rotator (some 90), .other], by simp [U.isPass], by simp [U.isRotator]⟩

example : ∃ mid : List (U ℝ), (∀ u ∈ mid, u.isPass = false) ∧ mid.any U.isRotator = false :=
  ⟨[.transport, .other, .transport], by simp [U.isPass], by simp [U.isRotator]⟩

example : Plain ([.transport, .rotator (some 45), .rotator (some 45), .other] : List (U ℝ)) := by
  intro u hu
  simp only [List.mem_cons, List.mem_nil_iff, or_false] at hu
  rcases hu with rfl | rfl | rfl | rfl <;> simp [U.isPass]

example : explicitAngles ([.transport, .rotator (some 45), .rotator (some 45), .other] : List (U ℝ)) = [45, 45] := rfl

/-- the walk on concrete `prev` chains (nearest first) -/
example : detect T.walk true true [.transport, .rotator, .pass] = some false := by decide
example : detect T.walk true true [.transport, .other, .pass, .rotator] = some true := by decide
example : detect T.walk true true [] = some true := by decide
example : detect T.walk false true [.rotator] = none := by decide

/-- the rule table on concrete classifier sets -/
example : ruleAngle T.rules ["square", "diamond"] ["oval", "symmetric"] = some 45 := by decide
example : ruleAngle T.rules ["round"] ["round", "3fold"] = some 180 := by decide
example : ruleAngle T.rules ["oval", "upset"] ["flat"] = some 0 := by decide
example : ruleAngle T.rules ["oval"] ["round"] = some 90 := by decide

/-- a unit square ring turned by a quarter turn keeps area 1 and perimeter 4 -/
example : area ([⟨0, 0⟩, ⟨1, 0⟩, ⟨1, 1⟩, ⟨0, 1⟩, ⟨0, 0⟩] : List (Pt ℝ)) = 1 := by
  simp [area, sumCross, cross]
  norm_num

end C14
