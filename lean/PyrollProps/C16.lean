import PyrollModel.Gen.C16
import PyrollProofs.MutualLemmas

/-!
# C16 — mutually defined quantities are consistent whichever member is supplied

Everything below is about the implementation tables GENERATED from the current `/repo` source
(`PyrollModel/Gen/C16.lean`, rewritten by `driver/props/c16.py::translate` on every run: guards, formulas, host class,
tier, source order of every hook implementation on a hook of one of the groups), run by the symbolic hook interpreter
`PyrollModel/Mutual.lean` (resolution order, `__dict__`/`__cache__`, per-(function, instance) re-entrancy marks,
`has_set`/`has_set_or_cached`/`has_value`, exceptions aborting a chain — tied to `pyroll/core/hooks.py` by the
correspondence harness).

For every group the property is split into

* a **finite control part**, evaluated by the Lean kernel inside the theorem `<group>_control`
  (`checkAll spec FUEL worlds = true := by decide +kernel`): EVERY world of the group × EVERY subset of supplied members
  (empty and over-complete included) × EVERY read order: each read takes at most `maxSteps` machine steps and `maxDepth`
  stack frames; a supplied member reads back as itself; a member that follows from what is supplied (closure of the
  documented directions, `Mutual.derivable`) reads a value whose symbolic form is one of `forms`; every other member
  fails with AttributeError (never another error, never out of fuel); no re-entrancy mark is left;
* an **algebraic part** over ℝ (`<group>_forms_sound`): for every assignment `ρ` of reals that satisfies the defining
  relations of the group (`…Consistent ρ`, positivity hypotheses explicit) every admitted form evaluates to `ρ member`.

Together (`<group>_consistent : GroupConsistent …`): whichever members are supplied and in whichever order the members
are read, every read either fails with AttributeError (exactly when the member is not derivable) or returns THE value
of the consistent assignment — so the values are independent of the read order, mutually consistent, and never invented.
`<group>_roundtrip` states that a derived value supplied to a fresh object reproduces the original (formulas of the
generated table composed over ℝ), `insufficient_is_attribute_error_bounded` that with too little supplied every read
ends in AttributeError within `FUEL` machine steps for every fuel ≥ `FUEL` (no hang, no RecursionError).

A change of a guard (`has_value` ↔ `has_set_or_cached`), of a formula, of a tier or of the registration order in the
anchored files changes the generated table; the control theorems are then re-evaluated by the kernel and stop building
when a subset/order exists for which the property fails (on the unrepaired tree: F12, F13, F17, F18 of notes/C16.md).
-/

open Mutual Gen.C16 Expr

namespace C16

def FUEL : Nat := 400


/-! ## worlds -/
/-- a world over the generated table of a class; the calling convention for callable explicit values is the generated one -/
def mkW (impls : List Impl) (mro hooks : List String) (ext : List (String × Ext)) : World :=
  { impls := impls, mro := mro, hooks := hooks, ext := ext, conv := hookget_call }
def roll (ext : List (String × Ext)) (base : List String) : GW := ⟨mkW cls_Roll_impls cls_Roll_mro cls_Roll_hooks ext, base⟩
def passRoll (ext : List (String × Ext)) (base : List String) : GW :=
  ⟨mkW cls_PassRoll_impls cls_PassRoll_mro cls_PassRoll_hooks ext, base⟩
def transport (ext : List (String × Ext)) : GW := ⟨mkW cls_Transport_impls cls_Transport_mro cls_Transport_hooks ext, []⟩
def pipe : GW := ⟨mkW cls_CoolingPipe_impls cls_CoolingPipe_mro cls_CoolingPipe_hooks [], []⟩
def twoRollPass (ext : List (String × Ext)) : GW :=
  ⟨mkW cls_TwoRollPass_impls cls_TwoRollPass_mro cls_TwoRollPass_hooks ext, []⟩
def threeRollPass (ext : List (String × Ext)) : GW :=
  ⟨mkW cls_ThreeRollPass_impls cls_ThreeRollPass_mro cls_ThreeRollPass_hooks ext, []⟩

def gf : String × Ext := ("groove.groove_factor", .avail)

def radiusMembers := ["nominal_radius", "nominal_diameter"]
def radiusRules : List (String × List String) :=
  [("nominal_radius", ["nominal_diameter"]), ("nominal_diameter", ["nominal_radius"])]
def radiusWorlds : List GW := [roll [gf] [], passRoll [gf, ("roll_pass.exit_point", .avail)] []]

/-- … together with `max_radius`, the quantity that DEFAULTS to a member (`Roll.max_radius = nominal_radius`) and may be
given on its own (collars higher than the barrel): supplied or not, read before / between / after the members -/
def radiusSideMembers := ["nominal_radius", "nominal_diameter", "max_radius"]
def radiusSideRules : List (String × List String) := radiusRules ++ [("max_radius", ["nominal_radius"])]

def velMembers := ["rotational_frequency", "surface_velocity", "working_velocity"]
def velRules : List (String × List String) :=
  radiusRules ++
  [("working_radius", ["nominal_radius", "groove.groove_factor"]),
   ("working_velocity", ["rotational_frequency", "working_radius"]),
   ("surface_velocity", ["rotational_frequency", "nominal_radius"]),
   ("rotational_frequency", ["surface_velocity", "nominal_radius"]),
   ("rotational_frequency", ["working_velocity", "working_radius"]),
   ("working_velocity", ["roll_pass.velocity", "neutral_angle"]),
   ("working_velocity", ["roll_pass.velocity", "roll_pass.exit_point", "working_radius"])]
def rollVelWorlds : List GW := [roll [gf] ["nominal_radius"], roll [gf] ["nominal_diameter"], roll [gf] []]
def xp : String × Ext := ("roll_pass.exit_point", .avail)
/-- a roll inside a roll pass whose velocity is / is not explicitly set; no neutral angle: the exit angle is used -/
def passRollVelWorlds : List GW :=
  [passRoll [gf, xp, ("roll_pass.velocity", .missing .attr)] ["nominal_radius"],
   passRoll [gf, xp, ("roll_pass.velocity", .set)] ["nominal_radius"]]
def velWorlds : List GW := rollVelWorlds ++ passRollVelWorlds
/-- … with the neutral angle given -/
def velNeutralWorlds : List GW :=
  [passRoll [gf, xp, ("roll_pass.velocity", .missing .attr)] ["nominal_radius", "neutral_angle"],
   passRoll [gf, xp, ("roll_pass.velocity", .set)] ["nominal_radius", "neutral_angle"]]

def neutralMembers := ["neutral_point", "neutral_angle"]
def neutralRules : List (String × List String) :=
  [("working_radius", ["nominal_radius", "groove.groove_factor"]),
   ("neutral_angle", ["neutral_point", "working_radius"]), ("neutral_point", ["neutral_angle", "working_radius"])]
def neutralWorlds : List GW := [passRoll [gf, xp] ["nominal_radius"], passRoll [gf, xp] []]

def pipeMembers := ["inner_radius", "cross_section_area"]
def pipeRules : List (String × List String) :=
  [("inner_radius", ["cross_section_area"]), ("cross_section_area", ["inner_radius"])]
def pipeWorlds : List GW := [pipe]

def targetMembers := ["target_width", "target_filling_ratio", "target_cross_section_area", "target_cross_section_filling_ratio"]
def area2 := "@TwoRollPass/target_cross_section_area_from_target_width"
def area3 := "@ThreeRollPass/target_cross_section_area_from_target_width3"
def targetRules : List (String × List String) :=
  [("target_filling_ratio", []), ("target_width", ["target_filling_ratio", "usable_width"]),
   ("target_filling_ratio", ["target_width", "usable_width"]),
   ("target_cross_section_area", ["target_cross_section_filling_ratio", "usable_cross_section.area"]),
   ("target_cross_section_filling_ratio", ["target_cross_section_area", "usable_cross_section.area"]),
   ("target_cross_section_area", ["target_width", area2]), ("target_cross_section_area", ["target_width", area3])]
def targetWorlds : List GW :=
  [twoRollPass [("usable_width", .avail), ("usable_cross_section.area", .avail), (area2, .avail)],
   threeRollPass [("usable_width", .avail), ("usable_cross_section.area", .avail), (area3, .avail)]]

def unitMembers := ["length", "duration", "velocity"]
def conti := "@Transport/conti_velocity"
def positions := "@Transport/length_from_roll_pass_positions"
def unitRules : List (String × List String) :=
  [("length", ["velocity", "duration"]), ("duration", ["length", "velocity"]),
   ("velocity", ["in_profile.velocity"]), ("velocity", ["in_profile", "length", conti]), ("length", [positions])]
/-- the in-profile: absent (`None`, unit never solved) / without velocity / with velocity -/
def inProfiles : List (List (String × Ext)) :=
  [[("in_profile", .missing .attr)],
   [("in_profile", .avail), ("in_profile.velocity", .missing .attr)],
   [("in_profile", .avail), ("in_profile.velocity", .set)]]
/-- the two bodies that navigate the sequence: value / `None` (no neighbour) / AttributeError (neighbour without value) -/
def unitWorlds : List GW :=
  inProfiles.flatMap fun ip => [Ext.none, .avail, .missing .attr].flatMap fun c => [Ext.none, .avail].map fun p =>
    transport (ip ++ [(conti, c), (positions, p)])

/-! ## specifications: admitted symbolic forms (all observed forms; each is proved sound below) -/

def radiusForms : List (String × List Expr) :=
  [("nominal_radius", [.div (.var "nominal_diameter") (.nat 2), .var "nominal_radius"]),
   ("nominal_diameter", [.mul (.var "nominal_radius") (.nat 2), .var "nominal_diameter"])]
def radiusSpec : Spec := ⟨radiusMembers, radiusRules, fun _ => radiusForms, 150, 25⟩

/-- the members of the pair never take a form that mentions `max_radius`; `max_radius` is the nominal radius unless it is
supplied itself -/
def radiusSideForms (sup : List String) : List (String × List Expr) :=
  radiusForms ++
  [("max_radius", (if sup.contains "max_radius" then [] else
      [.var "nominal_radius", .div (.var "nominal_diameter") (.nat 2)]) ++ [.var "max_radius"])]
def radiusSideSpec : Spec := ⟨radiusSideMembers, radiusSideRules, radiusSideForms, 150, 25⟩

def velForms : List (String × List Expr) :=
  [("rotational_frequency",
    [Expr.div
       (Expr.mul
         (Expr.mul
           (Expr.mul
             (Expr.div
               (Expr.var "surface_velocity")
               (Expr.mul (Expr.mul (Expr.nat 2) (Expr.pi)) (Expr.div (Expr.var "nominal_diameter") (Expr.nat 2))))
             (Expr.sub (Expr.div (Expr.var "nominal_diameter") (Expr.nat 2)) (Expr.var "groove.groove_factor")))
           (Expr.nat 2))
         (Expr.pi))
       (Expr.mul
         (Expr.mul (Expr.nat 2) (Expr.pi))
         (Expr.sub (Expr.div (Expr.var "nominal_diameter") (Expr.nat 2)) (Expr.var "groove.groove_factor"))),
     Expr.div
       (Expr.var "surface_velocity")
       (Expr.mul (Expr.mul (Expr.nat 2) (Expr.pi)) (Expr.div (Expr.var "nominal_diameter") (Expr.nat 2))),
     Expr.div
       (Expr.var "working_velocity")
       (Expr.mul
         (Expr.mul (Expr.nat 2) (Expr.pi))
         (Expr.sub (Expr.div (Expr.var "nominal_diameter") (Expr.nat 2)) (Expr.var "groove.groove_factor"))),
     Expr.div
       (Expr.mul
         (Expr.mul
           (Expr.mul
             (Expr.div
               (Expr.var "surface_velocity")
               (Expr.mul (Expr.mul (Expr.nat 2) (Expr.pi)) (Expr.var "nominal_radius")))
             (Expr.sub (Expr.var "nominal_radius") (Expr.var "groove.groove_factor")))
           (Expr.nat 2))
         (Expr.pi))
       (Expr.mul
         (Expr.mul (Expr.nat 2) (Expr.pi))
         (Expr.sub (Expr.var "nominal_radius") (Expr.var "groove.groove_factor"))),
     Expr.div (Expr.var "surface_velocity") (Expr.mul (Expr.mul (Expr.nat 2) (Expr.pi)) (Expr.var "nominal_radius")),
     Expr.div
       (Expr.div
         (Expr.var "roll_pass.velocity")
         (Expr.cos
           (Expr.asin
             (Expr.div
               (Expr.var "roll_pass.exit_point")
               (Expr.sub (Expr.var "nominal_radius") (Expr.var "groove.groove_factor"))))))
       (Expr.mul
         (Expr.mul (Expr.nat 2) (Expr.pi))
         (Expr.sub (Expr.var "nominal_radius") (Expr.var "groove.groove_factor"))),
     Expr.div
       (Expr.var "working_velocity")
       (Expr.mul
         (Expr.mul (Expr.nat 2) (Expr.pi))
         (Expr.sub (Expr.var "nominal_radius") (Expr.var "groove.groove_factor"))),
     Expr.var "rotational_frequency"]),
   ("surface_velocity",
    [Expr.mul
       (Expr.mul
         (Expr.mul
           (Expr.div
             (Expr.var "working_velocity")
             (Expr.mul
               (Expr.mul (Expr.nat 2) (Expr.pi))
               (Expr.sub (Expr.div (Expr.var "nominal_diameter") (Expr.nat 2)) (Expr.var "groove.groove_factor"))))
           (Expr.div (Expr.var "nominal_diameter") (Expr.nat 2)))
         (Expr.nat 2))
       (Expr.pi),
     Expr.mul
       (Expr.mul
         (Expr.mul (Expr.var "rotational_frequency") (Expr.div (Expr.var "nominal_diameter") (Expr.nat 2)))
         (Expr.nat 2))
       (Expr.pi),
     Expr.mul
       (Expr.mul
         (Expr.mul
           (Expr.div
             (Expr.div
               (Expr.var "roll_pass.velocity")
               (Expr.cos
                 (Expr.asin
                   (Expr.div
                     (Expr.var "roll_pass.exit_point")
                     (Expr.sub (Expr.var "nominal_radius") (Expr.var "groove.groove_factor"))))))
             (Expr.mul
               (Expr.mul (Expr.nat 2) (Expr.pi))
               (Expr.sub (Expr.var "nominal_radius") (Expr.var "groove.groove_factor"))))
           (Expr.var "nominal_radius"))
         (Expr.nat 2))
       (Expr.pi),
     Expr.mul
       (Expr.mul
         (Expr.mul
           (Expr.div
             (Expr.var "working_velocity")
             (Expr.mul
               (Expr.mul (Expr.nat 2) (Expr.pi))
               (Expr.sub (Expr.var "nominal_radius") (Expr.var "groove.groove_factor"))))
           (Expr.var "nominal_radius"))
         (Expr.nat 2))
       (Expr.pi),
     Expr.mul (Expr.mul (Expr.mul (Expr.var "rotational_frequency") (Expr.var "nominal_radius")) (Expr.nat 2)) (Expr.pi),
     Expr.var "surface_velocity"]),
   ("working_velocity",
    [Expr.mul
       (Expr.mul
         (Expr.mul
           (Expr.div
             (Expr.var "surface_velocity")
             (Expr.mul (Expr.mul (Expr.nat 2) (Expr.pi)) (Expr.div (Expr.var "nominal_diameter") (Expr.nat 2))))
           (Expr.sub (Expr.div (Expr.var "nominal_diameter") (Expr.nat 2)) (Expr.var "groove.groove_factor")))
         (Expr.nat 2))
       (Expr.pi),
     Expr.mul
       (Expr.mul
         (Expr.mul
           (Expr.var "rotational_frequency")
           (Expr.sub (Expr.div (Expr.var "nominal_diameter") (Expr.nat 2)) (Expr.var "groove.groove_factor")))
         (Expr.nat 2))
       (Expr.pi),
     Expr.mul
       (Expr.mul
         (Expr.mul
           (Expr.div
             (Expr.var "surface_velocity")
             (Expr.mul (Expr.mul (Expr.nat 2) (Expr.pi)) (Expr.var "nominal_radius")))
           (Expr.sub (Expr.var "nominal_radius") (Expr.var "groove.groove_factor")))
         (Expr.nat 2))
       (Expr.pi),
     Expr.mul
       (Expr.mul
         (Expr.mul
           (Expr.var "rotational_frequency")
           (Expr.sub (Expr.var "nominal_radius") (Expr.var "groove.groove_factor")))
         (Expr.nat 2))
       (Expr.pi),
     Expr.div
       (Expr.var "roll_pass.velocity")
       (Expr.cos
         (Expr.asin
           (Expr.div
             (Expr.var "roll_pass.exit_point")
             (Expr.sub (Expr.var "nominal_radius") (Expr.var "groove.groove_factor"))))),
     Expr.var "working_velocity"])]
def velSpec : Spec := ⟨velMembers, velRules, fun _ => velForms, 150, 25⟩

def velNeutralForms : List (String × List Expr) :=
  [("rotational_frequency",
    [Expr.div
       (Expr.mul
         (Expr.mul
           (Expr.mul
             (Expr.div
               (Expr.var "surface_velocity")
               (Expr.mul (Expr.mul (Expr.nat 2) (Expr.pi)) (Expr.var "nominal_radius")))
             (Expr.sub (Expr.var "nominal_radius") (Expr.var "groove.groove_factor")))
           (Expr.nat 2))
         (Expr.pi))
       (Expr.mul
         (Expr.mul (Expr.nat 2) (Expr.pi))
         (Expr.sub (Expr.var "nominal_radius") (Expr.var "groove.groove_factor"))),
     Expr.div (Expr.var "surface_velocity") (Expr.mul (Expr.mul (Expr.nat 2) (Expr.pi)) (Expr.var "nominal_radius")),
     Expr.div
       (Expr.div (Expr.var "roll_pass.velocity") (Expr.cos (Expr.var "neutral_angle")))
       (Expr.mul
         (Expr.mul (Expr.nat 2) (Expr.pi))
         (Expr.sub (Expr.var "nominal_radius") (Expr.var "groove.groove_factor"))),
     Expr.div
       (Expr.var "working_velocity")
       (Expr.mul
         (Expr.mul (Expr.nat 2) (Expr.pi))
         (Expr.sub (Expr.var "nominal_radius") (Expr.var "groove.groove_factor"))),
     Expr.var "rotational_frequency"]),
   ("surface_velocity",
    [Expr.mul
       (Expr.mul
         (Expr.mul
           (Expr.div
             (Expr.div (Expr.var "roll_pass.velocity") (Expr.cos (Expr.var "neutral_angle")))
             (Expr.mul
               (Expr.mul (Expr.nat 2) (Expr.pi))
               (Expr.sub (Expr.var "nominal_radius") (Expr.var "groove.groove_factor"))))
           (Expr.var "nominal_radius"))
         (Expr.nat 2))
       (Expr.pi),
     Expr.mul
       (Expr.mul
         (Expr.mul
           (Expr.div
             (Expr.var "working_velocity")
             (Expr.mul
               (Expr.mul (Expr.nat 2) (Expr.pi))
               (Expr.sub (Expr.var "nominal_radius") (Expr.var "groove.groove_factor"))))
           (Expr.var "nominal_radius"))
         (Expr.nat 2))
       (Expr.pi),
     Expr.mul (Expr.mul (Expr.mul (Expr.var "rotational_frequency") (Expr.var "nominal_radius")) (Expr.nat 2)) (Expr.pi),
     Expr.var "surface_velocity"]),
   ("working_velocity",
    [Expr.mul
       (Expr.mul
         (Expr.mul
           (Expr.div
             (Expr.var "surface_velocity")
             (Expr.mul (Expr.mul (Expr.nat 2) (Expr.pi)) (Expr.var "nominal_radius")))
           (Expr.sub (Expr.var "nominal_radius") (Expr.var "groove.groove_factor")))
         (Expr.nat 2))
       (Expr.pi),
     Expr.mul
       (Expr.mul
         (Expr.mul
           (Expr.var "rotational_frequency")
           (Expr.sub (Expr.var "nominal_radius") (Expr.var "groove.groove_factor")))
         (Expr.nat 2))
       (Expr.pi),
     Expr.div (Expr.var "roll_pass.velocity") (Expr.cos (Expr.var "neutral_angle")),
     Expr.var "working_velocity"])]
def velNeutralSpec : Spec := ⟨velMembers, velRules, fun _ => velNeutralForms, 150, 25⟩

def wr : Expr := .sub (.var "nominal_radius") (.var "groove.groove_factor")
def neutralForms : List (String × List Expr) :=
  [("neutral_point", [.mul (.sin (.var "neutral_angle")) wr, .var "neutral_point"]),
   ("neutral_angle", [.asin (.div (.var "neutral_point") wr), .var "neutral_angle"])]
def neutralSpec : Spec := ⟨neutralMembers, neutralRules, fun _ => neutralForms, 150, 25⟩

/-! the working radius given on its own (explicit `working_radius`: it no longer is `nominal_radius - groove_factor`);
a roll with only a working radius; the roll of a pass whose velocity is / is not set -/
def velWrWorlds : List GW :=
  [roll [gf] ["nominal_radius", "working_radius"], roll [gf] ["working_radius"],
   passRoll [gf, xp, ("roll_pass.velocity", .missing .attr)] ["nominal_radius", "working_radius"],
   passRoll [gf, xp, ("roll_pass.velocity", .set)] ["nominal_radius", "working_radius"]]
def xa : Expr := .asin (.div (.var "roll_pass.exit_point") (.var "working_radius"))
def twoPi (r : Expr) : Expr := .mul (.mul (.nat 2) .pi) r
def velWrForms : List (String × List Expr) :=
  [("rotational_frequency",
    [.div (.mul (.mul (.mul (.div (.var "surface_velocity") (twoPi (.var "nominal_radius"))) (.var "working_radius")) (.nat 2)) .pi)
       (twoPi (.var "working_radius")),
     .div (.var "surface_velocity") (twoPi (.var "nominal_radius")),
     .div (.div (.var "roll_pass.velocity") (.cos xa)) (twoPi (.var "working_radius")),
     .div (.var "working_velocity") (twoPi (.var "working_radius")),
     .var "rotational_frequency"]),
   ("surface_velocity",
    [.mul (.mul (.mul (.div (.div (.var "roll_pass.velocity") (.cos xa)) (twoPi (.var "working_radius")))
       (.var "nominal_radius")) (.nat 2)) .pi,
     .mul (.mul (.mul (.div (.var "working_velocity") (twoPi (.var "working_radius"))) (.var "nominal_radius")) (.nat 2)) .pi,
     .mul (.mul (.mul (.var "rotational_frequency") (.var "nominal_radius")) (.nat 2)) .pi,
     .var "surface_velocity"]),
   ("working_velocity",
    [.mul (.mul (.mul (.div (.var "surface_velocity") (twoPi (.var "nominal_radius"))) (.var "working_radius")) (.nat 2)) .pi,
     .mul (.mul (.mul (.var "rotational_frequency") (.var "working_radius")) (.nat 2)) .pi,
     .div (.var "roll_pass.velocity") (.cos xa),
     .var "working_velocity"])]
def velWrSpec : Spec := ⟨velMembers, velRules, fun _ => velWrForms, 150, 25⟩

def neutralWrWorlds : List GW :=
  [passRoll [gf, xp] ["working_radius"], passRoll [gf, xp] ["nominal_radius", "working_radius"]]
def neutralWrForms : List (String × List Expr) :=
  [("neutral_point", [.mul (.sin (.var "neutral_angle")) (.var "working_radius"), .var "neutral_point"]),
   ("neutral_angle", [.asin (.div (.var "neutral_point") (.var "working_radius")), .var "neutral_angle"])]
def neutralWrSpec : Spec := ⟨neutralMembers, neutralRules, fun _ => neutralWrForms, 150, 25⟩

def pipeForms : List (String × List Expr) :=
  [("inner_radius", [.sqrt (.div (.var "cross_section_area") .pi), .var "inner_radius"]),
   ("cross_section_area", [.mul (.pow (.var "inner_radius") 2) .pi, .var "cross_section_area"])]
def pipeSpec : Spec := ⟨pipeMembers, pipeRules, fun _ => pipeForms, 150, 25⟩

/-- neither member of the width based pair is supplied: the default `target_filling_ratio = 1` applies -/
def widthFree (sup : List String) : Bool := !sup.contains "target_width" && !sup.contains "target_filling_ratio"
/-- neither member of the area based pair is supplied: the area follows from the target width (opaque geometry) -/
def areaFree (sup : List String) : Bool :=
  !sup.contains "target_cross_section_area" && !sup.contains "target_cross_section_filling_ratio"
def targetForms (sup : List String) : List (String × List Expr) :=
  [("target_width", (if widthFree sup then [.mul (.nat 1) (.var "usable_width")] else []) ++
      [.mul (.var "target_filling_ratio") (.var "usable_width"), .var "target_width"]),
   ("target_filling_ratio", (if widthFree sup then [.nat 1] else []) ++
      [.div (.var "target_width") (.var "usable_width"), .var "target_filling_ratio"]),
   ("target_cross_section_area", (if areaFree sup then [.var area2, .var area3] else []) ++
      [.mul (.var "target_cross_section_filling_ratio") (.var "usable_cross_section.area"),
       .var "target_cross_section_area"]),
   ("target_cross_section_filling_ratio",
      (if areaFree sup then [.div (.var area2) (.var "usable_cross_section.area"),
                             .div (.var area3) (.var "usable_cross_section.area")] else []) ++
      [.div (.var "target_cross_section_area") (.var "usable_cross_section.area"),
       .var "target_cross_section_filling_ratio"])]
def targetSpec : Spec := ⟨targetMembers, targetRules, targetForms, 150, 25⟩

def unitForms : List (String × List Expr) :=
  [("length",
    [Expr.mul (Expr.var "in_profile.velocity") (Expr.var "duration"),
     Expr.mul (Expr.var "velocity") (Expr.var "duration"),
     Expr.var "@Transport/length_from_roll_pass_positions",
     Expr.var "length"]),
   ("duration",
    [Expr.div (Expr.var "@Transport/length_from_roll_pass_positions") (Expr.var "@Transport/conti_velocity"),
     Expr.div (Expr.var "length") (Expr.var "@Transport/conti_velocity"),
     Expr.div (Expr.var "@Transport/length_from_roll_pass_positions") (Expr.var "in_profile.velocity"),
     Expr.div (Expr.var "length") (Expr.var "in_profile.velocity"),
     Expr.div (Expr.var "@Transport/length_from_roll_pass_positions") (Expr.var "velocity"),
     Expr.div (Expr.var "length") (Expr.var "velocity"),
     Expr.var "duration"]),
   ("velocity", [Expr.var "@Transport/conti_velocity", Expr.var "in_profile.velocity", Expr.var "velocity"])]
def unitSpec : Spec := ⟨unitMembers, unitRules, fun _ => unitForms, 150, 25⟩

/-! the unit group on a ROLL PASS: the length is the contact length (`exit_point − entry_point`, `exit_point = 0` by
default), the velocity is taken from the roll — `roll.working_velocity · cos(roll.neutral_angle)` whenever the roll HAS a
neutral angle: explicitly set, derivable (from a supplied neutral point; not read yet), or already cached by an earlier
read — and `roll.working_velocity` when it has none.  The roll is another object: its quantities are parameters. -/
def passExt (wv na : Ext) : List (String × Ext) :=
  [("entry_point", .set), ("in_profile", .missing .attr), ("roll", .avail), ("roll.working_velocity", wv),
   ("roll.neutral_angle", na)]
/-- the roll has a neutral angle (set / derivable, not yet read / cached) × it has a working velocity or not × two-, three-roll pass -/
def passUnitNeutralWorlds : List GW :=
  [Ext.avail, .missing .attr].flatMap fun wv => [Ext.set, .avail, .cached].flatMap fun na =>
    [twoRollPass (passExt wv na), threeRollPass (passExt wv na)]
/-- the roll has no neutral angle -/
def passUnitWorlds : List GW :=
  [Ext.avail, .missing .attr].flatMap fun wv =>
    [twoRollPass (passExt wv (.missing .attr)), threeRollPass (passExt wv (.missing .attr))]
def passUnitRules : List (String × List String) :=
  [("exit_point", []), ("length", ["entry_point", "exit_point"]), ("duration", ["length", "velocity"]),
   ("velocity", ["roll.working_velocity"])]
def ep0 : Expr := .add (.neg (.var "entry_point")) (.nat 0)
/-- the pass velocity in the neutral plane -/
def pvN : Expr := .mul (.var "roll.working_velocity") (.cos (.var "roll.neutral_angle"))
def passUnitFormsWith (v : Expr) : List (String × List Expr) :=
  [("length", [ep0, .var "length"]),
   ("duration", [.div ep0 v, .div (.var "length") v, .div ep0 (.var "velocity"), .div (.var "length") (.var "velocity"),
                 .var "duration"]),
   ("velocity", [v, .var "velocity"])]
/-- with a neutral angle the ONLY derived form of the velocity carries the factor `cos(roll.neutral_angle)` -/
def passUnitNeutralSpec : Spec := ⟨unitMembers, passUnitRules, fun _ => passUnitFormsWith pvN, 150, 25⟩
def passUnitSpec : Spec := ⟨unitMembers, passUnitRules, fun _ => passUnitFormsWith (.var "roll.working_velocity"), 150, 25⟩

/-! ## the finite control part — every world × every subset × every read order, evaluated by the kernel -/

set_option maxRecDepth 1000000 in
theorem radius_control : checkAll radiusSpec FUEL radiusWorlds = true := by decide +kernel
set_option maxRecDepth 1000000 in
theorem radius_side_control : checkAll radiusSideSpec FUEL radiusWorlds = true := by decide +kernel
set_option maxRecDepth 1000000 in
theorem vel_control : checkAll velSpec FUEL velWorlds = true := by decide +kernel
set_option maxRecDepth 1000000 in
theorem vel_neutral_control : checkAll velNeutralSpec FUEL velNeutralWorlds = true := by decide +kernel
set_option maxRecDepth 1000000 in
theorem neutral_control : checkAll neutralSpec FUEL neutralWorlds = true := by decide +kernel
set_option maxRecDepth 1000000 in
theorem vel_wr_control : checkAll velWrSpec FUEL velWrWorlds = true := by decide +kernel
set_option maxRecDepth 1000000 in
theorem neutral_wr_control : checkAll neutralWrSpec FUEL neutralWrWorlds = true := by decide +kernel

set_option maxRecDepth 1000000 in
theorem pipe_control : checkAll pipeSpec FUEL pipeWorlds = true := by decide +kernel
set_option maxRecDepth 1000000 in
theorem target_control : checkAll targetSpec FUEL targetWorlds = true := by decide +kernel
set_option maxRecDepth 1000000 in
theorem unit_control : checkAll unitSpec FUEL unitWorlds = true := by decide +kernel

set_option maxRecDepth 1000000 in
theorem pass_unit_neutral_control : checkAll passUnitNeutralSpec FUEL passUnitNeutralWorlds = true := by decide +kernel
set_option maxRecDepth 1000000 in
theorem pass_unit_control : checkAll passUnitSpec FUEL passUnitWorlds = true := by decide +kernel

/-! ## a hook given explicitly as `None` is not supplied (`Hook.__get__` skips a `None` in `__dict__`)

every world × every listed hook given as `None` × every subset of the other members × every read order: the reads give
exactly the results of the object that does not mention the hook (`Mutual.checkNone`).  Listed are hooks the core tests by
VALUE (`has_value`) or not at all; for hooks tested for PRESENCE (`has_set`, `has_set_or_cached`: the radius pair, the pipe
pair, `neutral_angle`, `target_width`, …) a `None` counts as "explicitly set" and the statement is false (examples below). -/
set_option maxRecDepth 1000000 in
theorem vel_none_control : checkNone velMembers FUEL (velWorlds ++ velNeutralWorlds) velMembers = true := by decide +kernel
-- … the quantities the velocities are derived from, on the roll of a pass
set_option maxRecDepth 1000000 in
theorem vel_side_none_control :
    checkNone velMembers FUEL (passRollVelWorlds ++ velNeutralWorlds) ["working_radius", "neutral_point"] = true := by
  decide +kernel
set_option maxRecDepth 1000000 in
theorem neutral_none_control :
    checkNone neutralMembers FUEL neutralWorlds ["neutral_point", "working_radius", "working_velocity"] = true := by
  decide +kernel
set_option maxRecDepth 1000000 in
theorem unit_none_control : checkNone unitMembers FUEL unitWorlds ["duration"] = true := by decide +kernel
set_option maxRecDepth 1000000 in
theorem pass_unit_none_control : checkNone unitMembers FUEL passUnitWorlds ["duration", "exit_point"] = true := by
  decide +kernel
set_option maxRecDepth 1000000 in
theorem target_none_control :
    checkNone targetMembers FUEL [twoRollPass [("usable_width", .avail), ("usable_cross_section.area", .avail), (area2, .avail)]]
      ["target_filling_ratio", "target_cross_section_area"] = true := by decide +kernel

set_option linter.unusedSimpArgs false
set_option linter.unnecessarySeqFocus false
set_option linter.unusedTactic false
set_option linter.unreachableTactic false

/-! ## the algebraic part over ℝ -/

/-- roll radius / diameter: the defining relation -/
structure RadiusConsistent (ρ : String → ℝ) : Prop where
  diameter : ρ "nominal_diameter" = ρ "nominal_radius" * 2

theorem radius_forms_sound (ρ : String → ℝ) (h : RadiusConsistent ρ) :
    ∀ p ∈ radiusForms, ∀ e ∈ p.2, eval ρ e = ρ p.1 := by
  simp only [radiusForms, List.forall_mem_cons, List.not_mem_nil, IsEmpty.forall_iff, implies_true, and_true, eval,
    PyNum.nat_real, h.diameter]
  and_intros <;> push_cast <;> ring

/-- … and `max_radius`: the nominal radius by default, any value when supplied on its own -/
structure RadiusSideConsistent (ρ : String → ℝ) (sup : List String) : Prop where
  diameter : ρ "nominal_diameter" = ρ "nominal_radius" * 2
  default : sup.contains "max_radius" = false → ρ "max_radius" = ρ "nominal_radius"

theorem radius_side_forms_sound (ρ : String → ℝ) (sup : List String) (h : RadiusSideConsistent ρ sup) :
    ∀ p ∈ radiusSideForms sup, ∀ e ∈ p.2, eval ρ e = ρ p.1 := by
  have hd := h.diameter
  unfold radiusSideForms radiusForms
  rcases Bool.eq_false_or_eq_true (sup.contains "max_radius") with hs | hs
  · simp only [hs, List.cons_append, List.nil_append, List.forall_mem_cons, List.not_mem_nil, IsEmpty.forall_iff,
      implies_true, and_true, eval, PyNum.nat_real, if_true, hd]
    and_intros <;> push_cast <;> ring
  · have d := h.default hs
    simp only [hs, List.cons_append, List.nil_append, List.forall_mem_cons, List.not_mem_nil, IsEmpty.forall_iff,
      implies_true, and_true, eval, PyNum.nat_real, if_false, Bool.false_eq_true, hd, d]
    and_intros <;> push_cast <;> ring

/-- rotational frequency / surface velocity / working velocity of a roll (stand-alone, or in a pass without neutral
angle, where the pass velocity refers to the exit angle `asin (exit_point / working_radius)`) -/
structure VelConsistent (ρ : String → ℝ) : Prop where
  diameter : ρ "nominal_diameter" = ρ "nominal_radius" * 2
  radius_pos : 0 < ρ "nominal_radius"
  working_pos : 0 < ρ "nominal_radius" - ρ "groove.groove_factor"
  surface : ρ "surface_velocity" = ρ "rotational_frequency" * ρ "nominal_radius" * 2 * Real.pi
  working : ρ "working_velocity"
      = ρ "rotational_frequency" * (ρ "nominal_radius" - ρ "groove.groove_factor") * 2 * Real.pi
  pass : ρ "roll_pass.velocity" = ρ "working_velocity" *
      Real.cos (Real.arcsin (ρ "roll_pass.exit_point" / (ρ "nominal_radius" - ρ "groove.groove_factor")))
  cos_ne : Real.cos (Real.arcsin (ρ "roll_pass.exit_point" / (ρ "nominal_radius" - ρ "groove.groove_factor"))) ≠ 0

theorem vel_forms_sound (ρ : String → ℝ) (h : VelConsistent ρ) :
    ∀ p ∈ velForms, ∀ e ∈ p.2, eval ρ e = ρ p.1 := by
  have hr := h.radius_pos.ne'
  have hw := h.working_pos.ne'
  have hc := h.cos_ne
  have hpi := Real.pi_ne_zero
  simp only [velForms, List.forall_mem_cons, List.not_mem_nil, IsEmpty.forall_iff, implies_true, and_true, eval,
    PyNum.nat_real, PyNum.pi_real, PyNum.cos_real, PyNum.asin_real, h.diameter, h.pass, h.surface, h.working]
  and_intros <;> push_cast <;> field_simp

/-- … in a pass with the neutral angle given: the pass velocity refers to the neutral angle -/
structure VelNeutralConsistent (ρ : String → ℝ) : Prop where
  radius_pos : 0 < ρ "nominal_radius"
  working_pos : 0 < ρ "nominal_radius" - ρ "groove.groove_factor"
  surface : ρ "surface_velocity" = ρ "rotational_frequency" * ρ "nominal_radius" * 2 * Real.pi
  working : ρ "working_velocity"
      = ρ "rotational_frequency" * (ρ "nominal_radius" - ρ "groove.groove_factor") * 2 * Real.pi
  pass : ρ "roll_pass.velocity" = ρ "working_velocity" * Real.cos (ρ "neutral_angle")
  cos_ne : Real.cos (ρ "neutral_angle") ≠ 0

theorem vel_neutral_forms_sound (ρ : String → ℝ) (h : VelNeutralConsistent ρ) :
    ∀ p ∈ velNeutralForms, ∀ e ∈ p.2, eval ρ e = ρ p.1 := by
  have hr := h.radius_pos.ne'
  have hw := h.working_pos.ne'
  have hc := h.cos_ne
  have hpi := Real.pi_ne_zero
  simp only [velNeutralForms, List.forall_mem_cons, List.not_mem_nil, IsEmpty.forall_iff, implies_true, and_true, eval,
    PyNum.nat_real, PyNum.pi_real, PyNum.cos_real, h.pass, h.surface, h.working]
  and_intros <;> push_cast <;> field_simp

/-- neutral point / neutral angle (the angle in the range of `arcsin`) -/
structure NeutralConsistent (ρ : String → ℝ) : Prop where
  working_pos : 0 < ρ "nominal_radius" - ρ "groove.groove_factor"
  point : ρ "neutral_point" = Real.sin (ρ "neutral_angle") * (ρ "nominal_radius" - ρ "groove.groove_factor")
  angle_lo : -(Real.pi / 2) ≤ ρ "neutral_angle"
  angle_hi : ρ "neutral_angle" ≤ Real.pi / 2

theorem neutral_forms_sound (ρ : String → ℝ) (h : NeutralConsistent ρ) :
    ∀ p ∈ neutralForms, ∀ e ∈ p.2, eval ρ e = ρ p.1 := by
  have hw := h.working_pos.ne'
  simp only [neutralForms, wr, List.forall_mem_cons, List.not_mem_nil, IsEmpty.forall_iff, implies_true, and_true,
    eval, PyNum.sin_real, PyNum.asin_real, h.point]
  rw [mul_div_assoc, div_self hw, mul_one]
  exact ⟨trivial, Real.arcsin_sin h.angle_lo h.angle_hi⟩

/-- … with the working radius given on its own: the relations refer to THAT working radius -/
structure VelWrConsistent (ρ : String → ℝ) : Prop where
  radius_pos : 0 < ρ "nominal_radius"
  working_pos : 0 < ρ "working_radius"
  surface : ρ "surface_velocity" = ρ "rotational_frequency" * ρ "nominal_radius" * 2 * Real.pi
  working : ρ "working_velocity" = ρ "rotational_frequency" * ρ "working_radius" * 2 * Real.pi
  pass : ρ "roll_pass.velocity" = ρ "working_velocity" *
      Real.cos (Real.arcsin (ρ "roll_pass.exit_point" / ρ "working_radius"))
  cos_ne : Real.cos (Real.arcsin (ρ "roll_pass.exit_point" / ρ "working_radius")) ≠ 0

theorem vel_wr_forms_sound (ρ : String → ℝ) (h : VelWrConsistent ρ) :
    ∀ p ∈ velWrForms, ∀ e ∈ p.2, eval ρ e = ρ p.1 := by
  have hr := h.radius_pos.ne'
  have hw := h.working_pos.ne'
  have hc := h.cos_ne
  have hpi := Real.pi_ne_zero
  simp only [velWrForms, xa, twoPi, List.forall_mem_cons, List.not_mem_nil, IsEmpty.forall_iff, implies_true, and_true, eval,
    PyNum.nat_real, PyNum.pi_real, PyNum.cos_real, PyNum.asin_real, h.pass, h.surface, h.working]
  and_intros <;> push_cast <;> field_simp

structure NeutralWrConsistent (ρ : String → ℝ) : Prop where
  working_pos : 0 < ρ "working_radius"
  point : ρ "neutral_point" = Real.sin (ρ "neutral_angle") * ρ "working_radius"
  angle_lo : -(Real.pi / 2) ≤ ρ "neutral_angle"
  angle_hi : ρ "neutral_angle" ≤ Real.pi / 2

theorem neutral_wr_forms_sound (ρ : String → ℝ) (h : NeutralWrConsistent ρ) :
    ∀ p ∈ neutralWrForms, ∀ e ∈ p.2, eval ρ e = ρ p.1 := by
  have hw := h.working_pos.ne'
  simp only [neutralWrForms, List.forall_mem_cons, List.not_mem_nil, IsEmpty.forall_iff, implies_true, and_true,
    eval, PyNum.sin_real, PyNum.asin_real, h.point]
  rw [mul_div_assoc, div_self hw, mul_one]
  exact ⟨trivial, Real.arcsin_sin h.angle_lo h.angle_hi⟩

/-- cooling pipe inner radius / cross-section area -/
structure PipeConsistent (ρ : String → ℝ) : Prop where
  radius_nonneg : 0 ≤ ρ "inner_radius"
  area : ρ "cross_section_area" = ρ "inner_radius" ^ 2 * Real.pi

theorem pipe_forms_sound (ρ : String → ℝ) (h : PipeConsistent ρ) :
    ∀ p ∈ pipeForms, ∀ e ∈ p.2, eval ρ e = ρ p.1 := by
  simp only [pipeForms, List.forall_mem_cons, List.not_mem_nil, IsEmpty.forall_iff, implies_true, and_true,
    eval, PyNum.sqrt_real, PyNum.pi_real, PyNum.npow_real', h.area]
  rw [mul_div_assoc, div_self Real.pi_ne_zero, mul_one]
  exact Real.sqrt_sq h.radius_nonneg

/-- target width / filling ratio and target cross-section area / its filling ratio, for the supplied set `sup`:
the two defining relations; the documented default (`target_filling_ratio = 1`) when neither member of the width pair
is supplied; and the area following from the target width (an external, opaque geometric quantity) when neither
member of the area pair is supplied -/
structure TargetConsistent (ρ : String → ℝ) (sup : List String) : Prop where
  width_ne : ρ "usable_width" ≠ 0
  area_ne : ρ "usable_cross_section.area" ≠ 0
  width : ρ "target_width" = ρ "target_filling_ratio" * ρ "usable_width"
  area : ρ "target_cross_section_area" = ρ "target_cross_section_filling_ratio" * ρ "usable_cross_section.area"
  default : widthFree sup = true → ρ "target_filling_ratio" = 1
  from_width : areaFree sup = true →
    ρ area2 = ρ "target_cross_section_area" ∧ ρ area3 = ρ "target_cross_section_area"

theorem target_forms_sound (ρ : String → ℝ) (sup : List String) (h : TargetConsistent ρ sup) :
    ∀ p ∈ targetForms sup, ∀ e ∈ p.2, eval ρ e = ρ p.1 := by
  have hw := h.width_ne
  have ha := h.area_ne
  have e1 := h.width
  have e2 := h.area
  unfold targetForms
  rcases Bool.eq_false_or_eq_true (widthFree sup) with hwf | hwf <;>
    rcases Bool.eq_false_or_eq_true (areaFree sup) with haf | haf
  · have d := h.default hwf
    obtain ⟨f2, f3⟩ := h.from_width haf
    simp only [hwf, haf, List.forall_mem_cons, List.not_mem_nil, IsEmpty.forall_iff, implies_true, and_true, eval,
      PyNum.nat_real, if_true, List.cons_append, List.nil_append, e1, e2, d, f2, f3]
    and_intros <;> (try push_cast) <;> (try field_simp)
  · have d := h.default hwf
    simp only [hwf, haf, List.forall_mem_cons, List.not_mem_nil, IsEmpty.forall_iff, implies_true, and_true, eval,
      PyNum.nat_real, if_true, if_false, Bool.false_eq_true, List.cons_append, List.nil_append, e1, e2, d]
    and_intros <;> (try push_cast) <;> (try field_simp)
  · obtain ⟨f2, f3⟩ := h.from_width haf
    simp only [hwf, haf, List.forall_mem_cons, List.not_mem_nil, IsEmpty.forall_iff, implies_true, and_true, eval,
      PyNum.nat_real, if_true, if_false, Bool.false_eq_true, List.cons_append, List.nil_append, e1, e2, f2, f3]
    and_intros <;> (try push_cast) <;> (try field_simp)
  · simp only [hwf, haf, List.forall_mem_cons, List.not_mem_nil, IsEmpty.forall_iff, implies_true, and_true, eval,
      PyNum.nat_real, if_false, Bool.false_eq_true, List.cons_append, List.nil_append, e1, e2]
    and_intros <;> (try push_cast) <;> (try field_simp)

/-- unit length / duration / velocity on a transport; the quantities taken from the surroundings describe the same
situation: the in-profile's and the predecessor's velocity are the unit's velocity, the distance of the enclosing
roll passes is the unit's length -/
structure UnitConsistent (ρ : String → ℝ) : Prop where
  velocity_pos : 0 < ρ "velocity"
  length : ρ "length" = ρ "velocity" * ρ "duration"
  in_profile : ρ "in_profile.velocity" = ρ "velocity"
  conti : ρ conti = ρ "velocity"
  positions : ρ positions = ρ "length"

theorem unit_forms_sound (ρ : String → ℝ) (h : UnitConsistent ρ) :
    ∀ p ∈ unitForms, ∀ e ∈ p.2, eval ρ e = ρ p.1 := by
  have hv := h.velocity_pos.ne'
  have e1 := h.in_profile
  have e2 := h.conti
  have e3 := h.positions
  simp only [conti, positions] at e2 e3
  simp only [unitForms, List.forall_mem_cons, List.not_mem_nil, IsEmpty.forall_iff, implies_true, and_true, eval,
    e1, e2, e3, h.length]
  and_intros <;> first | trivial | field_simp

/-- the unit group on a roll pass whose velocity comes from the roll (`v` = the value the roll provides: working velocity
times the cosine of the neutral angle, or the working velocity when the roll has no neutral angle); the length is the
contact length -/
structure PassUnitConsistent (ρ : String → ℝ) (v : ℝ) : Prop where
  velocity_pos : 0 < ρ "velocity"
  length : ρ "length" = ρ "velocity" * ρ "duration"
  contact : ρ "length" = -ρ "entry_point"
  pass : ρ "velocity" = v

theorem pass_unit_forms_sound (ρ : String → ℝ) (v : Expr) (h : PassUnitConsistent ρ (eval ρ v)) :
    ∀ p ∈ passUnitFormsWith v, ∀ e ∈ p.2, eval ρ e = ρ p.1 := by
  have hv := h.velocity_pos.ne'
  have e1 : ρ "entry_point" = -(ρ "velocity" * ρ "duration") := by rw [← h.length, h.contact]; ring
  have e2 := h.pass.symm
  simp only [passUnitFormsWith, ep0, List.forall_mem_cons, List.not_mem_nil, IsEmpty.forall_iff, implies_true, and_true, eval,
    PyNum.nat_real, e1, e2, h.length]
  and_intros <;> push_cast <;> first | trivial | (field_simp; done) | (ring1) | (field_simp; ring1)

/-! ## the group theorems -/

/-- roll `nominal_radius` / `nominal_diameter` (stand-alone roll and roll of a pass) -/
theorem radius_consistent (ρ : String → ℝ) (h : RadiusConsistent ρ) :
    GroupConsistent radiusSpec FUEL radiusWorlds ρ (fun _ => True) :=
  groupConsistent_of radius_control (fun _ _ _ => radius_forms_sound ρ h)

/-- … on rolls with and without an own `max_radius` (every subset of {nominal_radius, nominal_diameter, max_radius}
supplied, the three read in every order): radius and diameter read THE consistent values — never anything that depends
on `max_radius` —, and `max_radius` reads the nominal radius exactly when it is not supplied itself -/
theorem radius_side_consistent (ρ : String → ℝ) :
    GroupConsistent radiusSideSpec FUEL radiusWorlds ρ (fun sup => RadiusSideConsistent ρ sup) :=
  groupConsistent_of radius_side_control (fun sup _ h => radius_side_forms_sound ρ sup h)

/-- `rotational_frequency` / `surface_velocity` / `working_velocity`: stand-alone roll with the radius given as
`nominal_radius`, as `nominal_diameter` or not at all; roll of a pass whose velocity is / is not set -/
theorem vel_consistent (ρ : String → ℝ) (h : VelConsistent ρ) :
    GroupConsistent velSpec FUEL velWorlds ρ (fun _ => True) :=
  groupConsistent_of vel_control (fun _ _ _ => vel_forms_sound ρ h)

theorem vel_neutral_consistent (ρ : String → ℝ) (h : VelNeutralConsistent ρ) :
    GroupConsistent velNeutralSpec FUEL velNeutralWorlds ρ (fun _ => True) :=
  groupConsistent_of vel_neutral_control (fun _ _ _ => vel_neutral_forms_sound ρ h)

/-- `neutral_point` / `neutral_angle` of the roll of a pass (with and without a radius) -/
theorem neutral_consistent (ρ : String → ℝ) (h : NeutralConsistent ρ) :
    GroupConsistent neutralSpec FUEL neutralWorlds ρ (fun _ => True) :=
  groupConsistent_of neutral_control (fun _ _ _ => neutral_forms_sound ρ h)

/-- the velocity group and the neutral pair on rolls whose `working_radius` is given explicitly (with or without a
nominal radius): every derived value refers to the given working radius -/
theorem vel_wr_consistent (ρ : String → ℝ) (h : VelWrConsistent ρ) :
    GroupConsistent velWrSpec FUEL velWrWorlds ρ (fun _ => True) :=
  groupConsistent_of vel_wr_control (fun _ _ _ => vel_wr_forms_sound ρ h)

theorem neutral_wr_consistent (ρ : String → ℝ) (h : NeutralWrConsistent ρ) :
    GroupConsistent neutralWrSpec FUEL neutralWrWorlds ρ (fun _ => True) :=
  groupConsistent_of neutral_wr_control (fun _ _ _ => neutral_wr_forms_sound ρ h)

/-- cooling pipe `inner_radius` / `cross_section_area` -/
theorem pipe_consistent (ρ : String → ℝ) (h : PipeConsistent ρ) :
    GroupConsistent pipeSpec FUEL pipeWorlds ρ (fun _ => True) :=
  groupConsistent_of pipe_control (fun _ _ _ => pipe_forms_sound ρ h)

/-- `target_width` / `target_filling_ratio` / `target_cross_section_area` / `target_cross_section_filling_ratio`
of two- and three-roll passes -/
theorem target_consistent (ρ : String → ℝ) :
    GroupConsistent targetSpec FUEL targetWorlds ρ (fun sup => TargetConsistent ρ sup) :=
  groupConsistent_of target_control (fun sup _ h => target_forms_sound ρ sup h)

/-- unit `length` / `duration` / `velocity` on a transport: in-profile absent / without / with velocity ×
predecessor's velocity available / no predecessor / predecessor without velocity × enclosed by located passes or not -/
theorem unit_consistent (ρ : String → ℝ) (h : UnitConsistent ρ) :
    GroupConsistent unitSpec FUEL unitWorlds ρ (fun _ => True) :=
  groupConsistent_of unit_control (fun _ _ _ => unit_forms_sound ρ h)

/-- unit `length` / `duration` / `velocity` on a two- / three-roll pass whose roll HAS a neutral angle — explicitly set,
derivable from a supplied neutral point and not read yet, or cached by an earlier read — : the derived pass velocity is
`roll.working_velocity · cos(roll.neutral_angle)` in every one of these situations and every read order -/
theorem pass_unit_neutral_consistent (ρ : String → ℝ)
    (h : PassUnitConsistent ρ (ρ "roll.working_velocity" * Real.cos (ρ "roll.neutral_angle"))) :
    GroupConsistent passUnitNeutralSpec FUEL passUnitNeutralWorlds ρ (fun _ => True) :=
  groupConsistent_of pass_unit_neutral_control (fun _ _ _ => pass_unit_forms_sound ρ pvN
    (by simpa only [pvN, eval, PyNum.cos_real] using h))

/-- … whose roll has no neutral angle: the pass velocity is the roll's working velocity (`exit_point = 0`) -/
theorem pass_unit_consistent (ρ : String → ℝ) (h : PassUnitConsistent ρ (ρ "roll.working_velocity")) :
    GroupConsistent passUnitSpec FUEL passUnitWorlds ρ (fun _ => True) :=
  groupConsistent_of pass_unit_control (fun _ _ _ => pass_unit_forms_sound ρ (.var "roll.working_velocity")
    (by simpa only [eval] using h))

/-! ## given as `None` = not supplied -/

/-- roll `rotational_frequency` / `surface_velocity` / `working_velocity` (stand-alone roll, roll of a pass with / without
pass velocity, with / without neutral angle): a member given as `None` (`Roll(surface_velocity=s, working_velocity=None)`)
changes nothing — every read gives what it gives on the roll that does not mention the member -/
theorem vel_none_is_not_supplied : NoneIsAbsent velMembers FUEL (velWorlds ++ velNeutralWorlds) velMembers :=
  noneIsAbsent_of vel_none_control
theorem vel_side_none_is_not_supplied :
    NoneIsAbsent velMembers FUEL (passRollVelWorlds ++ velNeutralWorlds) ["working_radius", "neutral_point"] :=
  noneIsAbsent_of vel_side_none_control
theorem neutral_none_is_not_supplied :
    NoneIsAbsent neutralMembers FUEL neutralWorlds ["neutral_point", "working_radius", "working_velocity"] :=
  noneIsAbsent_of neutral_none_control
theorem unit_none_is_not_supplied : NoneIsAbsent unitMembers FUEL unitWorlds ["duration"] :=
  noneIsAbsent_of unit_none_control
theorem pass_unit_none_is_not_supplied : NoneIsAbsent unitMembers FUEL passUnitWorlds ["duration", "exit_point"] :=
  noneIsAbsent_of pass_unit_none_control
theorem target_none_is_not_supplied :
    NoneIsAbsent targetMembers FUEL [twoRollPass [("usable_width", .avail), ("usable_cross_section.area", .avail), (area2, .avail)]]
      ["target_filling_ratio", "target_cross_section_area"] :=
  noneIsAbsent_of target_none_control

-- hooks tested for PRESENCE: both members of the radius pair given as `None` — the two implementations call each other
-- until the fuel is used up (observed on the implementation: RecursionError, converted to AttributeError)
set_option maxRecDepth 1000000 in
example : (scenarioN (roll [gf] []).world FUEL [] ["nominal_radius", "nominal_diameter"] ["nominal_radius"]).1.map (·.res)
    = [.err .fuel] := by decide +kernel
-- … `target_width = None`: the default filling ratio no longer applies
set_option maxRecDepth 1000000 in
example : checkNone targetMembers FUEL targetWorlds ["target_width"] = false := by decide +kernel

/-! ## too little supplied: AttributeError in bounded time -/

/-- every group, every world, every subset, every read order, every fuel ≥ 400: each read finishes within 150 machine
steps and 25 stack frames — far below anything that could exhaust Python's recursion limit —, never runs out of fuel,
fails with AttributeError exactly when the member does not follow from what is supplied, and leaves no mark behind -/
theorem insufficient_is_attribute_error_bounded :
    InsufficientBounded radiusSpec FUEL radiusWorlds 150 25 ∧
    InsufficientBounded radiusSideSpec FUEL radiusWorlds 150 25 ∧
    InsufficientBounded velSpec FUEL velWorlds 150 25 ∧
    InsufficientBounded velNeutralSpec FUEL velNeutralWorlds 150 25 ∧
    InsufficientBounded neutralSpec FUEL neutralWorlds 150 25 ∧
    InsufficientBounded velWrSpec FUEL velWrWorlds 150 25 ∧
    InsufficientBounded neutralWrSpec FUEL neutralWrWorlds 150 25 ∧
    InsufficientBounded pipeSpec FUEL pipeWorlds 150 25 ∧
    InsufficientBounded targetSpec FUEL targetWorlds 150 25 ∧
    InsufficientBounded unitSpec FUEL unitWorlds 150 25 ∧
    InsufficientBounded passUnitNeutralSpec FUEL passUnitNeutralWorlds 150 25 ∧
    InsufficientBounded passUnitSpec FUEL passUnitWorlds 150 25 :=
  ⟨insufficientBounded_of radius_control (le_refl _) (le_refl _),
   insufficientBounded_of radius_side_control (le_refl _) (le_refl _),
   insufficientBounded_of vel_control (le_refl _) (le_refl _),
   insufficientBounded_of vel_neutral_control (le_refl _) (le_refl _),
   insufficientBounded_of neutral_control (le_refl _) (le_refl _),
   insufficientBounded_of vel_wr_control (le_refl _) (le_refl _),
   insufficientBounded_of neutral_wr_control (le_refl _) (le_refl _),
   insufficientBounded_of pipe_control (le_refl _) (le_refl _),
   insufficientBounded_of target_control (le_refl _) (le_refl _),
   insufficientBounded_of unit_control (le_refl _) (le_refl _),
   insufficientBounded_of pass_unit_neutral_control (le_refl _) (le_refl _),
   insufficientBounded_of pass_unit_control (le_refl _) (le_refl _)⟩

-- the empty subset really is insufficient (non-vacuity): nothing is derivable, e.g. on a bare roll
set_option maxRecDepth 100000 in
example : derivable velSpec (roll [gf] []) [] "working_velocity" = false := by decide +kernel
set_option maxRecDepth 100000 in
example : derivable unitSpec (transport ([("in_profile", .avail), ("in_profile.velocity", .missing .attr)] ++
    [(conti, .none), (positions, .none)])) ["duration"] "length" = false := by decide +kernel
-- … and a sufficient one is (F12's input: radius and surface velocity)
set_option maxRecDepth 100000 in
example : derivable velSpec (roll [gf] ["nominal_radius"]) ["surface_velocity"] "working_velocity" = true := by
  decide +kernel
-- the kernel-evaluated run behind F12's input, `working_velocity` read FIRST
set_option maxRecDepth 100000 in
example : ((scenario (roll [gf] ["nominal_radius"]).world FUEL ["nominal_radius", "surface_velocity"]
      ["working_velocity", "rotational_frequency", "surface_velocity"]).1.map (·.res)) =
    [.val (.mul (.mul (.mul (.div (.var "surface_velocity") (.mul (.mul (.nat 2) .pi) (.var "nominal_radius")))
        (.sub (.var "nominal_radius") (.var "groove.groove_factor"))) (.nat 2)) .pi),
     .val (.div (.var "surface_velocity") (.mul (.mul (.nat 2) .pi) (.var "nominal_radius"))),
     .val (.var "surface_velocity")] := by decide +kernel

/-! ## round trips: a derived value supplied to a fresh object reproduces the original

Composition of the formulas of the generated table over ℝ: `upd ρ n x` is the fresh object's assignment in which the
member `n` carries the derived value `x`. (That the fresh object really evaluates that formula is the control part.) -/

def upd (ρ : String → ℝ) (n : String) (x : ℝ) : String → ℝ := fun k => if k = n then x else ρ k

theorem radius_roundtrip (ρ : String → ℝ) :
    eval (upd ρ "nominal_diameter" (eval ρ roll_nominal_diameter_e)) roll_nominal_radius_e = ρ "nominal_radius" ∧
    eval (upd ρ "nominal_radius" (eval ρ roll_nominal_radius_e)) roll_nominal_diameter_e = ρ "nominal_diameter" := by
  simp [roll_nominal_diameter_e, roll_nominal_radius_e, eval, upd]

theorem pipe_roundtrip (ρ : String → ℝ) (hr : 0 ≤ ρ "inner_radius") (hA : 0 ≤ ρ "cross_section_area") :
    eval (upd ρ "cross_section_area" (eval ρ pipe_cross_section_area_e)) pipe_inner_radius_e = ρ "inner_radius" ∧
    eval (upd ρ "inner_radius" (eval ρ pipe_inner_radius_e)) pipe_cross_section_area_e = ρ "cross_section_area" := by
  constructor
  · simp only [pipe_cross_section_area_e, pipe_inner_radius_e, eval, upd, PyNum.sqrt_real, PyNum.pi_real,
      PyNum.npow_real', if_true]
    rw [mul_div_assoc, div_self Real.pi_ne_zero, mul_one]
    exact Real.sqrt_sq hr
  · simp only [pipe_cross_section_area_e, pipe_inner_radius_e, eval, upd, PyNum.sqrt_real, PyNum.pi_real,
      PyNum.npow_real', if_true]
    rw [Real.sq_sqrt (div_nonneg hA Real.pi_pos.le)]
    field_simp

theorem neutral_roundtrip (ρ : String → ℝ) (hw : ρ "working_radius" ≠ 0)
    (ha : -(Real.pi / 2) ≤ ρ "neutral_angle" ∧ ρ "neutral_angle" ≤ Real.pi / 2)
    (hp : -1 ≤ ρ "neutral_point" / ρ "working_radius" ∧ ρ "neutral_point" / ρ "working_radius" ≤ 1) :
    eval (upd ρ "neutral_point" (eval ρ rproll_neutral_point_e)) rproll_neutral_angle_e = ρ "neutral_angle" ∧
    eval (upd ρ "neutral_angle" (eval ρ rproll_neutral_angle_e)) rproll_neutral_point_e = ρ "neutral_point" := by
  constructor
  · simp only [rproll_neutral_point_e, rproll_neutral_angle_e, eval, upd, PyNum.sin_real, PyNum.asin_real, if_true]
    simp only [show ("working_radius" = "neutral_point") = False by decide, if_false]
    rw [mul_div_assoc, div_self hw, mul_one]
    exact Real.arcsin_sin ha.1 ha.2
  · simp only [rproll_neutral_point_e, rproll_neutral_angle_e, eval, upd, PyNum.sin_real, PyNum.asin_real, if_true]
    simp only [show ("working_radius" = "neutral_angle") = False by decide, if_false]
    rw [Real.sin_arcsin hp.1 hp.2]
    field_simp

theorem vel_roundtrip (ρ : String → ℝ) (hr : ρ "nominal_radius" ≠ 0) (hw : ρ "working_radius" ≠ 0) :
    eval (upd ρ "surface_velocity" (eval ρ roll_surface_velocity_e)) roll_rotational_frequency_from_surface_velocity_e
      = ρ "rotational_frequency" ∧
    eval (upd ρ "working_velocity" (eval ρ roll_working_velocity_e)) roll_rotational_frequency_from_working_velocity_e
      = ρ "rotational_frequency" ∧
    eval (upd ρ "rotational_frequency" (eval ρ roll_rotational_frequency_from_surface_velocity_e)) roll_surface_velocity_e
      = ρ "surface_velocity" ∧
    eval (upd ρ "rotational_frequency" (eval ρ roll_rotational_frequency_from_working_velocity_e)) roll_working_velocity_e
      = ρ "working_velocity" := by
  have hpi := Real.pi_ne_zero
  refine ⟨?_, ?_, ?_, ?_⟩ <;>
    simp [roll_surface_velocity_e, roll_working_velocity_e, roll_rotational_frequency_from_surface_velocity_e,
      roll_rotational_frequency_from_working_velocity_e, eval, upd] <;> field_simp

theorem target_roundtrip (ρ : String → ℝ) (hw : ρ "usable_width" ≠ 0) (ha : ρ "usable_cross_section.area" ≠ 0) :
    eval (upd ρ "target_filling_ratio" (eval ρ brp_target_filling_ratio_from_target_width_e))
      brp_target_width_from_target_filling_ratio_e = ρ "target_width" ∧
    eval (upd ρ "target_width" (eval ρ brp_target_width_from_target_filling_ratio_e))
      brp_target_filling_ratio_from_target_width_e = ρ "target_filling_ratio" ∧
    eval (upd ρ "target_cross_section_filling_ratio"
        (eval ρ brp_target_cross_section_filling_ratio_from_target_cross_section_area_e))
      brp_target_cross_section_area_from_target_cross_section_filling_ratio_e = ρ "target_cross_section_area" ∧
    eval (upd ρ "target_cross_section_area"
        (eval ρ brp_target_cross_section_area_from_target_cross_section_filling_ratio_e))
      brp_target_cross_section_filling_ratio_from_target_cross_section_area_e
        = ρ "target_cross_section_filling_ratio" := by
  refine ⟨?_, ?_, ?_, ?_⟩ <;>
    simp [brp_target_filling_ratio_from_target_width_e, brp_target_width_from_target_filling_ratio_e,
      brp_target_cross_section_filling_ratio_from_target_cross_section_area_e,
      brp_target_cross_section_area_from_target_cross_section_filling_ratio_e, eval, upd] <;> field_simp

theorem unit_roundtrip (ρ : String → ℝ) (hv : ρ "velocity" ≠ 0) :
    eval (upd ρ "duration" (eval ρ unit_duration_e)) unit_length_e = ρ "length" ∧
    eval (upd ρ "length" (eval ρ unit_length_e)) unit_duration_e = ρ "duration" ∧
    eval (upd ρ "length" (eval ρ unit_length_e)) transport_duration_e = ρ "duration" := by
  refine ⟨?_, ?_, ?_⟩ <;> simp [unit_duration_e, unit_length_e, transport_duration_e, eval, upd] <;> field_simp

/-- over TWO objects: the pass velocity derived from the roll's working velocity and neutral angle
(`SymmetricRollPass.velocity`, read with the roll's values), supplied as the velocity of a fresh pass whose roll has the same
neutral angle, gives back the working velocity (`BaseRollPass.Roll.working_velocity`) -/
theorem pass_velocity_roundtrip (ρ : String → ℝ) (hc : Real.cos (ρ "neutral_angle") ≠ 0) :
    eval (upd ρ "roll_pass.velocity"
        (eval (fun n => if n = "roll.working_velocity" then ρ "working_velocity"
                        else if n = "roll.neutral_angle" then ρ "neutral_angle" else ρ n) srp_velocity_e))
      rproll_working_velocity_e = ρ "working_velocity" := by
  simp [srp_velocity_e, rproll_working_velocity_e, eval, upd]
  field_simp

/-! ## non-vacuity: assignments satisfying the hypotheses -/

example : RadiusConsistent (fun n => if n = "nominal_diameter" then 4 else 2) := by
  constructor <;> simp +decide <;> norm_num
example : RadiusSideConsistent (fun n => if n = "nominal_diameter" then 4 else if n = "max_radius" then 3 else 2)
    ["nominal_radius", "max_radius"] := by
  constructor <;> simp +decide <;> norm_num
example : RadiusSideConsistent (fun n => if n = "nominal_diameter" then 4 else 2) ["nominal_diameter"] := by
  constructor <;> simp +decide <;> norm_num
example : PipeConsistent (fun n => if n = "cross_section_area" then 2 ^ 2 * Real.pi else 2) := by
  constructor <;> simp +decide
example : UnitConsistent (fun n => if n = "length" then 6 else if n = "@Transport/length_from_roll_pass_positions" then 6
    else if n = "duration" then 3 else 2) := by
  constructor <;> simp +decide [conti, positions] <;> norm_num
example : TargetConsistent (fun n => if n = "target_filling_ratio" then 1 else if n = "target_cross_section_filling_ratio"
    then 1 else 3) [] := by
  constructor <;> simp +decide [area2, area3]
example : NeutralConsistent (fun n => if n = "nominal_radius" then 2 else if n = "groove.groove_factor" then 1 else 0) := by
  constructor <;> simp +decide <;> positivity
example : VelConsistent (fun n => if n = "nominal_radius" then 2 else if n = "nominal_diameter" then 4
    else if n = "groove.groove_factor" then 1 else if n = "rotational_frequency" then 1
    else if n = "surface_velocity" then 1 * 2 * 2 * Real.pi else if n = "working_velocity" then 1 * (2 - 1) * 2 * Real.pi
    else if n = "roll_pass.velocity" then 1 * (2 - 1) * 2 * Real.pi else 0) := by
  constructor <;> simp +decide <;> norm_num
example : VelNeutralConsistent (fun n => if n = "nominal_radius" then 2
    else if n = "groove.groove_factor" then 1 else if n = "rotational_frequency" then 1
    else if n = "surface_velocity" then 1 * 2 * 2 * Real.pi else if n = "working_velocity" then 1 * (2 - 1) * 2 * Real.pi
    else if n = "roll_pass.velocity" then 1 * (2 - 1) * 2 * Real.pi else 0) := by
  constructor <;> simp +decide <;> norm_num

example : PassUnitConsistent (fun n => if n = "length" then 6 else if n = "entry_point" then -6
    else if n = "duration" then 3 else if n = "roll.neutral_angle" then 0 else 2)
    ((fun n => if n = "length" then (6 : ℝ) else if n = "entry_point" then -6
    else if n = "duration" then 3 else if n = "roll.neutral_angle" then 0 else 2) "roll.working_velocity" * Real.cos 0) := by
  constructor <;> simp +decide <;> norm_num
-- the roll has a neutral angle it has not been asked for yet (derivable from the neutral point): the velocity carries the cosine
set_option maxRecDepth 100000 in
example : ((scenario (twoRollPass (passExt .avail .avail)).world FUEL [] ["velocity"]).1.map (·.res)) = [.val pvN] := by
  decide +kernel
example : NeutralWrConsistent (fun n => if n = "working_radius" then 1 else 0) := by
  constructor <;> simp +decide <;> positivity
example : VelWrConsistent (fun n => if n = "nominal_radius" then 2 else if n = "working_radius" then 3
    else if n = "rotational_frequency" then 1
    else if n = "surface_velocity" then 1 * 2 * 2 * Real.pi else if n = "working_velocity" then 1 * 3 * 2 * Real.pi
    else if n = "roll_pass.velocity" then 1 * 3 * 2 * Real.pi else 0) := by
  constructor <;> simp +decide <;> norm_num
-- a roll given only its working radius: the working velocity follows from the rotational frequency, the surface velocity does not
set_option maxRecDepth 100000 in
example : derivable velWrSpec (roll [gf] ["working_radius"]) ["rotational_frequency"] "working_velocity" = true ∧
    derivable velWrSpec (roll [gf] ["working_radius"]) ["rotational_frequency"] "surface_velocity" = false := by
  decide +kernel

end C16
