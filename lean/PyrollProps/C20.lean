import PyrollProofs.ConfigLemmas

/-!
# C20 — configuration values resolve as explicit value, else environment, else default; parsing; bulk update

Model: `PyrollModel/Config.lean`, an interpreter of the description `Config.src` of `pyroll/core/config.py` whose fields
are the constants of `PyrollModel/Gen/C20.lean` — regenerated from the source on every run by
`driver/translate/c20_config.py` (branch order of `ConfigValue.parse`, bool tests, enum `try/except` chain, separators and
`strip` calls, order of the sources of `__get__`, `env_var` format, whether `ConfigMeta.update` raises).  The model is
also run against the implementation by `driver/props/c20.py`.  Every theorem below is about `src`: a source change that
alters one of those decisions changes `src` and the theorem that no longer follows stops building.

Only property theorems (and their non-vacuity examples) live here; helper lemmas are in `PyrollProofs/ConfigLemmas.lean`.
-/

namespace Config

/-! ## Resolution: explicit value, else environment (parsed), else default -/

/-- `(env >>= parse) <|> default` -/
def fromEnv (P : Parsers) (cv : CV) (e : Option Text) : Except Err V :=
  match e with
  | some t => parse src P cv t
  | none => .ok cv.default

/-- the property's reading of a configuration value: the explicitly assigned value (`None` counts as "not assigned"),
else the environment text parsed (a parse error propagates), else the default -/
def resolve (P : Parsers) (cv : CV) (x : Option V) (e : Option Text) : Except Err V :=
  match x with
  | some v => if v = .none then fromEnv P cv e else .ok v
  | none => fromEnv P cv e

/-- reading a value in ANY state is `explicit <|> (env >>= parse) <|> default` -/
theorem get_refines (P : Parsers) (cv : CV) (s : State) :
    get src P cv s = resolve P cv (s.explicit (cv.cls, cv.name)) (s.env (envName src cv)) := by
  simp only [get, src, Gen.C20.getOrder, getFrom, resolve, fromEnv]
  cases s.explicit (cv.cls, cv.name) with
  | none => cases s.env _ <;> rfl
  | some v =>
    by_cases hv : v = .none
    · subst hv; cases s.env _ <;> simp
    · cases s.env _ <;> simp [hv]

/-- … and after EVERY history of assign / delete / setenv / unsetenv / update (failed operations included) the value read
is determined by the most recent write to its slot and the most recent write to its environment variable
(`lastWrite`, `lastEnvWrite` scan the history from its end; they do not run the model) -/
theorem get_after_history (P : Parsers) (D : List CV) (cv : CV) (s : State) (h : List Op) :
    get src P cv (run src D s h) =
      resolve P cv
        (pick (lastWrite D (cv.cls, cv.name) h.reverse) (s.explicit (cv.cls, cv.name)))
        (pick (lastEnvWrite (envName src cv) h.reverse) (s.env (envName src cv))) := by
  rw [get_refines, explicit_run, env_run]

/-- a declared integer value `A` (default 7) of class 0 with prefix `P` -/
def exA : CV := ⟨0, ['A'], .int 7, .int, none, [], ['P'], ['m']⟩
/-- a boolean value `F` (default true) of the same class -/
def exF : CV := ⟨0, ['F'], .bool true, .bool, none, [], ['P'], ['m']⟩
def exD : List CV := [exA, exF]
def noParsers : Parsers := fun _ _ => .error .other

-- non-vacuity: environment 12, explicit 0 wins, delete restores 12, unsetenv restores 7; a failed delete and a rejected
-- update in between change nothing
example : get src noParsers exA (run src exD State.init
    [.setenv ['P', '_', 'A'] ['1', '2'], .assign 0 ['A'] (.int 0)]) = .ok (.int 0) := by decide
example : get src noParsers exA (run src exD State.init
    [.setenv ['P', '_', 'A'] ['1', '2'], .assign 0 ['A'] (.int 0), .delete 0 ['A'], .delete 0 ['A'],
     .update 0 [(['Z'], .int 1), (['A'], .int 3)]]) = .ok (.int 12) := by decide
example : get src noParsers exA (run src exD State.init
    [.setenv ['P', '_', 'A'] ['1', '2'], .assign 0 ['A'] (.int 0), .delete 0 ['A'], .unsetenv ['P', '_', 'A']])
    = .ok (.int 7) := by decide
example : get src noParsers exA (run src exD State.init [.setenv ['P', '_', 'A'] ['x']]) = .error .valueError := by
  decide

/-- an explicitly assigned value that is not `None` is what is read — whatever the environment and the default are;
in particular the falsy values `0`, `False`, `""`, `[]` -/
theorem falsy_explicit_honoured (P : Parsers) (D : List CV) (cv : CV) (s : State) (v : V)
    (hk : known D cv.cls cv.name = true) (hv : v ≠ .none) :
    get src P cv (step src D s (.assign cv.cls cv.name v)).1 = .ok v := by
  rw [get_refines, step_explicit]
  simp [writeOf, hk, resolve, hv, pick]

example : get src noParsers exA (step src exD ⟨fun _ => none, fun _ => some ['1', '2']⟩ (.assign 0 ['A'] (.int 0))).1
    = .ok (.int 0) := by decide
example : get src noParsers exF (step src exD ⟨fun _ => none, fun _ => some ['t', 'r', 'u', 'e']⟩
    (.assign 0 ['F'] (.bool false))).1 = .ok (.bool false) := by decide
example : get src noParsers exA (step src exD State.init (.assign 0 ['A'] (.str []))).1 = .ok (.str []) := by decide
example : get src noParsers exA (step src exD State.init (.assign 0 ['A'] (.list []))).1 = .ok (.list []) := by decide

/-- changing the environment does not change a value that is explicitly assigned -/
theorem explicit_survives_env_change (P : Parsers) (D : List CV) (cv : CV) (s : State) (v : V) (op : Op)
    (hx : s.explicit (cv.cls, cv.name) = some v) (hv : v ≠ .none)
    (hop : (∃ x t, op = .setenv x t) ∨ (∃ x, op = .unsetenv x)) :
    get src P cv (step src D s op).1 = .ok v := by
  rw [get_refines, step_explicit]
  rcases hop with ⟨x, t, rfl⟩ | ⟨x, rfl⟩ <;> simp [writeOf, hx, resolve, hv, pick]

/-- deleting the explicit value restores the next source: the environment if the variable is set, else the default -/
theorem delete_restores_next (P : Parsers) (D : List CV) (cv : CV) (s : State) (v : V)
    (hx : s.explicit (cv.cls, cv.name) = some v) :
    (step src D s (.delete cv.cls cv.name)).2 = .ok ∧
    get src P cv (step src D s (.delete cv.cls cv.name)).1 = fromEnv P cv (s.env (envName src cv)) := by
  refine ⟨by simp [step, hx], ?_⟩
  rw [get_refines, step_explicit, step_env]
  simp [writeOf, envWriteOf, resolve, pick]

example : get src noParsers exA (step src exD ⟨fun _ => some (.int 0), fun _ => some ['1', '2']⟩ (.delete 0 ['A'])).1
    = .ok (.int 12) := by decide
example : get src noParsers exA (step src exD ⟨fun _ => some (.int 0), fun _ => none⟩ (.delete 0 ['A'])).1
    = .ok (.int 7) := by decide

/-- deleting a value that is not assigned raises `AttributeError` and changes nothing -/
theorem delete_unset_raises (D : List CV) (s : State) (c : Nat) (n : Text) (hx : s.explicit (c, n) = none) :
    step src D s (.delete c n) = (s, .err .attributeError) := by
  simp [step, hx]

/-- setting the variable of a value without explicit value makes it read the parsed text; removing it, the default -/
theorem env_change_visible (P : Parsers) (D : List CV) (cv : CV) (s : State) (t : Text)
    (hx : s.explicit (cv.cls, cv.name) = none) :
    get src P cv (step src D s (.setenv (envName src cv) t)).1 = parse src P cv t ∧
    get src P cv (step src D s (.unsetenv (envName src cv))).1 = .ok cv.default := by
  constructor <;> (rw [get_refines, step_explicit, step_env]; simp [writeOf, envWriteOf, hx, resolve, fromEnv, pick])

/-! ## Name of the environment variable -/

/-- `PREFIX_NAME` (the name upper-cased) when the value does not name its own variable -/
theorem env_name_default (cv : CV) (ho : cv.envOverride = []) (hp : cv.envPrefix ≠ []) :
    envName src cv = cv.envPrefix ++ ['_'] ++ cv.name.map upperC := by
  simp [envName, ho, hp, src, Gen.C20.envSep, Gen.C20.envNameNorm, applyOps, applyOp]

/-- for the upper-case names the `config` decorator accepts this is literally `PREFIX_NAME` -/
theorem env_name_upper (cv : CV) (ho : cv.envOverride = []) (hp : cv.envPrefix ≠ [])
    (hn : ∀ c ∈ cv.name, c ∉ lowers) : envName src cv = cv.envPrefix ++ ['_'] ++ cv.name := by
  rw [env_name_default cv ho hp, map_upperC_of_upper hn]

/-- an `env_var=` override is used as it is -/
theorem env_name_override (cv : CV) (ho : cv.envOverride ≠ []) : envName src cv = cv.envOverride := by
  simp [envName, ho]

/-- without prefix the upper-cased module path of the owner (dots as underscores) is the prefix -/
theorem env_name_module (cv : CV) (ho : cv.envOverride = []) (hp : cv.envPrefix = []) :
    envName src cv = modulePrefix cv.module ++ ['_'] ++ cv.name.map upperC := by
  simp [envName, ho, hp, src, Gen.C20.envSep, Gen.C20.envNameNorm, applyOps, applyOp]

example : envName src exA = ['P', '_', 'A'] := by decide
example : envName src { exA with name := ['a', 'b'] } = ['P', '_', 'A', 'B'] := by decide
example : envName src { exA with envOverride := ['X', 'y'] } = ['X', 'y'] := by decide
example : envName src { exA with envPrefix := [], module := ['p', '.', 'q'] } = ['P', '_', 'Q', '_', 'A'] := by decide

/-! ## Bulk update -/

/-- all names known: `update` succeeds, leaves the environment alone, gives every named value its entry (names are the
keys of a dict: distinct) and changes no other slot of any class -/
theorem update_exactly_named (D : List CV) (s : State) (c : Nat) (d : List (Text × V))
    (hk : ∀ e ∈ d, known D c e.1 = true) (hnd : (d.map (·.1)).Nodup) :
    (step src D s (.update c d)).2 = .ok ∧
    (step src D s (.update c d)).1.env = s.env ∧
    (∀ e ∈ d, (step src D s (.update c d)).1.explicit (c, e.1) = some e.2) ∧
    (∀ k : Key, (k.1 ≠ c ∨ k.2 ∉ d.map (·.1)) → (step src D s (.update c d)).1.explicit k = s.explicit k) := by
  have hout : ∀ (d : List (Text × V)) (e : Key → Option V), (∀ x ∈ d, known D c x.1 = true) →
      (updateLoop src D c d e).2 = .ok := by
    intro d
    induction d with
    | nil => intro e _; rfl
    | cons x rest ih =>
      intro e h
      obtain ⟨n, v⟩ := x
      simp only [updateLoop, h (n, v) (by simp), if_true]
      exact ih _ (fun y hy => h y (by simp [hy]))
  have hw : ∀ (d : List (Text × V)) (k : Key), (∀ x ∈ d, known D c x.1 = true) → (d.map (·.1)).Nodup →
      updWrite D c k d = (d.find? (fun x => (c, x.1) = k)).map (·.2) := by
    intro d k
    induction d with
    | nil => intro _ _; rfl
    | cons x rest ih =>
      intro h hn
      obtain ⟨n, v⟩ := x
      simp only [List.map_cons, List.nodup_cons] at hn
      simp only [updWrite, h (n, v) (by simp), if_true, ih (fun y hy => h y (by simp [hy])) hn.2, List.find?_cons]
      by_cases he : (c, n) = k
      · have : rest.find? (fun x => (c, x.1) = k) = none := by
          apply List.find?_eq_none.mpr
          intro y hy hyk
          have : y.1 = n := by
            have := he.trans (of_decide_eq_true hyk).symm
            simp at this; exact this.symm
          exact hn.1 (by rw [← this]; exact List.mem_map_of_mem hy)
        simp [he, this]
      · simp only [he, decide_false]
        cases rest.find? (fun x => (c, x.1) = k) <;> simp
  refine ⟨by simp [step, hout d _ hk], by simp [step], ?_, ?_⟩
  · intro e he
    have : d.find? (fun x => (c, x.1) = (c, e.1)) = some e :=
      find?_key_of_mem d hnd he (fun n => decide ((c, n) = (c, e.1))) (by intro n; simp)
    rw [step_explicit]
    simp only [writeOf]
    rw [hw d _ hk hnd, this]
    rfl
  · intro k hk'
    have : d.find? (fun x => (c, x.1) = k) = none := by
      apply List.find?_eq_none.mpr
      intro y hy hyk
      have hyk := of_decide_eq_true hyk
      rcases hk' with h1 | h2
      · exact h1 (by rw [← hyk])
      · exact h2 (by rw [← hyk]; exact List.mem_map_of_mem hy)
    rw [step_explicit]
    simp only [writeOf]
    rw [hw d _ hk hnd, this]
    rfl

/-- an unknown name is rejected with `AttributeError`; … -/
theorem update_rejects_unknown (D : List CV) (s : State) (c : Nat) (d : List (Text × V))
    (hu : ∃ e ∈ d, known D c e.1 = false) : (step src D s (.update c d)).2 = .err .attributeError := by
  have : ∀ (d : List (Text × V)) (e : Key → Option V), (∃ x ∈ d, known D c x.1 = false) →
      (updateLoop src D c d e).2 = .err .attributeError := by
    intro d
    induction d with
    | nil => intro e h; obtain ⟨x, hx, _⟩ := h; cases hx
    | cons x rest ih =>
      intro e h
      obtain ⟨n, v⟩ := x
      by_cases hk : known D c n = true
      · simp only [updateLoop, hk, if_true]
        apply ih
        obtain ⟨y, hy, hyk⟩ := h
        rcases List.mem_cons.mp hy with rfl | hm
        · simp [hk] at hyk
        · exact ⟨y, hm, hyk⟩
      · simp only [updateLoop, hk]
        rfl
  simp [step, this d _ hu]

/-- … and even then no value that is not named, no value of another class and no environment variable changes -/
theorem update_frame (D : List CV) (s : State) (c : Nat) (d : List (Text × V)) (k : Key)
    (hk : k.1 ≠ c ∨ k.2 ∉ d.map (·.1)) :
    (step src D s (.update c d)).1.explicit k = s.explicit k ∧ (step src D s (.update c d)).1.env = s.env := by
  refine ⟨?_, by simp [step]⟩
  rw [step_explicit]
  have : ∀ d : List (Text × V), (k.1 ≠ c ∨ k.2 ∉ d.map (·.1)) → updWrite D c k d = none := by
    intro d
    induction d with
    | nil => intro _; rfl
    | cons x rest ih =>
      intro h
      obtain ⟨n, v⟩ := x
      have hr : k.1 ≠ c ∨ k.2 ∉ rest.map (·.1) := by
        rcases h with h | h
        · exact .inl h
        · exact .inr (fun hm => h (by simp [hm]))
      have hne : (c, n) ≠ k := by
        intro e
        rcases h with h | h
        · exact h (by rw [← e])
        · exact h (by rw [← e]; simp)
      simp only [updWrite, ih hr, hne, if_false]
      split <;> rfl
  simp [writeOf, this d hk, pick]

example : (step src exD State.init (.update 0 [(['A'], .int 0), (['F'], .bool false)])).2 = .ok := by decide
example : get src noParsers exA (step src exD State.init (.update 0 [(['A'], .int 0), (['F'], .bool false)])).1
    = .ok (.int 0) := by decide
example : (step src exD State.init (.update 0 [(['A'], .int 0), (['Z'], .int 1)])).2 = .err .attributeError := by decide
example : get src noParsers exF (step src exD State.init (.update 0 [(['A'], .int 0), (['Z'], .int 1)])).1
    = .ok (.bool true) := by decide

/-! ## Parsing inverts the natural text form -/

/-- a custom parser, when given, is what parses the text — whatever the type of the default -/
theorem parse_uses_custom_parser (P : Parsers) (cv : CV) (t : Text) (i : Nat) (hp : cv.parser = some i) :
    parse src P cv t = P i t := parse_custom P cv t hp

/-- integers: `int(str(n)) = n`, also with blanks around (`renderInt` is `str` on `int`, checked against python) -/
theorem parse_int_roundtrip (P : Parsers) (cv : CV) (hty : cv.ty = .int) (hp : cv.parser = none) (n : Int)
    {ws1 ws2 : Text} (h1 : AllP isNumSpace ws1) (h2 : AllP isNumSpace ws2) :
    parse src P cv (ws1 ++ renderInt n ++ ws2) = .ok (.int n) := by
  rw [parse_int P cv _ hty hp, pyInt_render h1 h2]

example : parse src noParsers exA (renderInt (-305)) = .ok (.int (-305)) := by decide
example : renderInt (-305) = ['-', '3', '0', '5'] := by decide
example : parse src noParsers exA [' ', '4', '2', '\n'] = .ok (.int 42) := by decide

/-- the two words a boolean is written with -/
def boolWord : Bool → Text
  | true => ['t', 'r', 'u', 'e']
  | false => ['f', 'a', 'l', 's', 'e']

/-- booleans: `true` / `false` in ANY letter case, with blanks around -/
theorem parse_bool_roundtrip (P : Parsers) (cv : CV) (hty : cv.ty = .bool) (hp : cv.parser = none) (b : Bool)
    {ws1 ws2 w : Text} (h1 : AllP isSpace ws1) (h2 : AllP isSpace ws2) (hw : w.map lowerC = boolWord b) :
    parse src P cv (ws1 ++ w ++ ws2) = .ok (.bool b) := by
  rw [parse_bool P cv _ hty hp]
  have m1 : AllP isSpace (ws1.map lowerC) := by
    intro c hc; obtain ⟨d, hd, rfl⟩ := List.mem_map.mp hc; rw [isSpace_lowerC]; exact h1 d hd
  have m2 : AllP isSpace (ws2.map lowerC) := by
    intro c hc; obtain ⟨d, hd, rfl⟩ := List.mem_map.mp hc; rw [isSpace_lowerC]; exact h2 d hd
  have key : applyOps [.lower, .strip] (ws1 ++ w ++ ws2) = boolWord b := by
    simp only [applyOps, applyOp, List.map_append, hw, strip]
    exact stripBy_pad m1 m2 (by cases b <;> decide)
  simp only [src, Gen.C20.boolTests, parseBool, key]
  cases b <;> simp [boolWord]

example : parse src noParsers exF [' ', 'T', 'r', 'U', 'e', '\t'] = .ok (.bool true) := by decide
example : parse src noParsers exF ['F', 'A', 'L', 'S', 'E'] = .ok (.bool false) := by decide

/-- strings are taken as they are -/
theorem parse_str_roundtrip (P : Parsers) (cv : CV) (hty : cv.ty = .str) (hp : cv.parser = none) (t : Text) :
    parse src P cv t = .ok (.str t) := parse_str P cv t hty hp

/-- paths: `Path(text)` (pathlib's own `Path(str(p)) == p` is a parameter) -/
theorem parse_path_roundtrip (P : Parsers) (cv : CV) (hty : cv.ty = .path) (hp : cv.parser = none) (t : Text) :
    parse src P cv t = .ok (.path t) := parse_path P cv t hty hp

/-- types without a branch of their own (`float`, user classes): `type(text)`, nothing else (`float(repr(x)) == x`
is CPython's guarantee) -/
theorem parse_other_constructs (P : Parsers) (cv : CV) (k : Nat) (hty : cv.ty = .other k) (hp : cv.parser = none)
    (t : Text) : parse src P cv t = .ok (.sym k t) := parse_other P cv t hty hp

/-- enum members by number: the decimal text of a member's value, also with blanks around -/
theorem parse_enum_by_number (P : Parsers) (cv : CV) (ms : List (Text × Int)) (hty : cv.ty = .enum ms)
    (hp : cv.parser = none) (name : Text) (v : Int) (hm : (name, v) ∈ ms)
    {ws1 ws2 : Text} (h1 : AllP isNumSpace ws1) (h2 : AllP isNumSpace ws2) :
    parse src P cv (ws1 ++ renderInt v ++ ws2) = .ok (.enum v) := by
  rw [parse_enum P cv _ hty hp]
  simp only [src, Gen.C20.enumLookups, enumChain, enumAttempt, pyInt_render h1 h2, hasValue_of_mem hm]
  simp

/-- enum members by name: the exact name of ANY member (upper case or not), names being distinct and no numbers -/
theorem parse_enum_by_name (P : Parsers) (cv : CV) (ms : List (Text × Int)) (hty : cv.ty = .enum ms)
    (hp : cv.parser = none) (name : Text) (v : Int) (hm : (name, v) ∈ ms) (hnd : (ms.map (·.1)).Nodup)
    (hnum : NumberMiss ms name) : parse src P cv name = .ok (.enum v) := by
  rw [parse_enum P cv _ hty hp]
  simp only [src, Gen.C20.enumLookups, enumChain, enumAttempt_number_miss hnum]
  simp [enumAttempt, applyOps, memberByName_of_mem hnd hm]

/-- … and in another letter case, when no member carries that very spelling: the upper-cased text is looked up -/
theorem parse_enum_by_name_anycase (P : Parsers) (cv : CV) (ms : List (Text × Int)) (hty : cv.ty = .enum ms)
    (hp : cv.parser = none) (t : Text) (v : Int) (hnum : NumberMiss ms t) (hx : memberByName t ms = none)
    (hup : memberByName (t.map upperC) ms = some v) : parse src P cv t = .ok (.enum v) := by
  rw [parse_enum P cv _ hty hp]
  simp only [src, Gen.C20.enumLookups, enumChain, enumAttempt_number_miss hnum]
  simp [enumAttempt, applyOps, applyOp, hx, hup]

/-- an enum like `class Mode(Enum): Lower = 1; UPPER = 2` -/
def exMode : CV := ⟨0, ['M'], .enum 2, .enum [(['L', 'o', 'w', 'e', 'r'], 1), (['U', 'P', 'P', 'E', 'R'], 2)], none, [],
  ['P'], ['m']⟩

example : parse src noParsers exMode ['L', 'o', 'w', 'e', 'r'] = .ok (.enum 1) := by decide
example : parse src noParsers exMode ['u', 'p', 'p', 'e', 'r'] = .ok (.enum 2) := by decide
example : parse src noParsers exMode [' ', '2'] = .ok (.enum 2) := by decide
example : NumberMiss [(['L', 'o', 'w', 'e', 'r'], 1), (['U', 'P', 'P', 'E', 'R'], 2)] ['L', 'o', 'w', 'e', 'r'] := by
  intro n h
  have : pyInt ['L', 'o', 'w', 'e', 'r'] = none := by decide
  rw [this] at h; cases h

/-- comma-separated lists: the items as written between the commas, each without its surrounding blanks
(any non-empty list of comma-free pieces) -/
theorem parse_list_general (P : Parsers) (cv : CV) (hty : cv.ty = .list) (hp : cv.parser = none) (raw : List Text)
    (hne : raw ≠ []) (hc : ∀ r ∈ raw, ',' ∉ r) :
    parse src P cv (join ',' raw) = .ok (.list (raw.map strip)) := by
  rw [parse_list P cv _ hty hp]
  have : split src.listSep (join ',' raw) = raw := split_join hne hc
  rw [this]
  simp [src, Gen.C20.listItemNorm, applyOps, applyOp]

/-- … hence `",".join(items)` parses back to `items` when the items are trimmed and comma-free, with or without
blanks around each item -/
theorem parse_list_roundtrip (P : Parsers) (cv : CV) (hty : cv.ty = .list) (hp : cv.parser = none)
    (items : List Padded) (hne : items ≠ []) (hok : ∀ x ∈ items, x.Ok [',']) :
    parse src P cv (join ',' (items.map Padded.text)) = .ok (.list (items.map Padded.core)) := by
  rw [parse_list_general P cv hty hp _ (by simpa using hne)]
  · congr 2
    rw [List.map_map]
    apply List.map_congr_left
    intro x hx
    exact Padded.strip_text (hok x hx)
  · intro r hr
    obtain ⟨x, hx, rfl⟩ := List.mem_map.mp hr
    exact Padded.not_mem_text (hok x hx) (by simp) (by decide)

/-- tuples alike -/
theorem parse_tuple_roundtrip (P : Parsers) (cv : CV) (hty : cv.ty = .tuple) (hp : cv.parser = none)
    (items : List Padded) (hne : items ≠ []) (hok : ∀ x ∈ items, x.Ok [',']) :
    parse src P cv (join ',' (items.map Padded.text)) = .ok (.tuple (items.map Padded.core)) := by
  rw [parse_tuple P cv _ hty hp]
  have hc : ∀ r ∈ items.map Padded.text, ',' ∉ r := by
    intro r hr
    obtain ⟨x, hx, rfl⟩ := List.mem_map.mp hr
    exact Padded.not_mem_text (hok x hx) (by simp) (by decide)
  have : split src.listSep (join ',' (items.map Padded.text)) = items.map Padded.text :=
    split_join (by simpa using hne) hc
  rw [this]
  simp only [src, Gen.C20.listItemNorm, applyOps, applyOp, List.map_map]
  congr 2
  apply List.map_congr_left
  intro x hx
  exact Padded.strip_text (hok x hx)

/-- the empty text is NOT the text form of the empty list: it parses to the list holding one empty string
(`"".split(",") == [""]`) — stated, not hidden; the inversion theorems above require a non-empty list -/
theorem parse_list_empty_text (P : Parsers) (cv : CV) (hty : cv.ty = .list) (hp : cv.parser = none) :
    parse src P cv [] = .ok (.list [[]]) := by
  rw [parse_list P cv _ hty hp]; decide

def exL : CV := ⟨0, ['L'], .list [], .list, none, [], ['P'], ['m']⟩

example : parse src noParsers exL ['a', ',', ' ', 'b', ' ', 'c', ' ', ',', ','] = .ok (.list [['a'], ['b', ' ', 'c'], [], []]) := by
  decide
example : (⟨[' '], ['b', ' ', 'c'], [' ']⟩ : Padded).Ok [','] := by
  refine ⟨by decide, by decide, by decide, by decide⟩

/-- the text of one `key = value` pair -/
def pairText (kv : Padded × Padded) : Text := kv.1.text ++ '=' :: kv.2.text

/-- `k=v` mappings: `",".join(f"{k}={v}")` (blanks allowed around pairs, keys and values) parses to the dict of the
pairs — later pairs overwrite earlier ones with the same key, as `dict(pairs)` does -/
theorem parse_mapping_roundtrip (P : Parsers) (cv : CV) (hty : cv.ty = .dict) (hp : cv.parser = none)
    (pairs : List (Padded × Padded)) (hne : pairs ≠ [])
    (hok : ∀ kv ∈ pairs, kv.1.Ok [',', '='] ∧ kv.2.Ok [',', '=']) :
    parse src P cv (join ',' (pairs.map pairText)) =
      .ok (.dict ((pairs.map fun kv => (kv.1.core, kv.2.core)).foldl (fun acc kv => dictSet kv.1 kv.2 acc) [])) := by
  rw [parse_dict P cv _ hty hp]
  have hc : ∀ r ∈ pairs.map pairText, ',' ∉ r := by
    intro r hr
    obtain ⟨kv, hkv, rfl⟩ := List.mem_map.mp hr
    intro hm
    simp only [pairText, List.mem_append, List.mem_cons] at hm
    rcases hm with hm | hm | hm
    · exact Padded.not_mem_text (hok kv hkv).1 (by simp) (by decide) hm
    · cases hm
    · exact Padded.not_mem_text (hok kv hkv).2 (by simp) (by decide) hm
  have hs : split src.mapSep (join ',' (pairs.map pairText)) = pairs.map pairText :=
    split_join (by simpa using hne) hc
  rw [hs, List.map_map]
  have hp2 : ∀ kv ∈ pairs, ((fun p => (split src.mapKvSep (applyOps src.mapPairNorm p)).map (applyOps src.mapPartNorm))
      ∘ pairText) kv = [kv.1.core, kv.2.core] := by
    intro kv hkv
    obtain ⟨hk, hv⟩ := hok kv hkv
    have e1 : applyOps src.mapPairNorm (pairText kv) = lstripBy isSpace kv.1.text ++ '=' :: rstripBy isSpace kv.2.text := by
      simp only [src, Gen.C20.mapPairNorm, applyOps, applyOp, strip, pairText]
      exact stripBy_mid (by decide) _ _
    have n1 : '=' ∉ lstripBy isSpace kv.1.text :=
      fun hm => Padded.not_mem_text hk (by simp) (by decide) (mem_lstripBy hm)
    have n2 : '=' ∉ rstripBy isSpace kv.2.text :=
      fun hm => Padded.not_mem_text hv (by simp) (by decide) (mem_rstripBy hm)
    have e2 : split src.mapKvSep (lstripBy isSpace kv.1.text ++ '=' :: rstripBy isSpace kv.2.text)
        = [lstripBy isSpace kv.1.text, rstripBy isSpace kv.2.text] := by
      show split '=' _ = _
      rw [split_append_sep n1, split_noSep n2]
    simp only [Function.comp]
    rw [e1, e2]
    simp only [List.map_cons, List.map_nil, src, Gen.C20.mapPartNorm, applyOps, applyOp, strip]
    rw [stripBy_lstripBy]
    have a := stripBy_pad hk.1 hk.2.1 hk.2.2.1
    have b := stripBy_rstripBy_pad hv.1 hv.2.1 hv.2.2.1
    simp only [Padded.text] at *
    rw [a, b]
  rw [List.map_congr_left hp2]
  have := dictOf_pairs (pairs.map fun kv => (kv.1.core, kv.2.core)) []
  rw [List.map_map] at this
  exact this

/-- with distinct keys that is the list of pairs itself, in the order written -/
theorem parse_mapping_roundtrip_distinct (P : Parsers) (cv : CV) (hty : cv.ty = .dict) (hp : cv.parser = none)
    (pairs : List (Padded × Padded)) (hne : pairs ≠ [])
    (hok : ∀ kv ∈ pairs, kv.1.Ok [',', '='] ∧ kv.2.Ok [',', '='])
    (hnd : (pairs.map fun kv => kv.1.core).Nodup) :
    parse src P cv (join ',' (pairs.map pairText)) = .ok (.dict (pairs.map fun kv => (kv.1.core, kv.2.core))) := by
  rw [parse_mapping_roundtrip P cv hty hp pairs hne hok, foldl_dictSet_nodup]
  · simp
  · rw [List.nil_append, List.map_map]; exact hnd

def exM : CV := ⟨0, ['D'], .dict [], .dict, none, [], ['P'], ['m']⟩

example : parse src noParsers exM ['a', '=', '1', ',', ' ', 'b', ' ', '=', ' ', '2', ' ']
    = .ok (.dict [(['a'], ['1']), (['b'], ['2'])]) := by decide
example : parse src noParsers exM ['a', '=', '1', ',', 'a', '=', '2'] = .ok (.dict [(['a'], ['2'])]) := by decide

/-! ## Unparseable text raises -/

/-- anything but `true` / `false` (letter case and surrounding blanks aside) is no boolean: `ValueError` -/
theorem unparseable_bool_raises (P : Parsers) (cv : CV) (hty : cv.ty = .bool) (hp : cv.parser = none) (t : Text)
    (h1 : strip (t.map lowerC) ≠ boolWord true) (h2 : strip (t.map lowerC) ≠ boolWord false) :
    parse src P cv t = .error .valueError := by
  rw [parse_bool P cv _ hty hp]
  simp only [boolWord] at h1 h2
  simp [src, Gen.C20.boolTests, Gen.C20.boolElse, parseBool, applyOps, applyOp, h1, h2]

/-- a text that (blanks aside) contains anything but digits, `_`, `+`, `-` is no integer: `ValueError` -/
theorem unparseable_int_raises (P : Parsers) (cv : CV) (hty : cv.ty = .int) (hp : cv.parser = none) (t : Text)
    (c : Char) (hc : c ∈ stripBy isNumSpace t) (hd : isDigit c = false) (h1 : c ≠ '_') (h2 : c ≠ '-') (h3 : c ≠ '+') :
    parse src P cv t = .error .valueError := by
  rw [parse_int P cv _ hty hp, pyInt_none_of_bad_char hc hd h1 h2 h3]

/-- a text that is no member's number, no member's name and not the lower/mixed-case spelling of a member's name is
no enum member: `KeyError` -/
theorem unparseable_enum_raises (P : Parsers) (cv : CV) (ms : List (Text × Int)) (hty : cv.ty = .enum ms)
    (hp : cv.parser = none) (t : Text) (hnum : NumberMiss ms t) (hx : memberByName t ms = none)
    (hup : memberByName (t.map upperC) ms = none) : parse src P cv t = .error .keyError := by
  rw [parse_enum P cv _ hty hp]
  simp only [src, Gen.C20.enumLookups, enumChain, enumAttempt_number_miss hnum]
  simp [enumAttempt, applyOps, applyOp, hx, hup]

/-- a mapping text with a piece that has not exactly one `=` is rejected: `ValueError` -/
theorem unparseable_mapping_raises (P : Parsers) (cv : CV) (hty : cv.ty = .dict) (hp : cv.parser = none) (t : Text)
    (piece : Text) (hm : piece ∈ split ',' t) (hb : (split '=' (strip piece)).length ≠ 2) :
    parse src P cv t = .error .valueError := by
  rw [parse_dict P cv _ hty hp]
  apply dictOf_bad
  refine ⟨_, List.mem_map_of_mem (a := piece) (by exact hm), ?_⟩
  simpa [src, Gen.C20.mapPairNorm, Gen.C20.mapKvSep, applyOps, applyOp] using hb

example : parse src noParsers exF ['y', 'e', 's'] = .error .valueError := by decide
example : parse src noParsers exA ['1', '.', '5'] = .error .valueError := by decide
example : parse src noParsers exMode ['n', 'o'] = .error .keyError := by decide
example : parse src noParsers exM ['a', '=', 'b', ',', 'c'] = .error .valueError := by decide
example : parse src noParsers exM [] = .error .valueError := by decide

/-- an unparseable environment text makes READING the value raise (the error is not swallowed into the default) -/
theorem unparseable_env_raises (P : Parsers) (cv : CV) (s : State) (t : Text) (e : Err)
    (hx : s.explicit (cv.cls, cv.name) = none) (he : s.env (envName src cv) = some t)
    (hp : parse src P cv t = .error e) : get src P cv s = .error e := by
  rw [get_refines, hx, he]; simp [resolve, fromEnv, hp]

/-! ## The `config` decorator: which attributes of a user-defined class are configuration values

`decorate src c pre m body` is what `@config(pre)` makes of the class body (`src.nameTests`, `src.wrappedKeeps` are read from the
decorator's loop by the translator).  `PublicUpper` is the property-side reading of "upper-case public name":
python's `str.isupper()` (some upper-case cased character, no lower-case one; Latin-1 tables compared with CPython by the
harness) and no leading underscore. -/

/-- EXACTLY the public upper-case names of the class body become configuration values of the decorated class (and of no
other class): `known` is what `update` / the descriptors consult -/
theorem decorator_selects_exactly_public_upper (c : Nat) (pre m : Text) (attrs : List Attr) (c' : Nat) (n : Text) :
    known (decorate src c pre m attrs) c' n = true ↔ c' = c ∧ (∃ a ∈ attrs, a.name = n) ∧ PublicUpper n := by
  simp only [known, lookupCV, List.find?_isSome, decorate, List.mem_filterMap]
  constructor
  · rintro ⟨cv, ⟨a, ha, hd⟩, hp⟩
    by_cases hn : isConfigName src a.name = true
    · rw [decorate1_some hn] at hd
      cases hd
      simp at hp
      exact ⟨hp.1.symm, ⟨a, ha, hp.2⟩, hp.2 ▸ (isConfigName_iff _).mp hn⟩
    · rw [decorate1_none (by simpa using hn)] at hd
      cases hd
  · rintro ⟨rfl, ⟨a, ha, rfl⟩, hn⟩
    exact ⟨_, ⟨a, ha, decorate1_some ((isConfigName_iff _).mpr hn)⟩, by simp⟩

/-- … and each of them is declared with the default, type, custom parser and `env_var=` override written in the body, the
decorator's prefix and the module of the generated metaclass (attribute names of a class body are distinct) -/
theorem decorator_declares (c : Nat) (pre m : Text) : ∀ (attrs : List Attr) (a : Attr), a ∈ attrs → PublicUpper a.name →
    (attrs.map (·.name)).Nodup →
    lookupCV (decorate src c pre m attrs) c a.name = some ⟨c, a.name, a.default, a.ty, a.parser, a.envOverride, pre, m⟩ := by
  intro attrs
  induction attrs with
  | nil => intro a ha; cases ha
  | cons x rest ih =>
    intro a ha hn hnd
    simp only [List.map_cons, List.nodup_cons] at hnd
    rcases List.mem_cons.mp ha with rfl | hr
    · simp [decorate, lookupCV, decorate1_some ((isConfigName_iff _).mpr hn)]
    · have hne : x.name ≠ a.name := fun e => hnd.1 (e ▸ List.mem_map_of_mem hr)
      have := ih a hr hn hnd.2
      simp only [decorate, lookupCV] at this ⊢
      by_cases hx : isConfigName src x.name = true
      · simp only [List.filterMap_cons, decorate1_some hx, List.find?_cons]
        have hb : (x.name == a.name) = false := by simpa using hne
        simp [hb, this]
      · simp only [List.filterMap_cons, decorate1_none (by simpa using hx)]
        exact this

/-- its environment variable is literally `PREFIX_NAME` (digits, underscores, non-ASCII capitals included) -/
theorem decorated_env_name (c : Nat) (pre m : Text) (a : Attr) (hn : PublicUpper a.name) (ho : a.envOverride = [])
    (hp : pre ≠ []) :
    envName src ⟨c, a.name, a.default, a.ty, a.parser, a.envOverride, pre, m⟩ = pre ++ ['_'] ++ a.name :=
  env_name_upper _ ho hp (not_lower_of_upperName hn.1)

/-- hence EVERY upper-case public attribute of a decorated class is a configuration value that resolves as explicit value,
else environment variable `PREFIX_NAME`, else the default written in the body — in every state -/
theorem decorated_value_resolves (P : Parsers) (c : Nat) (pre m : Text) (attrs : List Attr) (a : Attr) (ha : a ∈ attrs)
    (hn : PublicUpper a.name) (hnd : (attrs.map (·.name)).Nodup) (s : State) :
    ∃ cv, lookupCV (decorate src c pre m attrs) c a.name = some cv ∧ cv.default = a.default ∧
      (a.envOverride = [] → pre ≠ [] → envName src cv = pre ++ ['_'] ++ a.name) ∧
      get src P cv s = resolve P cv (s.explicit (c, a.name)) (s.env (envName src cv)) :=
  ⟨_, decorator_declares c pre m attrs a ha hn hnd, rfl, decorated_env_name c pre m a hn, get_refines P _ s⟩

/-- names that are not upper-case public (leading underscore, lower / mixed case, no cased character) are NOT configuration
values … -/
theorem decorator_leaves_other_names (c : Nat) (pre m : Text) (attrs : List Attr) (c' : Nat) (n : Text)
    (h : ¬ PublicUpper n) : known (decorate src c pre m attrs) c' n = false := by
  cases hk : known (decorate src c pre m attrs) c' n with
  | false => rfl
  | true => exact absurd ((decorator_selects_exactly_public_upper c pre m attrs c' n).mp hk).2.2 h

/-- … so a bulk update naming one of them is rejected -/
theorem update_rejects_non_config_name (c : Nat) (pre m : Text) (attrs : List Attr) (s : State) (d : List (Text × V))
    (h : ∃ e ∈ d, ¬ PublicUpper e.1) :
    (step src (decorate src c pre m attrs) s (.update c d)).2 = .err .attributeError := by
  obtain ⟨e, he, hn⟩ := h
  exact update_rejects_unknown _ s c d ⟨e, he, decorator_leaves_other_names c pre m attrs c e.1 hn⟩

/-- a class body: `X1 = 1; _PRIV = "p"; lower = 2; Mixed = 3; L2_NORM = False; X = ConfigValue(1, env_var="OV", parser=int);
ÄB = 4; 数1 = 5; _1 = 6; äB = 7` -/
def exBody : List Attr :=
  [⟨['X', '1'], .int 1, .int, none, []⟩, ⟨['_', 'P', 'R', 'I', 'V'], .str ['p'], .str, none, []⟩,
   ⟨['l', 'o', 'w', 'e', 'r'], .int 2, .int, none, []⟩, ⟨['M', 'i', 'x', 'e', 'd'], .int 3, .int, none, []⟩,
   ⟨['L', '2', '_', 'N', 'O', 'R', 'M'], .bool false, .bool, none, []⟩, ⟨['X'], .int 1, .int, some 0, ['O', 'V']⟩,
   ⟨[Char.ofNat 196, 'B'], .int 4, .int, none, []⟩, ⟨[Char.ofNat 25968, '1'], .int 5, .int, none, []⟩,
   ⟨['_', '1'], .int 6, .int, none, []⟩, ⟨[Char.ofNat 228, 'B'], .int 7, .int, none, []⟩]

example : (decorate src 0 ['P'] ['m'] exBody).map (·.name)
    = [['X', '1'], ['L', '2', '_', 'N', 'O', 'R', 'M'], ['X'], [Char.ofNat 196, 'B']] := by decide
example : PublicUpper ['X', '1'] := (isConfigName_iff _).mp (by decide)
example : PublicUpper ['L', '2', '_', 'N', 'O', 'R', 'M'] := (isConfigName_iff _).mp (by decide)
example : ¬ PublicUpper ['_', 'P', 'R', 'I', 'V'] := fun h => absurd ((isConfigName_iff _).mpr h) (by decide)
example : ¬ PublicUpper ['M', 'i', 'x', 'e', 'd'] := fun h => absurd ((isConfigName_iff _).mpr h) (by decide)
example : (exBody.map (·.name)).Nodup := by decide
example : ((lookupCV (decorate src 0 ['P'] ['m'] exBody) 0 ['X', '1']).map (envName src)) = some ['P', '_', 'X', '1'] := by
  decide
example : ((lookupCV (decorate src 0 ['P'] ['m'] exBody) 0 ['X']).map (fun cv => (envName src cv, cv.parser)))
    = some (['O', 'V'], some 0) := by decide
example : ((lookupCV (decorate src 0 ['P'] ['m'] exBody) 0 ['X', '1']).map fun cv =>
    get src noParsers cv (run src (decorate src 0 ['P'] ['m'] exBody) State.init [.setenv ['P', '_', 'X', '1'] ['5']]))
    = some (.ok (.int 5)) := by decide
example : (step src (decorate src 0 ['P'] ['m'] exBody) State.init (.update 0 [(['X', '1'], .int 0)])).2 = .ok := by decide
example : (step src (decorate src 0 ['P'] ['m'] exBody) State.init (.update 0 [(['M', 'i', 'x', 'e', 'd'], .int 0)])).2
    = .err .attributeError := by decide

/-! ## The two defects found on the unrepaired tree (F15, F16), as statements about the unrepaired description

`srcUnrepaired` is `src` with the two decisions as the translator reads them from the unrepaired `config.py`
(`AttributeError(...)` constructed, not raised; enum names looked up only upper-cased).  The harness replays both
witnesses on the implementation. -/

def srcUnrepaired : Desc := { src with updateRaises := false, enumLookups := [.byNumber, .byName [.upper]] }

/-- F15: without the `raise`, an update naming an unknown value "succeeds" -/
theorem F15_update_without_raise_accepts_unknown :
    (step srcUnrepaired exD State.init (.update 0 [(['A'], .int 5), (['B', 'O', 'G', 'U', 'S'], .int 3)])).2 = .ok := by
  decide

/-- F16: with the upper-casing lookup only, the member `Lower` cannot be given by its name -/
theorem F16_upper_lookup_misses_mixed_case_member :
    parse srcUnrepaired noParsers exMode ['L', 'o', 'w', 'e', 'r'] = .error .keyError := by
  decide

end Config
