import PyrollProofs.ConfigLemmas

/-!
# C20 — configuration values resolve as explicit value, else environment, else default; parsing; bulk update

Model: `PyrollModel/Config.lean`, an interpreter of the description `Config.src` of `pyroll/core/config.py` whose fields
are the constants of `PyrollModel/Gen/C20.lean` — regenerated from the source on every run by
`driver/translate/c20_config.py` (the branches of `ConfigValue.parse` in source order with the class each one tests, the kind of
test and what it returns; bool tests, enum `try/except` chain, separators and `strip` calls; order of the sources and the slot of
`__get__` / `__set__` / `__delete__`; the assignments of `__init__` / `__set_name__`; `env_var` format; what `to_dict` collects;
whether `ConfigMeta.update` raises and what it returns; the decorator's name test).  The model is also run against the
implementation by `driver/props/c20.py`.  Every theorem below is about `src`: a source change that alters one of those
decisions changes `src` and the theorem that no longer follows stops building.

Only property theorems (and their non-vacuity examples) live here; helper lemmas are in `PyrollProofs/ConfigLemmas.lean`.
-/

namespace Config

/-! ## Resolution: explicit value, else environment (parsed), else default -/

/-- `(env >>= parse) <|> default` -/
def fromEnv (P : Parsers) (cv : CV) (e : Option Text) : Except Err V :=
  match e with
  | some t => parse src P cv t
  | none => .ok cv.default

/-- the property's reading of a configuration value: the explicitly assigned value (`None` counts as "not assigned"),
else the environment text parsed (a parse error propagates), else the default -/
def resolve (P : Parsers) (cv : CV) (x : Option V) (e : Option Text) : Except Err V :=
  match x with
  | some v => if v = .none then fromEnv P cv e else .ok v
  | none => fromEnv P cv e

/-- reading a value in ANY state is `explicit <|> (env >>= parse) <|> default` -/
theorem get_refines (P : Parsers) (cv : CV) (s : State) :
    get src P cv s = resolve P cv (s.explicit (slotKey src cv.cls cv.name)) (s.env (envName src cv)) := by
  show getFrom src P cv s [.explicit, .env, .default] = _
  simp only [getFrom, resolve, fromEnv]
  cases s.explicit (slotKey src cv.cls cv.name) with
  | none => cases s.env _ <;> rfl
  | some v =>
    by_cases hv : v = .none
    · subst hv; cases s.env _ <;> simp
    · cases s.env _ <;> simp [hv]

/-- … and after EVERY history of assign / delete / setenv / unsetenv / update (failed operations included) the value read
is determined by the most recent write to its slot and the most recent write to its environment variable
(`lastWrite`, `lastEnvWrite` scan the history from its end; they do not run the model) -/
theorem get_after_history (P : Parsers) (D : List CV) (cv : CV) (s : State) (h : List Op) :
    get src P cv (run src D s h) =
      resolve P cv
        (pick (lastWrite D (slotKey src cv.cls cv.name) h.reverse) (s.explicit (slotKey src cv.cls cv.name)))
        (pick (lastEnvWrite (envName src cv) h.reverse) (s.env (envName src cv))) := by
  rw [get_refines, explicit_run, env_run]

/-- a declared integer value `A` (default 7) of class 0 with prefix `P` -/
def exA : CV := ⟨0, ['A'], .int 7, .int, none, [], ['P'], ['m']⟩
/-- a boolean value `F` (default true) of the same class -/
def exF : CV := ⟨0, ['F'], .bool true, .bool, none, [], ['P'], ['m']⟩
def exD : List CV := [exA, exF]
def noParsers : Parsers := fun _ _ => .error .other

-- non-vacuity: environment 12, explicit 0 wins, delete restores 12, unsetenv restores 7; a failed delete and a rejected
-- update in between change nothing
example : get src noParsers exA (run src exD State.init
    [.setenv ['P', '_', 'A'] ['1', '2'], .assign 0 ['A'] (.int 0)]) = .ok (.int 0) := by decide
example : get src noParsers exA (run src exD State.init
    [.setenv ['P', '_', 'A'] ['1', '2'], .assign 0 ['A'] (.int 0), .delete 0 ['A'], .delete 0 ['A'],
     .update 0 [(['Z'], .int 1), (['A'], .int 3)]]) = .ok (.int 12) := by decide
example : get src noParsers exA (run src exD State.init
    [.setenv ['P', '_', 'A'] ['1', '2'], .assign 0 ['A'] (.int 0), .delete 0 ['A'], .unsetenv ['P', '_', 'A']])
    = .ok (.int 7) := by decide
example : get src noParsers exA (run src exD State.init [.setenv ['P', '_', 'A'] ['x']]) = .error .valueError := by
  decide

/-- an explicitly assigned value that is not `None` is what is read — whatever the environment and the default are;
in particular the falsy values `0`, `False`, `""`, `[]` -/
theorem falsy_explicit_honoured (P : Parsers) (D : List CV) (cv : CV) (s : State) (v : V)
    (hk : known D cv.cls cv.name = true) (hv : v ≠ .none) :
    get src P cv (step src D s (.assign cv.cls cv.name v)).1 = .ok v := by
  rw [get_refines, step_explicit]
  simp [writeOf, hk, resolve, hv, pick]

example : get src noParsers exA (step src exD ⟨fun _ => none, fun _ => some ['1', '2']⟩ (.assign 0 ['A'] (.int 0))).1
    = .ok (.int 0) := by decide
example : get src noParsers exF (step src exD ⟨fun _ => none, fun _ => some ['t', 'r', 'u', 'e']⟩
    (.assign 0 ['F'] (.bool false))).1 = .ok (.bool false) := by decide
example : get src noParsers exA (step src exD State.init (.assign 0 ['A'] (.str []))).1 = .ok (.str []) := by decide
example : get src noParsers exA (step src exD State.init (.assign 0 ['A'] (.list []))).1 = .ok (.list []) := by decide

/-- changing the environment does not change a value that is explicitly assigned -/
theorem explicit_survives_env_change (P : Parsers) (D : List CV) (cv : CV) (s : State) (v : V) (op : Op)
    (hx : s.explicit (slotKey src cv.cls cv.name) = some v) (hv : v ≠ .none)
    (hop : (∃ x t, op = .setenv x t) ∨ (∃ x, op = .unsetenv x)) :
    get src P cv (step src D s op).1 = .ok v := by
  simp only [slotKey_src] at hx
  rw [get_refines, step_explicit]
  rcases hop with ⟨x, t, rfl⟩ | ⟨x, rfl⟩ <;> simp [writeOf, hx, resolve, hv, pick]

/-- deleting the explicit value restores the next source: the environment if the variable is set, else the default -/
theorem delete_restores_next (P : Parsers) (D : List CV) (cv : CV) (s : State) (v : V)
    (hx : s.explicit (slotKey src cv.cls cv.name) = some v) :
    (step src D s (.delete cv.cls cv.name)).2 = .ok ∧
    get src P cv (step src D s (.delete cv.cls cv.name)).1 = fromEnv P cv (s.env (envName src cv)) := by
  simp only [slotKey_src] at hx
  refine ⟨by simp [step, cvDelete, hx], ?_⟩
  rw [get_refines, step_explicit, step_env]
  simp [writeOf, envWriteOf, resolve, pick]

example : get src noParsers exA (step src exD ⟨fun _ => some (.int 0), fun _ => some ['1', '2']⟩ (.delete 0 ['A'])).1
    = .ok (.int 12) := by decide
example : get src noParsers exA (step src exD ⟨fun _ => some (.int 0), fun _ => none⟩ (.delete 0 ['A'])).1
    = .ok (.int 7) := by decide

/-- deleting a value that is not assigned raises `AttributeError` and changes nothing -/
theorem delete_unset_raises (D : List CV) (s : State) (c : Nat) (n : Text) (hx : s.explicit (slotKey src c n) = none) :
    step src D s (.delete c n) = (s, .err .attributeError) := by
  simp only [slotKey_src] at hx
  simp [step, cvDelete, hx]

/-- setting the variable of a value without explicit value makes it read the parsed text; removing it, the default -/
theorem env_change_visible (P : Parsers) (D : List CV) (cv : CV) (s : State) (t : Text)
    (hx : s.explicit (slotKey src cv.cls cv.name) = none) :
    get src P cv (step src D s (.setenv (envName src cv) t)).1 = parse src P cv t ∧
    get src P cv (step src D s (.unsetenv (envName src cv))).1 = .ok cv.default := by
  simp only [slotKey_src] at hx
  constructor <;> (rw [get_refines, step_explicit, step_env]; simp [writeOf, envWriteOf, hx, resolve, fromEnv, pick])

/-! ## Name of the environment variable -/

/-- `PREFIX_NAME` (the name upper-cased) when the value does not name its own variable -/
theorem env_name_default (cv : CV) (ho : cv.envOverride = []) :
    envName src cv = cv.envPrefix ++ ['_'] ++ cv.name.map upperC := by
  simp [envName, ho, src, Gen.C20.envSep, Gen.C20.envNameNorm, applyOps, applyOp]

/-- for the upper-case names the `config` decorator accepts this is literally `PREFIX_NAME` -/
theorem env_name_upper (cv : CV) (ho : cv.envOverride = [])
    (hn : ∀ c ∈ cv.name, c ∉ lowers) : envName src cv = cv.envPrefix ++ ['_'] ++ cv.name := by
  rw [env_name_default cv ho, map_upperC_of_upper hn]

/-- an `env_var=` override is used as it is -/
theorem env_name_override (cv : CV) (ho : cv.envOverride ≠ []) : envName src cv = cv.envOverride := by
  simp [envName, ho]

/-- a descriptor created WITHOUT prefix (`ConfigValue(default)` in a hand-written metaclass, `@config("")`) gets, when it is
placed in its class (`__init__` then `__set_name__`), the upper-cased module path of the owner (dots as underscores) as prefix -/
theorem env_name_module (a : InitArgs) (c : Nat) (n m : Text) (ho : a.envVar = []) (hp : a.envPrefix = []) :
    envName src (declare src a c n m) = modulePrefix m ++ ['_'] ++ n.map upperC := by
  rw [declare_src, env_name_default _ ho]
  simp [prefixOr, hp]

/-- … and one created with a prefix (and no variable of its own) reads `PREFIX_NAME` -/
theorem env_name_declared (a : InitArgs) (c : Nat) (n m : Text) (ho : a.envVar = []) (hp : a.envPrefix ≠ []) :
    envName src (declare src a c n m) = a.envPrefix ++ ['_'] ++ n.map upperC := by
  rw [declare_src, env_name_default _ ho]
  simp [prefixOr, hp]

example : envName src exA = ['P', '_', 'A'] := by decide
example : envName src { exA with name := ['a', 'b'] } = ['P', '_', 'A', 'B'] := by decide
example : envName src { exA with envOverride := ['X', 'y'] } = ['X', 'y'] := by decide
example : envName src (declare src ⟨.int 7, .int, [], [], none⟩ 0 ['A'] ['p', '.', 'q']) = ['P', '_', 'Q', '_', 'A'] := by decide
example : envName src (declare src ⟨.int 7, .int, [], ['P'], none⟩ 0 ['a'] ['p', '.', 'q']) = ['P', '_', 'A'] := by decide

/-! ## `ConfigValue.__init__` and `__set_name__`: what a descriptor remembers -/

/-- a descriptor created by `ConfigValue(default, env_var=…, env_var_prefix=…, parser=…)` and placed under the name `n` in the
metaclass of class `c` (module `m`) remembers exactly: the default, THE TYPE OF THE DEFAULT as its type, the parser, its own
variable, the prefix given or else the module path of the owner, its owner and its name -/
theorem init_set_name_store_arguments (a : InitArgs) (c : Nat) (n m : Text) :
    declare src a c n m = ⟨c, n, a.default, a.ty, a.parser, a.envVar, prefixOr a.envPrefix m, m⟩ := declare_src a c n m

/-- … hence a freshly declared value reads its default, and with `PREFIX_NAME` in the environment the text parsed to the
type of the default -/
theorem declared_value_reads (P : Parsers) (a : InitArgs) (c : Nat) (n m : Text) (ho : a.envVar = []) (hp : a.envPrefix ≠ [])
    (s : State) (hx : s.explicit (slotKey src c n) = none) :
    (s.env (a.envPrefix ++ ['_'] ++ n.map upperC) = none → get src P (declare src a c n m) s = .ok a.default) ∧
    (∀ t, s.env (a.envPrefix ++ ['_'] ++ n.map upperC) = some t →
      get src P (declare src a c n m) s = parse src P ⟨c, n, a.default, a.ty, a.parser, [], a.envPrefix, m⟩ t) := by
  have hd : declare src a c n m = ⟨c, n, a.default, a.ty, a.parser, [], a.envPrefix, m⟩ := by
    rw [declare_src, ho]; simp [prefixOr, hp]
  have hn : envName src (declare src a c n m) = a.envPrefix ++ ['_'] ++ n.map upperC := env_name_declared a c n m ho hp
  simp only [slotKey_src] at hx
  constructor
  · intro he
    rw [get_refines, hn, he]
    rw [hd]
    simp [resolve, fromEnv, hx]
  · intro t he
    rw [get_refines, hn, he]
    rw [hd]
    simp [resolve, fromEnv, hx]

example : declare src ⟨.int 7, .int, [], ['P'], some 0⟩ 3 ['A'] ['m'] = ⟨3, ['A'], .int 7, .int, some 0, [], ['P'], ['m']⟩ := rfl
example : get src noParsers (declare src ⟨.int 7, .int, [], ['P'], none⟩ 0 ['A'] ['m'])
    ⟨fun _ => none, fun x => if x = ['P', '_', 'A'] then some ['1', '2'] else none⟩ = .ok (.int 12) := by decide
example : get src noParsers (declare src ⟨.int 7, .int, [], ['P'], none⟩ 0 ['A'] ['m']) State.init = .ok (.int 7) := by decide

/-! ## `ConfigValue.__set__` / `__delete__`: exactly the named value is touched -/

/-- assigning `C.N = v` (a declared value) stores `v` in the slot `__get__` reads for `N`, deleting removes it; neither touches
any other slot of any class nor the environment -/
theorem set_delete_touch_exactly_named (D : List CV) (s : State) (c : Nat) (n : Text) (v : V) :
    (known D c n = true → (step src D s (.assign c n v)).1.explicit (slotKey src c n) = some v) ∧
    (step src D s (.delete c n)).1.explicit (slotKey src c n) = none ∧
    (∀ k : Key, k ≠ slotKey src c n →
      (step src D s (.assign c n v)).1.explicit k = s.explicit k ∧ (step src D s (.delete c n)).1.explicit k = s.explicit k) ∧
    (step src D s (.assign c n v)).1.env = s.env ∧ (step src D s (.delete c n)).1.env = s.env := by
  refine ⟨?_, ?_, ?_, ?_, ?_⟩
  · intro hk; rw [step_explicit]; simp [writeOf, hk, pick]
  · rw [step_explicit]
    simp only [slotKey_src, writeOf, if_true, pick]
  · intro k hk
    have : (c, slotOf n) ≠ k := fun e => hk (by rw [slotKey_src, e])
    constructor <;> (rw [step_explicit]; simp [writeOf, this, pick])
  · funext x; rw [step_env]; rfl
  · funext x; rw [step_env]; rfl

/-- … so every OTHER configuration value (another name, or the same name in another class) reads what it read before -/
theorem set_delete_leave_other_values (P : Parsers) (D : List CV) (cv : CV) (s : State) (c : Nat) (n : Text) (v : V)
    (hne : (cv.cls, cv.name) ≠ (c, n)) :
    get src P cv (step src D s (.assign c n v)).1 = get src P cv s ∧
    get src P cv (step src D s (.delete c n)).1 = get src P cv s := by
  have hk : slotKey src cv.cls cv.name ≠ slotKey src c n := by
    intro e
    simp only [slotKey_src, Prod.mk.injEq] at e
    exact hne (by rw [e.1, slotOf_inj e.2])
  obtain ⟨_, _, h3, h4, h5⟩ := set_delete_touch_exactly_named D s c n v
  constructor
  · rw [get_refines, get_refines, (h3 _ hk).1, h4]
  · rw [get_refines, get_refines, (h3 _ hk).2, h5]

example : get src noParsers exF (step src exD ⟨fun _ => none, fun _ => none⟩ (.assign 0 ['A'] (.int 0))).1 = .ok (.bool true) := by
  decide
example : (step src exD State.init (.assign 0 ['A'] (.int 0))).1.explicit (0, ['_', 'A']) = some (.int 0) := by decide
example : (step src exD State.init (.assign 0 ['A'] (.int 0))).1.explicit (0, ['_', 'F']) = none := by decide
example : (step src exD State.init (.assign 0 ['A'] (.int 0))).1.explicit (1, ['_', 'A']) = none := by decide

/-! ## Bulk update -/

/-- all names known: `update` succeeds, leaves the environment alone, gives every named value its entry (names are the
keys of a dict: distinct) and changes no other slot of any class -/
theorem update_exactly_named (D : List CV) (s : State) (c : Nat) (d : List (Text × V))
    (hk : ∀ e ∈ d, known D c e.1 = true) (hnd : (d.map (·.1)).Nodup) :
    (step src D s (.update c d)).2 = .ok ∧
    (step src D s (.update c d)).1.env = s.env ∧
    (∀ e ∈ d, (step src D s (.update c d)).1.explicit (slotKey src c e.1) = some e.2) ∧
    (∀ k : Key, (k.1 ≠ c ∨ k.2 ∉ d.map (slotOf ·.1)) → (step src D s (.update c d)).1.explicit k = s.explicit k) := by
  have hout : ∀ (d : List (Text × V)) (e : Key → Option V), (∀ x ∈ d, known D c x.1 = true) →
      (updateLoop src D c d e).2 = .ok := by
    intro d
    induction d with
    | nil => intro e _; rfl
    | cons x rest ih =>
      intro e h
      obtain ⟨n, v⟩ := x
      simp only [updateLoop, h (n, v) (by simp), if_true]
      exact ih _ (fun y hy => h y (by simp [hy]))
  have hw : ∀ (d : List (Text × V)) (k : Key), (∀ x ∈ d, known D c x.1 = true) → (d.map (·.1)).Nodup →
      updWrite D c k d = (d.find? (fun x => (c, slotOf x.1) = k)).map (·.2) := by
    intro d k
    induction d with
    | nil => intro _ _; rfl
    | cons x rest ih =>
      intro h hn
      obtain ⟨n, v⟩ := x
      simp only [List.map_cons, List.nodup_cons] at hn
      simp only [updWrite, h (n, v) (by simp), if_true, ih (fun y hy => h y (by simp [hy])) hn.2, List.find?_cons]
      by_cases he : (c, slotOf n) = k
      · have : rest.find? (fun x => (c, slotOf x.1) = k) = none := by
          apply List.find?_eq_none.mpr
          intro y hy hyk
          have : y.1 = n := by
            have := he.trans (of_decide_eq_true hyk).symm
            simp at this; exact (slotOf_inj this).symm
          exact hn.1 (by rw [← this]; exact List.mem_map_of_mem hy)
        simp [he, this]
      · simp only [he, decide_false]
        cases rest.find? (fun x => (c, slotOf x.1) = k) <;> simp
  refine ⟨by simp [step, hout d _ hk], by simp [step], ?_, ?_⟩
  · intro e he
    have : d.find? (fun x => (c, slotOf x.1) = (c, slotOf e.1)) = some e :=
      find?_key_of_mem d hnd he (fun n => decide ((c, slotOf n) = (c, slotOf e.1))) (by intro n; simp [slotOf])
    rw [slotKey_src, step_explicit]
    simp only [writeOf]
    rw [hw d _ hk hnd, this]
    rfl
  · intro k hk'
    have : d.find? (fun x => (c, slotOf x.1) = k) = none := by
      apply List.find?_eq_none.mpr
      intro y hy hyk
      have hyk := of_decide_eq_true hyk
      rcases hk' with h1 | h2
      · exact h1 (by rw [← hyk])
      · exact h2 (by rw [← hyk]; exact List.mem_map_of_mem (f := fun x : Text × V => slotOf x.1) hy)
    rw [step_explicit]
    simp only [writeOf]
    rw [hw d _ hk hnd, this]
    rfl

/-- an unknown name is rejected with `AttributeError`; … -/
theorem update_rejects_unknown (D : List CV) (s : State) (c : Nat) (d : List (Text × V))
    (hu : ∃ e ∈ d, known D c e.1 = false) : (step src D s (.update c d)).2 = .err .attributeError := by
  have : ∀ (d : List (Text × V)) (e : Key → Option V), (∃ x ∈ d, known D c x.1 = false) →
      (updateLoop src D c d e).2 = .err .attributeError := by
    intro d
    induction d with
    | nil => intro e h; obtain ⟨x, hx, _⟩ := h; cases hx
    | cons x rest ih =>
      intro e h
      obtain ⟨n, v⟩ := x
      by_cases hk : known D c n = true
      · simp only [updateLoop, hk, if_true]
        apply ih
        obtain ⟨y, hy, hyk⟩ := h
        rcases List.mem_cons.mp hy with rfl | hm
        · simp [hk] at hyk
        · exact ⟨y, hm, hyk⟩
      · simp only [updateLoop, hk]
        rfl
  simp [step, this d _ hu]

/-- … and even then no value that is not named, no value of another class and no environment variable changes -/
theorem update_frame (D : List CV) (s : State) (c : Nat) (d : List (Text × V)) (k : Key)
    (hk : k.1 ≠ c ∨ k.2 ∉ d.map (slotOf ·.1)) :
    (step src D s (.update c d)).1.explicit k = s.explicit k ∧ (step src D s (.update c d)).1.env = s.env := by
  refine ⟨?_, by simp [step]⟩
  rw [step_explicit]
  have : ∀ d : List (Text × V), (k.1 ≠ c ∨ k.2 ∉ d.map (slotOf ·.1)) → updWrite D c k d = none := by
    intro d
    induction d with
    | nil => intro _; rfl
    | cons x rest ih =>
      intro h
      obtain ⟨n, v⟩ := x
      have hr : k.1 ≠ c ∨ k.2 ∉ rest.map (slotOf ·.1) := by
        rcases h with h | h
        · exact .inl h
        · exact .inr (fun hm => h (by simp [hm]))
      have hne : (c, slotOf n) ≠ k := by
        intro e
        rcases h with h | h
        · exact h (by rw [← e])
        · exact h (by rw [← e]; simp)
      simp only [updWrite, ih hr, hne, if_false]
      split <;> rfl
  simp [writeOf, this d hk, pick]

example : (step src exD State.init (.update 0 [(['A'], .int 0), (['F'], .bool false)])).2 = .ok := by decide
example : get src noParsers exA (step src exD State.init (.update 0 [(['A'], .int 0), (['F'], .bool false)])).1
    = .ok (.int 0) := by decide
example : (step src exD State.init (.update 0 [(['A'], .int 0), (['Z'], .int 1)])).2 = .err .attributeError := by decide
example : get src noParsers exF (step src exD State.init (.update 0 [(['A'], .int 0), (['Z'], .int 1)])).1
    = .ok (.bool true) := by decide

/-! ## `ConfigMeta.to_dict` and what `update` returns

`to_dict` is modelled as the source has it: every `ConfigValue` of the metaclass under its name - the DESCRIPTOR objects, not
the values they resolve to. -/

/-- the names listed by `to_dict` are exactly the declared configuration values of the class - the names `update` accepts -/
theorem to_dict_names_exactly_declared (D : List CV) (c : Nat) (n : Text) :
    n ∈ (toDict src D c).map (·.1) ↔ known D c n = true := by
  simp only [toDict, known, lookupCV, List.find?_isSome, List.map_map, List.mem_map, List.mem_filter, Function.comp]
  constructor
  · rintro ⟨cv, ⟨hm, hc⟩, rfl⟩
    exact ⟨cv, hm, by simp [hc]⟩
  · rintro ⟨cv, hm, hp⟩
    simp only [Bool.and_eq_true, beq_iff_eq] at hp
    exact ⟨cv, ⟨hm, by simp [hp.1]⟩, hp.2⟩

/-- … in declaration order, each one with ITS DESCRIPTOR (`to_dict` does not resolve the values) -/
theorem to_dict_yields_descriptors (D : List CV) (c : Nat) :
    toDict src D c = (D.filter (fun cv => cv.cls == c)).map fun cv => (cv.name, V.desc c cv.name) := rfl

/-- `update` returns `to_dict()` when it accepts the names, and raises `AttributeError` otherwise -/
theorem update_returns_to_dict (D : List CV) (s : State) (c : Nat) (d : List (Text × V)) :
    ((∀ e ∈ d, known D c e.1 = true) → updateResult src D s c d = .ok (some (toDict src D c))) ∧
    ((∃ e ∈ d, known D c e.1 = false) → updateResult src D s c d = .error .attributeError) := by
  constructor
  · intro hk
    have h : ∀ (d : List (Text × V)) (e : Key → Option V), (∀ x ∈ d, known D c x.1 = true) →
        (updateLoop src D c d e).2 = .ok := by
      intro d
      induction d with
      | nil => intro e _; rfl
      | cons x rest ih =>
        intro e h
        obtain ⟨n, v⟩ := x
        simp only [updateLoop, h (n, v) (by simp), if_true]
        exact ih _ (fun y hy => h y (by simp [hy]))
    simp only [updateResult, h d _ hk]
    rfl
  · intro hu
    have := update_rejects_unknown D s c d hu
    simp only [step] at this
    simp only [updateResult, this]

/-- `C.update(C.to_dict())` is accepted (value names of a class are distinct) … -/
theorem update_accepts_to_dict (D : List CV) (s : State) (c : Nat) :
    (step src D s (.update c (toDict src D c))).2 = .ok := by
  have hk : ∀ e ∈ toDict src D c, known D c e.1 = true := fun e he =>
    (to_dict_names_exactly_declared D c e.1).mp (List.mem_map_of_mem he)
  have h : ∀ (d : List (Text × V)) (e : Key → Option V), (∀ x ∈ d, known D c x.1 = true) →
      (updateLoop src D c d e).2 = .ok := by
    intro d
    induction d with
    | nil => intro e _; rfl
    | cons x rest ih =>
      intro e h
      obtain ⟨n, v⟩ := x
      simp only [updateLoop, h (n, v) (by simp), if_true]
      exact ih _ (fun y hy => h y (by simp [hy]))
  simp [step, h _ _ hk]

/-- … but it is NOT the identity on the values: afterwards every value of the class reads as its own descriptor object, whatever
it resolved to before (the dictionary holds descriptors, `update` stores them as explicit values).  The reading "to_dict = the
resolved values, update(to_dict()) changes nothing" is false of the source and of the model. -/
theorem update_to_dict_stores_descriptors (P : Parsers) (D : List CV) (s : State) (c : Nat) (cv : CV) (hm : cv ∈ D)
    (hc : cv.cls = c) (hnd : ((D.filter (fun cv => cv.cls == c)).map (·.name)).Nodup) :
    get src P cv (step src D s (.update c (toDict src D c))).1 = .ok (.desc c cv.name) := by
  have hk : ∀ e ∈ toDict src D c, known D c e.1 = true := fun e he =>
    (to_dict_names_exactly_declared D c e.1).mp (List.mem_map_of_mem he)
  have hnd' : ((toDict src D c).map (·.1)).Nodup := by
    have e : (toDict src D c).map (·.1) = (D.filter (fun cv => cv.cls == c)).map (·.name) := by
      simp [toDict, List.map_map, Function.comp_def]
    rw [e]; exact hnd
  have hin : (cv.name, V.desc c cv.name) ∈ toDict src D c := by
    rw [to_dict_yields_descriptors]
    exact List.mem_map.mpr ⟨cv, List.mem_filter.mpr ⟨hm, by simp [hc]⟩, rfl⟩
  have := (update_exactly_named D s c (toDict src D c) hk hnd').2.2.1 _ hin
  rw [get_refines, hc, this]
  simp [resolve]

example : toDict src exD 0 = [(['A'], .desc 0 ['A']), (['F'], .desc 0 ['F'])] := by decide
example : updateResult src exD State.init 0 [(['A'], .int 3)] = .ok (some [(['A'], .desc 0 ['A']), (['F'], .desc 0 ['F'])]) := rfl
example : updateResult src exD State.init 0 [(['Z'], .int 3)] = .error .attributeError := rfl
example : get src noParsers exA (step src exD State.init (.update 0 (toDict src exD 0))).1 = .ok (.desc 0 ['A']) := by decide
example : get src noParsers exA State.init = .ok (.int 7) := by decide
example : ((exD.filter (fun cv => cv.cls == 0)).map (·.name)).Nodup := by decide

/-! ## Parsing inverts the natural text form -/

/-- a custom parser, when given, is what parses the text — whatever the type of the default -/
theorem parse_uses_custom_parser (P : Parsers) (cv : CV) (t : Text) (i : Nat) (hp : cv.parser = some i) :
    parse src P cv t = P i t := parse_custom P cv t hp

/-- integers: `int(str(n)) = n`, also with blanks around (`renderInt` is `str` on `int`, checked against python) -/
theorem parse_int_roundtrip (P : Parsers) (cv : CV) (hty : cv.ty = .int) (hp : cv.parser = none) (n : Int)
    {ws1 ws2 : Text} (h1 : AllP isNumSpace ws1) (h2 : AllP isNumSpace ws2) :
    parse src P cv (ws1 ++ renderInt n ++ ws2) = .ok (.int n) := by
  rw [parse_int P cv _ hty hp, pyInt_render h1 h2]

example : parse src noParsers exA (renderInt (-305)) = .ok (.int (-305)) := by decide
example : renderInt (-305) = ['-', '3', '0', '5'] := by decide
example : parse src noParsers exA [' ', '4', '2', '\n'] = .ok (.int 42) := by decide

/-- the two words a boolean is written with -/
def boolWord : Bool → Text
  | true => ['t', 'r', 'u', 'e']
  | false => ['f', 'a', 'l', 's', 'e']

/-- booleans: `true` / `false` in ANY letter case, with blanks around -/
theorem parse_bool_roundtrip (P : Parsers) (cv : CV) (hty : cv.ty = .bool) (hp : cv.parser = none) (b : Bool)
    {ws1 ws2 w : Text} (h1 : AllP isSpace ws1) (h2 : AllP isSpace ws2) (hw : w.map lowerC = boolWord b) :
    parse src P cv (ws1 ++ w ++ ws2) = .ok (.bool b) := by
  rw [parse_bool P cv _ hty hp]
  have m1 : AllP isSpace (ws1.map lowerC) := by
    intro c hc; obtain ⟨d, hd, rfl⟩ := List.mem_map.mp hc; rw [isSpace_lowerC]; exact h1 d hd
  have m2 : AllP isSpace (ws2.map lowerC) := by
    intro c hc; obtain ⟨d, hd, rfl⟩ := List.mem_map.mp hc; rw [isSpace_lowerC]; exact h2 d hd
  have key : applyOps [.lower, .strip] (ws1 ++ w ++ ws2) = boolWord b := by
    simp only [applyOps, applyOp, List.map_append, hw, strip]
    exact stripBy_pad m1 m2 (by cases b <;> decide)
  simp only [src, Gen.C20.boolTests, parseBool, key]
  cases b <;> simp [boolWord]

example : parse src noParsers exF [' ', 'T', 'r', 'U', 'e', '\t'] = .ok (.bool true) := by decide
example : parse src noParsers exF ['F', 'A', 'L', 'S', 'E'] = .ok (.bool false) := by decide

/-- strings are taken as they are -/
theorem parse_str_roundtrip (P : Parsers) (cv : CV) (hty : cv.ty = .str) (hp : cv.parser = none) (t : Text) :
    parse src P cv t = .ok (.str t) := parse_str P cv t hty hp

/-- paths: `Path(text)` (pathlib's own `Path(str(p)) == p` is a parameter) -/
theorem parse_path_roundtrip (P : Parsers) (cv : CV) (hty : cv.ty = .path) (hp : cv.parser = none) (t : Text) :
    parse src P cv t = .ok (.path t) := parse_path P cv t hty hp

/-- types without a branch of their own (`float`, user classes): `type(text)`, nothing else (`float(repr(x)) == x`
is CPython's guarantee) -/
theorem parse_other_constructs (P : Parsers) (cv : CV) (k : Nat) (hty : cv.ty = .other k) (hp : cv.parser = none)
    (t : Text) : parse src P cv t = .ok (.sym k t) := parse_other P cv t hty hp

/-- enum members by number: the decimal text of a member's value, also with blanks around -/
theorem parse_enum_by_number (P : Parsers) (cv : CV) (mix : Mix) (ms : List (Text × Int)) (hty : cv.ty = .enum mix ms)
    (hmix : mix.byNumber = true) (hp : cv.parser = none) (name : Text) (v : Int) (hm : (name, v) ∈ ms)
    {ws1 ws2 : Text} (h1 : AllP isNumSpace ws1) (h2 : AllP isNumSpace ws2) :
    parse src P cv (ws1 ++ renderInt v ++ ws2) = .ok (.enum v) := by
  rw [parse_enum P cv _ hty hp]
  simp only [src, Gen.C20.enumLookups, enumChain, enumAttempt, pyInt_render h1 h2, hasValue_of_mem hm, hmix]
  simp

/-- enum members by name: the exact name of ANY member (upper case or not), names being distinct and no numbers -/
theorem parse_enum_by_name (P : Parsers) (cv : CV) (mix : Mix) (ms : List (Text × Int)) (hty : cv.ty = .enum mix ms)
    (hp : cv.parser = none) (name : Text) (v : Int) (hm : (name, v) ∈ ms) (hnd : (ms.map (·.1)).Nodup)
    (hnum : NumberMissFor mix ms name) : parse src P cv name = .ok (.enum v) := by
  rw [parse_enum P cv _ hty hp]
  simp only [src, Gen.C20.enumLookups, enumChain, enumAttempt_number_missFor hnum]
  simp [enumAttempt, applyOps, memberByName_of_mem hnd hm]

/-- … and in another letter case, when no member carries that very spelling: the upper-cased text is looked up -/
theorem parse_enum_by_name_anycase (P : Parsers) (cv : CV) (mix : Mix) (ms : List (Text × Int))
    (hty : cv.ty = .enum mix ms) (hp : cv.parser = none) (t : Text) (v : Int) (hnum : NumberMissFor mix ms t)
    (hx : memberByName t ms = none) (hup : memberByName (t.map upperC) ms = some v) :
    parse src P cv t = .ok (.enum v) := by
  rw [parse_enum P cv _ hty hp]
  simp only [src, Gen.C20.enumLookups, enumChain, enumAttempt_number_missFor hnum]
  simp [enumAttempt, applyOps, applyOp, hx, hup]

/-- an enum like `class Mode(Enum): Lower = 1; UPPER = 2` -/
def exMode : CV := ⟨0, ['M'], .enum 2, .enum .plain [(['L', 'o', 'w', 'e', 'r'], 1), (['U', 'P', 'P', 'E', 'R'], 2)], none, [],
  ['P'], ['m']⟩

example : parse src noParsers exMode ['L', 'o', 'w', 'e', 'r'] = .ok (.enum 1) := by decide
example : parse src noParsers exMode ['u', 'p', 'p', 'e', 'r'] = .ok (.enum 2) := by decide
example : parse src noParsers exMode [' ', '2'] = .ok (.enum 2) := by decide
example : NumberMiss [(['L', 'o', 'w', 'e', 'r'], 1), (['U', 'P', 'P', 'E', 'R'], 2)] ['L', 'o', 'w', 'e', 'r'] := by
  intro n h
  have : pyInt ['L', 'o', 'w', 'e', 'r'] = none := by decide
  rw [this] at h; cases h

/-- comma-separated lists: the items as written between the commas, each without its surrounding blanks
(any non-empty list of comma-free pieces) -/
theorem parse_list_general (P : Parsers) (cv : CV) (hty : cv.ty = .list) (hp : cv.parser = none) (raw : List Text)
    (hne : raw ≠ []) (hc : ∀ r ∈ raw, ',' ∉ r) :
    parse src P cv (join ',' raw) = .ok (.list (raw.map strip)) := by
  rw [parse_list P cv _ hty hp]
  have : split src.listSep (join ',' raw) = raw := split_join hne hc
  rw [this]
  simp [src, Gen.C20.listItemNorm, applyOps, applyOp]

/-- … hence `",".join(items)` parses back to `items` when the items are trimmed and comma-free, with or without
blanks around each item -/
theorem parse_list_roundtrip (P : Parsers) (cv : CV) (hty : cv.ty = .list) (hp : cv.parser = none)
    (items : List Padded) (hne : items ≠ []) (hok : ∀ x ∈ items, x.Ok [',']) :
    parse src P cv (join ',' (items.map Padded.text)) = .ok (.list (items.map Padded.core)) := by
  rw [parse_list_general P cv hty hp _ (by simpa using hne)]
  · congr 2
    rw [List.map_map]
    apply List.map_congr_left
    intro x hx
    exact Padded.strip_text (hok x hx)
  · intro r hr
    obtain ⟨x, hx, rfl⟩ := List.mem_map.mp hr
    exact Padded.not_mem_text (hok x hx) (by simp) (by decide)

/-- tuples alike -/
theorem parse_tuple_roundtrip (P : Parsers) (cv : CV) (hty : cv.ty = .tuple) (hp : cv.parser = none)
    (items : List Padded) (hne : items ≠ []) (hok : ∀ x ∈ items, x.Ok [',']) :
    parse src P cv (join ',' (items.map Padded.text)) = .ok (.tuple (items.map Padded.core)) := by
  rw [parse_tuple P cv _ hty hp]
  have hc : ∀ r ∈ items.map Padded.text, ',' ∉ r := by
    intro r hr
    obtain ⟨x, hx, rfl⟩ := List.mem_map.mp hr
    exact Padded.not_mem_text (hok x hx) (by simp) (by decide)
  have : split src.listSep (join ',' (items.map Padded.text)) = items.map Padded.text :=
    split_join (by simpa using hne) hc
  rw [this]
  simp only [src, Gen.C20.listItemNorm, applyOps, applyOp, List.map_map]
  congr 2
  apply List.map_congr_left
  intro x hx
  exact Padded.strip_text (hok x hx)

/-- the empty text is NOT the text form of the empty list: it parses to the list holding one empty string
(`"".split(",") == [""]`) — stated, not hidden; the inversion theorems above require a non-empty list -/
theorem parse_list_empty_text (P : Parsers) (cv : CV) (hty : cv.ty = .list) (hp : cv.parser = none) :
    parse src P cv [] = .ok (.list [[]]) := by
  rw [parse_list P cv _ hty hp]; decide

def exL : CV := ⟨0, ['L'], .list [], .list, none, [], ['P'], ['m']⟩

example : parse src noParsers exL ['a', ',', ' ', 'b', ' ', 'c', ' ', ',', ','] = .ok (.list [['a'], ['b', ' ', 'c'], [], []]) := by
  decide
example : (⟨[' '], ['b', ' ', 'c'], [' ']⟩ : Padded).Ok [','] := by
  refine ⟨by decide, by decide, by decide, by decide⟩

/-- the text of one `key = value` pair -/
def pairText (kv : Padded × Padded) : Text := kv.1.text ++ '=' :: kv.2.text

/-- `k=v` mappings: `",".join(f"{k}={v}")` (blanks allowed around pairs, keys and values) parses to the dict of the
pairs — later pairs overwrite earlier ones with the same key, as `dict(pairs)` does -/
theorem parse_mapping_roundtrip (P : Parsers) (cv : CV) (hty : cv.ty = .dict) (hp : cv.parser = none)
    (pairs : List (Padded × Padded)) (hne : pairs ≠ [])
    (hok : ∀ kv ∈ pairs, kv.1.Ok [',', '='] ∧ kv.2.Ok [',', '=']) :
    parse src P cv (join ',' (pairs.map pairText)) =
      .ok (.dict ((pairs.map fun kv => (kv.1.core, kv.2.core)).foldl (fun acc kv => dictSet kv.1 kv.2 acc) [])) := by
  rw [parse_dict P cv _ hty hp]
  have hc : ∀ r ∈ pairs.map pairText, ',' ∉ r := by
    intro r hr
    obtain ⟨kv, hkv, rfl⟩ := List.mem_map.mp hr
    intro hm
    simp only [pairText, List.mem_append, List.mem_cons] at hm
    rcases hm with hm | hm | hm
    · exact Padded.not_mem_text (hok kv hkv).1 (by simp) (by decide) hm
    · cases hm
    · exact Padded.not_mem_text (hok kv hkv).2 (by simp) (by decide) hm
  have hs : split src.mapSep (join ',' (pairs.map pairText)) = pairs.map pairText :=
    split_join (by simpa using hne) hc
  rw [hs, List.map_map]
  have hp2 : ∀ kv ∈ pairs, ((fun p => (split src.mapKvSep (applyOps src.mapPairNorm p)).map (applyOps src.mapPartNorm))
      ∘ pairText) kv = [kv.1.core, kv.2.core] := by
    intro kv hkv
    obtain ⟨hk, hv⟩ := hok kv hkv
    have e1 : applyOps src.mapPairNorm (pairText kv) = lstripBy isSpace kv.1.text ++ '=' :: rstripBy isSpace kv.2.text := by
      simp only [src, Gen.C20.mapPairNorm, applyOps, applyOp, strip, pairText]
      exact stripBy_mid (by decide) _ _
    have n1 : '=' ∉ lstripBy isSpace kv.1.text :=
      fun hm => Padded.not_mem_text hk (by simp) (by decide) (mem_lstripBy hm)
    have n2 : '=' ∉ rstripBy isSpace kv.2.text :=
      fun hm => Padded.not_mem_text hv (by simp) (by decide) (mem_rstripBy hm)
    have e2 : split src.mapKvSep (lstripBy isSpace kv.1.text ++ '=' :: rstripBy isSpace kv.2.text)
        = [lstripBy isSpace kv.1.text, rstripBy isSpace kv.2.text] := by
      show split '=' _ = _
      rw [split_append_sep n1, split_noSep n2]
    simp only [Function.comp]
    rw [e1, e2]
    simp only [List.map_cons, List.map_nil, src, Gen.C20.mapPartNorm, applyOps, applyOp, strip]
    rw [stripBy_lstripBy]
    have a := stripBy_pad hk.1 hk.2.1 hk.2.2.1
    have b := stripBy_rstripBy_pad hv.1 hv.2.1 hv.2.2.1
    simp only [Padded.text] at *
    rw [a, b]
  rw [List.map_congr_left hp2]
  have := dictOf_pairs (pairs.map fun kv => (kv.1.core, kv.2.core)) []
  rw [List.map_map] at this
  exact this

/-- with distinct keys that is the list of pairs itself, in the order written -/
theorem parse_mapping_roundtrip_distinct (P : Parsers) (cv : CV) (hty : cv.ty = .dict) (hp : cv.parser = none)
    (pairs : List (Padded × Padded)) (hne : pairs ≠ [])
    (hok : ∀ kv ∈ pairs, kv.1.Ok [',', '='] ∧ kv.2.Ok [',', '='])
    (hnd : (pairs.map fun kv => kv.1.core).Nodup) :
    parse src P cv (join ',' (pairs.map pairText)) = .ok (.dict (pairs.map fun kv => (kv.1.core, kv.2.core))) := by
  rw [parse_mapping_roundtrip P cv hty hp pairs hne hok, foldl_dictSet_nodup]
  · simp
  · rw [List.nil_append, List.map_map]; exact hnd

def exM : CV := ⟨0, ['D'], .dict [], .dict, none, [], ['P'], ['m']⟩

example : parse src noParsers exM ['a', '=', '1', ',', ' ', 'b', ' ', '=', ' ', '2', ' ']
    = .ok (.dict [(['a'], ['1']), (['b'], ['2'])]) := by decide
example : parse src noParsers exM ['a', '=', '1', ',', 'a', '=', '2'] = .ok (.dict [(['a'], ['2'])]) := by decide

/-! ## Unparseable text raises -/

/-- anything but `true` / `false` (letter case and surrounding blanks aside) is no boolean: `ValueError` -/
theorem unparseable_bool_raises (P : Parsers) (cv : CV) (hty : cv.ty = .bool) (hp : cv.parser = none) (t : Text)
    (h1 : strip (t.map lowerC) ≠ boolWord true) (h2 : strip (t.map lowerC) ≠ boolWord false) :
    parse src P cv t = .error .valueError := by
  rw [parse_bool P cv _ hty hp]
  simp only [boolWord] at h1 h2
  simp [src, Gen.C20.boolTests, Gen.C20.boolElse, parseBool, applyOps, applyOp, h1, h2]

/-- a text that (blanks aside) contains anything but digits, `_`, `+`, `-` is no integer: `ValueError` -/
theorem unparseable_int_raises (P : Parsers) (cv : CV) (hty : cv.ty = .int) (hp : cv.parser = none) (t : Text)
    (c : Char) (hc : c ∈ stripBy isNumSpace t) (hd : isDigit c = false) (h1 : c ≠ '_') (h2 : c ≠ '-') (h3 : c ≠ '+') :
    parse src P cv t = .error .valueError := by
  rw [parse_int P cv _ hty hp, pyInt_none_of_bad_char hc hd h1 h2 h3]

/-- a text that is no member's number, no member's name and not the lower/mixed-case spelling of a member's name is
no enum member: `KeyError` -/
theorem unparseable_enum_raises (P : Parsers) (cv : CV) (mix : Mix) (ms : List (Text × Int)) (hty : cv.ty = .enum mix ms)
    (hp : cv.parser = none) (t : Text) (hnum : NumberMissFor mix ms t) (hx : memberByName t ms = none)
    (hup : memberByName (t.map upperC) ms = none) : parse src P cv t = .error .keyError := by
  rw [parse_enum P cv _ hty hp]
  simp only [src, Gen.C20.enumLookups, enumChain, enumAttempt_number_missFor hnum]
  simp [enumAttempt, applyOps, applyOp, hx, hup]

/-- a mapping text with a piece that has not exactly one `=` is rejected: `ValueError` -/
theorem unparseable_mapping_raises (P : Parsers) (cv : CV) (hty : cv.ty = .dict) (hp : cv.parser = none) (t : Text)
    (piece : Text) (hm : piece ∈ split ',' t) (hb : (split '=' (strip piece)).length ≠ 2) :
    parse src P cv t = .error .valueError := by
  rw [parse_dict P cv _ hty hp]
  apply dictOf_bad
  refine ⟨_, List.mem_map_of_mem (a := piece) (by exact hm), ?_⟩
  simpa [src, Gen.C20.mapPairNorm, Gen.C20.mapKvSep, applyOps, applyOp] using hb

example : parse src noParsers exF ['y', 'e', 's'] = .error .valueError := by decide
example : parse src noParsers exA ['1', '.', '5'] = .error .valueError := by decide
example : parse src noParsers exMode ['n', 'o'] = .error .keyError := by decide
example : parse src noParsers exM ['a', '=', 'b', ',', 'c'] = .error .valueError := by decide
example : parse src noParsers exM [] = .error .valueError := by decide

/-- an unparseable environment text makes READING the value raise (the error is not swallowed into the default) -/
theorem unparseable_env_raises (P : Parsers) (cv : CV) (s : State) (t : Text) (e : Err)
    (hx : s.explicit (slotKey src cv.cls cv.name) = none) (he : s.env (envName src cv) = some t)
    (hp : parse src P cv t = .error e) : get src P cv s = .error e := by
  rw [get_refines, hx, he]; simp [resolve, fromEnv, hp]

/-! ## The type lattice: a default's type may be a subclass of several dispatch classes

`Ty.supers` / `Ty.exact` relate every value type to the classes `ConfigValue.parse` tests (`issubclass(self.type, T)` /
`isinstance(self.default, T)` hold for every `T ∈ supers`, `self.type is T` for `T = exact` only).  `src.parseTests` lists the
tests of the source in source order with the KIND of each test as the translator reads it.  The statement assigns every
type ONE text form: that of its most specific dispatch class in the order `priority` - an enum class is an enum whatever
data type it mixes in (`class Backend(str, Enum)`, `StrEnum`, `IntEnum`, `IntFlag`), `bool` comes before `int`, a text or a
mapping before "some iterable". -/

/-- the order of the statement: most specific reading first -/
def priority : List Branch := [.enum, .bool, .path, .str, .int, .mapping, .iterable]

/-- the dispatch class whose text form the statement demands for a type (`none`: no form of its own, `type(text)`) -/
def Ty.demanded (ty : Ty) : Option Branch := priority.find? (fun b => ty.supers.contains b)

/-- for EVERY well-formed type of the lattice the branch `parse` takes is the one of the most specific dispatch class; where
`parse` falls through to `self.type(s)` the demanded form is one the constructor of the type reads itself (`Path(text)`,
`int(text)`) or none at all -/
theorem selected_branch_most_specific (ty : Ty) (hwf : ty.wf = true) :
    match selectedTest ty src.parseTests with
    | some b => ty.demanded = some b.cls
    | none => ty.demanded = none ∨ ty.demanded = some .path ∨ ty.demanded = some .int := by
  cases ty with
  | bool => simp [selectedTest, src, Gen.C20.parseTests, Ty.passes, Ty.exact, Ty.supers, Ty.demanded, priority]
  | path => simp [selectedTest, src, Gen.C20.parseTests, Ty.passes, Ty.exact, Ty.supers, Ty.demanded, priority]
  | str => simp [selectedTest, src, Gen.C20.parseTests, Ty.passes, Ty.exact, Ty.supers, Ty.demanded, priority]
  | int => simp [selectedTest, src, Gen.C20.parseTests, Ty.passes, Ty.exact, Ty.supers, Ty.demanded, priority]
  | dict => simp [selectedTest, src, Gen.C20.parseTests, Ty.passes, Ty.exact, Ty.supers, Ty.demanded, priority]
  | list => simp [selectedTest, src, Gen.C20.parseTests, Ty.passes, Ty.exact, Ty.supers, Ty.demanded, priority]
  | tuple => simp [selectedTest, src, Gen.C20.parseTests, Ty.passes, Ty.exact, Ty.supers, Ty.demanded, priority]
  | other c => simp [selectedTest, src, Gen.C20.parseTests, Ty.passes, Ty.exact, Ty.supers, Ty.demanded, priority]
  | ntuple k => simp [selectedTest, src, Gen.C20.parseTests, Ty.passes, Ty.exact, Ty.supers, Ty.demanded, priority]
  | enum mix ms =>
    cases mix <;> simp [selectedTest, src, Gen.C20.parseTests, Ty.passes, Ty.exact, Ty.supers, Ty.demanded, priority]
  | sub k b =>
    simp only [Ty.wf, Bool.and_eq_true] at hwf
    obtain ⟨hb, hs, _⟩ := root_of_subclassable b hwf.1 hwf.2
    have key : ∀ r : Ty, r.isBase = true → b.supers = r.supers →
        match selectedTest (.sub k b) src.parseTests with
        | some t => (Ty.sub k b).demanded = some t.cls
        | none => (Ty.sub k b).demanded = none ∨ (Ty.sub k b).demanded = some .path ∨ (Ty.sub k b).demanded = some .int := by
      intro r hr hsr
      cases r <;> first
        | (simp [Ty.isBase] at hr; done)
        | (simp [selectedTest, src, Gen.C20.parseTests, Ty.passes, Ty.exact, Ty.supers, Ty.demanded, priority, hsr])
    exact key b.root hb hs

-- non-vacuity: the branch taken by a `(str, Enum)` class is the enum branch (not the str one), `bool` takes the bool branch
-- (not an int one), a user-defined str subclass the str-subclass branch (not the iterable one), a user-defined dict subclass
-- the mapping branch; `PosixPath` and `int` fall through to their constructors
example : selectedTest (.enum .str [(['A'], 1)]) src.parseTests = some ⟨.enum, .subclass, .std⟩ := by decide
example : selectedTest (.enum (.flag 0) [(['A'], 1)]) src.parseTests = some ⟨.enum, .subclass, .std⟩ := by decide
example : selectedTest .bool src.parseTests = some ⟨.bool, .identity, .std⟩ := by decide
example : selectedTest (.sub 0 .str) src.parseTests = some ⟨.str, .subclass, .selfType⟩ := by decide
example : selectedTest (.sub 1 (.sub 0 .dict)) src.parseTests = some ⟨.mapping, .subclass, .std⟩ := by decide
example : selectedTest .path src.parseTests = none ∧ Ty.path.demanded = some .path := by decide
example : selectedTest (.sub 0 .int) src.parseTests = none ∧ (Ty.sub 0 .int).demanded = some .int := by decide
example : (Ty.sub 1 (.sub 0 .dict)).wf = true ∧ (Ty.sub 0 .bool).wf = false := by decide

/-- "parsed to the TYPE OF THE DEFAULT": a default that is an instance of a user-defined subclass (of any depth) of `str`,
`int`, `float`, `Path`, `list`, `tuple`, `dict` is read exactly like the built-in type - same text form, same errors - and
the result is an instance of the subclass -/
theorem parse_subclass_keeps_type (P : Parsers) (cv : CV) (k : Nat) (b : Ty) (hty : cv.ty = .sub k b)
    (hwf : (Ty.sub k b).wf = true) (hp : cv.parser = none) (t : Text) :
    parse src P cv t = (parse src P { cv with ty := b.root } t).map (V.inst k) := by
  simp only [Ty.wf, Bool.and_eq_true] at hwf
  obtain ⟨hb, hs, hrr⟩ := root_of_subclassable b hwf.1 hwf.2
  rw [parseBranches_src_of_supers P cv t hp (by rw [hty]; rfl)]
  have hroot : cv.ty.root = b.root := by rw [hty]; rfl
  have hwrap : ∀ v, cv.ty.wrap v = V.inst k v := by intro v; rw [hty]; rfl
  have hsup : cv.ty.supers = b.root.supers := by rw [hty]; exact hs
  generalize hr : b.root = r at hb hroot hsup hrr
  cases r with
  | bool => cases hb
  | enum _ _ => cases hb
  | ntuple _ => cases hb
  | sub _ _ => cases hb
  | path =>
    rw [parse_path P { cv with ty := _ } t rfl hp]
    simp [hsup, Ty.supers, construct, hroot, constructRoot, Except.map, hwrap]
  | str =>
    rw [parse_str P { cv with ty := _ } t rfl hp]
    simp [hsup, Ty.supers, runBranch, construct, hroot, constructRoot, Except.map, hwrap]
  | int =>
    rw [parse_int P { cv with ty := _ } t rfl hp]
    simp only [hsup, Ty.supers, construct, hroot, constructRoot]
    cases pyInt t <;> simp [Except.map, hwrap]
  | other c =>
    rw [parse_other P { cv with ty := _ } t rfl hp]
    simp [hsup, Ty.supers, construct, hroot, constructRoot, Except.map, hwrap]
  | dict =>
    rw [parse_dict P { cv with ty := _ } t rfl hp]
    simp only [hsup, Ty.supers, runBranch, hroot]
    simp only [List.contains_cons, List.contains_nil]
    simp
    cases dictOf [] _ <;> simp [Except.map, hwrap]
  | list =>
    rw [parse_list P { cv with ty := _ } t rfl hp]
    simp [hsup, Ty.supers, runBranch, hroot, itemsRoot, Except.map, hwrap]
  | tuple =>
    rw [parse_tuple P { cv with ty := _ } t rfl hp]
    simp [hsup, Ty.supers, runBranch, hroot, itemsRoot, Except.map, hwrap]

/-- a value whose default is a `class Name(str)` object, one whose default is a `class Items(list)` object -/
def exSubStr : CV := ⟨0, ['N'], .inst 0 (.str ['x']), .sub 0 .str, none, [], ['P'], ['m']⟩
def exSubList : CV := ⟨0, ['I'], .inst 3 (.list []), .sub 7 (.sub 3 .list), none, [], ['P'], ['m']⟩

example : parse src noParsers exSubStr ['a', ',', 'b'] = .ok (.inst 0 (.str ['a', ',', 'b'])) := by decide
example : parse src noParsers exSubList ['a', ',', ' ', 'b'] = .ok (.inst 7 (.list [['a'], ['b']])) := by decide
example : parse src noParsers { exSubStr with ty := .sub 1 .int } ['4', '2'] = .ok (.inst 1 (.int 42)) := by decide
example : parse src noParsers { exSubStr with ty := .sub 1 .int } ['x'] = .error .valueError := by decide
example : parse src noParsers { exSubStr with ty := .sub 5 .dict } ['a', '=', '1'] = .ok (.inst 5 (.dict [(['a'], ['1'])])) := by
  decide

/-- a `NamedTuple` default has no text form: the iterable branch hands ONE argument to a constructor that wants the fields
(`TypeError`) - stated, not hidden -/
theorem parse_namedtuple_raises (P : Parsers) (cv : CV) (k : Nat) (hty : cv.ty = .ntuple k) (hp : cv.parser = none) (t : Text) :
    parse src P cv t = .error .typeError := by
  rw [parseBranches_src_of_supers P cv t hp (by rw [hty]; rfl)]
  simp [hty, Ty.supers, runBranch, Ty.root, itemsRoot, Except.map]

example : parse src noParsers { exSubStr with ty := .ntuple 9 } ['a', ',', 'b'] = .error .typeError := by decide

/-- an enum whose members are `str` instances (`class Backend(str, Enum)`, `enum.StrEnum`): members by name as for every
enum, the text itself is NOT returned, a text naming no member raises - the instances of the enum theorems above -/
def exBackend : CV := ⟨0, ['B'], .enum 1, .enum .str [(['P', 'L', 'O', 'T', 'L', 'Y'], 1), (['M', 'p', 'l'], 2)], none, [],
  ['P'], ['m']⟩

example : parse src noParsers exBackend ['M', 'p', 'l'] = .ok (.enum 2) := by decide
example : parse src noParsers exBackend ['p', 'l', 'o', 't', 'l', 'y'] = .ok (.enum 1) := by decide
example : parse src noParsers exBackend ['g', 'n', 'u'] = .error .keyError := by decide
example : parse src noParsers exBackend ['1'] = .error .keyError := by decide
example : NumberMissFor .str [(['P', 'L', 'O', 'T', 'L', 'Y'], 1), (['M', 'p', 'l'], 2)] ['M', 'p', 'l'] := trivial
example : parse src noParsers { exBackend with ty := .enum (.flag 4) [(['R'], 4), (['W'], 2)] } ['W'] = .ok (.enum 2) := by decide
example : parse src noParsers { exBackend with ty := .enum (.flag 4) [(['R'], 4), (['W'], 2)] } ['4'] = .ok (.enum 4) := by decide
example : parse src noParsers { exBackend with ty := .enum .int [(['R'], 4), (['W'], 2)] } ['6'] = .error .keyError := by decide

/-! ### the defect found on the unrepaired tree (F21): a user-defined `str` subclass fell into the iterable branch

`srcNoStrSubclass` is `src` without the `issubclass(self.type, str)` test, as the translator reads the unrepaired
`config.py`: the only test on `str` is the identity test, which no subclass passes. -/

def srcNoStrSubclass : Desc :=
  { src with parseTests := src.parseTests.filter fun b => !(b.cls == .str && b.kind == .subclass) }

/-- F21: there the branch taken by a `class Name(str)` default is the iterable one although the statement demands the string
form, and the value read is `Name(str(<generator>))` - the repr of a generator object -/
theorem F21_str_subclass_read_as_iterable :
    selectedTest (.sub 0 .str) srcNoStrSubclass.parseTests = some ⟨.iterable, .subclass, .std⟩ ∧
    (Ty.sub 0 .str).demanded = some .str ∧
    parse srcNoStrSubclass noParsers exSubStr ['a', 'b'] = .ok (.inst 0 (.sym garbageCtor [])) := by
  decide

/-! ## The `config` decorator: which attributes of a user-defined class are configuration values

`decorate src c pre m body` is what `@config(pre)` makes of the class body (`src.nameTests`, `src.wrappedKeeps` are read from the
decorator's loop by the translator).  `PublicUpper` is the property-side reading of "upper-case public name":
python's `str.isupper()` (some upper-case cased character, no lower-case one; Latin-1 tables compared with CPython by the
harness) and no leading underscore. -/

/-- EXACTLY the public upper-case names of the class body become configuration values of the decorated class (and of no
other class): `known` is what `update` / the descriptors consult -/
theorem decorator_selects_exactly_public_upper (c : Nat) (pre m : Text) (attrs : List Attr) (c' : Nat) (n : Text) :
    known (decorate src c pre m attrs) c' n = true ↔ c' = c ∧ (∃ a ∈ attrs, a.name = n) ∧ PublicUpper n := by
  simp only [known, lookupCV, List.find?_isSome, decorate, List.mem_filterMap]
  constructor
  · rintro ⟨cv, ⟨a, ha, hd⟩, hp⟩
    by_cases hn : isConfigName src a.name = true
    · rw [decorate1_some hn] at hd
      cases hd
      simp at hp
      exact ⟨hp.1.symm, ⟨a, ha, hp.2⟩, hp.2 ▸ (isConfigName_iff _).mp hn⟩
    · rw [decorate1_none (by simpa using hn)] at hd
      cases hd
  · rintro ⟨rfl, ⟨a, ha, rfl⟩, hn⟩
    exact ⟨_, ⟨a, ha, decorate1_some ((isConfigName_iff _).mpr hn)⟩, by simp⟩

/-- … and each of them is declared with the default, type, custom parser and `env_var=` override written in the body, the
decorator's prefix and the module of the generated metaclass (attribute names of a class body are distinct) -/
theorem decorator_declares (c : Nat) (pre m : Text) : ∀ (attrs : List Attr) (a : Attr), a ∈ attrs → PublicUpper a.name →
    (attrs.map (·.name)).Nodup →
    lookupCV (decorate src c pre m attrs) c a.name
      = some ⟨c, a.name, a.default, a.ty, a.parser, a.envOverride, prefixOr pre m, m⟩ := by
  intro attrs
  induction attrs with
  | nil => intro a ha; cases ha
  | cons x rest ih =>
    intro a ha hn hnd
    simp only [List.map_cons, List.nodup_cons] at hnd
    rcases List.mem_cons.mp ha with rfl | hr
    · simp [decorate, lookupCV, decorate1_some ((isConfigName_iff _).mpr hn)]
    · have hne : x.name ≠ a.name := fun e => hnd.1 (e ▸ List.mem_map_of_mem hr)
      have := ih a hr hn hnd.2
      simp only [decorate, lookupCV] at this ⊢
      by_cases hx : isConfigName src x.name = true
      · simp only [List.filterMap_cons, decorate1_some hx, List.find?_cons]
        have hb : (x.name == a.name) = false := by simpa using hne
        simp [hb, this]
      · simp only [List.filterMap_cons, decorate1_none (by simpa using hx)]
        exact this

/-- its environment variable is literally `PREFIX_NAME` (digits, underscores, non-ASCII capitals included) -/
theorem decorated_env_name (c : Nat) (pre m : Text) (a : Attr) (hn : PublicUpper a.name) (ho : a.envOverride = [])
    (hp : pre ≠ []) :
    envName src ⟨c, a.name, a.default, a.ty, a.parser, a.envOverride, prefixOr pre m, m⟩ = pre ++ ['_'] ++ a.name := by
  rw [env_name_upper _ ho (not_lower_of_upperName hn.1)]
  simp [prefixOr, hp]

/-- hence EVERY upper-case public attribute of a decorated class is a configuration value that resolves as explicit value,
else environment variable `PREFIX_NAME`, else the default written in the body — in every state -/
theorem decorated_value_resolves (P : Parsers) (c : Nat) (pre m : Text) (attrs : List Attr) (a : Attr) (ha : a ∈ attrs)
    (hn : PublicUpper a.name) (hnd : (attrs.map (·.name)).Nodup) (s : State) :
    ∃ cv, lookupCV (decorate src c pre m attrs) c a.name = some cv ∧ cv.default = a.default ∧
      (a.envOverride = [] → pre ≠ [] → envName src cv = pre ++ ['_'] ++ a.name) ∧
      get src P cv s = resolve P cv (s.explicit (slotKey src c a.name)) (s.env (envName src cv)) :=
  ⟨_, decorator_declares c pre m attrs a ha hn hnd, rfl, decorated_env_name c pre m a hn, get_refines P _ s⟩

/-- names that are not upper-case public (leading underscore, lower / mixed case, no cased character) are NOT configuration
values … -/
theorem decorator_leaves_other_names (c : Nat) (pre m : Text) (attrs : List Attr) (c' : Nat) (n : Text)
    (h : ¬ PublicUpper n) : known (decorate src c pre m attrs) c' n = false := by
  cases hk : known (decorate src c pre m attrs) c' n with
  | false => rfl
  | true => exact absurd ((decorator_selects_exactly_public_upper c pre m attrs c' n).mp hk).2.2 h

/-- … so a bulk update naming one of them is rejected -/
theorem update_rejects_non_config_name (c : Nat) (pre m : Text) (attrs : List Attr) (s : State) (d : List (Text × V))
    (h : ∃ e ∈ d, ¬ PublicUpper e.1) :
    (step src (decorate src c pre m attrs) s (.update c d)).2 = .err .attributeError := by
  obtain ⟨e, he, hn⟩ := h
  exact update_rejects_unknown _ s c d ⟨e, he, decorator_leaves_other_names c pre m attrs c e.1 hn⟩

/-- a class body: `X1 = 1; _PRIV = "p"; lower = 2; Mixed = 3; L2_NORM = False; X = ConfigValue(1, env_var="OV", parser=int);
ÄB = 4; 数1 = 5; _1 = 6; äB = 7` -/
def exBody : List Attr :=
  [⟨['X', '1'], .int 1, .int, none, []⟩, ⟨['_', 'P', 'R', 'I', 'V'], .str ['p'], .str, none, []⟩,
   ⟨['l', 'o', 'w', 'e', 'r'], .int 2, .int, none, []⟩, ⟨['M', 'i', 'x', 'e', 'd'], .int 3, .int, none, []⟩,
   ⟨['L', '2', '_', 'N', 'O', 'R', 'M'], .bool false, .bool, none, []⟩, ⟨['X'], .int 1, .int, some 0, ['O', 'V']⟩,
   ⟨[Char.ofNat 196, 'B'], .int 4, .int, none, []⟩, ⟨[Char.ofNat 25968, '1'], .int 5, .int, none, []⟩,
   ⟨['_', '1'], .int 6, .int, none, []⟩, ⟨[Char.ofNat 228, 'B'], .int 7, .int, none, []⟩]

example : (decorate src 0 ['P'] ['m'] exBody).map (·.name)
    = [['X', '1'], ['L', '2', '_', 'N', 'O', 'R', 'M'], ['X'], [Char.ofNat 196, 'B']] := by decide
example : PublicUpper ['X', '1'] := (isConfigName_iff _).mp (by decide)
example : PublicUpper ['L', '2', '_', 'N', 'O', 'R', 'M'] := (isConfigName_iff _).mp (by decide)
example : ¬ PublicUpper ['_', 'P', 'R', 'I', 'V'] := fun h => absurd ((isConfigName_iff _).mpr h) (by decide)
example : ¬ PublicUpper ['M', 'i', 'x', 'e', 'd'] := fun h => absurd ((isConfigName_iff _).mpr h) (by decide)
example : (exBody.map (·.name)).Nodup := by decide
example : ((lookupCV (decorate src 0 ['P'] ['m'] exBody) 0 ['X', '1']).map (envName src)) = some ['P', '_', 'X', '1'] := by
  decide
example : ((lookupCV (decorate src 0 ['P'] ['m'] exBody) 0 ['X']).map (fun cv => (envName src cv, cv.parser)))
    = some (['O', 'V'], some 0) := by decide
example : ((lookupCV (decorate src 0 ['P'] ['m'] exBody) 0 ['X', '1']).map fun cv =>
    get src noParsers cv (run src (decorate src 0 ['P'] ['m'] exBody) State.init [.setenv ['P', '_', 'X', '1'] ['5']]))
    = some (.ok (.int 5)) := by decide
example : (step src (decorate src 0 ['P'] ['m'] exBody) State.init (.update 0 [(['X', '1'], .int 0)])).2 = .ok := by decide
example : (step src (decorate src 0 ['P'] ['m'] exBody) State.init (.update 0 [(['M', 'i', 'x', 'e', 'd'], .int 0)])).2
    = .err .attributeError := by decide

/-! ## The two defects found on the unrepaired tree (F15, F16), as statements about the unrepaired description

`srcUnrepaired` is `src` with the two decisions as the translator reads them from the unrepaired `config.py`
(`AttributeError(...)` constructed, not raised; enum names looked up only upper-cased).  The harness replays both
witnesses on the implementation. -/

def srcUnrepaired : Desc := { src with updateRaises := false, enumLookups := [.byNumber, .byName [.upper]] }

/-- F15: without the `raise`, an update naming an unknown value "succeeds" -/
theorem F15_update_without_raise_accepts_unknown :
    (step srcUnrepaired exD State.init (.update 0 [(['A'], .int 5), (['B', 'O', 'G', 'U', 'S'], .int 3)])).2 = .ok := by
  decide

/-- F16: with the upper-casing lookup only, the member `Lower` cannot be given by its name -/
theorem F16_upper_lookup_misses_mixed_case_member :
    parse srcUnrepaired noParsers exMode ['L', 'o', 'w', 'e', 'r'] = .error .keyError := by
  decide

end Config
