import PyrollModel.Gen.C11
import PyrollProofs.Homog

/-!
# C11 — results are independent of the unit of length (dimensional homogeneity)

Everything below is about the terms GENERATED from the current `/repo` source by `driver/translate/c11_dims.py`
(`PyrollModel/Gen/C11*.lean`, rewritten on every run of `./check C11`): one `Expr` per closed-form expression of the anchored
files, with a kernel-evaluated certificate `<name>_dim : Expr.dim Γ <name> = .is d` for the DECLARED dimension `d` (exponent of
the length unit) of the hook / junction / residual / argument it stands for, relative to the declared variable typing `Γ`
(`gammaTable`).  A table row (`Dims.Entry Γ`) carries its certificate, so a changed formula whose dimension no longer comes
out as declared cannot stay in its table: it moves to `inhomogeneous`, every row of which must be one of the `accepted`
exceptions (`inhomogeneous_accepted`).  The tables are written for the source AS REPAIRED: no repair of a listed finding is
pending (`acceptedPendingRepair` is empty), the face test of `SplineGroove` is the relative one (/repo 53b0ef0,
`spline_face_test_form`), and a return of the absolute form `np.isclose(y, 0)` does not build.

`scaleEnv Γ k ρ` is the environment `ρ` with every variable `v` multiplied by `k ^ Γ(v)`: all length inputs scaled by `k`,
areas by `k²`, …, angles / stresses / times / frequencies / material data untouched.  The metatheorem
`Expr.homogeneity` (PyrollProofs/Homog.lean) turns a certificate into `eval (scaleEnv Γ k ρ) e = k ^ d * eval ρ e` for all
`k > 0` and all real environments.

NOT a theorem (partial, validated by the two-run harness of driver/props/c11.py): homogeneity of whole solved sequences —
it passes through shapely/GEOS, scipy's root finders and the fixed-point iteration of `Unit.solve`, which are parameters
of the model, and through IEEE rounding.  The full statement is kept visible as `C11_full`.
-/

open Expr Dims Gen.C11

namespace C11

/-- a certificate gives the scaling law (the literal `0` scales with every exponent) -/
theorem homogeneous_of_cert (Γ : String → Option Int) (e : Expr) (d : Int) (h : Cert Γ e d)
    (k : ℝ) (hk : 0 < k) (ρ : String → ℝ) :
    eval (scaleEnv Γ k ρ) e = k ^ d * eval ρ e := by
  rcases h with h | h
  · exact homogeneous_of_dim Γ e d h k hk ρ
  · obtain ⟨a, b⟩ := (homogeneity Γ k hk ρ e).2 h
    rw [a, b]; simp

/-- the scaling law for every row of a generated table -/
def Scales (t : List (Entry Γ)) : Prop :=
  ∀ en ∈ t, ∀ k : ℝ, 0 < k → ∀ ρ : String → ℝ, eval (scaleEnv Γ k ρ) en.e = k ^ en.d * eval ρ en.e

theorem table_scales (t : List (Entry Γ)) : Scales t :=
  fun en _ k hk ρ => homogeneous_of_cert Γ en.e en.d en.cert k hk ρ

/-- sign and zero set of a homogeneous term do not depend on the scale -/
theorem sign_invariant (e : Expr) (d : Int) (h : Cert Γ e d) (k : ℝ) (hk : 0 < k) (ρ : String → ℝ) :
    (0 < eval (scaleEnv Γ k ρ) e ↔ 0 < eval ρ e) ∧ (eval (scaleEnv Γ k ρ) e = 0 ↔ eval ρ e = 0) ∧
    (eval (scaleEnv Γ k ρ) e < 0 ↔ eval ρ e < 0) := by
  have hp : 0 < k ^ d := zpow_pos hk d
  rw [homogeneous_of_cert Γ e d h k hk ρ]
  refine ⟨?_, ?_, ?_⟩
  · exact ⟨fun h => (mul_pos_iff_of_pos_left hp).1 h, fun h => mul_pos hp h⟩
  · simp [ne_of_gt hp]
  · constructor
    · intro h
      by_contra hc
      exact absurd (mul_nonneg (le_of_lt hp) (not_lt.1 hc)) (not_le.2 h)
    · intro h; exact mul_neg_of_pos_of_neg hp h

/-- a variable declared dimensionless is not touched by the scaling -/
theorem scaleEnv_dim0 (v : String) (h : Γ v = some 0) (k : ℝ) (ρ : String → ℝ) : scaleEnv Γ k ρ v = ρ v := by
  simp [scaleEnv, h]

/-- a variable declared a length is multiplied by `k` -/
theorem scaleEnv_dim1 (v : String) (h : Γ v = some 1) (k : ℝ) (ρ : String → ℝ) : scaleEnv Γ k ρ v = k * ρ v := by
  simp [scaleEnv, h]

/-! ### hook implementations -/

/-- **Every translated hook formula is homogeneous of the degree declared for its hook**: scaling all length inputs by
    `k > 0` (areas by `k²`, …) scales the value by `k ^ d`.  One statement over the whole generated table. -/
theorem hook_formulas_homogeneous : Scales hookFormulas := table_scales _

/-- `sum([u.x for u in units])`: a sum of terms that all scale by `k ^ d` scales by `k ^ d` (the three `sumOver` hooks
    `PassSequence.duration/length/power` are rows of `hookFormulas` with the summand as their term) -/
theorem sum_homogeneous (k : ℝ) (d : Int) (xs : List ℝ) : (xs.map (fun x => k ^ d * x)).sum = k ^ d * xs.sum := by
  induction xs with
  | nil => simp
  | cons x xs ih => simp [ih, mul_add]

/-- named instances, with the exponents written out -/
theorem entry_point_scales (k : ℝ) (hk : 0 < k) (ρ : String → ℝ) :
    eval (scaleEnv Γ k ρ) srp_entry_point_a0 = k * eval ρ srp_entry_point_a0 := by
  simpa using homogeneous_of_dim Γ _ 1 srp_entry_point_a0_dim k hk ρ

theorem roll_force_scales (k : ℝ) (hk : 0 < k) (ρ : String → ℝ) :
    eval (scaleEnv Γ k ρ) srp_roll_force_a0 = k ^ (2 : ℤ) * eval ρ srp_roll_force_a0 :=
  homogeneous_of_dim Γ _ 2 srp_roll_force_a0_dim k hk ρ

theorem roll_torque_scales (k : ℝ) (hk : 0 < k) (ρ : String → ℝ) :
    eval (scaleEnv Γ k ρ) rproll_roll_torque_a0 = k ^ (3 : ℤ) * eval ρ rproll_roll_torque_a0 :=
  homogeneous_of_dim Γ _ 3 rproll_roll_torque_a0_dim k hk ρ

theorem roll_power_scales (k : ℝ) (hk : 0 < k) (ρ : String → ℝ) :
    eval (scaleEnv Γ k ρ) roll_roll_power_a0 = k ^ (3 : ℤ) * eval ρ roll_roll_power_a0 :=
  homogeneous_of_dim Γ _ 3 roll_roll_power_a0_dim k hk ρ

theorem contact_area_scales (k : ℝ) (hk : 0 < k) (ρ : String → ℝ) :
    eval (scaleEnv Γ k ρ) rproll_contact_area_a0 = k ^ (2 : ℤ) * eval ρ rproll_contact_area_a0 :=
  homogeneous_of_dim Γ _ 2 rproll_contact_area_a0_dim k hk ρ

theorem working_velocity_scales (k : ℝ) (hk : 0 < k) (ρ : String → ℝ) :
    eval (scaleEnv Γ k ρ) roll_working_velocity_a0 = k * eval ρ roll_working_velocity_a0 := by
  simpa using homogeneous_of_dim Γ _ 1 roll_working_velocity_a0_dim k hk ρ

theorem strain_invariant (k : ℝ) (hk : 0 < k) (ρ : String → ℝ) :
    eval (scaleEnv Γ k ρ) du_strain_a0 = eval ρ du_strain_a0 := by
  simpa using homogeneous_of_dim Γ _ 0 du_strain_a0_dim k hk ρ

theorem strain_rate_invariant (k : ℝ) (hk : 0 < k) (ρ : String → ℝ) :
    eval (scaleEnv Γ k ρ) du_strain_rate_a0 = eval ρ du_strain_rate_a0 := by
  simpa using homogeneous_of_dim Γ _ 0 du_strain_rate_a0_dim k hk ρ

theorem entry_angle_invariant (k : ℝ) (hk : 0 < k) (ρ : String → ℝ) :
    eval (scaleEnv Γ k ρ) rproll_entry_angle_a0 = eval ρ rproll_entry_angle_a0 := by
  simpa using homogeneous_of_dim Γ _ 0 rproll_entry_angle_a0_dim k hk ρ

/-! ### groove junction chain -/

/-- every junction coordinate `z0 … z12, y0 … y12` (and the auxiliary length `l12`) of
    `GenericElongationGroove.__init__` scales by `k`, the angles `alpha1, alpha2, beta, gamma` are unchanged … -/
theorem junctions_scale : Scales junctions := table_scales _

/-- … where the exponents are: -/
theorem junction_dims :
    junctions.map (fun en => (en.name, en.d)) =
      [("g_alpha1", 0), ("g_alpha2", 0), ("g_z2", 1), ("g_y2", 1), ("g_l12", 1), ("g_z1", 1), ("g_y1", 1), ("g_z0", 1),
       ("g_y0", 1), ("g_z12", 1), ("g_y12", 1), ("g_z3", 1), ("g_y3", 1), ("g_z9", 1), ("g_y9", 1), ("g_z7", 1),
       ("g_y7", 1), ("g_z8", 1), ("g_y8", 1), ("g_z6", 1), ("g_y6", 1), ("g_beta", 0), ("g_z10", 1), ("g_y10", 1),
       ("g_z5", 1), ("g_y5", 1), ("g_z11", 1), ("g_y11", 1), ("g_gamma", 0), ("g_z4", 1), ("g_y4", 1)] := rfl

/-- the contour functions `_r1.._r4/_flank_contour_line(z)` and the four closed forms of the fourth-of-four resolution -/
theorem contour_functions_scale : Scales contourFns := table_scales _

/-- the inputs of the chain: lengths are scaled, angles are not -/
theorem groove_inputs_typed :
    (∀ v ∈ ["r1", "r2", "r3", "r4", "indent", "even_ground_width", "pad", "usable_width", "ground_width", "depth", "z"],
      Γ v = some 1) ∧
    (∀ v ∈ ["alpha3", "alpha4", "pad_angle", "flank_angle"], Γ v = some 0) := by
  constructor <;> decide +kernel

/-! ### solver residuals, fixed-point map, brackets, start values -/

/-- every residual handed to `root_scalar` / `root` is homogeneous … -/
theorem residual_homog : Scales residuals := table_scales _

/-- … of degree one (`f(k·x; α) = k · f(x; α)`: they are length residuals) … -/
theorem residual_degree : ∀ en ∈ residuals, en.d = 1 := by decide +kernel

/-- … in which the unknowns are angles, untouched by the scaling … -/
theorem unknowns_are_angles : ∀ v ∈ ["_x0", "_x1", "_x2", "root", "root0", "root1", "root2"], Γ v = some 0 := by
  decide +kernel

/-- … hence the root set in the angle unknowns (and the sign pattern that selects the bracket on the angle raster of
    `solve_r124`) is the same for the scaled and the unscaled problem. -/
theorem root_sets_scale_invariant : ∀ en ∈ residuals, ∀ k : ℝ, 0 < k → ∀ ρ : String → ℝ,
    (eval (scaleEnv Γ k ρ) en.e = 0 ↔ eval ρ en.e = 0) ∧ (0 < eval (scaleEnv Γ k ρ) en.e ↔ 0 < eval ρ en.e) ∧
    (eval (scaleEnv Γ k ρ) en.e < 0 ↔ eval ρ en.e < 0) :=
  fun en _ k hk ρ => let s := sign_invariant en.e en.d en.cert k hk ρ; ⟨s.2.1, s.1, s.2.2⟩

/-- the fixed-point map of `solve_r124` (unknown: the radius `r2`, a length) commutes with the scaling:
    `f(k·x) = k·f(x)`, so fixed points scale by `k` -/
theorem fixed_point_map_homog : Scales fixedPointMaps ∧ (∀ en ∈ fixedPointMaps, en.d = 1) ∧ Γ "_len0" = some 1 :=
  ⟨table_scales _, by decide +kernel, by decide +kernel⟩

/-- the brackets of `root_scalar` are closed constant angles (no variable occurs, dimension 0) -/
theorem brackets_are_angles : ∀ en ∈ brackets, en.d = 0 ∧ en.e.vars = [] := by decide +kernel

/-- hence they are the same numbers whatever the scale -/
theorem brackets_scale_invariant : Scales brackets := table_scales _

/-- start values: constants (angles) for `root`, input-proportional lengths for `fixed_point` -/
theorem start_values_scale : Scales starts := table_scales _

theorem start_values_classified : ∀ en ∈ starts, (en.d = 0 ∧ en.e.vars = []) ∨ en.d = 1 := by decide +kernel

/-- the closed forms returned by the solvers and the keyword arguments the groove constructors hand on -/
theorem closed_forms_scale : Scales closedForms := table_scales _
theorem plumbing_scales : Scales plumbing := table_scales _

/-! ### decisions and geometry-call arguments -/

/-- every comparison found in the anchored files whose two sides are of one dimension: its outcome (`<`, `=`, `>`) is the
    same for the scaled and the unscaled input -/
theorem decisions_scale_invariant : ∀ en ∈ decisions, ∀ k : ℝ, 0 < k → ∀ ρ : String → ℝ,
    (0 < eval (scaleEnv Γ k ρ) en.e ↔ 0 < eval ρ en.e) ∧ (eval (scaleEnv Γ k ρ) en.e = 0 ↔ eval ρ en.e = 0) ∧
    (eval (scaleEnv Γ k ρ) en.e < 0 ↔ eval ρ en.e < 0) :=
  fun en _ k hk ρ => sign_invariant en.e en.d en.cert k hk ρ

/-- every argument of a geometry call with a declared signature has the dimension the signature asks for -/
theorem geometry_arguments_scale : Scales geomArgs := table_scales _

/-- `SplineGroove.__init__` (the one groove class that is not built on the junction chain): what it stores as `width`,
    `usable_width`, `depth`, `contour_points` and the centring shift it subtracts from the abscissae are lengths computed
    from the given contour coordinates alone, so they scale with them -/
theorem spline_attributes_scale : Scales attrAssignments := table_scales _

theorem spline_attributes_are_lengths : ∀ en ∈ attrAssignments, en.d = 1 := by decide +kernel

/-- `Unit.solve`'s convergence test is relative, hence scale free whatever the dimension of the compared component -/
theorem convergence_test_scale_free (c o p k : ℝ) (d : ℤ) (hk : 0 < k) :
    (|k ^ d * c - k ^ d * o| ≤ |k ^ d * o| * p) ↔ (|c - o| ≤ |o| * p) := by
  have hp : 0 < k ^ d := zpow_pos hk d
  rw [← mul_sub, abs_mul, abs_mul, abs_of_pos hp, mul_assoc]
  exact mul_le_mul_iff_of_pos_left hp

/-! ### what is NOT homogeneous -/

/-- `np.isclose(a, b)` with numpy's default tolerances, as the translator writes it: `|a - b| - (1e-8 + 1e-5 |b|)` -/
def iscloseTerm (a b : Expr) : Expr := .sub (.abs (.sub a b)) (.add (.dec 1 8) (.mul (.dec 1 5) (.abs b)))

/-- the velocity stop test `|prior - current| < 0.01` -/
def stopTerm : Expr := .sub (.abs (.sub (.var "prior_velocities") (.var "current_velocities"))) (.dec 1 2)

/-- The ACCEPTED exceptions of the source AS REPAIRED (stable keys `file:function:kind#ordinal`), each WITH ITS VALUE (the
    translated term): the unit-bound ASTM grain-size number, the absolute contact buffer `1e-9`, `np.isclose` on the depth
    and on the junction coordinates of the generic groove, the absolute stop test `0.01` of the velocity loops.  An
    exception is accepted as the tolerance it is now, not as a place where any tolerance may stand.
    (No longer exceptions: the chord buffers of `Profile.local_width/local_height` - relative since /repo 9e95dfa - and the
    face tests of `SplineGroove` - relative since /repo 53b0ef0, see `retiredSplineFaceTests`.) -/
def acceptedRepaired : List (String × Expr) :=
  [("profile/hookimpls.py:astm_grain_size_number#alt0",
     .add (.nat 1) (.div (.log (.div (.div (.nat 1) (.mul .pi (.pow (.div (.div (.var "grain_size") (.dec 254 4))
       (.nat 2)) 2))) (.pow (.nat 100) 2))) (.log (.nat 2)))),
   ("roll_pass/hookimpls/base_roll_pass.py:contact_contour_lines:arg:buffer#1", .dec 1 9),
   ("grooves/generic_elongation.py:GenericElongationGroove.__init__:isclose#1", iscloseTerm (.var "depth") (.nat 0)),
   ("grooves/generic_elongation.py:GenericElongationGroove.__init__:isclose#2", iscloseTerm (.var "depth") (.nat 0)),
   ("grooves/generic_elongation.py:GenericElongationGroove._enumerate_contour_points:isclose#1",
     iscloseTerm (.var "z1") (.var "z3")),
   ("grooves/generic_elongation.py:GenericElongationGroove._enumerate_contour_points:isclose#2",
     iscloseTerm (.var "z3") (.var "z4")),
   ("grooves/generic_elongation.py:GenericElongationGroove._enumerate_contour_points:isclose#3",
     iscloseTerm (.var "z4") (.var "z5")),
   ("grooves/generic_elongation.py:GenericElongationGroove._enumerate_contour_points:isclose#4",
     iscloseTerm (.var "z5") (.var "z6")),
   ("grooves/generic_elongation.py:GenericElongationGroove._enumerate_contour_points:isclose#5",
     iscloseTerm (.var "z6") (.var "z7")),
   ("sequence/sequence.py:PassSequence.solve_velocities_backward:cmp#1", stopTerm),
   ("sequence/sequence.py:PassSequence.solve_velocities_forward:cmp#1", stopTerm)]

/-- Exceptions that exist ONLY in the source form before the repair of a listed finding has landed in /repo.  EMPTY: the
    repair of `tworun-spline-face-thin-fillet` is in /repo (53b0ef0), so the three face tests `np.isclose(y, 0)` of
    `SplineGroove.__init__` it used to hold are no longer accepted - their return (a revert of the repair, seeded change
    C11-2) puts rows into `inhomogeneous` that break `inhomogeneous_accepted`, `inhomogeneous_terms_pinned` and
    `spline_face_test_form`, and the corpus case `c11_finding_spline_thin_wire.json` replays the effect. -/
def acceptedPendingRepair : List (String × Expr) := []

/-- the former exceptions of `SplineGroove.__init__` (key and term of the three absolute face tests `np.isclose(y, 0)` of
    the source before /repo 53b0ef0): NOT accepted any more, named so that `spline_face_test_form` can say they are gone -/
def retiredSplineFaceTests : List (String × Expr) :=
  [("grooves/spline.py:SplineGroove.__init__:isclose#1", iscloseTerm (.var "contour_points") (.nat 0)),
   ("grooves/spline.py:SplineGroove.__init__:isclose#2", iscloseTerm (.var "contour_points") (.nat 0)),
   ("grooves/spline.py:SplineGroove.__init__:isclose#3", iscloseTerm (.var "contour_points") (.nat 0))]

def acceptedTerms : List (String × Expr) := acceptedRepaired ++ acceptedPendingRepair

/-- the keys of the accepted exceptions -/
def accepted : List String := acceptedTerms.map (·.1)

/-- **Every translated item whose certificate is not the declared one is an accepted exception** (each row of `inhomogeneous`
    carries the kernel-checked refutation of its certificate).  An edit of the source that adds an absolute tolerance, a
    `+ constant` or a dimensionally wrong term to any translated formula, decision or geometry argument puts a new row into
    `inhomogeneous` and this theorem fails; a repair that removes a row leaves it true. -/
theorem inhomogeneous_accepted : ∀ en ∈ inhomogeneous, en.key ∈ accepted := by
  simp only [inhomogeneous, badHooks, badGeom, badClosed, badSites, List.append_nil, List.nil_append,
    List.cons_append, List.forall_mem_cons, List.not_mem_nil, false_imp_iff, implies_true, and_true]
  simp only [accepted, acceptedTerms, acceptedRepaired, acceptedPendingRepair, List.map_cons, List.map_nil,
    List.append_nil, List.mem_cons, true_or, or_true, and_self]

theorem inhomogeneous_refuted : ∀ en ∈ inhomogeneous, ¬ Cert Γ en.e en.d := fun en _ => en.bad

/-- **Every inhomogeneous item is an accepted exception with the accepted value**: key AND translated term are in
    `acceptedTerms` (keys compared by their injective `strCode`).  Changing the literal of an accepted tolerance
    (`1e-9 → 1e-6`, `np.isclose(…, atol=…)`) keeps the key of the row but not its term, and this theorem fails. -/
theorem inhomogeneous_terms_pinned :
    ∀ en ∈ inhomogeneous, (strCode en.key, en.e) ∈ acceptedTerms.map (fun p => (strCode p.1, p.2)) := by
  decide +kernel

theorem acceptedTerms_keys : acceptedTerms.map (·.1) = accepted := rfl

/-! #### the face test of `SplineGroove` -/

/-- the repaired face test `np.abs(contour_points[:, 1]) <= 1e-9 * np.max(np.ptp(contour_points, axis=0))` as the translator
    writes it (`a ≤ b` as the term `a − b`; ordinates, abscissae and extents of one coordinate array share the one variable
    `contour_points`) -/
def splineFaceTerm : Expr := .sub (.abs (.var "contour_points")) (.mul (.dec 1 9) (.var "contour_points"))

/-- the generated table `decisions` holds the repaired face test, key and value, WITH its certificate -/
def SplineFaceRepaired : Prop :=
  (strCode "grooves/spline.py:SplineGroove.__init__:cmp#3", splineFaceTerm) ∈ decisions.map (fun en => (strCode en.key, en.e))

instance : Decidable SplineFaceRepaired := by unfold SplineFaceRepaired; infer_instance

/-- **The source read on this run has the repaired face test**: the face test of `SplineGroove` is the relative one - key
    AND value a certified row of `decisions` - and none of the three former absolute tests is back (no row of
    `inhomogeneous` has one of their keys).  Every other form (the absolute tests of the source before /repo 53b0ef0, another
    tolerance such as a module-level `FACE_TOLERANCE`, one test repaired and another not, the test moved out of the
    translatable subset) fails this theorem. -/
theorem spline_face_test_form :
    SplineFaceRepaired ∧ ∀ p ∈ retiredSplineFaceTests, strCode p.1 ∉ inhomogeneous.map (fun en => strCode en.key) := by
  decide +kernel

/-- **the face test of `SplineGroove` is scale invariant**: a vertex is on the face in one unit of length iff it is in every
    other (`|y| ≤ 1e-9·extent` ⇔ `|k y| ≤ 1e-9·k·extent`), for all `k > 0` and all contours.  (`splineFaceTerm` is the term
    the translator read from the source on this run: `spline_face_test_form`.) -/
theorem spline_face_test_scale_invariant (k : ℝ) (hk : 0 < k) (ρ : String → ℝ) :
    (eval (scaleEnv Γ k ρ) splineFaceTerm ≤ 0 ↔ eval ρ splineFaceTerm ≤ 0) := by
  obtain ⟨en, hen, heq⟩ := List.mem_map.1 spline_face_test_form.1
  have he : en.e = splineFaceTerm := (Prod.mk.inj heq).2
  have hs := sign_invariant en.e en.d en.cert k hk ρ
  rw [he] at hs
  rw [← not_lt, ← not_lt, hs.1]

/-! #### conditional lemmas: when does an absolute tolerance leave a decision unchanged? -/

/-- `np.isclose(a, b)` with tolerances `atol`, `rtol` -/
def isClose (atol rtol a b : ℝ) : Prop := |a - b| ≤ atol + rtol * |b|

/-- **isclose_scale_stable.** If the two coordinates coincide up to the RELATIVE tolerance, or differ by more than
    `atol / k_min + rtol·|b|`, then `np.isclose` decides alike for every scale factor `k ≥ k_min`: the junction tests of the
    groove contour are unaffected by the choice of unit on that range.  (For the groove junctions the first case is exact
    coincidence, e.g. `z3 = z4` when there is no flank.) -/
theorem isclose_scale_stable (atol rtol a b kmin : ℝ) (hat : 0 ≤ atol) (hkmin : 0 < kmin)
    (h : |a - b| ≤ rtol * |b| ∨ atol / kmin + rtol * |b| < |a - b|) :
    ∀ k k' : ℝ, kmin ≤ k → kmin ≤ k' → (isClose atol rtol (k * a) (k * b) ↔ isClose atol rtol (k' * a) (k' * b)) := by
  have key : ∀ k : ℝ, kmin ≤ k → (isClose atol rtol (k * a) (k * b) ↔ |a - b| ≤ rtol * |b|) := by
    intro k hk
    have hk0 : 0 < k := lt_of_lt_of_le hkmin hk
    unfold isClose
    rw [← mul_sub, abs_mul, abs_mul, abs_of_pos hk0]
    constructor
    · intro hc
      rcases h with h | h
      · exact h
      · exfalso
        have h1 : atol / k ≤ atol / kmin := div_le_div_of_nonneg_left hat hkmin hk
        have h2 : k * (atol / k + rtol * |b|) < k * |a - b| :=
          mul_lt_mul_of_pos_left (lt_of_le_of_lt (by linarith) h) hk0
        have h3 : k * (atol / k + rtol * |b|) = atol + rtol * (k * |b|) := by field_simp
        linarith
    · intro hr
      have : k * |a - b| ≤ k * (rtol * |b|) := mul_le_mul_of_nonneg_left hr (le_of_lt hk0)
      have h3 : k * (rtol * |b|) = rtol * (k * |b|) := by ring
      linarith
  intro k k' hk hk'
  rw [key k hk, key k' hk']

/-- the test itself is NOT scale invariant: two junctions 5·10⁻⁹ apart are "close" in one unit and distinct in another -/
theorem isclose_not_scale_invariant :
    ∃ a b k : ℝ, 0 < k ∧ isClose 1e-8 1e-5 a b ∧ ¬ isClose 1e-8 1e-5 (k * a) (k * b) := by
  refine ⟨5e-9, 0, 1000, by norm_num, ?_, ?_⟩ <;> unfold isClose <;> norm_num [abs_of_pos]

/-- **abs_tolerance_scale_stable.** A test `δ ≤ ε` of a length `δ` against an absolute constant `ε` (the contact buffer
    `1e-9` of `contact_lines`, the stop test `0.01` of the velocity loops with `δ` a velocity difference) decides alike for
    all scale factors `k ≥ k_min` when `δ = 0` or `δ > ε / k_min`. -/
theorem abs_tolerance_scale_stable (δ ε kmin : ℝ) (hε : 0 ≤ ε) (hkmin : 0 < kmin) (h : δ ≤ 0 ∨ ε / kmin < δ) :
    ∀ k k' : ℝ, kmin ≤ k → kmin ≤ k' → (k * δ ≤ ε ↔ k' * δ ≤ ε) := by
  have key : ∀ k : ℝ, kmin ≤ k → (k * δ ≤ ε ↔ δ ≤ 0) := by
    intro k hk
    have hk0 : 0 < k := lt_of_lt_of_le hkmin hk
    constructor
    · intro hc
      rcases h with h | h
      · exact h
      · exfalso
        have h1 : ε / k ≤ ε / kmin := div_le_div_of_nonneg_left hε hkmin hk
        have h2 : k * (ε / k) < k * δ := mul_lt_mul_of_pos_left (lt_of_le_of_lt h1 h) hk0
        have h3 : k * (ε / k) = ε := by field_simp
        linarith
    · intro h0
      have : k * δ ≤ 0 := mul_nonpos_of_nonneg_of_nonpos (le_of_lt hk0) h0
      linarith
  intro k k' hk hk'
  rw [key k hk, key k' hk']

/-- an absolute stop test is not scale invariant: a velocity change of 5 mm/s stops the loop when velocities are given in
    m/s (0.005 < 0.01) and does not when they are given in mm/s (5 < 0.01 is false) -/
theorem abs_tolerance_not_scale_invariant : ∃ δ k : ℝ, 0 < k ∧ δ < 0.01 ∧ ¬ (k * δ < 0.01) :=
  ⟨0.005, 1000, by norm_num, by norm_num, by norm_num⟩

/-- **additive_offset_deviation.** A value `h` computed with an absolute offset `c` added (the chord of `local_height`
    measured on the cross-section buffered by `1e-12`, i.e. `c ≤ 2·10⁻¹²`): the scaled run divided by `k` deviates from the
    unscaled run by exactly `c/k - c`, i.e. relatively by at most `tol` as soon as `c ≤ tol · k · h` and `c ≤ tol · h`. -/
theorem additive_offset_deviation (h c k : ℝ) (hk : 0 < k) : (k * h + c) / k - (h + c) = c / k - c := by
  field_simp; ring

theorem additive_offset_relative (h c k tol : ℝ) (hk : 0 < k) (hc : 0 ≤ c)
    (h1 : c ≤ tol * (k * h)) (h2 : c ≤ tol * h) : |(k * h + c) / k - (h + c)| ≤ tol * h := by
  rw [additive_offset_deviation h c k hk, abs_le]
  have hck : c / k ≤ tol * h := by
    rw [div_le_iff₀ hk]; linarith
  have hck0 : 0 ≤ c / k := div_nonneg hc (le_of_lt hk)
  constructor <;> linarith

/-! ### the full statement (not a theorem) -/

/-- End-to-end homogeneity of a solved sequence, for an abstract solver `solve : inputs → hook value`: scaling the length
    inputs scales every reported value by the power declared for its hook.  It holds for every FORMULA of the solver
    (theorems above); for the composition with GEOS, scipy and the fixed-point iteration it is validated by the two-run
    harness only.  Kept as a definition so that the gap is visible. -/
def C11_full (solve : (String → ℝ) → String → ℝ) : Prop :=
  ∀ (k : ℝ), 0 < k → ∀ (inputs : String → ℝ) (hook : String) (d : Int), Γ hook = some d →
    solve (scaleEnv Γ k inputs) hook = k ^ d * solve inputs hook

/-- what IS proved of it: it holds for a solver that evaluates one translated formula (any row of any table) -/
theorem C11_partial (t : List (Entry Γ)) (en : Entry Γ) (_ : en ∈ t) (k : ℝ) (hk : 0 < k) (inputs : String → ℝ) :
    (fun ρ => eval ρ en.e) (scaleEnv Γ k inputs) = k ^ en.d * (fun ρ => eval ρ en.e) inputs :=
  homogeneous_of_cert Γ en.e en.d en.cert k hk inputs

/-! ### non-vacuity -/

/-- a concrete pass: roll radius 160 mm, incoming height 30 mm, pass height 20 mm, in metres -/
noncomputable def ρ0 : String → ℝ := fun v =>
  if v = "roll.min_radius" then 0.16 else if v = "in_profile.height" then 0.03 else if v = "height" then 0.02 else 1

example : 0 < hookFormulas.length ∧ 0 < junctions.length ∧ 0 < residuals.length ∧ 0 < brackets.length ∧
    0 < decisions.length ∧ 0 < geomArgs.length ∧ 0 < starts.length ∧ 0 < fixedPointMaps.length ∧
    0 < attrAssignments.length ∧ 0 < inhomogeneous.length := by decide +kernel

/-- the FORMER face test of `SplineGroove` (`np.isclose(y, 0)`, retired by /repo 53b0ef0): a fillet vertex 1.1·10⁻⁷ m above
    the face (r = 3 mm sampled every 0.5°, described in metres) was off the face in every unit from metres upwards … -/
example : ∀ k k' : ℝ, 1 ≤ k → 1 ≤ k' →
    (isClose 1e-8 1e-5 (k * 1.1e-7) (k * 0) ↔ isClose 1e-8 1e-5 (k' * 1.1e-7) (k' * 0)) :=
  isclose_scale_stable 1e-8 1e-5 1.1e-7 0 1 (by norm_num) (by norm_num)
    (Or.inr (by rw [abs_zero, sub_zero, abs_of_pos (by norm_num : (0:ℝ) < 1.1e-7)]; norm_num))

/-- … whereas the fillet of a thin-wire groove (r = 0.1 mm: 3.8·10⁻⁹ m) was a face vertex in metres and not in millimetres
    (finding 2 of notes/C11.md, fixed; the corpus case `c11_finding_spline_thin_wire.json` replays it on a reverted tree) -/
example : isClose 1e-8 1e-5 3.8e-9 0 ∧ ¬ isClose 1e-8 1e-5 (1000 * 3.8e-9) (1000 * 0) := by
  constructor <;> unfold isClose <;> norm_num [abs_of_pos]

/-- the generated table `decisions` holds the repaired face test; no exception is pending -/
example : SplineFaceRepaired ∧ acceptedPendingRepair = [] ∧ acceptedTerms.length = 11 :=
  ⟨spline_face_test_form.1, rfl, rfl⟩

/-- the face decision of a concrete contour (3.8·10⁻⁹ m above the face, extent 1.13 mm) is the same in metres and millimetres -/
example (ρ : String → ℝ) : eval (scaleEnv Γ 1000 ρ) splineFaceTerm ≤ 0 ↔ eval ρ splineFaceTerm ≤ 0 :=
  spline_face_test_scale_invariant 1000 (by norm_num) ρ

/-- the REPAIRED face test on that thin-wire fillet: 3.8·10⁻⁹ m above the face of a contour 1.13 mm wide is off the face
    (tolerance 1.13·10⁻¹² m) in metres and, the test being homogeneous, in every other unit -/
example : ∀ k : ℝ, 0 < k → ¬ (|k * 3.8e-9| ≤ 1e-9 * (k * 1.13e-3)) := by
  intro k hk
  rw [abs_of_pos (by positivity)]
  intro h
  nlinarith

/-- the three variables of the entry-point formula are declared lengths, so the metres → millimetres change of unit
    multiplies each of them by 1000 … -/
example : scaleEnv Γ 1000 ρ0 "roll.min_radius" = 1000 * 0.16 ∧ scaleEnv Γ 1000 ρ0 "in_profile.height" = 1000 * 0.03 ∧
    scaleEnv Γ 1000 ρ0 "height" = 1000 * 0.02 := by
  refine ⟨?_, ?_, ?_⟩
  · rw [scaleEnv_dim1 _ (by decide +kernel)]; simp [ρ0]
  · rw [scaleEnv_dim1 _ (by decide +kernel)]; simp [ρ0]
  · rw [scaleEnv_dim1 _ (by decide +kernel)]; simp [ρ0]

/-- … and the entry point by 1000 as well; its value is the non-trivial `-√(0.16·0.01 − 0.01²/4)` -/
example : eval (scaleEnv Γ 1000 ρ0) srp_entry_point_a0 = 1000 * eval ρ0 srp_entry_point_a0 :=
  entry_point_scales 1000 (by norm_num) ρ0

example : eval ρ0 srp_entry_point_a0 = -Real.sqrt (0.16 * (0.03 - 0.02) - (0.03 - 0.02) ^ 2 / 4) := by
  simp [srp_entry_point_a0, eval, ρ0]

/-- the hypotheses of `isclose_scale_stable` are satisfiable in both cases: coincident junctions, and junctions 1 mm apart on
    a groove 20 mm wide described in metres, for every unit from metres (k = 1) upwards -/
example : ∀ k k' : ℝ, 1 ≤ k → 1 ≤ k' →
    (isClose 1e-8 1e-5 (k * 0.02) (k * 0.02) ↔ isClose 1e-8 1e-5 (k' * 0.02) (k' * 0.02)) :=
  isclose_scale_stable 1e-8 1e-5 0.02 0.02 1 (by norm_num) (by norm_num) (Or.inl (by norm_num))

example : ∀ k k' : ℝ, 1 ≤ k → 1 ≤ k' →
    (isClose 1e-8 1e-5 (k * 0.021) (k * 0.02) ↔ isClose 1e-8 1e-5 (k' * 0.021) (k' * 0.02)) :=
  isclose_scale_stable 1e-8 1e-5 0.021 0.02 1 (by norm_num) (by norm_num)
    (Or.inr (by rw [abs_of_pos (by norm_num : (0:ℝ) < 0.02), abs_of_pos (by norm_num : (0:ℝ) < 0.021 - 0.02)]; norm_num))

/-- `abs_tolerance_scale_stable`: a contour point 1 µm off the profile boundary is outside the 1e-9 contact buffer in every
    unit from metres upwards -/
example : ∀ k k' : ℝ, 1 ≤ k → 1 ≤ k' → (k * 1e-6 ≤ 1e-9 ↔ k' * 1e-6 ≤ (1e-9 : ℝ)) :=
  abs_tolerance_scale_stable 1e-6 1e-9 1 (by norm_num) (by norm_num) (Or.inr (by norm_num))

example : convergence_test_scale_free 1.0005 1 1e-3 1000 3 (by norm_num) =
    convergence_test_scale_free 1.0005 1 1e-3 1000 3 (by norm_num) := rfl

end C11
