import PyrollModel.Gen.C15
import PyrollProofs.FactoryShapes

/-!
# C15 — profile factories return valid shapes with exactly the requested dimensions

Every theorem below is about the tables GENERATED from the current `pyroll/core/profile/profile.py`
(`PyrollModel/Gen/C15.lean`, rewritten by `driver/props/c15.py::translate` on every run) interpreted by
`PyrollModel/Factory.lean` over ℝ: a change of an argument-resolution chain, a range test, a core-polygon vertex or
the buffer distance changes the generated term and the theorem that no longer follows stops building.

* decision: `pres n` says whether the argument `n` was given (`is not None`) — the statements hold for EVERY presence
  function, i.e. for all patterns of given/omitted alternative arguments; `ρ n` is the value of a given argument.
  `isTypeError` ⇔ contradictory or incomplete alternatives, `isValueError` ⇔ out of range, otherwise `okWith`.
* dimensions: of the IDEAL shape core ⊕ disc(r) (shapely's `buffer` with round joins, specified as a Minkowski sum;
  Steiner's formula for the area).  The arc discretisation of GEOS, the validity predicates and NaN/inf are not theorems:
  the harness measures the real shapely result against these ideal values (partial, see notes/C15.md).
-/

open Factory Gen.C15

namespace C15

variable (pres : String → Bool) (ρ : String → ℝ)

/-! ## round -/

/-- `TypeError` exactly when both or none of `radius`, `diameter` are given (contradictory / incomplete) -/
theorem round_type_error :
    (round_spec.run pres ρ).isTypeError ↔ pres "radius" = pres "diameter" := by
  rw [run_typeError_iff]
  cases h1 : pres "radius" <;> cases h2 : pres "diameter" <;>
    simp [resolveGroups, selectBranch, Branch.matches, round_spec, h1, h2]

example : (round_spec.run (fun _ => false) (fun _ => (1 : ℝ))).isTypeError := (round_type_error _ _).mpr rfl
example : (round_spec.run (fun _ => true) (fun _ => (1 : ℝ))).isTypeError := (round_type_error _ _).mpr rfl

/-- ideal dimensions of the round profile in terms of the resolved radius -/
theorem round_dims :
    (round_spec.shape ρ).width = 2 * ρ "radius" ∧ (round_spec.shape ρ).height = 2 * ρ "radius" ∧
    (round_spec.shape ρ).area = Real.pi * ρ "radius" ^ 2 := by
  have e : round_spec.shape ρ = { verts := [((0 : ℝ), (0 : ℝ))], r := ρ "radius" } := by
    simp [Spec.shape, round_spec, Expr.eval]
  rw [e]
  exact ⟨point_width _, point_height _, point_area _⟩

theorem round_out_of_range : round_spec.outOfRange ρ = true ↔ ρ "radius" ≤ 0 := by
  simp [Spec.outOfRange, round_spec, Expr.eval]

/-- `radius=` given: rejected iff `radius ≤ 0`; otherwise diameter `= 2·radius`, overall width = height = diameter -/
theorem round_by_radius (h1 : pres "radius" = true) (h2 : pres "diameter" = false) :
    (0 < ρ "radius" → (round_spec.run pres ρ).okWith (fun ρ' =>
        ρ' "radius" = ρ "radius" ∧ ρ' "diameter" = 2 * ρ "radius" ∧
        (round_spec.shape ρ').width = 2 * ρ "radius" ∧ (round_spec.shape ρ').height = 2 * ρ "radius" ∧
        (round_spec.shape ρ').area = Real.pi * ρ "radius" ^ 2)) ∧
    (¬ 0 < ρ "radius" → (round_spec.run pres ρ).isValueError) := by
  have hres : resolveGroups pres ρ round_spec.groups = some (rebind ρ "diameter" (2 * ρ "radius")) := by
    simp [resolveGroups, selectBranch, Branch.matches, round_spec, h1, h2, applyAssigns, Expr.eval]
  have hoor := round_out_of_range (rebind ρ "diameter" (2 * ρ "radius"))
  have hrad : rebind ρ "diameter" (2 * ρ "radius") "radius" = ρ "radius" := by simp [rebind]
  rw [hrad] at hoor
  constructor
  · intro hr
    refine run_ok_of _ _ _ _ _ hres ?_ ?_
    · rw [Bool.eq_false_iff]; intro h; exact absurd (hoor.mp h) (not_le.mpr hr)
    · have d := round_dims (rebind ρ "diameter" (2 * ρ "radius"))
      rw [hrad] at d
      exact ⟨hrad, by simp [rebind], d⟩
  · intro hr
    exact run_valueError_of _ _ _ _ hres (hoor.mpr (not_lt.mp hr))

example : (round_spec.run (fun n => n = "radius") (fun _ => (3 : ℝ))).okWith (fun ρ' =>
    ρ' "radius" = 3 ∧ ρ' "diameter" = 2 * 3 ∧ (round_spec.shape ρ').width = 2 * 3 ∧
    (round_spec.shape ρ').height = 2 * 3 ∧ (round_spec.shape ρ').area = Real.pi * 3 ^ 2) :=
  (round_by_radius (fun n => n = "radius") (fun _ => (3 : ℝ)) (by simp) (by simp)).1 (by norm_num)

/-- `diameter=` given: rejected iff `diameter ≤ 0`; radius `= diameter/2`, overall width = height = the requested diameter -/
theorem round_by_diameter (h1 : pres "radius" = false) (h2 : pres "diameter" = true) :
    (0 < ρ "diameter" → (round_spec.run pres ρ).okWith (fun ρ' =>
        ρ' "diameter" = ρ "diameter" ∧ ρ' "radius" = ρ "diameter" / 2 ∧
        (round_spec.shape ρ').width = ρ "diameter" ∧ (round_spec.shape ρ').height = ρ "diameter" ∧
        (round_spec.shape ρ').area = Real.pi * (ρ "diameter" / 2) ^ 2)) ∧
    (¬ 0 < ρ "diameter" → (round_spec.run pres ρ).isValueError) := by
  have hres : resolveGroups pres ρ round_spec.groups = some (rebind ρ "radius" (ρ "diameter" / 2)) := by
    simp [resolveGroups, selectBranch, Branch.matches, round_spec, h1, h2, applyAssigns, Expr.eval]
  have hoor := round_out_of_range (rebind ρ "radius" (ρ "diameter" / 2))
  have hrad : rebind ρ "radius" (ρ "diameter" / 2) "radius" = ρ "diameter" / 2 := by simp [rebind]
  rw [hrad] at hoor
  constructor
  · intro hr
    refine run_ok_of _ _ _ _ _ hres ?_ ?_
    · rw [Bool.eq_false_iff]; intro h; have := hoor.mp h; linarith
    · have d := round_dims (rebind ρ "radius" (ρ "diameter" / 2))
      rw [hrad] at d
      refine ⟨by simp [rebind], hrad, ?_, ?_, d.2.2⟩
      · rw [d.1]; ring
      · rw [d.2.1]; ring
  · intro hr
    exact run_valueError_of _ _ _ _ hres (hoor.mpr (by linarith [not_lt.mp hr]))

example : (round_spec.run (fun n => n = "diameter") (fun _ => (-1 : ℝ))).isValueError :=
  (round_by_diameter (fun n => n = "diameter") (fun _ => (-1 : ℝ)) (by simp) (by simp)).2 (by norm_num)

/-! ## box and diamond (no alternative arguments: never a `TypeError` of the resolution) -/

/-- the documented range of `box` and `diamond`: sizes > 0, `0 ≤ corner_radius ≤ height/2, width/2` -/
def BoxRange (h w r : ℝ) : Prop := 0 < h ∧ 0 < w ∧ 0 ≤ r ∧ r ≤ h / 2 ∧ r ≤ w / 2

theorem box_out_of_range :
    box_spec.outOfRange ρ = true ↔ ¬ BoxRange (ρ "height") (ρ "width") (ρ "corner_radius") := by
  simp [Spec.outOfRange, box_spec, Expr.eval]
  unfold BoxRange
  constructor
  · rintro (h1 | h1 | h1 | h1 | h1) ⟨a, b, c, d, e⟩ <;> linarith
  · intro hn
    by_contra hc
    push Not at hc
    exact hn ⟨by linarith, by linarith, by linarith, by linarith, by linarith⟩

theorem diamond_out_of_range :
    diamond_spec.outOfRange ρ = true ↔ ¬ BoxRange (ρ "height") (ρ "width") (ρ "corner_radius") := by
  simp [Spec.outOfRange, diamond_spec, Expr.eval]
  unfold BoxRange
  constructor
  · rintro (h1 | h1 | h1 | h1 | h1) ⟨a, b, c, d, e⟩ <;> linarith
  · intro hn
    by_contra hc
    push Not at hc
    exact hn ⟨by linarith, by linarith, by linarith, by linarith, by linarith⟩

/-- the generated core polygon of the box is the rectangle shrunk by the corner radius -/
theorem box_shape : box_spec.shape ρ =
    { verts := rectV (ρ "width" / 2 - ρ "corner_radius") (ρ "height" / 2 - ρ "corner_radius"),
      r := ρ "corner_radius" } := by
  simp [Spec.shape, box_spec, Expr.eval, rectV]

/-- **box_dims**: in range, the ideal box has exactly the requested width and height and the area `w·h − (4−π)·r²` -/
theorem box_dims (hr : BoxRange (ρ "height") (ρ "width") (ρ "corner_radius")) :
    (box_spec.shape ρ).width = ρ "width" ∧ (box_spec.shape ρ).height = ρ "height" ∧
    (box_spec.shape ρ).area = ρ "width" * ρ "height" - (4 - Real.pi) * ρ "corner_radius" ^ 2 := by
  obtain ⟨h1, h2, h3, h4, h5⟩ := hr
  rw [box_shape, rect_width _ _ _ (by linarith), rect_height _ _ _ (by linarith),
    rect_area _ _ _ (by linarith) (by linarith)]
  refine ⟨by ring, by ring, by ring⟩

/-- box: accepted exactly in range (then with the exact dimensions), `ValueError` exactly out of range -/
theorem box_decision :
    (BoxRange (ρ "height") (ρ "width") (ρ "corner_radius") → (box_spec.run pres ρ).okWith (fun ρ' => ρ' = ρ ∧
        (box_spec.shape ρ').width = ρ "width" ∧ (box_spec.shape ρ').height = ρ "height" ∧
        (box_spec.shape ρ').area = ρ "width" * ρ "height" - (4 - Real.pi) * ρ "corner_radius" ^ 2)) ∧
    (¬ BoxRange (ρ "height") (ρ "width") (ρ "corner_radius") → (box_spec.run pres ρ).isValueError) := by
  have hres : resolveGroups pres ρ box_spec.groups = some ρ := by simp [resolveGroups, box_spec]
  constructor
  · intro hr
    refine run_ok_of _ _ _ _ _ hres ?_ ⟨rfl, box_dims ρ hr⟩
    rw [Bool.eq_false_iff]; intro h; exact (box_out_of_range ρ).mp h hr
  · intro hr
    exact run_valueError_of _ _ _ _ hres ((box_out_of_range ρ).mpr hr)

/-- a concrete in-range box (non-vacuity): 2 × 1 with corner radius 0.1 -/
def boxEnv (h w r : ℝ) : String → ℝ := fun n =>
  if n = "height" then h else if n = "width" then w else if n = "corner_radius" then r else 0

example : (box_spec.run (fun _ => true) (boxEnv 1 2 (1 / 10))).okWith (fun ρ' =>
    (box_spec.shape ρ').width = 2 ∧ (box_spec.shape ρ').height = 1) := by
  have h := (box_decision (fun _ => true) (boxEnv 1 2 (1 / 10))).1 (by simp [BoxRange, boxEnv]; norm_num)
  revert h
  generalize box_spec.run (fun _ => true) (boxEnv 1 2 (1 / 10)) = o
  cases o <;> simp [Outcome.okWith]
  intro _ a b _; exact ⟨by simpa [boxEnv] using a, by simpa [boxEnv] using b⟩

example : (box_spec.run (fun _ => true) (boxEnv 1 2 (6 / 10))).isValueError :=
  (box_decision (fun _ => true) (boxEnv 1 2 (6 / 10))).2 (by simp [BoxRange, boxEnv]; norm_num)

/-- the generated core polygon of the diamond is the rhombus with half-diagonals shrunk by the corner radius -/
theorem diamond_shape : diamond_spec.shape ρ =
    { verts := rhombV (ρ "width" / 2 - ρ "corner_radius") (ρ "height" / 2 - ρ "corner_radius"),
      r := ρ "corner_radius" } := by
  simp [Spec.shape, diamond_spec, Expr.eval, rhombV]

/-- **diamond_dims**: tip-to-tip width and height are the requested ones; area by Steiner's formula -/
theorem diamond_dims (hr : BoxRange (ρ "height") (ρ "width") (ρ "corner_radius")) :
    (diamond_spec.shape ρ).width = ρ "width" ∧ (diamond_spec.shape ρ).height = ρ "height" ∧
    (diamond_spec.shape ρ).area =
      2 * (ρ "width" / 2 - ρ "corner_radius") * (ρ "height" / 2 - ρ "corner_radius")
      + ρ "corner_radius" * (4 * Real.sqrt ((ρ "width" / 2 - ρ "corner_radius") * (ρ "width" / 2 - ρ "corner_radius")
          + (ρ "height" / 2 - ρ "corner_radius") * (ρ "height" / 2 - ρ "corner_radius")))
      + Real.pi * ρ "corner_radius" ^ 2 := by
  obtain ⟨h1, h2, h3, h4, h5⟩ := hr
  rw [diamond_shape, rhomb_width _ _ _ (by linarith), rhomb_height _ _ _ (by linarith),
    rhomb_area _ _ _ (by linarith) (by linarith)]
  refine ⟨by ring, by ring, rfl⟩

/-- without corner radius the diamond's area is `w·h/2` -/
theorem diamond_area_sharp (h0 : ρ "corner_radius" = 0) (hr : BoxRange (ρ "height") (ρ "width") (ρ "corner_radius")) :
    (diamond_spec.shape ρ).area = ρ "width" * ρ "height" / 2 := by
  rw [(diamond_dims ρ hr).2.2, h0]; ring

theorem diamond_decision :
    (BoxRange (ρ "height") (ρ "width") (ρ "corner_radius") → (diamond_spec.run pres ρ).okWith (fun ρ' => ρ' = ρ ∧
        (diamond_spec.shape ρ').width = ρ "width" ∧ (diamond_spec.shape ρ').height = ρ "height")) ∧
    (¬ BoxRange (ρ "height") (ρ "width") (ρ "corner_radius") → (diamond_spec.run pres ρ).isValueError) := by
  have hres : resolveGroups pres ρ diamond_spec.groups = some ρ := by simp [resolveGroups, diamond_spec]
  constructor
  · intro hr
    refine run_ok_of _ _ _ _ _ hres ?_ ⟨rfl, (diamond_dims ρ hr).1, (diamond_dims ρ hr).2.1⟩
    rw [Bool.eq_false_iff]; intro h; exact (diamond_out_of_range ρ).mp h hr
  · intro hr
    exact run_valueError_of _ _ _ _ hres ((diamond_out_of_range ρ).mpr hr)

example : (diamond_spec.run (fun _ => true) (boxEnv 1 2 (1 / 2))).okWith (fun ρ' => ρ' = boxEnv 1 2 (1 / 2) ∧
    (diamond_spec.shape ρ').width = boxEnv 1 2 (1 / 2) "width" ∧ (diamond_spec.shape ρ').height = boxEnv 1 2 (1 / 2) "height") :=
  (diamond_decision (fun _ => true) (boxEnv 1 2 (1 / 2))).1 (by simp [BoxRange, boxEnv]; norm_num)

example : (diamond_spec.run (fun _ => true) (boxEnv 0 2 0)).isValueError :=
  (diamond_decision (fun _ => true) (boxEnv 0 2 0)).2 (by simp [BoxRange, boxEnv])

/-! ## square (standing on its tip; `side` xor `diagonal`) -/

/-- documented range of `square` and (as implemented) `hexagon`: `side > 0`, `0 ≤ corner_radius ≤ side/2` -/
def SideRange (s r : ℝ) : Prop := 0 < s ∧ 0 ≤ r ∧ r ≤ s / 2

/-- `TypeError` exactly when both or none of `side`, `diagonal` are given -/
theorem square_type_error :
    (square_spec.run pres ρ).isTypeError ↔ pres "side" = pres "diagonal" := by
  rw [run_typeError_iff]
  cases h1 : pres "side" <;> cases h2 : pres "diagonal" <;>
    simp [resolveGroups, selectBranch, Branch.matches, square_spec, h1, h2]

example : (square_spec.run (fun _ => true) (fun _ => (1 : ℝ))).isTypeError := (square_type_error _ _).mpr rfl

theorem square_out_of_range :
    square_spec.outOfRange ρ = true ↔ ¬ SideRange (ρ "side") (ρ "corner_radius") := by
  simp [Spec.outOfRange, square_spec, Expr.eval]
  unfold SideRange
  constructor
  · rintro (h1 | h1 | h1) ⟨a, b, c⟩ <;> linarith
  · intro hn
    by_contra hc
    push Not at hc
    exact hn ⟨by linarith, by linarith, by linarith⟩

theorem square_shape : square_spec.shape ρ =
    { verts := rhombV (ρ "diagonal" / 2 - ρ "corner_radius" * Real.sqrt 2)
        (ρ "diagonal" / 2 - ρ "corner_radius" * Real.sqrt 2), r := ρ "corner_radius" } := by
  simp [Spec.shape, square_spec, Expr.eval, rhombV]

/-- what "the requested dimensions, measured as documented" means for the square with rounded corners:
    the distance between opposite flat sides is the side length (the diagonal is that of the un-rounded square,
    "measured at the tips, as if the corner radii were not present"); the rounded tips reach `√2·s − 2(√2−1)·r`;
    area `s² − (4−π)·r²` -/
def SquareDims (ρ : String → ℝ) (s r : ℝ) : Prop :=
  (square_spec.shape ρ).width = Real.sqrt 2 * s - 2 * (Real.sqrt 2 - 1) * r ∧
  (square_spec.shape ρ).height = Real.sqrt 2 * s - 2 * (Real.sqrt 2 - 1) * r ∧
  extent (square_spec.shape ρ).verts (square_spec.shape ρ).r (Real.sqrt 2 / 2) (Real.sqrt 2 / 2) = s ∧
  extent (square_spec.shape ρ).verts (square_spec.shape ρ).r (-(Real.sqrt 2 / 2)) (Real.sqrt 2 / 2) = s ∧
  (square_spec.shape ρ).area = s ^ 2 - (4 - Real.pi) * r ^ 2

/-- **square_dims** for any resolved environment with `diagonal = √2·side` -/
theorem square_dims (hd : ρ "diagonal" = Real.sqrt 2 * ρ "side")
    (hr : SideRange (ρ "side") (ρ "corner_radius")) : SquareDims ρ (ρ "side") (ρ "corner_radius") := by
  obtain ⟨h1, h2, h3⟩ := hr
  have s2 := sqrt_two_pos
  have s22 := sqrt_two_mul_self
  set s := ρ "side"
  set r := ρ "corner_radius"
  have ha : ρ "diagonal" / 2 - r * Real.sqrt 2 = Real.sqrt 2 * (s / 2 - r) := by rw [hd]; ring
  have ha0 : 0 ≤ Real.sqrt 2 * (s / 2 - r) := mul_nonneg s2.le (by linarith)
  unfold SquareDims
  rw [square_shape, ha]
  simp only
  rw [rhomb_width _ _ _ ha0, rhomb_height _ _ _ ha0, (rhomb_extent45 _ r ha0).1, (rhomb_extent45 _ r ha0).2,
    rhomb_area _ _ _ ha0 ha0]
  have hsq : Real.sqrt (Real.sqrt 2 * (s / 2 - r) * (Real.sqrt 2 * (s / 2 - r)) +
      Real.sqrt 2 * (s / 2 - r) * (Real.sqrt 2 * (s / 2 - r))) = 2 * (s / 2 - r) := by
    have : Real.sqrt 2 * (s / 2 - r) * (Real.sqrt 2 * (s / 2 - r)) + Real.sqrt 2 * (s / 2 - r) * (Real.sqrt 2 * (s / 2 - r))
        = (2 * (s / 2 - r)) * (2 * (s / 2 - r)) := by linear_combination (2 * (s / 2 - r) ^ 2) * s22
    rw [this, Real.sqrt_mul_self (by linarith)]
  rw [hsq]
  refine ⟨by ring, by ring, ?_, ?_, ?_⟩
  · linear_combination (s / 2 - r) * s22
  · linear_combination (s / 2 - r) * s22
  · linear_combination (2 * (s / 2 - r) ^ 2) * s22

/-- `side=` given: `ValueError` exactly out of range; otherwise `diagonal = √2·side` and the documented dimensions -/
theorem square_by_side (h1 : pres "side" = true) (h2 : pres "diagonal" = false) :
    (SideRange (ρ "side") (ρ "corner_radius") → (square_spec.run pres ρ).okWith (fun ρ' =>
        ρ' "side" = ρ "side" ∧ ρ' "diagonal" = Real.sqrt 2 * ρ "side" ∧ ρ' "corner_radius" = ρ "corner_radius" ∧
        SquareDims ρ' (ρ "side") (ρ "corner_radius"))) ∧
    (¬ SideRange (ρ "side") (ρ "corner_radius") → (square_spec.run pres ρ).isValueError) := by
  have hres : resolveGroups pres ρ square_spec.groups = some (rebind ρ "diagonal" (Real.sqrt 2 * ρ "side")) := by
    simp [resolveGroups, selectBranch, Branch.matches, square_spec, h1, h2, applyAssigns, Expr.eval]
  set ρ' := rebind ρ "diagonal" (Real.sqrt 2 * ρ "side") with hρ'
  have e1 : ρ' "side" = ρ "side" := by simp [hρ', rebind]
  have e2 : ρ' "diagonal" = Real.sqrt 2 * ρ "side" := by simp [hρ', rebind]
  have e3 : ρ' "corner_radius" = ρ "corner_radius" := by simp [hρ', rebind]
  have hoor := square_out_of_range ρ'
  rw [e1, e3] at hoor
  constructor
  · intro hr
    refine run_ok_of _ _ _ _ _ hres ?_ ⟨e1, e2, e3, ?_⟩
    · rw [Bool.eq_false_iff]; intro h; exact hoor.mp h hr
    · have := square_dims ρ' (by rw [e2, e1]) (by rw [e1, e3]; exact hr)
      rwa [e1, e3] at this
  · intro hr
    exact run_valueError_of _ _ _ _ hres (hoor.mpr hr)

/-- `diagonal=` given: `side = diagonal/√2` (so that `√2·side` is the requested diagonal); range and dimensions as above -/
theorem square_by_diagonal (h1 : pres "side" = false) (h2 : pres "diagonal" = true) :
    (SideRange (ρ "diagonal" / Real.sqrt 2) (ρ "corner_radius") → (square_spec.run pres ρ).okWith (fun ρ' =>
        ρ' "diagonal" = ρ "diagonal" ∧ ρ' "side" = ρ "diagonal" / Real.sqrt 2 ∧ Real.sqrt 2 * ρ' "side" = ρ "diagonal" ∧
        ρ' "corner_radius" = ρ "corner_radius" ∧ SquareDims ρ' (ρ "diagonal" / Real.sqrt 2) (ρ "corner_radius"))) ∧
    (¬ SideRange (ρ "diagonal" / Real.sqrt 2) (ρ "corner_radius") → (square_spec.run pres ρ).isValueError) := by
  have s2 := sqrt_two_pos
  have hres : resolveGroups pres ρ square_spec.groups = some (rebind ρ "side" (ρ "diagonal" / Real.sqrt 2)) := by
    simp [resolveGroups, selectBranch, Branch.matches, square_spec, h1, h2, applyAssigns, Expr.eval]
  set ρ' := rebind ρ "side" (ρ "diagonal" / Real.sqrt 2) with hρ'
  have e1 : ρ' "side" = ρ "diagonal" / Real.sqrt 2 := by simp [hρ', rebind]
  have e2 : ρ' "diagonal" = ρ "diagonal" := by simp [hρ', rebind]
  have e3 : ρ' "corner_radius" = ρ "corner_radius" := by simp [hρ', rebind]
  have e4 : Real.sqrt 2 * (ρ "diagonal" / Real.sqrt 2) = ρ "diagonal" := by field_simp
  have hoor := square_out_of_range ρ'
  rw [e1, e3] at hoor
  constructor
  · intro hr
    refine run_ok_of _ _ _ _ _ hres ?_ ⟨e2, e1, by rw [e1, e4], e3, ?_⟩
    · rw [Bool.eq_false_iff]; intro h; exact hoor.mp h hr
    · have := square_dims ρ' (by rw [e2, e1, e4]) (by rw [e1, e3]; exact hr)
      rwa [e1, e3] at this
  · intro hr
    exact run_valueError_of _ _ _ _ hres (hoor.mpr hr)

def sideEnv (s r : ℝ) : String → ℝ := fun n => if n = "side" then s else if n = "corner_radius" then r else 0

example : (square_spec.run (fun n => n = "side") (sideEnv 10 1)).okWith (fun ρ' =>
    ρ' "side" = sideEnv 10 1 "side" ∧ ρ' "diagonal" = Real.sqrt 2 * sideEnv 10 1 "side" ∧
    ρ' "corner_radius" = sideEnv 10 1 "corner_radius" ∧
    SquareDims ρ' (sideEnv 10 1 "side") (sideEnv 10 1 "corner_radius")) :=
  (square_by_side (fun n => n = "side") (sideEnv 10 1) (by simp) (by simp)).1 (by simp [SideRange, sideEnv]; norm_num)

example : (square_spec.run (fun n => n = "side") (sideEnv 10 6)).isValueError :=
  (square_by_side (fun n => n = "side") (sideEnv 10 6) (by simp) (by simp)).2 (by simp [SideRange, sideEnv]; norm_num)

/-! ## hexagon (standing on a flat side; exactly one of `side`, `height`, `diagonal`) -/

/-- `TypeError` unless exactly one of the three alternatives is given — all 8 presence patterns -/
theorem hexagon_type_error :
    (hexagon_spec.run pres ρ).isTypeError ↔
      ¬ ((pres "side" = true ∧ pres "height" = false ∧ pres "diagonal" = false) ∨
         (pres "side" = false ∧ pres "height" = true ∧ pres "diagonal" = false) ∨
         (pres "side" = false ∧ pres "height" = false ∧ pres "diagonal" = true)) := by
  rw [run_typeError_iff]
  cases h1 : pres "side" <;> cases h2 : pres "height" <;> cases h3 : pres "diagonal" <;>
    simp [resolveGroups, selectBranch, Branch.matches, hexagon_spec, h1, h2, h3]

example : (hexagon_spec.run (fun n => n = "side" || n = "height") (fun _ => (1 : ℝ))).isTypeError :=
  (hexagon_type_error _ _).mpr (by simp)
example : (hexagon_spec.run (fun _ => false) (fun _ => (1 : ℝ))).isTypeError :=
  (hexagon_type_error _ _).mpr (by simp)

/-- with the three sizes resolved consistently the range test is the documented one -/
theorem hexagon_out_of_range (hh : ρ "height" = Real.sqrt 3 * ρ "side") (hd : ρ "diagonal" = 2 * ρ "side") :
    hexagon_spec.outOfRange ρ = true ↔ ¬ SideRange (ρ "side") (ρ "corner_radius") := by
  have s3 := sqrt_three_pos
  simp [Spec.outOfRange, hexagon_spec, Expr.eval]
  rw [hh, hd]
  unfold SideRange
  constructor
  · rintro (h1 | h1 | h1 | h1 | h1) ⟨a, b, c⟩
    · linarith
    · have := mul_pos s3 a; linarith
    · linarith
    · linarith
    · linarith
  · intro hn
    by_contra hc
    push Not at hc
    exact hn ⟨by linarith, by linarith, by linarith⟩

/-- the generated core polygon is the regular hexagon whose side is shrunk by `2r/√3`
    (so that its flat sides move inwards by exactly `r`) -/
theorem hexagon_shape : hexagon_spec.shape ρ =
    { verts := hexV (ρ "side" - ρ "corner_radius" * 2 / Real.sqrt 3), r := ρ "corner_radius" } := by
  simp only [Spec.shape, hexagon_spec, Expr.eval, hexV, List.map, PyNum.nat_real, PyNum.sqrt_real]
  congr 1
  simp only [List.cons.injEq, Prod.mk.injEq, and_true]
  push_cast
  refine ⟨⟨?_, ?_⟩, ⟨?_, ?_⟩, ⟨?_, ?_⟩, ⟨?_, ?_⟩, ⟨?_, ?_⟩, ⟨?_, ?_⟩⟩ <;> ring

/-- "requested dimensions, measured as documented" for the hexagon with rounded corners: the distance between each
    of the three pairs of opposite flat sides is the requested height `√3·s`; the rounded tips reach
    `2s − 2(2/√3 − 1)·r`; area `3√3/2·s² − (2√3 − π)·r²` -/
def HexagonDims (ρ : String → ℝ) (s r : ℝ) : Prop :=
  (hexagon_spec.shape ρ).height = Real.sqrt 3 * s ∧
  extent (hexagon_spec.shape ρ).verts (hexagon_spec.shape ρ).r (Real.sqrt 3 / 2) (1 / 2) = Real.sqrt 3 * s ∧
  extent (hexagon_spec.shape ρ).verts (hexagon_spec.shape ρ).r (-(Real.sqrt 3 / 2)) (1 / 2) = Real.sqrt 3 * s ∧
  (hexagon_spec.shape ρ).width = 2 * s - 2 * (2 / Real.sqrt 3 - 1) * r ∧
  (hexagon_spec.shape ρ).area = 3 * Real.sqrt 3 / 2 * s ^ 2 - (2 * Real.sqrt 3 - Real.pi) * r ^ 2

/-- **hexagon_dims**: flat-to-flat = requested height, in all three directions -/
theorem hexagon_dims (hr : SideRange (ρ "side") (ρ "corner_radius")) :
    HexagonDims ρ (ρ "side") (ρ "corner_radius") := by
  obtain ⟨h1, h2, h3⟩ := hr
  have s3 := sqrt_three_pos
  have s33 := sqrt_three_mul_self
  set s := ρ "side"
  set r := ρ "corner_radius"
  have hk : r * 2 / Real.sqrt 3 = 2 * Real.sqrt 3 / 3 * r := by
    field_simp; linear_combination (-r) * s33
  have h1le : 1 ≤ Real.sqrt 3 := by nlinarith
  have hc0 : 0 ≤ s - 2 * Real.sqrt 3 / 3 * r := by nlinarith
  unfold HexagonDims
  rw [hexagon_shape, hk]
  simp only
  rw [hex_height _ _ hc0, (hex_extent30 _ r hc0).1, (hex_extent30 _ r hc0).2, hex_width _ _ hc0, hex_area _ _ hc0]
  have hinv : 2 / Real.sqrt 3 = 2 * Real.sqrt 3 / 3 := by
    field_simp; linear_combination (-1 : ℝ) * s33
  rw [hinv]
  refine ⟨?_, ?_, ?_, by ring, ?_⟩
  · linear_combination (-(2 / 3) * r) * s33
  · linear_combination (-(2 / 3) * r) * s33
  · linear_combination (-(2 / 3) * r) * s33
  · linear_combination (-(2 * s * r) + 2 * Real.sqrt 3 / 3 * r ^ 2) * s33

/-- common part of the three alternatives: once `side`, `height = √3·side`, `diagonal = 2·side` are resolved -/
theorem hexagon_resolved (ρ' : String → ℝ) (s : ℝ)
    (hres : resolveGroups pres ρ hexagon_spec.groups = some ρ')
    (e1 : ρ' "side" = s) (e2 : ρ' "height" = Real.sqrt 3 * s) (e3 : ρ' "diagonal" = 2 * s) :
    (SideRange s (ρ' "corner_radius") → (hexagon_spec.run pres ρ).okWith (fun ρ'' =>
        ρ'' = ρ' ∧ HexagonDims ρ'' s (ρ' "corner_radius"))) ∧
    (¬ SideRange s (ρ' "corner_radius") → (hexagon_spec.run pres ρ).isValueError) := by
  have hoor := hexagon_out_of_range ρ' (by rw [e2, e1]) (by rw [e3, e1])
  rw [e1] at hoor
  constructor
  · intro hr
    refine run_ok_of _ _ _ _ _ hres ?_ ⟨rfl, ?_⟩
    · rw [Bool.eq_false_iff]; intro h; exact hoor.mp h hr
    · have := hexagon_dims ρ' (by rw [e1]; exact hr)
      rwa [e1] at this
  · intro hr
    exact run_valueError_of _ _ _ _ hres (hoor.mpr hr)

/-- `side=` given -/
theorem hexagon_by_side (h1 : pres "side" = true) (h2 : pres "height" = false) (h3 : pres "diagonal" = false) :
    (SideRange (ρ "side") (ρ "corner_radius") → (hexagon_spec.run pres ρ).okWith (fun ρ' =>
        ρ' "side" = ρ "side" ∧ ρ' "height" = Real.sqrt 3 * ρ "side" ∧ ρ' "diagonal" = 2 * ρ "side" ∧
        HexagonDims ρ' (ρ "side") (ρ "corner_radius"))) ∧
    (¬ SideRange (ρ "side") (ρ "corner_radius") → (hexagon_spec.run pres ρ).isValueError) := by
  set ρ' := rebind (rebind ρ "height" (ρ "side" * Real.sqrt 3)) "diagonal" (ρ "side" * 2) with hρ'
  have hres : resolveGroups pres ρ hexagon_spec.groups = some ρ' := by
    simp [resolveGroups, selectBranch, Branch.matches, hexagon_spec, h1, h2, h3, applyAssigns, Expr.eval, hρ', rebind]
  have e1 : ρ' "side" = ρ "side" := by simp [hρ', rebind]
  have e2 : ρ' "height" = Real.sqrt 3 * ρ "side" := by simp [hρ', rebind]; ring
  have e3 : ρ' "diagonal" = 2 * ρ "side" := by simp [hρ', rebind]; ring
  have e4 : ρ' "corner_radius" = ρ "corner_radius" := by simp [hρ', rebind]
  have := hexagon_resolved pres ρ ρ' (ρ "side") hres e1 e2 e3
  rw [e4] at this
  refine ⟨fun hr => ?_, this.2⟩
  have h := this.1 hr
  revert h; generalize hexagon_spec.run pres ρ = o
  cases o <;> simp only [Outcome.okWith, imp_self]
  rintro ⟨rfl, hd⟩; exact ⟨e1, e2, e3, hd⟩

/-- `diagonal=` (corner to corner) given: `side = diagonal/2`, `height = √3·side` -/
theorem hexagon_by_diagonal (h1 : pres "side" = false) (h2 : pres "height" = false) (h3 : pres "diagonal" = true) :
    (SideRange (ρ "diagonal" / 2) (ρ "corner_radius") → (hexagon_spec.run pres ρ).okWith (fun ρ' =>
        ρ' "diagonal" = ρ "diagonal" ∧ ρ' "side" = ρ "diagonal" / 2 ∧ ρ' "height" = Real.sqrt 3 * (ρ "diagonal" / 2) ∧
        HexagonDims ρ' (ρ "diagonal" / 2) (ρ "corner_radius"))) ∧
    (¬ SideRange (ρ "diagonal" / 2) (ρ "corner_radius") → (hexagon_spec.run pres ρ).isValueError) := by
  set ρ' := rebind (rebind ρ "side" (ρ "diagonal" / 2)) "height" (ρ "diagonal" / 2 * Real.sqrt 3) with hρ'
  have hres : resolveGroups pres ρ hexagon_spec.groups = some ρ' := by
    simp [resolveGroups, selectBranch, Branch.matches, hexagon_spec, h1, h2, h3, applyAssigns, Expr.eval, hρ', rebind]
  have e1 : ρ' "side" = ρ "diagonal" / 2 := by simp [hρ', rebind]
  have e2 : ρ' "height" = Real.sqrt 3 * (ρ "diagonal" / 2) := by simp [hρ', rebind]; ring
  have e3 : ρ' "diagonal" = 2 * (ρ "diagonal" / 2) := by simp [hρ', rebind]; ring
  have e4 : ρ' "corner_radius" = ρ "corner_radius" := by simp [hρ', rebind]
  have := hexagon_resolved pres ρ ρ' (ρ "diagonal" / 2) hres e1 e2 e3
  rw [e4] at this
  refine ⟨fun hr => ?_, this.2⟩
  have h := this.1 hr
  revert h; generalize hexagon_spec.run pres ρ = o
  cases o <;> simp only [Outcome.okWith, imp_self]
  rintro ⟨rfl, hd⟩; exact ⟨by rw [e3]; ring, e1, e2, hd⟩

/-- `height=` (flat to flat) given: `side = height/√3`, so the ideal flat-to-flat distance `√3·side` IS the requested height -/
theorem hexagon_by_height (h1 : pres "side" = false) (h2 : pres "height" = true) (h3 : pres "diagonal" = false) :
    (SideRange (ρ "height" / Real.sqrt 3) (ρ "corner_radius") → (hexagon_spec.run pres ρ).okWith (fun ρ' =>
        ρ' "height" = ρ "height" ∧ ρ' "side" = ρ "height" / Real.sqrt 3 ∧ ρ' "diagonal" = 2 * (ρ "height" / Real.sqrt 3) ∧
        (hexagon_spec.shape ρ').height = ρ "height" ∧
        HexagonDims ρ' (ρ "height" / Real.sqrt 3) (ρ "corner_radius"))) ∧
    (¬ SideRange (ρ "height" / Real.sqrt 3) (ρ "corner_radius") → (hexagon_spec.run pres ρ).isValueError) := by
  have s3 := sqrt_three_pos
  set ρ' := rebind (rebind ρ "side" (ρ "height" / Real.sqrt 3)) "diagonal" (ρ "height" / Real.sqrt 3 * 2) with hρ'
  have hres : resolveGroups pres ρ hexagon_spec.groups = some ρ' := by
    simp [resolveGroups, selectBranch, Branch.matches, hexagon_spec, h1, h2, h3, applyAssigns, Expr.eval, hρ', rebind]
  have e0 : Real.sqrt 3 * (ρ "height" / Real.sqrt 3) = ρ "height" := by field_simp
  have e1 : ρ' "side" = ρ "height" / Real.sqrt 3 := by simp [hρ', rebind]
  have e2 : ρ' "height" = Real.sqrt 3 * (ρ "height" / Real.sqrt 3) := by rw [e0]; simp [hρ', rebind]
  have e3 : ρ' "diagonal" = 2 * (ρ "height" / Real.sqrt 3) := by simp [hρ', rebind]; ring
  have e4 : ρ' "corner_radius" = ρ "corner_radius" := by simp [hρ', rebind]
  have := hexagon_resolved pres ρ ρ' (ρ "height" / Real.sqrt 3) hres e1 e2 e3
  rw [e4] at this
  refine ⟨fun hr => ?_, this.2⟩
  have h := this.1 hr
  revert h; generalize hexagon_spec.run pres ρ = o
  cases o <;> simp only [Outcome.okWith, imp_self]
  rintro ⟨rfl, hd⟩; exact ⟨by rw [e2, e0], e1, e3, by rw [hd.1, e0], hd⟩

example : (hexagon_spec.run (fun n => n = "side") (sideEnv 1 (1 / 5))).okWith (fun ρ' =>
    ρ' "side" = sideEnv 1 (1 / 5) "side" ∧ ρ' "height" = Real.sqrt 3 * sideEnv 1 (1 / 5) "side" ∧
    ρ' "diagonal" = 2 * sideEnv 1 (1 / 5) "side" ∧
    HexagonDims ρ' (sideEnv 1 (1 / 5) "side") (sideEnv 1 (1 / 5) "corner_radius")) :=
  (hexagon_by_side (fun n => n = "side") (sideEnv 1 (1 / 5)) (by simp) (by simp) (by simp)).1
    (by simp [SideRange, sideEnv]; norm_num)

example : (hexagon_spec.run (fun n => n = "side") (sideEnv 1 (3 / 5))).isValueError :=
  (hexagon_by_side (fun n => n = "side") (sideEnv 1 (3 / 5)) (by simp) (by simp) (by simp)).2
    (by simp [SideRange, sideEnv]; norm_num)

/-! ## from_groove (`width` xor `filling`, `height` xor `gap`) -/

/-- `TypeError` exactly when one of the two pairs is contradictory (both) or incomplete (none) — all 16 patterns -/
theorem from_groove_type_error :
    (from_groove_spec.run pres ρ).isTypeError ↔
      (pres "width" = pres "filling" ∨ pres "height" = pres "gap") := by
  rw [run_typeError_iff]
  cases h1 : pres "width" <;> cases h2 : pres "filling" <;> cases h3 : pres "height" <;> cases h4 : pres "gap" <;>
    simp [resolveGroups, selectBranch, Branch.matches, from_groove_spec, h1, h2, h3, h4]

example : (from_groove_spec.run (fun n => n = "width") (fun _ => (1 : ℝ))).isTypeError :=
  (from_groove_type_error _ _).mpr (by simp)

/-- documented range: `filling > 0`, `width > 0`, `height > 0`, `gap ≥ 0` -/
def GrooveRange (ρ : String → ℝ) : Prop := 0 < ρ "filling" ∧ 0 < ρ "width" ∧ 0 < ρ "height" ∧ 0 ≤ ρ "gap"

theorem from_groove_out_of_range : from_groove_spec.outOfRange ρ = true ↔ ¬ GrooveRange ρ := by
  simp [Spec.outOfRange, from_groove_spec, Expr.eval]
  unfold GrooveRange
  constructor
  · rintro (h | h | h | h) ⟨a, b, c, d⟩ <;> linarith
  · intro hn
    by_contra hc
    push Not at hc
    exact hn ⟨hc.1, hc.2.1, hc.2.2.1, hc.2.2.2⟩

/-- Resolution, whichever member of each pair is given: the given ones are kept, and the four sizes satisfy
    `width = filling · usable_width` and `height = gap + 2 · depth` (so the two ways of asking are inverse to each other). -/
theorem from_groove_resolved (hw : pres "width" = !pres "filling") (hh : pres "height" = !pres "gap")
    (huw : ρ "groove.usable_width" ≠ 0) :
    ∃ ρ', resolveGroups pres ρ from_groove_spec.groups = some ρ' ∧
      (pres "width" = true → ρ' "width" = ρ "width") ∧ (pres "filling" = true → ρ' "filling" = ρ "filling") ∧
      (pres "height" = true → ρ' "height" = ρ "height") ∧ (pres "gap" = true → ρ' "gap" = ρ "gap") ∧
      ρ' "width" = ρ' "filling" * ρ "groove.usable_width" ∧
      ρ' "height" = ρ' "gap" + 2 * ρ "groove.depth" := by
  cases h2 : pres "filling" <;> cases h4 : pres "gap" <;> rw [h2] at hw <;> rw [h4] at hh <;>
    simp only [Bool.not_false, Bool.not_true] at hw hh <;>
    simp [resolveGroups, selectBranch, Branch.matches, from_groove_spec, hw, hh, h2, h4, applyAssigns, Expr.eval, rebind] <;>
    (try field_simp)

/-- decision of `from_groove` once the alternatives are resolved -/
theorem from_groove_decision (ρ' : String → ℝ) (hres : resolveGroups pres ρ from_groove_spec.groups = some ρ') :
    (GrooveRange ρ' → (from_groove_spec.run pres ρ).okWith (fun ρ'' => ρ'' = ρ')) ∧
    (¬ GrooveRange ρ' → (from_groove_spec.run pres ρ).isValueError) := by
  constructor
  · intro hr
    refine run_ok_of _ _ _ _ _ hres ?_ rfl
    rw [Bool.eq_false_iff]; intro h; exact (from_groove_out_of_range ρ').mp h hr
  · intro hr
    exact run_valueError_of _ _ _ _ hres ((from_groove_out_of_range ρ').mpr hr)

/-- Geometry: the upper contour is lifted by `gap/2`, the lower one is its half turn, so contours of depth `depth`
    span the height `gap + 2·depth` symmetric to the origin; the clip interval is `[-width/2, width/2]`: symmetric and of
    length `width`. -/
theorem from_groove_geometry :
    from_groove.yoff.eval ρ = ρ "gap" / 2 ∧
    2 * (ρ "groove.depth" + from_groove.yoff.eval ρ) = ρ "gap" + 2 * ρ "groove.depth" ∧
    from_groove.clipLo.eval ρ = -(from_groove.clipHi.eval ρ) ∧
    from_groove.clipHi.eval ρ - from_groove.clipLo.eval ρ = ρ "width" := by
  simp [from_groove, Expr.eval]
  refine ⟨by ring, by ring, by ring⟩

/-- the warning is logged exactly for `filling > 1`; the late rejection compares the half width with the extent of
    the contour lines enlarged by one percent -/
theorem from_groove_warn_late :
    ((from_groove.warnIf.any (fun c => c.holds ρ)) = true ↔ 1 < ρ "filling") ∧
    ((from_groove.lateReject.any (fun c => c.holds ρ)) = true ↔
      (-(ρ "width") / 2 < ρ "poly.bounds[0]" * (101 / 100) ∨ ρ "poly.bounds[2]" * (101 / 100) < ρ "width" / 2)) := by
  simp [from_groove, Expr.eval]
  norm_num

def grooveEnv (w g uw d : ℝ) : String → ℝ := fun n =>
  if n = "width" then w else if n = "gap" then g else if n = "groove.usable_width" then uw
  else if n = "groove.depth" then d else 0

example : ∃ ρ', resolveGroups (fun n => n = "width" || n = "gap") (grooveEnv 40 3 50 10) from_groove_spec.groups = some ρ' ∧
    ρ' "width" = 40 ∧ ρ' "gap" = 3 ∧ ρ' "width" = ρ' "filling" * 50 ∧ ρ' "height" = 3 + 2 * 10 := by
  obtain ⟨ρ', h, a, _, _, b, c, d⟩ := from_groove_resolved (fun n => n = "width" || n = "gap") (grooveEnv 40 3 50 10)
    (by simp) (by simp) (by simp [grooveEnv])
  refine ⟨ρ', h, ?_, ?_, ?_, ?_⟩
  · simpa [grooveEnv] using a (by simp)
  · simpa [grooveEnv] using b (by simp)
  · simpa [grooveEnv] using c
  · have := b (by simp); simp [grooveEnv] at this d; rw [d, this]

/-! ## from_polygon -/

/-- accepted exactly for a simple, valid, non-empty polygon without holes — all 16 combinations -/
theorem from_polygon_accepts_iff (facts : String → Bool) :
    polygonAccepted from_polygon_checks facts = true ↔
      (facts "is_simple" = true ∧ facts "is_valid" = true ∧ facts "is_empty" = false ∧ facts "has_interiors" = false) := by
  cases h1 : facts "is_simple" <;> cases h2 : facts "is_valid" <;> cases h3 : facts "is_empty" <;>
    cases h4 : facts "has_interiors" <;> simp [polygonAccepted, from_polygon_checks, h1, h2, h3, h4]

example : polygonAccepted from_polygon_checks (fun n => n = "is_simple" || n = "is_valid") = true := by
  rw [from_polygon_accepts_iff]; simp

/-! ## centred and symmetric -/

/-- The core polygon of every factory is closed under both mirror images (hence centred on the origin; the buffer
    with a disc keeps that); the square's is also invariant under the quarter turn, the hexagon's under the
    rotation by 60°.  `from_groove`: see `from_groove_geometry` (half turn, symmetric clip). -/
theorem centred_symmetric :
    MirrorSymmetric (round_spec.shape ρ).verts ∧ MirrorSymmetric (box_spec.shape ρ).verts ∧
    MirrorSymmetric (diamond_spec.shape ρ).verts ∧ MirrorSymmetric (square_spec.shape ρ).verts ∧
    MirrorSymmetric (hexagon_spec.shape ρ).verts ∧
    (∀ p ∈ (square_spec.shape ρ).verts, (-p.2, p.1) ∈ (square_spec.shape ρ).verts) ∧
    (∀ p ∈ (hexagon_spec.shape ρ).verts,
      (p.1 / 2 - Real.sqrt 3 / 2 * p.2, Real.sqrt 3 / 2 * p.1 + p.2 / 2) ∈ (hexagon_spec.shape ρ).verts) := by
  have e : round_spec.shape ρ = { verts := [((0 : ℝ), (0 : ℝ))], r := ρ "radius" } := by
    simp [Spec.shape, round_spec, Expr.eval]
  rw [e, box_shape, diamond_shape, square_shape, hexagon_shape]
  exact ⟨point_symm, rect_symm _ _, rhomb_symm _ _, rhomb_symm _ _, hex_symm _, rhomb_quarter_turn _, hex_sixth_turn _⟩

example : ((1 : ℝ) / 2 - 1 / 10, (1 : ℝ) - 1 / 10) ∈ (box_spec.shape (boxEnv 2 1 (1 / 10))).verts := by
  rw [box_shape]; simp [rectV, boxEnv]

/-! ## keyword values -/

/-- every factory hands `**kwargs` on to `Profile.__init__`, and the `Profile.<name>` class methods forward their
    parameters positionally in the order of the class signature (kernel-evaluated on the generated tables) -/
theorem kwargs_forwarded :
    kwargsForwarded.all (fun p => p.2) = true ∧
    forwards = signatures.map (fun s => (s.1, s.2.map Prod.fst)) ∧
    init_presets = [("t", 0)] := by
  refine ⟨by decide, by decide, by decide⟩

/-- `Profile.__init__` = presets, then `__dict__.update(kwargs)`: every additional keyword value is found in the
    instance dictionary unchanged (keys distinct, none of them one of the explicit keywords `cross_section`,
    `classifiers`); a keyword that collides with an explicit one is a `TypeError` of the call. -/
theorem kwargs_attached_unchanged {V : Type} (presets explicit kwargs : List (String × V))
    (hnd : (kwargs.map Prod.fst).Nodup) (hdisj : ∀ kv ∈ kwargs, ∀ e ∈ explicit, e.1 ≠ kv.1) :
    ∃ d, attach presets explicit kwargs = some d ∧ ∀ kv ∈ kwargs, lookup d kv.1 = some kv.2 :=
  attach_kwargs presets explicit kwargs hnd hdisj

theorem kwargs_collision_raises {V : Type} (presets explicit kwargs : List (String × V))
    (h : ∃ kv ∈ kwargs, ∃ e ∈ explicit, e.1 = kv.1) : attach presets explicit kwargs = none :=
  attach_collision presets explicit kwargs h

example : ∃ d, attach [("t", 0)] [("cross_section", 1), ("classifiers", 2)] [("temperature", 1000), ("t", 5)] = some d ∧
    lookup d "temperature" = some 1000 ∧ lookup d "t" = some 5 := by
  refine ⟨_, rfl, by decide, by decide⟩

/-! ## what the instance remembers -/

/-- classifiers and remembered attributes of every factory (kernel-evaluated on the generated tables): the resolved
    sizes are stored under the documented property names -/
theorem classifiers_and_attributes :
    Gen.C15.all.map (fun s => (s.name, s.classifiers)) =
      [("round", ["round"]), ("box", ["box"]), ("diamond", ["diamond"]), ("square", ["diamond", "square"]),
       ("hexagon", ["hexagon"])] ∧
    Gen.C15.all.map (fun s => (s.name, s.attrs)) =
      [("round", [("_radius", .var "radius"), ("_diameter", .var "diameter")]),
       ("box", [("_corner_radius", .var "corner_radius")]),
       ("diamond", [("_corner_radius", .var "corner_radius")]),
       ("square", [("_side", .var "side"), ("_diagonal", .var "diagonal"), ("_corner_radius", .var "corner_radius")]),
       ("hexagon", [("_corner_radius", .var "corner_radius"), ("_side", .var "side"), ("_diagonal", .var "diagonal")])] := by
  refine ⟨by decide, by decide⟩

/-- `from_groove` tests the clipped polygon for validity and raises otherwise (a closed gap with a width beyond the
    point where the contour lines meet has no valid cross-section) -/
theorem from_groove_rejects_invalid : from_groove.validityChecked = true := by decide

end C15
