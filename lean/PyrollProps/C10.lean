import PyrollProofs.GrooveRepSurface
import PyrollProofs.RollObjectLemmas

/-!
# C10 — all representations of one groove or roll surface describe the same shape

The theorems are about the tables `driver/translate/c10_depth.py` regenerates from the source on every run
(`PyrollModel/Gen/C10.lean`: junction chain, contour-line functions, what `local_depth` does to its argument before
`np.piecewise` (`depth_arg_ops`) and its `np.piecewise` table, the segment list of `_enumerate_contour_points`, the roll's
`surface_x / surface_y / surface_z / contour_points` formulas, what `surface_interpolation` does to its positions, the
spline groove's centring / width / depth terms, the entry-point formula) run by the hand-written model
`PyrollModel/GrooveRep.lean`, over ℝ.

* `σ : String → ℝ` are the constructor arguments of `GenericElongationGroove` after the fourth-of-four resolution;
  `D σ` is the translated `local_depth`; `Ordered σ` the junction order `0 ≤ z7 ≤ z6 ≤ z5 ≤ z4 ≤ z3 ≤ z1 ≤ z0`;
  `Params σ` radii ≥ 0, angles in the quadrant where the arcs are graphs over `z`, and closure of the flank at `z4`
  (what the constructors' solvers establish - C04; checked on every generated groove by the harness).
* partial: `scipy.interpolate.interp1d / interpn` are modelled as (bi)linear interpolation (`interp1`, `bilinear` =
  tensor product of two `interp1`); that the translated `surface_x` grid is strictly ascending is a hypothesis of the
  interpolation theorems (scipy itself demands it); boundary stripping of the spline groove enters
  `spline_refinement_invariant` as the hypothesis that the stripped refined polyline refines the stripped polyline.
-/

open GrooveRep Gen.C10 GrooveRepC GrooveRepI GrooveRepS RollObject

namespace C10

variable (σ : String → ℝ)

/-! ## generic elongation groove: depth function and contour polyline -/

/-- adjacent pieces of the analytic depth function agree at every junction `z7 … z1` (also at the face junction `z1`,
    for every pad angle), and therefore the depth function is continuous (everywhere, in particular inside the groove) -/
theorem depth_continuous_inside (o : Ordered σ) (p : Params σ) : JunctionsAgree σ ∧ Continuous (D σ) :=
  ⟨junctions_agree σ p, depth_continuous' σ o (junctions_agree σ p)⟩

/-- the depth function on CLOSED pieces: between two consecutive junctions, both included, it is the contour-line
    function of that piece (half-open `np.piecewise` selection + agreement at the junctions) -/
theorem depth_on_closed_pieces (o : Ordered σ) (p : Params σ) (z : ℝ) :
    (|z| ≤ Expr.eval σ z7 → D σ z = F σ fn_ground_contour_line |z|)
    ∧ (Expr.eval σ z7 ≤ |z| → |z| ≤ Expr.eval σ z6 → D σ z = F σ fn_r4_contour_line |z|)
    ∧ (Expr.eval σ z6 ≤ |z| → |z| ≤ Expr.eval σ z5 → D σ z = F σ fn_r3_contour_line |z|)
    ∧ (Expr.eval σ z5 ≤ |z| → |z| ≤ Expr.eval σ z4 → D σ z = F σ fn_r2_contour_line |z|)
    ∧ (Expr.eval σ z4 ≤ |z| → |z| ≤ Expr.eval σ z3 → D σ z = F σ fn_flank_contour_line |z|)
    ∧ (Expr.eval σ z3 ≤ |z| → |z| ≤ Expr.eval σ z1 → D σ z = F σ fn_r1_contour_line |z|)
    ∧ (Expr.eval σ z1 ≤ |z| → D σ z = F σ fn_face_contour_line |z|) :=
  have j := junctions_agree σ p
  ⟨D_ground σ o j z, D_r4 σ o j z, D_r3 σ o j z, D_r2 σ o j z, D_flank σ o j z, D_r1 σ o j z, D_face σ o z⟩

example : Ordered σ0 ∧ Params σ0 := ⟨σ0_ordered, σ0_params⟩
example : Continuous (D σ0) := (depth_continuous_inside σ0 σ0_ordered σ0_params).2

/-- every vertex of the contour polyline (both halves) lies on the analytic depth function -/
theorem vertices_on_depth_function (o : Ordered σ) (p : Params σ) (n : ℕ) :
    ∀ v ∈ contour σ n segments, D σ v.1 = v.2 := by
  intro v hv
  simp only [contour, assemble, List.mem_append, List.mem_map, List.mem_reverse] at hv
  rcases hv with ⟨w, hw, rfl⟩ | hv
  · have := right_vertices_on_depth σ o p n w (List.dropLast_subset _ hw)
    simpa [mirrorPt, D_even] using this
  · exact right_vertices_on_depth σ o p n v hv

/-! ## the argument of the depth function: whichever numeric kind the caller holds the abscissa in

`local_depth(z)` is called with python ints and floats, numpy integer / float scalars, lists and arrays of either.  The
translator reads what the source does to `z` before `np.piecewise` into `depth_arg_ops`; `localDepthElem` runs these
conversions on one entry of the argument (`.int n` / `.float x`), evaluates the piecewise table at the position the converted
entry stands for and stores the value with the dtype of the converted entry, as `np.piecewise` does (an integer dtype
truncates toward zero). -/

/-- handed a float, the translated `local_depth` hands back a float: the depth function `D σ` of the groove theorems
    (this ties the conversions read from the source to the `D σ` all other theorems are about) -/
theorem depth_of_float_argument (x : ℝ) :
    localDepthElem depth_arg_ops pieces depth_default σ (.float x) = .float (D σ x) := localDepthElem_float σ x

/-- the value at the INTEGER `n` is the value at the real number `n`: the translated `local_depth` commutes with the embedding
    of the integers into the floats, and what it hands back is a float (nothing is truncated) - because the source converts its
    argument to float before `np.piecewise` -/
theorem depth_commutes_with_int_embedding (h : ArgOp.asFloat ∈ depth_arg_ops) (n : ℤ) :
    localDepthElem depth_arg_ops pieces depth_default σ (.int n)
        = localDepthElem depth_arg_ops pieces depth_default σ (.float (n : ℝ))
      ∧ localDepthElem depth_arg_ops pieces depth_default σ (.int n) = .float (D σ n) :=
  ⟨by rw [localDepthElem_int σ h n, localDepthElem_float], localDepthElem_int σ h n⟩

/-- the same for whole arguments: an integer scalar / an integer list or array is answered entry by entry like the float
    scalar / the float array of the same positions -/
theorem depth_of_integer_argument (h : ArgOp.asFloat ∈ depth_arg_ops) (n : ℤ) (ns : List ℤ) :
    localDepthArg depth_arg_ops pieces depth_default σ (.int n)
        = localDepthArg depth_arg_ops pieces depth_default σ (.float (n : ℝ))
      ∧ localDepthArg depth_arg_ops pieces depth_default σ (.intArray ns)
        = localDepthArg depth_arg_ops pieces depth_default σ (.floatArray (ns.map fun (n : ℤ) => (n : ℝ)))
      ∧ localDepthArg depth_arg_ops pieces depth_default σ (.intArray ns) = ns.map fun (n : ℤ) => .float (D σ n) := by
  refine ⟨?_, ?_, ?_⟩
  · simp only [localDepthArg, PyArg.elems, List.map_cons, List.map_nil, (depth_commutes_with_int_embedding σ h n).1]
  · induction ns with
    | nil => rfl
    | cons a t ih =>
      simp only [localDepthArg, PyArg.elems, List.map_cons] at ih ⊢
      rw [(depth_commutes_with_int_embedding σ h a).1, ih]
  · induction ns with
    | nil => rfl
    | cons a t ih =>
      simp only [localDepthArg, PyArg.elems, List.map_cons] at ih ⊢
      rw [(depth_commutes_with_int_embedding σ h a).2, ih]

/-- the harness demands the conversion (`DEPTH_FLOAT_REQUIRED` of driver/props/c10.py, written into the generated file):
    on a source whose `local_depth` hands its argument to `np.piecewise` unconverted this does not build -/
theorem depth_argument_conversion_as_required : depth_float_required = true → ArgOp.asFloat ∈ depth_arg_ops := by decide

/-- every contour vertex whose abscissa is a whole number lies on the depth function ALSO for a caller who holds that
    abscissa in an integer (the centre vertex `z9 = 0` of every groove is such a vertex) -/
theorem integer_vertices_on_depth_function (o : Ordered σ) (p : Params σ) (h : ArgOp.asFloat ∈ depth_arg_ops) (n : ℕ) :
    ∀ v ∈ contour σ n segments, ∀ k : ℤ, v.1 = k →
      localDepthElem depth_arg_ops pieces depth_default σ (.int k) = .float v.2 := by
  intro v hv k hk
  rw [(depth_commutes_with_int_embedding σ h k).2, ← hk, vertices_on_depth_function σ o p n v hv]

/-- decided on the generated conversions: EITHER the source converts to float and the depth at every integer is the depth at
    that real number, for every groove (the repaired form) OR it does not and the trapezoid `σ1` (usable width 5, ground width
    3, depth 1, flank 45 deg), 1/2 deep at the abscissa 2, is 0 deep when asked with the integer 2 (the form of /repo before
    the repair: `z = np.abs(z)` only) -/
theorem generated_argument_conversion :
    (ArgOp.asFloat ∈ depth_arg_ops ∧ ∀ (σ : String → ℝ) (n : ℤ),
        localDepthElem depth_arg_ops pieces depth_default σ (.int n) = .float (D σ n))
      ∨ (ArgOp.asFloat ∉ depth_arg_ops ∧ localDepthElem depth_arg_ops pieces depth_default σ1 (.int 2) = .int 0
          ∧ D σ1 2 = 1 / 2) := by
  first
  | exact Or.inl ⟨by decide, fun σ n => localDepthElem_int σ (by decide) n⟩
  | exact Or.inr ⟨by decide, σ1_unconverted_int, σ1_depth_at_two⟩

/-- witness on written-out conversions (whatever the source has today): WITHOUT a conversion to float (`z = np.abs(z)`) the
    trapezoid `σ1`, 1/2 deep at the abscissa 2, is 0 deep when asked with the integer 2 - the result has the integer dtype of
    the argument; WITH it (`z = np.abs(np.asarray(z, dtype=float))`) the integer 2 is answered with the float 1/2.  Replayed
    on the implementation (corpus groove of driver/props/c10.py, `GenericElongationGroove(usable_width=5, depth=1,
    even_ground_width=3, flank_angle=pi/4, r1=0, r2=0, pad=1).local_depth(2)`) -/
theorem unconverted_integer_argument_is_truncated :
    localDepthElem [.abs] pieces depth_default σ1 (.int 2) = .int 0
      ∧ localDepthElem [.asFloat, .abs] pieces depth_default σ1 (.int 2) = .float (1 / 2)
      ∧ localDepthElem [.abs] pieces depth_default σ1 (.float 2) = .float (1 / 2) := by
  have h := σ1_depth_at_two
  rw [D_unfold, abs_of_nonneg (by norm_num : (0:ℝ) ≤ 2), F] at h
  have e : (ofInt (Int.natAbs 2 : ℕ) : ℝ) = 2 := by rw [ofInt_real]; norm_num
  have e2 : (ofInt 2 : ℝ) = 2 := by rw [ofInt_real]; norm_num
  refine ⟨σ1_unconverted_int, ?_, ?_⟩
  · simp only [localDepthElem, convElem, List.foldl, ArgOp.onElem, PyScalar.val, storeLike, depth_default, e2,
      PyNum.abs_real, abs_of_nonneg (by norm_num : (0:ℝ) ≤ 2), h]
  · simp only [localDepthElem, convElem, List.foldl, ArgOp.onElem, PyScalar.val, storeLike, depth_default,
      PyNum.abs_real, abs_of_nonneg (by norm_num : (0:ℝ) ≤ 2), h]

example : Ordered σ1 ∧ Params σ1 ∧ D σ1 2 = 1 / 2 := ⟨σ1_ordered, σ1_params, σ1_depth_at_two⟩
/-- the hypothesis `ArgOp.asFloat ∈ depth_arg_ops` holds for what the repaired source gives -/
example : ArgOp.asFloat ∈ [ArgOp.asFloat, ArgOp.abs] ∧ ArgOp.asFloat ∉ [ArgOp.abs] := by decide
/-- the centre vertex of the trapezoid `σ1` (any sample count), asked for with the integer 0 -/
example (h : ArgOp.asFloat ∈ depth_arg_ops) :
    localDepthElem depth_arg_ops pieces depth_default σ1 (.int 0) = .float 1 := by
  have hv : ((0 : ℝ), (1 : ℝ)) ∈ contour σ1 3 segments := by
    have e9 : Expr.eval σ1 y9 = 1 := by simp [y9, Expr.eval, σ1]
    simp only [contour, assemble, rightSide, segments, List.flatMap_cons, List.flatMap_nil, List.mem_append, List.mem_reverse]
    right
    simp only [segPoints]
    right; right; right; right; right; right
    rw [e_z9, e9]
    exact Or.inl (List.mem_singleton.mpr rfl)
  simpa using integer_vertices_on_depth_function σ1 σ1_ordered σ1_params h 3 _ hv 0 (by simp)

/-! ## roll surface -/

/-- at the high point (`x = 0`) the grid reproduces the contour ordinate -/
theorem surface_at_high_point (ρ : String → ℝ) (cy : ℝ) (h : cy ≤ ρ "max_radius") :
    surfacePoint ρ surface_y cy 0 = cy := surfacePoint_at_zero ρ cy h


/-- off the high point every grid value lies on the circle about the roll axis (height `max_radius`) through the contour
    point: the grid is the surface of revolution of the contour -/
theorem surface_is_revolution (ρ : String → ℝ) (cy sx : ℝ) (h : sx ^ 2 ≤ (ρ "max_radius" - cy) ^ 2) :
    sx ^ 2 + (ρ "max_radius" - surfacePoint ρ surface_y cy sx) ^ 2 = (ρ "max_radius" - cy) ^ 2
      ∧ surfacePoint ρ surface_y cy sx ≤ ρ "max_radius" := by
  rw [surfacePoint_eq]
  have h0 : 0 ≤ (ρ "max_radius" - cy) ^ 2 - sx ^ 2 := by linarith
  constructor
  · rw [sub_sub_cancel, Real.sq_sqrt h0]; ring
  · linarith [Real.sqrt_nonneg ((ρ "max_radius" - cy) ^ 2 - sx ^ 2)]

/-- every abscissa of the translated `surface_x` grid is `min_radius · sin t` for some angle `t`, whatever the padded
    contact angle and the sample count -/
theorem surface_x_within_min_radius (ρ : String → ℝ) (n : ℕ) :
    ∀ x ∈ surfaceX ρ n surface_x_specs surface_x_outer, ∃ t : ℝ, x = ρ "min_radius" * Real.sin t := by
  intro x hx
  unfold surfaceX at hx
  obtain ⟨t, _, rfl⟩ := List.mem_map.mp hx
  exact ⟨t, by simp [surface_x_outer, Expr.eval, setVar]⟩

/-- the WHOLE translated grid is the surface of revolution, without a side condition on the abscissae: with `min_radius` as
    the translated hook computes it from `max_radius` (given explicitly or defaulting to the nominal radius - it is a free
    variable here) and the deepest contour ordinate, every node of the translated `surface_x` grid lies inside every
    circle of the contour (the square root of `surface_y` is defined), and every grid value lies on the circle about the
    roll axis through its contour point -/
theorem surface_grid_is_revolution (ρ : String → ℝ) (n : ℕ) (ys : List ℝ)
    (hmin : ρ "min_radius" = Expr.eval ρ roll_min_radius)
    (hb : ∀ y ∈ ys, y ≤ ρ "contour_line.bounds[3]") (hR : ρ "contour_line.bounds[3]" ≤ ρ "max_radius") :
    ∀ y ∈ ys, ∀ x ∈ surfaceX ρ n surface_x_specs surface_x_outer,
      x ^ 2 ≤ (ρ "max_radius" - y) ^ 2
        ∧ x ^ 2 + (ρ "max_radius" - surfacePoint ρ surface_y y x) ^ 2 = (ρ "max_radius" - y) ^ 2
        ∧ surfacePoint ρ surface_y y x ≤ ρ "max_radius" := by
  intro y hy x hx
  obtain ⟨t, rfl⟩ := surface_x_within_min_radius ρ n x hx
  have hm : ρ "min_radius" = ρ "max_radius" - ρ "contour_line.bounds[3]" := by
    rw [hmin]; simp [roll_min_radius, Expr.eval]
  have h0 : 0 ≤ ρ "min_radius" := by rw [hm]; linarith
  have h1 : ρ "min_radius" ≤ ρ "max_radius" - y := by rw [hm]; linarith [hb y hy]
  have hs : Real.sin t ^ 2 ≤ 1 := Real.sin_sq_le_one t
  have hx2 : (ρ "min_radius" * Real.sin t) ^ 2 ≤ (ρ "max_radius" - y) ^ 2 := by
    calc (ρ "min_radius" * Real.sin t) ^ 2 = ρ "min_radius" ^ 2 * Real.sin t ^ 2 := by ring
      _ ≤ ρ "min_radius" ^ 2 * 1 := by
          exact mul_le_mul_of_nonneg_left hs (sq_nonneg _)
      _ = ρ "min_radius" ^ 2 := by ring
      _ ≤ (ρ "max_radius" - y) ^ 2 := by
          exact pow_le_pow_left₀ h0 h1 2
  exact ⟨hx2, surface_is_revolution ρ y _ hx2⟩

/-- interpolated at the high point, the roll surface IS the contour polyline (for every `z`, not only at the vertices) -/
theorem surface_interpolation_at_high_point (ρ : String → ℝ) (xs zs ys : List ℝ) (hx : xs.Pairwise (· < ·))
    (h0 : (0 : ℝ) ∈ xs) (hlen : 2 ≤ xs.length) (hy : ∀ y ∈ ys, y ≤ ρ "max_radius") (z : ℝ) :
    bilinear xs zs (surfaceGridT ρ surface_y ys xs) 0 z = interp1 (zs.zip ys) z := by
  rw [bilinear_at_x_node xs zs _ hx (by rw [length_zip_grid]; exact hlen) 0 _ (mem_zip_grid ρ ys xs 0 h0) z,
    surface_row_at_high_point ρ ys hy]

/-! ### the positions handed to `surface_interpolation`: whichever numeric kind the caller holds them in -/

/-- the generated `surface_interpolation` evaluates the surface at the positions AS GIVEN: nothing the source does to `x`
    and `z` before `interpn` moves them (no folding onto one quadrant: `np.abs` is not among the conversions read) -/
theorem interpolation_positions_as_given : ArgOp.abs ∉ interp_x_ops ∧ ArgOp.abs ∉ interp_z_ops := by decide

/-- `surface_interpolation(x, z)` is the (bi)linear interpolation at the positions the two arguments stand for, in whatever
    numeric kind (integer / float) each of them is handed over -/
theorem interpolation_independent_of_numeric_type (xs zs : List ℝ) (G : List (List ℝ)) (x z : PyScalar ℝ) :
    surfaceInterpElem interp_x_ops interp_z_ops xs zs G x z = bilinear xs zs G x.val z.val := by
  rw [surfaceInterpElem, convElem_val_of_no_abs _ interpolation_positions_as_given.1,
    convElem_val_of_no_abs _ interpolation_positions_as_given.2]

/-- the array form commutes with the embedding of the integers: integer lists / arrays of positions are answered like the
    float arrays of the same positions, one row per `z`, one column per `x` -/
theorem interpolation_commutes_with_int_embedding (xs zs : List ℝ) (G : List (List ℝ)) (is ks : List ℤ) :
    surfaceInterpArg interp_x_ops interp_z_ops xs zs G (.intArray is) (.intArray ks)
        = surfaceInterpArg interp_x_ops interp_z_ops xs zs G (.floatArray (is.map fun (i : ℤ) => (i : ℝ)))
            (.floatArray (ks.map fun (k : ℤ) => (k : ℝ)))
      ∧ surfaceInterpArg interp_x_ops interp_z_ops xs zs G (.intArray is) (.intArray ks)
        = ks.map fun (k : ℤ) => is.map fun (i : ℤ) => bilinear xs zs G i k := by
  constructor <;>
    simp only [surfaceInterpArg, PyArg.elems, List.map_map, interpolation_independent_of_numeric_type, Function.comp_def,
      PyScalar.val, ofInt_real]

/-- asked for the high point with the INTEGER 0, the interpolated surface is the contour polyline at every `z` -/
theorem surface_interpolation_at_integer_high_point (ρ : String → ℝ) (xs zs ys : List ℝ) (hx : xs.Pairwise (· < ·))
    (h0 : (0 : ℝ) ∈ xs) (hlen : 2 ≤ xs.length) (hy : ∀ y ∈ ys, y ≤ ρ "max_radius") (z : PyScalar ℝ) :
    surfaceInterpElem interp_x_ops interp_z_ops xs zs (surfaceGridT ρ surface_y ys xs) (.int 0) z
      = interp1 (zs.zip ys) z.val := by
  rw [interpolation_independent_of_numeric_type]
  simpa [PyScalar.val] using surface_interpolation_at_high_point ρ xs zs ys hx h0 hlen hy z.val

example : surfaceInterpArg interp_x_ops interp_z_ops [(-1 : ℝ), 0, 1] [(-1 : ℝ), 0, 1] [[3, 1, 3], [2, 0, 2], [3, 1, 3]]
    (.intArray [0, 1]) (.intArray [-1]) = [[2, 3]] := by
  rw [(interpolation_commutes_with_int_embedding _ _ _ _ _).2]
  simp [bilinear, interp1, lerp, PyNum.le]

/-! ## interpolation on the grid -/

/-- the (bi)linear interpolation reproduces the grid at its nodes -/
theorem interp_exact_at_nodes (xs zs : List ℝ) (G : List (List ℝ)) (hx : xs.Pairwise (· < ·))
    (hz : zs.Pairwise (· < ·)) (x0 : ℝ) (row0 : List ℝ) (hxr : (x0, row0) ∈ xs.zip G) (hlx : 2 ≤ (xs.zip G).length)
    (z0 g : ℝ) (hzg : (z0, g) ∈ zs.zip row0) (hlz : 2 ≤ (zs.zip row0).length) :
    bilinear xs zs G x0 z0 = g := by
  rw [bilinear_at_x_node xs zs G hx hlx x0 row0 hxr z0]
  exact interp1_at_vertex _ (asc_zip _ _ hz) hlz (z0, g) hzg

/-- symmetric in the width direction when every grid row is a symmetric polyline over `zs` -/
theorem interp_symmetric_z (xs zs : List ℝ) (G : List (List ℝ)) (hz : zs.Pairwise (· < ·))
    (hsym : ∀ row ∈ G, mirror (zs.zip row) = zs.zip row) (x z : ℝ) (hext : ∀ row ∈ G, InExtent (zs.zip row) z) :
    bilinear xs zs G x (-z) = bilinear xs zs G x z := by
  unfold bilinear
  congr 2
  exact List.map_congr_left fun row hrow =>
    interp1_symmetric _ (asc_zip _ _ hz) (hsym row hrow) z (hext row hrow)

/-- symmetric in the rolling direction when the grid abscissae and the grid are symmetric -/
theorem interp_symmetric_x (xs zs : List ℝ) (G : List (List ℝ)) (hx : xs.Pairwise (· < ·))
    (hlen : xs.length = G.length) (hxs : (xs.map fun t => -t).reverse = xs) (hG : G.reverse = G) (x z : ℝ)
    (hext : InExtent (xs.zip (G.map fun row => interp1 (zs.zip row) z)) x) :
    bilinear xs zs G (-x) z = bilinear xs zs G x z := by
  unfold bilinear
  apply interp1_symmetric _ (asc_zip _ _ hx) _ x hext
  apply mirror_zip _ _ (by simpa using hlen) hxs
  rw [← List.map_reverse, hG]

/-- the grid built from the translated `surface_y` is symmetric in the rolling direction -/
theorem grid_symmetric_x (ρ : String → ℝ) (ys xs : List ℝ) (hxs : (xs.map fun t => -t).reverse = xs) :
    (surfaceGridT ρ surface_y ys xs).reverse = surfaceGridT ρ surface_y ys xs := by
  have hr : xs.reverse = xs.map fun t => -t := by
    conv_lhs => rw [← hxs]
    rw [List.reverse_reverse]
  unfold surfaceGridT
  rw [← List.map_reverse, hr, List.map_map]
  exact List.map_congr_left fun x _ => List.map_congr_left fun y _ => surface_even_in_x ρ y x

/-- its rows are symmetric polylines when the contour is -/
theorem grid_rows_symmetric_z (ρ : String → ℝ) (zs ys xs : List ℝ) (hc : mirror (zs.zip ys) = zs.zip ys) :
    ∀ row ∈ surfaceGridT ρ surface_y ys xs, mirror (zs.zip row) = zs.zip row := by
  intro row hrow
  obtain ⟨x, _, rfl⟩ := List.mem_map.mp hrow
  have e : ∀ l : List (ℝ × ℝ), mirror (l.map (Prod.map id fun y => surfacePoint ρ surface_y y x))
      = (mirror l).map (Prod.map id fun y => surfacePoint ρ surface_y y x) := by
    intro l; simp [mirror, List.map_reverse, Function.comp_def, mirrorPt]
  rw [List.zip_map_right, e, hc]

/-! ## symmetry of the generated data -/

/-- the translated `surface_x` grid is symmetric about `0` -/
theorem surface_x_symmetric (ρ : String → ℝ) (n : ℕ) (hn : 1 ≤ n) :
    ((surfaceX ρ n surface_x_specs surface_x_outer).map fun t => -t).reverse
      = surfaceX ρ n surface_x_specs surface_x_outer := by
  obtain ⟨m, rfl⟩ : ∃ m, n = m + 1 := ⟨n - 1, by omega⟩
  have hp : ∃ T, surface_x_specs.flatMap (linPoints ρ (m + 1)) = 0 :: T := by
    obtain ⟨T, hT⟩ := linspaceOpen_head (Expr.eval ρ (.nat 0)) (Expr.eval ρ (.var "pca")) m
    refine ⟨T ++ linspaceClosed (Expr.eval ρ (.var "pca")) (Expr.eval ρ (.div .pi (.nat 2))) (m + 1), ?_⟩
    simp only [surface_x_specs, List.flatMap_cons, List.flatMap_nil, linPoints, Bool.false_eq_true, if_false, if_true,
      hT, List.append_nil, List.cons_append]
    simp [Expr.eval]
  obtain ⟨T, hT⟩ := hp
  unfold surfaceX
  simp only [hT]
  apply mirrored_list_symmetric
  · intro t; simp [surface_x_outer, Expr.eval, setVar]
  · simp

/-- the contour polyline of a generic elongation groove is mirror-symmetric -/
theorem contour_symmetric (σ : String → ℝ) (n : ℕ) : mirror (contour σ n segments) = contour σ n segments := by
  have : ∃ r', rightSide σ n segments = r' ++ [(Expr.eval σ z9, Expr.eval σ y9)] := by
    refine ⟨(segments.dropLast).flatMap (segPoints σ n), ?_⟩
    simp [rightSide, segments, segPoints]
  obtain ⟨r', hr⟩ := this
  unfold contour
  rw [hr]
  exact assemble_symmetric r' _ (e_z9 σ)

/-! ## the roll's contour is the groove's contour -/

/-- `Roll.contour_points` hands out the groove's vertex array unchanged, `surface_z` is its abscissa column, the grid is
    handed to the interpolation with the abscissa axis first, and the groove assembles its vertex array from the sampled
    right half by mirroring -/
theorem roll_contour_is_groove_contour :
    roll_contour_points = Expr.var "groove.contour_points" ∧ surface_z_col = 0 ∧ interp_grid_transposed = true
      ∧ assembly_ok = true := by
  decide

/-! ## entry point -/

/-- the entry point is where the circle of the groove bottom (radius `min_radius`) has risen by half the height
    reduction: the roll surface at the groove bottom meets the incoming height there -/
theorem entry_point_on_bottom_circle (ρ : String → ℝ)
    (h0 : 0 ≤ ρ "in_profile.height" - ρ "height")
    (h1 : ρ "in_profile.height" - ρ "height" ≤ 2 * ρ "roll.min_radius") :
    ρ "roll.min_radius" - Real.sqrt (ρ "roll.min_radius" ^ 2 - (Expr.eval ρ entry_point) ^ 2)
      = (ρ "in_profile.height" - ρ "height") / 2 ∧ Expr.eval ρ entry_point ≤ 0 := by
  set r := ρ "roll.min_radius"
  set d := ρ "in_profile.height" - ρ "height"
  have he : Expr.eval ρ entry_point = -Real.sqrt (r * d - d ^ 2 / 4) := by
    simp [entry_point, Expr.eval, r, d]
  have hnn : 0 ≤ r * d - d ^ 2 / 4 := by nlinarith
  rw [he, neg_sq, Real.sq_sqrt hnn]
  constructor
  · rw [show r ^ 2 - (r * d - d ^ 2 / 4) = (r - d / 2) ^ 2 by ring, Real.sqrt_sq (by linarith)]; ring
  · linarith [Real.sqrt_nonneg (r * d - d ^ 2 / 4)]

/-! ## spline groove -/

/-- the centring term read from the source puts the MIDDLE OF THE EXTENT at `0`: afterwards the smallest and the
    largest abscissa are opposite -/
theorem spline_centre_is_extent_middle (pts : List (ℝ × ℝ)) (h : pts ≠ []) :
    minL (col 0 (centred spline_centre pts)) + maxL (col 0 (centred spline_centre pts)) = 0 := by
  simp only [centred, col0_shift, minL_map_sub _ (col_ne_nil 0 h), maxL_map_sub _ (col_ne_nil 0 h)]
  simp only [spline_centre, LTerm.eval, PyNum.nat_real]
  push_cast; ring

/-- … whatever the sampling: it depends only on the two extreme abscissae -/
theorem spline_centre_value (pts : List (ℝ × ℝ)) :
    spline_centre.eval pts = (minL (col 0 pts) + maxL (col 0 pts)) / 2 := by
  simp only [spline_centre, LTerm.eval, PyNum.nat_real]; push_cast; ring

/-- the groove's vertex array is the given (stripped) polyline translated along the abscissa, ordinates untouched; its
    depth function is the polyline's interpolant translated likewise and passes through every vertex -/
theorem spline_reproduces_polyline (pts : List (ℝ × ℝ)) (c : LTerm) :
    col 1 (centred c pts) = col 1 pts
      ∧ col 0 (centred c pts) = (col 0 pts).map (· - c.eval pts)
      ∧ (∀ z, interp1 (centred c pts) z = interp1 pts (z + c.eval pts))
      ∧ (Asc pts → 2 ≤ pts.length → ∀ p ∈ pts, interp1 (centred c pts) (p.1 - c.eval pts) = p.2) := by
  refine ⟨col1_shift _ _, col0_shift _ _, fun z => interp1_shift _ _ _, fun ha hl p hp => ?_⟩
  rw [centred, interp1_shift, sub_add_cancel]
  exact interp1_at_vertex pts ha hl p hp

/-! ### the face test and the boundary stripping

`spline_face` is the face test the translator read out of `SplineGroove.__init__` (ONE test for the validation of the end
ordinates and for the stripping): `np.isclose(y, 0)`, or `np.abs(y) <= <tolerance term>` with the tolerance term evaluated
on the polyline AS GIVEN (`1e-9 * np.max(np.ptp(contour_points, axis=0))`: relative to the extent of the contour).  The
theorems below are about whichever test was read; `spline_face_bounded` is the only place that looks at its form. -/

/-- the face predicate of the polyline `pts`: `y ↦ "the ordinate y lies on the face line"` -/
noncomputable def onFace (pts : List (ℝ × ℝ)) : ℝ → Bool := spline_face.onFace pts

/-- the polyline without its face runs, as the generated model computes it -/
noncomputable def stripped (pts : List (ℝ × ℝ)) : List (ℝ × ℝ) := strip spline_strip (onFace pts) pts

theorem splinePoints_eq (pts : List (ℝ × ℝ)) :
    splinePoints spline_strip spline_face spline_centre pts = centred spline_centre (stripped pts) := rfl

/-- **what the face test read from the source says**: an ordinate lies on the face line iff its absolute value is at most
    the tolerance `spline_face.tol pts` - the translated tolerance term evaluated on the polyline as given -/
theorem spline_face_spec (pts : List (ℝ × ℝ)) (y : ℝ) : onFace pts y = true ↔ |y| ≤ spline_face.tol pts :=
  onFace_iff spline_face pts y

/-- the tolerance read from the source is non-negative and at most `max 1e-8 (1e-9 · extent of the polyline)` (the absolute
    default of `np.isclose`, or one billionth of the larger extent): a tolerance beyond that - which would take vertices of
    the groove shape for face vertices - does not build -/
theorem spline_face_bounded : FaceBounded spline_face := by
  first
    | exact faceBounded_isclose
    | exact faceBounded_within_extent

/-- an ordinate that IS 0 lies on the face line, whatever the polyline -/
theorem spline_zero_on_face (pts : List (ℝ × ℝ)) (h : pts ≠ []) : onFace pts 0 = true :=
  faceBounded_zero spline_face_bounded h

/-- a polyline that starts and ends exactly on the face line is accepted -/
theorem spline_accepts_zero_ends (pts : List (ℝ × ℝ)) (h : pts ≠ []) (h0 : (col 1 pts).headD nan = 0)
    (h1 : (col 1 pts).getLastD nan = 0) : splineAccepts (onFace pts) pts = true := by
  simp only [splineAccepts, h0, h1, spline_zero_on_face pts h, Bool.and_self]

/-- the boundary stripping read from the source removes the horizontal face runs at both ends ONLY: what is left is a
    contiguous part of the given polyline and contains every vertex that the face test read from the source puts off the
    face line (`|y| > spline_face.tol pts`) -/
theorem spline_strip_keeps_interior (pts : List (ℝ × ℝ)) (hacc : splineAccepts (onFace pts) pts = true) :
    (∃ s t, pts = s ++ stripped pts ++ t)
      ∧ (∀ p ∈ pts, onFace pts p.2 = false → p ∈ stripped pts)
      ∧ (∀ p ∈ pts, spline_face.tol pts < |p.2| → p ∈ stripped pts) := by
  have h := stripFaceRuns_spec (onFace pts) pts hacc
  refine ⟨h.1, h.2, fun p hp hy => h.2 p hp ?_⟩
  rw [Bool.eq_false_iff, Ne, spline_face_spec, not_le]; exact hy

example : splineAccepts (onFace twinV) twinV = true :=
  spline_accepts_zero_ends twinV (by simp [twinV]) (by simp [twinV, col]) (by simp [twinV, col])

example : onFace twinV 1 = false :=
  faceBounded_off spline_face_bounded (by simp [twinV]) 4 twinV_bound (by norm_num) 1 (by norm_num)

/-- why the kind of stripping matters: the mask "both neighbours on the face line" (what the code did before the repair)
    silently removes the tips of two V-shaped grooves side by side - with the face test read from the source -/
theorem both_neighbours_strip_drops_interior :
    ¬ ∀ pts : List (ℝ × ℝ), splineAccepts (onFace pts) pts = true →
      ∀ p ∈ pts, onFace pts p.2 = false → p ∈ strip .bothNeighbours (onFace pts) pts := by
  intro h
  have h0 : onFace twinV 0 = true := spline_zero_on_face twinV (by simp [twinV])
  have h1 : onFace twinV 1 = false :=
    faceBounded_off spline_face_bounded (by simp [twinV]) 4 twinV_bound (by norm_num) 1 (by norm_num)
  have := h twinV (spline_accepts_zero_ends twinV (by simp [twinV]) (by simp [twinV, col]) (by simp [twinV, col]))
    (1, 1) (by simp [twinV]) h1
  rw [stripBoth_twinV _ h0 h1] at this
  simp at this

/-- a spline groove does not depend on how densely or evenly its polyline is sampled: inserting any number of collinear
    vertices (such that the boundary stripping still leaves a refinement) changes neither the centring, nor the depth
    function (anywhere, also where it extrapolates), nor width, usable width and depth -/
theorem spline_refinement_invariant (pts pts' : List (ℝ × ℝ))
    (h : Refines OnChord (stripped pts) (stripped pts')) :
    spline_centre.eval (stripped pts') = spline_centre.eval (stripped pts)
      ∧ (∀ z, interp1 (splinePoints spline_strip spline_face spline_centre pts') z
            = interp1 (splinePoints spline_strip spline_face spline_centre pts) z)
      ∧ spline_width.eval (splinePoints spline_strip spline_face spline_centre pts')
          = spline_width.eval (splinePoints spline_strip spline_face spline_centre pts)
      ∧ spline_usable_default.eval (splinePoints spline_strip spline_face spline_centre pts')
          = spline_usable_default.eval (splinePoints spline_strip spline_face spline_centre pts)
      ∧ spline_depth.eval (splinePoints spline_strip spline_face spline_centre pts')
          = spline_depth.eval (splinePoints spline_strip spline_face spline_centre pts) := by
  have hc : spline_centre.eval (stripped pts') = spline_centre.eval (stripped pts) := by
    rw [spline_centre_value, spline_centre_value, col0_eq, col0_eq,
      refines_minL Prod.fst chord_fst_min h, refines_maxL Prod.fst chord_fst_max h]
  have hlast : (col 0 (splinePoints spline_strip spline_face spline_centre pts')).getLastD nan
      = (col 0 (splinePoints spline_strip spline_face spline_centre pts)).getLastD nan := by
    simp only [splinePoints_eq, centred, getLastD_shift, hc, refines_getLast h]
  refine ⟨hc, fun z => ?_, ?_, ?_, ?_⟩
  · simp only [splinePoints_eq, centred, interp1_shift, hc, interp1_refines h]
  · simp only [spline_width, LTerm.eval, hlast]
  · simp only [spline_usable_default, LTerm.eval, hlast]
  · simp only [spline_depth, LTerm.eval, splinePoints_eq, centred, col1_shift]
    rw [col1_eq, col1_eq, refines_maxL Prod.snd chord_snd_max h]

/-- the face tolerance of a refined polyline is the one of the polyline: inserting collinear vertices changes neither
    extent, so (for either face test) the same ordinates are face ordinates before and after -/
theorem spline_face_refinement_invariant (pts pts' : List (ℝ × ℝ)) (h : Refines OnChord pts pts') (y : ℝ) :
    onFace pts' y = onFace pts y := by
  have hx0 := refines_minL Prod.fst chord_fst_min h
  have hx1 := refines_maxL Prod.fst chord_fst_max h
  have hy1 := refines_maxL Prod.snd chord_snd_max h
  have hy0 := refines_minL Prod.snd chord_snd_min h
  simp only [← col0_eq, ← col1_eq] at hx0 hx1 hy0 hy1
  first
    | rfl
    | (simp only [onFace, spline_face, FaceTest.onFace, LTerm.eval, hx0, hx1, hy0, hy1])

/-! ## roll: what the object remembers between two calls

`Gen.C10.roll_tables` is what the translator read from `Roll.__init__`, `Roll.reevaluate_cache`, the other methods /
properties of the class and the hook functions of `pyroll/core/roll/hookimpls.py`; `rollRun` (PyrollModel/RollObject.lean)
replays a life of ONE roll object: changes of its data, each made visible by `reevaluate_cache()`, and calls. -/

/-- nothing was found outside the translated subset (no state at module level, no decorator but `property`, no private
    attribute used outside the memo shape), every private attribute `__init__` creates is emptied by `reevaluate_cache`,
    every remembering method keeps its result in such an attribute, and that attribute is emptied BEFORE the hook values are
    re-evaluated or - where it is emptied only afterwards, so that the hook functions still see it - what it holds is
    computed from the contour points alone -/
theorem roll_keeps_nothing_across_reevaluation : roll_state_ok = true ∧ roll_tables.sound = true := by
  decide

/-- once the harness demands the repaired statement order (`RESET_FIRST_REQUIRED` in driver/props/c10.py, written into the
    generated file), the source has it: everything a remembering method keeps is emptied before the hook values are
    re-evaluated -/
theorem roll_reset_order_as_required : roll_reset_first_required = true → roll_tables.emptiesFirst = true := by
  decide

/-- a used roll answers like a new one: in every life of a roll object in which the contact length, the radii, the
    discretisation change any number of times (free roll: value set + `reevaluate_cache()`; roll of a pass: every solution
    iteration, every further `solve`) every call of `contour_line`, `surface_interpolation` and every read of a hook that
    reads one of them is answered from the data the roll has at the time of the call, never from what an earlier call left
    on the object.  Whatever the statement order of `reevaluate_cache` is; replacing the groove contour is covered when
    everything is emptied BEFORE the hook values are re-evaluated (next theorem). -/
theorem used_roll_answers_like_a_new_one (ops : List RollOp)
    (h : roll_tables.emptiesFirst = false → RollOp.changeShape ∉ ops) :
    ∀ a ∈ rollRun roll_tables {} ops, a.1 = a.2 :=
  rollRun_fresh roll_tables roll_keeps_nothing_across_reevaluation.2 ops {} (inv_new _) h

/-- the repaired statement order (`self._contour_line = None` BEFORE `super().reevaluate_cache()`, whether or not it is
    emptied again afterwards): a used roll answers like a new one in EVERY life - any number of replacements of the groove,
    changes of contact length / radii / discretisation, each followed by ONE `reevaluate_cache()`, and calls in any order.
    No hypothesis about the life; the hypothesis about the generated table is decided by `generated_reset_order` below
    (and demanded by `roll_reset_order_as_required` once the harness flag is set). -/
theorem used_roll_answers_like_a_new_one_whatever_changed (hE : roll_tables.emptiesFirst = true) (ops : List RollOp) :
    ∀ a ∈ rollRun roll_tables {} ops, a.1 = a.2 :=
  rollRun_fresh_of_emptiesFirst roll_tables roll_keeps_nothing_across_reevaluation.2 hE ops {} (inv_new _)

/-- which of the two source forms was read, decided on the GENERATED tables: either everything is emptied first and every
    life whatsoever is answered like by a new roll, or it is not and the life `min_radius; new groove + reevaluate_cache();
    min_radius; surface_interpolation; contour_line; new contact length + reevaluate_cache(); min_radius;
    surface_interpolation` answers `min_radius` and the surface interpolation from the OLD contour after the groove change
    (first components: the data the answer was computed from; second: the data the roll has) until the next
    `reevaluate_cache()` -/
theorem generated_reset_order :
    (roll_tables.emptiesFirst = true ∧ ∀ ops : List RollOp, ∀ a ∈ rollRun roll_tables {} ops, a.1 = a.2)
    ∨ (roll_tables.emptiesFirst = false
        ∧ rollRun roll_tables {} [.call "min_radius", .changeShape, .call "min_radius", .call "surface_interpolation",
            .call "contour_line", .changeRest, .call "min_radius", .call "surface_interpolation"]
          = [(⟨0, 0⟩, ⟨0, 0⟩), (⟨0, 0⟩, ⟨1, 0⟩), (⟨0, 0⟩, ⟨1, 0⟩), (⟨1, 0⟩, ⟨1, 0⟩), (⟨1, 1⟩, ⟨1, 1⟩), (⟨1, 1⟩, ⟨1, 1⟩)]) := by
  first
    | exact Or.inl ⟨by decide, used_roll_answers_like_a_new_one_whatever_changed (by decide)⟩
    | exact Or.inr ⟨by decide, by decide⟩

/-- an interpolator object kept on the roll and not emptied by `reevaluate_cache` (whatever decides when it is rebuilt;
    tables written out, independent of the generated file; either statement order): they do not pass the static check, and
    the second interpolation after a change of the contact length is answered from the data of the first -/
theorem kept_interpolator_goes_stale :
    let T (before after : List String) : RollTables :=
      { privateFields := ["_contour_line", "_surface_interpolator"], resetsBefore := before, resetsAfter := after,
        memoFields := [("_contour_line", .shape), ("_surface_interpolator", .all)],
        methods := [("contour_line", .memo "_contour_line"), ("surface_interpolation", .memo "_surface_interpolator")],
        hookReads := [("min_radius", "contour_line")] }
    ∀ T' ∈ [T [] ["_contour_line"], T ["_contour_line"] ["_contour_line"]],
      T'.sound = false
        ∧ rollRun T' {} [.call "surface_interpolation", .changeRest, .call "surface_interpolation"]
            = [(⟨0, 0⟩, ⟨0, 0⟩), (⟨0, 0⟩, ⟨0, 1⟩)] := by
  decide

/-- the place of `self._contour_line = None` in `Roll.reevaluate_cache` matters when the groove contour is replaced: with
    the hook values re-evaluated first (the OLD source form: `super().reevaluate_cache(); self._contour_line = None`),
    `min_radius` is computed from the contour line remembered for the old contour (and the surface grid from that
    `min_radius`); a second `reevaluate_cache()` repairs it.  With the attribute emptied first - and again afterwards (the
    REPAIRED form) or not - nothing is stale; what the object holds after every step (last three clauses) is the same
    for the old and the repaired form (emptied afterwards: nothing is left after `reevaluate_cache()`).  (Tables written out: this witness does not depend on the generated file; the
    correspondence replays such lives on the real `Roll`, see notes/C10.md.) -/
theorem reset_after_refresh_goes_stale_on_contour_change :
    let T (before after : List String) : RollTables :=
      { privateFields := ["_contour_line"], resetsBefore := before, resetsAfter := after,
        memoFields := [("_contour_line", .shape)],
        methods := [("contour_line", .memo "_contour_line"), ("surface_interpolation", .pure)],
        hookReads := [("min_radius", "contour_line")] }
    let old := T [] ["_contour_line"]
    let repaired := T ["_contour_line"] ["_contour_line"]
    let first := T ["_contour_line"] []
    let life : List RollOp := [.call "min_radius", .changeShape, .call "min_radius", .call "surface_interpolation",
      .call "contour_line", .changeRest, .call "min_radius", .call "surface_interpolation"]
    (old.sound = true ∧ old.emptiesFirst = false
      ∧ rollRun old {} life = [(⟨0, 0⟩, ⟨0, 0⟩), (⟨0, 0⟩, ⟨1, 0⟩), (⟨0, 0⟩, ⟨1, 0⟩), (⟨1, 0⟩, ⟨1, 0⟩), (⟨1, 1⟩, ⟨1, 1⟩),
          (⟨1, 1⟩, ⟨1, 1⟩)])
      ∧ (repaired.sound = true ∧ repaired.emptiesFirst = true ∧ ∀ a ∈ rollRun repaired {} life, a.1 = a.2)
      ∧ (first.sound = true ∧ first.emptiesFirst = true ∧ ∀ a ∈ rollRun first {} life, a.1 = a.2)
      ∧ ((rollTrace old {} life).map (·.1.store.map (·.1))
            = [["_contour_line"], [], [], [], ["_contour_line"], [], [], []])
      ∧ ((rollTrace repaired {} life).map (·.1.store.map (·.1))
            = [["_contour_line"], [], [], [], ["_contour_line"], [], [], []])
      ∧ ((rollTrace first {} life).map (·.1.store.map (·.1))
            = [["_contour_line"], ["_contour_line"], ["_contour_line"], ["_contour_line"], ["_contour_line"],
               ["_contour_line"], ["_contour_line"], ["_contour_line"]]) := by
  decide

/-- non-vacuity: the generated tables have a remembering method, a pure one and a hook function reading the former; a life
    with three changes of the contact length and every kind of call in between satisfies the hypothesis -/
example : (∃ f, ("contour_line", MethodKind.memo f) ∈ roll_tables.methods)
    ∧ ("surface_interpolation", MethodKind.pure) ∈ roll_tables.methods ∧ roll_tables.hookReads ≠ []
    ∧ roll_tables.privateFields ≠ [] := by
  refine ⟨⟨"_contour_line", by decide⟩, by decide, by decide, by decide⟩

example : rollRun roll_tables {} [.call "surface_interpolation", .call "contour_line", .call "min_radius", .changeRest,
      .call "surface_interpolation", .changeRest, .call "min_radius", .call "contour_line", .changeRest,
      .call "surface_interpolation"]
    = [(⟨0, 0⟩, ⟨0, 0⟩), (⟨0, 0⟩, ⟨0, 0⟩), (⟨0, 0⟩, ⟨0, 0⟩), (⟨0, 1⟩, ⟨0, 1⟩), (⟨0, 2⟩, ⟨0, 2⟩), (⟨0, 2⟩, ⟨0, 2⟩),
       (⟨0, 3⟩, ⟨0, 3⟩)] := by
  decide

/-- non-vacuity of `used_roll_answers_like_a_new_one_whatever_changed` on written-out tables of the repaired form (the
    generated ones: `generated_reset_order`): a life with two groove replacements, every kind of call after each -/
example :
    let T : RollTables :=
      { privateFields := ["_contour_line"], resetsBefore := ["_contour_line"], resetsAfter := ["_contour_line"],
        memoFields := [("_contour_line", .shape)],
        methods := [("contour_line", .memo "_contour_line"), ("surface_interpolation", .pure)],
        hookReads := [("min_radius", "contour_line")] }
    T.sound = true ∧ T.emptiesFirst = true
      ∧ rollRun T {} [.call "surface_interpolation", .changeShape, .call "min_radius", .call "contour_line", .changeRest,
          .changeShape, .call "surface_interpolation", .call "min_radius"]
        = [(⟨0, 0⟩, ⟨0, 0⟩), (⟨1, 0⟩, ⟨1, 0⟩), (⟨1, 0⟩, ⟨1, 0⟩), (⟨2, 1⟩, ⟨2, 1⟩), (⟨2, 1⟩, ⟨2, 1⟩)] := by
  decide

/-! ## spline groove: the vertex array belongs to the groove -/

/-- the statement list read from `SplineGroove.__init__` leaves the groove with a vertex array of its own and never writes
    into the caller's memory - whether the caller hands over a float64 `ndarray` (which `np.asarray` passes through) or
    any other container -/
theorem spline_owns_its_vertices : ∀ inputIsF64Array : Bool,
    (ownRun inputIsF64Array spline_array_ops).stored = true
      ∧ (ownRun inputIsF64Array spline_array_ops).storedIsCallers = false
      ∧ (ownRun inputIsF64Array spline_array_ops).callerWritten = false := by
  decide

/-- hence whatever the caller writes into its container afterwards (`callerNow`), `groove.contour_points` keeps showing the
    array the constructor built - the one the depth function, the contour line, the cross-section, width and depth were
    computed from (`spline_reproduces_polyline`) -/
theorem spline_survives_caller_writes {β : Type} (inputIsF64Array : Bool) (callerNow own : β) :
    grooveReads (ownRun inputIsF64Array spline_array_ops) callerNow own = own := by
  simp [grooveReads, (spline_owns_its_vertices inputIsF64Array).2.1]

/-- why the copy matters: slicing alone leaves a view of a float64 `ndarray`; the in-place centring then shifts the caller's
    array and the groove's vertex array follows everything the caller does to it later -/
theorem view_without_copy_is_the_callers_array :
    (ownRun true [.asarray, .view, .write, .store]).storedIsCallers = true
      ∧ (ownRun true [.asarray, .view, .write, .store]).callerWritten = true
      ∧ ∀ (callerNow own : ℕ), grooveReads (ownRun true [.asarray, .view, .write, .store]) callerNow own = callerNow := by
  refine ⟨by decide, by decide, fun a b => ?_⟩
  simp [grooveReads, show (ownRun true [.asarray, .view, .write, .store]).storedIsCallers = true by decide]

example : spline_array_ops ≠ [] ∧ ArrOp.write ∈ spline_array_ops ∧ ArrOp.store ∈ spline_array_ops := by decide

/-- a list (not an `ndarray`) never is shared, with or without the copy -/
example : (ownRun false [.asarray, .view, .write, .store]).storedIsCallers = false := by decide

/-! ## non-vacuity -/

/-- the trapezoidal groove `σ0` (usable width 4, ground width 2, depth 1, flank 45°) satisfies the hypotheses; its contour
    vertices sampled with any count lie on its depth function -/
example (n : ℕ) : ∀ v ∈ contour σ0 n segments, D σ0 v.1 = v.2 :=
  vertices_on_depth_function σ0 σ0_ordered σ0_params n

example (n : ℕ) : (Expr.eval σ0 z0, Expr.eval σ0 y0) ∈ contour σ0 n segments := by
  simp [contour, assemble, rightSide, segments, segPoints]

/-- a concrete 3 × 3 grid: exact at a node, symmetric in both directions -/
example : bilinear ([-1, 0, 1] : List ℝ) [-2, 0, 2] [[1, 2, 1], [0, 1, 0], [1, 2, 1]] 0 2 = 0 :=
  interp_exact_at_nodes _ _ _ (by simp) (by simp) 0 [0, 1, 0] (by simp) (by simp) 2 0 (by simp) (by simp)

example (z : ℝ) (h0 : -2 ≤ z) (h1 : z ≤ 2) (x : ℝ) :
    bilinear ([-1, 0, 1] : List ℝ) [-2, 0, 2] [[1, 2, 1], [0, 1, 0], [1, 2, 1]] x (-z)
      = bilinear ([-1, 0, 1] : List ℝ) [-2, 0, 2] [[1, 2, 1], [0, 1, 0], [1, 2, 1]] x z := by
  apply interp_symmetric_z _ _ _ (by simp)
  · intro row hrow
    simp only [List.mem_cons, List.not_mem_nil, or_false] at hrow
    rcases hrow with rfl | rfl | rfl <;> simp [mirror, mirrorPt]
  · intro row hrow
    simp only [List.mem_cons, List.not_mem_nil, or_false] at hrow
    rcases hrow with rfl | rfl | rfl
    · exact ⟨(-2, 1), by simp, (2, 1), by simp, h0, h1⟩
    · exact ⟨(-2, 0), by simp, (2, 0), by simp, h0, h1⟩
    · exact ⟨(-2, 1), by simp, (2, 1), by simp, h0, h1⟩

example (ρ : String → ℝ) : ((surfaceX ρ 5 surface_x_specs surface_x_outer).map fun t => -t).reverse
    = surfaceX ρ 5 surface_x_specs surface_x_outer := surface_x_symmetric ρ 5 (by norm_num)

/-- roll of radius 10 on a groove 2 deep: at `x = 3` the bottom of the groove (local radius 8) has risen to
    `10 − √(64 − 9)`, and the point lies on the circle of radius 8 about the axis -/
example : (3 : ℝ) ^ 2 + (10 - surfacePoint (fun _ => (10 : ℝ)) surface_y 2 3) ^ 2 = (10 - 2) ^ 2 :=
  (surface_is_revolution (fun _ => 10) 2 3 (by norm_num)).1

example : surfacePoint (fun _ => (10 : ℝ)) surface_y 2 0 = 2 := surface_at_high_point (fun _ => 10) 2 (by norm_num)

/-- a redressed roll: `max_radius = 196` given explicitly (whatever the nominal radius is), groove 6 deep, hence
    `min_radius = 190`: the hypotheses of `surface_grid_is_revolution` are satisfiable and every node of the grid with 7
    samples per part lies on its circle -/
example : ∀ y ∈ ([0, 3, 6] : List ℝ), ∀ x ∈ surfaceX (fun k => if k = "max_radius" then (196 : ℝ) else
      if k = "min_radius" then 190 else if k = "contour_line.bounds[3]" then 6 else 1) 7 surface_x_specs surface_x_outer,
    x ^ 2 ≤ (196 - y) ^ 2 := by
  intro y hy x hx
  have := surface_grid_is_revolution (fun k => if k = "max_radius" then (196 : ℝ) else
      if k = "min_radius" then 190 else if k = "contour_line.bounds[3]" then 6 else 1) 7 [0, 3, 6]
    (by simp [roll_min_radius, Expr.eval]; norm_num)
    (by intro y hy; simp at hy; rcases hy with rfl | rfl | rfl <;> simp <;> norm_num) (by simp; norm_num) y hy x hx
  simpa using this.1

/-- entry point for minimal radius 100, incoming height 30, pass height 20 (hypotheses satisfiable) -/
example : (100 : ℝ) - Real.sqrt (100 ^ 2 - (Expr.eval (fun n => if n = "roll.min_radius" then (100 : ℝ) else
    if n = "in_profile.height" then 30 else if n = "height" then 20 else 0) entry_point) ^ 2) = (30 - 20) / 2 := by
  have := (entry_point_on_bottom_circle (fun n => if n = "roll.min_radius" then (100 : ℝ) else
    if n = "in_profile.height" then 30 else if n = "height" then 20 else 0) (by simp; norm_num) (by simp; norm_num)).1
  simpa using this

example : minL (col 0 (centred spline_centre P1)) + maxL (col 0 (centred spline_centre P1)) = 0 :=
  spline_centre_is_extent_middle P1 (by simp [P1])

example : interp1 (centred spline_centre P0) ((-4 : ℝ) - spline_centre.eval P0) = 4 :=
  (spline_reproduces_polyline P0 spline_centre).2.2.2 (by simp [Asc, P0]; norm_num) (by simp [P0]) (-4, 4) (by simp [P0])

example (n : ℕ) : mirror (contour σ0 n segments) = contour σ0 n segments := contour_symmetric σ0 n

/-- the polyline `P0 = [(-8,0),(-4,4),(4,4),(8,0)]` and its one-sided, uneven refinement
    `P1 = [(-8,0),(-7,1),(-6,2),(-4,4),(4,4),(8,0)]` give the same spline groove -/
theorem stripped_P0 : stripped P0 = P0 := by
  have off : ∀ y : ℝ, 1 ≤ y → onFace P0 y = false :=
    faceBounded_off spline_face_bounded (by simp [P0]) 8 P0_bound (by norm_num)
  rw [stripped, show spline_strip = StripKind.faceRuns from rfl]
  exact strip_P0 _ (spline_zero_on_face P0 (by simp [P0])) (off 4 (by norm_num))

theorem stripped_P1 : stripped P1 = P1 := by
  have off : ∀ y : ℝ, 1 ≤ y → onFace P1 y = false :=
    faceBounded_off spline_face_bounded (by simp [P1]) 8 P1_bound (by norm_num)
  rw [stripped, show spline_strip = StripKind.faceRuns from rfl]
  exact strip_P1 _ (spline_zero_on_face P1 (by simp [P1])) (off 1 (by norm_num)) (off 2 (by norm_num)) (off 4 (by norm_num))

example : ∀ z, interp1 (splinePoints spline_strip spline_face spline_centre P1) z
    = interp1 (splinePoints spline_strip spline_face spline_centre P0) z :=
  (spline_refinement_invariant P0 P1 (by rw [stripped_P0, stripped_P1]; exact P0_refines_P1)).2.1

/-- the hypotheses of `spline_strip_keeps_interior` are satisfiable, and the vertex `(-4, 4)` is one it keeps -/
example : (-4, 4) ∈ stripped P0 :=
  (spline_strip_keeps_interior P0 (spline_accepts_zero_ends P0 (by simp [P0]) (by simp [P0, col]) (by simp [P0, col]))).2.1
    (-4, 4) (by simp [P0]) (faceBounded_off spline_face_bounded (by simp [P0]) 8 P0_bound (by norm_num) 4 (by norm_num))

example : P0 ≠ [] ∧ P1 ≠ P0 := by simp [P0, P1]

/-- why the centring term matters: centring on the MEAN of the vertex abscissae (what the code did before the repair,
    F5) does not put the middle of the extent at `0` for the unevenly refined polyline `P1` -/
theorem mean_centre_is_not_extent_middle :
    ¬ ∀ pts : List (ℝ × ℝ), pts ≠ [] →
      minL (col 0 (centred (.colMean 0) pts)) + maxL (col 0 (centred (.colMean 0) pts)) = 0 := by
  intro h
  have h1 := h P1 (by simp [P1])
  have hne : col 0 P1 ≠ [] := col_ne_nil 0 (by simp [P1])
  have hmin : minL (col 0 P1) = -8 := minL_unique _ _ (by simp [col, P1]) (by
    intro x hx; simp [col, P1] at hx; rcases hx with rfl | rfl | rfl | rfl | rfl | rfl <;> norm_num)
  have hmax : maxL (col 0 P1) = 8 := maxL_unique _ _ (by simp [col, P1]) (by
    intro x hx; simp [col, P1] at hx; rcases hx with rfl | rfl | rfl | rfl | rfl | rfl <;> norm_num)
  have hc : (LTerm.colMean 0).eval P1 = -13 / 6 := by
    simp [LTerm.eval, col, P1, sumL]; norm_num
  simp only [centred, col0_shift, minL_map_sub _ hne, maxL_map_sub _ hne, hmin, hmax, hc] at h1
  norm_num at h1

end C10
