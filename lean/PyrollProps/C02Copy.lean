import PyrollProofs.LifecycleCopyLemmas

/-!
# C02 — shallow copies of hook hosts (`HookHost.__copy__`)

Model: `PyrollModel/LifecycleCopy.lean` (hosts with explicit values of their own and a REFERENCE to a remembered-value
dictionary object; tied to `pyroll/core/hooks.py` by `Gen/C02Extra.lean` - `copyMode`, `initCache`, `setWrites`,
`deleteFrom` are consumed - and by the `copy` histories of `driver/props/c02.py`, compared op by op).

What holds: the explicit values of a copy are its own (assignments and deletions on one object never show on another).
What does NOT hold - and is proved here as the negation of the full statement, with a witness that the harness replays on
the implementation: a shallow copy shares the remembered-value dictionary with its original, so a value computed through
one is served on the other, until one of them is given a new dictionary (`__cache__ = dict()`, what constructors do).
-/

namespace LifeCopy

/-! ## what holds: explicit values are per object -/

/-- **A shallow copy takes over the explicit values** (entry by entry, same order) **and the reference to the
remembered-value dictionary** of its original; nothing else changes. -/
theorem copy_takes_over (w : World) (i : Host) :
    (step w (.copy i)).1.host w.nHosts = { dict := (w.host i).dict, cache := (w.host i).cache } ∧
    (∀ j, j ≠ w.nHosts → (step w (.copy i)).1.host j = w.host j) ∧
    (step w (.copy i)).1.store = w.store ∧ (step w (.copy i)).1.nDicts = w.nDicts := by
  simp only [step, shallowCopy_gen]
  exact ⟨setHost_self _ _ _, fun j hj => setHost_other _ _ _ _ hj, rfl, rfl⟩

/-- **Assignments and deletions on one object never show on another** - copy and original included: through every
history, the explicit values of host `j` change only by assignments / deletions applied to `j` itself. -/
theorem explicit_values_are_per_object (j : Host) (ops : List Op) : ∀ w : World, j < w.nHosts →
    (∀ op ∈ ops, op.setsExplicit j = false) → ((run w ops).host j).dict = (w.host j).dict := by
  induction ops with
  | nil => intro w _ _; rfl
  | cons op ops ih =>
    intro w hj h
    rw [run_cons, ih _ (Nat.lt_of_lt_of_le hj (step_nHosts_mono w op)) (fun o ho => h o (by simp [ho]))]
    exact step_dict_stable w op j hj (h op (by simp))

/-- in particular: after `c = copy.copy(o)`, whatever is assigned or deleted on `c` (and whatever else happens that is not
an assignment on `o`), `o` keeps its explicit values, and vice versa -/
theorem copy_explicit_independent (w : World) (i : Host) (ops : List Op) (hi : i < w.nHosts)
    (hops : ∀ op ∈ ops, op.setsExplicit i = false) :
    ((run (step w (.copy i)).1 ops).host i).dict = (w.host i).dict := by
  rw [explicit_values_are_per_object i ops _ (Nat.lt_of_lt_of_le hi (step_nHosts_mono w _)) hops]
  exact step_dict_stable w (.copy i) i hi rfl

/-! ## what does not hold: the remembered values of a shallow copy are not its own -/

/-- **A shallow copy and its original serve the same remembered values**: through every history in which neither is
given a new dictionary, a value remembered (computed) through one is what the other one remembers - whichever of the two
the reads, cache clears and re-computations were applied to. -/
theorem copy_shares_remembered_values (w : World) (i : Host) (n : Name) (ops : List Op) (hi : i < w.nHosts)
    (hops : ∀ op ∈ ops, op ≠ .rebind i ∧ op ≠ .rebind w.nHosts) :
    (run (step w (.copy i)).1 ops).remembered w.nHosts n = (run (step w (.copy i)).1 ops).remembered i n := by
  suffices h : ∀ (ops : List Op) (u : World), i < u.nHosts → w.nHosts < u.nHosts →
      (u.host w.nHosts).cache = (u.host i).cache → (∀ op ∈ ops, op ≠ .rebind i ∧ op ≠ .rebind w.nHosts) →
      ((run u ops).host w.nHosts).cache = ((run u ops).host i).cache by
    have h0 := copy_takes_over w i
    have hc := h ops (step w (.copy i)).1 (Nat.lt_of_lt_of_le hi (step_nHosts_mono w _))
      (by simp [step, shallowCopy_gen, World.setHost])
      (by rw [h0.1, h0.2.1 i (Nat.ne_of_lt hi)]) hops
    simp only [World.remembered, hc]
  intro ops
  induction ops with
  | nil => intro u _ _ h _; exact h
  | cons op ops ih =>
    intro u h1 h2 h3 h4
    rw [run_cons]
    refine ih _ (Nat.lt_of_lt_of_le h1 (step_nHosts_mono u op)) (Nat.lt_of_lt_of_le h2 (step_nHosts_mono u op)) ?_
      (fun o ho => h4 o (by simp [ho]))
    rw [step_cache_ref_stable u op _ h2 (h4 op (by simp)).2, step_cache_ref_stable u op _ h1 (h4 op (by simp)).1]
    exact h3

/-- the full statement one would like: operations applied to a copy never change what the original remembers -/
def CopyIndependent : Prop :=
  ∀ (w : World) (i : Host) (n : Name) (ops : List Op), i < w.nHosts → (∀ op ∈ ops, op.target ≠ some i) →
    (run (step w (.copy i)).1 ops).remembered i n = w.remembered i n

/-- the world of the witness: hook 0 has the implementation `5`, one object -/
def witness : World := run init [.setImpl 0 (some 5), .new]

/-- **It is false** (of the model and - `driver/props/c02.py`, history `COPY_WITNESS` - of the implementation): a value
computed by reading hook 0 on the COPY (host 1) is remembered by the ORIGINAL (host 0), which never computed anything. -/
theorem copy_not_independent : ¬ CopyIndependent := by
  intro h
  have := h witness 0 0 [.read 1 0] (by decide) (by decide)
  revert this
  decide

/-- **A new dictionary separates them**: after `c.__cache__ = dict()` the copy refers to a dictionary object that no host
referred to before (all references of a well-formed world are below `nDicts`). -/
theorem rebind_gives_own_dictionary (w : World) (j : Host) :
    ((step w (.rebind j)).1.host j).cache = some w.nDicts ∧
    (∀ k, k ≠ j → ((step w (.rebind j)).1.host k).cache = (w.host k).cache) ∧
    (step w (.rebind j)).1.store w.nDicts = [] ∧
    (∀ r, r ≠ w.nDicts → (step w (.rebind j)).1.store r = w.store r) := by
  simp only [step, bindFreshCache_gen]
  refine ⟨by simp [World.setStore, World.setHost], fun k hk => by simp [World.setStore, World.setHost, hk],
    by simp [World.setStore], fun r hr => by simp [World.setStore, World.setHost, hr]⟩

/-! ## non-vacuity -/

-- the copy has the explicit value of the original; assigning on the copy does not show on the original
example : ((run witness [.assign 0 1 3, .copy 0, .assign 1 1 9, .delete 1 2]).host 0).dict = [(1, 3)] ∧
    ((run witness [.assign 0 1 3, .copy 0, .assign 1 1 9]).host 1).dict = [(1, 9)] := by decide
-- hypotheses of `copy_explicit_independent` / `copy_shares_remembered_values` are satisfiable
example : (0 : Host) < witness.nHosts ∧ (∀ op ∈ [Op.assign 1 1 9, .read 1 0, .clear 1], op.setsExplicit 0 = false) ∧
    (∀ op ∈ [Op.assign 1 1 9, .read 1 0, .clear 0], op ≠ Op.rebind 0 ∧ op ≠ Op.rebind witness.nHosts) := by decide
-- the shared dictionary: read on the copy, remembered by the original; cleared through the original, gone on the copy
example : (run (step witness (.copy 0)).1 [.read 1 0]).remembered 0 0 = some 5 ∧
    (run (step witness (.copy 0)).1 [.read 1 0, .clear 0]).remembered 1 0 = none ∧ witness.remembered 0 0 = none := by
  decide
-- after `__cache__ = dict()` on the copy the two are separate (what `Unit.Profile.__init__` / a constructor does)
example : (run (step witness (.copy 0)).1 [.rebind 1, .read 1 0]).remembered 0 0 = none ∧
    (run (step witness (.copy 0)).1 [.rebind 1, .read 1 0]).remembered 1 0 = some 5 := by decide

end LifeCopy
