import PyrollModel.SolveGen
import PyrollProofs.SolveReal
import PyrollProofs.SolveBodyLemmas
import PyrollProofs.SolveMarksLemmas

/-!
# C05 — solve is bounded, reports convergence honestly and is reproducible

The theorems are about `SolveGen.solve`: the hand-written loop model `PyrollModel/Solve.lean` instantiated with the
comparison, the `np.all`, the `range` bounds and the out-profile policy GENERATED from the current
`pyroll/core/unit/unit.py` (`PyrollModel/Gen/C05.lean`, rewritten by `driver/props/c05.py::translate` on every run),
evaluated over ℝ.  The control skeleton the translator recognised is pinned by `loop_shape_as_modelled`; a change of
statement order (e.g. `_old_results` stored before the comparison), of the `for/else`, of what `init_solve` creates, of the
exception wrapping or of the mark handling changes the generated `Shape` and that theorem stops building; a change of
the comparison or of the `range` bounds changes `within_real` / `budget_eq`.

What one loop body does to the unit (caches, sub-units, hook evaluation) is the parameter
`step : S → S × Except Exc (List ℝ)` — the state it leaves (also when it raises) and the vector of numeric root-hook
results.  All theorems hold for EVERY `step`, every state type, every carried state (`_old_results`, out profile present,
`S`), every precision and every iteration limit; where a theorem needs more it says so (`resolve_within_prec_partial`: the
persisted results follow one orbit whose consecutive differences shrink by a factor `q ≤ 1/2`; `abort_then_retry_eq_fresh_partial`:
the failing body leaves the state where it found it).
-/

open Solve SolveGen Gen.C05

namespace C05

/-! ### what the translator read out of the source -/

theorem loop_shape_as_modelled : { loop_shape with cacheOverrides := [] } =
    { prelude := ["log", "timer", "init"], budgetAttr := "max_iteration_count",
      body := ["in.reevaluate", "subunits", "self.reevaluate", "out.reevaluate", "results", "test", "update-old"],
      testVars := ["cur", "_old_results", "iteration_precision"], testAll := true,
      onBreak := ["log-info(i)", "break"], onExhaustion := "warn",
      epilogue := ["copy-out", "post-processors", "timer", "log", "return"],
      oldInit := "nan", initSolve := ["pre-processors", "in_profile", "out_profile"],
      outProfile := "create-if-absent-else-hand-over",
      evalOrder := ["in_profile", "out_profile", "self"], concatOrder := ["in_profile", "self", "out_profile"],
      resultOverrides := [("SymmetricRollPass", ["super", "roll"]), ("TwoRollPass", ["super", "roll"])],
      -- which classes override `reevaluate_cache` and in which order their statements run is NOT pinned: it is read
      -- (`cache_methods`) and must satisfy `SolveBody.noMemoSurvives` (`reevaluate_cache_leaves_no_memo` below)
      cacheOverrides := [],
      subunits := ["if-subunits", "last:=in_profile", "for-subunits", "last:=u.solve(last)", "try", "raise-from"],
      subCatch := "Exception", subRaise := "RuntimeError",
      marks := ["store:per-function", "key:=id(instance)", "cycle:=key-in-marks", "local", "mark", "try",
                "finally:unmark-unless-cycle", "return"] } := rfl

/-- `for i in range(1, max_iteration_count)`: the loop body runs at most `max_iteration_count − 1` times -/
theorem budget_eq (m : ℕ) : budget m = m - 1 := by
  simp only [budget, range_start, range_stop_offset]
  omega

/-- the generated comparison over ℝ: `|cur − old| ≤ |old| · precision` (relative to the PREVIOUS iterate, non-strict) -/
theorem within_real (p c o : ℝ) : within p c o = true ↔ |c - o| ≤ |o| * p := by
  simp [within, SolveGen.cmp, test_op, test_lhs_e, test_rhs_e, Expr.eval, testEnv, PyNum.le]

theorem allQ_true : allQ = true := rfl

theorem reusesOut_true : reusesOut = true := by decide

/-- `init_solve` has the `else:` branch that brings a re-used out profile up to date with the incoming profile -/
theorem handsOver_true : handsOver = true := by decide

/-- defaults of `iteration_precision` / `max_iteration_count` (unit/hookimpls.py through config.py) -/
theorem defaults : defaultMaxIter = 100 ∧ (defaultPrec : ℝ) = 1 / 1000 := by
  refine ⟨rfl, ?_⟩
  simp [defaultPrec, default_prec_e, Expr.eval]
  norm_num

variable {S S' : Type}

/-- `Unit.solve` as generated = the hand-written loop with the generated comparison, `np.all`, budget `m − 1` -/
theorem solve_eq (step : S → S × Except Exc (List ℝ)) (m : ℕ) (p : ℝ) (c : Carried ℝ S) :
    SolveGen.solve step m p c = Solve.solve (within p) true step (m - 1) c := by
  simp [SolveGen.solve, budget_eq, allQ_true, reusesOut_true]

/-- two vectors agree component-wise within the relative precision (numpy broadcasting when the lengths differ);
    against the scalar NaN of a fresh unit only the empty vector "agrees" (`np.all([])`) -/
def Agrees (p : ℝ) (cur : List ℝ) : Old ℝ → Prop
  | .nan => cur = []
  | .vec o => ∃ ps, pairs cur o = some ps ∧ ∀ q ∈ ps, |q.1 - q.2| ≤ |q.2| * p

theorem test_true_iff (p : ℝ) (cur : List ℝ) (old : Old ℝ) : test (within p) true cur old = some true ↔ Agrees p cur old := by
  cases old with
  | nan => simp [test_nan, Agrees]
  | vec o =>
    simp only [test, Agrees, Option.map_eq_some_iff, quant, if_true]
    constructor
    · rintro ⟨ps, hps, hall⟩
      refine ⟨ps, hps, fun q hq => ?_⟩
      simp only [List.all_map, List.all_eq_true, Function.comp, id] at hall
      exact (within_real p q.1 q.2).mp (hall q hq)
    · rintro ⟨ps, hps, hall⟩
      refine ⟨ps, hps, ?_⟩
      simp only [List.all_map, List.all_eq_true, Function.comp, id]
      exact fun q hq => (within_real p q.1 q.2).mpr (hall q hq)

/-- `Agrees` for vectors of equal length: component by component -/
theorem agrees_eq_len (p : ℝ) (cur o : List ℝ) (h : cur.length = o.length) :
    Agrees p cur (.vec o) ↔ ∀ j, (hj : j < cur.length) → |cur[j] - o[j]'(h ▸ hj)| ≤ |o[j]'(h ▸ hj)| * p := by
  rw [← test_true_iff, test_all_eq_len _ _ _ h]
  simp [within_real]

/-! ### helpers for the non-vacuity examples -/

/-- a loop body playing back recorded results (state = number of bodies so far); beyond the record it raises -/
def playback (vs : List (Except Exc (List ℝ))) : ℕ → ℕ × Except Exc (List ℝ) :=
  fun k => (k + 1, (vs[k]?).getD (.error .other))

theorem within_decide (p c o : ℝ) : within p c o = decide (|c - o| ≤ |o| * p) := by
  rw [Bool.eq_iff_iff]; simp [within_real]

/-- two equal vectors after the NaN start: quiet after 2 iterations -/
theorem example_quiet :
    (SolveGen.solve (playback [.ok [1, -2], .ok [1, -2]]) 100 (1 / 1000) (Carried.fresh 0)).warned = false ∧
    (SolveGen.solve (playback [.ok [1, -2], .ok [1, -2]]) 100 (1 / 1000) (Carried.fresh 0)).exc = none ∧
    (SolveGen.solve (playback [.ok [1, -2], .ok [1, -2]]) 100 (1 / 1000) (Carried.fresh 0)).iterations = 2 := by
  rw [solve_eq]
  simp [Solve.solve, Carried.fresh, loop, playback, test, pairs, quant, within_decide]

/-- limit 3, vectors that keep moving: the warning after 2 iterations -/
theorem example_warned :
    (SolveGen.solve (playback [.ok [1], .ok [2], .ok [3]]) 3 (1 / 1000) (Carried.fresh 0)).warned = true ∧
    (SolveGen.solve (playback [.ok [1], .ok [2], .ok [3]]) 3 (1 / 1000) (Carried.fresh 0)).iterations = 2 := by
  rw [solve_eq]
  simp [Solve.solve, Carried.fresh, loop, playback, test, pairs, quant, within_decide]
  norm_num

/-- the second loop body raises -/
theorem example_abort :
    (SolveGen.solve (playback [.ok [1], .error .zeroDivisionError]) 100 (1 / 1000) (Carried.fresh 0)).exc =
      some .zeroDivisionError := by
  rw [solve_eq]
  simp [Solve.solve, Carried.fresh, loop, playback, test, quant]

/-! ### bounded -/

/-- **iterations_le** — whatever the loop body does, whatever was carried over: at most `max_iteration_count − 1`
    (hence at most `max_iteration_count`) iterations, and the trace holds exactly the vectors compared. -/
theorem iterations_le (step : S → S × Except Exc (List ℝ)) (m : ℕ) (p : ℝ) (c : Carried ℝ S) :
    (SolveGen.solve step m p c).iterations ≤ m - 1 ∧ (SolveGen.solve step m p c).iterations ≤ m ∧
      (SolveGen.solve step m p c).trace.length = (SolveGen.solve step m p c).iterations := by
  rw [solve_eq]
  obtain ⟨new, hn, hl⟩ := loop_trace (within p) true step (m - 1) c.old c.st []
  rw [List.append_nil] at hn
  simp only [Solve.solve, hn]
  exact ⟨hl, by omega, trivial⟩

example : (SolveGen.solve (playback [.ok [1, -2], .ok [1, -2]]) 100 (1 / 1000) (Carried.fresh 0)).iterations = 2 :=
  example_quiet.2.2

/-! ### honest -/

/-- **quiet_implies_agreement** — no warning and no exception ⇒ at least one iteration ran, and the newest vector
    agrees within the precision with `_old_results`, which is the vector of the iteration before (the carried one if
    this solve ran a single iteration) — and stays that: on `break` `_old_results` is not updated. -/
theorem quiet_implies_agreement (step : S → S × Except Exc (List ℝ)) (m : ℕ) (p : ℝ) (c : Carried ℝ S)
    (hw : (SolveGen.solve step m p c).warned = false) (he : (SolveGen.solve step m p c).exc = none) :
    ∃ cur rest, (SolveGen.solve step m p c).trace = cur :: rest ∧
      (SolveGen.solve step m p c).carried.old = OldOf c.old rest ∧
      Agrees p cur (OldOf c.old rest) ∧ AllDisagree (within p) true c.old rest ∧
      1 ≤ (SolveGen.solve step m p c).iterations := by
  rw [solve_eq] at hw he ⊢
  have inv := loop_inv (within p) true step c.old (m - 1) c.old c.st [] rfl trivial
  simp only [Solve.solve] at hw he ⊢
  obtain ⟨h1, h2, h3⟩ := inv
  obtain ⟨cur, hc, ht⟩ := h3 ⟨hw, he⟩
  have hf : (loop (within p) true step (m - 1) c.old c.st []).failed =
      (loop (within p) true step (m - 1) c.old c.st []).trace.tail := by simp [LoopOut.failed, hw, he]
  rw [hf] at h1 h2 hc
  refine ⟨cur, _, hc, h1, ?_, h2, by rw [hc]; simp⟩
  rw [← h1]
  exact (test_true_iff p cur _).mp ht

/-- non-vacuity: the hypotheses hold for `example_quiet`; and the carried `_old_results` afterwards is the FIRST vector -/
example : ∃ cur rest, (SolveGen.solve (playback [.ok [1, -2], .ok [1, -2]]) 100 (1 / 1000) (Carried.fresh 0)).trace = cur :: rest ∧
    Agrees (1 / 1000) cur (OldOf .nan rest) := by
  obtain ⟨cur, rest, h1, _, h3, _⟩ := quiet_implies_agreement _ 100 (1 / 1000) (Carried.fresh 0) example_quiet.1 example_quiet.2.1
  exact ⟨cur, rest, h1, h3⟩

/-- **warned_still_returns** — the warning is logged exactly when the whole budget was used without any pair agreeing;
    then nothing was raised (a profile is returned), `max_iteration_count − 1` iterations ran, and `_old_results` is the
    newest vector. -/
theorem warned_still_returns (step : S → S × Except Exc (List ℝ)) (m : ℕ) (p : ℝ) (c : Carried ℝ S)
    (hw : (SolveGen.solve step m p c).warned = true) :
    (SolveGen.solve step m p c).exc = none ∧ (SolveGen.solve step m p c).returned = true ∧
      (SolveGen.solve step m p c).iterations = m - 1 ∧ (SolveGen.solve step m p c).carried.hasOut = true ∧
      (SolveGen.solve step m p c).carried.old = OldOf c.old (SolveGen.solve step m p c).trace := by
  rw [solve_eq] at hw ⊢
  simp only [Solve.solve] at hw ⊢
  obtain ⟨h1, h2⟩ := loop_warned (within p) true step (m - 1) c.old c.st [] hw
  obtain ⟨i1, _, _⟩ := loop_inv (within p) true step c.old (m - 1) c.old c.st [] rfl trivial
  have hf : (loop (within p) true step (m - 1) c.old c.st []).failed =
      (loop (within p) true step (m - 1) c.old c.st []).trace := by simp [LoopOut.failed, hw]
  rw [hf] at i1
  exact ⟨h1, by simp [Result.returned, h1], by simpa using h2, trivial, i1⟩

example : (SolveGen.solve (playback [.ok [1], .ok [2], .ok [3]]) 3 (1 / 1000) (Carried.fresh 0)).returned = true :=
  (warned_still_returns _ 3 _ _ example_warned.1).2.1

/-- **warned_implies_no_agreement** — honest in the other direction too: when the warning is logged every vector was
    compared with its predecessor (the carried `_old_results` for the first) and did not agree (the comparison did not
    raise either). -/
theorem warned_implies_no_agreement (step : S → S × Except Exc (List ℝ)) (m : ℕ) (p : ℝ) (c : Carried ℝ S)
    (hw : (SolveGen.solve step m p c).warned = true) :
    AllDisagree (within p) true c.old (SolveGen.solve step m p c).trace := by
  rw [solve_eq] at hw ⊢
  simp only [Solve.solve] at hw ⊢
  obtain ⟨_, i2, _⟩ := loop_inv (within p) true step c.old (m - 1) c.old c.st [] rfl trivial
  have hf : (loop (within p) true step (m - 1) c.old c.st []).failed =
      (loop (within p) true step (m - 1) c.old c.st []).trace := by simp [LoopOut.failed, hw]
  rw [hf] at i2
  exact i2

example : AllDisagree (within (1 / 1000)) true .nan
    (SolveGen.solve (playback [.ok [1], .ok [2], .ok [3]]) 3 (1 / 1000) (Carried.fresh 0)).trace :=
  warned_implies_no_agreement _ 3 _ (Carried.fresh 0) example_warned.1

/-- a vector that did not pass the test does not agree with its predecessor -/
theorem disagree_not_agrees (p : ℝ) (cur : List ℝ) (old : Old ℝ) (h : test (within p) true cur old = some false) :
    ¬ Agrees p cur old := by
  intro ha
  rw [← test_true_iff] at ha
  rw [ha] at h
  simp at h

/-- **exactly one of three outcomes**: warned (returned), quiet (returned), or raised -/
theorem outcome_trichotomy (step : S → S × Except Exc (List ℝ)) (m : ℕ) (p : ℝ) (c : Carried ℝ S) :
    ((SolveGen.solve step m p c).warned = true ∧ (SolveGen.solve step m p c).exc = none) ∨
    ((SolveGen.solve step m p c).warned = false ∧ (SolveGen.solve step m p c).exc = none) ∨
    ((SolveGen.solve step m p c).warned = false ∧ ∃ e, (SolveGen.solve step m p c).exc = some e) := by
  rcases hw : (SolveGen.solve step m p c).warned with _ | _
  · rcases he : (SolveGen.solve step m p c).exc with _ | e
    · exact .inr (.inl ⟨rfl, rfl⟩)
    · exact .inr (.inr ⟨rfl, e, rfl⟩)
  · exact .inl ⟨rfl, (warned_still_returns step m p c hw).1⟩

/-! ### the first solve of a fresh unit -/

/-- **fresh_needs_two** — a unit that never completed an iteration carries the scalar NaN; its first vector cannot agree
    with anything, so a quiet end after ONE iteration happens only in the corner of the empty result vector
    (`np.all([]) = True`), where nothing at all was compared. -/
theorem fresh_needs_two (step : S → S × Except Exc (List ℝ)) (m : ℕ) (p : ℝ) (c : Carried ℝ S) (hc : c.old = .nan)
    (hw : (SolveGen.solve step m p c).warned = false) (he : (SolveGen.solve step m p c).exc = none) :
    2 ≤ (SolveGen.solve step m p c).iterations ∨ (SolveGen.solve step m p c).trace = [[]] := by
  obtain ⟨cur, rest, ht, _, ha, _, _⟩ := quiet_implies_agreement step m p c hw he
  have hl := (iterations_le step m p c).2.2
  rw [ht] at hl
  cases rest with
  | nil =>
    right
    rw [hc] at ha
    simp only [OldOf, Agrees] at ha
    rw [ht, ha]
  | cons v vs => left; rw [← hl]; simp

example : 2 ≤ (SolveGen.solve (playback [.ok [1, -2], .ok [1, -2]]) 100 (1 / 1000) (Carried.fresh 0)).iterations := by
  rw [example_quiet.2.2]

/-- with `max_iteration_count ≤ 2` a fresh unit whose result vector is not empty always ends with the warning -/
theorem fresh_limit_two_warns (step : S → S × Except Exc (List ℝ)) (m : ℕ) (hm : m ≤ 2) (p : ℝ) (c : Carried ℝ S)
    (hc : c.old = .nan) (hne : ∀ s v, (step s).2 = .ok v → v ≠ []) (he : (SolveGen.solve step m p c).exc = none) :
    (SolveGen.solve step m p c).warned = true := by
  by_contra hw
  have hw' : (SolveGen.solve step m p c).warned = false := by simpa using hw
  have hi := (iterations_le step m p c).1
  rcases fresh_needs_two step m p c hc hw' he with h2 | h1
  · omega
  · -- the trace is `[[]]`: the first body returned the empty vector
    rw [solve_eq] at h1 he
    simp only [Solve.solve] at h1 he
    have hm1 : m - 1 = 0 ∨ m - 1 = 1 := by omega
    rcases hm1 with h0 | h0
    · rw [h0, loop_zero] at h1; simp at h1
    · rw [h0] at h1 he
      rcases loop_cases (within p) true step 0 c.old c.st [] with ⟨s', e, _, h⟩ | ⟨s', cur, _, _, h⟩ |
        ⟨s', cur, hs, _, h⟩ | ⟨s', cur, hs, _, h⟩
      · rw [h] at he; simp at he
      · rw [h] at he; simp at he
      · rw [h] at h1
        simp only [List.cons.injEq, and_true] at h1
        exact hne c.st cur (by rw [hs]) h1
      · rw [h, loop_zero] at h1
        simp only [List.cons.injEq, and_true] at h1
        exact hne c.st cur (by rw [hs]) h1

/-- non-vacuity: a body that always yields `[5]`, limit 2: one iteration, warning -/
example : (SolveGen.solve (fun s : ℕ => (s, .ok ([5] : List ℝ))) 2 (1 / 10) (Carried.fresh 0)).warned = true :=
  fresh_limit_two_warns _ 2 (le_refl _) _ _ rfl (fun s v h => by simp at h; rw [← h]; simp)
    (by rw [solve_eq]; simp [Solve.solve, Carried.fresh, loop, test, quant])

/-- the empty-vector corner: a fresh unit whose root hooks yield no numeric value is "converged" after one iteration -/
theorem fresh_empty_vector_quiet (step : S → S × Except Exc (List ℝ)) (m : ℕ) (hm : 2 ≤ m) (p : ℝ) (s s' : S)
    (hs : step s = (s', .ok [])) :
    (SolveGen.solve step m p (Carried.fresh s)).warned = false ∧ (SolveGen.solve step m p (Carried.fresh s)).exc = none ∧
      (SolveGen.solve step m p (Carried.fresh s)).iterations = 1 := by
  rw [solve_eq]
  obtain ⟨k, hk⟩ : ∃ k, m - 1 = k + 1 := ⟨m - 2, by omega⟩
  simp only [Solve.solve, Carried.fresh, hk]
  rw [loop_succ_true (within p) true step hs (by simp [test_nan])]
  simp

example : (SolveGen.solve (fun s : ℕ => (s, .ok ([] : List ℝ))) 100 (1 / 1000) (Carried.fresh 0)).iterations = 1 :=
  (fresh_empty_vector_quiet _ 100 (by norm_num) _ 0 0 rfl).2.2

/-! ### reproducible -/

/-- **deterministic** — what a solve lets the outside see (iterations, warning, exception, every vector, `_old_results`)
    depends only on the configuration, the carried `_old_results` and the vectors / exceptions the loop bodies
    produce: two units whose bodies produce the same ones from related states cannot be told apart, and stay related.
    (This is also what justifies feeding RECORDED vectors to the model in the correspondence.) -/
theorem deterministic (step : S → S × Except Exc (List ℝ)) (step' : S' → S' × Except Exc (List ℝ)) (R : S → S' → Prop)
    (hR : ∀ s s', R s s' → (step s).2 = (step' s').2 ∧ R (step s).1 (step' s').1)
    (m : ℕ) (p : ℝ) (c : Carried ℝ S) (c' : Carried ℝ S') (ho : c.old = c'.old) (hh : c.hasOut = c'.hasOut)
    (hst : R c.st c'.st) :
    (SolveGen.solve step m p c).iterations = (SolveGen.solve step' m p c').iterations ∧
    (SolveGen.solve step m p c).warned = (SolveGen.solve step' m p c').warned ∧
    (SolveGen.solve step m p c).exc = (SolveGen.solve step' m p c').exc ∧
    (SolveGen.solve step m p c).trace = (SolveGen.solve step' m p c').trace ∧
    (SolveGen.solve step m p c).createdOut = (SolveGen.solve step' m p c').createdOut ∧
    (SolveGen.solve step m p c).carried.old = (SolveGen.solve step' m p c').carried.old ∧
    R (SolveGen.solve step m p c).carried.st (SolveGen.solve step' m p c').carried.st := by
  rw [solve_eq, solve_eq]
  have h := loop_sim (within p) true step step' R hR (m - 1) c.old c.st c'.st [] hst
  simp only [Solve.solve, ← ho, hh]
  obtain ⟨h1, h2, h3, h4, h5⟩ := h
  exact ⟨by rw [h2], h3, h4, h2, trivial, h1, h5⟩

/-- non-vacuity: playing back the vectors a counter-based unit produces is indistinguishable from that unit
    (relation: playback index = counter) -/
example : (SolveGen.solve (fun k : ℕ => (k + 1, .ok [1 + 1 / ((k : ℝ) + 1)])) 4 (1 / 10) (Carried.fresh 0)).warned =
    (SolveGen.solve (playback [.ok [1 + 1 / ((0 : ℕ) + 1)], .ok [1 + 1 / ((1 : ℕ) + 1)], .ok [1 + 1 / ((2 : ℕ) + 1)]]) 4 (1 / 10)
      (Carried.fresh 0)).warned := by
  rw [solve_eq, solve_eq]
  simp [Solve.solve, Carried.fresh, loop, playback, test, pairs, quant, within_decide]

/-- **deepcopy_commutes** — solving a copy gives the copy of the solved unit: if the loop body of the copy does to a
    copied state what the original does to the original (`step' ∘ cp = cp ∘ step`, same vectors), then for the whole
    modelled carried state (`_old_results`, out profile present, `S`) and every observable
    `solve (copy c) = copy (solve c)`. -/
theorem deepcopy_commutes (cp : S → S') (step : S → S × Except Exc (List ℝ)) (step' : S' → S' × Except Exc (List ℝ))
    (hcp : ∀ s, step' (cp s) = (cp (step s).1, (step s).2)) (m : ℕ) (p : ℝ) (c : Carried ℝ S) :
    SolveGen.solve step' m p (c.map cp) = (SolveGen.solve step m p c).map cp := by
  rw [solve_eq, solve_eq]
  have h := loop_sim (within p) true step step' (fun s s' => s' = cp s)
    (fun s s' hs => by subst hs; rw [hcp]; exact ⟨rfl, rfl⟩) (m - 1) c.old c.st (cp c.st) [] rfl
  obtain ⟨h1, h2, h3, h4, h5⟩ := h
  simp only [Solve.solve, Result.map, Carried.map]
  rw [← h1, ← h2, ← h3, ← h4, h5]

/-- non-vacuity: the copy carries a tag along; its loop body acts on the payload like the original -/
example (step : ℕ → ℕ × Except Exc (List ℝ)) (m : ℕ) (p : ℝ) (c : Carried ℝ ℕ) :
    SolveGen.solve (fun s : ℕ × Bool => (((step s.1).1, s.2), (step s.1).2)) m p (c.map fun k => (k, true)) =
      (SolveGen.solve step m p c).map fun k => (k, true) :=
  deepcopy_commutes (fun k => (k, true)) step _ (fun _ => rfl) m p c

/-- **resolve_continues** — solving again after the budget ran out (warning) continues the iteration exactly where it
    stopped: together the two solves are one solve with the joint budget. -/
theorem resolve_continues (step : S → S × Except Exc (List ℝ)) (m m' : ℕ) (hm : 1 ≤ m) (hm' : 1 ≤ m') (p : ℝ)
    (c : Carried ℝ S) (hw : (SolveGen.solve step m p c).warned = true) :
    (SolveGen.solve step m' p (SolveGen.solve step m p c).carried).carried = (SolveGen.solve step (m + m' - 1) p c).carried ∧
    (SolveGen.solve step m' p (SolveGen.solve step m p c).carried).warned = (SolveGen.solve step (m + m' - 1) p c).warned ∧
    (SolveGen.solve step m' p (SolveGen.solve step m p c).carried).exc = (SolveGen.solve step (m + m' - 1) p c).exc ∧
    (SolveGen.solve step (m + m' - 1) p c).trace =
      (SolveGen.solve step m' p (SolveGen.solve step m p c).carried).trace ++ (SolveGen.solve step m p c).trace := by
  rw [solve_eq] at hw
  simp only [solve_eq]
  simp only [Solve.solve] at hw ⊢
  have e : m + m' - 1 - 1 = (m - 1) + (m' - 1) := by omega
  rw [e, loop_add, if_pos hw, loop_trace_irrel (within p) true step (m' - 1) _ _ (loop (within p) true step (m - 1) c.old c.st []).trace]
  simp

example : (SolveGen.solve (playback [.ok [1], .ok [2], .ok [3]]) 5 (1 / 1000)
      (SolveGen.solve (playback [.ok [1], .ok [2], .ok [3]]) 3 (1 / 1000) (Carried.fresh 0)).carried).carried =
    (SolveGen.solve (playback [.ok [1], .ok [2], .ok [3]]) 7 (1 / 1000) (Carried.fresh 0)).carried :=
  (resolve_continues _ 3 5 (by norm_num) (by norm_num) _ (Carried.fresh 0) example_warned.1).1

/-- **resolve_within_prec_partial** — the persisted results follow one orbit `x 0, x 1, …` (a solve continues where the last
    one stopped; vectors of one length `n > 0`), and consecutive differences shrink component-wise by a factor `q ≤ 1/2`
    (explicit contractivity hypothesis; `(x k).getD j 0` is component `j`).  If the first solve of the fresh unit ended quietly
    with the result `x i`, then `i ≥ 2`, and a second solve — whatever its limit, however it ends — returns a result `x i'`,
    `i' ≥ i`, that agrees with the first within the precision, component by component, relative to the iterate `x (i−1)`
    the first solve had compared with. -/
theorem resolve_within_prec_partial (x : ℕ → List ℝ) (n : ℕ) (hlen : ∀ k, (x k).length = n) (q p : ℝ) (hq0 : 0 ≤ q) (hq : q ≤ 1 / 2)
    (hcontr : ∀ k j, j < n →
      |(x (k + 2)).getD j 0 - (x (k + 1)).getD j 0| ≤ q * |(x (k + 1)).getD j 0 - (x k).getD j 0|)
    (hn : 0 < n) (m m' : ℕ)
    (hw : (SolveGen.solve (orbitStep x) m p (Carried.fresh 0)).warned = false) :
    ∃ i i', i = (SolveGen.solve (orbitStep x) m p (Carried.fresh 0)).carried.st ∧
      i' = (SolveGen.solve (orbitStep x) m' p (SolveGen.solve (orbitStep x) m p (Carried.fresh 0)).carried).carried.st ∧
      (SolveGen.solve (orbitStep x) m p (Carried.fresh 0)).exc = none ∧
      (SolveGen.solve (orbitStep x) m' p (SolveGen.solve (orbitStep x) m p (Carried.fresh 0)).carried).exc = none ∧
      2 ≤ i ∧ i ≤ i' ∧ (SolveGen.solve (orbitStep x) m p (Carried.fresh 0)).last = some (x i) ∧
      ∀ j, j < n → |(x i').getD j 0 - (x i).getD j 0| ≤ |(x (i - 1)).getD j 0| * p := by
  simp only [solve_eq] at hw ⊢
  simp only [Solve.solve, Carried.fresh, Result.last] at hw ⊢
  -- first solve: left by `break`
  obtain ⟨he1, _, _, _, hhead1⟩ := loop_orbit (within p) true x n hlen (m - 1) .nan 0 [] (.inl rfl)
  obtain ⟨hpos, htest, hone, hmore⟩ := loop_orbit_quiet (within p) true x n hlen (m - 1) .nan 0 [] (.inl rfl) hw
  obtain ⟨i, hi⟩ : ∃ i, i = (loop (within p) true (orbitStep x) (m - 1) .nan 0 []).st := ⟨_, rfl⟩
  obtain ⟨o, ho⟩ : ∃ o, o = (loop (within p) true (orbitStep x) (m - 1) .nan 0 []).old := ⟨_, rfl⟩
  rw [← hi] at hhead1 hpos htest hone hmore
  rw [← ho] at htest hone hmore
  have h2 : 2 ≤ i := by
    by_contra hlt
    have h1 : i = 0 + 1 := by omega
    rw [hone h1, test_nan, h1] at htest
    have := hlen 1
    cases hx : x (0 + 1) with
    | nil => rw [hx] at this; simp at this; omega
    | cons a as => rw [hx] at htest; simp at htest
  have hold : o = .vec (x (i - 1)) := hmore (by omega)
  -- second solve: continues the orbit
  obtain ⟨he2, hle, _, _, _⟩ := loop_orbit (within p) true x n hlen (m' - 1) o i [] (.inr ⟨_, hold, hlen _⟩)
  rw [← hi, ← ho]
  obtain ⟨i', hi'⟩ : ∃ i', i' = (loop (within p) true (orbitStep x) (m' - 1) o i []).st := ⟨_, rfl⟩
  rw [← hi'] at hle
  refine ⟨i, i', rfl, hi', he1, he2, h2, hle, hhead1 (by omega), fun j hj => ?_⟩
  -- the first solve's last step is within the precision ...
  rw [hold, test_all_eq_len _ _ _ (by rw [hlen, hlen])] at htest
  simp only [Option.some.injEq, decide_eq_true_eq] at htest
  have hstep := (within_real p _ _).mp (htest j (by rw [hlen]; exact hj))
  have g1 : (x i).getD j 0 = (x i)[j]'(by rw [hlen]; exact hj) := by
    simp [List.getD_eq_getElem?_getD, hlen, hj]
  have g2 : (x (i - 1)).getD j 0 = (x (i - 1))[j]'(by rw [hlen]; exact hj) := by
    simp [List.getD_eq_getElem?_getD, hlen, hj]
  rw [← g1, ← g2] at hstep
  -- ... and everything later stays within q/(1-q) ≤ 1 times that step
  have hq1 : q < 1 := by linarith
  have hgeo := geometric_tail (fun k => (x k).getD j 0) q hq0 hq1 (fun k => hcontr k j hj) (i' - i) (i - 1)
  have e1 : i + (i' - i) = i' := by omega
  have e3 : i - 1 + 1 = i := by omega
  simp only [e3, e1] at hgeo
  have hfac : q / (1 - q) ≤ 1 := by
    rw [div_le_one (by linarith)]; linarith
  calc |(x i').getD j 0 - (x i).getD j 0|
      ≤ q / (1 - q) * |(x i).getD j 0 - (x (i - 1)).getD j 0| := hgeo
    _ ≤ 1 * |(x i).getD j 0 - (x (i - 1)).getD j 0| := mul_le_mul_of_nonneg_right hfac (abs_nonneg _)
    _ ≤ _ := by rw [one_mul]; exact hstep

/-- the orbit `2 + 2⁻ᵏ`: consecutive differences halve (`q = 1/2`) -/
noncomputable def halving (k : ℕ) : List ℝ := [2 + (1 / 2) ^ k]

/-- non-vacuity: precision 1/10, the first solve (limit 3) stops quietly at `x 2 = 2.25` (|2.25 − 2.5| = 0.25 ≤ 2.5/10) -/
example : ∃ i i', 2 ≤ i ∧ i ≤ i' ∧
    ∀ j, j < 1 → |(halving i').getD j 0 - (halving i).getD j 0| ≤ |(halving (i - 1)).getD j 0| * (1 / 10) := by
  obtain ⟨i, i', _, _, _, _, h2, hle, _, h⟩ := resolve_within_prec_partial halving 1 (fun _ => rfl) (1 / 2) (1 / 10) (by norm_num) (le_refl _)
    (by
      intro k j hj
      simp only [halving, List.getD_cons_zero, Nat.lt_one_iff.mp hj]
      have e1 : (2 + (1 / 2 : ℝ) ^ (k + 2)) - (2 + (1 / 2) ^ (k + 1)) = -((1 / 2) ^ (k + 2)) := by ring
      have e2 : (2 + (1 / 2 : ℝ) ^ (k + 1)) - (2 + (1 / 2) ^ k) = -((1 / 2) ^ (k + 1)) := by ring
      rw [e1, e2, abs_neg, abs_neg, abs_of_pos (by positivity), abs_of_pos (by positivity)]
      apply le_of_eq; ring)
    (by norm_num) 3 100
    (by
      rw [solve_eq]
      simp [Solve.solve, Carried.fresh, loop, orbitStep, halving, test, pairs, quant, within_decide]
      norm_num)
  exact ⟨i, i', h2, hle, h⟩

/-- `resolve_within_prec_partial` is the provable PART of "solving again gives results within the precision" (it carries the
    contractivity hypothesis).  The FULL statement (no hypothesis on how the results evolve): whenever the first solve of a fresh unit ends quietly,
    a second solve returns a result within the precision of the first -/
def ResolveFull : Prop :=
  ∀ (x : ℕ → List ℝ) (n : ℕ), (∀ k, (x k).length = n) → 0 < n → ∀ (p : ℝ) (m m' : ℕ),
    (SolveGen.solve (orbitStep x) m p (Carried.fresh 0)).warned = false →
    ∀ j, j < n →
      |(x (SolveGen.solve (orbitStep x) m' p (SolveGen.solve (orbitStep x) m p (Carried.fresh 0)).carried).carried.st).getD j 0
          - (x (SolveGen.solve (orbitStep x) m p (Carried.fresh 0)).carried.st).getD j 0|
        ≤ |(x ((SolveGen.solve (orbitStep x) m p (Carried.fresh 0)).carried.st - 1)).getD j 0| * p

/-- results that rest at 1 for two iterations and then move to 5 (a model that is not contractive) -/
noncomputable def jumping (k : ℕ) : List ℝ := if k ≤ 2 then [1] else [5]

/-- **resolve_full_false** — the full statement is false of the model (and of the code: the same vectors played through the
    real `Unit.solve` by the harness, scripted corpus `corpus-jump`): the first solve ends quietly at 1, the second one
    quietly at 5.  The solve loop cannot do better: it sees two equal consecutive iterates. -/
theorem resolve_full_false : ¬ ResolveFull := by
  intro h
  have h1 : (SolveGen.solve (orbitStep jumping) 3 (1 / 10) (Carried.fresh 0)).warned = false := by
    rw [solve_eq]
    simp [Solve.solve, Carried.fresh, loop, orbitStep, jumping, test, pairs, quant, within_decide]
  have := h jumping 1 (fun k => by unfold jumping; split <;> rfl) (by norm_num) (1 / 10) 3 3 h1 0 (by norm_num)
  simp only [solve_eq] at this
  simp [Solve.solve, Carried.fresh, loop, orbitStep, jumping, test, pairs, quant, within_decide] at this
  norm_num at this

/-! ### aborted by an exception -/

/-- **abort_leaves_usable** — a solve that raised after `k` complete iterations leaves the unit in a state that an
    UN-ABORTED run reaches: `_old_results`, the vectors compared and the existence of the out profile are exactly
    those of the same solve with the iteration limit `k + 1` (which ends regularly, with the warning); the rest of the state is
    what the failing loop body made of that run's state.  No mark of the loop is left: there is none — the only loop-level
    carried values are these (re-entrancy marks of the hook functions: `marks_restored`).  Since every theorem above
    holds for EVERY carried state, the next solve is bounded, honest and returns a profile like any other. -/
theorem abort_leaves_usable (step : S → S × Except Exc (List ℝ)) (m : ℕ) (p : ℝ) (c : Carried ℝ S) (e : Exc)
    (he : (SolveGen.solve step m p c).exc = some e) :
    ∃ k, k + 1 < m ∧ k = (SolveGen.solve step m p c).iterations ∧
      (SolveGen.solve step (k + 1) p c).exc = none ∧ (SolveGen.solve step (k + 1) p c).warned = true ∧
      (SolveGen.solve step m p c).carried.old = (SolveGen.solve step (k + 1) p c).carried.old ∧
      (SolveGen.solve step m p c).trace = (SolveGen.solve step (k + 1) p c).trace ∧
      (SolveGen.solve step m p c).carried.hasOut = true ∧
      (SolveGen.solve step m p c).carried.st = (step (SolveGen.solve step (k + 1) p c).carried.st).1 ∧
      (SolveGen.solve step m p c).warned = false := by
  simp only [solve_eq] at he ⊢
  simp only [Solve.solve] at he ⊢
  obtain ⟨k, hk, h1, h2, h3, h4, h5, h6⟩ := loop_abort (within p) true step (m - 1) c.old c.st [] e he
  refine ⟨k, by omega, ?_, ?_⟩
  · rw [h4]
    have := (loop_warned (within p) true step k c.old c.st [] h1).2
    simpa using this.symm
  · simp only [Nat.add_sub_cancel]
    exact ⟨h2, h1, h3, h4, trivial, h5, h6⟩

example : ∃ k, k = (SolveGen.solve (playback [.ok [1], .error .zeroDivisionError]) 100 (1 / 1000) (Carried.fresh 0)).iterations ∧
    (SolveGen.solve (playback [.ok [1], .error .zeroDivisionError]) (k + 1) (1 / 1000) (Carried.fresh 0)).warned = true := by
  obtain ⟨k, _, hk, _, hw, _⟩ := abort_leaves_usable _ 100 (1 / 1000) (Carried.fresh 0) _ example_abort
  exact ⟨k, hk, hw⟩

/-- **abort_then_retry_eq_fresh_partial** — if the failing loop body left the state where it found it, and the repaired body does
    what the faulty one did wherever that one succeeded, then solving again after the abort ends in exactly the state,
    with exactly the outcome, of ONE un-aborted solve of the repaired unit with the joint budget; the vectors compared
    are the same, in the same order. -/
theorem abort_then_retry_eq_fresh_partial (step step' : S → S × Except Exc (List ℝ))
    (hagree : ∀ s v, (step s).2 = .ok v → step' s = step s) (m m' : ℕ) (hm' : 1 ≤ m') (p : ℝ) (c : Carried ℝ S) (e : Exc)
    (he : (SolveGen.solve step m p c).exc = some e)
    (hunch : ∀ k, k = (SolveGen.solve step m p c).iterations →
      (step (SolveGen.solve step (k + 1) p c).carried.st).1 = (SolveGen.solve step (k + 1) p c).carried.st) :
    ∃ k, k = (SolveGen.solve step m p c).iterations ∧
      (SolveGen.solve step' m' p (SolveGen.solve step m p c).carried).carried = (SolveGen.solve step' (k + m') p c).carried ∧
      (SolveGen.solve step' m' p (SolveGen.solve step m p c).carried).warned = (SolveGen.solve step' (k + m') p c).warned ∧
      (SolveGen.solve step' m' p (SolveGen.solve step m p c).carried).exc = (SolveGen.solve step' (k + m') p c).exc ∧
      (SolveGen.solve step' (k + m') p c).trace =
        (SolveGen.solve step' m' p (SolveGen.solve step m p c).carried).trace ++ (SolveGen.solve step m p c).trace := by
  obtain ⟨k, hkm, hk, h1, h2, h3, h4, h5, h6, _⟩ := abort_leaves_usable step m p c e he
  have hu := hunch k hk
  refine ⟨k, hk, ?_⟩
  -- the aborted solve left exactly what the warned solve with limit k+1 leaves
  have hcar : (SolveGen.solve step m p c).carried = (SolveGen.solve step (k + 1) p c).carried := by
    rcases hc : (SolveGen.solve step m p c).carried with ⟨o, h, s⟩
    rcases hc' : (SolveGen.solve step (k + 1) p c).carried with ⟨o', h', s'⟩
    rw [hc, hc'] at h3
    rw [hc] at h5 h6
    rw [hc'] at hu h6
    simp only at h3 h5 h6 hu
    have hh' : h' = true := by
      have : (SolveGen.solve step (k + 1) p c).carried.hasOut = true := by rw [solve_eq]; rfl
      rw [hc'] at this; exact this
    rw [h3, h5, hh', h6, hu]
  -- and the repaired body reproduces that warned solve
  have hsame : SolveGen.solve step' (k + 1) p c = SolveGen.solve step (k + 1) p c := by
    simp only [solve_eq] at h1 ⊢
    simp only [Solve.solve] at h1 ⊢
    rw [loop_congr_ok (within p) true step step' hagree _ _ _ _ h1]
  have hw' : (SolveGen.solve step' (k + 1) p c).warned = true := by rw [hsame]; exact h2
  have hcont := resolve_continues step' (k + 1) m' (by omega) hm' p c hw'
  have e1 : k + 1 + m' - 1 = k + m' := by omega
  rw [e1, hsame, ← hcar, ← h4] at hcont
  exact hcont

/-- a unit whose second loop body fails without touching the state, and the repaired unit -/
def faulty : ℕ → ℕ × Except Exc (List ℝ) := fun k => if k = 1 then (1, .error .zeroDivisionError) else (k + 1, .ok [1])
def repaired : ℕ → ℕ × Except Exc (List ℝ) := fun k => (k + 1, .ok [1])

/-- non-vacuity: all hypotheses of `abort_then_retry_eq_fresh_partial` hold for `faulty` / `repaired` -/
example : ∃ k, (SolveGen.solve repaired 100 (1 / 1000) (SolveGen.solve faulty 100 (1 / 1000) (Carried.fresh 0)).carried).carried =
    (SolveGen.solve repaired (k + 100) (1 / 1000) (Carried.fresh 0)).carried := by
  have he : (SolveGen.solve faulty 100 (1 / 1000) (Carried.fresh 0)).exc = some .zeroDivisionError := by
    rw [solve_eq]; simp [Solve.solve, Carried.fresh, loop, faulty, test, quant]
  have hit : (SolveGen.solve faulty 100 (1 / 1000) (Carried.fresh 0)).iterations = 1 := by
    rw [solve_eq]; simp [Solve.solve, Carried.fresh, loop, faulty, test, quant]
  obtain ⟨k, _, h, _⟩ := abort_then_retry_eq_fresh_partial faulty repaired
    (fun s _ h => by
      unfold faulty at h ⊢
      unfold repaired
      by_cases hs : s = 1
      · simp [hs] at h
      · simp [hs])
    100 100 (by norm_num) (1 / 1000) (Carried.fresh 0) _ he
    (fun k hk => by
      rw [hit] at hk; subst hk
      rw [solve_eq]; simp [Solve.solve, Carried.fresh, loop, faulty, test, quant])
  exact ⟨k, h⟩

/-- a solve that ended without the warning is not changed by a larger iteration limit -/
theorem solve_limit_mono (step : S → S × Except Exc (List ℝ)) (m b : ℕ) (p : ℝ) (c : Carried ℝ S)
    (hw : (SolveGen.solve step m p c).warned = false) :
    SolveGen.solve step (m + b) p c = SolveGen.solve step m p c := by
  simp only [solve_eq] at hw ⊢
  simp only [Solve.solve] at hw ⊢
  have hm : 1 ≤ m := by
    by_contra h
    have : m - 1 = 0 := by omega
    rw [this, loop_zero] at hw
    simp at hw
  have e : m + b - 1 = (m - 1) + b := by omega
  rw [e, loop_add, if_neg (by rw [hw]; simp)]

/-- **abort_then_retry_quiet_eq_fresh_partial** — the clause "once the cause is removed it solves to the same results as a
    fresh one", under the same two hypotheses: if the repaired unit, solved from the state before the aborted solve
    (a fresh unit: `c = Carried.fresh s`), ends without the warning, then the repaired unit solved AFTER the abort ends
    in exactly that carried state (all results, `_old_results`), without warning, and the vectors it compared
    complete those of the aborted solve to exactly the sequence of the un-aborted one. -/
theorem abort_then_retry_quiet_eq_fresh_partial (step step' : S → S × Except Exc (List ℝ))
    (hagree : ∀ s v, (step s).2 = .ok v → step' s = step s) (m m' : ℕ) (p : ℝ) (c : Carried ℝ S) (e : Exc)
    (he : (SolveGen.solve step m p c).exc = some e)
    (hunch : ∀ k, k = (SolveGen.solve step m p c).iterations →
      (step (SolveGen.solve step (k + 1) p c).carried.st).1 = (SolveGen.solve step (k + 1) p c).carried.st)
    (hq : (SolveGen.solve step' m' p c).warned = false) :
    (SolveGen.solve step' m' p (SolveGen.solve step m p c).carried).carried = (SolveGen.solve step' m' p c).carried ∧
    (SolveGen.solve step' m' p (SolveGen.solve step m p c).carried).warned = false ∧
    (SolveGen.solve step' m' p (SolveGen.solve step m p c).carried).exc = (SolveGen.solve step' m' p c).exc ∧
    (SolveGen.solve step' m' p c).trace =
      (SolveGen.solve step' m' p (SolveGen.solve step m p c).carried).trace ++ (SolveGen.solve step m p c).trace := by
  have hm' : 1 ≤ m' := by
    by_contra h
    have h0 : m' - 1 = 0 := by omega
    rw [solve_eq] at hq
    simp only [Solve.solve, h0, loop_zero] at hq
    simp at hq
  obtain ⟨k, _, h1, h2, h3, h4⟩ := abort_then_retry_eq_fresh_partial step step' hagree m m' hm' p c e he hunch
  have hmono := solve_limit_mono step' m' k p c hq
  rw [Nat.add_comm] at hmono
  rw [hmono] at h1 h2 h3 h4
  exact ⟨h1, by rw [h2, hq], h3, h4⟩

/-- non-vacuity: `faulty` / `repaired`, limits 100: the retry ends where the fresh repaired unit ends -/
example : (SolveGen.solve repaired 100 (1 / 1000) (SolveGen.solve faulty 100 (1 / 1000) (Carried.fresh 0)).carried).carried =
    (SolveGen.solve repaired 100 (1 / 1000) (Carried.fresh 0)).carried := by
  have he : (SolveGen.solve faulty 100 (1 / 1000) (Carried.fresh 0)).exc = some .zeroDivisionError := by
    rw [solve_eq]; simp [Solve.solve, Carried.fresh, loop, faulty, test, quant]
  have hit : (SolveGen.solve faulty 100 (1 / 1000) (Carried.fresh 0)).iterations = 1 := by
    rw [solve_eq]; simp [Solve.solve, Carried.fresh, loop, faulty, test, quant]
  exact (abort_then_retry_quiet_eq_fresh_partial faulty repaired
    (fun s _ h => by
      unfold faulty at h ⊢
      unfold repaired
      by_cases hs : s = 1
      · simp [hs] at h
      · simp [hs])
    100 100 (1 / 1000) (Carried.fresh 0) _ he
    (fun k hk => by
      rw [hit] at hk; subst hk
      rw [solve_eq]; simp [Solve.solve, Carried.fresh, loop, faulty, test, quant])
    (by rw [solve_eq]; simp [Solve.solve, Carried.fresh, loop, repaired, test, pairs, quant, within_decide])).1

/-- The two theorems above are the provable PART of "a solve aborted by an exception leaves the sequence usable, so that
    once the cause is removed it solves to the same results as a fresh one": they carry `hunch` (the failing loop body
    leaves the unit's state where it found it).  The FULL statement, for whatever the failing body does to the state: -/
def AbortRetryFull : Prop :=
  ∀ (step step' : ℕ → ℕ × Except Exc (List ℝ)), (∀ s v, (step s).2 = .ok v → step' s = step s) →
    ∀ (m m' : ℕ) (p : ℝ) (e : Exc), (SolveGen.solve step m p (Carried.fresh 0)).exc = some e →
      (SolveGen.solve step' m' p (Carried.fresh 0)).warned = false →
      (SolveGen.solve step' m' p (SolveGen.solve step m p (Carried.fresh 0)).carried).last =
        (SolveGen.solve step' m' p (Carried.fresh 0)).last

/-- a unit whose first loop body fails AND leaves a trace in the state (state 0 ↦ 1) on which the results depend -/
def corrupting : ℕ → ℕ × Except Exc (List ℝ) := fun s => if s = 0 then (1, .error .attributeError) else (s, .ok [(s : ℝ)])
def corruptingRepaired : ℕ → ℕ × Except Exc (List ℝ) := fun s => (s, .ok [(s : ℝ)])

/-- **abort_retry_full_false** — the full statement is false of the loop model: the loop has no means to undo what a failing
    body did to the unit.  On the code this is finding 1 of notes/C05.md (unrepaired tree: the aborted solve leaves an out
    profile without `flow_stress`, and the retry fails or differs – corpus case 2 of the harness replays it); on the
    repaired tree the state the core keeps is covered by `reused_out_profile_up_to_date`, what remains are hook
    implementations with a memory of their own. -/
theorem abort_retry_full_false : ¬ AbortRetryFull := by
  intro h
  have he : (SolveGen.solve corrupting 100 (1 / 1000) (Carried.fresh 0)).exc = some .attributeError := by
    rw [solve_eq]; simp [Solve.solve, Carried.fresh, loop, corrupting]
  have hq : (SolveGen.solve corruptingRepaired 100 (1 / 1000) (Carried.fresh 0)).warned = false := by
    rw [solve_eq]; simp [Solve.solve, Carried.fresh, loop, corruptingRepaired, test, pairs, quant, within_decide]
  have := h corrupting corruptingRepaired
    (fun s _ hs => by
      unfold corrupting at hs ⊢
      unfold corruptingRepaired
      by_cases h0 : s = 0
      · simp [h0] at hs
      · simp [h0])
    100 100 (1 / 1000) _ he hq
  simp only [solve_eq] at this
  simp [Solve.solve, Carried.fresh, loop, corrupting, corruptingRepaired, test, pairs, quant, within_decide, Result.last] at this

/-- **no_raise_returns** — a loop body that never raises and always yields vectors of one length (matching a carried
    `_old_results`): `solve` returns a profile, with or without warning. -/
theorem no_raise_returns (step : S → S × Except Exc (List ℝ)) (n : ℕ)
    (hok : ∀ s, ∃ v, (step s).2 = .ok v ∧ v.length = n) (m : ℕ) (p : ℝ) (c : Carried ℝ S)
    (hc : c.old = .nan ∨ ∃ o, c.old = .vec o ∧ o.length = n) :
    (SolveGen.solve step m p c).exc = none ∧ (SolveGen.solve step m p c).returned = true := by
  have key : ∀ fuel (old : Old ℝ) (s : S) (tr : List (List ℝ)), (old = .nan ∨ ∃ o, old = .vec o ∧ o.length = n) →
      (loop (within p) true step fuel old s tr).exc = none := by
    intro fuel
    induction fuel with
    | zero => intro old s tr _; rfl
    | succ fuel ih =>
      intro old s tr ho
      obtain ⟨v, hv, hvl⟩ := hok s
      rcases hs : step s with ⟨s', r⟩
      rw [hs] at hv
      simp only at hv
      subst hv
      obtain ⟨b, hb⟩ := test_isSome_of_len (within p) true v old n hvl ho
      cases b with
      | true => rw [loop_succ_true _ _ _ hs hb]
      | false => rw [loop_succ_false _ _ _ hs hb]; exact ih _ _ _ (.inr ⟨v, rfl, hvl⟩)
  have h := key (m - 1) c.old c.st [] hc
  rw [solve_eq]
  exact ⟨h, by simp [Result.returned, Solve.solve, h]⟩

example : (SolveGen.solve (fun s : ℕ => (s + 1, .ok [(s : ℝ), 1])) 7 (1 / 100) (Carried.fresh 0)).returned = true :=
  (no_raise_returns _ 2 (fun _ => ⟨_, rfl, rfl⟩) 7 _ _ (.inl rfl)).2

/-! ### the out profile of a unit that is solved again (`init_solve`)

The loop theorems above take the loop body as a parameter; what they cannot see is what a body finds in the unit when
the unit is solved AGAIN.  The one object `init_solve` deliberately keeps is the out profile (the previous results are
the start values of the next iteration).  Its public entries are modelled by `Solve.handOver` (the `else:` branch of
`init_solve`, pinned by `loop_shape_as_modelled` / `handsOver_true` and compared entry by entry with the real
`init_solve` in the correspondence). -/

/-- **reused_out_profile_up_to_date** — WHATEVER an earlier solve left in the out profile (`out` is arbitrary: the
    results of a completed solve with another incoming profile, the copy of a deficient incoming profile made by a
    solve that was then aborted, entries the new incoming profile no longer has): after `init_solve` every entry that
    is not a root hook is exactly what a newly created out profile holds — the value handed over from the new incoming
    profile, or nothing. -/
theorem reused_out_profile_up_to_date (roots : List String) (out : Option Entries) (tmpl : Entries) (k : String)
    (hk : k ∉ roots) :
    (SolveGen.initOut roots out tmpl).get k = (SolveGen.initOut roots none tmpl).get k ∧
    (SolveGen.initOut roots none tmpl).get k = tmpl.get k := by
  cases out with
  | none => simp [SolveGen.initOut, Solve.initOut]
  | some o => simp [SolveGen.initOut, reusesOut_true, handsOver_true, Solve.initOut, handOver_get, hk]

/-- non-vacuity: an out profile left by a solve whose incoming profile lacked `flow_stress` and carried `junk` -/
example : (SolveGen.initOut ["strain", "t"] (some [("t", 5), ("strain", 6), ("junk", 9), ("density", 2)])
    [("t", 0), ("strain", 1), ("density", 3), ("flow_stress", 4)]) =
    [("t", 5), ("strain", 6), ("density", 3), ("flow_stress", 4)] := by decide

/-- the policy of the unrepaired code ("re-use as it is", `handsOver = false`) does not have this property: the value
    of the first solve stays (finding 1 / 2 of notes/C05.md) -/
example : (Solve.initOut false ["strain"] (some [("strain", 6), ("flow_stress", 100)]) [("strain", 0), ("flow_stress", 80)]).get
    "flow_stress" = some 100 := by decide

/-- **reused_out_profile_keeps_results** — the root hooks are the other half: a value the previous solve left is kept (it
    is the start value of the iteration; every loop body re-evaluates it), a missing one is filled from the incoming
    profile as on creation. -/
theorem reused_out_profile_keeps_results (roots : List String) (out tmpl : Entries) (k : String) (hk : k ∈ roots) :
    (∀ v, out.get k = some v → (SolveGen.initOut roots (some out) tmpl).get k = some v) ∧
    (out.get k = none → (SolveGen.initOut roots (some out) tmpl).get k = (SolveGen.initOut roots none tmpl).get k) := by
  simp only [SolveGen.initOut, reusesOut_true, handsOver_true, if_true, Solve.initOut]
  rw [handOver_get, if_pos hk]
  exact ⟨fun v h => by rw [h], fun h => by rw [h]⟩

example : (SolveGen.initOut ["strain", "t"] (some [("strain", 6)]) [("t", 0), ("strain", 1)]).get "strain" = some 6 ∧
    (SolveGen.initOut ["strain", "t"] (some [("strain", 6)]) [("t", 0), ("strain", 1)]).get "t" = some 0 :=
  ⟨(reused_out_profile_keeps_results _ _ _ "strain" (by decide)).1 6 (by decide),
   by rw [(reused_out_profile_keeps_results _ [("strain", 6)] _ "t" (by decide)).2 (by decide)]; decide⟩

/-! ### sub-units and marks -/

/-- `_solve_subunits`: whatever a sub-unit raises reaches the parent's loop as `RuntimeError`; the sub-units before the
    failing one have been solved, those behind it are not entered; so the parent's solve raises `RuntimeError` too. -/
theorem subunit_failure_is_runtime_error (pre post : List (S → S × Except Exc Unit)) (u : S → S × Except Exc Unit)
    (own : S → S × Except Exc (List ℝ)) (s : S) (hpre : (solveSubunits pre s).2 = .ok ()) (e : Exc)
    (hu : (u (solveSubunits pre s).1).2 = .error e) :
    unitStep (pre ++ u :: post) own s = ((u (solveSubunits pre s).1).1, .error .runtimeError) ∧
    ∀ (m : ℕ) (p : ℝ) (h : Bool), 2 ≤ m →
      (SolveGen.solve (unitStep (pre ++ u :: post) own) m p { old := .nan, hasOut := h, st := s }).exc = some .runtimeError := by
  have h1 : unitStep (pre ++ u :: post) own s = ((u (solveSubunits pre s).1).1, .error .runtimeError) := by
    simp [unitStep, solveSubunits_split pre post u s hpre e hu]
  refine ⟨h1, fun m p h hm => ?_⟩
  rw [solve_eq]
  obtain ⟨k, hk⟩ : ∃ k, m - 1 = k + 1 := ⟨m - 2, by omega⟩
  simp only [Solve.solve, hk]
  rw [loop_succ_error _ _ _ h1]

/-- non-vacuity: three sub-units, the second raises `ZeroDivisionError`: the third is not entered (state 2, not 3) -/
example : unitStep [fun k : ℕ => (k + 1, .ok ()), fun k => (k + 1, .error .zeroDivisionError), fun k => (k + 1, .ok ())]
    (fun k => (k, .ok [(1 : ℝ)])) 0 = (2, .error .runtimeError) :=
  (subunit_failure_is_runtime_error [fun k : ℕ => (k + 1, .ok ())] [fun k => (k + 1, .ok ())]
    (fun k => (k + 1, .error .zeroDivisionError)) _ 0 rfl .zeroDivisionError rfl).1

/-- **marks_restored** — `HookFunction.__call__` as read from hooks.py (`mark`, `try`, `finally: un-mark unless the call
    was re-entrant`): whatever the implementation returns or raises, the marks are afterwards what they were before —
    also for a re-entrant call, which must not clear the mark of the outer one. -/
theorem marks_restored {β : Type} (key : ℕ) (body : List ℕ → Bool → List ℕ × Except Exc β)
    (hbody : ∀ m c, (body m c).1 = m) (marks : List ℕ) :
    (markedCall key body marks).1 = marks ∧
    loop_shape.marks = ["store:per-function", "key:=id(instance)", "cycle:=key-in-marks", "local", "mark", "try",
                        "finally:unmark-unless-cycle", "return"] :=
  ⟨markedCall_restores key body hbody marks, rfl⟩

/-- non-vacuity: a re-entrant call on the instance that is already marked, raising: the outer mark survives -/
example : (markedCall 7 (fun m _ => (m, (.error .valueError : Except Exc ℕ))) [3, 7]).1 = [3, 7] :=
  (marks_restored 7 _ (fun _ _ => rfl) [3, 7]).1

/-! ### one loop body of a roll pass: ALL persisted results are compared, the geometry is rebuilt in every iteration

`get_root_hook_results` and `reevaluate_cache` of the concrete roll-pass classes as python resolves them (`SolveGen.resultParts`,
`evalParts`, `cacheEffects`: `PyrollModel/SolveBody.lean` over the method tables and resolution orders GENERATED from
roll_pass/*.py, unit/unit.py, roll/roll.py, hooks.py). -/

/-- the resolution orders the translator computed (compared with `cls.__mro__` of the real classes on every run) -/
theorem pass_family_as_modelled :
    mro = [("TwoRollPass", ["TwoRollPass", "SymmetricRollPass", "BaseRollPass", "DiskElementUnit", "DeformationUnit", "Unit", "HookHost"]),
           ("ThreeRollPass", ["ThreeRollPass", "SymmetricRollPass", "BaseRollPass", "DiskElementUnit", "DeformationUnit", "Unit", "HookHost"]),
           ("TwoRollPass.Roll", ["TwoRollPass.Roll", "SymmetricRollPass.Roll", "BaseRollPass.Roll", "Roll", "HookHost"]),
           ("ThreeRollPass.Roll", ["ThreeRollPass.Roll", "SymmetricRollPass.Roll", "BaseRollPass.Roll", "Roll", "HookHost"])] := rfl

/-- **pass_vector_covers_all_hosts** — for EVERY concrete roll-pass class the vector of the stop test is made of the persisted
    results of ALL hook hosts of the unit: in profile, unit, out profile AND roll (each evaluated and persisted in every loop
    body: `evalParts`).  Two-roll passes contribute the roll twice (both `SymmetricRollPass` and `TwoRollPass` append it). -/
theorem pass_vector_covers_all_hosts :
    (∀ cls ∈ passClasses, ∀ h ∈ passHosts, h ∈ resultParts cls ∧ h ∈ evalParts cls) ∧
    resultParts "ThreeRollPass" = ["in_profile", "self", "out_profile", "roll"] ∧
    resultParts "TwoRollPass" = ["in_profile", "self", "out_profile", "roll", "roll"] := by decide

/-- **quiet_covers_every_host** — if two consecutive result vectors built from the same parts (each part with the same
    number of values in both) pass the stop test, then the values of EVERY part agree component-wise within the precision. -/
theorem quiet_covers_every_host (parts : List String) (cur old : String → List ℝ) (p : ℝ)
    (hlen : ∀ h ∈ parts, (cur h).length = (old h).length)
    (hag : Agrees p (SolveBody.vector parts cur) (.vec (SolveBody.vector parts old))) :
    ∀ h ∈ parts, ∀ q ∈ (cur h).zip (old h), |q.1 - q.2| ≤ |q.2| * p := by
  obtain ⟨ps, hps, hall⟩ := hag
  rw [pairs_eq_len _ _ (SolveBody.vector_length_eq parts cur old hlen)] at hps
  cases hps
  exact fun h hh q hq => hall q (SolveBody.mem_zip_vector parts cur old hlen h hh q hq)

/-- **quiet_implies_roll_agreement** — a roll pass of either class that ends without warning and without exception after
    at least two iterations whose vectors are assembled as the class's `get_root_hook_results` does: the values persisted on
    its ROLL (as on every other host) in the last two iterations agree within the precision. -/
theorem quiet_implies_roll_agreement (cls : String) (hcls : cls ∈ passClasses) (vals : S → String → List ℝ) (next : S → S)
    (m : ℕ) (p : ℝ) (c : Carried ℝ S)
    (hw : (SolveGen.solve (fun s => (next s, .ok (SolveBody.vector (resultParts cls) (vals s)))) m p c).warned = false)
    (he : (SolveGen.solve (fun s => (next s, .ok (SolveBody.vector (resultParts cls) (vals s)))) m p c).exc = none)
    (cur old : String → List ℝ) (rest : List (List ℝ))
    (htr : (SolveGen.solve (fun s => (next s, .ok (SolveBody.vector (resultParts cls) (vals s)))) m p c).trace =
      SolveBody.vector (resultParts cls) cur :: SolveBody.vector (resultParts cls) old :: rest)
    (hlen : ∀ h ∈ resultParts cls, (cur h).length = (old h).length) :
    ∀ h ∈ passHosts, ∀ q ∈ (cur h).zip (old h), |q.1 - q.2| ≤ |q.2| * p := by
  obtain ⟨cur', rest', h1, _, h3, _⟩ := quiet_implies_agreement _ m p c hw he
  rw [htr] at h1
  injection h1 with hc hr
  subst hc hr
  intro h hh
  exact quiet_covers_every_host _ cur old p hlen h3 h ((pass_vector_covers_all_hosts.1 cls hcls h hh).1)

/-- non-vacuity of `quiet_implies_roll_agreement`: a fresh three-roll pass whose hosts hold the same values in both iterations
    (in profile 1, unit 2, out profile 3, roll 4): quiet after 2 iterations, trace as required -/
example : ∀ h ∈ passHosts, ∀ q ∈ ([if h = "roll" then 4 else if h = "self" then 2 else if h = "out_profile" then 3 else 1] : List ℝ).zip
    [if h = "roll" then 4 else if h = "self" then 2 else if h = "out_profile" then 3 else 1], |q.1 - q.2| ≤ |q.2| * (1 / 1000) := by
  have hv : SolveBody.vector (resultParts "ThreeRollPass")
      (fun (h : String) => ([if h = "roll" then 4 else if h = "self" then 2 else if h = "out_profile" then 3 else 1] : List ℝ))
      = [1, 2, 3, 4] := by
    rw [pass_vector_covers_all_hosts.2.1]
    simp [SolveBody.vector]
  refine quiet_implies_roll_agreement "ThreeRollPass" (by decide)
    (fun _ h => [if h = "roll" then 4 else if h = "self" then 2 else if h = "out_profile" then 3 else 1]) (· + 1) 100 (1 / 1000)
    (Carried.fresh 0) ?_ ?_ _ _ [] ?_ (fun _ _ => rfl)
  all_goals
    rw [solve_eq]
    simp only [hv]
    simp [Solve.solve, Carried.fresh, loop, test, pairs, quant, within_decide]

/-- non-vacuity of `quiet_covers_every_host`: a three-roll pass, the roll value moved by 1/2000 at precision 1/1000 -/
example : ∀ q ∈ ([2000 + 1] : List ℝ).zip [2000], |q.1 - q.2| ≤ |q.2| * (1 / 1000) := by
  have h := quiet_covers_every_host (resultParts "ThreeRollPass")
    (fun h => if h = "roll" then [2000 + 1] else [1]) (fun h => if h = "roll" then [2000] else [1]) (1 / 1000)
    (by intro h _; by_cases hh : h = "roll" <;> simp [hh])
    (by
      rw [pass_vector_covers_all_hosts.2.1]
      refine ⟨[(1, 1), (1, 1), (1, 1), (2000 + 1, 2000)], by simp [SolveBody.vector, pairs], ?_⟩
      intro q hq
      simp only [List.mem_cons, List.mem_nil_iff, or_false] at hq
      rcases hq with rfl | rfl | rfl | rfl <;> norm_num)
    "roll" (by rw [pass_vector_covers_all_hosts.2.1]; simp)
  simpa using h

/-- the vector of a class whose resolution finds no definition appending the roll does NOT constrain the roll's values: with
    only `Unit.get_root_hook_results` the parts are the two profiles and the unit -/
example : SolveBody.resolve [("Unit", ["in_profile", "self", "out_profile"]), ("TwoRollPass", ["super", "roll"])]
    ["ThreeRollPass", "SymmetricRollPass", "BaseRollPass", "Unit", "HookHost"] = ["in_profile", "self", "out_profile"] := by decide

/-- **reevaluate_cache_leaves_no_stale_memo** — THE PREDICATE the generated method table must satisfy
    (`SolveBody.leavesNoStaleMemo`): for EVERY concrete roll-pass class the statements of `reevaluate_cache` as python runs
    them (overrides, `super()`, the roll's method where `self.roll.reevaluate_cache()` stands — in source order, whichever
    classes define them) end, from ANY memos present before the call and although the recomputations of the remembered hook
    values in between may use or rebuild the memos, with no memoised pass contour and with a memoised roll contour line only
    if it was built from the roll's values after their recomputation: no memo of derived geometry survives that was built
    from values of the previous iteration (or half-recomputed ones). -/
theorem reevaluate_cache_leaves_no_stale_memo :
    ∀ cls ∈ passClasses, SolveBody.leavesNoStaleMemo (cacheProgram cls) = true := by decide

/-- the predicate on forms of the method: (a) recompute – roll – clear, twice along the MRO; (b) clear – roll(clear – recompute –
    clear) – recompute – clear; (c) "cleared once per solve, not by `reevaluate_cache`": fails; (d) roll memo built before
    the roll's recomputation and never cleared: fails; (e) clear, then recompute: fails -/
example : SolveBody.leavesNoStaleMemo (SolveBody.program ["reevaluate-cached", "roll:reevaluate-cached", "roll:clear:_contour_line",
    "clear:_contour_lines", "roll:reevaluate-cached", "roll:clear:_contour_line", "clear:_contour_lines"]) = true := by decide
example : SolveBody.leavesNoStaleMemo (SolveBody.program ["clear:_contour_lines", "roll:clear:_contour_line", "roll:reevaluate-cached",
    "roll:clear:_contour_line", "reevaluate-cached", "clear:_contour_lines"]) = true := by decide
example : SolveBody.leavesNoStaleMemo (SolveBody.program ["reevaluate-cached", "roll:reevaluate-cached", "roll:clear:_contour_line"])
    = false := by decide
example : SolveBody.leavesNoStaleMemo (SolveBody.program ["roll:clear:_contour_line", "reevaluate-cached", "roll:reevaluate-cached",
    "clear:_contour_lines"]) = false := by decide
example : SolveBody.leavesNoStaleMemo (SolveBody.program ["clear:_contour_lines", "roll:reevaluate-cached", "roll:clear:_contour_line",
    "reevaluate-cached"]) = false := by decide
/-- (for reference, not required by C05: only a form that clears BEFORE recomputing keeps the recomputation itself from reading a
    memo of the previous iteration) -/
example : SolveBody.recomputeReadsNoOldMemo (SolveBody.program ["reevaluate-cached", "roll:reevaluate-cached",
    "roll:clear:_contour_line", "clear:_contour_lines"]) = false ∧
    SolveBody.recomputeReadsNoOldMemo (SolveBody.program ["clear:_contour_lines", "roll:clear:_contour_line", "roll:reevaluate-cached",
    "roll:clear:_contour_line", "reevaluate-cached", "clear:_contour_lines"]) = true := by decide

/-- **geometry_rebuilt_every_iteration** — consequence for the loop: `reevaluate_cache` runs at the start of every loop body, so,
    whatever memos and values the first body finds (an earlier solve, `init_solve`, a user), whatever the values were in the
    middle of a recomputation, the pass contour used in an iteration is the one built from the values the pass (gap …) and the
    roll (contour …) hold after the `reevaluate_cache` of THAT iteration — for every concrete roll-pass class, any sequence of
    values and any way of building. -/
theorem geometry_rebuilt_every_iteration {G ρ γ : Type} (cls : String) (hcls : cls ∈ passClasses) (bR : G → ρ) (bP : G → ρ → γ)
    (is : List (SolveBody.BodyIn G)) (s : SolveBody.MemoState G ρ γ) :
    ∀ t ∈ SolveBody.usedGeometries bR bP (cacheProgram cls) is s, t.1 = bP t.2.2.2 (bR t.2.2.1) ∧ t.2.1 = bR t.2.2.1 :=
  SolveBody.usedGeometries_current bR bP _ (reevaluate_cache_leaves_no_stale_memo cls hcls) is s

/-- non-vacuity: gaps / roll contours 2, 3, 5 (9 in the middle of the recomputations) and stale memos: every iteration gets
    its own geometry -/
example : (SolveBody.usedGeometries (fun g : ℕ => g + 1) (fun (g : ℕ) (r : ℕ) => 10 * g + r) (cacheProgram "ThreeRollPass")
    [⟨9, 2, 9, 2⟩, ⟨9, 3, 9, 3⟩, ⟨9, 5, 9, 5⟩] ⟨some 7, some 7, 0, 0⟩).map (·.1) = [23, 34, 56] := by decide

/-- the clearing is needed: a `reevaluate_cache` that never clears the pass memo (e.g. the memo is cleared once per solve,
    before the loop) — once a pass contour exists, every later loop body uses it -/
theorem geometry_stale_without_clearing {G ρ γ : Type} (bR : G → ρ) (bP : G → ρ → γ) (prog : List SolveBody.Eff)
    (hp : SolveBody.Eff.clearPass ∉ prog) (is : List (SolveBody.BodyIn G)) (c : γ) (s : SolveBody.MemoState G ρ γ)
    (hs : s.pm = some c) : ∀ t ∈ SolveBody.usedGeometries bR bP prog is s, t.1 = c :=
  SolveBody.usedGeometries_stale bR bP prog hp is c s hs

/-- memo cleared before the loop, `reevaluate_cache` = recompute + roll only: the first body builds (from the values in the
    middle of its recomputation), all bodies use that -/
example : (SolveBody.usedGeometries (fun g : ℕ => g + 1) (fun (g : ℕ) (r : ℕ) => 10 * g + r)
    (SolveBody.program ["reevaluate-cached", "roll:reevaluate-cached", "roll:clear:_contour_line"])
    [⟨2, 2, 2, 2⟩, ⟨3, 3, 3, 3⟩, ⟨5, 5, 5, 5⟩] ⟨none, none, 0, 0⟩).map (·.1) = [21, 21, 21] := by decide

/-! ### nested hook evaluations: marks are per (function, instance) and restored — a solve leaves nothing behind

`SolveGen.readHook` / `runReads` = `PyrollModel/SolveMarks.lean` with the policy GENERATED from `HookFunction.__init__`
(where the mark store lives), `HookFunction.__call__` (how `cycle` is computed, when the mark is discarded) and the
function-wide flag properties of hooks.py.  A model implementation that takes the `cycle` argument may read the same hook
on a NEIGHBOURING instance (unit, profile, roll), that one on the next, …: `SolveMarks.Impl.ask`. -/

/-- what the translator read: one mark store per hook function object, `cycle = key in store`, `finally: if not cycle:
    discard(key)` -/
theorem marks_policy_as_read : marksPolicy = SolveMarks.good := by decide

/-- **mark_is_per_function_and_instance** — the implementation of hook function `g` called on instance `k` is told `cycle`
    exactly when THIS function is already running on THIS instance: a mark of another instance or of another function
    never makes a call a cycle. -/
theorem mark_is_per_function_and_instance (m : SolveMarks.Marks) (g k : ℕ) :
    SolveMarks.flag marksPolicy m g k = true ↔ (g, k) ∈ m := by
  rw [marks_policy_as_read, SolveMarks.flag_good]
  simp

/-- non-vacuity: function 0 running on instance 1 and function 1 running on instance 2 — function 0 called on instance 2 is
    no cycle; called on instance 1 it is -/
example : SolveMarks.flag marksPolicy [(0, 1), (1, 2)] 0 2 = false ∧ SolveMarks.flag marksPolicy [(0, 1), (1, 2)] 0 1 = true := by
  decide

/-- **nested_read_restores_marks** — for EVERY world (explicit values, implementations asking other instances for the same or
    another hook, defaults), every nesting depth, every hook, instance and set of marks found: after the read the marks are
    what they were before, whether it returned a value or raised.  (No hypothesis on the nested calls: they are calls of the
    same `HookFunction.__call__`; `marks_restored` above is the one-level statement.) -/
theorem nested_read_restores_marks (W : SolveMarks.World) (fuel g k : ℕ) (m : SolveMarks.Marks) :
    (readHook W fuel g k m).1 = m := by
  unfold readHook
  rw [marks_policy_as_read]
  exact SolveMarks.read_restores W fuel g k m

/-- non-vacuity: instance 0 asks 1, 1 asks 0 (a genuine cycle, cut by the flag; 0 has a default, 1 has none): the read on 0
    gives 2·293+1 and the read on 1 raises - no mark is left either way -/
example :
    let W : SolveMarks.World := { explicit := fun _ _ => none,
                                  impl := fun _ k => if k = 0 then .ask 0 1 2 1 else .ask 0 0 1 0,
                                  dflt := fun _ k => if k = 0 then some 293 else none }
    readHook W 8 0 0 [] = ([], .val 587) ∧ readHook W 8 0 1 [] = ([], .attributeError) := by
  decide

/-- **nested_read_goes_through** — `d` instances in a row each of which lacks the value and asks its neighbour for the same
    hook, the last neighbour holding `v`: the read on the first one yields `v` passed through the `d` implementations — a nested
    call of the same hook function on ANOTHER instance is not a cycle, at any depth (`d = 1, 2, 3, …`), whatever other
    marks are set — and restores the marks. -/
theorem nested_read_goes_through (g : ℕ) (v a b : ℤ) (dflt : Option ℤ) (d k fuel : ℕ) (m : SolveMarks.Marks)
    (hfuel : d < fuel) (hm : ∀ j, k ≤ j → j < k + d → (g, j) ∉ m) :
    readHook (SolveMarks.chain g (k + d) v a b dflt) fuel g k m = (m, .val (SolveMarks.linIter a b d v)) := by
  unfold readHook
  rw [marks_policy_as_read]
  exact SolveMarks.read_chain g v a b dflt d k fuel m hfuel hm

/-- non-vacuity: three levels (instances 0, 1, 2 ask on, instance 3 holds 900), each adding 1 -/
example : readHook (SolveMarks.chain 0 3 900 1 1 (some 293)) 5 0 0 [] = ([], .val 903) :=
  nested_read_goes_through 0 900 1 1 (some 293) 3 0 5 [] (by omega) (by simp)

/-- **solve_leaves_no_mark** — a history of top-level hook reads (what the loop bodies of any number of solves of any
    sequences evaluate, each in the world of its moment) started without marks ends without marks, and every read answers
    exactly as the same read made first thing in a new process. -/
theorem solve_leaves_no_mark (fuel : ℕ) (qs : List (SolveMarks.World × ℕ × ℕ)) :
    (runReads fuel qs []).1 = [] ∧
    (runReads fuel qs []).2 = qs.map (fun q => (readHook q.1 fuel q.2.1 q.2.2 []).2) := by
  unfold runReads readHook
  rw [marks_policy_as_read]
  exact SolveMarks.runAll_good fuel qs []

/-- non-vacuity: the cycle world of above read on instance 0, on instance 1 (raises), then a three-level line: no mark left,
    the answers of the single reads -/
example :
    let W : SolveMarks.World := { explicit := fun _ _ => none,
                                  impl := fun _ k => if k = 0 then .ask 0 1 2 1 else .ask 0 0 1 0,
                                  dflt := fun _ k => if k = 0 then some 293 else none }
    runReads 8 [(W, 0, 0), (W, 0, 1), (SolveMarks.chain 0 3 900 1 1 none, 0, 0)] [] = ([], [.val 587, .attributeError, .val 903]) := by
  decide

/-- **fresh_after_other_identical** — what the hook reads of a solve yield does not depend on which other reads (solves of
    other sequences, earlier solves of the same one) ran before in the process. -/
theorem fresh_after_other_identical (fuel : ℕ) (ps qs : List (SolveMarks.World × ℕ × ℕ)) :
    (runReads fuel (ps ++ qs) []).2 = (runReads fuel ps []).2 ++ (runReads fuel qs []).2 := by
  unfold runReads
  rw [marks_policy_as_read]
  exact SolveMarks.runAll_append fuel ps qs

/-- non-vacuity: a two-level line read first, then a one-level line: 900 both times, as the one-level line alone -/
example : (runReads 5 [(SolveMarks.chain 0 2 900 1 0 (some 293), 0, 0), (SolveMarks.chain 0 1 900 1 0 (some 293), 0, 0)] []).2
    = [.val 900, .val 900] := by
  have h := fresh_after_other_identical 5 [(SolveMarks.chain 0 2 900 1 0 (some 293), 0, 0)]
    [(SolveMarks.chain 0 1 900 1 0 (some 293), 0, 0)]
  have h2 : (runReads 5 [(SolveMarks.chain 0 2 900 1 0 (some 293), 0, 0)] []).2 ++
      (runReads 5 [(SolveMarks.chain 0 1 900 1 0 (some 293), 0, 0)] []).2 = [.val 900, .val 900] := by decide
  exact h.trans h2

/-- the function-wide flag (`cycle` = "the function runs on SOME instance") is NOT reproducible: the two-level line leaves the
    mark of the inner instance behind (the nested call is taken for a cycle and a cycled call does not un-mark), after which
    the one-level line reads the default 293 instead of 900 (and leaves a second mark) — the same read gives 900 when made first. -/
theorem function_wide_flag_not_reproducible :
    let P : SolveMarks.Policy := { perFunction := true, perInstance := false, unmark := .unlessCycle }
    let long := SolveMarks.chain 0 2 900 1 0 (some 293)
    let short := SolveMarks.chain 0 1 900 1 0 (some 293)
    SolveMarks.runAll P 5 [(long, 0, 0), (short, 0, 0)] [] = ([(0, 0), (0, 1)], [.val 293, .val 293]) ∧
    SolveMarks.runAll P 5 [(short, 0, 0)] [] = ([], [.val 900]) := by
  decide

/-- … and so is one mark store shared by all hook functions: hook 0 on instance 0 asks hook 1 on the same instance, whose
    implementation is told `cycle` although it is not running: `AttributeError` where per-function marks give 7 -/
theorem shared_store_changes_results :
    let W : SolveMarks.World := { explicit := fun _ _ => none,
                                  impl := fun g _ => if g = 0 then .ask 1 0 1 0 else .value 7,
                                  dflt := fun _ _ => none }
    (SolveMarks.read { perFunction := false, perInstance := true, unmark := .unlessCycle } W 5 0 0 []).2 = .attributeError ∧
    (readHook W 5 0 0 []).2 = .val 7 := by
  decide

end C05
