import PyrollProofs.LifecycleLemmas
import PyrollModel.RootUnits

/-
  C02, third sentence on REAL unit classes: "root hooks evaluated by the solver become explicit values of their object".

  `PyrollProps/C02.lean` proves what ONE `evaluate_and_set_hooks` does to the object it is called on and that the explicit
  values survive every later history.  This file is about WHICH objects the solution procedure calls it on: the tables
  `Gen.C02.Units` (class hierarchy with MROs, every definition of `get_root_hook_results` with its statements, the objects
  the library constructs for a unit class, the `root_hooks` list, the loop of `Unit.solve`) are re-read from
  `pyroll/core/**/*.py` on every run, `RootUnits.evaluated` is python's method resolution on them, and the theorems say - for
  EVERY unit class of the package, every state, every fuel -:

    * every object the library constructs for a unit (the unit itself, its in profile, its out profile, the working roll of a
      roll pass) is root-evaluated in every iteration of the solution loop, and after that phase every root hook that belongs
      to the object's class (owner in the MRO) is a PLAIN EXPLICIT value of it (`library_objects_are_root_evaluated`,
      `unit_objects_roots_become_explicit`, `roll_roots_become_explicit`);
    * the unit and its profiles are evaluated exactly once per iteration; the roll as many times as there are overrides along
      the MRO that evaluate it (`unit_and_profiles_evaluated_once`, `roll_evaluations_are_the_overrides`); "exactly once for
      every object" holds iff no definition repeats the roll statement of a base class
      (`exactly_once_iff_no_repeated_roll_statement`) - on the source as it is both sides are FALSE: `TwoRollPass` repeats the
      statement of `SymmetricRollPass`, so the roll of a two-roll pass is evaluated twice per iteration (observed on the
      implementation on every run) - harmless for the property, the second evaluation recomputes the same explicit values;
    * `roll_torque` is a root hook of every roll class a pass constructs (`every_roll_has_a_root_hook`).

  Dropping an override that evaluates an object (or a statement of one) makes `library_objects_are_root_evaluated` false, so
  the build breaks.
-/

namespace RootUnits

open Life Gen.C02.Units

/-! ## 0. the source facts this file rests on (pinned) -/

/-- `Unit.solve` asks for the root hook results once per iteration, after the in profile, the sub units, the unit and the out
profile were re-evaluated; every definition of `get_root_hook_results` concatenates each of its partial results exactly once
(nothing evaluated is left out of the convergence test). -/
theorem solve_loop_as_modelled :
    solveRootCalls = 1 ∧ solveLoopBefore = ["in_profile", "<subunits>", "self", "out_profile"] ∧
    (∀ e ∈ overrides, ∀ s ∈ e.2, s.1 ≤ 1) ∧
    (∀ e ∈ overrides, ∃ r, assoc e.1 overridesReturn = some r ∧ r.length = e.2.length ∧ r.Nodup ∧ ∀ k ∈ r, k < e.2.length) := by
  refine ⟨by decide, by decide, by decide, ?_⟩
  decide

/-- the world built from the tables carries them: the root list of the source, the MRO of every class -/
theorem world_has_source_tables :
    (run 0 init worldOps).roots = rootHooks ∧ ∀ e ∈ mros, (run 0 init worldOps).mro e.1 = e.2 := by
  decide

/-! ## 1. one root phase makes the root hooks of every evaluated object explicit (all states) -/

/-- every `evaluate_and_set_hooks` of the phase went through -/
def phaseOk (fuel : Nat) : State → List Inst → Bool
  | _, [] => true
  | st, i :: is =>
    match step fuel st (.evalRoot i) with
    | (fin, .vals .none _) => phaseOk fuel fin is
    | _ => false

/-- a plain explicit value stays a plain explicit value through every history without a manual assign / delete of it (the
induction of `Life.root_survives_history`, repeated here so that this file stands on the lemma library alone) -/
theorem plain_survives_run (fuel : Nat) (i : Inst) (n : Name) (ops : List Op) : ∀ st : State, i < st.n →
    (∀ op ∈ ops, op.userSets i n = false) → (∃ v, lookup n (st.obj i).dict = some (.plain v)) →
    ∃ v, lookup n ((run fuel st ops).obj i).dict = some (.plain v) := by
  induction ops with
  | nil => intro st _ _ h; exact h
  | cons op ops ih =>
    intro st hi h hp
    rw [run_cons]
    exact ih _ (Nat.lt_of_lt_of_le hi (step_n_mono fuel st op)) (fun o ho => h o (by simp [ho]))
      (step_plain_stays fuel st op i n hi (h op (by simp)) hp)

/-- **A sequence of root evaluations** (the root phase of one solver iteration, whatever objects it visits and however often):
when every evaluation went through, then at the end EVERY visited object carries a plain explicit value under every root
hook whose owner is a class of its MRO - also the objects visited early (the later evaluations of other objects, and a
repeated evaluation of the same object, leave a plain explicit value there). -/
theorem root_phase_makes_explicit (fuel : Nat) (is : List Inst) : ∀ st : State, (∀ i ∈ is, i < st.n) →
    phaseOk fuel st is = true →
    ∀ i ∈ is, ∀ c n, (c, n) ∈ st.roots → (st.mro (st.obj i).cls).contains c = true →
      ∃ v, lookup n ((run fuel st (is.map .evalRoot)).obj i).dict = some (.plain v) := by
  induction is with
  | nil => intro st _ _ i hi; simp at hi
  | cons j js ih =>
    intro st hn hok i hi c n hr hc
    simp only [phaseOk] at hok
    generalize hstep : step fuel st (.evalRoot j) = x at hok
    obtain ⟨fin, o⟩ := x
    cases o with
    | vals r out =>
      cases r with
      | none =>
        simp only at hok
        have hloop := evalRoot_loop hstep
        have hp := rootLoop_pres fuel j st.roots { st with trace := [] } []
        rw [hloop] at hp
        have hfin : (step fuel st (.evalRoot j)).1 = fin := by rw [hstep]
        rw [List.map_cons, run_cons, hfin]
        rcases List.mem_cons.mp hi with rfl | hjs
        · have hops : ∀ op ∈ js.map Op.evalRoot, op.userSets i n = false := by
            intro op hop
            obtain ⟨k, _, rfl⟩ := List.mem_map.mp hop
            rfl
          obtain ⟨w, hw, _⟩ := rootLoop_explicit fuel i st.roots { st with trace := [] } fin [] out hloop c n hr hc
          have hin : i < fin.n := by rw [hp.n]; exact hn i (by simp)
          exact plain_survives_run fuel i n (js.map .evalRoot) fin hin hops ⟨w, hw⟩
        · have hroots : fin.roots = st.roots := hp.roots
          have hmro : fin.mro = st.mro := hp.mro
          have hcls : (fin.obj i).cls = (st.obj i).cls := hp.cls i
          have hnn : fin.n = st.n := hp.n
          exact ih fin (fun k hk => by rw [hnn]; exact hn k (by simp [hk])) hok i hjs c n (by rw [hroots]; exact hr)
            (by rw [hmro, hcls]; exact hc)
      | val _ => simp at hok
      | attrErr => simp at hok
      | typeErr => simp at hok
      | fuelOut => simp at hok
    | valueErr => simp at hok
    | ok => simp at hok
    | res _ => simp at hok
    | flag _ => simp at hok

/-! ## 2. which objects the phase visits: read from the source, for every unit class of the package -/

/-- **Every object the library constructs for a unit is root-evaluated in every iteration**: for every unit class of the
package (roll passes of every kind, their disk elements, transports, cooling pipes, rotators, sequences) and every object its
constructors create (`self.in_profile`, `self.out_profile`, `self.roll`, the unit itself), the method resolution of
`get_root_hook_results` on the class reaches a statement `self.<object>.evaluate_and_set_hooks()`.  (This is the statement
that fails when an override is dropped: the tables are re-read from the source on every run.) -/
theorem library_objects_are_root_evaluated :
    ∀ e ∈ unitObjects, ∀ o ∈ e.2, o.1 ∈ evaluatedPerIteration e.1 := by
  decide

/-- nothing else is evaluated: every evaluated attribute is an object the library constructed (no statement outside the
subset, no attribute that no constructor of the class creates) -/
theorem only_library_objects_are_evaluated :
    ∀ e ∈ unitObjects, ∀ a ∈ evaluatedPerIteration e.1, a ∈ e.2.map (·.1) := by
  decide

/-- **The root hooks of every object of every unit class become explicit in every iteration** (all states, all fuels): let
`inst` name the instances that play the objects of a unit of class `c`; when the root phase of an iteration
(`phaseOps`: the `evaluate_and_set_hooks` calls in the order the source makes them) goes through, every object `a` the
library constructed for the unit carries a plain explicit value under every root hook whose owner is in its MRO. -/
theorem unit_objects_roots_become_explicit (c : Nat) (objs : List (Nat × Nat)) (hc : (c, objs) ∈ unitObjects)
    (a k : Nat) (ha : (a, k) ∈ objs) (fuel : Nat) (st : State) (inst : Nat → Inst)
    (hn : ∀ b ∈ evaluatedPerIteration c, inst b < st.n)
    (hok : phaseOk fuel st ((evaluatedPerIteration c).map inst) = true) :
    ∀ o n, (o, n) ∈ st.roots → (st.mro (st.obj (inst a)).cls).contains o = true →
      ∃ v, lookup n ((run fuel st (phaseOps inst c)).obj (inst a)).dict = some (.plain v) := by
  have hmem : a ∈ evaluatedPerIteration c := library_objects_are_root_evaluated (c, objs) hc (a, k) ha
  have hops : phaseOps inst c = ((evaluatedPerIteration c).map inst).map Op.evalRoot := by
    simp [phaseOps, List.map_map, Function.comp_def]
  rw [hops]
  intro o n hr hm
  exact root_phase_makes_explicit fuel ((evaluatedPerIteration c).map inst) st
    (fun i hi => by obtain ⟨b, hb, rfl⟩ := List.mem_map.mp hi; exact hn b hb) hok (inst a)
    (List.mem_map_of_mem hmem) o n hr hm

/-- the statement for the working roll, as the property sentence is read for roll passes: **for every pass class that
constructs a roll, the roll's root hooks are evaluated in every iteration and become explicit** -/
theorem roll_roots_become_explicit (c : Nat) (objs : List (Nat × Nat)) (hc : (c, objs) ∈ unitObjects)
    (k : Nat) (ha : (a_roll, k) ∈ objs) (fuel : Nat) (st : State) (inst : Nat → Inst)
    (hn : ∀ b ∈ evaluatedPerIteration c, inst b < st.n)
    (hok : phaseOk fuel st ((evaluatedPerIteration c).map inst) = true) :
    1 ≤ (evaluatedPerIteration c).count a_roll ∧
    ∀ o n, (o, n) ∈ st.roots → (st.mro (st.obj (inst a_roll)).cls).contains o = true →
      ∃ v, lookup n ((run fuel st (phaseOps inst c)).obj (inst a_roll)).dict = some (.plain v) :=
  ⟨List.count_pos_iff.mpr (library_objects_are_root_evaluated (c, objs) hc (a_roll, k) ha),
   unit_objects_roots_become_explicit c objs hc a_roll k ha fuel st inst hn hok⟩

/-! ## 3. how often -/

/-- does the definition of `get_root_hook_results` in class `k` contain `self.<a>.evaluate_and_set_hooks()`? -/
def overrideEvaluates (k a : Nat) : Bool :=
  match assoc k overrides with
  | some ss => ss.contains (1, a)
  | none => false

/-- the unit itself and its two profiles are evaluated exactly once per iteration, for every unit class -/
theorem unit_and_profiles_evaluated_once :
    ∀ e ∈ unitObjects, ∀ o ∈ e.2, o.1 ≠ a_roll → (evaluatedPerIteration e.1).count o.1 = 1 := by
  decide

/-- the working roll is evaluated once per definition along the MRO that names it -/
theorem roll_evaluations_are_the_overrides :
    ∀ e ∈ unitObjects, (evaluatedPerIteration e.1).count a_roll =
      solveRootCalls * ((mroOf e.1).filter fun k => overrideEvaluates k a_roll).length := by
  decide

/-- the full statement "every object exactly once per iteration" -/
def EvaluatedExactlyOnce : Prop :=
  ∀ e ∈ unitObjects, ∀ o ∈ e.2, (evaluatedPerIteration e.1).count o.1 = 1

/-- no class has two definitions along its MRO that evaluate the roll -/
def NoRepeatedRollStatement : Prop :=
  ∀ e ∈ unitObjects, ((mroOf e.1).filter fun k => overrideEvaluates k a_roll).length ≤ 1

/-- **Exactly once per iteration holds precisely when no definition repeats the roll statement of a base class.**  On the
source as it is BOTH sides are false: `TwoRollPass.get_root_hook_results` repeats the statement of `SymmetricRollPass`, so the
roll of a two-roll pass is evaluated twice per iteration (the three-roll pass: once) - observed on the implementation on every
run (evidence `observed:two-roll-pass-evaluates-its-roll-twice-per-iteration`; the correspondence compares the exact sequence of
visited objects, repetitions included).  The property does not demand "once": the repeated evaluation recomputes the explicit
values from the same registry, and `root_phase_makes_explicit` covers repeated visits.  Stated as an equivalence so that
removing the repetition (a change under which the property still holds) does not break the build, while dropping the ONLY
statement that reaches an object does (`library_objects_are_root_evaluated`). -/
theorem exactly_once_iff_no_repeated_roll_statement : EvaluatedExactlyOnce ↔ NoRepeatedRollStatement := by
  unfold EvaluatedExactlyOnce NoRepeatedRollStatement
  decide

/-- a repeated statement means a repeated evaluation: as many visits of the roll as definitions that name it, never fewer
than one for a class that constructs a roll -/
theorem roll_visits_bounded_by_definitions :
    ∀ e ∈ unitObjects, ∀ o ∈ e.2, o.1 = a_roll →
      1 ≤ (evaluatedPerIteration e.1).count a_roll ∧
      (evaluatedPerIteration e.1).count a_roll ≤ (mroOf e.1).length := by
  decide

/-! ## 4. the root hooks of the roll classes -/

/-- `roll_torque` is a root hook of the class of every roll a pass constructs (owner `BaseRollPass.Roll` is in its MRO) -/
theorem every_roll_has_a_root_hook :
    ∀ e ∈ unitObjects, ∀ o ∈ e.2, o.1 = a_roll → h_roll_torque ∈ rootsOf o.2 := by
  decide

/-! ## Non-vacuity: a three-roll pass and a two-roll pass of the source tables in the life-cycle model -/

/-- the world of the source + the four objects of a unit of class `c` (instance = attribute id: 0 the unit, 1 in profile,
2 out profile, 3 roll) + one constant implementation per root hook on its owner class -/
def exUnit (c : Nat) : List Op :=
  worldOps ++ (objectsOf c).map (fun o => Op.newInst o.2) ++
    (List.range rootHooks.length).map fun k => Op.addImpl k (rootHooks.getD k (0, 0)).1 (rootHooks.getD k (0, 0)).2
      (.const (.int (100 + k)))

-- hypotheses of `unit_objects_roots_become_explicit` / `roll_roots_become_explicit` hold for the three-roll pass ...
example : (c_ThreeRollPass, objectsOf c_ThreeRollPass) ∈ unitObjects ∧
    (a_roll, c_ThreeRollPass_Roll) ∈ objectsOf c_ThreeRollPass ∧
    evaluatedPerIteration c_ThreeRollPass = [a_in_profile, a_out_profile, a_self, a_roll] := by decide
example : (∀ b ∈ evaluatedPerIteration c_ThreeRollPass, id b < (run 9 init (exUnit c_ThreeRollPass)).n) ∧
    phaseOk 9 (run 9 init (exUnit c_ThreeRollPass)) ((evaluatedPerIteration c_ThreeRollPass).map id) = true := by decide
-- ... and the conclusion is what the model computes: the roll's `roll_torque` (hook 1, constant 101) is explicit afterwards,
-- it was not before; the unit's own root hooks (`roll_force` 0, `elongation_efficiency` 2, `power` 3, ...) as well
example : ((run 9 init (exUnit c_ThreeRollPass)).obj 3).dict = [] ∧
    ((run 9 (run 9 init (exUnit c_ThreeRollPass)) (phaseOps id c_ThreeRollPass)).obj 3).dict
      = [(h_roll_torque, .plain (.int 101))] := by decide
example : (((run 9 (run 9 init (exUnit c_ThreeRollPass)) (phaseOps id c_ThreeRollPass)).obj 0).dict.map (·.1))
    = [h_roll_force, h_elongation_efficiency, h_power, h_strain_rate, h_technologically_orientated_contour_lines] := by
  decide
-- the two-roll pass (its roll is visited as often as the source says - twice as it is): the explicit value is the same
example : a_roll ∈ evaluatedPerIteration c_TwoRollPass ∧
    phaseOk 9 (run 9 init (exUnit c_TwoRollPass)) ((evaluatedPerIteration c_TwoRollPass).map id) = true ∧
    ((run 9 (run 9 init (exUnit c_TwoRollPass)) (phaseOps id c_TwoRollPass)).obj 3).dict
      = [(h_roll_torque, .plain (.int 101))] := by decide
-- a root value made explicit in the phase survives the removal of its implementation and a re-evaluation
example : (step 9 (run 9 (run 9 init (exUnit c_ThreeRollPass)) (phaseOps id c_ThreeRollPass ++ [.removeImpl 1, .reevaluate 3]))
    (.read 3 h_roll_torque)) |> fun r => (r.1.trace, r.2) = ([], .res (.val (.int 101))) := by decide
-- WITHOUT the roll statement (what dropping the override of `SymmetricRollPass` leaves for a three-roll pass) the roll keeps
-- an empty `__dict__`: the method resolution on a table without that override does not reach the roll
example : evaluatedFrom (overrides.filter fun e => e.1 ≠ c_SymmetricRollPass) (mroOf c_ThreeRollPass)
    = [a_in_profile, a_out_profile, a_self] ∧
    ((run 9 (run 9 init (exUnit c_ThreeRollPass)) ([a_in_profile, a_out_profile, a_self].map fun a => Op.evalRoot a)).obj 3).dict
      = [] := by decide
-- the root hooks of the classes: a three-roll roll has `roll_torque`, a transport's out profile the five of `Unit.OutProfile`
example : rootsOf c_ThreeRollPass_Roll = [h_roll_torque] ∧
    rootsOf c_Transport_OutProfile = [h_cross_section, h_classifiers, h_strain, h_length, h_t] ∧
    rootsOf c_Transport_InProfile = [] ∧ rootsOf c_PassSequence = [h_power, h_log_elongation] := by decide

end RootUnits
