import PyrollProps.C16

/-!
# C16 — … in whatever FORM a member is supplied, and on objects built from a TEMPLATE that was read and edited before

Two places of the hook system itself decide whether the group theorems of `PyrollProps/C16.lean` (stated for fresh objects
whose supplied members are numbers) carry over to what users actually build; both are re-read from the source on every run
(`driver/translate/c16_template.py` → `PyrollModel/Gen/C16.lean`):

* `hookget_call` — how `Hook.__get__` calls an explicit value that is CALLABLE (the documented forms of supplying a value:
  a number, a callable without parameter, a callable taking the instance — lambda, `def`, bound method, `functools.partial`,
  object with `__call__`, class, builtin).  `hookget_call_by_signature` pins it to `len(inspect.signature(v).parameters) == 0
  → v()`, otherwise `v(instance)` (defined for every kind of callable); with it, for EVERY world, EVERY set of explicit
  values, EVERY choice of the values given as callables of 0 / 1 parameters, EVERY sequence of reads and EVERY fuel the
  interpreter's run is the run of the object that carries the numbers (`callable_supply_reads_as_number`, proved by a
  simulation over the machine, not by enumeration) — so every group theorem holds in whatever form the members are
  supplied (`…_in_whatever_form`).
* `copy_PassRoll`, `copy_UnitProfile` — which attribute sets of a TEMPLATE object a copy site (`BaseRollPass.Roll(template,
  roll_pass)`, `Unit.Profile(unit, template)`) takes over as explicit values of the fresh object.  Pinned to the public part
  of `__dict__` only; with it, for EVERY template world, EVERY initially supplied set, EVERY history of reads / new supplies /
  deletions (any length, any order; the reads fill the template's `__cache__`), EVERY copy world, read order and fuel:
  copy-then-read = read on the fresh object given the names the template holds explicitly after its edits
  (`pass_roll_copy_reads_as_fresh`), hence the group theorems hold on the roll of a pass whatever happened to the `Roll`
  object before it was handed to the pass (`pass_roll_from_template_consistent`).  The statement is FALSE for a copy site
  that also takes over the template's `__cache__` (examples at the end: the stale diameter next to the new radius).
-/

open Mutual Gen.C16 Expr

namespace C16

/-! ## explicit values that are callables -/

/-- `Hook.__get__` of the current source determines the number of parameters of a callable explicit value with
`inspect.signature` and calls it without argument when it has none, with the instance otherwise -/
theorem hookget_call_by_signature : hookget_call = CallConv.std := by decide

-- the convention is not vacuous: a callable with two parameters is called with one argument — TypeError, not a value
example : callExplicit hookget_call "nominal_radius" 2 = .err .other := by decide
example : callExplicit hookget_call "nominal_radius" 0 = .val (.var "nominal_radius") ∧
    callExplicit hookget_call "nominal_radius" 1 = .val (.var "nominal_radius") := by decide
-- … and a way of counting parameters that does not exist for every callable is outside the model
example : callExplicit ("?", [(0, 0)], 1) "nominal_radius" 0 = .err .unmodelled := by decide

/-- **A member supplied as a callable is supplied.**  Any class table, MRO, hook list and externals (`mkW`: the calling
convention is the generated one), any explicitly set names `set`, any of them given as callables with 0 or 1 parameters
(`calls`), any sequence of reads `ord`, any fuel: the reads (symbolic values, error kinds, machine steps, stack depth,
number of hook function invocations), the names and values left in `__cache__` and the marks are exactly those of the
object whose explicit values are numbers. -/
theorem callable_supply_reads_as_number (impls : List Impl) (mro hooks : List String) (ext : List (String × Ext))
    (fuel : Nat) (set : List String) (calls : List (String × Nat)) (hu : ∀ p ∈ calls, p.2 ≤ 1) (ord : List String) :
    (scenarioC (mkW impls mro hooks ext) fuel set calls ord).1 = (scenario (mkW impls mro hooks ext) fuel set ord).1 ∧
    (scenarioC (mkW impls mro hooks ext) fuel set calls ord).2.cache
      = (scenario (mkW impls mro hooks ext) fuel set ord).2.cache ∧
    (scenarioC (mkW impls mro hooks ext) fuel set calls ord).2.active
      = (scenario (mkW impls mro hooks ext) fuel set ord).2.active :=
  scenarioC_eq_scenario _ hookget_call_by_signature fuel set calls hu ord

-- a kernel-evaluated instance (F12's input with the radius as a bound-method-like 1-parameter callable and the surface
-- velocity as a 0-parameter callable): `working_velocity` read first gives the value
set_option maxRecDepth 100000 in
example : ((scenarioC (roll [gf] ["nominal_radius"]).world FUEL ["nominal_radius", "surface_velocity"]
      [("nominal_radius", 1), ("surface_velocity", 0)] ["working_velocity", "nominal_radius"]).1.map (·.res)) =
    [.val (.mul (.mul (.mul (.div (.var "surface_velocity") (.mul (.mul (.nat 2) .pi) (.var "nominal_radius")))
        (.sub (.var "nominal_radius") (.var "groove.groove_factor"))) (.nat 2)) .pi),
     .val (.var "nominal_radius")] := by decide +kernel

/-! every world of the twelve group theorems uses the generated calling convention (`mkW`) -/
set_option maxRecDepth 100000 in
theorem radius_worlds_conv : ∀ g ∈ radiusWorlds, g.world.conv = CallConv.std := by decide
set_option maxRecDepth 100000 in
theorem vel_worlds_conv : ∀ g ∈ velWorlds, g.world.conv = CallConv.std := by decide
set_option maxRecDepth 100000 in
theorem vel_neutral_worlds_conv : ∀ g ∈ velNeutralWorlds, g.world.conv = CallConv.std := by decide
set_option maxRecDepth 100000 in
theorem neutral_worlds_conv : ∀ g ∈ neutralWorlds, g.world.conv = CallConv.std := by decide
set_option maxRecDepth 100000 in
theorem vel_wr_worlds_conv : ∀ g ∈ velWrWorlds, g.world.conv = CallConv.std := by decide
set_option maxRecDepth 100000 in
theorem neutral_wr_worlds_conv : ∀ g ∈ neutralWrWorlds, g.world.conv = CallConv.std := by decide
set_option maxRecDepth 100000 in
theorem pipe_worlds_conv : ∀ g ∈ pipeWorlds, g.world.conv = CallConv.std := by decide
set_option maxRecDepth 100000 in
theorem target_worlds_conv : ∀ g ∈ targetWorlds, g.world.conv = CallConv.std := by decide
set_option maxRecDepth 100000 in
theorem unit_worlds_conv : ∀ g ∈ unitWorlds, g.world.conv = CallConv.std := by decide
set_option maxRecDepth 100000 in
theorem pass_unit_neutral_worlds_conv : ∀ g ∈ passUnitNeutralWorlds, g.world.conv = CallConv.std := by decide
set_option maxRecDepth 100000 in
theorem pass_unit_worlds_conv : ∀ g ∈ passUnitWorlds, g.world.conv = CallConv.std := by decide

/-! the group theorems, with the supplied members (and the other explicit values of the world: radius, neutral angle,
working radius) given in whatever form — number, callable without parameter, callable taking the instance -/

theorem radius_consistent_in_whatever_form (ρ : String → ℝ) (h : RadiusConsistent ρ) :
    GroupConsistentC radiusSpec FUEL radiusWorlds ρ (fun _ => True) :=
  groupConsistentC_of radius_worlds_conv (radius_consistent ρ h)

theorem radius_side_consistent_in_whatever_form (ρ : String → ℝ) :
    GroupConsistentC radiusSideSpec FUEL radiusWorlds ρ (fun sup => RadiusSideConsistent ρ sup) :=
  groupConsistentC_of radius_worlds_conv (radius_side_consistent ρ)

theorem vel_consistent_in_whatever_form (ρ : String → ℝ) (h : VelConsistent ρ) :
    GroupConsistentC velSpec FUEL velWorlds ρ (fun _ => True) :=
  groupConsistentC_of vel_worlds_conv (vel_consistent ρ h)

theorem vel_neutral_consistent_in_whatever_form (ρ : String → ℝ) (h : VelNeutralConsistent ρ) :
    GroupConsistentC velNeutralSpec FUEL velNeutralWorlds ρ (fun _ => True) :=
  groupConsistentC_of vel_neutral_worlds_conv (vel_neutral_consistent ρ h)

theorem neutral_consistent_in_whatever_form (ρ : String → ℝ) (h : NeutralConsistent ρ) :
    GroupConsistentC neutralSpec FUEL neutralWorlds ρ (fun _ => True) :=
  groupConsistentC_of neutral_worlds_conv (neutral_consistent ρ h)

theorem vel_wr_consistent_in_whatever_form (ρ : String → ℝ) (h : VelWrConsistent ρ) :
    GroupConsistentC velWrSpec FUEL velWrWorlds ρ (fun _ => True) :=
  groupConsistentC_of vel_wr_worlds_conv (vel_wr_consistent ρ h)

theorem neutral_wr_consistent_in_whatever_form (ρ : String → ℝ) (h : NeutralWrConsistent ρ) :
    GroupConsistentC neutralWrSpec FUEL neutralWrWorlds ρ (fun _ => True) :=
  groupConsistentC_of neutral_wr_worlds_conv (neutral_wr_consistent ρ h)

theorem pipe_consistent_in_whatever_form (ρ : String → ℝ) (h : PipeConsistent ρ) :
    GroupConsistentC pipeSpec FUEL pipeWorlds ρ (fun _ => True) :=
  groupConsistentC_of pipe_worlds_conv (pipe_consistent ρ h)

theorem target_consistent_in_whatever_form (ρ : String → ℝ) :
    GroupConsistentC targetSpec FUEL targetWorlds ρ (fun sup => TargetConsistent ρ sup) :=
  groupConsistentC_of target_worlds_conv (target_consistent ρ)

theorem unit_consistent_in_whatever_form (ρ : String → ℝ) (h : UnitConsistent ρ) :
    GroupConsistentC unitSpec FUEL unitWorlds ρ (fun _ => True) :=
  groupConsistentC_of unit_worlds_conv (unit_consistent ρ h)

theorem pass_unit_neutral_consistent_in_whatever_form (ρ : String → ℝ)
    (h : PassUnitConsistent ρ (ρ "roll.working_velocity" * Real.cos (ρ "roll.neutral_angle"))) :
    GroupConsistentC passUnitNeutralSpec FUEL passUnitNeutralWorlds ρ (fun _ => True) :=
  groupConsistentC_of pass_unit_neutral_worlds_conv (pass_unit_neutral_consistent ρ h)

theorem pass_unit_consistent_in_whatever_form (ρ : String → ℝ) (h : PassUnitConsistent ρ (ρ "roll.working_velocity")) :
    GroupConsistentC passUnitSpec FUEL passUnitWorlds ρ (fun _ => True) :=
  groupConsistentC_of pass_unit_worlds_conv (pass_unit_consistent ρ h)

/-- too little supplied — in whatever form —: AttributeError in bounded time, for all twelve specifications -/
theorem insufficient_is_attribute_error_bounded_in_whatever_form :
    InsufficientBoundedC radiusSpec FUEL radiusWorlds 150 25 ∧
    InsufficientBoundedC radiusSideSpec FUEL radiusWorlds 150 25 ∧
    InsufficientBoundedC velSpec FUEL velWorlds 150 25 ∧
    InsufficientBoundedC velNeutralSpec FUEL velNeutralWorlds 150 25 ∧
    InsufficientBoundedC neutralSpec FUEL neutralWorlds 150 25 ∧
    InsufficientBoundedC velWrSpec FUEL velWrWorlds 150 25 ∧
    InsufficientBoundedC neutralWrSpec FUEL neutralWrWorlds 150 25 ∧
    InsufficientBoundedC pipeSpec FUEL pipeWorlds 150 25 ∧
    InsufficientBoundedC targetSpec FUEL targetWorlds 150 25 ∧
    InsufficientBoundedC unitSpec FUEL unitWorlds 150 25 ∧
    InsufficientBoundedC passUnitNeutralSpec FUEL passUnitNeutralWorlds 150 25 ∧
    InsufficientBoundedC passUnitSpec FUEL passUnitWorlds 150 25 := by
  obtain ⟨h1, h2, h3, h4, h5, h6, h7, h8, h9, h10, h11, h12⟩ := insufficient_is_attribute_error_bounded
  exact ⟨insufficientBoundedC_of radius_worlds_conv h1, insufficientBoundedC_of radius_worlds_conv h2,
    insufficientBoundedC_of vel_worlds_conv h3, insufficientBoundedC_of vel_neutral_worlds_conv h4,
    insufficientBoundedC_of neutral_worlds_conv h5, insufficientBoundedC_of vel_wr_worlds_conv h6,
    insufficientBoundedC_of neutral_wr_worlds_conv h7, insufficientBoundedC_of pipe_worlds_conv h8,
    insufficientBoundedC_of target_worlds_conv h9, insufficientBoundedC_of unit_worlds_conv h10,
    insufficientBoundedC_of pass_unit_neutral_worlds_conv h11, insufficientBoundedC_of pass_unit_worlds_conv h12⟩

-- non-vacuity of the quantification over forms: a list of callables with 0 / 1 parameters
example : ∀ p ∈ [("nominal_radius", 1), ("surface_velocity", 0)], p.2 ≤ 1 := by decide
-- the enumerated check on the radius pair (every world × subset × subset of the explicit names given as callables ×
-- all-0 / all-1 / alternating parameter counts × every read order), evaluated by the kernel
set_option maxRecDepth 1000000 in
example : checkForms radiusMembers FUEL radiusWorlds = true := by decide +kernel

/-! ## objects built from a template -/

/-- `BaseRollPass.Roll.__init__` of the current source hands the public part of the template's `__dict__` — its explicit
values — to the constructor, and nothing else -/
theorem copy_PassRoll_takes_dict_only : copy_PassRoll = ["dict"] := by decide

/-- … and so does `Unit.Profile.__init__` (in / out profiles of a unit, built from the profile handed on) -/
theorem copy_UnitProfile_takes_dict_only : copy_UnitProfile = ["dict"] := by decide

/-- the roll of a pass built from a template `Roll` with ANY state `o` (numbers, `None`s, callables, …) after ANY history `ops`
of reads and edits on any world with any fuel: it is the object that carries what the template holds explicitly after its
edits (`editsOf ops`: the reads dropped) — empty `__cache__`, no marks; nothing the reads computed reaches it -/
theorem pass_roll_copy_after_history (tw : World) (fuel : Nat) (o : Obj) (ops : List Op) :
    copyObj copy_PassRoll (applyOps tw fuel o ops) = some (applyOps tw fuel o (editsOf ops)).explicitOnly := by
  rw [copy_PassRoll_takes_dict_only]
  exact copy_dict_after_history tw fuel o ops

theorem unit_profile_copy_after_history (tw : World) (fuel : Nat) (o : Obj) (ops : List Op) :
    copyObj copy_UnitProfile (applyOps tw fuel o ops) = some (applyOps tw fuel o (editsOf ops)).explicitOnly := by
  rw [copy_UnitProfile_takes_dict_only]
  exact copy_dict_after_history tw fuel o ops

/-- **copy-then-read = read on a fresh object given the template's explicit values**, for every template world `tw`, every
initially supplied set `s0`, every history `ops` (reads in any number and order — before, between and after the edits —,
new supplies, deletions), every copy world `cw`, every read order `ord`, every fuel -/
theorem pass_roll_copy_reads_as_fresh (tw cw : World) (fuel fuel' : Nat) (s0 : List String) (ops : List Op)
    (hn : ∀ op ∈ ops, isNoneOp op = false) (ord : List String) :
    ∃ c, copyObj copy_PassRoll (applyOps tw fuel (Obj.fresh s0) ops) = some c ∧
      readAll cw fuel' c ord = scenario cw fuel' (editSet s0 ops) ord := by
  rw [copy_PassRoll_takes_dict_only]
  exact copy_dict_reads_as_fresh tw cw fuel fuel' s0 ops hn ord

/-- hence every group theorem holds on the roll of a pass whatever happened to the template before: if the template ends
up holding explicitly the names `g.base ++ sup` of a world of the theorem, the reads on the pass roll are as the theorem
says — supplied members read back, derivable ones read THE consistent value, the others fail with AttributeError -/
theorem pass_roll_from_template_consistent {s : Spec} {fuel0 : Nat} {ws : List GW} {ρ : String → ℝ}
    {adm : List String → Prop} (h : GroupConsistent s fuel0 ws ρ adm)
    (g : GW) (hg : g ∈ ws) (sup : List String) (hs : sup ∈ sublists s.members) (ha : adm sup)
    (tw : World) (fuel : Nat) (s0 : List String) (ops : List Op) (hn : ∀ op ∈ ops, isNoneOp op = false)
    (he : editSet s0 ops = g.base ++ sup) (ord : List String) (ho : ord ∈ perms s.members) (fuel' : Nat)
    (hf : fuel0 ≤ fuel') :
    ∃ c, copyObj copy_PassRoll (applyOps tw fuel (Obj.fresh s0) ops) = some c ∧
      ∀ r ∈ (readAll g.world fuel' c ord).1,
        (r.name ∈ sup → r.res = .val (.var r.name)) ∧
        (derivable s g sup r.name = true → ∃ e, r.res = .val e ∧ Expr.eval ρ e = ρ r.name) ∧
        (derivable s g sup r.name = false → r.res = .err .attr) := by
  obtain ⟨c, hc, hr⟩ := pass_roll_copy_reads_as_fresh tw g.world fuel fuel' s0 ops hn ord
  refine ⟨c, hc, ?_⟩
  rw [hr, he]
  exact h g hg sup hs ha ord ho fuel' hf

/-- the template is a plain `Roll`: the hooks of the pass roll exist there, the implementations of `BaseRollPass.Roll` do not -/
def tmplRoll : World := mkW cls_Roll_impls cls_Roll_mro cls_PassRoll_hooks [gf]

-- non-vacuity of `pass_roll_from_template_consistent`: a `Roll` supplied with its radius, inspected (diameter read and
-- cached), re-supplied through the diameter instead — the template now holds exactly `nominal_diameter`
example : editSet ["nominal_radius"]
    [.read "nominal_diameter", .unsupply "nominal_radius", .supply "nominal_diameter", .read "nominal_radius"]
    = (passRoll [gf, xp] []).base ++ ["nominal_diameter"] := by decide
example : ∀ op ∈ [Op.read "nominal_diameter", .unsupply "nominal_radius", .supply "nominal_diameter", .read "nominal_radius"],
    isNoneOp op = false := by decide

/-- template `Roll` → roll of a pass, the radius pair -/
def radiusCopy : List CopyW := [⟨tmplRoll, [], (passRoll [gf, xp] []).world⟩]

-- the enumerated check on the radius pair, evaluated by the kernel: every initially supplied subset × every read history
-- (every subset read, all members in every order) × every finally supplied subset × reads after the edit × every order on
-- the copy gives the reads of the fresh object
set_option maxRecDepth 1000000 in
example : checkCopy copy_PassRoll radiusMembers FUEL radiusCopy = true := by decide +kernel
-- … which is FALSE of a copy site that takes over the template's `__cache__` as well (`template.__attrs__`)
set_option maxRecDepth 1000000 in
example : checkCopy ["dict", "cache"] radiusMembers FUEL radiusCopy = false := by decide +kernel
-- the witness: radius supplied, diameter read (cached as `2·radius`), radius re-supplied with a new value; the roll of the
-- pass then reads the NEW radius next to the diameter computed from the OLD one
set_option maxRecDepth 1000000 in
example : (copyObj ["dict", "cache"] (applyOps tmplRoll FUEL (Obj.fresh ["nominal_radius"])
      [.read "nominal_diameter", .supply "nominal_radius"])).map
      (fun c => (readAll (passRoll [gf, xp] []).world FUEL c ["nominal_radius", "nominal_diameter"]).1.map (·.res)) =
    some [.val (.var "nominal_radius"), .val (.mul (.var "nominal_radius@old") (.nat 2))] := by decide +kernel
-- with the source's copy site the same history gives the fresh roll
set_option maxRecDepth 1000000 in
example : (copyObj copy_PassRoll (applyOps tmplRoll FUEL (Obj.fresh ["nominal_radius"])
      [.read "nominal_diameter", .supply "nominal_radius"])).map
      (fun c => (readAll (passRoll [gf, xp] []).world FUEL c ["nominal_radius", "nominal_diameter"]).1.map (·.res)) =
    some [.val (.var "nominal_radius"), .val (.mul (.var "nominal_radius") (.nat 2))] := by decide +kernel

end C16
