import PyrollModel.Gen.C17Geo
import PyrollProofs.C17Chords
import PyrollProofs.Homog
import PyrollProps.C17

/-!
# C17 — the geometric part: chords (`local_height` / `local_width`) and the equivalent rectangle as a polygon

Everything is about the terms GENERATED from the current source by `driver/translate/c17_geo.py`
(`PyrollModel/Gen/C17Geo.lean`, rewritten on every run):

* `Profile.local_height` / `local_width` (pyroll/core/profile/profile.py) as `ChordMethod`s: the geometry term whose
  `.length` is returned, the hooks read, non-hook state read (`hiddenReads`), attributes written (`writes`);
* `shapes.rectangle` (corner formulas), pyroll's `width` / `height` of shapely geometries, and the arguments
  `Profile.equivalent_rectangle` passes to `rectangle`.

Meaning (`PyrollProofs/C17Chords.lean`): a geometry term denotes a subset of `ℝ × ℝ`, `.length` is the one-dimensional
Hausdorff measure, shapely's `buffer` is a parameter `GeoEnv.buf`, `bounds` / `area` of a polygon given by its corners are
the coordinate ranges / the shoelace sum.  Theorems:

* `chords_use_hooks_only`, `chords_reads_listed`, `local_height_frame`, `local_width_frame`: the value depends on the
  CURRENT values of the hooks `cross_section`, `width`, `height` and the query position only — nothing the object kept from
  earlier calls, nothing written (a memo on the instance, a cache decorator or a module-level table appears in
  `hiddenReads` / `writes` and breaks the first theorem);
* `local_height_value`, `local_height_is_chord`, `local_height_exact`, `local_height_le_height`,
  `local_height_zero_outside`, `local_height_integral` (and the same for `local_width`): the statement's clauses — chords
  of the cross-section (up to the tolerance growth), bounded by the overall extent, zero outside, integrating to the area;
* `chord_terms_are_lengths`: every coordinate and the tolerance carry the dimension of a length;
* `rectangle_width_height`, `rectangle_area`, `default_equivalent_rectangle`: the default equivalent rectangle POLYGON has
  the sides `equivalent_width`, `equivalent_height`, the profile's area and its width-to-height ratio;
  `coefficients_multiply_to_one_default`: hence draught · spread · elongation = 1 for passes whose profiles report the
  default rectangle.
-/

open MeasureTheory Set C17Geom Gen.C17Geo

namespace C17Geo

/-! ### the chord methods use the current values of hooks and nothing else -/

theorem chords_use_hooks_only :
    local_height.hiddenReads = [] ∧ local_height.writes = [] ∧ local_height.result.translated = true ∧
    local_width.hiddenReads = [] ∧ local_width.writes = [] ∧ local_width.result.translated = true := by
  decide

theorem chords_reads_listed :
    (∀ v ∈ local_height.result.numVars, v = local_height.param ∨ v ∈ local_height.reads) ∧
    (∀ p ∈ local_height.result.geoAttrs, p ∈ local_height.reads) ∧
    (∀ v ∈ local_width.result.numVars, v = local_width.param ∨ v ∈ local_width.reads) ∧
    (∀ p ∈ local_width.result.geoAttrs, p ∈ local_width.reads) := by
  decide

theorem local_height_frame {E E' : GeoEnv} (hb : E.buf = E'.buf) (hz : E.num local_height.param = E'.num local_height.param)
    (hr : ∀ r ∈ local_height.reads, E.num r = E'.num r ∧ E.geo r = E'.geo r) :
    local_height.value E = local_height.value E' := by
  refine ChordMethod.value_congr _ hb (fun v hv => ?_) (fun p hp => (hr p (chords_reads_listed.2.1 p hp)).2)
  rcases chords_reads_listed.1 v hv with h | h
  · rw [h]; exact hz
  · exact (hr v h).1

theorem local_width_frame {E E' : GeoEnv} (hb : E.buf = E'.buf) (hy : E.num local_width.param = E'.num local_width.param)
    (hr : ∀ r ∈ local_width.reads, E.num r = E'.num r ∧ E.geo r = E'.geo r) :
    local_width.value E = local_width.value E' := by
  refine ChordMethod.value_congr _ hb (fun v hv => ?_) (fun p hp => (hr p (chords_reads_listed.2.2.2 p hp)).2)
  rcases chords_reads_listed.2.2.1 v hv with h | h
  · rw [h]; exact hy
  · exact (hr v h).1

/-! ### what they compute -/

/-- the cross-section grown by the tolerance `1e-12 · (width + height)`, as the methods build it -/
noncomputable def grown (E : GeoEnv) : Region :=
  E.buf (E.geo "cross_section") ((1 : ℝ) / 10 ^ 12 * (E.num "width" + E.num "height"))

theorem local_height_value (E : GeoEnv) (hH : 0 ≤ E.num "height") :
    local_height.value E
      = volume {y | y ∈ Icc (-(E.num "height")) (E.num "height") ∧ (E.num "z", y) ∈ grown E} := by
  simp only [ChordMethod.value, Geo.length, local_height, Geo.sem, Expr.eval, PyNum.nat_real, PyNum.dec_real,
    Nat.cast_one, one_mul, neg_mul]
  rw [length_vertical_inter _ _ _ (by linarith)]
  rfl

theorem local_width_value (E : GeoEnv) (hW : 0 ≤ E.num "width") :
    local_width.value E
      = volume {z | z ∈ Icc (-(E.num "width")) (E.num "width") ∧ (z, E.num "y") ∈ grown E} := by
  simp only [ChordMethod.value, Geo.length, local_width, Geo.sem, Expr.eval, PyNum.nat_real, PyNum.dec_real,
    Nat.cast_one, one_mul, neg_mul]
  rw [length_horizontal_inter _ _ _ (by linarith)]
  rfl


/-- local heights are chords of the cross-section: between the chord of the cross-section itself (which lies within
    `|y| ≤ height`, the reach of the probing line) and the chord of anything containing the grown cross-section -/
theorem local_height_is_chord (E : GeoEnv) (hH : 0 ≤ E.num "height")
    (hfit : ∀ p ∈ E.geo "cross_section", |p.2| ≤ E.num "height") (hgrow : E.geo "cross_section" ⊆ grown E)
    {T : Region} (hT : grown E ⊆ T) :
    chordV (E.geo "cross_section") (E.num "z") ≤ local_height.value E ∧
    local_height.value E ≤ chordV T (E.num "z") := by
  rw [local_height_value E hH]
  refine ⟨measure_mono fun y hy => ⟨?_, hgrow hy⟩, measure_mono fun y hy => hT hy.2⟩
  have := hfit _ hy
  exact ⟨by linarith [neg_abs_le y, abs_le.1 this], (abs_le.1 this).2⟩

theorem local_width_is_chord (E : GeoEnv) (hW : 0 ≤ E.num "width")
    (hfit : ∀ p ∈ E.geo "cross_section", |p.1| ≤ E.num "width") (hgrow : E.geo "cross_section" ⊆ grown E)
    {T : Region} (hT : grown E ⊆ T) :
    chordH (E.geo "cross_section") (E.num "y") ≤ local_width.value E ∧
    local_width.value E ≤ chordH T (E.num "y") := by
  rw [local_width_value E hW]
  refine ⟨measure_mono fun z hz => ⟨?_, hgrow hz⟩, measure_mono fun z hz => hT hz.2⟩
  have := hfit _ hz
  exact ⟨(abs_le.1 this).1, (abs_le.1 this).2⟩

/-- … exactly the chord where growing by the tolerance adds nothing (the idealisation tolerance → 0) -/
theorem local_height_exact (E : GeoEnv) (hH : 0 ≤ E.num "height")
    (hfit : ∀ p ∈ E.geo "cross_section", |p.2| ≤ E.num "height") (hid : grown E = E.geo "cross_section") :
    local_height.value E = chordV (E.geo "cross_section") (E.num "z") := by
  have h := local_height_is_chord E hH hfit (by rw [hid]) (T := E.geo "cross_section") (by rw [hid])
  exact le_antisymm h.2 h.1

theorem local_width_exact (E : GeoEnv) (hW : 0 ≤ E.num "width")
    (hfit : ∀ p ∈ E.geo "cross_section", |p.1| ≤ E.num "width") (hid : grown E = E.geo "cross_section") :
    local_width.value E = chordH (E.geo "cross_section") (E.num "y") := by
  have h := local_width_is_chord E hW hfit (by rw [hid]) (T := E.geo "cross_section") (by rw [hid])
  exact le_antisymm h.2 h.1

/-- bounded by the overall height / width (of the grown cross-section: `b - a` exceeds the height by twice the tolerance) -/
theorem local_height_le_height (E : GeoEnv) (hH : 0 ≤ E.num "height") {a b : ℝ}
    (hB : ∀ p ∈ grown E, a ≤ p.2 ∧ p.2 ≤ b) : local_height.value E ≤ ENNReal.ofReal (b - a) := by
  rw [local_height_value E hH]
  exact le_trans (measure_mono fun y hy => hy.2) (chordV_le_extent hB (E.num "z"))

theorem local_width_le_width (E : GeoEnv) (hW : 0 ≤ E.num "width") {a b : ℝ}
    (hB : ∀ p ∈ grown E, a ≤ p.1 ∧ p.1 ≤ b) : local_width.value E ≤ ENNReal.ofReal (b - a) := by
  rw [local_width_value E hW]
  exact le_trans (measure_mono fun z hz => hz.2) (chordH_le_extent hB (E.num "y"))

/-- zero outside the (grown) cross-section -/
theorem local_height_zero_outside (E : GeoEnv) (hH : 0 ≤ E.num "height") {a b : ℝ}
    (hB : ∀ p ∈ grown E, a ≤ p.1 ∧ p.1 ≤ b) (hz : E.num "z" < a ∨ b < E.num "z") : local_height.value E = 0 := by
  rw [local_height_value E hH]
  exact le_antisymm (le_trans (measure_mono fun y hy => hy.2) (le_of_eq (chordV_zero_outside hB hz))) zero_le

theorem local_width_zero_outside (E : GeoEnv) (hW : 0 ≤ E.num "width") {a b : ℝ}
    (hB : ∀ p ∈ grown E, a ≤ p.2 ∧ p.2 ≤ b) (hy : E.num "y" < a ∨ b < E.num "y") : local_width.value E = 0 := by
  rw [local_width_value E hW]
  exact le_antisymm (le_trans (measure_mono fun z hz => hz.2) (le_of_eq (chordH_zero_outside hB hy))) zero_le

/-- the same object queried at another position -/
def _root_.C17Geom.GeoEnv.withNum (E : GeoEnv) (param : String) (x : ℝ) : GeoEnv :=
  { E with num := fun n => if n = param then x else E.num n }

/-- the local heights integrate to the area: between the area of the cross-section and that of the grown one -/
theorem local_height_integral (E : GeoEnv) (hH : 0 ≤ E.num "height")
    (hfit : ∀ p ∈ E.geo "cross_section", |p.2| ≤ E.num "height") (hgrow : E.geo "cross_section" ⊆ grown E)
    (hS : MeasurableSet (E.geo "cross_section")) (hG : MeasurableSet (grown E)) :
    volume (E.geo "cross_section") ≤ ∫⁻ z, local_height.value (E.withNum "z" z) ∧
    ∫⁻ z, local_height.value (E.withNum "z" z) ≤ volume (grown E) := by
  have key : ∀ z, chordV (E.geo "cross_section") z ≤ local_height.value (E.withNum "z" z) ∧
      local_height.value (E.withNum "z" z) ≤ chordV (grown E) z := by
    intro z
    have h := local_height_is_chord (E.withNum "z" z) (by simpa [GeoEnv.withNum] using hH)
      (by simpa [GeoEnv.withNum] using hfit) (by simpa [GeoEnv.withNum, grown] using hgrow) (T := grown E)
      (by simp [GeoEnv.withNum, grown])
    simpa [GeoEnv.withNum] using h
  constructor
  · rw [← chordV_integral hS]; exact lintegral_mono fun z => (key z).1
  · rw [← chordV_integral hG]; exact lintegral_mono fun z => (key z).2

theorem local_width_integral (E : GeoEnv) (hW : 0 ≤ E.num "width")
    (hfit : ∀ p ∈ E.geo "cross_section", |p.1| ≤ E.num "width") (hgrow : E.geo "cross_section" ⊆ grown E)
    (hS : MeasurableSet (E.geo "cross_section")) (hG : MeasurableSet (grown E)) :
    volume (E.geo "cross_section") ≤ ∫⁻ y, local_width.value (E.withNum "y" y) ∧
    ∫⁻ y, local_width.value (E.withNum "y" y) ≤ volume (grown E) := by
  have key : ∀ y, chordH (E.geo "cross_section") y ≤ local_width.value (E.withNum "y" y) ∧
      local_width.value (E.withNum "y" y) ≤ chordH (grown E) y := by
    intro y
    have h := local_width_is_chord (E.withNum "y" y) (by simpa [GeoEnv.withNum] using hW)
      (by simpa [GeoEnv.withNum] using hfit) (by simpa [GeoEnv.withNum, grown] using hgrow) (T := grown E)
      (by simp [GeoEnv.withNum, grown])
    simpa [GeoEnv.withNum] using h
  constructor
  · rw [← chordH_integral hS]; exact lintegral_mono fun y => (key y).1
  · rw [← chordH_integral hG]; exact lintegral_mono fun y => (key y).2

/-- every coordinate and the tolerance scale with the unit of length (nothing absolute in the chord methods) -/
def Γlen : String → Option Int := dimOf [("z", 1), ("y", 1), ("width", 1), ("height", 1)]

theorem chord_terms_are_lengths :
    (∀ e ∈ local_height.result.numTerms, Expr.dim Γlen e = .is 1) ∧
    (∀ e ∈ local_width.result.numTerms, Expr.dim Γlen e = .is 1) := by
  decide +kernel


/-! ### the equivalent rectangle as a polygon -/

open Gen.C17 in
/-- corners of `shapes.rectangle(w, h)` -/
noncomputable def rectPts (w h : ℝ) : List (ℝ × ℝ) := evalCorners (rectEnv w h) rectangle_corners

/-- `rectangle(w, h).width = w` and `.height = h` (pyroll's extent properties on the bounds of the corners) -/
theorem rectangle_width_height (w h : ℝ) (hw : 0 ≤ w) (hh : 0 ≤ h) :
    shape_width_e.eval (boundsEnv (rectPts w h)) = w ∧ shape_height_e.eval (boundsEnv (rectPts w h)) = h := by
  simp only [rectPts, evalCorners, rectangle_corners, rectEnv, shape_width_e, shape_height_e, boundsEnv, bounds, range1,
    pmin, pmax, PyNum.le, Expr.eval, List.map, List.foldl, PyNum.nat_real, PyNum.dec_real, String.reduceEq, reduceIte,
    decide_eq_true_eq]
  constructor <;> split_ifs <;> norm_num at * <;> linarith


/-- … and its area is `w · h` (shoelace sum over the corners, counter-clockwise) -/
theorem rectangle_area (w h : ℝ) : shoelaceArea (rectPts w h) = w * h := by
  simp only [rectPts, evalCorners, rectangle_corners, rectEnv, shoelaceArea, shoelace2From, Expr.eval, List.map,
    PyNum.nat_real, PyNum.dec_real, String.reduceEq, reduceIte]
  norm_num
  ring

open Gen.C17 Expr in
/-- The default `equivalent_rectangle` of a profile — `rectangle(equivalent_width, equivalent_height)` with the two hooks
    at their default formulas — is a polygon with the profile's area and its width-to-height ratio, whose sides are the
    equivalent width and height. -/
theorem default_equivalent_rectangle (ρ : String → ℝ)
    (hA : 0 < ρ "cross_section.area") (hw : 0 < ρ "width") (hh : 0 < ρ "height")
    (hew : ρ "equivalent_width" = eval ρ equivalent_width_e) (heh : ρ "equivalent_height" = eval ρ equivalent_height_e) :
    let pts := rectPts (eval ρ equivalent_rectangle_args.1) (eval ρ equivalent_rectangle_args.2)
    shape_width_e.eval (boundsEnv pts) = eval ρ equivalent_width_e ∧
    shape_height_e.eval (boundsEnv pts) = eval ρ equivalent_height_e ∧
    shoelaceArea pts = ρ "cross_section.area" ∧
    shape_width_e.eval (boundsEnv pts) / shape_height_e.eval (boundsEnv pts) = ρ "width" / ρ "height" := by
  have hW : 0 ≤ eval ρ equivalent_width_e := by
    simp only [equivalent_width_e, eval, PyNum.sqrt_real]; exact Real.sqrt_nonneg _
  have hH : 0 ≤ eval ρ equivalent_height_e := by
    simp only [equivalent_height_e, eval, PyNum.sqrt_real]; exact Real.sqrt_nonneg _
  have e1 : eval ρ equivalent_rectangle_args.1 = eval ρ equivalent_width_e := by
    simp only [equivalent_rectangle_args, eval]; exact hew
  have e2 : eval ρ equivalent_rectangle_args.2 = eval ρ equivalent_height_e := by
    simp only [equivalent_rectangle_args, eval]; exact heh
  intro pts
  have hwh := rectangle_width_height _ _ (e1 ▸ hW) (e2 ▸ hH)
  refine ⟨?_, ?_, ?_, ?_⟩
  · rw [hwh.1, e1]
  · rw [hwh.2, e2]
  · rw [rectangle_area, e1, e2]; exact C17.eq_rect_area ρ hA.le hw hh
  · rw [hwh.1, hwh.2, e1, e2]; exact C17.eq_rect_ratio ρ hA hw hh

open Gen.C17 Expr in
/-- what a pass (environment `ρ`) sees of one of its profiles (environment `ρp`) when the profile reports the DEFAULT
    equivalent rectangle: area, and the extents of the rectangle polygon -/
structure SeesDefaultRectangle (ρ ρp : String → ℝ) (area rectHeight rectWidth : String) : Prop where
  area : ρ area = ρp "cross_section.area"
  rw : ρ rectWidth = shape_width_e.eval
    (boundsEnv (rectPts (eval ρp equivalent_rectangle_args.1) (eval ρp equivalent_rectangle_args.2)))
  rh : ρ rectHeight = shape_height_e.eval
    (boundsEnv (rectPts (eval ρp equivalent_rectangle_args.1) (eval ρp equivalent_rectangle_args.2)))
  ew : ρp "equivalent_width" = eval ρp equivalent_width_e
  eh : ρp "equivalent_height" = eval ρp equivalent_height_e
  posA : 0 < ρp "cross_section.area"
  posw : 0 < ρp "width"
  posh : 0 < ρp "height"

open Gen.C17 Expr in
/-- With the default rectangles on both profiles, draught · spread · elongation = 1 without further hypotheses (the
    premises `hin`, `hout` of `C17.coefficients_multiply_to_one` are discharged by the rectangle model); a rectangle
    supplied by somebody else need not carry the area, then only the mutual consistency theorems of PyrollProps/C17.lean
    (`rel_draught_consistent`, …, stated for ARBITRARY rectangle extents) remain. -/
theorem coefficients_multiply_to_one_default (ρ ρi ρo : String → ℝ)
    (hi : SeesDefaultRectangle ρ ρi "in_profile.cross_section.area" "in_profile.equivalent_rectangle.height"
      "in_profile.equivalent_rectangle.width")
    (ho : SeesDefaultRectangle ρ ρo "out_profile.cross_section.area" "out_profile.equivalent_rectangle.height"
      "out_profile.equivalent_rectangle.width") :
    eval ρ draught_e * eval ρ spread_e * eval ρ elongation_e = 1 := by
  have di := default_equivalent_rectangle ρi hi.posA hi.posw hi.posh hi.ew hi.eh
  have dout := default_equivalent_rectangle ρo ho.posA ho.posw ho.posh ho.ew ho.eh
  simp only at di dout
  have hiA : ρ "in_profile.equivalent_rectangle.height" * ρ "in_profile.equivalent_rectangle.width"
      = ρ "in_profile.cross_section.area" := by
    rw [hi.rh, hi.rw, hi.area, di.1, di.2.1, mul_comm]; exact C17.eq_rect_area ρi hi.posA.le hi.posw hi.posh
  have hoA : ρ "out_profile.equivalent_rectangle.height" * ρ "out_profile.equivalent_rectangle.width"
      = ρ "out_profile.cross_section.area" := by
    rw [ho.rh, ho.rw, ho.area, dout.1, dout.2.1, mul_comm]; exact C17.eq_rect_area ρo ho.posA.le ho.posw ho.posh
  have hiApos : 0 < ρ "in_profile.cross_section.area" := hi.area ▸ hi.posA
  have hoApos : 0 < ρ "out_profile.cross_section.area" := ho.area ▸ ho.posA
  have h12 : ρ "in_profile.equivalent_rectangle.height" * ρ "in_profile.equivalent_rectangle.width" ≠ 0 := by
    rw [hiA]; exact hiApos.ne'
  exact C17.coefficients_multiply_to_one ρ hiA hoA (left_ne_zero_of_mul h12) (right_ne_zero_of_mul h12) hoApos.ne'


/-! ### non-vacuity -/

/-- a 2 × 2 square centred on the origin, zero tolerance growth, probed at `x` -/
noncomputable def squareEnv (x : ℝ) : GeoEnv :=
  { num := fun n => if n = "z" then x else if n = "y" then x else 2
    geo := fun _ => Icc (-1) 1 ×ˢ Icc (-1) 1
    buf := fun S _ => S }

/-- the hypotheses of `local_height_exact` / `local_height_is_chord` are satisfiable and the value is the expected one -/
example : local_height.value (squareEnv 0) = 2 := by
  rw [local_height_exact (squareEnv 0) (by simp [squareEnv])
    (by intro p hp; simp only [squareEnv, mem_prod, mem_Icc, String.reduceEq, reduceIte] at hp ⊢; exact abs_le.2 ⟨by linarith [hp.2.1], by linarith [hp.2.2]⟩)
    rfl]
  have : {y : ℝ | ((squareEnv 0).num "z", y) ∈ (squareEnv 0).geo "cross_section"} = Icc (-1) 1 := by
    ext y; simp [squareEnv]
  simp only [chordV, this, Real.volume_Icc]
  norm_num

example : local_height.value (squareEnv 3) = 0 :=
  local_height_zero_outside (squareEnv 3) (by simp [squareEnv]) (a := -1) (b := 1)
    (by intro p hp; simp only [grown, squareEnv, mem_prod, mem_Icc] at hp; exact hp.1) (Or.inr (by simp [squareEnv]))

example : MeasurableSet ((squareEnv 0).geo "cross_section") := measurableSet_Icc.prod measurableSet_Icc

/-- a method that keeps a region from an earlier call on the instance is rejected by `chords_use_hooks_only` -/
example : ({ local_height with hiddenReads := ["_chord_region"] } : ChordMethod).hiddenReads ≠ [] := by decide

/-- the hypotheses of `default_equivalent_rectangle` and `SeesDefaultRectangle` are satisfiable -/
example : SeesDefaultRectangle (fun _ => 1) (fun _ => 1) "in_profile.cross_section.area"
    "in_profile.equivalent_rectangle.height" "in_profile.equivalent_rectangle.width" := by
  have h1 : Expr.eval (fun _ => (1 : ℝ)) Gen.C17.equivalent_width_e = 1 := by
    simp [Gen.C17.equivalent_width_e, Expr.eval]
  have h2 : Expr.eval (fun _ => (1 : ℝ)) Gen.C17.equivalent_height_e = 1 := by
    simp [Gen.C17.equivalent_height_e, Expr.eval]
  have hwh := rectangle_width_height 1 1 zero_le_one zero_le_one
  refine ⟨rfl, ?_, ?_, h1.symm, h2.symm, one_pos, one_pos, one_pos⟩
  · simp only [equivalent_rectangle_args, Expr.eval]; exact hwh.1.symm
  · simp only [equivalent_rectangle_args, Expr.eval]; exact hwh.2.symm

end C17Geo
