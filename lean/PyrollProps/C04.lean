import PyrollModel.Gen.C04
import PyrollModel.Gen.C04Groove
import PyrollModel.Gen.C04Valid
import PyrollProofs.GrooveC04

/-!
# C04 — groove parameters resolve consistently whichever defining subset is given

Everything below is about terms GENERATED from the current `/repo` source on every run of `./check C04`
(`driver/props/c04.py::translate`):

* `PyrollModel/Gen/C04.lean` — `solve_box_like`, `solve_r124`, `solve_r123`, `solve_r1234` symbolically executed once per
  admissible None-pattern (closed forms returned, inlined residuals handed to scipy's root finders), the keyword arguments
  every solver-backed constructor hands to `GenericElongationGroove.__init__` (`plumb_*`) and to its solver (`plumb_*_call`);
* `PyrollModel/Gen/C04Groove.lean` — the junction chain `z0 … y12`, `alpha1/2`, `beta`, `gamma`, the fourth-of-four resolution
  and the contour-line functions of `GenericElongationGroove`;
* `PyrollModel/Gen/C04Valid.lean` — `GenericElongationGroove.test_plausibility`, the test with which the generic constructor
  hands out or refuses the parameters it has just resolved: one (op, left, right) per `if left op right: raise`.

A change of a formula in the anchored files changes the generated term; the theorem that no longer follows stops building
(tie T).  Every generated definition is also run over `Float` against the real code (tie K, `driver/props/c04.py`).

Conventions.  `ρ` is the argument environment of a *solver* (`r1`, `r2`, `depth`, `width`, `pad_angle` in radians, …; the
value a root finder returned is the variable `root` / `root<i>` / `fp`, its contract "returns a root of the residual it was given"
is the hypothesis `hres…`/`hfp`).  `σ` is the argument environment of `GenericElongationGroove.__init__` *after* the
fourth-of-four resolution.  The `Link…` structures say which solver result a constructor passes under which keyword; that they
describe the real constructors is the kernel-checked `plumbing_*` theorems at the end (the generated keyword lists are
compared with the shape the `Link` assumes).

Numeric root finding is an external oracle: closure theorems are conditional on its contract; uniqueness of the root is
proved where stated (`box_like_root_unique`) and is otherwise established numerically per case by the harness.
-/

open Gen.C04 Gen.C04.Groove Gen.C04.Valid GrooveC04
set_option linter.unusedSimpArgs false
set_option linter.unusedVariables false
set_option linter.unusedTactic false
set_option linter.unreachableTactic false
set_option linter.unnecessarySeqFocus false

namespace C04

/-- environment update (binds the unknown of a residual) -/
def upd (ρ : String → ℝ) (k : String) (v : ℝ) : String → ℝ := fun n => if n = k then v else ρ n

local macro "norm_env" : tactic => `(tactic| simp only [Expr.eval, upd, PyNum.nat_real, PyNum.sin_real, PyNum.cos_real,
  PyNum.tan_real, PyNum.acos_real, PyNum.atan_real, PyNum.pi_real, String.reduceEq, reduceIte, if_true, Nat.cast_one,
  Nat.cast_ofNat, Nat.cast_zero] at *)

/-- side conditions on a flank angle `α` and the pad angle `p`: `0 < α < π/2` gives the first two,
    `|α + p| < π` the third -/
structure AngleOK (α p : ℝ) : Prop where
  s : Real.sin α ≠ 0
  c : Real.cos α ≠ 0
  h : Real.cos ((α + p) / 2) ≠ 0

theorem AngleOK.of_range {α p : ℝ} (h0 : 0 < α) (h1 : α < Real.pi / 2) (hp0 : 0 ≤ p) (hp1 : p < Real.pi / 2) :
    AngleOK α p := by
  have hpi := Real.pi_pos
  refine ⟨(Real.sin_pos_of_pos_of_lt_pi h0 (by linarith)).ne', (Real.cos_pos_of_mem_Ioo ⟨by linarith, h1⟩).ne', ?_⟩
  exact (Real.cos_pos_of_mem_Ioo ⟨by linarith, by linarith⟩).ne'

/-- the constriction angle is well defined: `cos α4 = 1 − indent/(r2+r4)` has a solution -/
structure IndentOK (r2 r4 indent : ℝ) : Prop where
  ne : r2 + r4 ≠ 0
  lo : -1 ≤ 1 - indent / (r2 + r4)
  hi : 1 - indent / (r2 + r4) ≤ 1

theorem IndentOK.plain {r2 : ℝ} (h : r2 ≠ 0) : IndentOK r2 0 0 := by
  refine ⟨by simpa using h, ?_, ?_⟩ <;> norm_num

section chain
variable (σ : String → ℝ)

/-- side conditions for the chain of `σ` -/
abbrev ChainOK (σ : String → ℝ) : Prop := AngleOK (σ "flank_angle") (σ "pad_angle")

/-! ### the chain itself: joints -/

/-- the extrapolated flank meets the face `y = 0` exactly at `usable_width/2`, for every pad angle -/
theorem flank_meets_face (A : ChainOK σ) (hz : σ "z" = σ "usable_width" / 2) :
    Expr.eval σ fn_flank_contour_line = 0 := by
  have hc := A.c
  rw [eval_flank, eval_y3 σ A.h, eval_z3 σ A.h, hz, Real.tan_eq_sin_div_cos]
  field_simp; ring

/-- Tangential joints: at every junction the radius vectors of the two adjoining pieces lie on one line
    (arc/arc: both centres on the common normal; arc/line: the radius is normal to the line). -/
theorem joints_tangent (A : ChainOK σ) :
    -- 7: ground (horizontal through the centre point 9) / r4: centre straight above junction 7
    (Expr.eval σ y7 = Expr.eval σ y9 ∧ Expr.eval σ z8 = Expr.eval σ z7 ∧ Expr.eval σ y8 - Expr.eval σ y7 = σ "r4") ∧
    -- 6: r4 / r3 share the normal (sin α4, −cos α4)
    (Expr.eval σ z6 - Expr.eval σ z8 = σ "r4" * Real.sin (σ "alpha4") ∧
     Expr.eval σ y6 - Expr.eval σ y8 = -(σ "r4" * Real.cos (σ "alpha4")) ∧
     Expr.eval σ z10 - Expr.eval σ z6 = σ "r3" * Real.sin (σ "alpha4") ∧
     Expr.eval σ y10 - Expr.eval σ y6 = -(σ "r3" * Real.cos (σ "alpha4"))) ∧
    -- 5: r3 / r2 share the normal (sin(α3−α4), cos(α3−α4))
    (Expr.eval σ z5 - Expr.eval σ z10 = σ "r3" * Real.sin (σ "alpha3" - σ "alpha4") ∧
     Expr.eval σ y5 - Expr.eval σ y10 = σ "r3" * Real.cos (σ "alpha3" - σ "alpha4") ∧
     Expr.eval σ z5 - Expr.eval σ z11 = σ "r2" * Real.sin (σ "alpha3" - σ "alpha4") ∧
     Expr.eval σ y5 - Expr.eval σ y11 = σ "r2" * Real.cos (σ "alpha3" - σ "alpha4")) ∧
    -- 4 and 3: the radii of r2 and r1 are normal to the flank direction (cos fa, −sin fa)
    (Expr.eval σ z4 - Expr.eval σ z11 = σ "r2" * Real.sin (σ "flank_angle") ∧
     Expr.eval σ y4 - Expr.eval σ y11 = σ "r2" * Real.cos (σ "flank_angle") ∧
     Expr.eval σ z3 - Expr.eval σ z12 = -(σ "r1" * Real.sin (σ "flank_angle")) ∧
     Expr.eval σ y3 - Expr.eval σ y12 = -(σ "r1" * Real.cos (σ "flank_angle"))) ∧
    -- 1: the radius of r1 is normal to the face direction (cos p, sin p); the face passes through junction 2
    (Expr.eval σ z1 - Expr.eval σ z12 = σ "r1" * Real.sin (σ "pad_angle") ∧
     Expr.eval σ y1 - Expr.eval σ y12 = -(σ "r1" * Real.cos (σ "pad_angle")) ∧
     Expr.eval σ z1 - Expr.eval σ z2 = lt σ * Real.cos (σ "pad_angle") ∧
     Expr.eval σ y1 - Expr.eval σ y2 = lt σ * Real.sin (σ "pad_angle") ∧
     Expr.eval σ z2 = σ "usable_width" / 2 ∧ Expr.eval σ y2 = 0) := by
  refine ⟨⟨?_, ?_, ?_⟩, ⟨?_, ?_, ?_, ?_⟩, ⟨?_, ?_, ?_, ?_⟩, ⟨?_, ?_, ?_, ?_⟩, ⟨?_, ?_, ?_, ?_, ?_, ?_⟩⟩
  · rw [eval_y7, eval_y9]
  · rw [eval_z8, eval_z7]
  · rw [eval_y8, eval_y7]; ring
  · rw [eval_z6, eval_z8]; ring
  · rw [eval_y6, eval_y8]; ring
  · rw [eval_z10]; ring
  · rw [eval_y10]; ring
  · rw [eval_z5]; ring
  · rw [eval_y5]; ring
  · rw [eval_z5, eval_z11]; ring
  · rw [eval_y5, eval_y11]; ring
  · rw [eval_z4]; ring
  · rw [eval_y4]; ring
  · simp only [z3, Expr.eval, PyNum.sin_real]; ring
  · simp only [y3, Expr.eval, PyNum.cos_real]; ring
  · rw [eval_z12, eval_z1]; ring
  · rw [eval_y12, eval_y1]; ring
  · rw [eval_z1, eval_z2]; ring
  · rw [eval_y1, eval_y2]; ring
  · exact eval_z2 σ
  · exact eval_y2 σ

/-- … hence both end points of every arc are at distance `r` from its centre (no gaps) -/
theorem joints_on_circles (A : ChainOK σ) :
    (Expr.eval σ z7 - Expr.eval σ z8) ^ 2 + (Expr.eval σ y7 - Expr.eval σ y8) ^ 2 = σ "r4" ^ 2 ∧
    (Expr.eval σ z6 - Expr.eval σ z8) ^ 2 + (Expr.eval σ y6 - Expr.eval σ y8) ^ 2 = σ "r4" ^ 2 ∧
    (Expr.eval σ z6 - Expr.eval σ z10) ^ 2 + (Expr.eval σ y6 - Expr.eval σ y10) ^ 2 = σ "r3" ^ 2 ∧
    (Expr.eval σ z5 - Expr.eval σ z10) ^ 2 + (Expr.eval σ y5 - Expr.eval σ y10) ^ 2 = σ "r3" ^ 2 ∧
    (Expr.eval σ z5 - Expr.eval σ z11) ^ 2 + (Expr.eval σ y5 - Expr.eval σ y11) ^ 2 = σ "r2" ^ 2 ∧
    (Expr.eval σ z4 - Expr.eval σ z11) ^ 2 + (Expr.eval σ y4 - Expr.eval σ y11) ^ 2 = σ "r2" ^ 2 ∧
    (Expr.eval σ z3 - Expr.eval σ z12) ^ 2 + (Expr.eval σ y3 - Expr.eval σ y12) ^ 2 = σ "r1" ^ 2 ∧
    (Expr.eval σ z1 - Expr.eval σ z12) ^ 2 + (Expr.eval σ y1 - Expr.eval σ y12) ^ 2 = σ "r1" ^ 2 := by
  obtain ⟨⟨a1, a2, a3⟩, ⟨b1, b2, b3, b4⟩, ⟨c1, c2, c3, c4⟩, ⟨d1, d2, d3, d4⟩, ⟨e1, e2, -, -, -, -⟩⟩ := joints_tangent σ A
  refine ⟨?_, ?_, ?_, ?_, ?_, ?_, ?_, ?_⟩
  · rw [a2, show Expr.eval σ y7 - Expr.eval σ y8 = -(σ "r4") by linarith]; ring
  · rw [b1, b2]; linear_combination (σ "r4" ^ 2) * Real.sin_sq_add_cos_sq (σ "alpha4")
  · rw [show Expr.eval σ z6 - Expr.eval σ z10 = -(σ "r3" * Real.sin (σ "alpha4")) by linarith,
        show Expr.eval σ y6 - Expr.eval σ y10 = σ "r3" * Real.cos (σ "alpha4") by linarith]
    linear_combination (σ "r3" ^ 2) * Real.sin_sq_add_cos_sq (σ "alpha4")
  · rw [c1, c2]; linear_combination (σ "r3" ^ 2) * Real.sin_sq_add_cos_sq (σ "alpha3" - σ "alpha4")
  · rw [c3, c4]; linear_combination (σ "r2" ^ 2) * Real.sin_sq_add_cos_sq (σ "alpha3" - σ "alpha4")
  · rw [d1, d2]; linear_combination (σ "r2" ^ 2) * Real.sin_sq_add_cos_sq (σ "flank_angle")
  · rw [d3, d4]; linear_combination (σ "r1" ^ 2) * Real.sin_sq_add_cos_sq (σ "flank_angle")
  · rw [e1, e2]; linear_combination (σ "r1" ^ 2) * Real.sin_sq_add_cos_sq (σ "pad_angle")

/-! ### closure -/

/-- no step at junction 4: the end of the r2 arc lies on the flank line through junction 3 -/
def NoStep (σ : String → ℝ) : Prop :=
  Expr.eval σ y4 - Expr.eval σ y3 = (Expr.eval σ z3 - Expr.eval σ z4) * Real.tan (σ "flank_angle")

/-- re-traced from the centre, the contour (prolonged along the flank direction from junction 4) reaches the face
    `y = 0` exactly at `usable_width/2` -/
def ReachesFace (σ : String → ℝ) : Prop :=
  Expr.eval σ z4 + Expr.eval σ y4 / Real.tan (σ "flank_angle") = σ "usable_width" / 2

theorem noStep_iff_reachesFace (A : ChainOK σ) : NoStep σ ↔ ReachesFace σ := by
  have hs := A.s; have hc := A.c
  simp only [NoStep, ReachesFace]
  rw [eval_z3 σ A.h, eval_y3 σ A.h, Real.tan_eq_sin_div_cos]
  constructor
  · intro h; field_simp; field_simp at h; linear_combination h
  · intro h; field_simp; field_simp at h; linear_combination h

/-- `NoStep` in terms of the code's own flank function: `_flank_contour_line(z4) = y4` -/
theorem noStep_iff_flank (hz : σ "z" = Expr.eval σ z4) :
    NoStep σ ↔ Expr.eval σ fn_flank_contour_line = Expr.eval σ y4 := by
  simp only [NoStep]; rw [eval_flank, hz]
  constructor <;> intro h <;> linear_combination (-1 : ℝ) * h

/-- a flank of the requested width/height that is consistent with the flank angle joins without a step -/
theorem noStep_of_dims (fw fh : ℝ) (h1 : Expr.eval σ z3 - Expr.eval σ z4 = fw)
    (h2 : Expr.eval σ y4 - Expr.eval σ y3 = fh) (h : fh = fw * Real.tan (σ "flank_angle")) : NoStep σ := by
  simp only [NoStep]; rw [h1, h2, h]

end chain

/-! ## the generic constructor's own test of the resolved parameters (`test_plausibility`)

A solver-backed constructor resolves the derived parameters and hands them to `GenericElongationGroove.__init__`, which
computes the chain and then either returns the groove or refuses it.  `Gen.C04.Valid.plausibility` is that test as it stands
in the source.  Proved here: a resolution that closes (`NoStep`) is never refused by it, so that - together with the closure
theorems below - a feasible input for which the root finder returns a root is resolved and handed out; and the step test
is two-sided, so that a resolution that does NOT close (in either direction) is refused rather than handed out. -/
section validator
variable (σ : String → ℝ)

/-- the rejection test `if left op right: raise` (an entry of the generated list) holds in `σ` -/
def Fires (σ : String → ℝ) (c : String × Expr × Expr) : Prop :=
  if c.1 = "gt" then Expr.eval σ c.2.1 > Expr.eval σ c.2.2
  else if c.1 = "ge" then Expr.eval σ c.2.1 ≥ Expr.eval σ c.2.2
  else if c.1 = "lt" then Expr.eval σ c.2.1 < Expr.eval σ c.2.2
  else Expr.eval σ c.2.1 ≤ Expr.eval σ c.2.2

/-- signed step at junction 4: the end of the r2 arc above (+) / below (−) the flank line through junction 3 -/
noncomputable def stepAt4 (σ : String → ℝ) : ℝ :=
  Expr.eval σ y4 - (Expr.eval σ y3 - Real.tan (σ "flank_angle") * (Expr.eval σ z4 - Expr.eval σ z3))

theorem noStep_iff_step_zero : NoStep σ ↔ stepAt4 σ = 0 := by
  simp only [NoStep, stepAt4]
  constructor <;> intro h <;> linear_combination h

/-- a resolution whose chain closes is not refused: none of the tests of `test_plausibility` holds
    (`alpha2` is *defined* by the chain as `flank_angle + alpha4 − alpha3`, so the angle test compares 0 with its bound;
    the step test compares `|0|` with a non-negative tolerance) -/
theorem plausibility_accepts_closed (h : NoStep σ) (hd : 0 ≤ σ "depth") (hz : 0 ≤ Expr.eval σ z0) :
    ∀ c ∈ plausibility, ¬ Fires σ c := by
  have h0 := (noStep_iff_step_zero σ).mp h
  simp only [stepAt4] at h0
  intro c hc
  simp only [plausibility, List.mem_cons, List.mem_nil_iff, or_false] at hc
  rcases hc with rfl | rfl
  · simp only [Fires, plaus_0_lhs, plaus_0_rhs, alpha2, Expr.eval, PyNum.dec_real, reduceIte]
    norm_num
  · simp only [Fires, plaus_1_lhs, plaus_1_rhs, reduceIte]
    generalize hz0 : Expr.eval σ z0 = Z at hz
    simp only [Expr.eval, PyNum.dec_real, PyNum.abs_real, PyNum.tan_real, hz0]
    rw [h0, abs_zero]
    have : 0 ≤ (1:ℝ) / 10 ^ 3 * σ "depth" + (1:ℝ) / 10 ^ 9 * Z := by positivity
    push_cast
    linarith

/-- the same from the two flank dimensions a closure theorem delivers -/
theorem not_refused_of_dims (fw fh : ℝ) (h1 : Expr.eval σ z3 - Expr.eval σ z4 = fw)
    (h2 : Expr.eval σ y4 - Expr.eval σ y3 = fh) (h : fh = fw * Real.tan (σ "flank_angle"))
    (hd : 0 ≤ σ "depth") (hz : 0 ≤ Expr.eval σ z0) : ∀ c ∈ plausibility, ¬ Fires σ c :=
  plausibility_accepts_closed σ (noStep_of_dims σ fw fh h1 h2 h) hd hz

/-- the step test is two-sided: whatever its tolerance `T` evaluates to, a step of more than `T` in EITHER direction is
    refused (a test on the signed step alone would let an r2 arc ending below the flank line through) -/
theorem plausibility_step_two_sided :
    ∃ c ∈ plausibility, ∀ T : ℝ, Expr.eval σ c.2.2 = T → (stepAt4 σ > T ∨ stepAt4 σ < -T) → Fires σ c := by
  refine ⟨("gt", plaus_1_lhs, plaus_1_rhs), by simp [plausibility], ?_⟩
  intro T hT hs
  simp only [Fires, reduceIte, hT]
  simp only [plaus_1_lhs, Expr.eval, PyNum.abs_real, PyNum.tan_real]
  simp only [stepAt4] at hs
  rcases hs with h | h
  · exact lt_of_lt_of_le h (le_abs_self _)
  · have := neg_abs_le (Expr.eval σ y4 - (Expr.eval σ y3 - Real.tan (σ "flank_angle") * (Expr.eval σ z4 - Expr.eval σ z3)))
    linarith

end validator

/-! ## `solve_box_like` -/
section box

/-- the three defining relations of a box-like groove -/
def BoxRel (r2 r4 depth indent gw uw fa egw a4 : ℝ) : Prop :=
  uw = gw + 2 * depth / Real.tan fa ∧
  gw = egw + 2 * ((r4 + r2) * Real.sin a4 + r2 * Real.tan (fa / 2)) ∧
  a4 = Real.arccos (1 - indent / (r2 + r4))

abbrev BoxRelOf (ρ : String → ℝ) (gw uw fa egw a4 : Expr) : Prop :=
  BoxRel (ρ "r2") (ρ "r4") (ρ "depth") (ρ "indent") (Expr.eval ρ gw) (Expr.eval ρ uw) (Expr.eval ρ fa)
    (Expr.eval ρ egw) (Expr.eval ρ a4)

variable (ρ : String → ℝ)

theorem box_like_consistent_uw_gw (hd : ρ "depth" ≠ 0) (hw : ρ "usable_width" ≠ ρ "ground_width") :
    BoxRelOf ρ box_uw_gw_ground_width box_uw_gw_usable_width box_uw_gw_flank_angle box_uw_gw_even_ground_width
      box_uw_gw_alpha4 := by
  simp only [BoxRelOf, BoxRel, box_uw_gw_ground_width, box_uw_gw_usable_width, box_uw_gw_flank_angle,
    box_uw_gw_even_ground_width, box_uw_gw_alpha4]
  norm_env
  refine ⟨?_, ?_, trivial⟩
  · rw [Real.tan_arctan]
    have : ρ "usable_width" - ρ "ground_width" ≠ 0 := sub_ne_zero.mpr hw
    field_simp; ring
  · ring

theorem box_like_consistent_uw_egw (ht : Real.tan (ρ "root") ≠ 0)
    (hres : Expr.eval (upd ρ "_x0" (ρ "root")) box_uw_egw_res0 = 0) :
    BoxRelOf ρ box_uw_egw_ground_width box_uw_egw_usable_width box_uw_egw_flank_angle box_uw_egw_even_ground_width
      box_uw_egw_alpha4 := by
  simp only [BoxRelOf, BoxRel, box_uw_egw_ground_width, box_uw_egw_usable_width, box_uw_egw_flank_angle,
    box_uw_egw_even_ground_width, box_uw_egw_alpha4, box_uw_egw_res0] at *
  norm_env
  refine ⟨?_, trivial, trivial⟩
  field_simp
  linear_combination (-2) * hres

theorem box_like_consistent_uw_fa :
    BoxRelOf ρ box_uw_fa_ground_width box_uw_fa_usable_width box_uw_fa_flank_angle box_uw_fa_even_ground_width
      box_uw_fa_alpha4 := by
  simp only [BoxRelOf, BoxRel, box_uw_fa_ground_width, box_uw_fa_usable_width, box_uw_fa_flank_angle,
    box_uw_fa_even_ground_width, box_uw_fa_alpha4]
  norm_env
  refine ⟨by ring, by ring, trivial⟩

theorem box_like_consistent_gw_fa :
    BoxRelOf ρ box_gw_fa_ground_width box_gw_fa_usable_width box_gw_fa_flank_angle box_gw_fa_even_ground_width
      box_gw_fa_alpha4 := by
  simp only [BoxRelOf, BoxRel, box_gw_fa_ground_width, box_gw_fa_usable_width, box_gw_fa_flank_angle,
    box_gw_fa_even_ground_width, box_gw_fa_alpha4]
  norm_env
  refine ⟨trivial, by ring, trivial⟩

theorem box_like_consistent_egw_fa :
    BoxRelOf ρ box_egw_fa_ground_width box_egw_fa_usable_width box_egw_fa_flank_angle box_egw_fa_even_ground_width
      box_egw_fa_alpha4 := by
  simp only [BoxRelOf, BoxRel, box_egw_fa_ground_width, box_egw_fa_usable_width, box_egw_fa_flank_angle,
    box_egw_fa_even_ground_width, box_egw_fa_alpha4]
  norm_env
  refine ⟨trivial, trivial, trivial⟩


/-- the tuple a branch returns -/
abbrev BoxOut (ρ : String → ℝ) (gw uw fa egw a4 : Expr) (gw' uw' fa' egw' a4' : ℝ) : Prop :=
  Expr.eval ρ gw = gw' ∧ Expr.eval ρ uw = uw' ∧ Expr.eval ρ fa = fa' ∧ Expr.eval ρ egw = egw' ∧ Expr.eval ρ a4 = a4'

variable (gw uw fa egw a4 : ℝ)

theorem box_like_roundtrip_uw_gw
    (h : BoxRel (ρ "r2") (ρ "r4") (ρ "depth") (ρ "indent") gw uw fa egw a4)
    (h1 : ρ "usable_width" = uw) (h2 : ρ "ground_width" = gw)
    (hd : ρ "depth" ≠ 0) (hfa0 : 0 < fa) (hfa1 : fa < Real.pi / 2) :
    BoxOut ρ box_uw_gw_ground_width box_uw_gw_usable_width box_uw_gw_flank_angle box_uw_gw_even_ground_width
      box_uw_gw_alpha4 gw uw fa egw a4 := by
  obtain ⟨r1, r2, r3⟩ := h
  have ht : 0 < Real.tan fa := Real.tan_pos_of_pos_of_lt_pi_div_two hfa0 hfa1
  have hat : Real.arctan (ρ "depth" / (uw - gw) * 2) = fa := by
    have : ρ "depth" / (uw - gw) * 2 = Real.tan fa := by
      rw [r1]; field_simp; ring
    rw [this, Real.arctan_tan (by linarith) hfa1]
  simp only [BoxOut, box_uw_gw_ground_width, box_uw_gw_usable_width, box_uw_gw_flank_angle,
    box_uw_gw_even_ground_width, box_uw_gw_alpha4]
  norm_env
  rw [h1, h2, hat]
  refine ⟨rfl, rfl, rfl, ?_, r3.symm⟩
  rw [← r3]; linear_combination r2

theorem box_like_roundtrip_uw_fa
    (h : BoxRel (ρ "r2") (ρ "r4") (ρ "depth") (ρ "indent") gw uw fa egw a4)
    (h1 : ρ "usable_width" = uw) (h2 : ρ "flank_angle" = fa) :
    BoxOut ρ box_uw_fa_ground_width box_uw_fa_usable_width box_uw_fa_flank_angle box_uw_fa_even_ground_width
      box_uw_fa_alpha4 gw uw fa egw a4 := by
  obtain ⟨r1, r2, r3⟩ := h
  simp only [BoxOut, box_uw_fa_ground_width, box_uw_fa_usable_width, box_uw_fa_flank_angle,
    box_uw_fa_even_ground_width, box_uw_fa_alpha4]
  norm_env
  rw [h1, h2, ← r3]
  refine ⟨by linear_combination r1, rfl, rfl, by linear_combination r1 + r2, rfl⟩

theorem box_like_roundtrip_gw_fa
    (h : BoxRel (ρ "r2") (ρ "r4") (ρ "depth") (ρ "indent") gw uw fa egw a4)
    (h1 : ρ "ground_width" = gw) (h2 : ρ "flank_angle" = fa) :
    BoxOut ρ box_gw_fa_ground_width box_gw_fa_usable_width box_gw_fa_flank_angle box_gw_fa_even_ground_width
      box_gw_fa_alpha4 gw uw fa egw a4 := by
  obtain ⟨r1, r2, r3⟩ := h
  simp only [BoxOut, box_gw_fa_ground_width, box_gw_fa_usable_width, box_gw_fa_flank_angle,
    box_gw_fa_even_ground_width, box_gw_fa_alpha4]
  norm_env
  rw [h1, h2, ← r3]
  refine ⟨rfl, by linear_combination -r1, rfl, by linear_combination r2, rfl⟩

theorem box_like_roundtrip_egw_fa
    (h : BoxRel (ρ "r2") (ρ "r4") (ρ "depth") (ρ "indent") gw uw fa egw a4)
    (h1 : ρ "even_ground_width" = egw) (h2 : ρ "flank_angle" = fa) :
    BoxOut ρ box_egw_fa_ground_width box_egw_fa_usable_width box_egw_fa_flank_angle box_egw_fa_even_ground_width
      box_egw_fa_alpha4 gw uw fa egw a4 := by
  obtain ⟨r1, r2, r3⟩ := h
  simp only [BoxOut, box_egw_fa_ground_width, box_egw_fa_usable_width, box_egw_fa_flank_angle,
    box_egw_fa_even_ground_width, box_egw_fa_alpha4]
  norm_env
  rw [h1, h2, ← r3]
  refine ⟨by linear_combination -r2, by linear_combination -r1 - r2, rfl, rfl, rfl⟩

end box

section box_closure

/-- The residual handed to `root_scalar` by the `even_ground_width + usable_width` branch has at most one root in `(0, π/2)`
    when the ground radius fits into the half width left of the constriction, `r2 ≤ W := (uw − egw)/2 − (r4+r2)·sin α4`
    (otherwise a shallow and a steep solution can coexist, and the values do not determine the groove). -/
theorem box_like_root_unique (ρ : String → ℝ) (α β : ℝ)
    (hW : ρ "r2" ≤ (ρ "usable_width" - ρ "even_ground_width") / 2
            - (ρ "r4" + ρ "r2") * Real.sin (Real.arccos (1 - ρ "indent" / (ρ "r2" + ρ "r4"))))
    (hW0 : 0 < (ρ "usable_width" - ρ "even_ground_width") / 2
            - (ρ "r4" + ρ "r2") * Real.sin (Real.arccos (1 - ρ "indent" / (ρ "r2" + ρ "r4"))))
    (hα0 : 0 < α) (hα1 : α < Real.pi / 2) (hβ0 : 0 < β) (hβ1 : β < Real.pi / 2)
    (hα : Expr.eval (upd ρ "_x0" α) box_uw_egw_res0 = 0) (hβ : Expr.eval (upd ρ "_x0" β) box_uw_egw_res0 = 0) :
    α = β := by
  simp only [box_uw_egw_res0] at hα hβ
  norm_env
  refine box_res_inj _ (ρ "r2") (ρ "depth") α β hW hW0 hα0 hα1 hβ0 hβ1 ?_ ?_
  · linear_combination hα
  · linear_combination hβ

/-- round trip into the numeric branch: on a consistent tuple, any root the root finder returns inside `(0, π/2)` is the
    tuple's flank angle (uniqueness as above), hence the branch returns the tuple -/
theorem box_like_roundtrip_uw_egw (ρ : String → ℝ) (gw uw fa egw a4 : ℝ)
    (h : BoxRel (ρ "r2") (ρ "r4") (ρ "depth") (ρ "indent") gw uw fa egw a4)
    (h1 : ρ "usable_width" = uw) (h2 : ρ "even_ground_width" = egw)
    (hfa0 : 0 < fa) (hfa1 : fa < Real.pi / 2)
    (hr0 : 0 < ρ "root") (hr1 : ρ "root" < Real.pi / 2)
    (hres : Expr.eval (upd ρ "_x0" (ρ "root")) box_uw_egw_res0 = 0)
    (hW : ρ "r2" ≤ (uw - egw) / 2 - (ρ "r4" + ρ "r2") * Real.sin a4)
    (hW0 : 0 < (uw - egw) / 2 - (ρ "r4" + ρ "r2") * Real.sin a4) :
    BoxOut ρ box_uw_egw_ground_width box_uw_egw_usable_width box_uw_egw_flank_angle box_uw_egw_even_ground_width
      box_uw_egw_alpha4 gw uw fa egw a4 := by
  obtain ⟨r1, r2, r3⟩ := h
  have ht : 0 < Real.tan fa := Real.tan_pos_of_pos_of_lt_pi_div_two hfa0 hfa1
  have hfa : Expr.eval (upd ρ "_x0" fa) box_uw_egw_res0 = 0 := by
    simp only [box_uw_egw_res0]
    norm_env
    rw [h1, h2, ← r3]
    have e : uw - (egw + 2 * ((ρ "r4" + ρ "r2") * Real.sin a4 + ρ "r2" * Real.tan (fa / 2))) = 2 * ρ "depth" / Real.tan fa := by
      linear_combination r1 + r2
    rw [e]; field_simp; ring
  have hroot : ρ "root" = fa :=
    box_like_root_unique ρ (ρ "root") fa (by rw [h1, h2, ← r3]; exact hW) (by rw [h1, h2, ← r3]; exact hW0)
      hr0 hr1 hfa0 hfa1 hres hfa
  simp only [BoxOut, box_uw_egw_ground_width, box_uw_egw_usable_width, box_uw_egw_flank_angle,
    box_uw_egw_even_ground_width, box_uw_egw_alpha4]
  norm_env
  rw [h1, h2, hroot, ← r3]
  exact ⟨by linear_combination (-1 : ℝ) * r2, rfl, rfl, rfl, rfl⟩

/-- What `GenericElongationGroove.__init__` receives from a box-like constructor (Box, ConstrictedBox, Hexagonal, SwedishOval,
    ConstrictedSwedishOval and the Upset subclasses): the solver's five results under their own names, `r2`, `r4`, `indent`
    as given, no `r3`; **`depth` is not handed over** — `__init__` recomputes it from the other three (fourth of four). -/
structure LinkBox (gw uw fa egw a4 : Expr) (ρ σ : String → ℝ) : Prop where
  r2 : σ "r2" = ρ "r2"
  r4 : σ "r4" = ρ "r4"
  ind : σ "indent" = ρ "indent"
  gw : σ "ground_width" = Expr.eval ρ gw
  uw : σ "usable_width" = Expr.eval ρ uw
  fa : σ "flank_angle" = Expr.eval ρ fa
  egw : σ "even_ground_width" = Expr.eval ρ egw
  a4 : σ "alpha4" = Expr.eval ρ a4
  r3 : σ "r3" = 0
  a3 : σ "alpha3" = 0
  depth : σ "depth" = Expr.eval σ resolve_depth

/-- **Closure of every box-like groove**: whichever branch produced the tuple (it satisfies `BoxRel`,
    `box_like_consistent_*`), the generic constructor (i) recovers exactly the depth that was given, (ii) the chain traced from
    the centre ends on the flank line (no step), (iii) reaches the face at `usable_width/2`, and (iv) its deepest point —
    the top of the `r2` circle above the constriction — is at `depth`. -/
theorem box_like_closure (gw uw fa egw a4 : Expr) (ρ σ : String → ℝ)
    (R : BoxRelOf ρ gw uw fa egw a4) (L : LinkBox gw uw fa egw a4 ρ σ)
    (A : ChainOK σ) (I : IndentOK (ρ "r2") (ρ "r4") (ρ "indent")) :
    σ "depth" = ρ "depth" ∧ NoStep σ ∧ ReachesFace σ ∧ Expr.eval σ y11 + σ "r2" = σ "depth" := by
  obtain ⟨r1, r2, r3⟩ := R
  obtain ⟨l1, l2, l3, l4, l5, l6, l7, l8, l9, l10, l11⟩ := L
  have hs := A.s; have hc := A.c
  have htan : Real.tan (σ "flank_angle") ≠ 0 := by rw [Real.tan_eq_sin_div_cos]; exact div_ne_zero hs hc
  rw [← l5, ← l4, ← l6] at r1
  rw [← l4, ← l7, ← l8, ← l6] at r2
  rw [← l8] at r3
  have hdepth : σ "depth" = ρ "depth" := by
    rw [l11]; simp only [resolve_depth]; norm_env
    rw [r1]; field_simp; ring
  have hc4 : (ρ "r2" + ρ "r4") * Real.cos (σ "alpha4") = ρ "r2" + ρ "r4" - ρ "indent" := by
    rw [r3, Real.cos_arccos I.lo I.hi]; have := I.ne; field_simp
  have htop : Expr.eval σ y11 + σ "r2" = σ "depth" := by
    rw [eval_y11, eval_y10, eval_y6, l9, l10, l1, l2, l3]
    simp only [zero_sub, Real.cos_neg, zero_mul, sub_zero]
    linear_combination (-1 : ℝ) * hc4
  have hface : ReachesFace σ := by
    simp only [ReachesFace]
    rw [eval_z4, eval_y4, eval_z11, eval_z10, eval_z6]
    have hy : Expr.eval σ y11 = σ "depth" - σ "r2" := by linarith
    rw [hy, l9, l10, l1, l2, r1, r2, hdepth]
    simp only [zero_sub, Real.sin_neg, zero_mul, add_zero]
    rw [tan_half_eq _ hs, Real.tan_eq_sin_div_cos]
    field_simp
    linear_combination (2 * ρ "r2") * Real.sin_sq_add_cos_sq (σ "flank_angle")
  exact ⟨hdepth, (noStep_iff_reachesFace σ A).mpr hface, hface, htop⟩

end box_closure

section generic

/-! ### fourth of four -/

/-- the relation between the four quantities `GenericElongationGroove.__init__` takes three of -/
def FourRel (uw gw fa depth : ℝ) : Prop := uw = gw + 2 * depth / Real.tan fa

variable (ρ : String → ℝ)

/-- each of the four resolutions produces a quadruple satisfying the one defining relation … -/
theorem generic_fourth_of_four_consistent (hd : ρ "depth" ≠ 0) (hw : ρ "usable_width" ≠ ρ "ground_width")
    (ht : Real.tan (ρ "flank_angle") ≠ 0) :
    FourRel (Expr.eval ρ resolve_usable_width) (ρ "ground_width") (ρ "flank_angle") (ρ "depth") ∧
    FourRel (ρ "usable_width") (Expr.eval ρ resolve_ground_width) (ρ "flank_angle") (ρ "depth") ∧
    FourRel (ρ "usable_width") (ρ "ground_width") (Expr.eval ρ resolve_flank_angle) (ρ "depth") ∧
    FourRel (ρ "usable_width") (ρ "ground_width") (ρ "flank_angle") (Expr.eval ρ resolve_depth) := by
  simp only [FourRel, resolve_usable_width, resolve_ground_width, resolve_flank_angle, resolve_depth]
  norm_env
  have : ρ "usable_width" - ρ "ground_width" ≠ 0 := sub_ne_zero.mpr hw
  refine ⟨trivial, by ring, ?_, ?_⟩
  · rw [Real.tan_arctan]; field_simp; ring
  · field_simp; ring

/-- … and, conversely, on a quadruple satisfying the relation every resolution returns the fourth member:
    the four resolutions are mutually inverse. -/
theorem generic_fourth_of_four (uw gw fa depth : ℝ) (h : FourRel uw gw fa depth)
    (h1 : ρ "usable_width" = uw) (h2 : ρ "ground_width" = gw) (h3 : ρ "flank_angle" = fa) (h4 : ρ "depth" = depth)
    (hd : depth ≠ 0) (hfa0 : 0 < fa) (hfa1 : fa < Real.pi / 2) :
    Expr.eval ρ resolve_usable_width = uw ∧ Expr.eval ρ resolve_ground_width = gw ∧
    Expr.eval ρ resolve_flank_angle = fa ∧ Expr.eval ρ resolve_depth = depth := by
  have ht : 0 < Real.tan fa := Real.tan_pos_of_pos_of_lt_pi_div_two hfa0 hfa1
  simp only [FourRel] at h
  simp only [resolve_usable_width, resolve_ground_width, resolve_flank_angle, resolve_depth]
  norm_env
  rw [h1, h2, h3, h4]
  refine ⟨h.symm, by linear_combination h, ?_, ?_⟩
  · have : depth / (uw - gw) * 2 = Real.tan fa := by rw [h]; field_simp; ring
    rw [this, Real.arctan_tan (by linarith) hfa1]
  · rw [h]; field_simp; ring

end generic

/-! ## `DiamondGroove.__init__`: the tip triangle -/
section diamond

/-- the expression a constructor hands to `GenericElongationGroove.__init__` under keyword `k` -/
def kw (l : List (String × Expr)) (k : String) : Expr := (l.lookup k).getD (.var "<absent>")

/-- tip depth `td`, tip angle `ta` (radians, between the flanks) and usable width of the triangle formed by the extrapolated
    flanks and the face; `depth` is what remains after rounding the tip with `r2` -/
def DiamondRel (uw td ta r2 fa depth : ℝ) : Prop :=
  td = uw / 2 * Real.tan fa ∧ fa = Real.pi / 2 - ta / 2 ∧ depth = td - r2 / Real.cos fa + r2

/-- what one of the three constructor patterns resolves to -/
abbrev DiamondOut (l : List (String × Expr)) (ρ : String → ℝ) (uw fa depth : ℝ) : Prop :=
  Expr.eval ρ (kw l "usable_width") = uw ∧ Expr.eval ρ (kw l "flank_angle") = fa ∧ Expr.eval ρ (kw l "depth") = depth

local macro "triv" : tactic => `(tactic| first | rfl | trivial)

local macro "norm_kw" : tactic => `(tactic| simp only [DiamondOut, kw, plumb_DiamondGroove_1, plumb_DiamondGroove_2,
  plumb_DiamondGroove_3, List.lookup, String.reduceBEq, Option.getD] at *)

variable (ρ : String → ℝ)

/-! `diamond_triangle` (each of the three admissible patterns - width+depth, width+angle, depth+angle - resolves to a
    consistent triangle) is stated in `PyrollProps/C04Stored.lean`, about the tip depth and tip angle the finished object
    REPORTS (the generated `reported_DiamondGroove_k`: what the constructor stores on the object and the public properties hand
    out), together with the cross-subset statements for the reported values. -/

theorem diamond_roundtrip_uw_td (uw td ta r2 fa depth : ℝ) (h : DiamondRel uw td ta r2 fa depth)
    (h1 : ρ "usable_width" = uw) (h2 : ρ "tip_depth" = td) (h3 : ρ "r2" = r2)
    (hw : uw ≠ 0) (hfa0 : 0 < fa) (hfa1 : fa < Real.pi / 2) :
    DiamondOut plumb_DiamondGroove_1 ρ uw fa depth := by
  obtain ⟨t1, t2, t3⟩ := h
  have hat : Real.arctan (td / (uw / 2)) = fa := by
    have : td / (uw / 2) = Real.tan fa := by rw [t1]; field_simp
    rw [this, Real.arctan_tan (by linarith) hfa1]
  norm_kw
  norm_env
  rw [h1, h2, h3, hat]
  exact ⟨rfl, rfl, t3.symm⟩

theorem diamond_roundtrip_uw_ta (uw td ta r2 fa depth : ℝ) (h : DiamondRel uw td ta r2 fa depth)
    (h1 : ρ "usable_width" = uw) (h2 : ρ "tip_angle" * (Real.pi / 180) = ta) (h3 : ρ "r2" = r2) :
    DiamondOut plumb_DiamondGroove_2 ρ uw fa depth := by
  obtain ⟨t1, t2, t3⟩ := h
  norm_kw
  norm_env
  rw [h1, h2, h3, ← t2, ← t1]
  exact ⟨rfl, rfl, t3.symm⟩

theorem diamond_roundtrip_td_ta (uw td ta r2 fa depth : ℝ) (h : DiamondRel uw td ta r2 fa depth)
    (h1 : ρ "tip_depth" = td) (h2 : ρ "tip_angle" * (Real.pi / 180) = ta) (h3 : ρ "r2" = r2)
    (ht : Real.tan fa ≠ 0) :
    DiamondOut plumb_DiamondGroove_3 ρ uw fa depth := by
  obtain ⟨t1, t2, t3⟩ := h
  norm_kw
  norm_env
  rw [h1, h2, h3, ← t2]
  refine ⟨?_, rfl, t3.symm⟩
  rw [t1]; field_simp

/-- what `GenericElongationGroove.__init__` receives from `DiamondGroove` (pattern `l`) -/
structure LinkDiamond (l : List (String × Expr)) (ρ σ : String → ℝ) : Prop where
  uw : σ "usable_width" = Expr.eval ρ (kw l "usable_width")
  depth : σ "depth" = Expr.eval ρ (kw l "depth")
  fa : σ "flank_angle" = Expr.eval ρ (kw l "flank_angle")
  r2 : σ "r2" = ρ "r2"
  r3 : σ "r3" = 0
  r4 : σ "r4" = 0
  a3 : σ "alpha3" = 0
  a4 : σ "alpha4" = 0
  ind : σ "indent" = 0
  egw : σ "even_ground_width" = 0

/-- **Closure of the diamond**: the rounded tip joins the flank without a step, the flank reaches the face at
    `usable_width/2`, prolonged to the groove axis (`z = 0`) it reaches the tip depth, and the deepest point (top of the
    `r2` circle, centred on the axis) is at `depth`. -/
theorem diamond_closure (σ : String → ℝ) (td ta : ℝ)
    (R : DiamondRel (σ "usable_width") td ta (σ "r2") (σ "flank_angle") (σ "depth"))
    (h3 : σ "r3" = 0) (h4 : σ "r4" = 0) (ha3 : σ "alpha3" = 0) (ha4 : σ "alpha4" = 0) (hi : σ "indent" = 0)
    (he : σ "even_ground_width" = 0) (A : ChainOK σ) :
    NoStep σ ∧ ReachesFace σ ∧ (σ "z" = 0 → Expr.eval σ fn_flank_contour_line = td) ∧
    (Expr.eval σ z11 = 0 ∧ Expr.eval σ y11 + σ "r2" = σ "depth") := by
  obtain ⟨t1, t2, t3⟩ := R
  have hs := A.s; have hc := A.c
  have hface : ReachesFace σ := by
    simp only [ReachesFace]
    rw [z4_closed, y4_closed, h3, h4, ha3, ha4, hi, he, t3, t1, Real.tan_eq_sin_div_cos]
    simp only [sub_zero, Real.sin_zero, Real.cos_zero, zero_div, zero_add, add_zero, mul_zero, mul_one, zero_sub]
    field_simp
    linear_combination (2 * σ "r2") * Real.sin_sq_add_cos_sq (σ "flank_angle")
  refine ⟨(noStep_iff_reachesFace σ A).mpr hface, hface, ?_, ?_, ?_⟩
  · intro hz
    rw [eval_flank, eval_y3 σ A.h, eval_z3 σ A.h, hz, t1, Real.tan_eq_sin_div_cos]
    field_simp; ring
  · rw [eval_z11, eval_z10, eval_z6, h3, h4, ha3, ha4, he]; simp
  · rw [eval_y11, eval_y10, eval_y6, h3, h4, ha3, ha4, hi]; simp

end diamond

/-! ## `solve_r124`: one-radius grooves (Round, FalseRound, CircularOval, FlatOval) -/
section r124

/-- What `GenericElongationGroove.__init__` receives from a one-radius constructor: the results `w d r a` of `solve_r124`
    (evaluated in the solver's argument environment `ρ`) as `usable_width`, `depth`, `r2`, `flank_angle`; no `r3`.
    `e` is the even ground width: `0` for Round, FalseRound, CircularOval; FlatOval passes `e` and widens the usable
    width by it.  `r4`, `indent` are the solver's (0 for all four classes) with the matching `alpha4`. -/
structure Link124 (e : ℝ) (w d r a : Expr) (ρ σ : String → ℝ) : Prop where
  r1 : σ "r1" = ρ "r1"
  pad : σ "pad_angle" = ρ "pad_angle"
  r2 : σ "r2" = Expr.eval ρ r
  depth : σ "depth" = Expr.eval ρ d
  uw : σ "usable_width" = Expr.eval ρ w + e
  fa : σ "flank_angle" = Expr.eval ρ a
  r3 : σ "r3" = 0
  a3 : σ "alpha3" = 0
  egw : σ "even_ground_width" = e
  r4 : σ "r4" = ρ "r4"
  ind : σ "indent" = ρ "indent"
  a4 : σ "alpha4" = Real.arccos (1 - ρ "indent" / (Expr.eval ρ r + ρ "r4"))

/-- the deepest point of a one-radius groove, the top of the `r2` circle, is at `depth` (for `indent = 0` this is the
    groove centre itself) -/
theorem r124_depth_reached (e : ℝ) (w d r a : Expr) (ρ σ : String → ℝ) (L : Link124 e w d r a ρ σ)
    (I : IndentOK (Expr.eval ρ r) (ρ "r4") (ρ "indent")) :
    Expr.eval σ y11 + σ "r2" = σ "depth" := by
  obtain ⟨l1, l2, l3, l4, l5, l6, l7, l8, l9, l10, l11, l12⟩ := L
  have hc4 := Real.cos_arccos I.lo I.hi
  rw [eval_y11, eval_y10, eval_y6, l7, l8, l10, l11, l12, l3]
  simp only [zero_sub, Real.cos_neg, zero_mul, sub_zero]
  rw [hc4]; have := I.ne; field_simp; ring

/-! ### usable width unknown (`width is None`): the residual fixes the flank dimension, the closed-form tail the width -/

theorem r124_widthNone_free_closure (e : ℝ) (ρ σ : String → ℝ)
    (L : Link124 e r124_widthNone_free_width r124_widthNone_free_depth r124_widthNone_free_r2 r124_widthNone_free_alpha ρ σ)
    (A : AngleOK (ρ "root") (ρ "pad_angle")) (I : IndentOK (ρ "r2") (ρ "r4") (ρ "indent"))
    (hres : Expr.eval (upd ρ "_x0" (ρ "root")) r124_widthNone_free_res0 = 0) :
    Expr.eval σ z3 - Expr.eval σ z4 = 0 ∧
    Expr.eval σ y4 - Expr.eval σ y3 = 0 := by
  obtain ⟨l1, l2, l3, l4, l5, l6, l7, l8, l9, l10, l11, l12⟩ := L
  simp only [r124_widthNone_free_res0, r124_widthNone_free_width, r124_widthNone_free_depth, r124_widthNone_free_r2, r124_widthNone_free_alpha] at *
  norm_env
  have hh' : Real.cos ((σ "flank_angle" + σ "pad_angle") / 2) ≠ 0 := by rw [l6, l2]; exact A.h
  have hc4 := Real.cos_arccos I.lo I.hi
  rw [eval_z3 σ hh', eval_y3 σ hh', z4_closed, y4_closed]
  simp only [lt, l1, l2, l3, l4, l5, l6, l7, l8, l9, l10, l11, l12, zero_sub, Real.sin_neg, Real.cos_neg, add_zero,
    zero_div, zero_add, sub_zero]
  set A4 := Real.arccos (1 - ρ "indent" / (ρ "r2" + ρ "r4")) with hA4
  have hc4' : (ρ "r2" + ρ "r4") * Real.cos A4 = ρ "r2" + ρ "r4" - ρ "indent" := by
    rw [hc4]; have := I.ne; field_simp
  have hs := A.s; have hc := A.c
  have e : ρ "depth" - ρ "r2" * (1 - Real.cos (ρ "root")) = ρ "r1" * Real.tan ((ρ "root" + ρ "pad_angle") / 2) * Real.sin (ρ "root") + 0 := by linear_combination hres
  have key : (ρ "depth" - ρ "r2" * (1 - Real.cos (ρ "root"))) / Real.tan (ρ "root") = ρ "r1" * Real.tan ((ρ "root" + ρ "pad_angle") / 2) * Real.cos (ρ "root") + 0 := by
    rw [e, Real.tan_eq_sin_div_cos (ρ "root")]; field_simp <;> ring
  constructor
  · linear_combination key
  · linear_combination hres - hc4'

theorem r124_widthNone_fw_closure (e : ℝ) (ρ σ : String → ℝ)
    (L : Link124 e r124_widthNone_fw_width r124_widthNone_fw_depth r124_widthNone_fw_r2 r124_widthNone_fw_alpha ρ σ)
    (A : AngleOK (ρ "root") (ρ "pad_angle")) (I : IndentOK (ρ "r2") (ρ "r4") (ρ "indent"))
    (hres : Expr.eval (upd ρ "_x0" (ρ "root")) r124_widthNone_fw_res0 = 0) :
    Expr.eval σ z3 - Expr.eval σ z4 = ρ "flank_width" ∧
    Expr.eval σ y4 - Expr.eval σ y3 = ρ "flank_width" * Real.tan (ρ "root") := by
  obtain ⟨l1, l2, l3, l4, l5, l6, l7, l8, l9, l10, l11, l12⟩ := L
  simp only [r124_widthNone_fw_res0, r124_widthNone_fw_width, r124_widthNone_fw_depth, r124_widthNone_fw_r2, r124_widthNone_fw_alpha] at *
  norm_env
  have hh' : Real.cos ((σ "flank_angle" + σ "pad_angle") / 2) ≠ 0 := by rw [l6, l2]; exact A.h
  have hc4 := Real.cos_arccos I.lo I.hi
  rw [eval_z3 σ hh', eval_y3 σ hh', z4_closed, y4_closed]
  simp only [lt, l1, l2, l3, l4, l5, l6, l7, l8, l9, l10, l11, l12, zero_sub, Real.sin_neg, Real.cos_neg, add_zero,
    zero_div, zero_add, sub_zero]
  set A4 := Real.arccos (1 - ρ "indent" / (ρ "r2" + ρ "r4")) with hA4
  have hc4' : (ρ "r2" + ρ "r4") * Real.cos A4 = ρ "r2" + ρ "r4" - ρ "indent" := by
    rw [hc4]; have := I.ne; field_simp
  have hs := A.s; have hc := A.c
  have e : ρ "depth" - ρ "r2" * (1 - Real.cos (ρ "root")) = ρ "r1" * Real.tan ((ρ "root" + ρ "pad_angle") / 2) * Real.sin (ρ "root") + ρ "flank_width" * Real.tan (ρ "root") := by linear_combination hres
  have key : (ρ "depth" - ρ "r2" * (1 - Real.cos (ρ "root"))) / Real.tan (ρ "root") = ρ "r1" * Real.tan ((ρ "root" + ρ "pad_angle") / 2) * Real.cos (ρ "root") + ρ "flank_width" := by
    rw [e, Real.tan_eq_sin_div_cos (ρ "root")]; field_simp <;> ring
  constructor
  · linear_combination key
  · linear_combination hres - hc4'

theorem r124_widthNone_fh_closure (e : ℝ) (ρ σ : String → ℝ)
    (L : Link124 e r124_widthNone_fh_width r124_widthNone_fh_depth r124_widthNone_fh_r2 r124_widthNone_fh_alpha ρ σ)
    (A : AngleOK (ρ "root") (ρ "pad_angle")) (I : IndentOK (ρ "r2") (ρ "r4") (ρ "indent"))
    (hres : Expr.eval (upd ρ "_x0" (ρ "root")) r124_widthNone_fh_res0 = 0) :
    Expr.eval σ z3 - Expr.eval σ z4 = ρ "flank_height" / Real.tan (ρ "root") ∧
    Expr.eval σ y4 - Expr.eval σ y3 = ρ "flank_height" := by
  obtain ⟨l1, l2, l3, l4, l5, l6, l7, l8, l9, l10, l11, l12⟩ := L
  simp only [r124_widthNone_fh_res0, r124_widthNone_fh_width, r124_widthNone_fh_depth, r124_widthNone_fh_r2, r124_widthNone_fh_alpha] at *
  norm_env
  have hh' : Real.cos ((σ "flank_angle" + σ "pad_angle") / 2) ≠ 0 := by rw [l6, l2]; exact A.h
  have hc4 := Real.cos_arccos I.lo I.hi
  rw [eval_z3 σ hh', eval_y3 σ hh', z4_closed, y4_closed]
  simp only [lt, l1, l2, l3, l4, l5, l6, l7, l8, l9, l10, l11, l12, zero_sub, Real.sin_neg, Real.cos_neg, add_zero,
    zero_div, zero_add, sub_zero]
  set A4 := Real.arccos (1 - ρ "indent" / (ρ "r2" + ρ "r4")) with hA4
  have hc4' : (ρ "r2" + ρ "r4") * Real.cos A4 = ρ "r2" + ρ "r4" - ρ "indent" := by
    rw [hc4]; have := I.ne; field_simp
  have hs := A.s; have hc := A.c
  have e : ρ "depth" - ρ "r2" * (1 - Real.cos (ρ "root")) = ρ "r1" * Real.tan ((ρ "root" + ρ "pad_angle") / 2) * Real.sin (ρ "root") + ρ "flank_height" := by linear_combination hres
  have key : (ρ "depth" - ρ "r2" * (1 - Real.cos (ρ "root"))) / Real.tan (ρ "root") = ρ "r1" * Real.tan ((ρ "root" + ρ "pad_angle") / 2) * Real.cos (ρ "root") + ρ "flank_height" / Real.tan (ρ "root") := by
    rw [e, Real.tan_eq_sin_div_cos (ρ "root")]; field_simp <;> ring
  constructor
  · linear_combination key
  · linear_combination hres - hc4'

theorem r124_widthNone_fl_closure (e : ℝ) (ρ σ : String → ℝ)
    (L : Link124 e r124_widthNone_fl_width r124_widthNone_fl_depth r124_widthNone_fl_r2 r124_widthNone_fl_alpha ρ σ)
    (A : AngleOK (ρ "root") (ρ "pad_angle")) (I : IndentOK (ρ "r2") (ρ "r4") (ρ "indent"))
    (hres : Expr.eval (upd ρ "_x0" (ρ "root")) r124_widthNone_fl_res0 = 0) :
    Expr.eval σ z3 - Expr.eval σ z4 = ρ "flank_length" * Real.cos (ρ "root") ∧
    Expr.eval σ y4 - Expr.eval σ y3 = ρ "flank_length" * Real.sin (ρ "root") := by
  obtain ⟨l1, l2, l3, l4, l5, l6, l7, l8, l9, l10, l11, l12⟩ := L
  simp only [r124_widthNone_fl_res0, r124_widthNone_fl_width, r124_widthNone_fl_depth, r124_widthNone_fl_r2, r124_widthNone_fl_alpha] at *
  norm_env
  have hh' : Real.cos ((σ "flank_angle" + σ "pad_angle") / 2) ≠ 0 := by rw [l6, l2]; exact A.h
  have hc4 := Real.cos_arccos I.lo I.hi
  rw [eval_z3 σ hh', eval_y3 σ hh', z4_closed, y4_closed]
  simp only [lt, l1, l2, l3, l4, l5, l6, l7, l8, l9, l10, l11, l12, zero_sub, Real.sin_neg, Real.cos_neg, add_zero,
    zero_div, zero_add, sub_zero]
  set A4 := Real.arccos (1 - ρ "indent" / (ρ "r2" + ρ "r4")) with hA4
  have hc4' : (ρ "r2" + ρ "r4") * Real.cos A4 = ρ "r2" + ρ "r4" - ρ "indent" := by
    rw [hc4]; have := I.ne; field_simp
  have hs := A.s; have hc := A.c
  have e : ρ "depth" - ρ "r2" * (1 - Real.cos (ρ "root")) = ρ "r1" * Real.tan ((ρ "root" + ρ "pad_angle") / 2) * Real.sin (ρ "root") + ρ "flank_length" * Real.sin (ρ "root") := by linear_combination hres
  have key : (ρ "depth" - ρ "r2" * (1 - Real.cos (ρ "root"))) / Real.tan (ρ "root") = ρ "r1" * Real.tan ((ρ "root" + ρ "pad_angle") / 2) * Real.cos (ρ "root") + ρ "flank_length" * Real.cos (ρ "root") := by
    rw [e, Real.tan_eq_sin_div_cos (ρ "root")]; field_simp <;> ring
  constructor
  · linear_combination key
  · linear_combination hres - hc4'

/-! ### uniqueness of the root, usable width unknown: the residual is strictly monotone on the bracket, so the values
     (r2, depth, flank dimension) determine the groove — re-solving from them gives the same flank angle -/

theorem r124_widthNone_free_root_unique (ρ : String → ℝ) (α β : ℝ) (hr1 : 0 ≤ ρ "r1") (hr2 : 0 < ρ "r2")
    (hp0 : 0 ≤ ρ "pad_angle") (hp1 : ρ "pad_angle" < Real.pi / 2) 
    (hα0 : 0 < α) (hα1 : α < Real.pi / 2) (hβ0 : 0 < β) (hβ1 : β < Real.pi / 2)
    (hα : Expr.eval (upd ρ "_x0" α) r124_widthNone_free_res0 = 0) (hβ : Expr.eval (upd ρ "_x0" β) r124_widthNone_free_res0 = 0) : α = β := by
  simp only [r124_widthNone_free_res0] at hα hβ
  norm_env
  have hpi := Real.pi_pos
  rcases lt_trichotomy α β with h | h | h
  · exfalso
    have c := r124_core_strictMono (ρ "r1") (ρ "r2") (ρ "pad_angle") α β hr1 hr2 hp0 hp1 hα0 h hβ1
    linarith
  · exact h
  · exfalso
    have c := r124_core_strictMono (ρ "r1") (ρ "r2") (ρ "pad_angle") β α hr1 hr2 hp0 hp1 hβ0 h hα1
    linarith

theorem r124_widthNone_fw_root_unique (ρ : String → ℝ) (α β : ℝ) (hr1 : 0 ≤ ρ "r1") (hr2 : 0 < ρ "r2")
    (hp0 : 0 ≤ ρ "pad_angle") (hp1 : ρ "pad_angle" < Real.pi / 2) (hf : 0 ≤ ρ "flank_width") 
    (hα0 : 0 < α) (hα1 : α < Real.pi / 2) (hβ0 : 0 < β) (hβ1 : β < Real.pi / 2)
    (hα : Expr.eval (upd ρ "_x0" α) r124_widthNone_fw_res0 = 0) (hβ : Expr.eval (upd ρ "_x0" β) r124_widthNone_fw_res0 = 0) : α = β := by
  simp only [r124_widthNone_fw_res0] at hα hβ
  norm_env
  have hpi := Real.pi_pos
  rcases lt_trichotomy α β with h | h | h
  · exfalso
    have c := r124_core_strictMono (ρ "r1") (ρ "r2") (ρ "pad_angle") α β hr1 hr2 hp0 hp1 hα0 h hβ1
    have e : ρ "flank_width" * Real.tan α ≤ ρ "flank_width" * Real.tan β :=
      mul_le_mul_of_nonneg_left (Real.tan_lt_tan_of_lt_of_lt_pi_div_two (by linarith) (by linarith) h).le hf
    linarith
  · exact h
  · exfalso
    have c := r124_core_strictMono (ρ "r1") (ρ "r2") (ρ "pad_angle") β α hr1 hr2 hp0 hp1 hβ0 h hα1
    have e : ρ "flank_width" * Real.tan β ≤ ρ "flank_width" * Real.tan α :=
      mul_le_mul_of_nonneg_left (Real.tan_lt_tan_of_lt_of_lt_pi_div_two (by linarith) (by linarith) h).le hf
    linarith

theorem r124_widthNone_fh_root_unique (ρ : String → ℝ) (α β : ℝ) (hr1 : 0 ≤ ρ "r1") (hr2 : 0 < ρ "r2")
    (hp0 : 0 ≤ ρ "pad_angle") (hp1 : ρ "pad_angle" < Real.pi / 2) 
    (hα0 : 0 < α) (hα1 : α < Real.pi / 2) (hβ0 : 0 < β) (hβ1 : β < Real.pi / 2)
    (hα : Expr.eval (upd ρ "_x0" α) r124_widthNone_fh_res0 = 0) (hβ : Expr.eval (upd ρ "_x0" β) r124_widthNone_fh_res0 = 0) : α = β := by
  simp only [r124_widthNone_fh_res0] at hα hβ
  norm_env
  have hpi := Real.pi_pos
  rcases lt_trichotomy α β with h | h | h
  · exfalso
    have c := r124_core_strictMono (ρ "r1") (ρ "r2") (ρ "pad_angle") α β hr1 hr2 hp0 hp1 hα0 h hβ1
    linarith
  · exact h
  · exfalso
    have c := r124_core_strictMono (ρ "r1") (ρ "r2") (ρ "pad_angle") β α hr1 hr2 hp0 hp1 hβ0 h hα1
    linarith

theorem r124_widthNone_fl_root_unique (ρ : String → ℝ) (α β : ℝ) (hr1 : 0 ≤ ρ "r1") (hr2 : 0 < ρ "r2")
    (hp0 : 0 ≤ ρ "pad_angle") (hp1 : ρ "pad_angle" < Real.pi / 2) (hf : 0 ≤ ρ "flank_length") 
    (hα0 : 0 < α) (hα1 : α < Real.pi / 2) (hβ0 : 0 < β) (hβ1 : β < Real.pi / 2)
    (hα : Expr.eval (upd ρ "_x0" α) r124_widthNone_fl_res0 = 0) (hβ : Expr.eval (upd ρ "_x0" β) r124_widthNone_fl_res0 = 0) : α = β := by
  simp only [r124_widthNone_fl_res0] at hα hβ
  norm_env
  have hpi := Real.pi_pos
  rcases lt_trichotomy α β with h | h | h
  · exfalso
    have c := r124_core_strictMono (ρ "r1") (ρ "r2") (ρ "pad_angle") α β hr1 hr2 hp0 hp1 hα0 h hβ1
    have e : ρ "flank_length" * Real.sin α ≤ ρ "flank_length" * Real.sin β :=
      mul_le_mul_of_nonneg_left (Real.sin_lt_sin_of_lt_of_le_pi_div_two (by linarith) (by linarith) h).le hf
    linarith
  · exact h
  · exfalso
    have c := r124_core_strictMono (ρ "r1") (ρ "r2") (ρ "pad_angle") β α hr1 hr2 hp0 hp1 hβ0 h hα1
    have e : ρ "flank_length" * Real.sin β ≤ ρ "flank_length" * Real.sin α :=
      mul_le_mul_of_nonneg_left (Real.sin_lt_sin_of_lt_of_le_pi_div_two (by linarith) (by linarith) h).le hf
    linarith

/-! ### depth unknown -/

theorem r124_depthNone_free_closure (e : ℝ) (ρ σ : String → ℝ)
    (L : Link124 e r124_depthNone_free_width r124_depthNone_free_depth r124_depthNone_free_r2 r124_depthNone_free_alpha ρ σ)
    (A : AngleOK (ρ "root") (ρ "pad_angle")) (I : IndentOK (ρ "r2") (ρ "r4") (ρ "indent"))
    (hres : Expr.eval (upd ρ "_x0" (ρ "root")) r124_depthNone_free_res0 = 0) :
    Expr.eval σ z3 - Expr.eval σ z4 = 0 ∧
    Expr.eval σ y4 - Expr.eval σ y3 = 0 := by
  obtain ⟨l1, l2, l3, l4, l5, l6, l7, l8, l9, l10, l11, l12⟩ := L
  simp only [r124_depthNone_free_res0, r124_depthNone_free_width, r124_depthNone_free_depth, r124_depthNone_free_r2, r124_depthNone_free_alpha] at *
  norm_env
  have hh' : Real.cos ((σ "flank_angle" + σ "pad_angle") / 2) ≠ 0 := by rw [l6, l2]; exact A.h
  have hc4 := Real.cos_arccos I.lo I.hi
  rw [eval_z3 σ hh', eval_y3 σ hh', z4_closed, y4_closed]
  simp only [lt, l1, l2, l3, l4, l5, l6, l7, l8, l9, l10, l11, l12, zero_sub, Real.sin_neg, Real.cos_neg, add_zero,
    zero_div, zero_add, sub_zero]
  set A4 := Real.arccos (1 - ρ "indent" / (ρ "r2" + ρ "r4")) with hA4
  have hc4' : (ρ "r2" + ρ "r4") * Real.cos A4 = ρ "r2" + ρ "r4" - ρ "indent" := by
    rw [hc4]; have := I.ne; field_simp
  have hs := A.s; have hc := A.c
  have e : ρ "width" / 2 - ρ "r2" * Real.sin (ρ "root") - (ρ "r2" + ρ "r4") * Real.sin A4 = ρ "r1" * Real.tan ((ρ "root" + ρ "pad_angle") / 2) * Real.cos (ρ "root") + 0 := by linear_combination hres
  have key : (ρ "width" / 2 - ρ "r2" * Real.sin (ρ "root") - (ρ "r2" + ρ "r4") * Real.sin A4) * Real.tan (ρ "root") = ρ "r1" * Real.tan ((ρ "root" + ρ "pad_angle") / 2) * Real.sin (ρ "root") + 0 := by
    rw [e, Real.tan_eq_sin_div_cos (ρ "root")]; field_simp <;> ring
  constructor
  · linear_combination hres
  · linear_combination key - hc4'

theorem r124_depthNone_fw_closure (e : ℝ) (ρ σ : String → ℝ)
    (L : Link124 e r124_depthNone_fw_width r124_depthNone_fw_depth r124_depthNone_fw_r2 r124_depthNone_fw_alpha ρ σ)
    (A : AngleOK (ρ "root") (ρ "pad_angle")) (I : IndentOK (ρ "r2") (ρ "r4") (ρ "indent"))
    (hres : Expr.eval (upd ρ "_x0" (ρ "root")) r124_depthNone_fw_res0 = 0) :
    Expr.eval σ z3 - Expr.eval σ z4 = ρ "flank_width" ∧
    Expr.eval σ y4 - Expr.eval σ y3 = ρ "flank_width" * Real.tan (ρ "root") := by
  obtain ⟨l1, l2, l3, l4, l5, l6, l7, l8, l9, l10, l11, l12⟩ := L
  simp only [r124_depthNone_fw_res0, r124_depthNone_fw_width, r124_depthNone_fw_depth, r124_depthNone_fw_r2, r124_depthNone_fw_alpha] at *
  norm_env
  have hh' : Real.cos ((σ "flank_angle" + σ "pad_angle") / 2) ≠ 0 := by rw [l6, l2]; exact A.h
  have hc4 := Real.cos_arccos I.lo I.hi
  rw [eval_z3 σ hh', eval_y3 σ hh', z4_closed, y4_closed]
  simp only [lt, l1, l2, l3, l4, l5, l6, l7, l8, l9, l10, l11, l12, zero_sub, Real.sin_neg, Real.cos_neg, add_zero,
    zero_div, zero_add, sub_zero]
  set A4 := Real.arccos (1 - ρ "indent" / (ρ "r2" + ρ "r4")) with hA4
  have hc4' : (ρ "r2" + ρ "r4") * Real.cos A4 = ρ "r2" + ρ "r4" - ρ "indent" := by
    rw [hc4]; have := I.ne; field_simp
  have hs := A.s; have hc := A.c
  have e : ρ "width" / 2 - ρ "r2" * Real.sin (ρ "root") - (ρ "r2" + ρ "r4") * Real.sin A4 = ρ "r1" * Real.tan ((ρ "root" + ρ "pad_angle") / 2) * Real.cos (ρ "root") + ρ "flank_width" := by linear_combination hres
  have key : (ρ "width" / 2 - ρ "r2" * Real.sin (ρ "root") - (ρ "r2" + ρ "r4") * Real.sin A4) * Real.tan (ρ "root") = ρ "r1" * Real.tan ((ρ "root" + ρ "pad_angle") / 2) * Real.sin (ρ "root") + ρ "flank_width" * Real.tan (ρ "root") := by
    rw [e, Real.tan_eq_sin_div_cos (ρ "root")]; field_simp <;> ring
  constructor
  · linear_combination hres
  · linear_combination key - hc4'

theorem r124_depthNone_fh_closure (e : ℝ) (ρ σ : String → ℝ)
    (L : Link124 e r124_depthNone_fh_width r124_depthNone_fh_depth r124_depthNone_fh_r2 r124_depthNone_fh_alpha ρ σ)
    (A : AngleOK (ρ "root") (ρ "pad_angle")) (I : IndentOK (ρ "r2") (ρ "r4") (ρ "indent"))
    (hres : Expr.eval (upd ρ "_x0" (ρ "root")) r124_depthNone_fh_res0 = 0) :
    Expr.eval σ z3 - Expr.eval σ z4 = ρ "flank_height" / Real.tan (ρ "root") ∧
    Expr.eval σ y4 - Expr.eval σ y3 = ρ "flank_height" := by
  obtain ⟨l1, l2, l3, l4, l5, l6, l7, l8, l9, l10, l11, l12⟩ := L
  simp only [r124_depthNone_fh_res0, r124_depthNone_fh_width, r124_depthNone_fh_depth, r124_depthNone_fh_r2, r124_depthNone_fh_alpha] at *
  norm_env
  have hh' : Real.cos ((σ "flank_angle" + σ "pad_angle") / 2) ≠ 0 := by rw [l6, l2]; exact A.h
  have hc4 := Real.cos_arccos I.lo I.hi
  rw [eval_z3 σ hh', eval_y3 σ hh', z4_closed, y4_closed]
  simp only [lt, l1, l2, l3, l4, l5, l6, l7, l8, l9, l10, l11, l12, zero_sub, Real.sin_neg, Real.cos_neg, add_zero,
    zero_div, zero_add, sub_zero]
  set A4 := Real.arccos (1 - ρ "indent" / (ρ "r2" + ρ "r4")) with hA4
  have hc4' : (ρ "r2" + ρ "r4") * Real.cos A4 = ρ "r2" + ρ "r4" - ρ "indent" := by
    rw [hc4]; have := I.ne; field_simp
  have hs := A.s; have hc := A.c
  have e : ρ "width" / 2 - ρ "r2" * Real.sin (ρ "root") - (ρ "r2" + ρ "r4") * Real.sin A4 = ρ "r1" * Real.tan ((ρ "root" + ρ "pad_angle") / 2) * Real.cos (ρ "root") + ρ "flank_height" / Real.tan (ρ "root") := by linear_combination hres
  have key : (ρ "width" / 2 - ρ "r2" * Real.sin (ρ "root") - (ρ "r2" + ρ "r4") * Real.sin A4) * Real.tan (ρ "root") = ρ "r1" * Real.tan ((ρ "root" + ρ "pad_angle") / 2) * Real.sin (ρ "root") + ρ "flank_height" := by
    rw [e, Real.tan_eq_sin_div_cos (ρ "root")]; field_simp <;> ring
  constructor
  · linear_combination hres
  · linear_combination key - hc4'

theorem r124_depthNone_fl_closure (e : ℝ) (ρ σ : String → ℝ)
    (L : Link124 e r124_depthNone_fl_width r124_depthNone_fl_depth r124_depthNone_fl_r2 r124_depthNone_fl_alpha ρ σ)
    (A : AngleOK (ρ "root") (ρ "pad_angle")) (I : IndentOK (ρ "r2") (ρ "r4") (ρ "indent"))
    (hres : Expr.eval (upd ρ "_x0" (ρ "root")) r124_depthNone_fl_res0 = 0) :
    Expr.eval σ z3 - Expr.eval σ z4 = ρ "flank_length" * Real.cos (ρ "root") ∧
    Expr.eval σ y4 - Expr.eval σ y3 = ρ "flank_length" * Real.sin (ρ "root") := by
  obtain ⟨l1, l2, l3, l4, l5, l6, l7, l8, l9, l10, l11, l12⟩ := L
  simp only [r124_depthNone_fl_res0, r124_depthNone_fl_width, r124_depthNone_fl_depth, r124_depthNone_fl_r2, r124_depthNone_fl_alpha] at *
  norm_env
  have hh' : Real.cos ((σ "flank_angle" + σ "pad_angle") / 2) ≠ 0 := by rw [l6, l2]; exact A.h
  have hc4 := Real.cos_arccos I.lo I.hi
  rw [eval_z3 σ hh', eval_y3 σ hh', z4_closed, y4_closed]
  simp only [lt, l1, l2, l3, l4, l5, l6, l7, l8, l9, l10, l11, l12, zero_sub, Real.sin_neg, Real.cos_neg, add_zero,
    zero_div, zero_add, sub_zero]
  set A4 := Real.arccos (1 - ρ "indent" / (ρ "r2" + ρ "r4")) with hA4
  have hc4' : (ρ "r2" + ρ "r4") * Real.cos A4 = ρ "r2" + ρ "r4" - ρ "indent" := by
    rw [hc4]; have := I.ne; field_simp
  have hs := A.s; have hc := A.c
  have e : ρ "width" / 2 - ρ "r2" * Real.sin (ρ "root") - (ρ "r2" + ρ "r4") * Real.sin A4 = ρ "r1" * Real.tan ((ρ "root" + ρ "pad_angle") / 2) * Real.cos (ρ "root") + ρ "flank_length" * Real.cos (ρ "root") := by linear_combination hres
  have key : (ρ "width" / 2 - ρ "r2" * Real.sin (ρ "root") - (ρ "r2" + ρ "r4") * Real.sin A4) * Real.tan (ρ "root") = ρ "r1" * Real.tan ((ρ "root" + ρ "pad_angle") / 2) * Real.sin (ρ "root") + ρ "flank_length" * Real.sin (ρ "root") := by
    rw [e, Real.tan_eq_sin_div_cos (ρ "root")]; field_simp <;> ring
  constructor
  · linear_combination hres
  · linear_combination key - hc4'

/-! ### flank angle given: nothing to solve, the tails alone close the contour -/

theorem r124_widthNone_fa_closure (e : ℝ) (ρ σ : String → ℝ)
    (L : Link124 e r124_widthNone_fa_width r124_widthNone_fa_depth r124_widthNone_fa_r2 r124_widthNone_fa_alpha ρ σ)
    (A : AngleOK (ρ "flank_angle") (ρ "pad_angle")) (I : IndentOK (ρ "r2") (ρ "r4") (ρ "indent")) :
    σ "flank_angle" = ρ "flank_angle" ∧
    Expr.eval σ y4 - Expr.eval σ y3 = (Expr.eval σ z3 - Expr.eval σ z4) * Real.tan (ρ "flank_angle") := by
  obtain ⟨l1, l2, l3, l4, l5, l6, l7, l8, l9, l10, l11, l12⟩ := L
  simp only [r124_widthNone_fa_width, r124_widthNone_fa_depth, r124_widthNone_fa_r2, r124_widthNone_fa_alpha] at *
  norm_env
  have hh' : Real.cos ((σ "flank_angle" + σ "pad_angle") / 2) ≠ 0 := by rw [l6, l2]; exact A.h
  rw [eval_z3 σ hh', eval_y3 σ hh', z4_closed, y4_closed]
  refine ⟨l6, ?_⟩
  have hc4 := Real.cos_arccos I.lo I.hi
  simp only [lt, l1, l2, l3, l4, l5, l6, l7, l8, l9, l10, l11, l12, zero_sub, Real.sin_neg, Real.cos_neg, add_zero,
    zero_div, zero_add, sub_zero]
  set A4 := Real.arccos (1 - ρ "indent" / (ρ "r2" + ρ "r4")) with hA4
  have hc4' : (ρ "r2" + ρ "r4") * Real.cos A4 = ρ "r2" + ρ "r4" - ρ "indent" := by
    rw [hc4]; have := I.ne; field_simp
  have hs := A.s; have hc := A.c
  have htan : Real.tan (ρ "flank_angle") ≠ 0 := by rw [Real.tan_eq_sin_div_cos]; exact div_ne_zero hs hc
  have k : ρ "r1" * Real.tan ((ρ "flank_angle" + ρ "pad_angle") / 2) * Real.cos (ρ "flank_angle") * Real.tan (ρ "flank_angle") = ρ "r1" * Real.tan ((ρ "flank_angle" + ρ "pad_angle") / 2) * Real.sin (ρ "flank_angle") := by
    rw [Real.tan_eq_sin_div_cos (ρ "flank_angle")]; field_simp
  have k2 : (ρ "depth" - ρ "r2" * (1 - Real.cos (ρ "flank_angle"))) / Real.tan (ρ "flank_angle") * Real.tan (ρ "flank_angle") = ρ "depth" - ρ "r2" * (1 - Real.cos (ρ "flank_angle")) := by
    field_simp
  linear_combination k - k2 - hc4'

theorem r124_depthNone_fa_closure (e : ℝ) (ρ σ : String → ℝ)
    (L : Link124 e r124_depthNone_fa_width r124_depthNone_fa_depth r124_depthNone_fa_r2 r124_depthNone_fa_alpha ρ σ)
    (A : AngleOK (ρ "flank_angle") (ρ "pad_angle")) (I : IndentOK (ρ "r2") (ρ "r4") (ρ "indent")) :
    σ "flank_angle" = ρ "flank_angle" ∧
    Expr.eval σ y4 - Expr.eval σ y3 = (Expr.eval σ z3 - Expr.eval σ z4) * Real.tan (ρ "flank_angle") := by
  obtain ⟨l1, l2, l3, l4, l5, l6, l7, l8, l9, l10, l11, l12⟩ := L
  simp only [r124_depthNone_fa_width, r124_depthNone_fa_depth, r124_depthNone_fa_r2, r124_depthNone_fa_alpha] at *
  norm_env
  have hh' : Real.cos ((σ "flank_angle" + σ "pad_angle") / 2) ≠ 0 := by rw [l6, l2]; exact A.h
  rw [eval_z3 σ hh', eval_y3 σ hh', z4_closed, y4_closed]
  refine ⟨l6, ?_⟩
  have hc4 := Real.cos_arccos I.lo I.hi
  simp only [lt, l1, l2, l3, l4, l5, l6, l7, l8, l9, l10, l11, l12, zero_sub, Real.sin_neg, Real.cos_neg, add_zero,
    zero_div, zero_add, sub_zero]
  set A4 := Real.arccos (1 - ρ "indent" / (ρ "r2" + ρ "r4")) with hA4
  have hc4' : (ρ "r2" + ρ "r4") * Real.cos A4 = ρ "r2" + ρ "r4" - ρ "indent" := by
    rw [hc4]; have := I.ne; field_simp
  have hs := A.s; have hc := A.c
  have htan : Real.tan (ρ "flank_angle") ≠ 0 := by rw [Real.tan_eq_sin_div_cos]; exact div_ne_zero hs hc
  have k : ρ "r1" * Real.tan ((ρ "flank_angle" + ρ "pad_angle") / 2) * Real.cos (ρ "flank_angle") * Real.tan (ρ "flank_angle") = ρ "r1" * Real.tan ((ρ "flank_angle" + ρ "pad_angle") / 2) * Real.sin (ρ "flank_angle") := by
    rw [Real.tan_eq_sin_div_cos (ρ "flank_angle")]; field_simp
  linear_combination k - hc4'

/-! ### r2 unknown: a root for the angle, then a fixed point for r2 (theorems for r4 = indent = 0, which is how every class
     calls the solver; for r4, indent > 0 the fixed-point equation of the code lacks a factor tan(flank_angle), see notes/C04.md) -/

theorem den_ne_zero (α : ℝ) (hc : Real.cos α ≠ 0) (h1 : Real.cos α ≠ 1) :
    1 - Real.cos α - Real.sin α * Real.tan α ≠ 0 := by
  rw [Real.tan_eq_sin_div_cos]
  have : 1 - Real.cos α - Real.sin α * (Real.sin α / Real.cos α) = (Real.cos α - 1) / Real.cos α := by
    field_simp; linear_combination (-1 : ℝ) * Real.sin_sq_add_cos_sq α
  rw [this]; exact div_ne_zero (sub_ne_zero.mpr h1) hc

theorem r124_r2None_free_closure (e : ℝ) (ρ σ : String → ℝ)
    (L : Link124 e r124_r2None_free_width r124_r2None_free_depth r124_r2None_free_r2 r124_r2None_free_alpha ρ σ)
    (A : AngleOK (ρ "root") (ρ "pad_angle")) (h1 : Real.cos (ρ "root") ≠ 1)
    (h4 : ρ "r4" = 0) (hi : ρ "indent" = 0)
    (hres : Expr.eval (upd ρ "_x0" (ρ "root")) r124_r2None_free_res0 = 0)
    (hfp : ρ "fp" = Expr.eval (upd ρ "_x0" (ρ "fp")) r124_r2None_free_o2_map0) :
    Expr.eval σ z3 - Expr.eval σ z4 = 0 ∧
    Expr.eval σ y4 - Expr.eval σ y3 = 0 := by
  obtain ⟨l1, l2, l3, l4, l5, l6, l7, l8, l9, l10, l11, l12⟩ := L
  simp only [r124_r2None_free_res0, r124_r2None_free_o2_map0, r124_r2None_free_width, r124_r2None_free_depth, r124_r2None_free_r2, r124_r2None_free_alpha] at *
  norm_env
  have hh' : Real.cos ((σ "flank_angle" + σ "pad_angle") / 2) ≠ 0 := by rw [l6, l2]; exact A.h
  rw [eval_z3 σ hh', eval_y3 σ hh', z4_closed, y4_closed]
  simp only [lt, l1, l2, l3, l4, l5, l6, l7, l8, l9, l10, l11, l12, h4, hi, zero_sub, Real.sin_neg, Real.cos_neg, add_zero,
    zero_div, zero_add, sub_zero, Real.arccos_one, Real.sin_zero, Real.cos_zero, mul_zero, zero_mul, neg_zero, mul_one] at *
  have hs := A.s; have hc := A.c
  have hD := den_ne_zero (ρ "root") hc h1
  have k : ρ "r1" * Real.tan ((ρ "root" + ρ "pad_angle") / 2) * Real.cos (ρ "root") * Real.tan (ρ "root") = ρ "r1" * Real.tan ((ρ "root" + ρ "pad_angle") / 2) * Real.sin (ρ "root") := by
    rw [Real.tan_eq_sin_div_cos (ρ "root")]; field_simp
  have h1c : 1 - Real.cos (ρ "root") ≠ 0 := sub_ne_zero.mpr (Ne.symm h1)
  have e3 : ρ "fp" * (1 - Real.cos (ρ "root") - Real.sin (ρ "root") * Real.tan (ρ "root")) = ρ "depth" - ρ "width" / 2 * Real.tan (ρ "root") :=
    (eq_div_iff hD).mp hfp
  generalize hQ : (ρ "depth" - ρ "r1" * Real.tan ((ρ "root" + ρ "pad_angle") / 2) * Real.sin (ρ "root")) / (1 - Real.cos (ρ "root")) = Q at hres
  have e1 : Q * (1 - Real.cos (ρ "root")) = ρ "depth" - ρ "r1" * Real.tan ((ρ "root" + ρ "pad_angle") / 2) * Real.sin (ρ "root") := by
    rw [← hQ]; field_simp
  have e2 : ρ "width" / 2 = Q * Real.sin (ρ "root") + ρ "r1" * Real.tan ((ρ "root" + ρ "pad_angle") / 2) * Real.cos (ρ "root") + 0 := by linear_combination hres
  have m : (0) * Real.tan (ρ "root") = 0 := by
    first | rfl | (rw [Real.tan_eq_sin_div_cos (ρ "root")]; field_simp <;> ring)
  have hq : (ρ "fp" - Q) * (1 - Real.cos (ρ "root") - Real.sin (ρ "root") * Real.tan (ρ "root")) = 0 := by
    linear_combination e3 - e1 - Real.tan (ρ "root") * e2 - k - m
  have hfq : ρ "fp" = Q := by
    rcases mul_eq_zero.mp hq with h | h
    · linarith
    · exact absurd h hD
  rw [hfq]
  constructor
  · linear_combination e2
  · linear_combination (-1 : ℝ) * e1

theorem r124_r2None_fw_closure (e : ℝ) (ρ σ : String → ℝ)
    (L : Link124 e r124_r2None_fw_width r124_r2None_fw_depth r124_r2None_fw_r2 r124_r2None_fw_alpha ρ σ)
    (A : AngleOK (ρ "root") (ρ "pad_angle")) (h1 : Real.cos (ρ "root") ≠ 1)
    (h4 : ρ "r4" = 0) (hi : ρ "indent" = 0)
    (hres : Expr.eval (upd ρ "_x0" (ρ "root")) r124_r2None_fw_res0 = 0)
    (hfp : ρ "fp" = Expr.eval (upd ρ "_x0" (ρ "fp")) r124_r2None_fw_o2_map0) :
    Expr.eval σ z3 - Expr.eval σ z4 = ρ "flank_width" ∧
    Expr.eval σ y4 - Expr.eval σ y3 = ρ "flank_width" * Real.tan (ρ "root") := by
  obtain ⟨l1, l2, l3, l4, l5, l6, l7, l8, l9, l10, l11, l12⟩ := L
  simp only [r124_r2None_fw_res0, r124_r2None_fw_o2_map0, r124_r2None_fw_width, r124_r2None_fw_depth, r124_r2None_fw_r2, r124_r2None_fw_alpha] at *
  norm_env
  have hh' : Real.cos ((σ "flank_angle" + σ "pad_angle") / 2) ≠ 0 := by rw [l6, l2]; exact A.h
  rw [eval_z3 σ hh', eval_y3 σ hh', z4_closed, y4_closed]
  simp only [lt, l1, l2, l3, l4, l5, l6, l7, l8, l9, l10, l11, l12, h4, hi, zero_sub, Real.sin_neg, Real.cos_neg, add_zero,
    zero_div, zero_add, sub_zero, Real.arccos_one, Real.sin_zero, Real.cos_zero, mul_zero, zero_mul, neg_zero, mul_one] at *
  have hs := A.s; have hc := A.c
  have hD := den_ne_zero (ρ "root") hc h1
  have k : ρ "r1" * Real.tan ((ρ "root" + ρ "pad_angle") / 2) * Real.cos (ρ "root") * Real.tan (ρ "root") = ρ "r1" * Real.tan ((ρ "root" + ρ "pad_angle") / 2) * Real.sin (ρ "root") := by
    rw [Real.tan_eq_sin_div_cos (ρ "root")]; field_simp
  have h1c : 1 - Real.cos (ρ "root") ≠ 0 := sub_ne_zero.mpr (Ne.symm h1)
  have e3 : ρ "fp" * (1 - Real.cos (ρ "root") - Real.sin (ρ "root") * Real.tan (ρ "root")) = ρ "depth" - ρ "width" / 2 * Real.tan (ρ "root") :=
    (eq_div_iff hD).mp hfp
  generalize hQ : (ρ "depth" - ρ "r1" * Real.tan ((ρ "root" + ρ "pad_angle") / 2) * Real.sin (ρ "root") - ρ "flank_width" * Real.tan (ρ "root")) / (1 - Real.cos (ρ "root")) = Q at hres
  have e1 : Q * (1 - Real.cos (ρ "root")) = ρ "depth" - ρ "r1" * Real.tan ((ρ "root" + ρ "pad_angle") / 2) * Real.sin (ρ "root") - ρ "flank_width" * Real.tan (ρ "root") := by
    rw [← hQ]; field_simp
  have e2 : ρ "width" / 2 = Q * Real.sin (ρ "root") + ρ "r1" * Real.tan ((ρ "root" + ρ "pad_angle") / 2) * Real.cos (ρ "root") + ρ "flank_width" := by linear_combination hres
  have m : (ρ "flank_width") * Real.tan (ρ "root") = ρ "flank_width" * Real.tan (ρ "root") := by
    first | rfl | (rw [Real.tan_eq_sin_div_cos (ρ "root")]; field_simp <;> ring)
  have hq : (ρ "fp" - Q) * (1 - Real.cos (ρ "root") - Real.sin (ρ "root") * Real.tan (ρ "root")) = 0 := by
    linear_combination e3 - e1 - Real.tan (ρ "root") * e2 - k - m
  have hfq : ρ "fp" = Q := by
    rcases mul_eq_zero.mp hq with h | h
    · linarith
    · exact absurd h hD
  rw [hfq]
  constructor
  · linear_combination e2
  · linear_combination (-1 : ℝ) * e1

theorem r124_r2None_fh_closure (e : ℝ) (ρ σ : String → ℝ)
    (L : Link124 e r124_r2None_fh_width r124_r2None_fh_depth r124_r2None_fh_r2 r124_r2None_fh_alpha ρ σ)
    (A : AngleOK (ρ "root") (ρ "pad_angle")) (h1 : Real.cos (ρ "root") ≠ 1)
    (h4 : ρ "r4" = 0) (hi : ρ "indent" = 0)
    (hres : Expr.eval (upd ρ "_x0" (ρ "root")) r124_r2None_fh_res0 = 0)
    (hfp : ρ "fp" = Expr.eval (upd ρ "_x0" (ρ "fp")) r124_r2None_fh_o2_map0) :
    Expr.eval σ z3 - Expr.eval σ z4 = ρ "flank_height" / Real.tan (ρ "root") ∧
    Expr.eval σ y4 - Expr.eval σ y3 = ρ "flank_height" := by
  obtain ⟨l1, l2, l3, l4, l5, l6, l7, l8, l9, l10, l11, l12⟩ := L
  simp only [r124_r2None_fh_res0, r124_r2None_fh_o2_map0, r124_r2None_fh_width, r124_r2None_fh_depth, r124_r2None_fh_r2, r124_r2None_fh_alpha] at *
  norm_env
  have hh' : Real.cos ((σ "flank_angle" + σ "pad_angle") / 2) ≠ 0 := by rw [l6, l2]; exact A.h
  rw [eval_z3 σ hh', eval_y3 σ hh', z4_closed, y4_closed]
  simp only [lt, l1, l2, l3, l4, l5, l6, l7, l8, l9, l10, l11, l12, h4, hi, zero_sub, Real.sin_neg, Real.cos_neg, add_zero,
    zero_div, zero_add, sub_zero, Real.arccos_one, Real.sin_zero, Real.cos_zero, mul_zero, zero_mul, neg_zero, mul_one] at *
  have hs := A.s; have hc := A.c
  have hD := den_ne_zero (ρ "root") hc h1
  have k : ρ "r1" * Real.tan ((ρ "root" + ρ "pad_angle") / 2) * Real.cos (ρ "root") * Real.tan (ρ "root") = ρ "r1" * Real.tan ((ρ "root" + ρ "pad_angle") / 2) * Real.sin (ρ "root") := by
    rw [Real.tan_eq_sin_div_cos (ρ "root")]; field_simp
  have h1c : 1 - Real.cos (ρ "root") ≠ 0 := sub_ne_zero.mpr (Ne.symm h1)
  have e3 : ρ "fp" * (1 - Real.cos (ρ "root") - Real.sin (ρ "root") * Real.tan (ρ "root")) = ρ "depth" - ρ "width" / 2 * Real.tan (ρ "root") :=
    (eq_div_iff hD).mp hfp
  generalize hQ : (ρ "depth" - ρ "r1" * Real.tan ((ρ "root" + ρ "pad_angle") / 2) * Real.sin (ρ "root") - ρ "flank_height") / (1 - Real.cos (ρ "root")) = Q at hres
  have e1 : Q * (1 - Real.cos (ρ "root")) = ρ "depth" - ρ "r1" * Real.tan ((ρ "root" + ρ "pad_angle") / 2) * Real.sin (ρ "root") - ρ "flank_height" := by
    rw [← hQ]; field_simp
  have e2 : ρ "width" / 2 = Q * Real.sin (ρ "root") + ρ "r1" * Real.tan ((ρ "root" + ρ "pad_angle") / 2) * Real.cos (ρ "root") + ρ "flank_height" / Real.tan (ρ "root") := by linear_combination hres
  have m : (ρ "flank_height" / Real.tan (ρ "root")) * Real.tan (ρ "root") = ρ "flank_height" := by
    first | rfl | (rw [Real.tan_eq_sin_div_cos (ρ "root")]; field_simp <;> ring)
  have hq : (ρ "fp" - Q) * (1 - Real.cos (ρ "root") - Real.sin (ρ "root") * Real.tan (ρ "root")) = 0 := by
    linear_combination e3 - e1 - Real.tan (ρ "root") * e2 - k - m
  have hfq : ρ "fp" = Q := by
    rcases mul_eq_zero.mp hq with h | h
    · linarith
    · exact absurd h hD
  rw [hfq]
  constructor
  · linear_combination e2
  · linear_combination (-1 : ℝ) * e1

theorem r124_r2None_fl_closure (e : ℝ) (ρ σ : String → ℝ)
    (L : Link124 e r124_r2None_fl_width r124_r2None_fl_depth r124_r2None_fl_r2 r124_r2None_fl_alpha ρ σ)
    (A : AngleOK (ρ "root") (ρ "pad_angle")) (h1 : Real.cos (ρ "root") ≠ 1)
    (h4 : ρ "r4" = 0) (hi : ρ "indent" = 0)
    (hres : Expr.eval (upd ρ "_x0" (ρ "root")) r124_r2None_fl_res0 = 0)
    (hfp : ρ "fp" = Expr.eval (upd ρ "_x0" (ρ "fp")) r124_r2None_fl_o2_map0) :
    Expr.eval σ z3 - Expr.eval σ z4 = ρ "flank_length" * Real.cos (ρ "root") ∧
    Expr.eval σ y4 - Expr.eval σ y3 = ρ "flank_length" * Real.sin (ρ "root") := by
  obtain ⟨l1, l2, l3, l4, l5, l6, l7, l8, l9, l10, l11, l12⟩ := L
  simp only [r124_r2None_fl_res0, r124_r2None_fl_o2_map0, r124_r2None_fl_width, r124_r2None_fl_depth, r124_r2None_fl_r2, r124_r2None_fl_alpha] at *
  norm_env
  have hh' : Real.cos ((σ "flank_angle" + σ "pad_angle") / 2) ≠ 0 := by rw [l6, l2]; exact A.h
  rw [eval_z3 σ hh', eval_y3 σ hh', z4_closed, y4_closed]
  simp only [lt, l1, l2, l3, l4, l5, l6, l7, l8, l9, l10, l11, l12, h4, hi, zero_sub, Real.sin_neg, Real.cos_neg, add_zero,
    zero_div, zero_add, sub_zero, Real.arccos_one, Real.sin_zero, Real.cos_zero, mul_zero, zero_mul, neg_zero, mul_one] at *
  have hs := A.s; have hc := A.c
  have hD := den_ne_zero (ρ "root") hc h1
  have k : ρ "r1" * Real.tan ((ρ "root" + ρ "pad_angle") / 2) * Real.cos (ρ "root") * Real.tan (ρ "root") = ρ "r1" * Real.tan ((ρ "root" + ρ "pad_angle") / 2) * Real.sin (ρ "root") := by
    rw [Real.tan_eq_sin_div_cos (ρ "root")]; field_simp
  have h1c : 1 - Real.cos (ρ "root") ≠ 0 := sub_ne_zero.mpr (Ne.symm h1)
  have e3 : ρ "fp" * (1 - Real.cos (ρ "root") - Real.sin (ρ "root") * Real.tan (ρ "root")) = ρ "depth" - ρ "width" / 2 * Real.tan (ρ "root") :=
    (eq_div_iff hD).mp hfp
  generalize hQ : (ρ "depth" - ρ "r1" * Real.tan ((ρ "root" + ρ "pad_angle") / 2) * Real.sin (ρ "root") - ρ "flank_length" * Real.sin (ρ "root")) / (1 - Real.cos (ρ "root")) = Q at hres
  have e1 : Q * (1 - Real.cos (ρ "root")) = ρ "depth" - ρ "r1" * Real.tan ((ρ "root" + ρ "pad_angle") / 2) * Real.sin (ρ "root") - ρ "flank_length" * Real.sin (ρ "root") := by
    rw [← hQ]; field_simp
  have e2 : ρ "width" / 2 = Q * Real.sin (ρ "root") + ρ "r1" * Real.tan ((ρ "root" + ρ "pad_angle") / 2) * Real.cos (ρ "root") + ρ "flank_length" * Real.cos (ρ "root") := by linear_combination hres
  have m : (ρ "flank_length" * Real.cos (ρ "root")) * Real.tan (ρ "root") = ρ "flank_length" * Real.sin (ρ "root") := by
    first | rfl | (rw [Real.tan_eq_sin_div_cos (ρ "root")]; field_simp <;> ring)
  have hq : (ρ "fp" - Q) * (1 - Real.cos (ρ "root") - Real.sin (ρ "root") * Real.tan (ρ "root")) = 0 := by
    linear_combination e3 - e1 - Real.tan (ρ "root") * e2 - k - m
  have hfq : ρ "fp" = Q := by
    rcases mul_eq_zero.mp hq with h | h
    · linarith
    · exact absurd h hD
  rw [hfq]
  constructor
  · linear_combination e2
  · linear_combination (-1 : ℝ) * e1

theorem r124_r2None_fa_closure (e : ℝ) (ρ σ : String → ℝ)
    (L : Link124 e r124_r2None_fa_width r124_r2None_fa_depth r124_r2None_fa_r2 r124_r2None_fa_alpha ρ σ)
    (A : AngleOK (ρ "flank_angle") (ρ "pad_angle")) (h1 : Real.cos (ρ "flank_angle") ≠ 1)
    (h4 : ρ "r4" = 0) (hi : ρ "indent" = 0)
    (hfp : ρ "fp" = Expr.eval (upd ρ "_x0" (ρ "fp")) r124_r2None_fa_map0) :
    σ "flank_angle" = ρ "flank_angle" ∧
    Expr.eval σ y4 - Expr.eval σ y3 = (Expr.eval σ z3 - Expr.eval σ z4) * Real.tan (ρ "flank_angle") := by
  obtain ⟨l1, l2, l3, l4, l5, l6, l7, l8, l9, l10, l11, l12⟩ := L
  simp only [r124_r2None_fa_map0, r124_r2None_fa_width, r124_r2None_fa_depth, r124_r2None_fa_r2, r124_r2None_fa_alpha] at *
  norm_env
  have hh' : Real.cos ((σ "flank_angle" + σ "pad_angle") / 2) ≠ 0 := by rw [l6, l2]; exact A.h
  rw [eval_z3 σ hh', eval_y3 σ hh', z4_closed, y4_closed]
  simp only [lt, l1, l2, l3, l4, l5, l6, l7, l8, l9, l10, l11, l12, h4, hi, zero_sub, Real.sin_neg, Real.cos_neg, add_zero,
    zero_div, zero_add, sub_zero, Real.arccos_one, Real.sin_zero, Real.cos_zero, mul_zero, zero_mul, neg_zero, mul_one] at *
  have hs := A.s; have hc := A.c
  have hD := den_ne_zero (ρ "flank_angle") hc h1
  have k : ρ "r1" * Real.tan ((ρ "flank_angle" + ρ "pad_angle") / 2) * Real.cos (ρ "flank_angle") * Real.tan (ρ "flank_angle") = ρ "r1" * Real.tan ((ρ "flank_angle" + ρ "pad_angle") / 2) * Real.sin (ρ "flank_angle") := by
    rw [Real.tan_eq_sin_div_cos (ρ "flank_angle")]; field_simp
  refine ⟨l6, ?_⟩
  have e3 : ρ "fp" * (1 - Real.cos (ρ "flank_angle") - Real.sin (ρ "flank_angle") * Real.tan (ρ "flank_angle")) = ρ "depth" - ρ "width" / 2 * Real.tan (ρ "flank_angle") :=
    (eq_div_iff hD).mp hfp
  linear_combination k - e3

end r124

/-! ## `solve_r123` (three-radius grooves) and `solve_r1234` (constricted circular oval) -/
section r123

/-- What `GenericElongationGroove.__init__` receives from a three-radius constructor (Oval3Radii, Oval3RadiiFlanked,
    UpsetOval, Gothic, EquivalentRibbed): `solve_r123` results `fa a3`; no constriction. -/
structure Link123 (fa a3 : Expr) (ρ σ : String → ℝ) : Prop where
  r1 : σ "r1" = ρ "r1"
  pad : σ "pad_angle" = ρ "pad_angle"
  r2 : σ "r2" = ρ "r2"
  r3 : σ "r3" = ρ "r3"
  depth : σ "depth" = ρ "depth"
  uw : σ "usable_width" = ρ "width"
  fa : σ "flank_angle" = Expr.eval ρ fa
  a3 : σ "alpha3" = Expr.eval ρ a3
  r4 : σ "r4" = 0
  a4 : σ "alpha4" = 0
  ind : σ "indent" = 0
  egw : σ "even_ground_width" = 0

/-- … from ConstrictedCircularOval: `solve_r1234` is called with `width = usable_width − even_ground_width`. -/
structure Link1234 (fa a3 a4 : Expr) (ρ σ : String → ℝ) : Prop where
  r1 : σ "r1" = ρ "r1"
  pad : σ "pad_angle" = ρ "pad_angle"
  r2 : σ "r2" = ρ "r2"
  r3 : σ "r3" = ρ "r3"
  r4 : σ "r4" = ρ "r4"
  depth : σ "depth" = ρ "depth"
  ind : σ "indent" = ρ "indent"
  uw : σ "usable_width" = ρ "width" + σ "even_ground_width"
  fa : σ "flank_angle" = Expr.eval ρ fa
  a3 : σ "alpha3" = Expr.eval ρ a3
  a4 : σ "alpha4" = Expr.eval ρ a4

/-- the deepest point of a three-radius groove is the groove centre = top of the `r3` circle, at `depth` -/
theorem r123_depth_reached (fa a3 : Expr) (ρ σ : String → ℝ) (L : Link123 fa a3 ρ σ) :
    Expr.eval σ y9 = σ "depth" ∧ Expr.eval σ y10 + σ "r3" = σ "depth" := by
  obtain ⟨l1, l2, l3, l4, l5, l6, l7, l8, l9, l10, l11, l12⟩ := L
  rw [eval_y9, eval_y10, eval_y6, l9, l10, l11]
  simp

/-! ### flank free / width / height / length given: a 2×2 system for (alpha2, alpha3); its two components ARE the two
     flank dimensions of the traced chain -/

theorem r123_free_closure (ρ σ : String → ℝ)
    (L : Link123 r123_free_flank_angle r123_free_alpha3 ρ σ)
    (A : AngleOK (ρ "root0" + ρ "root1") (ρ "pad_angle"))
    (hres0 : Expr.eval (upd (upd ρ "_x0" (ρ "root0")) "_x1" (ρ "root1")) r123_free_res0 = 0)
    (hres1 : Expr.eval (upd (upd ρ "_x0" (ρ "root0")) "_x1" (ρ "root1")) r123_free_res1 = 0) :
    Expr.eval σ z3 - Expr.eval σ z4 = 0 ∧
    Expr.eval σ y4 - Expr.eval σ y3 = 0 := by
  obtain ⟨l1, l2, l3, l4, l5, l6, l7, l8, l9, l10, l11, l12⟩ := L
  simp only [r123_free_res0, r123_free_res1, r123_free_flank_angle, r123_free_alpha3] at *
  norm_env
  have hh' : Real.cos ((σ "flank_angle" + σ "pad_angle") / 2) ≠ 0 := by rw [l7, l2]; exact A.h
  rw [eval_z3 σ hh', eval_y3 σ hh', z4_closed, y4_closed]
  simp only [lt, l1, l2, l3, l4, l5, l6, l7, l8, l9, l10, l11, l12, sub_zero, Real.sin_zero, Real.cos_zero, add_zero,
    zero_div, zero_add, mul_zero, mul_one, Real.sin_pi_div_two_sub, Real.cos_pi_div_two_sub] at *
  constructor
  · linear_combination hres1
  · linear_combination hres0

theorem r123_fw_closure (ρ σ : String → ℝ)
    (L : Link123 r123_fw_flank_angle r123_fw_alpha3 ρ σ)
    (A : AngleOK (ρ "root0" + ρ "root1") (ρ "pad_angle"))
    (hres0 : Expr.eval (upd (upd ρ "_x0" (ρ "root0")) "_x1" (ρ "root1")) r123_fw_res0 = 0)
    (hres1 : Expr.eval (upd (upd ρ "_x0" (ρ "root0")) "_x1" (ρ "root1")) r123_fw_res1 = 0) :
    Expr.eval σ z3 - Expr.eval σ z4 = ρ "flank_width" ∧
    Expr.eval σ y4 - Expr.eval σ y3 = ρ "flank_width" * Real.tan (ρ "root0" + ρ "root1") := by
  obtain ⟨l1, l2, l3, l4, l5, l6, l7, l8, l9, l10, l11, l12⟩ := L
  simp only [r123_fw_res0, r123_fw_res1, r123_fw_flank_angle, r123_fw_alpha3] at *
  norm_env
  have hh' : Real.cos ((σ "flank_angle" + σ "pad_angle") / 2) ≠ 0 := by rw [l7, l2]; exact A.h
  rw [eval_z3 σ hh', eval_y3 σ hh', z4_closed, y4_closed]
  simp only [lt, l1, l2, l3, l4, l5, l6, l7, l8, l9, l10, l11, l12, sub_zero, Real.sin_zero, Real.cos_zero, add_zero,
    zero_div, zero_add, mul_zero, mul_one, Real.sin_pi_div_two_sub, Real.cos_pi_div_two_sub] at *
  constructor
  · linear_combination hres1
  · linear_combination hres0

theorem r123_fh_closure (ρ σ : String → ℝ)
    (L : Link123 r123_fh_flank_angle r123_fh_alpha3 ρ σ)
    (A : AngleOK (ρ "root0" + ρ "root1") (ρ "pad_angle"))
    (hres0 : Expr.eval (upd (upd ρ "_x0" (ρ "root0")) "_x1" (ρ "root1")) r123_fh_res0 = 0)
    (hres1 : Expr.eval (upd (upd ρ "_x0" (ρ "root0")) "_x1" (ρ "root1")) r123_fh_res1 = 0) :
    Expr.eval σ z3 - Expr.eval σ z4 = ρ "flank_height" / Real.tan (ρ "root0" + ρ "root1") ∧
    Expr.eval σ y4 - Expr.eval σ y3 = ρ "flank_height" := by
  obtain ⟨l1, l2, l3, l4, l5, l6, l7, l8, l9, l10, l11, l12⟩ := L
  simp only [r123_fh_res0, r123_fh_res1, r123_fh_flank_angle, r123_fh_alpha3] at *
  norm_env
  have hh' : Real.cos ((σ "flank_angle" + σ "pad_angle") / 2) ≠ 0 := by rw [l7, l2]; exact A.h
  rw [eval_z3 σ hh', eval_y3 σ hh', z4_closed, y4_closed]
  simp only [lt, l1, l2, l3, l4, l5, l6, l7, l8, l9, l10, l11, l12, sub_zero, Real.sin_zero, Real.cos_zero, add_zero,
    zero_div, zero_add, mul_zero, mul_one, Real.sin_pi_div_two_sub, Real.cos_pi_div_two_sub] at *
  constructor
  · linear_combination hres1
  · linear_combination hres0

theorem r123_fl_closure (ρ σ : String → ℝ)
    (L : Link123 r123_fl_flank_angle r123_fl_alpha3 ρ σ)
    (A : AngleOK (ρ "root0" + ρ "root1") (ρ "pad_angle"))
    (hres0 : Expr.eval (upd (upd ρ "_x0" (ρ "root0")) "_x1" (ρ "root1")) r123_fl_res0 = 0)
    (hres1 : Expr.eval (upd (upd ρ "_x0" (ρ "root0")) "_x1" (ρ "root1")) r123_fl_res1 = 0) :
    Expr.eval σ z3 - Expr.eval σ z4 = ρ "flank_length" * Real.cos (ρ "root0" + ρ "root1") ∧
    Expr.eval σ y4 - Expr.eval σ y3 = ρ "flank_length" * Real.sin (ρ "root0" + ρ "root1") := by
  obtain ⟨l1, l2, l3, l4, l5, l6, l7, l8, l9, l10, l11, l12⟩ := L
  simp only [r123_fl_res0, r123_fl_res1, r123_fl_flank_angle, r123_fl_alpha3] at *
  norm_env
  have hh' : Real.cos ((σ "flank_angle" + σ "pad_angle") / 2) ≠ 0 := by rw [l7, l2]; exact A.h
  rw [eval_z3 σ hh', eval_y3 σ hh', z4_closed, y4_closed]
  simp only [lt, l1, l2, l3, l4, l5, l6, l7, l8, l9, l10, l11, l12, sub_zero, Real.sin_zero, Real.cos_zero, add_zero,
    zero_div, zero_add, mul_zero, mul_one, Real.sin_pi_div_two_sub, Real.cos_pi_div_two_sub] at *
  constructor
  · linear_combination hres1
  · linear_combination hres0

theorem r123_fa_closure (ρ σ : String → ℝ)
    (L : Link123 r123_fa_flank_angle r123_fa_alpha3 ρ σ)
    (A : AngleOK (ρ "flank_angle") (ρ "pad_angle"))
    (hres : Expr.eval (upd ρ "_x0" (ρ "root")) r123_fa_res0 = 0) :
    σ "flank_angle" = ρ "flank_angle" ∧
    Expr.eval σ y4 - Expr.eval σ y3 = (Expr.eval σ z3 - Expr.eval σ z4) * Real.tan (ρ "flank_angle") := by
  obtain ⟨l1, l2, l3, l4, l5, l6, l7, l8, l9, l10, l11, l12⟩ := L
  simp only [r123_fa_res0, r123_fa_flank_angle, r123_fa_alpha3] at *
  norm_env
  have hh' : Real.cos ((σ "flank_angle" + σ "pad_angle") / 2) ≠ 0 := by rw [l7, l2]; exact A.h
  refine ⟨l7, ?_⟩
  rw [eval_z3 σ hh', eval_y3 σ hh', z4_closed, y4_closed]
  simp only [lt, l1, l2, l3, l4, l5, l6, l7, l8, l9, l10, l11, l12, sub_zero, Real.sin_zero, Real.cos_zero, add_zero,
    zero_div, zero_add, mul_zero, mul_one, Real.sin_pi_div_two_sub, Real.cos_pi_div_two_sub] at *
  linear_combination hres

/-! ### constricted circular oval: 3×3 system, two geometric configurations (`alpha3 > alpha4`: the r3 arc passes the
     horizontal, its top is the deepest point; otherwise the r2 arc does) -/

theorem r1234_free_closure_a (ρ σ : String → ℝ)
    (L : Link1234 r1234_free_flank_angle r1234_free_alpha3 r1234_free_alpha4 ρ σ)
    (A : AngleOK (ρ "root0" + ρ "root1" - ρ "root2") (ρ "pad_angle")) (hg : ρ "root1" > ρ "root2")
    (hres0 : Expr.eval (upd (upd (upd ρ "_x0" (ρ "root0")) "_x1" (ρ "root1")) "_x2" (ρ "root2")) r1234_free_res0a = 0)
    (hres1 : Expr.eval (upd (upd (upd ρ "_x0" (ρ "root0")) "_x1" (ρ "root1")) "_x2" (ρ "root2")) r1234_free_res1a = 0)
    (hres2 : Expr.eval (upd (upd (upd ρ "_x0" (ρ "root0")) "_x1" (ρ "root1")) "_x2" (ρ "root2")) r1234_free_res2a = 0) :
    Expr.eval σ z3 - Expr.eval σ z4 = 0 ∧
    Expr.eval σ y4 - Expr.eval σ y3 = 0 ∧
    Expr.eval σ y10 + σ "r3" = σ "depth" := by
  obtain ⟨l1, l2, l3, l4, l5, l6, l7, l8, l9, l10, l11⟩ := L
  simp only [r1234_free_res0a, r1234_free_res1a, r1234_free_res2a, r1234_free_flank_angle, r1234_free_alpha3, r1234_free_alpha4] at *
  norm_env
  have hh' : Real.cos ((σ "flank_angle" + σ "pad_angle") / 2) ≠ 0 := by rw [l9, l2]; exact A.h
  rw [eval_z3 σ hh', eval_y3 σ hh', z4_closed, y4_closed, eval_y10, eval_y6]
  simp only [lt, l1, l2, l3, l4, l5, l6, l7, l8, l9, l10, l11, Real.sin_pi_div_two_sub, Real.cos_pi_div_two_sub] at *
  refine ⟨?_, ?_, ?_⟩
  · linear_combination hres1
  · linear_combination hres0 - hres2
  · linear_combination (-1 : ℝ) * hres2

theorem r1234_free_closure_b (ρ σ : String → ℝ)
    (L : Link1234 r1234_free_flank_angle r1234_free_alpha3 r1234_free_alpha4 ρ σ)
    (A : AngleOK (ρ "root0" + ρ "root1" - ρ "root2") (ρ "pad_angle")) (hg : ¬ ρ "root1" > ρ "root2")
    (hres0 : Expr.eval (upd (upd (upd ρ "_x0" (ρ "root0")) "_x1" (ρ "root1")) "_x2" (ρ "root2")) r1234_free_res0b = 0)
    (hres1 : Expr.eval (upd (upd (upd ρ "_x0" (ρ "root0")) "_x1" (ρ "root1")) "_x2" (ρ "root2")) r1234_free_res1b = 0)
    (hres2 : Expr.eval (upd (upd (upd ρ "_x0" (ρ "root0")) "_x1" (ρ "root1")) "_x2" (ρ "root2")) r1234_free_res2b = 0) :
    Expr.eval σ z3 - Expr.eval σ z4 = 0 ∧
    Expr.eval σ y4 - Expr.eval σ y3 = 0 ∧
    Expr.eval σ y11 + σ "r2" = σ "depth" := by
  obtain ⟨l1, l2, l3, l4, l5, l6, l7, l8, l9, l10, l11⟩ := L
  simp only [r1234_free_res0b, r1234_free_res1b, r1234_free_res2b, r1234_free_flank_angle, r1234_free_alpha3, r1234_free_alpha4] at *
  norm_env
  have hh' : Real.cos ((σ "flank_angle" + σ "pad_angle") / 2) ≠ 0 := by rw [l9, l2]; exact A.h
  rw [eval_z3 σ hh', eval_y3 σ hh', z4_closed, y4_closed, eval_y11, eval_y10, eval_y6]
  simp only [lt, l1, l2, l3, l4, l5, l6, l7, l8, l9, l10, l11, Real.sin_pi_div_two_sub, Real.cos_pi_div_two_sub] at *
  have hx : ρ "root0" - (ρ "root0" + ρ "root1" - ρ "root2") = -(ρ "root1" - ρ "root2") := by ring
  have hy : ρ "root2" - ρ "root1" = -(ρ "root1" - ρ "root2") := by ring
  rw [hx, Real.sin_neg] at hres1
  rw [hy, Real.cos_neg] at hres2
  refine ⟨?_, ?_, ?_⟩
  · linear_combination hres1
  · linear_combination hres0 - hres2
  · linear_combination (-1 : ℝ) * hres2

/-- constricted circular oval, every pad angle: what `solve_r1234` resolves (a root of its residual) is handed out by the
    generic constructor's plausibility test, in both geometric configurations -/
theorem r1234_free_not_refused_a (ρ σ : String → ℝ)
    (L : Link1234 r1234_free_flank_angle r1234_free_alpha3 r1234_free_alpha4 ρ σ)
    (A : AngleOK (ρ "root0" + ρ "root1" - ρ "root2") (ρ "pad_angle")) (hg : ρ "root1" > ρ "root2")
    (hres0 : Expr.eval (upd (upd (upd ρ "_x0" (ρ "root0")) "_x1" (ρ "root1")) "_x2" (ρ "root2")) r1234_free_res0a = 0)
    (hres1 : Expr.eval (upd (upd (upd ρ "_x0" (ρ "root0")) "_x1" (ρ "root1")) "_x2" (ρ "root2")) r1234_free_res1a = 0)
    (hres2 : Expr.eval (upd (upd (upd ρ "_x0" (ρ "root0")) "_x1" (ρ "root1")) "_x2" (ρ "root2")) r1234_free_res2a = 0)
    (hd : 0 ≤ σ "depth") (hz : 0 ≤ Expr.eval σ z0) : ∀ c ∈ plausibility, ¬ Fires σ c := by
  obtain ⟨h1, h2, -⟩ := r1234_free_closure_a ρ σ L A hg hres0 hres1 hres2
  exact not_refused_of_dims σ 0 0 h1 h2 (by ring) hd hz

theorem r1234_free_not_refused_b (ρ σ : String → ℝ)
    (L : Link1234 r1234_free_flank_angle r1234_free_alpha3 r1234_free_alpha4 ρ σ)
    (A : AngleOK (ρ "root0" + ρ "root1" - ρ "root2") (ρ "pad_angle")) (hg : ¬ ρ "root1" > ρ "root2")
    (hres0 : Expr.eval (upd (upd (upd ρ "_x0" (ρ "root0")) "_x1" (ρ "root1")) "_x2" (ρ "root2")) r1234_free_res0b = 0)
    (hres1 : Expr.eval (upd (upd (upd ρ "_x0" (ρ "root0")) "_x1" (ρ "root1")) "_x2" (ρ "root2")) r1234_free_res1b = 0)
    (hres2 : Expr.eval (upd (upd (upd ρ "_x0" (ρ "root0")) "_x1" (ρ "root1")) "_x2" (ρ "root2")) r1234_free_res2b = 0)
    (hd : 0 ≤ σ "depth") (hz : 0 ≤ Expr.eval σ z0) : ∀ c ∈ plausibility, ¬ Fires σ c := by
  obtain ⟨h1, h2, -⟩ := r1234_free_closure_b ρ σ L A hg hres0 hres1 hres2
  exact not_refused_of_dims σ 0 0 h1 h2 (by ring) hd hz

theorem r1234_fw_closure_a (ρ σ : String → ℝ)
    (L : Link1234 r1234_fw_flank_angle r1234_fw_alpha3 r1234_fw_alpha4 ρ σ)
    (A : AngleOK (ρ "root0" + ρ "root1" - ρ "root2") (ρ "pad_angle")) (hg : ρ "root1" > ρ "root2")
    (hres0 : Expr.eval (upd (upd (upd ρ "_x0" (ρ "root0")) "_x1" (ρ "root1")) "_x2" (ρ "root2")) r1234_fw_res0a = 0)
    (hres1 : Expr.eval (upd (upd (upd ρ "_x0" (ρ "root0")) "_x1" (ρ "root1")) "_x2" (ρ "root2")) r1234_fw_res1a = 0)
    (hres2 : Expr.eval (upd (upd (upd ρ "_x0" (ρ "root0")) "_x1" (ρ "root1")) "_x2" (ρ "root2")) r1234_fw_res2a = 0) :
    Expr.eval σ z3 - Expr.eval σ z4 = ρ "flank_width" ∧
    Expr.eval σ y4 - Expr.eval σ y3 = ρ "flank_width" * Real.tan (ρ "root0" + ρ "root1" - ρ "root2") ∧
    Expr.eval σ y10 + σ "r3" = σ "depth" := by
  obtain ⟨l1, l2, l3, l4, l5, l6, l7, l8, l9, l10, l11⟩ := L
  simp only [r1234_fw_res0a, r1234_fw_res1a, r1234_fw_res2a, r1234_fw_flank_angle, r1234_fw_alpha3, r1234_fw_alpha4] at *
  norm_env
  have hh' : Real.cos ((σ "flank_angle" + σ "pad_angle") / 2) ≠ 0 := by rw [l9, l2]; exact A.h
  rw [eval_z3 σ hh', eval_y3 σ hh', z4_closed, y4_closed, eval_y10, eval_y6]
  simp only [lt, l1, l2, l3, l4, l5, l6, l7, l8, l9, l10, l11, Real.sin_pi_div_two_sub, Real.cos_pi_div_two_sub] at *
  refine ⟨?_, ?_, ?_⟩
  · linear_combination hres1
  · linear_combination hres0 - hres2
  · linear_combination (-1 : ℝ) * hres2

theorem r1234_fw_closure_b (ρ σ : String → ℝ)
    (L : Link1234 r1234_fw_flank_angle r1234_fw_alpha3 r1234_fw_alpha4 ρ σ)
    (A : AngleOK (ρ "root0" + ρ "root1" - ρ "root2") (ρ "pad_angle")) (hg : ¬ ρ "root1" > ρ "root2")
    (hres0 : Expr.eval (upd (upd (upd ρ "_x0" (ρ "root0")) "_x1" (ρ "root1")) "_x2" (ρ "root2")) r1234_fw_res0b = 0)
    (hres1 : Expr.eval (upd (upd (upd ρ "_x0" (ρ "root0")) "_x1" (ρ "root1")) "_x2" (ρ "root2")) r1234_fw_res1b = 0)
    (hres2 : Expr.eval (upd (upd (upd ρ "_x0" (ρ "root0")) "_x1" (ρ "root1")) "_x2" (ρ "root2")) r1234_fw_res2b = 0) :
    Expr.eval σ z3 - Expr.eval σ z4 = ρ "flank_width" ∧
    Expr.eval σ y4 - Expr.eval σ y3 = ρ "flank_width" * Real.tan (ρ "root0" + ρ "root1" - ρ "root2") ∧
    Expr.eval σ y11 + σ "r2" = σ "depth" := by
  obtain ⟨l1, l2, l3, l4, l5, l6, l7, l8, l9, l10, l11⟩ := L
  simp only [r1234_fw_res0b, r1234_fw_res1b, r1234_fw_res2b, r1234_fw_flank_angle, r1234_fw_alpha3, r1234_fw_alpha4] at *
  norm_env
  have hh' : Real.cos ((σ "flank_angle" + σ "pad_angle") / 2) ≠ 0 := by rw [l9, l2]; exact A.h
  rw [eval_z3 σ hh', eval_y3 σ hh', z4_closed, y4_closed, eval_y11, eval_y10, eval_y6]
  simp only [lt, l1, l2, l3, l4, l5, l6, l7, l8, l9, l10, l11, Real.sin_pi_div_two_sub, Real.cos_pi_div_two_sub] at *
  have hx : ρ "root0" - (ρ "root0" + ρ "root1" - ρ "root2") = -(ρ "root1" - ρ "root2") := by ring
  have hy : ρ "root2" - ρ "root1" = -(ρ "root1" - ρ "root2") := by ring
  rw [hx, Real.sin_neg] at hres1
  rw [hy, Real.cos_neg] at hres2
  refine ⟨?_, ?_, ?_⟩
  · linear_combination hres1
  · linear_combination hres0 - hres2
  · linear_combination (-1 : ℝ) * hres2

theorem r1234_fh_closure_a (ρ σ : String → ℝ)
    (L : Link1234 r1234_fh_flank_angle r1234_fh_alpha3 r1234_fh_alpha4 ρ σ)
    (A : AngleOK (ρ "root0" + ρ "root1" - ρ "root2") (ρ "pad_angle")) (hg : ρ "root1" > ρ "root2")
    (hres0 : Expr.eval (upd (upd (upd ρ "_x0" (ρ "root0")) "_x1" (ρ "root1")) "_x2" (ρ "root2")) r1234_fh_res0a = 0)
    (hres1 : Expr.eval (upd (upd (upd ρ "_x0" (ρ "root0")) "_x1" (ρ "root1")) "_x2" (ρ "root2")) r1234_fh_res1a = 0)
    (hres2 : Expr.eval (upd (upd (upd ρ "_x0" (ρ "root0")) "_x1" (ρ "root1")) "_x2" (ρ "root2")) r1234_fh_res2a = 0) :
    Expr.eval σ z3 - Expr.eval σ z4 = ρ "flank_height" / Real.tan (ρ "root0" + ρ "root1" - ρ "root2") ∧
    Expr.eval σ y4 - Expr.eval σ y3 = ρ "flank_height" ∧
    Expr.eval σ y10 + σ "r3" = σ "depth" := by
  obtain ⟨l1, l2, l3, l4, l5, l6, l7, l8, l9, l10, l11⟩ := L
  simp only [r1234_fh_res0a, r1234_fh_res1a, r1234_fh_res2a, r1234_fh_flank_angle, r1234_fh_alpha3, r1234_fh_alpha4] at *
  norm_env
  have hh' : Real.cos ((σ "flank_angle" + σ "pad_angle") / 2) ≠ 0 := by rw [l9, l2]; exact A.h
  rw [eval_z3 σ hh', eval_y3 σ hh', z4_closed, y4_closed, eval_y10, eval_y6]
  simp only [lt, l1, l2, l3, l4, l5, l6, l7, l8, l9, l10, l11, Real.sin_pi_div_two_sub, Real.cos_pi_div_two_sub] at *
  refine ⟨?_, ?_, ?_⟩
  · linear_combination hres1
  · linear_combination hres0 - hres2
  · linear_combination (-1 : ℝ) * hres2

theorem r1234_fh_closure_b (ρ σ : String → ℝ)
    (L : Link1234 r1234_fh_flank_angle r1234_fh_alpha3 r1234_fh_alpha4 ρ σ)
    (A : AngleOK (ρ "root0" + ρ "root1" - ρ "root2") (ρ "pad_angle")) (hg : ¬ ρ "root1" > ρ "root2")
    (hres0 : Expr.eval (upd (upd (upd ρ "_x0" (ρ "root0")) "_x1" (ρ "root1")) "_x2" (ρ "root2")) r1234_fh_res0b = 0)
    (hres1 : Expr.eval (upd (upd (upd ρ "_x0" (ρ "root0")) "_x1" (ρ "root1")) "_x2" (ρ "root2")) r1234_fh_res1b = 0)
    (hres2 : Expr.eval (upd (upd (upd ρ "_x0" (ρ "root0")) "_x1" (ρ "root1")) "_x2" (ρ "root2")) r1234_fh_res2b = 0) :
    Expr.eval σ z3 - Expr.eval σ z4 = ρ "flank_height" / Real.tan (ρ "root0" + ρ "root1" - ρ "root2") ∧
    Expr.eval σ y4 - Expr.eval σ y3 = ρ "flank_height" ∧
    Expr.eval σ y11 + σ "r2" = σ "depth" := by
  obtain ⟨l1, l2, l3, l4, l5, l6, l7, l8, l9, l10, l11⟩ := L
  simp only [r1234_fh_res0b, r1234_fh_res1b, r1234_fh_res2b, r1234_fh_flank_angle, r1234_fh_alpha3, r1234_fh_alpha4] at *
  norm_env
  have hh' : Real.cos ((σ "flank_angle" + σ "pad_angle") / 2) ≠ 0 := by rw [l9, l2]; exact A.h
  rw [eval_z3 σ hh', eval_y3 σ hh', z4_closed, y4_closed, eval_y11, eval_y10, eval_y6]
  simp only [lt, l1, l2, l3, l4, l5, l6, l7, l8, l9, l10, l11, Real.sin_pi_div_two_sub, Real.cos_pi_div_two_sub] at *
  have hx : ρ "root0" - (ρ "root0" + ρ "root1" - ρ "root2") = -(ρ "root1" - ρ "root2") := by ring
  have hy : ρ "root2" - ρ "root1" = -(ρ "root1" - ρ "root2") := by ring
  rw [hx, Real.sin_neg] at hres1
  rw [hy, Real.cos_neg] at hres2
  refine ⟨?_, ?_, ?_⟩
  · linear_combination hres1
  · linear_combination hres0 - hres2
  · linear_combination (-1 : ℝ) * hres2

theorem r1234_fl_closure_a (ρ σ : String → ℝ)
    (L : Link1234 r1234_fl_flank_angle r1234_fl_alpha3 r1234_fl_alpha4 ρ σ)
    (A : AngleOK (ρ "root0" + ρ "root1" - ρ "root2") (ρ "pad_angle")) (hg : ρ "root1" > ρ "root2")
    (hres0 : Expr.eval (upd (upd (upd ρ "_x0" (ρ "root0")) "_x1" (ρ "root1")) "_x2" (ρ "root2")) r1234_fl_res0a = 0)
    (hres1 : Expr.eval (upd (upd (upd ρ "_x0" (ρ "root0")) "_x1" (ρ "root1")) "_x2" (ρ "root2")) r1234_fl_res1a = 0)
    (hres2 : Expr.eval (upd (upd (upd ρ "_x0" (ρ "root0")) "_x1" (ρ "root1")) "_x2" (ρ "root2")) r1234_fl_res2a = 0) :
    Expr.eval σ z3 - Expr.eval σ z4 = ρ "flank_length" * Real.cos (ρ "root0" + ρ "root1" - ρ "root2") ∧
    Expr.eval σ y4 - Expr.eval σ y3 = ρ "flank_length" * Real.sin (ρ "root0" + ρ "root1" - ρ "root2") ∧
    Expr.eval σ y10 + σ "r3" = σ "depth" := by
  obtain ⟨l1, l2, l3, l4, l5, l6, l7, l8, l9, l10, l11⟩ := L
  simp only [r1234_fl_res0a, r1234_fl_res1a, r1234_fl_res2a, r1234_fl_flank_angle, r1234_fl_alpha3, r1234_fl_alpha4] at *
  norm_env
  have hh' : Real.cos ((σ "flank_angle" + σ "pad_angle") / 2) ≠ 0 := by rw [l9, l2]; exact A.h
  rw [eval_z3 σ hh', eval_y3 σ hh', z4_closed, y4_closed, eval_y10, eval_y6]
  simp only [lt, l1, l2, l3, l4, l5, l6, l7, l8, l9, l10, l11, Real.sin_pi_div_two_sub, Real.cos_pi_div_two_sub] at *
  refine ⟨?_, ?_, ?_⟩
  · linear_combination hres1
  · linear_combination hres0 - hres2
  · linear_combination (-1 : ℝ) * hres2

theorem r1234_fl_closure_b (ρ σ : String → ℝ)
    (L : Link1234 r1234_fl_flank_angle r1234_fl_alpha3 r1234_fl_alpha4 ρ σ)
    (A : AngleOK (ρ "root0" + ρ "root1" - ρ "root2") (ρ "pad_angle")) (hg : ¬ ρ "root1" > ρ "root2")
    (hres0 : Expr.eval (upd (upd (upd ρ "_x0" (ρ "root0")) "_x1" (ρ "root1")) "_x2" (ρ "root2")) r1234_fl_res0b = 0)
    (hres1 : Expr.eval (upd (upd (upd ρ "_x0" (ρ "root0")) "_x1" (ρ "root1")) "_x2" (ρ "root2")) r1234_fl_res1b = 0)
    (hres2 : Expr.eval (upd (upd (upd ρ "_x0" (ρ "root0")) "_x1" (ρ "root1")) "_x2" (ρ "root2")) r1234_fl_res2b = 0) :
    Expr.eval σ z3 - Expr.eval σ z4 = ρ "flank_length" * Real.cos (ρ "root0" + ρ "root1" - ρ "root2") ∧
    Expr.eval σ y4 - Expr.eval σ y3 = ρ "flank_length" * Real.sin (ρ "root0" + ρ "root1" - ρ "root2") ∧
    Expr.eval σ y11 + σ "r2" = σ "depth" := by
  obtain ⟨l1, l2, l3, l4, l5, l6, l7, l8, l9, l10, l11⟩ := L
  simp only [r1234_fl_res0b, r1234_fl_res1b, r1234_fl_res2b, r1234_fl_flank_angle, r1234_fl_alpha3, r1234_fl_alpha4] at *
  norm_env
  have hh' : Real.cos ((σ "flank_angle" + σ "pad_angle") / 2) ≠ 0 := by rw [l9, l2]; exact A.h
  rw [eval_z3 σ hh', eval_y3 σ hh', z4_closed, y4_closed, eval_y11, eval_y10, eval_y6]
  simp only [lt, l1, l2, l3, l4, l5, l6, l7, l8, l9, l10, l11, Real.sin_pi_div_two_sub, Real.cos_pi_div_two_sub] at *
  have hx : ρ "root0" - (ρ "root0" + ρ "root1" - ρ "root2") = -(ρ "root1" - ρ "root2") := by ring
  have hy : ρ "root2" - ρ "root1" = -(ρ "root1" - ρ "root2") := by ring
  rw [hx, Real.sin_neg] at hres1
  rw [hy, Real.cos_neg] at hres2
  refine ⟨?_, ?_, ?_⟩
  · linear_combination hres1
  · linear_combination hres0 - hres2
  · linear_combination (-1 : ℝ) * hres2

/-! ### `solve_r1234` with the flank angle given — not carried.
The residual of this branch computes its flank width as `width/2 − (r3−r2)·sin α3 − …` (copied from `solve_r123`): the terms
`sin(α3 − α4)` and `(r3+r4)·sin α4` of the constricted chain are missing, so `res = 0` does not give `NoStep`; on feasible
inputs scipy does not converge and the constructor raises (observed by the harness; no groove class reaches the branch).
The full statement is kept; only the constriction half is proved here.  `PyrollProps/C04Boundary.lean` settles it: the step
at a root is exactly `tan(fa)·((r3+r4)·sin α4 + (r3−r2)·(sin(α3−α4) − sin α3))` (`r1234_fa_step_exact`), the branch closes iff
that vanishes (`r1234_fa_noStep_iff`, `r1234_fa_closure_unconstricted`), and the full statement is refuted by a concrete
environment (`r1234_fa_closure_full_false`). -/

def r1234_fa_closure_full : Prop :=
  ∀ (ρ σ : String → ℝ), Link1234 r1234_fa_flank_angle r1234_fa_alpha3 r1234_fa_alpha4 ρ σ →
    AngleOK (ρ "flank_angle") (ρ "pad_angle") →
    Expr.eval (upd (upd ρ "_x0" (ρ "root0")) "_x1" (ρ "root1")) r1234_fa_res0 = 0 →
    Expr.eval (upd (upd ρ "_x0" (ρ "root0")) "_x1" (ρ "root1")) r1234_fa_res1 = 0 →
    NoStep σ ∧ Expr.eval σ y10 + σ "r3" = σ "depth"

theorem r1234_fa_closure_partial (ρ σ : String → ℝ)
    (L : Link1234 r1234_fa_flank_angle r1234_fa_alpha3 r1234_fa_alpha4 ρ σ)
    (hres1 : Expr.eval (upd (upd ρ "_x0" (ρ "root0")) "_x1" (ρ "root1")) r1234_fa_res1 = 0) :
    σ "flank_angle" = ρ "flank_angle" ∧ Expr.eval σ y10 + σ "r3" = σ "depth" := by
  obtain ⟨l1, l2, l3, l4, l5, l6, l7, l8, l9, l10, l11⟩ := L
  simp only [r1234_fa_res1, r1234_fa_flank_angle, r1234_fa_alpha3, r1234_fa_alpha4] at *
  norm_env
  refine ⟨l9, ?_⟩
  rw [eval_y10, eval_y6, l4, l5, l6, l7, l11]
  linear_combination (-1 : ℝ) * hres1

end r123

/-! ## echo and constructor plumbing (kernel-evaluated facts about the generated tables) -/
section plumbing

/-- **Echo, solver level**: every value a solver was *given* is handed back unchanged — the returned term is literally
    the parameter. -/
theorem echo_solvers :
    box_uw_gw_ground_width = .var "ground_width" ∧
    box_uw_gw_usable_width = .var "usable_width" ∧
    box_uw_egw_usable_width = .var "usable_width" ∧
    box_uw_egw_even_ground_width = .var "even_ground_width" ∧
    box_uw_fa_usable_width = .var "usable_width" ∧
    box_uw_fa_flank_angle = .var "flank_angle" ∧
    box_gw_fa_ground_width = .var "ground_width" ∧
    box_gw_fa_flank_angle = .var "flank_angle" ∧
    box_egw_fa_flank_angle = .var "flank_angle" ∧
    box_egw_fa_even_ground_width = .var "even_ground_width" ∧
    r124_widthNone_free_depth = .var "depth" ∧
    r124_widthNone_free_r2 = .var "r2" ∧
    r124_widthNone_fa_depth = .var "depth" ∧
    r124_widthNone_fa_r2 = .var "r2" ∧
    r124_widthNone_fa_alpha = .var "flank_angle" ∧
    r124_widthNone_fw_depth = .var "depth" ∧
    r124_widthNone_fw_r2 = .var "r2" ∧
    r124_widthNone_fh_depth = .var "depth" ∧
    r124_widthNone_fh_r2 = .var "r2" ∧
    r124_widthNone_fl_depth = .var "depth" ∧
    r124_widthNone_fl_r2 = .var "r2" ∧
    r124_depthNone_free_width = .var "width" ∧
    r124_depthNone_free_r2 = .var "r2" ∧
    r124_depthNone_fa_width = .var "width" ∧
    r124_depthNone_fa_r2 = .var "r2" ∧
    r124_depthNone_fa_alpha = .var "flank_angle" ∧
    r124_depthNone_fw_width = .var "width" ∧
    r124_depthNone_fw_r2 = .var "r2" ∧
    r124_depthNone_fh_width = .var "width" ∧
    r124_depthNone_fh_r2 = .var "r2" ∧
    r124_depthNone_fl_width = .var "width" ∧
    r124_depthNone_fl_r2 = .var "r2" ∧
    r124_r2None_free_width = .var "width" ∧
    r124_r2None_free_depth = .var "depth" ∧
    r124_r2None_fa_width = .var "width" ∧
    r124_r2None_fa_depth = .var "depth" ∧
    r124_r2None_fa_alpha = .var "flank_angle" ∧
    r124_r2None_fw_width = .var "width" ∧
    r124_r2None_fw_depth = .var "depth" ∧
    r124_r2None_fh_width = .var "width" ∧
    r124_r2None_fh_depth = .var "depth" ∧
    r124_r2None_fl_width = .var "width" ∧
    r124_r2None_fl_depth = .var "depth" ∧
    r123_fa_flank_angle = .var "flank_angle" ∧
    r1234_fa_flank_angle = .var "flank_angle" := by
  decide

/-- degree → radian conversion as the constructors write it (`np.deg2rad`) -/
def deg (e : Expr) : Expr := .mul e (.div .pi (.nat 180))

/-- the keyword list `Link124` assumes (Round, FalseRound, CircularOval): solver results under the generic names, `r1` as
    given, `pad_angle` converted from degrees -/
def shape124 : List (String × Expr) :=
  [("r2", .var "sol.r2"), ("depth", .var "sol.depth"), ("usable_width", .var "sol.width"), ("flank_angle", .var "sol.alpha"),
   ("r1", .var "r1"), ("pad_angle", deg (.var "pad_angle"))]

/-- FlatOval: `e = usable_width − sol.width` resp. `usable_width = e + sol.width` -/
def shapeFlat1 : List (String × Expr) :=
  [("r2", .var "sol.r2"), ("depth", .var "sol.depth"), ("usable_width", .var "usable_width"), ("flank_angle", .var "sol.alpha"),
   ("even_ground_width", .sub (.var "usable_width") (.var "sol.width")), ("r1", .var "r1"), ("pad_angle", deg (.var "pad_angle"))]
def shapeFlat2 : List (String × Expr) :=
  [("r2", .var "sol.r2"), ("depth", .var "sol.depth"), ("usable_width", .add (.var "even_ground_width") (.var "sol.width")),
   ("flank_angle", .var "sol.alpha"), ("even_ground_width", .var "even_ground_width"), ("r1", .var "r1"),
   ("pad_angle", deg (.var "pad_angle"))]

/-- the keyword list `Link123` assumes (Oval3Radii, Oval3RadiiFlanked, UpsetOval, Gothic) -/
def shape123 : List (String × Expr) :=
  [("usable_width", .var "usable_width"), ("depth", .var "depth"), ("r1", .var "r1"), ("r2", .var "r2"), ("r3", .var "r3"),
   ("flank_angle", .var "sol.flank_angle"), ("alpha3", .var "sol.alpha3"), ("pad_angle", deg (.var "pad_angle"))]

/-- the keyword list `Link1234` assumes (ConstrictedCircularOval) -/
def shape1234 : List (String × Expr) :=
  [("usable_width", .var "usable_width"), ("depth", .var "depth"), ("indent", .var "indent"),
   ("even_ground_width", .var "even_ground_width"), ("r1", .var "r1"), ("r2", .var "r2"), ("r3", .var "r3"), ("r4", .var "r4"),
   ("flank_angle", .var "sol.flank_angle"), ("alpha3", .var "sol.alpha3"), ("alpha4", .var "sol.alpha4"),
   ("pad_angle", deg (.var "pad_angle"))]

/-- the keyword lists `LinkBox` assumes; note the absence of `depth` -/
def shapeBox : List (String × Expr) :=
  [("r1", .var "r1"), ("r2", .var "r2"), ("pad_angle", deg (.var "pad_angle")), ("ground_width", .var "sol.ground_width"),
   ("usable_width", .var "sol.usable_width"), ("flank_angle", .var "sol.flank_angle"),
   ("even_ground_width", .var "sol.even_ground_width"), ("alpha4", .var "sol.alpha4")]
def shapeBoxC : List (String × Expr) :=
  [("r1", .var "r1"), ("r2", .var "r2"), ("r4", .var "r4"), ("pad_angle", deg (.var "pad_angle")), ("indent", .var "indent"),
   ("ground_width", .var "sol.ground_width"), ("usable_width", .var "sol.usable_width"),
   ("flank_angle", .var "sol.flank_angle"), ("even_ground_width", .var "sol.even_ground_width"), ("alpha4", .var "sol.alpha4")]

/-- **Echo, constructor level / the `Link…` structures describe the real constructors**: for *every* None-pattern of every
    solver-backed constructor the keyword arguments handed to `GenericElongationGroove.__init__` have the assumed shape —
    in particular every given radius/width is passed on unchanged and every angle is converted exactly once. -/
theorem plumbing_keywords :
    plumbs_RoundGroove.all (· == shape124) = true ∧ plumbs_FalseRoundGroove.all (· == shape124) = true ∧
    plumbs_CircularOvalGroove.all (· == shape124) = true ∧
    plumbs_FlatOvalGroove = [shapeFlat1, shapeFlat2] ∧
    plumbs_Oval3RadiiGroove.all (· == shape123) = true ∧ plumbs_Oval3RadiiFlankedGroove.all (· == shape123) = true ∧
    plumbs_UpsetOvalGroove.all (· == shape123) = true ∧ plumbs_GothicGroove.all (· == shape123) = true ∧
    plumbs_ConstrictedCircularOvalGroove.all (· == shape1234) = true ∧
    plumbs_BoxGroove.all (· == shapeBox) = true ∧ plumbs_HexagonalGroove.all (· == shapeBox) = true ∧
    plumbs_SwedishOvalGroove.all (· == shapeBox) = true ∧
    plumbs_ConstrictedBoxGroove.all (· == shapeBoxC) = true ∧
    plumbs_ConstrictedSwedishOvalGroove.all (· == shapeBoxC) = true := by
  decide

/-- EquivalentRibbed: like `shape123`, with `r2` computed from the rib data — and the *same* `r2` term goes to the solver -/
theorem plumbing_ribbed :
    plumbs_EquivalentRibbedGroove.all (fun l =>
      l.lookup "r1" == some (.var "r1") && l.lookup "r3" == some (.var "r3") && l.lookup "depth" == some (.var "depth") &&
      l.lookup "usable_width" == some (.var "usable_width") && l.lookup "pad_angle" == some (deg (.var "pad_angle")) &&
      l.lookup "alpha3" == some (.var "sol.alpha3") && l.lookup "flank_angle" == some (.var "sol.flank_angle")) = true ∧
    (List.zip plumbs_EquivalentRibbedGroove calls_EquivalentRibbedGroove).all (fun p =>
      (p.2.lookup "r2") == (p.1.lookup "r2").map some) = true := by
  decide

/-- the argument a constructor passes to its solver for parameter `k`, when it passes one -/
def solverArg (k : String) : Expr :=
  if k = "width" then .var "usable_width"
  else if k = "pad_angle" ∨ k = "flank_angle" then deg (.var k)
  else .var k

def callOK (arg : String → Expr) (l : List (String × Option Expr)) : Bool :=
  l.all fun p => match p.2 with
    | none => true
    | some e => e == arg p.1

/-- box-like classes without constriction pass the literals `r4 = 0`, `indent = 0` -/
def solverArgBox (k : String) : Expr := if k = "r4" ∨ k = "indent" then .nat 0 else solverArg k
/-- ConstrictedCircularOval solves for the width left of the even ground -/
def solverArgCCO (k : String) : Expr :=
  if k = "width" then .sub (.var "usable_width") (.var "even_ground_width") else solverArg k

/-- **Solver calls**: whatever the None-pattern, each argument that is passed is the constructor's own parameter of that
    name (`width` ← `usable_width`), angles converted from degrees exactly once. -/
theorem plumbing_calls :
    calls_RoundGroove.all (callOK solverArg) = true ∧ calls_FalseRoundGroove.all (callOK solverArg) = true ∧
    calls_CircularOvalGroove.all (callOK solverArg) = true ∧ calls_FlatOvalGroove.all (callOK solverArg) = true ∧
    calls_Oval3RadiiGroove.all (callOK solverArg) = true ∧ calls_Oval3RadiiFlankedGroove.all (callOK solverArg) = true ∧
    calls_UpsetOvalGroove.all (callOK solverArg) = true ∧ calls_GothicGroove.all (callOK solverArg) = true ∧
    calls_ConstrictedCircularOvalGroove.all (callOK solverArgCCO) = true ∧
    calls_BoxGroove.all (callOK solverArgBox) = true ∧ calls_HexagonalGroove.all (callOK solverArgBox) = true ∧
    calls_SwedishOvalGroove.all (callOK solverArgBox) = true ∧
    calls_ConstrictedBoxGroove.all (callOK solverArg) = true ∧
    calls_ConstrictedSwedishOvalGroove.all (callOK solverArg) = true := by
  decide

/-- `solve_r124` defaults `r4 = indent = 0` (the classes never pass them): the hypotheses `h4`, `hi` of the `r2None`
    theorems and `IndentOK.plain` -/
theorem solver_defaults : r124_defaults = [("r4", .nat 0), ("indent", .nat 0)] ∧
    Groove.defaults.lookup "r3" = some (.nat 0) ∧ Groove.defaults.lookup "alpha3" = some (.nat 0) ∧
    Groove.defaults.lookup "r4" = some (.nat 0) ∧ Groove.defaults.lookup "alpha4" = some (.nat 0) ∧
    Groove.defaults.lookup "indent" = some (.nat 0) ∧ Groove.defaults.lookup "even_ground_width" = some (.nat 0) := by
  decide

/-- decision table of `solve_box_like` over the 16 None-patterns of (ground_width, even_ground_width, usable_width, flank_angle)
    (x = given, in binary counting order from "all given"): the five documented pairs return their branch; giving both
    ground widths together with one more value is *accepted* (the even ground width is then passed through unchecked —
    an over-determined input, outside the admissible subsets this property quantifies over); everything else raises. -/
theorem decision_table_box : box_like_decision.map (·.2) =
    ["raise:TypeError", "ret:noncanonical", "ret:noncanonical", "raise:TypeError",
     "raise:TypeError", "ret:box_uw_gw", "ret:box_gw_fa", "raise:TypeError",
     "raise:TypeError", "ret:box_uw_egw", "ret:box_egw_fa", "raise:TypeError",
     "ret:box_uw_fa", "raise:TypeError", "raise:TypeError", "raise:TypeError"] := by
  decide

end plumbing

/-! ## non-vacuity: concrete environments satisfying the hypotheses of the theorems above -/
section examples

/-- association-list environment (absent names are 0) -/
noncomputable def env (l : List (String × ℝ)) : String → ℝ := fun n => (l.lookup n).getD 0

local macro "norm_ex" : tactic => `(tactic| simp only [env, upd, Expr.eval, List.lookup, String.reduceBEq, String.reduceEq,
  reduceIte, Option.getD, PyNum.nat_real, PyNum.sin_real, PyNum.cos_real, PyNum.tan_real, PyNum.acos_real,
  PyNum.atan_real, PyNum.pi_real, Nat.cast_one, Nat.cast_ofNat, Nat.cast_zero] at *)

/-- the canonical `σ` of a `Link124` -/
noncomputable def mk124 (e : ℝ) (w d r a : Expr) (ρ : String → ℝ) : String → ℝ := fun n =>
  if n = "r1" then ρ "r1" else if n = "pad_angle" then ρ "pad_angle" else if n = "r2" then Expr.eval ρ r
  else if n = "depth" then Expr.eval ρ d else if n = "usable_width" then Expr.eval ρ w + e
  else if n = "flank_angle" then Expr.eval ρ a else if n = "even_ground_width" then e
  else if n = "r4" then ρ "r4" else if n = "indent" then ρ "indent"
  else if n = "alpha4" then Real.arccos (1 - ρ "indent" / (Expr.eval ρ r + ρ "r4")) else 0

/-- every solver result can be linked: `Link124` is satisfiable for every `ρ` -/
theorem link124_mk (e : ℝ) (w d r a : Expr) (ρ : String → ℝ) : Link124 e w d r a ρ (mk124 e w d r a ρ) := by
  constructor <;> simp [mk124]

example : AngleOK (Real.pi / 4) 0 := AngleOK.of_range (by positivity) (by linarith [Real.pi_pos]) le_rfl (by positivity)

/-- `r124_widthNone_fw_closure` is not vacuous: flank angle 45°, r1 = 1, r2 = 2, flank width 1 and the depth that makes the
    residual vanish -/
example : ∃ ρ σ : String → ℝ,
    Link124 0 r124_widthNone_fw_width r124_widthNone_fw_depth r124_widthNone_fw_r2 r124_widthNone_fw_alpha ρ σ ∧
    AngleOK (ρ "root") (ρ "pad_angle") ∧ IndentOK (ρ "r2") (ρ "r4") (ρ "indent") ∧
    Expr.eval (upd ρ "_x0" (ρ "root")) r124_widthNone_fw_res0 = 0 ∧ ρ "flank_width" = 1 := by
  let ρ := env [("root", Real.pi / 4), ("r1", 1), ("r2", 2), ("flank_width", 1),
    ("depth", 2 * (1 - Real.cos (Real.pi / 4)) + 1 * Real.tan ((Real.pi / 4 + 0) / 2) * Real.sin (Real.pi / 4)
        + 1 * Real.tan (Real.pi / 4))]
  refine ⟨ρ, mk124 0 _ _ _ _ ρ, link124_mk _ _ _ _ _ ρ, ?_, ?_, ?_, ?_⟩
  · have : ρ "root" = Real.pi / 4 := by simp [ρ, env, List.lookup]
    have h0 : ρ "pad_angle" = 0 := by simp [ρ, env, List.lookup]
    rw [this, h0]
    exact AngleOK.of_range (by positivity) (by linarith [Real.pi_pos]) le_rfl (by positivity)
  · have h2 : ρ "r2" = 2 := by simp [ρ, env, List.lookup]
    have h4 : ρ "r4" = 0 := by simp [ρ, env, List.lookup]
    have hi : ρ "indent" = 0 := by simp [ρ, env, List.lookup]
    rw [h2, h4, hi]; exact IndentOK.plain (by norm_num)
  · simp only [r124_widthNone_fw_res0, ρ]
    norm_ex
    ring
  · simp [ρ, env, List.lookup]

/-- box-like: a 45° box of depth 1 on a ground of width 2 (r2 = 0, r4 = 1, no indent) satisfies `BoxRel` -/
example : BoxRel 0 1 1 0 2 4 (Real.pi / 4) 2 0 := by
  refine ⟨?_, ?_, ?_⟩
  · rw [Real.tan_pi_div_four]; norm_num
  · simp
  · simp

/-- hypotheses of `box_like_consistent_uw_gw` / `generic_fourth_of_four_consistent` -/
example : ∃ ρ : String → ℝ, ρ "depth" ≠ 0 ∧ ρ "usable_width" ≠ ρ "ground_width" :=
  ⟨env [("depth", 1), ("usable_width", 4), ("ground_width", 2)], by simp [env, List.lookup], by simp [env, List.lookup]⟩

/-- `generic_fourth_of_four`: the quadruple (4, 2, 45°, 1) -/
example : FourRel 4 2 (Real.pi / 4) 1 := by
  simp only [FourRel]; rw [Real.tan_pi_div_four]; norm_num

/-- `diamond_roundtrip_*` / `diamond_closure`: the right-angled tip (usable width 2, tip depth 1, tip angle 90°, sharp) -/
example : DiamondRel 2 1 (Real.pi / 2) 0 (Real.pi / 4) 1 := by
  refine ⟨?_, by ring, ?_⟩
  · rw [Real.tan_pi_div_four]; norm_num
  · simp

/-- `r123_fw_closure`: angles (30°, 15°), the depth and width that make both residuals vanish -/
example : ∃ ρ : String → ℝ,
    Expr.eval (upd (upd ρ "_x0" (ρ "root0")) "_x1" (ρ "root1")) r123_fw_res0 = 0 ∧
    Expr.eval (upd (upd ρ "_x0" (ρ "root0")) "_x1" (ρ "root1")) r123_fw_res1 = 0 ∧ ρ "r3" = 3 := by
  let a : ℝ := Real.pi / 6 + Real.pi / 12
  refine ⟨env [("root0", Real.pi / 6), ("root1", Real.pi / 12), ("r1", 1), ("r2", 1), ("r3", 3), ("flank_width", 1),
    ("depth", 3 - (3 - 1) * Real.cos (Real.pi / 12) - 1 * Real.sin (Real.pi / 2 - a) + 1 * Real.tan a
        + 1 * Real.tan ((a + 0) / 2) * Real.sin a),
    ("width", 2 * ((3 - 1) * Real.sin (Real.pi / 12) + 1 * Real.cos (Real.pi / 2 - a) + 1
        + 1 * Real.tan ((a + 0) / 2) * Real.cos a))], ?_, ?_, ?_⟩
  · simp only [r123_fw_res0]; norm_ex; simp only [a]; ring
  · simp only [r123_fw_res1]; norm_ex; simp only [a]; ring
  · simp [env, List.lookup]

/-- `r1234_free_closure_a`: the three residuals are linear in depth, width and indent respectively -/
example : ∃ ρ : String → ℝ,
    Expr.eval (upd (upd (upd ρ "_x0" (ρ "root0")) "_x1" (ρ "root1")) "_x2" (ρ "root2")) r1234_free_res0a = 0 ∧
    Expr.eval (upd (upd (upd ρ "_x0" (ρ "root0")) "_x1" (ρ "root1")) "_x2" (ρ "root2")) r1234_free_res1a = 0 ∧
    Expr.eval (upd (upd (upd ρ "_x0" (ρ "root0")) "_x1" (ρ "root1")) "_x2" (ρ "root2")) r1234_free_res2a = 0 ∧
    ρ "root1" > ρ "root2" := by
  let a : ℝ := Real.pi / 6 + Real.pi / 4 - Real.pi / 12
  refine ⟨env [("root0", Real.pi / 6), ("root1", Real.pi / 4), ("root2", Real.pi / 12), ("r1", 1), ("r2", 1), ("r3", 3),
    ("r4", 2),
    ("depth", 3 - (3 - 1) * Real.cos (Real.pi / 4 - Real.pi / 12) - 1 * Real.sin (Real.pi / 2 - a) + 0
        + 1 * Real.tan ((a + 0) / 2) * Real.sin a),
    ("width", 2 * ((3 - 1) * Real.sin (Real.pi / 4 - Real.pi / 12) + 1 * Real.cos (Real.pi / 2 - a) + 0
        + 1 * Real.tan ((a + 0) / 2) * Real.cos a + (3 + 2) * Real.sin (Real.pi / 12))),
    ("indent", (3 + 2) * (1 - Real.cos (Real.pi / 12)))], ?_, ?_, ?_, ?_⟩
  · simp only [r1234_free_res0a]; norm_ex; simp only [a]; ring
  · simp only [r1234_free_res1a]; norm_ex; simp only [a]; ring
  · simp only [r1234_free_res2a]; norm_ex; ring
  · norm_ex; linarith [Real.pi_pos]

/-- hypotheses of `r124_widthNone_free_root_unique`: r2 = 1, no fillet, depth `1 − cos 45°` has the root 45° -/
example : ∃ ρ : String → ℝ, 0 ≤ ρ "r1" ∧ 0 < ρ "r2" ∧ 0 ≤ ρ "pad_angle" ∧ ρ "pad_angle" < Real.pi / 2 ∧
    Expr.eval (upd ρ "_x0" (Real.pi / 4)) r124_widthNone_free_res0 = 0 := by
  refine ⟨env [("r2", 1), ("depth", 1 - Real.cos (Real.pi / 4))], by simp [env, List.lookup], by simp [env, List.lookup],
    by simp [env, List.lookup], by simp [env, List.lookup, Real.pi_pos], ?_⟩
  simp only [r124_widthNone_free_res0]; norm_ex; ring

/-- `plausibility_accepts_closed` / `not_refused_of_dims`: a sharp 45° groove of depth 1 and usable width 2 closes -/
example : ∃ σ : String → ℝ, NoStep σ ∧ 0 ≤ σ "depth" ∧ 0 ≤ Expr.eval σ z0 ∧ σ "depth" = 1 ∧ σ "usable_width" = 2 := by
  let σ := env [("flank_angle", Real.pi / 4), ("usable_width", 2), ("depth", 1)]
  have hfa : σ "flank_angle" = Real.pi / 4 := by simp [σ, env, List.lookup]
  have huw : σ "usable_width" = 2 := by simp [σ, env, List.lookup]
  have hd : σ "depth" = 1 := by simp [σ, env, List.lookup]
  have hpa : σ "pad_angle" = 0 := by simp [σ, env, List.lookup]
  have hr1 : σ "r1" = 0 := by simp [σ, env, List.lookup]
  have hr2 : σ "r2" = 0 := by simp [σ, env, List.lookup]
  have hr3 : σ "r3" = 0 := by simp [σ, env, List.lookup]
  have hr4 : σ "r4" = 0 := by simp [σ, env, List.lookup]
  have hin : σ "indent" = 0 := by simp [σ, env, List.lookup]
  have heg : σ "even_ground_width" = 0 := by simp [σ, env, List.lookup]
  have hpd : σ "pad" = 0 := by simp [σ, env, List.lookup]
  have hc : Real.cos ((σ "flank_angle" + σ "pad_angle") / 2) ≠ 0 := by
    rw [hfa, hpa]
    exact (Real.cos_pos_of_mem_Ioo ⟨by linarith [Real.pi_pos], by linarith [Real.pi_pos]⟩).ne'
  refine ⟨σ, ?_, by rw [hd]; norm_num, ?_, hd, huw⟩
  · simp only [NoStep]
    rw [eval_z3 σ hc, eval_y3 σ hc, z4_closed, y4_closed]
    simp only [lt, hfa, huw, hd, hr1, hr2, hr3, hr4, hin, heg, Real.tan_pi_div_four]
    ring
  · simp only [z0, Expr.eval, eval_z1, lt, hr1, huw, hpd]
    norm_num

/-- `plausibility_step_two_sided` bites: depth 1 under a 45° flank that would need depth 2 - the r2 arc ends BELOW the
    flank line (negative step, the side a one-sided test lets through) and the groove is refused -/
example : ∃ σ : String → ℝ, stepAt4 σ < 0 ∧ ∃ c ∈ plausibility, Fires σ c := by
  let σ := env [("flank_angle", Real.pi / 4), ("usable_width", 4), ("depth", 1)]
  have hfa : σ "flank_angle" = Real.pi / 4 := by simp [σ, env, List.lookup]
  have huw : σ "usable_width" = 4 := by simp [σ, env, List.lookup]
  have hd : σ "depth" = 1 := by simp [σ, env, List.lookup]
  have hpa : σ "pad_angle" = 0 := by simp [σ, env, List.lookup]
  have hr1 : σ "r1" = 0 := by simp [σ, env, List.lookup]
  have hr2 : σ "r2" = 0 := by simp [σ, env, List.lookup]
  have hr3 : σ "r3" = 0 := by simp [σ, env, List.lookup]
  have hr4 : σ "r4" = 0 := by simp [σ, env, List.lookup]
  have hin : σ "indent" = 0 := by simp [σ, env, List.lookup]
  have heg : σ "even_ground_width" = 0 := by simp [σ, env, List.lookup]
  have hpd : σ "pad" = 0 := by simp [σ, env, List.lookup]
  have hc : Real.cos ((σ "flank_angle" + σ "pad_angle") / 2) ≠ 0 := by
    rw [hfa, hpa]
    exact (Real.cos_pos_of_mem_Ioo ⟨by linarith [Real.pi_pos], by linarith [Real.pi_pos]⟩).ne'
  have hstep : stepAt4 σ = -1 := by
    simp only [stepAt4]
    rw [eval_z3 σ hc, eval_y3 σ hc, z4_closed, y4_closed]
    simp only [lt, hfa, huw, hd, hr1, hr2, hr3, hr4, hin, heg, Real.tan_pi_div_four]
    ring
  have hz0 : Expr.eval σ z0 = 2 := by
    simp only [z0, Expr.eval, eval_z1, lt, hr1, huw, hpd]; norm_num
  refine ⟨σ, by rw [hstep]; norm_num, ?_⟩
  refine ⟨("gt", plaus_1_lhs, plaus_1_rhs), by simp [plausibility], ?_⟩
  simp only [stepAt4] at hstep
  simp only [Fires, reduceIte, plaus_1_lhs, plaus_1_rhs]
  simp only [Expr.eval, PyNum.dec_real, PyNum.abs_real, PyNum.tan_real, hz0, hstep, hd]
  norm_num

end examples

end C04
