import PyrollProofs.TreeLemmas

/-!
# C13 — the unit tree stays consistent under every edit of a sequence

Model: `PyrollModel/Tree.lean` (tied to `pyroll/core/unit/unit.py`, `pyroll/core/sequence/sequence.py` by the
correspondence harness `driver/props/c13.py`).  Only property theorems live here; helper lemmas are in
`PyrollProofs/TreeLemmas.lean`.
-/

namespace Tree

/-- the sequence whose unit list an operation edits -/
def Op.target : Op → List Nat
  | .append s _ | .prepend s _ | .insert s _ _ | .extend s _ | .iadd s _ | .setItem s _ _
  | .setSlice s _ _ _ | .delItem s _ | .delSlice s _ _ | .setSliceExt s _ _ _ _ | .delSliceExt s _ _ _
  | .pop s _ | .remove s _ | .clear s | .drop s _ | .flatten s | .listCopy s => [s]
  | _ => []

/-- Side condition under which the invariant is preserved: the edited sequence exists; the inserted units exist, are
pairwise distinct and each of them is **not listed anywhere at that moment, or is one of the units which this very
item / slice assignment replaces** (`Op.replaced`: in-place reordering such as `l[:] = reversed(l)`,
`l[1:3] = [c, x]` with `c` in the range, `l[::2] = …` rotations; for every other operation `Op.replaced = []`);
a flattened sequence does not contain itself.  (An extended-slice assignment of another size needs no
condition: it raises ValueError and changes nothing, see `setSliceExt_size_mismatch_noop`.)
The excluded point is real: see `C13_counterexample` (a unit adopted while still listed elsewhere, F10). -/
def Valid (st : TState) (op : Op) : Prop :=
  (∀ s ∈ op.target, s < st.n) ∧
  (∀ u ∈ op.inserted, (st.parent u = none ∨ u ∈ op.replaced st) ∧ u < st.n) ∧
  op.inserted.Nodup ∧
  (∀ s, op = .flatten s → st.parent s ≠ some s)

theorem inv_init : Inv init := by
  constructor <;> simp [init]

/-- every operation of the list/sequence API preserves the tree invariant -/
theorem inv_step (st : TState) (op : Op) (h : Inv st) (hv : Valid st op) : Inv (step st op).1 := by
  obtain ⟨ht, hi, hd, hf⟩ := hv
  have hnone : op.replaced st = [] → ∀ u ∈ op.inserted, st.parent u = none := by
    intro he u hu; have := (hi u hu).1; rw [he] at this; simpa using this
  cases op with
  | newUnit k l => exact alloc_inv st k l h
  | construct us l =>
    exact construct_inv st us l h (hnone rfl) hd (fun u hu => (hi u hu).2)
  | append s u =>
    have := hi u (by simp [Op.inserted])
    exact append_inv st s u h (ht s (by simp [Op.target])) (hnone rfl u (by simp [Op.inserted])) this.2
  | prepend s u =>
    have := hi u (by simp [Op.inserted])
    exact insert_inv st s 0 u h (ht s (by simp [Op.target])) (hnone rfl u (by simp [Op.inserted])) this.2
  | insert s i u =>
    have := hi u (by simp [Op.inserted])
    exact insert_inv st s i u h (ht s (by simp [Op.target])) (hnone rfl u (by simp [Op.inserted])) this.2
  | extend s us =>
    exact extend_inv st s us h (ht s (by simp [Op.target])) (hnone rfl) hd (fun u hu => (hi u hu).2)
  | iadd s us =>
    exact extend_inv st s us h (ht s (by simp [Op.target])) (hnone rfl) hd (fun u hu => (hi u hu).2)
  | setItem s i u =>
    have := hi u (by simp [Op.inserted])
    exact setItem_inv st s i u h (ht s (by simp [Op.target])) this.1 this.2
  | setSlice s i j us =>
    exact setSlice_inv st s i j us h (ht s (by simp [Op.target])) (fun u hu => (hi u hu).1) hd
      (fun u hu => (hi u hu).2)
  | setSliceExt s i j k us =>
    exact setSliceExt_inv st s i j k us h (ht s (by simp [Op.target])) (fun u hu => (hi u hu).1) hd
      (fun u hu => (hi u hu).2)
  | delSliceExt s i j k => exact delSliceExt_inv st s i j k h (ht s (by simp [Op.target]))
  | delItem s i => exact delItem_inv st s i h (ht s (by simp [Op.target]))
  | delSlice s i j => exact delSlice_inv st s i j h (ht s (by simp [Op.target]))
  | pop s i => exact pop_inv st s i h (ht s (by simp [Op.target]))
  | remove s u => exact remove_inv st s u h (ht s (by simp [Op.target]))
  | clear s => exact clear_inv st s h (ht s (by simp [Op.target]))
  | drop s i => exact delItem_inv st s i h (ht s (by simp [Op.target]))
  | flatten s => exact flatten_inv st s h (ht s (by simp [Op.target])) (hf s rfl)
  | listCopy s => exact listCopy_inv st s h
  | deepCopy u => exact (deepCopy_spec (st.n + 1) st u h).inv

/-- validity of a whole history, checked against the states the history itself produces -/
def ValidRun : TState → List Op → Prop
  | _, [] => True
  | st, op :: ops => Valid st op ∧ ValidRun (step st op).1 ops

/-- the invariant holds in every state reachable by a valid history, from any state satisfying it -/
theorem inv_run (ops : List Op) : ∀ st, Inv st → ValidRun st ops → Inv (run st ops) := by
  induction ops with
  | nil => intro st h _; exact h
  | cons op ops ih =>
    intro st h hv
    simp only [run, List.foldl_cons]
    exact ih _ (inv_step st op h hv.1) hv.2

theorem inv_reachable (ops : List Op) (hv : ValidRun init ops) : Inv (run init ops) :=
  inv_run ops init inv_init hv

/-- every listed unit names that sequence as its parent; every unit that is listed nowhere names none -/
theorem listed_names_parent (st : TState) (h : Inv st) (s u : Nat) (hu : u ∈ st.children s) :
    st.parent u = some s := (h.mem_iff s u).1 hu

theorem unlisted_names_none (st : TState) (h : Inv st) (u : Nat) (hu : ∀ s, u ∉ st.children s) :
    st.parent u = none := by
  cases hp : st.parent u with
  | none => rfl
  | some p => exact absurd ((h.mem_iff p u).2 hp) (hu p)

/-- a deep copy's root names no parent and the copy does not disturb the existing units -/
theorem deepCopy_root_unlisted (st : TState) (u : Nat) (h : Inv st) :
    (step st (.deepCopy u)).1.parent (st.n) = none ∧
    ∀ x, x < st.n → (step st (.deepCopy u)).1.parent x = st.parent x ∧
      (step st (.deepCopy u)).1.children x = st.children x := by
  have sp := deepCopy_spec (st.n + 1) st u h
  refine ⟨?_, fun x hx => ⟨sp.keepP x hx, sp.keepC x hx⟩⟩
  have := sp.rootP
  rw [sp.root] at this
  exact this

/-- previous/next navigation agrees with the list order -/
theorem nav_agrees (st : TState) (h : Inv st) (p u : Nat) (pre post : List Nat)
    (hl : st.children p = pre ++ u :: post) :
    prev st u = (match pre.getLast? with | some v => .unit v | none => .indexError) ∧
    next st u = (match post.head? with | some v => .unit v | none => .indexError) :=
  nav_split st h p u pre post hl

/-- navigation by type (`prev_of(t)` / `next_of(t)`) agrees with the list order: the result is the LAST unit of the
requested kind among the units listed before `u`, resp. the FIRST one among the units listed after `u`
(`IndexError` when there is none) - in particular never `u` itself, even when `u` is of the requested kind. -/
theorem navOf_agrees (st : TState) (h : Inv st) (p u q : Nat) (pre post : List Nat)
    (hl : st.children p = pre ++ u :: post) :
    prevOf st u q = (match (pre.filter (isKind st q)).getLast? with | some v => .unit v | none => .indexError) ∧
    nextOf st u q = (match (post.filter (isKind st q)).head? with | some v => .unit v | none => .indexError) ∧
    prevOf st u q ≠ .unit u ∧ nextOf st u q ≠ .unit u := by
  have hlen := children_length_le st h p
  rw [hl] at hlen
  simp only [List.length_append, List.length_cons] at hlen
  have e1 := prevOfAux_spec st h q p (st.n + 1) pre u post hl (by omega)
  have e2 := nextOfAux_spec st h q p (st.n + 1) post u pre hl (by omega)
  have hnd := h.nodup p
  rw [hl] at hnd
  have hnd' := List.nodup_append.1 hnd
  have hpre : u ∉ pre := fun hm => hnd'.2.2 u hm u (by simp) rfl
  have hpost : u ∉ post := (List.nodup_cons.1 hnd'.2.1).1
  refine ⟨e1, e2, ?_, ?_⟩
  · simp only [prevOf, e1]
    cases hg : (pre.filter (isKind st q)).getLast? with
    | none => simp
    | some v =>
      have : v ∈ pre.filter (isKind st q) := List.mem_of_getLast? hg
      have : v ∈ pre := (List.mem_filter.1 this).1
      simp only [ne_eq, Nav.unit.injEq]
      intro e; subst e; exact hpre this
  · simp only [nextOf, e2]
    cases hg : (post.filter (isKind st q)).head? with
    | none => simp
    | some v =>
      have : v ∈ post.filter (isKind st q) := List.mem_of_head? hg
      have : v ∈ post := (List.mem_filter.1 this).1
      simp only [ne_eq, Nav.unit.injEq]
      intro e; subst e; exact hpost this

/-- navigation by type from a unit without parent raises ValueError, like `prev` / `next` -/
theorem navOf_orphan (st : TState) (u q : Nat) (hp : st.parent u = none) :
    prevOf st u q = .valueError ∧ nextOf st u q = .valueError := by
  simp [prevOf, nextOf, prevOfAux, nextOfAux, prev, next, hp]

/-- a unit without parent has no previous/next (ValueError), as documented -/
theorem nav_orphan (st : TState) (u : Nat) (hp : st.parent u = none) :
    prev st u = .valueError ∧ next st u = .valueError := by
  simp [prev, next, hp]

/-- access by index returns the listed unit at that (python-normalised) position -/
theorem byIndex_spec (st : TState) (s : Nat) (i : Int) (k : Nat) (hk : normIdx (st.children s).length i = some k) :
    byIndex st s i = (st.children s)[k]? := by
  simp [byIndex, hk]

theorem byIndex_nonneg (len : Nat) (i : Nat) (h : i < len) : normIdx len (i : Int) = some i := by
  simp [normIdx, h]

theorem byIndex_neg (len : Nat) (i : Nat) (h1 : 0 < i) (h2 : i ≤ len) :
    normIdx len (-(i : Int)) = some (len - i) := by
  simp only [normIdx]
  have : ¬ (0 : Int) ≤ -(i : Int) := by omega
  simp only [this, if_false]
  have : -(len : Int) ≤ -(i : Int) := by omega
  simp only [this, if_true]
  congr 1
  omega

/-- label lookup returns the FIRST listed unit carrying the label -/
theorem byLabel_first (st : TState) (s lab : Nat) (pre post : List Nat) (u : Nat)
    (hl : st.children s = pre ++ u :: post) (hu : st.label u = lab) (hpre : ∀ v ∈ pre, st.label v ≠ lab) :
    byLabel st s lab = some u := by
  simp only [byLabel, hl]
  rw [List.find?_append]
  have : pre.find? (fun u => decide (st.label u = lab)) = none := by
    simp only [List.find?_eq_none]
    intro v hv; simpa using hpre v hv
  simp [this, hu]

theorem byLabel_missing (st : TState) (s lab : Nat) (h : ∀ v ∈ st.children s, st.label v ≠ lab) :
    byLabel st s lab = none := by
  simp only [byLabel, List.find?_eq_none]
  intro v hv; simpa using h v hv

/-- the lists of roll passes / transports are the order-preserving sub-lists by type -/
theorem ofKind_sublist (st : TState) (s k : Nat) : (ofKind st s k).Sublist (st.children s) :=
  List.filter_sublist

theorem ofKind_mem (st : TState) (s k u : Nat) : u ∈ ofKind st s k ↔ u ∈ st.children s ∧ st.kind u = k := by
  simp [ofKind]

/-- slices are contiguous runs of the list -/
theorem bySlice_spec (st : TState) (s : Nat) (i j : Option Int) :
    ∃ pre post, st.children s = pre ++ bySlice st s i j ++ post := by
  have hle := sliceBounds_le (st.children s).length i j
  refine ⟨(st.children s).take (sliceBounds (st.children s).length i j).1,
          (st.children s).drop (sliceBounds (st.children s).length i j).2, ?_⟩
  have := split3 (st.children s) _ _ hle
  simpa [bySlice, List.append_assoc] using this

/-! ### The full-strength statement is false of model and code (finding F10) -/

/-- C13 at full strength: the invariant after EVERY history (units may be inserted while still listed). -/
def C13_full : Prop := ∀ ops : List Op, Inv (run init ops)

/-- A unit adopted by a second sequence while still listed in the first one leaves the first list stale.
The same history is replayed on the implementation by the harness (known finding
`adopt-unit-still-listed-elsewhere`). -/
theorem C13_counterexample : ¬ C13_full := by
  intro h
  have := (h [.newUnit 0 0, .construct [0] 0, .construct [0] 1]).mem_iff 1 0
  simp [run, step, construct, alloc, setParents, setChildren, init] at this

/-- `l = [u0, u1, u2]` in sequence `u4`, `u3` unlisted -/
def navExampleBase : TState :=
  run init [.newUnit 0 0, .newUnit 0 1, .newUnit 0 2, .newUnit 0 3, .construct [0, 1, 2] 0]

/-- an extended-slice assignment (`k ∉ {0, 1}`) of another size than it addresses raises ValueError and is a no-op -/
theorem setSliceExt_size_mismatch_noop (st : TState) (s : Nat) (i j : Option Int) (k : Int) (us : List Nat)
    (h0 : k ≠ 0) (h1 : k ≠ 1) (hsz : us.length ≠ (slicePositions (st.children s).length i j k).length) :
    step st (.setSliceExt s i j k us) = (st, .valueError) := by
  simp [step, setSliceExt, h0, h1, hsz]

example : step navExampleBase (.setSliceExt 4 none none 2 [3]) = (navExampleBase, .valueError) :=
  setSliceExt_size_mismatch_noop _ _ _ _ _ _ (by decide) (by decide) (by decide)

/-! ### The form in which an iterable argument is handed over does not matter -/

/-- a one-shot iterable yields its items once, a re-iterable one every time -/
theorem Src.iterate_again (a : Src) :
    a.iterate.2.iterate.1 = (if a.oneShot then [] else a.items) := by
  cases h : a.oneShot <;> simp [Src.iterate, h]

/-- `extend`, `+=`, slice / extended-slice assignment and construction iterate their argument exactly once and then
behave as if they had been given the list of its items - whether the argument is re-iterable or one-shot -/
theorem stepSrc_form_independent (st : TState) (op : Op) (a : Src) (hs : a.spent = false) :
    (stepSrc st op a).1 = step st (op.withArg a.items) ∧ (stepSrc st op a).2.spent = true := by
  simp [stepSrc, Src.iterate, hs]

/-- hence the invariant is preserved for every form of argument -/
theorem inv_stepSrc (st : TState) (op : Op) (a : Src) (h : Inv st) (hs : a.spent = false)
    (hv : Valid st (op.withArg a.items)) : Inv (stepSrc st op a).1.1 := by
  rw [(stepSrc_form_independent st op a hs).1]
  exact inv_step st _ h hv

/-- `extend` without the materialising `units = list(units)` is the same for every re-iterable argument … -/
theorem extendLazy_reiterable (st : TState) (s : Nat) (a : Src) (h : a.oneShot = false) :
    (extendLazy st s a).1 = (step st (.extend s a.items)).1 := by
  simp [extendLazy, Src.iterate, h, step, extend]

/-- … but not for a one-shot one: the handed-over units name the sequence as parent and are not listed
(`s = PassSequence([]); s.subunits.extend(u for u in [x])`).  This is why the line is there, and why the harness hands
arguments over as generators / iterators as well. -/
theorem extendLazy_oneShot_breaks :
    ∃ (st : TState) (s : Nat) (a : Src), Inv st ∧ Valid st (.extend s a.items) ∧ a.spent = false ∧
      Inv (step st (.extend s a.items)).1 ∧ ¬ Inv (extendLazy st s a).1 := by
  refine ⟨run init [.newUnit 0 0, .construct [] 0], 1, Src.fresh [0] true, ?_, ?_, rfl, ?_, ?_⟩
  · exact inv_reachable _ (by simp [ValidRun, Valid, Op.target, Op.inserted])
  · simp [Valid, Op.target, Op.inserted, Op.replaced, Src.fresh, run, step, construct, alloc, setParents,
      setChildren, init]
  · refine inv_step _ _ (inv_reachable _ (by simp [ValidRun, Valid, Op.target, Op.inserted])) ?_
    simp [Valid, Op.target, Op.inserted, Op.replaced, Src.fresh, run, step, construct, alloc, setParents,
      setChildren, init]
  · intro h
    have := (h.mem_iff 1 0).2
    simp [extendLazy, Src.iterate, Src.fresh, run, step, construct, alloc, setParents, setChildren, init] at this

/-- non-vacuity: `l[::-1] = (generator over [c, b, a])` on `l = [a, b, c]` is a valid step for a one-shot argument -/
example : Valid navExampleBase ((Op.setSliceExt 4 none none (-1) []).withArg (Src.fresh [0, 1, 2] true).items) ∧
    (stepSrc navExampleBase (.setSliceExt 4 none none (-1) []) (Src.fresh [0, 1, 2] true)).1.1.children 4
      = [2, 1, 0] := by
  simp [navExampleBase, Valid, Op.withArg, Op.target, Op.inserted, Op.replaced, Src.fresh, stepSrc, Src.iterate,
    run, step, construct, alloc, setParents, setChildren, setSliceExt, slicePositions, extBounds, extPos, itemsAt,
    replaceAt, List.idxOf_cons, init]

/-! ### Non-vacuity: a concrete non-trivial history satisfies the hypotheses -/

def exampleOps : List Op :=
  [.newUnit 1 0, .newUnit 2 1, .newUnit 0 2, .construct [0, 1] 0, .newUnit 1 3,
   .setItem 3 0 4, .append 3 2,
   .setSlice 3 none none [2, 1, 4],          -- l[:] = reversed(l): every inserted unit is a replaced one
   .setSliceExt 3 none none 2 [4, 2],        -- l[::2] = rotation of l[::2]
   .setItem 3 1 1,                           -- l[1] = l[1]
   .setSlice 3 (some 1) (some 3) [2, 0],     -- l[1:3] = [c, x] with c inside the range, x unlisted
   .pop 3 (-1), .insert 3 1 0, .delSliceExt 3 none none (-2), .flatten 3]

example : ValidRun init exampleOps := by
  simp [exampleOps, ValidRun, Valid, step, Op.target, Op.inserted, Op.replaced, construct, alloc,
    setParents, setChildren, setItem, setSlice, setSliceExt, delSliceExt, append, pop, insert, normIdx, clampIdx,
    sliceBounds, bySlice, slicePositions, extBounds, extPos, itemsAt, replaceAt, dropAt, List.idxOf_cons, init]

example : (run init exampleOps).children 3 = [0] := by
  simp [exampleOps, run, step, construct, alloc, setParents, setChildren, setItem, setSlice, setSliceExt,
    delSliceExt, append, pop, insert, flatten, flattenAux, normIdx, clampIdx, sliceBounds, slicePositions,
    extBounds, extPos, itemsAt, replaceAt, dropAt, List.idxOf_cons, init]

/-- navigation by type on a concrete list: `[p0, t1, u2, p3]` (roll pass, transport, plain, roll pass) -/
def navExample : TState := run init [.newUnit 1 0, .newUnit 2 1, .newUnit 0 2, .newUnit 1 3, .construct [0, 1, 2, 3] 0]

example : prevOf navExample 3 1 = .unit 0 ∧ nextOf navExample 0 1 = .unit 3 ∧ prevOf navExample 0 0 = .indexError ∧
    nextOf navExample 1 2 = .indexError ∧ prevOf navExample 2 0 = .unit 1 ∧ prevOf navExample 4 0 = .valueError := by
  decide

end Tree
