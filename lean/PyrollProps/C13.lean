import PyrollProofs.TreeLemmas
import PyrollModel.TreeProg

/-!
# C13 — the unit tree stays consistent under every edit of a sequence

Model: `PyrollModel/Tree.lean`, tied to `pyroll/core/unit/unit.py`, `pyroll/core/sequence/sequence.py`, `pyroll/core/hooks.py`
(T) by the programs which `driver/translate/c13_listops.py` reads out of the source on every run
(`PyrollModel/Gen/C13.lean`, interpreter `PyrollModel/TreeProg.lean`): section "What the source says" below proves that
running the generated program of every method equals the hand-written `step` / navigation / lookup function, and
(K) by the correspondence harness `driver/props/c13.py`.  Only property theorems live here; helper lemmas are in
`PyrollProofs/TreeLemmas.lean`.
-/

namespace Tree

/-- the sequence whose unit list an operation edits -/
def Op.target : Op → List Nat
  | .append s _ | .prepend s _ | .insert s _ _ | .extend s _ | .iadd s _ | .setItem s _ _
  | .setSlice s _ _ _ | .delItem s _ | .delSlice s _ _ | .setSliceExt s _ _ _ _ | .delSliceExt s _ _ _
  | .pop s _ | .remove s _ | .clear s | .drop s _ | .flatten s | .listCopy s => [s]
  | _ => []

/-- Side condition under which the invariant is preserved: the edited sequence exists; the inserted units exist, are
pairwise distinct and each of them is **not listed anywhere at that moment, or is one of the units which this very
item / slice assignment replaces** (`Op.replaced`: in-place reordering such as `l[:] = reversed(l)`,
`l[1:3] = [c, x]` with `c` in the range, `l[::2] = …` rotations; for every other operation `Op.replaced = []`);
a flattened sequence does not contain itself.  (An extended-slice assignment of another size needs no
condition: it raises ValueError and changes nothing, see `setSliceExt_size_mismatch_noop`.)
The excluded point is real: see `C13_counterexample` (a unit adopted while still listed elsewhere, F10). -/
def Valid (st : TState) (op : Op) : Prop :=
  (∀ s ∈ op.target, s < st.n) ∧
  (∀ u ∈ op.inserted, (st.parent u = none ∨ u ∈ op.replaced st) ∧ u < st.n) ∧
  op.inserted.Nodup ∧
  (∀ s, op = .flatten s → st.parent s ≠ some s)

theorem inv_init : Inv init := by
  constructor <;> simp [init]

/-- every operation of the list/sequence API preserves the tree invariant -/
theorem inv_step (st : TState) (op : Op) (h : Inv st) (hv : Valid st op) : Inv (step st op).1 := by
  obtain ⟨ht, hi, hd, hf⟩ := hv
  have hnone : op.replaced st = [] → ∀ u ∈ op.inserted, st.parent u = none := by
    intro he u hu; have := (hi u hu).1; rw [he] at this; simpa using this
  cases op with
  | newUnit k l => exact alloc_inv st k l h
  | construct us l =>
    exact construct_inv st us l h (hnone rfl) hd (fun u hu => (hi u hu).2)
  | append s u =>
    have := hi u (by simp [Op.inserted])
    exact append_inv st s u h (ht s (by simp [Op.target])) (hnone rfl u (by simp [Op.inserted])) this.2
  | prepend s u =>
    have := hi u (by simp [Op.inserted])
    exact insert_inv st s 0 u h (ht s (by simp [Op.target])) (hnone rfl u (by simp [Op.inserted])) this.2
  | insert s i u =>
    have := hi u (by simp [Op.inserted])
    exact insert_inv st s i u h (ht s (by simp [Op.target])) (hnone rfl u (by simp [Op.inserted])) this.2
  | extend s us =>
    exact extend_inv st s us h (ht s (by simp [Op.target])) (hnone rfl) hd (fun u hu => (hi u hu).2)
  | iadd s us =>
    exact extend_inv st s us h (ht s (by simp [Op.target])) (hnone rfl) hd (fun u hu => (hi u hu).2)
  | setItem s i u =>
    have := hi u (by simp [Op.inserted])
    exact setItem_inv st s i u h (ht s (by simp [Op.target])) this.1 this.2
  | setSlice s i j us =>
    exact setSlice_inv st s i j us h (ht s (by simp [Op.target])) (fun u hu => (hi u hu).1) hd
      (fun u hu => (hi u hu).2)
  | setSliceExt s i j k us =>
    exact setSliceExt_inv st s i j k us h (ht s (by simp [Op.target])) (fun u hu => (hi u hu).1) hd
      (fun u hu => (hi u hu).2)
  | delSliceExt s i j k => exact delSliceExt_inv st s i j k h (ht s (by simp [Op.target]))
  | delItem s i => exact delItem_inv st s i h (ht s (by simp [Op.target]))
  | delSlice s i j => exact delSlice_inv st s i j h (ht s (by simp [Op.target]))
  | pop s i => exact pop_inv st s i h (ht s (by simp [Op.target]))
  | remove s u => exact remove_inv st s u h (ht s (by simp [Op.target]))
  | clear s => exact clear_inv st s h (ht s (by simp [Op.target]))
  | drop s i => exact delItem_inv st s i h (ht s (by simp [Op.target]))
  | flatten s => exact flatten_inv st s h (ht s (by simp [Op.target])) (hf s rfl)
  | listCopy s => exact listCopy_inv st s h
  | deepCopy u => exact (deepCopy_spec (st.n + 1) st u h).inv

/-- validity of a whole history, checked against the states the history itself produces -/
def ValidRun : TState → List Op → Prop
  | _, [] => True
  | st, op :: ops => Valid st op ∧ ValidRun (step st op).1 ops

/-- the invariant holds in every state reachable by a valid history, from any state satisfying it -/
theorem inv_run (ops : List Op) : ∀ st, Inv st → ValidRun st ops → Inv (run st ops) := by
  induction ops with
  | nil => intro st h _; exact h
  | cons op ops ih =>
    intro st h hv
    simp only [run, List.foldl_cons]
    exact ih _ (inv_step st op h hv.1) hv.2

theorem inv_reachable (ops : List Op) (hv : ValidRun init ops) : Inv (run init ops) :=
  inv_run ops init inv_init hv

/-- every listed unit names that sequence as its parent; every unit that is listed nowhere names none -/
theorem listed_names_parent (st : TState) (h : Inv st) (s u : Nat) (hu : u ∈ st.children s) :
    st.parent u = some s := (h.mem_iff s u).1 hu

theorem unlisted_names_none (st : TState) (h : Inv st) (u : Nat) (hu : ∀ s, u ∉ st.children s) :
    st.parent u = none := by
  cases hp : st.parent u with
  | none => rfl
  | some p => exact absurd ((h.mem_iff p u).2 hp) (hu p)

/-- a deep copy's root names no parent and the copy does not disturb the existing units -/
theorem deepCopy_root_unlisted (st : TState) (u : Nat) (h : Inv st) :
    (step st (.deepCopy u)).1.parent (st.n) = none ∧
    ∀ x, x < st.n → (step st (.deepCopy u)).1.parent x = st.parent x ∧
      (step st (.deepCopy u)).1.children x = st.children x := by
  have sp := deepCopy_spec (st.n + 1) st u h
  refine ⟨?_, fun x hx => ⟨sp.keepP x hx, sp.keepC x hx⟩⟩
  have := sp.rootP
  rw [sp.root] at this
  exact this

/-- previous/next navigation agrees with the list order -/
theorem nav_agrees (st : TState) (h : Inv st) (p u : Nat) (pre post : List Nat)
    (hl : st.children p = pre ++ u :: post) :
    prev st u = (match pre.getLast? with | some v => .unit v | none => .indexError) ∧
    next st u = (match post.head? with | some v => .unit v | none => .indexError) :=
  nav_split st h p u pre post hl

/-- navigation by type (`prev_of(t)` / `next_of(t)`) agrees with the list order: the result is the LAST unit of the
requested kind among the units listed before `u`, resp. the FIRST one among the units listed after `u`
(`IndexError` when there is none) - in particular never `u` itself, even when `u` is of the requested kind. -/
theorem navOf_agrees (st : TState) (h : Inv st) (p u q : Nat) (pre post : List Nat)
    (hl : st.children p = pre ++ u :: post) :
    prevOf st u q = (match (pre.filter (isKind st q)).getLast? with | some v => .unit v | none => .indexError) ∧
    nextOf st u q = (match (post.filter (isKind st q)).head? with | some v => .unit v | none => .indexError) ∧
    prevOf st u q ≠ .unit u ∧ nextOf st u q ≠ .unit u := by
  have hlen := children_length_le st h p
  rw [hl] at hlen
  simp only [List.length_append, List.length_cons] at hlen
  have e1 := prevOfAux_spec st h q p (st.n + 1) pre u post hl (by omega)
  have e2 := nextOfAux_spec st h q p (st.n + 1) post u pre hl (by omega)
  have hnd := h.nodup p
  rw [hl] at hnd
  have hnd' := List.nodup_append.1 hnd
  have hpre : u ∉ pre := fun hm => hnd'.2.2 u hm u (by simp) rfl
  have hpost : u ∉ post := (List.nodup_cons.1 hnd'.2.1).1
  refine ⟨e1, e2, ?_, ?_⟩
  · simp only [prevOf, e1]
    cases hg : (pre.filter (isKind st q)).getLast? with
    | none => simp
    | some v =>
      have : v ∈ pre.filter (isKind st q) := List.mem_of_getLast? hg
      have : v ∈ pre := (List.mem_filter.1 this).1
      simp only [ne_eq, Nav.unit.injEq]
      intro e; subst e; exact hpre this
  · simp only [nextOf, e2]
    cases hg : (post.filter (isKind st q)).head? with
    | none => simp
    | some v =>
      have : v ∈ post.filter (isKind st q) := List.mem_of_head? hg
      have : v ∈ post := (List.mem_filter.1 this).1
      simp only [ne_eq, Nav.unit.injEq]
      intro e; subst e; exact hpost this

/-- navigation by type from a unit without parent raises ValueError, like `prev` / `next` -/
theorem navOf_orphan (st : TState) (u q : Nat) (hp : st.parent u = none) :
    prevOf st u q = .valueError ∧ nextOf st u q = .valueError := by
  simp [prevOf, nextOf, prevOfAux, nextOfAux, prev, next, hp]

/-- a unit without parent has no previous/next (ValueError), as documented -/
theorem nav_orphan (st : TState) (u : Nat) (hp : st.parent u = none) :
    prev st u = .valueError ∧ next st u = .valueError := by
  simp [prev, next, hp]

/-- access by index returns the listed unit at that (python-normalised) position -/
theorem byIndex_spec (st : TState) (s : Nat) (i : Int) (k : Nat) (hk : normIdx (st.children s).length i = some k) :
    byIndex st s i = (st.children s)[k]? := by
  simp [byIndex, hk]

theorem byIndex_nonneg (len : Nat) (i : Nat) (h : i < len) : normIdx len (i : Int) = some i := by
  simp [normIdx, h]

theorem byIndex_neg (len : Nat) (i : Nat) (h1 : 0 < i) (h2 : i ≤ len) :
    normIdx len (-(i : Int)) = some (len - i) := by
  simp only [normIdx]
  have : ¬ (0 : Int) ≤ -(i : Int) := by omega
  simp only [this, if_false]
  have : -(len : Int) ≤ -(i : Int) := by omega
  simp only [this, if_true]
  congr 1
  omega

/-- label lookup returns the FIRST listed unit carrying the label -/
theorem byLabel_first (st : TState) (s lab : Nat) (pre post : List Nat) (u : Nat)
    (hl : st.children s = pre ++ u :: post) (hu : st.label u = lab) (hpre : ∀ v ∈ pre, st.label v ≠ lab) :
    byLabel st s lab = some u := by
  simp only [byLabel, hl]
  rw [List.find?_append]
  have : pre.find? (fun u => decide (st.label u = lab)) = none := by
    simp only [List.find?_eq_none]
    intro v hv; simpa using hpre v hv
  simp [this, hu]

theorem byLabel_missing (st : TState) (s lab : Nat) (h : ∀ v ∈ st.children s, st.label v ≠ lab) :
    byLabel st s lab = none := by
  simp only [byLabel, List.find?_eq_none]
  intro v hv; simpa using h v hv

/-- the lists of roll passes / transports are the order-preserving sub-lists by type -/
theorem ofKind_sublist (st : TState) (s k : Nat) : (ofKind st s k).Sublist (st.children s) :=
  List.filter_sublist

theorem ofKind_mem (st : TState) (s k u : Nat) : u ∈ ofKind st s k ↔ u ∈ st.children s ∧ st.kind u = k := by
  simp [ofKind]

/-- slices are contiguous runs of the list -/
theorem bySlice_spec (st : TState) (s : Nat) (i j : Option Int) :
    ∃ pre post, st.children s = pre ++ bySlice st s i j ++ post := by
  have hle := sliceBounds_le (st.children s).length i j
  refine ⟨(st.children s).take (sliceBounds (st.children s).length i j).1,
          (st.children s).drop (sliceBounds (st.children s).length i j).2, ?_⟩
  have := split3 (st.children s) _ _ hle
  simpa [bySlice, List.append_assoc] using this

/-! ### The full-strength statement is false of model and code (finding F10) -/

/-- C13 at full strength: the invariant after EVERY history (units may be inserted while still listed). -/
def C13_full : Prop := ∀ ops : List Op, Inv (run init ops)

/-- A unit adopted by a second sequence while still listed in the first one leaves the first list stale.
The same history is replayed on the implementation by the harness (known finding
`adopt-unit-still-listed-elsewhere`). -/
theorem C13_counterexample : ¬ C13_full := by
  intro h
  have := (h [.newUnit 0 0, .construct [0] 0, .construct [0] 1]).mem_iff 1 0
  simp [run, step, construct, alloc, setParents, setChildren, init] at this

/-- `l = [u0, u1, u2]` in sequence `u4`, `u3` unlisted -/
def navExampleBase : TState :=
  run init [.newUnit 0 0, .newUnit 0 1, .newUnit 0 2, .newUnit 0 3, .construct [0, 1, 2] 0]

/-- an extended-slice assignment (`k ∉ {0, 1}`) of another size than it addresses raises ValueError and is a no-op -/
theorem setSliceExt_size_mismatch_noop (st : TState) (s : Nat) (i j : Option Int) (k : Int) (us : List Nat)
    (h0 : k ≠ 0) (h1 : k ≠ 1) (hsz : us.length ≠ (slicePositions (st.children s).length i j k).length) :
    step st (.setSliceExt s i j k us) = (st, .valueError) := by
  simp [step, setSliceExt, h0, h1, hsz]

example : step navExampleBase (.setSliceExt 4 none none 2 [3]) = (navExampleBase, .valueError) :=
  setSliceExt_size_mismatch_noop _ _ _ _ _ _ (by decide) (by decide) (by decide)

/-! ### The form in which an iterable argument is handed over does not matter -/

/-- a one-shot iterable yields its items once, a re-iterable one every time -/
theorem Src.iterate_again (a : Src) :
    a.iterate.2.iterate.1 = (if a.oneShot then [] else a.items) := by
  cases h : a.oneShot <;> simp [Src.iterate, h]

/-- `extend`, `+=`, slice / extended-slice assignment and construction iterate their argument exactly once and then
behave as if they had been given the list of its items - whether the argument is re-iterable or one-shot -/
theorem stepSrc_form_independent (st : TState) (op : Op) (a : Src) (hs : a.spent = false) :
    (stepSrc st op a).1 = step st (op.withArg a.items) ∧ (stepSrc st op a).2.spent = true := by
  simp [stepSrc, Src.iterate, hs]

/-- hence the invariant is preserved for every form of argument -/
theorem inv_stepSrc (st : TState) (op : Op) (a : Src) (h : Inv st) (hs : a.spent = false)
    (hv : Valid st (op.withArg a.items)) : Inv (stepSrc st op a).1.1 := by
  rw [(stepSrc_form_independent st op a hs).1]
  exact inv_step st _ h hv

/-- `extend` without the materialising `units = list(units)` is the same for every re-iterable argument … -/
theorem extendLazy_reiterable (st : TState) (s : Nat) (a : Src) (h : a.oneShot = false) :
    (extendLazy st s a).1 = (step st (.extend s a.items)).1 := by
  simp [extendLazy, Src.iterate, h, step, extend]

/-- … but not for a one-shot one: the handed-over units name the sequence as parent and are not listed
(`s = PassSequence([]); s.subunits.extend(u for u in [x])`).  This is why the line is there, and why the harness hands
arguments over as generators / iterators as well. -/
theorem extendLazy_oneShot_breaks :
    ∃ (st : TState) (s : Nat) (a : Src), Inv st ∧ Valid st (.extend s a.items) ∧ a.spent = false ∧
      Inv (step st (.extend s a.items)).1 ∧ ¬ Inv (extendLazy st s a).1 := by
  refine ⟨run init [.newUnit 0 0, .construct [] 0], 1, Src.fresh [0] true, ?_, ?_, rfl, ?_, ?_⟩
  · exact inv_reachable _ (by simp [ValidRun, Valid, Op.target, Op.inserted])
  · simp [Valid, Op.target, Op.inserted, Op.replaced, Src.fresh, run, step, construct, alloc, setParents,
      setChildren, init]
  · refine inv_step _ _ (inv_reachable _ (by simp [ValidRun, Valid, Op.target, Op.inserted])) ?_
    simp [Valid, Op.target, Op.inserted, Op.replaced, Src.fresh, run, step, construct, alloc, setParents,
      setChildren, init]
  · intro h
    have := (h.mem_iff 1 0).2
    simp [extendLazy, Src.iterate, Src.fresh, run, step, construct, alloc, setParents, setChildren, init] at this

/-- non-vacuity: `l[::-1] = (generator over [c, b, a])` on `l = [a, b, c]` is a valid step for a one-shot argument -/
example : Valid navExampleBase ((Op.setSliceExt 4 none none (-1) []).withArg (Src.fresh [0, 1, 2] true).items) ∧
    (stepSrc navExampleBase (.setSliceExt 4 none none (-1) []) (Src.fresh [0, 1, 2] true)).1.1.children 4
      = [2, 1, 0] := by
  simp [navExampleBase, Valid, Op.withArg, Op.target, Op.inserted, Op.replaced, Src.fresh, stepSrc, Src.iterate,
    run, step, construct, alloc, setParents, setChildren, setSliceExt, slicePositions, extBounds, extPos, itemsAt,
    replaceAt, List.idxOf_cons, init]

/-! ### Non-vacuity: a concrete non-trivial history satisfies the hypotheses -/

def exampleOps : List Op :=
  [.newUnit 1 0, .newUnit 2 1, .newUnit 0 2, .construct [0, 1] 0, .newUnit 1 3,
   .setItem 3 0 4, .append 3 2,
   .setSlice 3 none none [2, 1, 4],          -- l[:] = reversed(l): every inserted unit is a replaced one
   .setSliceExt 3 none none 2 [4, 2],        -- l[::2] = rotation of l[::2]
   .setItem 3 1 1,                           -- l[1] = l[1]
   .setSlice 3 (some 1) (some 3) [2, 0],     -- l[1:3] = [c, x] with c inside the range, x unlisted
   .pop 3 (-1), .insert 3 1 0, .delSliceExt 3 none none (-2), .flatten 3]

example : ValidRun init exampleOps := by
  simp [exampleOps, ValidRun, Valid, step, Op.target, Op.inserted, Op.replaced, construct, alloc,
    setParents, setChildren, setItem, setSlice, setSliceExt, delSliceExt, append, pop, insert, normIdx, clampIdx,
    sliceBounds, bySlice, slicePositions, extBounds, extPos, itemsAt, replaceAt, dropAt, List.idxOf_cons, init]

example : (run init exampleOps).children 3 = [0] := by
  simp [exampleOps, run, step, construct, alloc, setParents, setChildren, setItem, setSlice, setSliceExt,
    delSliceExt, append, pop, insert, flatten, flattenAux, normIdx, clampIdx, sliceBounds, slicePositions,
    extBounds, extPos, itemsAt, replaceAt, dropAt, List.idxOf_cons, init]

/-- navigation by type on a concrete list: `[p0, t1, u2, p3]` (roll pass, transport, plain, roll pass) -/
def navExample : TState := run init [.newUnit 1 0, .newUnit 2 1, .newUnit 0 2, .newUnit 1 3, .construct [0, 1, 2, 3] 0]

example : prevOf navExample 3 1 = .unit 0 ∧ nextOf navExample 0 1 = .unit 3 ∧ prevOf navExample 0 0 = .indexError ∧
    nextOf navExample 1 2 = .indexError ∧ prevOf navExample 2 0 = .unit 1 ∧ prevOf navExample 4 0 = .valueError := by
  decide

/-! ## What the source says (tie T)

`Gen.C13` holds the statements of every method the property is about, as read from the current source.  The theorems of
this section run those programs (`PyrollModel/TreeProg.lean`: what one instruction does, the primitives of a python
`list` as modelled) and prove - for EVERY state and EVERY argument, by unfolding - that the result is what the
hand-written model does.  So the invariant theorems above, which speak of `step`, `prev`, `prevOf`, `byLabel`, `ofKind`,
are theorems about what the source says; a source change that alters a program either leaves these proofs intact
(nothing observable changed) or makes this file stop building (broken tie).

CONSUMED (general proof): `_SubUnitsList.__init__/append/extend/__iadd__/insert/pop (incl. default index)/clear/remove/
copy/__setitem__/__delitem__`, `PassSequence.__init__/prepend/append/drop/flatten/units/roll_passes/transports/
__getitem__`, `Unit.prev/next/prev_of/next_of`.
PINNED (`decide`d equality with the expected statements): the class inventory (`list_api_as_modelled`),
`Unit.parent` getter / setter, `Unit.subunits`, `PassSequence.__len__/__iter__`, `_SubUnitsList.__deepcopy__`,
`HookHost.__deepcopy__` (`pinned_methods_as_modelled`): the model's `deepCopy` is a recursion over the whole tree, its
agreement with the memo protocol of `copy.deepcopy` is left to the correspondence runs. -/

section Source
open Gen.C13
set_option linter.unusedSimpArgs false

/-- unfold one generated method completely -/
macro "prog_simp" " [" ts:Lean.Parser.Tactic.simpLemma,* "]" : tactic =>
  `(tactic| (simp [runMeth, runInit, runProg, exec, Env.guard, Env.get, Env.set, Env.items, Env.setItems, Env.par,
      Env.keyOf, Env.iterate, finish, outOf, pyGetItem, pySetItem, pyDelItem, step, setParents_children,
      setChildren_parent, $ts,*]) <;> rfl)

/-! ### the mutators of `Unit._SubUnitsList` -/

theorem append_program_refines_step (st : TState) (s u : Nat) (a : Src) :
    let r := runMeth Gen.C13.append st { s := s, arg := .unit u, src := a }
    (r.st, r.out, r.src) = ((step st (.append s u)).1, some (step st (.append s u)).2, a) := by
  rfl

theorem insert_program_refines_step (st : TState) (s : Nat) (i : Int) (u : Nat) (a : Src) :
    let r := runMeth Gen.C13.insert st { s := s, key := some (.idx i), arg := .unit u, src := a }
    (r.st, r.out, r.src) = ((step st (.insert s i u)).1, some (step st (.insert s i u)).2, a) := by
  rfl

/-- `extend` iterates its argument ONCE (`units = list(units)`), for every kind of iterable, spent or not -/
theorem extend_program_refines_step (st : TState) (s : Nat) (a : Src) :
    let r := runMeth Gen.C13.extend st { s := s, arg := .iter, src := a }
    (r.st, r.out, r.src) =
      ((step st (.extend s a.iterate.1)).1, some (step st (.extend s a.iterate.1)).2, a.iterate.2) := by
  rfl

/-- `+=` does what `extend` does and returns the list itself -/
theorem iadd_program_refines_step (st : TState) (s : Nat) (a : Src) :
    let r := runMeth Gen.C13.iadd st { s := s, arg := .iter, src := a }
    (r.st, r.out, r.src) =
      ((step st (.iadd s a.iterate.1)).1, some (step st (.iadd s a.iterate.1)).2, a.iterate.2) ∧ r.retSelf = true := by
  exact ⟨rfl, rfl⟩

theorem clear_program_refines_step (st : TState) (s : Nat) (a : Src) :
    let r := runMeth Gen.C13.clear st { s := s, src := a }
    (r.st, r.out, r.src) = ((step st (.clear s)).1, some (step st (.clear s)).2, a) := by
  rfl

theorem remove_program_refines_step (st : TState) (s u : Nat) (a : Src) :
    let r := runMeth Gen.C13.remove st { s := s, arg := .unit u, src := a }
    (r.st, r.out, r.src) = ((step st (.remove s u)).1, some (step st (.remove s u)).2, a) := by
  by_cases h : u ∈ st.children s <;> prog_simp [Gen.C13.remove, Tree.remove, h]

theorem pop_program_refines_step (st : TState) (s : Nat) (i : Int) (a : Src) :
    let r := runMeth Gen.C13.pop st { s := s, key := some (.idx i), src := a }
    (r.st, r.out, r.src) = ((step st (.pop s i)).1, some (step st (.pop s i)).2, a) := by
  cases hn : normIdx (st.children s).length i with
  | none => prog_simp [Gen.C13.pop, Tree.pop, hn]
  | some k =>
    have hk := normIdx_lt hn
    have hg : (st.children s)[k]? = some (st.children s)[k] := List.getElem?_eq_getElem hk
    have ht := take_one_drop _ _ hk
    prog_simp [Gen.C13.pop, Tree.pop, hn, hg, ht]

/-- `pop()` without an index is `pop(-1)` (the default of the index parameter is read from the signature) -/
theorem pop_default_program_refines_step (st : TState) (s : Nat) (a : Src) :
    let r := runMeth Gen.C13.pop st { s := s, src := a }
    (r.st, r.out, r.src) = ((step st (.pop s (-1))).1, some (step st (.pop s (-1))).2, a) :=
  pop_program_refines_step st s (-1) a

theorem setitem_index_program_refines_step (st : TState) (s : Nat) (i : Int) (u : Nat) (a : Src) :
    let r := runMeth Gen.C13.setitem st { s := s, key := some (.idx i), arg := .unit u, src := a }
    (r.st, r.out, r.src) = ((step st (.setItem s i u)).1, some (step st (.setItem s i u)).2, a) := by
  cases hn : normIdx (st.children s).length i with
  | none => prog_simp [Gen.C13.setitem, Tree.setItem, hn]
  | some k =>
    have hk := normIdx_lt hn
    have hg : (st.children s)[k]? = some (st.children s)[k] := List.getElem?_eq_getElem hk
    have ht := take_one_drop _ _ hk
    prog_simp [Gen.C13.setitem, Tree.setItem, hn, hg, ht]

/-- `l[i:j:k] = iterable` for every step (`k = 1`: the plain slice; `k = 0`: ValueError before anything happens; a
size mismatch of an extended slice: ValueError, nothing touched), the right-hand side iterated once -/
theorem setitem_slice_program_refines_step (st : TState) (s : Nat) (i j : Option Int) (k : Int) (a : Src) :
    let r := runMeth Gen.C13.setitem st { s := s, key := some (.slice i j k), arg := .iter, src := a }
    (r.st, r.out, r.src) =
      ((step st (.setSliceExt s i j k a.iterate.1)).1, some (step st (.setSliceExt s i j k a.iterate.1)).2,
       a.iterate.2) := by
  by_cases h0 : k = 0
  · prog_simp [Gen.C13.setitem, Tree.setSliceExt, h0]
  · by_cases h1 : k = 1
    · prog_simp [Gen.C13.setitem, Tree.setSliceExt, Tree.setSlice, h0, h1]
    · by_cases hs : a.iterate.1.length = (slicePositions (st.children s).length i j k).length
      · prog_simp [Gen.C13.setitem, Tree.setSliceExt, h0, h1, hs]
      · prog_simp [Gen.C13.setitem, Tree.setSliceExt, h0, h1, hs]

theorem delitem_index_program_refines_step (st : TState) (s : Nat) (i : Int) (a : Src) :
    let r := runMeth Gen.C13.delitem st { s := s, key := some (.idx i), src := a }
    (r.st, r.out, r.src) = ((step st (.delItem s i)).1, some (step st (.delItem s i)).2, a) := by
  cases hn : normIdx (st.children s).length i with
  | none => prog_simp [Gen.C13.delitem, Tree.delItem, hn]
  | some k =>
    have hk := normIdx_lt hn
    have hg : (st.children s)[k]? = some (st.children s)[k] := List.getElem?_eq_getElem hk
    have ht := take_one_drop _ _ hk
    prog_simp [Gen.C13.delitem, Tree.delItem, hn, hg, ht]

theorem delitem_slice_program_refines_step (st : TState) (s : Nat) (i j : Option Int) (k : Int) (a : Src) :
    let r := runMeth Gen.C13.delitem st { s := s, key := some (.slice i j k), src := a }
    (r.st, r.out, r.src) = ((step st (.delSliceExt s i j k)).1, some (step st (.delSliceExt s i j k)).2, a) := by
  by_cases h0 : k = 0
  · prog_simp [Gen.C13.delitem, Tree.delSliceExt, h0]
  · by_cases h1 : k = 1
    · prog_simp [Gen.C13.delitem, Tree.delSliceExt, Tree.delSlice, h0, h1]
    · prog_simp [Gen.C13.delitem, Tree.delSliceExt, h0, h1]

/-- `l.copy()` builds a NEW list object with the same items and the same owner, which re-adopts every item -/
theorem copy_program_refines_step (st : TState) (s : Nat) (a : Src) :
    let r := runMeth Gen.C13.copy st { s := s, src := a }
    (r.st, r.out, r.src) = ((step st (.listCopy s)).1, some (step st (.listCopy s)).2, a) ∧
      r.det = some (st.children s) ∧ r.retSelf = true := by
  exact ⟨rfl, rfl, rfl⟩

/-- `_SubUnitsList(owner, units)`: the items of ONE iteration of `units`, each naming `owner` -/
theorem init_program_refines (st : TState) (s : Nat) (a : Src) :
    let r := runInit Gen.C13.init st { s := s, arg := .iter, src := a }
    (r.st, r.out, r.det, r.src) = (setParents st a.iterate.1 (some s), some .ok, some a.iterate.1, a.iterate.2) := by
  rfl

/-! ### `PassSequence` -/

theorem construct_program_refines_step (st : TState) (label : Nat) (a : Src) :
    runSeqInit Gen.C13.seq_init Gen.C13.init st label a = some (construct st a.iterate.1 label, a.iterate.2) := by
  rfl

theorem seq_append_program_refines_step (st : TState) (s u : Nat) (a : Src) :
    let r := runMeth Gen.C13.seq_append st { s := s, arg := .unit u, src := a }
    (r.st, r.out, r.src) = ((step st (.append s u)).1, some (step st (.append s u)).2, a) := by
  rfl

theorem seq_prepend_program_refines_step (st : TState) (s u : Nat) (a : Src) :
    let r := runMeth Gen.C13.seq_prepend st { s := s, arg := .unit u, src := a }
    (r.st, r.out, r.src) = ((step st (.prepend s u)).1, some (step st (.prepend s u)).2, a) := by
  rfl

theorem seq_drop_program_refines_step (st : TState) (s : Nat) (i : Int) (a : Src) :
    let r := runMeth Gen.C13.seq_drop st { s := s, key := some (.idx i), src := a }
    (r.st, r.out, r.src) = ((step st (.drop s i)).1, some (step st (.drop s i)).2, a) := by
  cases hn : normIdx (st.children s).length i with
  | none => prog_simp [Gen.C13.seq_drop, Tree.delItem, hn]
  | some k =>
    have hk := normIdx_lt hn
    have hg : (st.children s)[k]? = some (st.children s)[k] := List.getElem?_eq_getElem hk
    have ht := take_one_drop _ _ hk
    prog_simp [Gen.C13.seq_drop, Tree.delItem, hn, hg, ht]

theorem flattenAux_program_refines (st : TState) (items acc : List Nat) :
    runFlattenAux Gen.C13.flatten Gen.C13.clear 3 st items acc = some (flattenAux st items acc) := by
  have clear_run : ∀ (st : TState) (s : Nat), runMeth Gen.C13.clear st { s := s } =
      { st := Tree.clear st s, out := some .ok, src := Src.fresh [] false, retSelf := false, det := none } :=
    fun _ _ => rfl
  induction items generalizing st acc with
  | nil => rfl
  | cons item rest ih =>
    by_cases hk : st.kind item = 3
    · simp only [runFlattenAux, hk, if_true, Gen.C13.flatten, runF, clear_run, flattenAux]
      exact ih _ _
    · simp only [runFlattenAux, hk, if_false, Gen.C13.flatten, runF, flattenAux]
      exact ih _ _

/-- `flatten`: nested sequences are replaced by their units (read BEFORE the inner list is cleared), emptied and
orphaned; the new list is installed as a `_SubUnitsList`, which adopts its items -/
theorem flatten_program_refines_step (st : TState) (s : Nat) :
    runFlatten Gen.C13.flatten Gen.C13.clear Gen.C13.init st s = some (step st (.flatten s)).1 := by
  simp only [runFlatten, Gen.C13.flatten, kindOfClass]
  have := flattenAux_program_refines st (st.children s) []
  simp only [Gen.C13.flatten] at this
  rw [this]
  rfl

/-- `units`, `roll_passes`, `transports`: a new list on every call, filtered by type, in list order, nothing cached -/
theorem views_program_refines (st : TState) (s : Nat) :
    runQuery Gen.C13.units st s = some (st.children s) ∧
    runQuery Gen.C13.roll_passes st s = some (ofKind st s 1) ∧
    runQuery Gen.C13.transports st s = some (ofKind st s 2) := by
  simp [runQuery, Gen.C13.units, Gen.C13.roll_passes, Gen.C13.transports, kindOfClass, ofKind]

/-- `seq["label"]`: the FIRST listed unit carrying the label, KeyError when there is none -/
theorem getitem_label_program_refines (st : TState) (s lab : Nat) :
    runGetLabel Gen.C13.getitem st s lab = some (byLabel st s lab) := by
  simp [runGetLabel, Gen.C13.getitem, byLabel]

theorem getitem_index_program_refines (st : TState) (s : Nat) (i : Int) :
    runGetKey Gen.C13.getitem st s (.idx i) =
      some (match byIndex st s i with | some u => .ok (.unit u) | none => .error .indexError) := by
  simp only [runGetKey, Gen.C13.getitem, pyGetItem, byIndex]
  cases hn : normIdx (st.children s).length i with
  | none => simp
  | some k =>
    have hk := normIdx_lt hn
    simp [List.getElem?_eq_getElem hk]

theorem getitem_slice_program_refines (st : TState) (s : Nat) (i j : Option Int) :
    runGetKey Gen.C13.getitem st s (.slice i j 1) = some (.ok (.list (bySlice st s i j))) := by
  simp [runGetKey, Gen.C13.getitem, pyGetItem, bySlice]

/-! ### navigation -/

theorem prev_program_refines (st : TState) (u : Nat) : runNav Gen.C13.prev st u none = some (prev st u) := by
  simp only [Gen.C13.prev, runNav, prev, navExc]
  cases hp : st.parent u with
  | none => rfl
  | some p =>
    simp only []
    by_cases hm : u ∈ st.children p
    · simp only [hm, if_true, evalI]
      have hlt := List.idxOf_lt_length_of_mem hm
      by_cases h0 : List.idxOf u (st.children p) = 0
      · simp [h0]
      · have hne : ¬ ((List.idxOf u (st.children p) : Int) + 0 = 0) := by omega
        have hn : normIdx (st.children p).length ((List.idxOf u (st.children p) : Int) + -1)
            = some (List.idxOf u (st.children p) - 1) := by
          simp only [normIdx]
          have h1 : (0 : Int) ≤ (List.idxOf u (st.children p) : Int) + -1 := by omega
          have h2 : (List.idxOf u (st.children p) : Int) + -1 < ((st.children p).length : Int) := by omega
          simp only [h1, h2, if_true]
          congr 1
          omega
        simp only [hne, if_false, h0, hn]
        cases (st.children p)[List.idxOf u (st.children p) - 1]? <;> rfl
    · simp [hm]

theorem next_program_refines (st : TState) (u : Nat) : runNav Gen.C13.next st u none = some (next st u) := by
  simp only [Gen.C13.next, runNav, next, navExc]
  cases hp : st.parent u with
  | none => rfl
  | some p =>
    simp only []
    by_cases hm : u ∈ st.children p
    · simp only [hm, if_true, evalI]
      have hlt := List.idxOf_lt_length_of_mem hm
      by_cases hl : List.idxOf u (st.children p) + 1 = (st.children p).length
      · have he : ((List.idxOf u (st.children p) : Int) + 0 = ((st.children p).length : Int) + -1) := by omega
        have hnone : (st.children p)[List.idxOf u (st.children p) + 1]? = none := by
          apply List.getElem?_eq_none; omega
        simp [he, hnone]
      · have hne : ¬ ((List.idxOf u (st.children p) : Int) + 0 = ((st.children p).length : Int) + -1) := by omega
        have hn : normIdx (st.children p).length ((List.idxOf u (st.children p) : Int) + 1)
            = some (List.idxOf u (st.children p) + 1) := by
          simp only [normIdx]
          have h1 : (0 : Int) ≤ (List.idxOf u (st.children p) : Int) + 1 := by omega
          have h2 : (List.idxOf u (st.children p) : Int) + 1 < ((st.children p).length : Int) := by omega
          simp only [h1, h2, if_true]
          congr 1
        simp only [hne, if_false, hn]
        cases (st.children p)[List.idxOf u (st.children p) + 1]? <;> rfl
    · simp [hm]

theorem navLoop_prev (fuel : Nat) : ∀ (st : TState) (v q : Nat),
    navLoop prev fuel st v q = if isKind st q v then .unit v else prevOfAux fuel st v q := by
  induction fuel with
  | zero => intro st v q; simp [navLoop, prevOfAux]
  | succ f ih =>
    intro st v q
    simp only [navLoop, prevOfAux]
    cases hp : prev st v with
    | unit w => simp only [ih]
    | _ => rfl

theorem navLoop_next (fuel : Nat) : ∀ (st : TState) (v q : Nat),
    navLoop next fuel st v q = if isKind st q v then .unit v else nextOfAux fuel st v q := by
  induction fuel with
  | zero => intro st v q; simp [navLoop, nextOfAux]
  | succ f ih =>
    intro st v q
    simp only [navLoop, nextOfAux]
    cases hp : next st v with
    | unit w => simp only [ih]
    | _ => rfl

/-- `prev_of(t)`: starts at `self.prev` (never at the unit itself), tests with `isinstance`, advances by `.prev` -/
theorem prev_of_program_refines (st : TState) (u q : Nat) :
    runNavOf Gen.C13.prev_of (st.n + 1) st u q = some (prevOf st u q) := by
  simp only [runNavOf, Gen.C13.prev_of, navProp, prevOf, prevOfAux, decide_true]
  cases hp : prev st u with
  | unit w => simp only [navLoop_prev]
  | _ => rfl

theorem next_of_program_refines (st : TState) (u q : Nat) :
    runNavOf Gen.C13.next_of (st.n + 1) st u q = some (nextOf st u q) := by
  simp only [runNavOf, Gen.C13.next_of, navProp, nextOf, nextOfAux, decide_true]
  cases hp : next st u with
  | unit w => simp only [navLoop_next]
  | _ => rfl

/-! ### every operation at once -/

/-- one operation as the SOURCE performs it: the generated program of the method the harness calls for that `Op`
(`append/prepend/drop/flatten/construct`: the `PassSequence` method; the others: the `_SubUnitsList` method), with the
iterable argument `a` handed over as it is.  `newUnit` (construction of a unit without sub-units) and `deepCopy`
(pinned, see `pinned_methods_as_modelled`) are the model's own. -/
def runOpSrc (st : TState) (op : Op) (a : Src) : Option ((TState × Out) × Src) :=
  let pack (r : Res) : Option ((TState × Out) × Src) := r.out.map fun o => ((r.st, o), r.src)
  match op with
  | .newUnit _ _ => some (step st op, a)
  | .deepCopy _ => some (step st op, a)
  | .construct _ l => (runSeqInit Gen.C13.seq_init Gen.C13.init st l a).map fun r => ((r.1.1, .unit r.1.2), r.2)
  | .append s u => pack (runMeth Gen.C13.seq_append st { s := s, arg := .unit u, src := a })
  | .prepend s u => pack (runMeth Gen.C13.seq_prepend st { s := s, arg := .unit u, src := a })
  | .insert s i u => pack (runMeth Gen.C13.insert st { s := s, key := some (.idx i), arg := .unit u, src := a })
  | .extend s _ => pack (runMeth Gen.C13.extend st { s := s, arg := .iter, src := a })
  | .iadd s _ => pack (runMeth Gen.C13.iadd st { s := s, arg := .iter, src := a })
  | .setItem s i u => pack (runMeth Gen.C13.setitem st { s := s, key := some (.idx i), arg := .unit u, src := a })
  | .setSlice s i j _ => pack (runMeth Gen.C13.setitem st { s := s, key := some (.slice i j 1), arg := .iter, src := a })
  | .setSliceExt s i j k _ =>
    pack (runMeth Gen.C13.setitem st { s := s, key := some (.slice i j k), arg := .iter, src := a })
  | .delItem s i => pack (runMeth Gen.C13.delitem st { s := s, key := some (.idx i), src := a })
  | .delSlice s i j => pack (runMeth Gen.C13.delitem st { s := s, key := some (.slice i j 1), src := a })
  | .delSliceExt s i j k => pack (runMeth Gen.C13.delitem st { s := s, key := some (.slice i j k), src := a })
  | .pop s i => pack (runMeth Gen.C13.pop st { s := s, key := some (.idx i), src := a })
  | .remove s u => pack (runMeth Gen.C13.remove st { s := s, arg := .unit u, src := a })
  | .clear s => pack (runMeth Gen.C13.clear st { s := s, src := a })
  | .drop s i => pack (runMeth Gen.C13.seq_drop st { s := s, key := some (.idx i), src := a })
  | .flatten s => (runFlatten Gen.C13.flatten Gen.C13.clear Gen.C13.init st s).map fun st' => ((st', .ok), a)
  | .listCopy s => pack (runMeth Gen.C13.copy st { s := s, src := a })


theorem pack_eq (r : Res) (st' : TState) (o : Out) (src : Src) (h : (r.st, r.out, r.src) = (st', some o, src)) :
    (r.out.map fun o => ((r.st, o), r.src)) = some ((st', o), src) := by
  simp only [Prod.mk.injEq] at h
  simp [h.1, h.2.1, h.2.2]

/-- **op_program_refines_step** - for EVERY operation, every state and every argument (handed over as any iterable,
spent or not): running the program read from the source is one iteration of the argument followed by the
hand-written `step` on the resulting list; an operation without an iterable argument leaves `a` alone. -/
theorem op_program_refines_step (st : TState) (op : Op) (a : Src) :
    runOpSrc st op a =
      some (step st (op.withArg a.iterate.1), if op.arg?.isSome then a.iterate.2 else a) := by
  cases op with
  | newUnit k l => rfl
  | deepCopy u => rfl
  | construct us l =>
    simp only [runOpSrc, construct_program_refines_step, Option.map, Op.withArg, Op.arg?, step]
    rfl
  | append s u => exact pack_eq _ _ _ _ (seq_append_program_refines_step st s u a)
  | prepend s u => exact pack_eq _ _ _ _ (seq_prepend_program_refines_step st s u a)
  | insert s i u => exact pack_eq _ _ _ _ (insert_program_refines_step st s i u a)
  | extend s us => exact pack_eq _ _ _ _ (extend_program_refines_step st s a)
  | iadd s us => exact pack_eq _ _ _ _ (iadd_program_refines_step st s a).1
  | setItem s i u => exact pack_eq _ _ _ _ (setitem_index_program_refines_step st s i u a)
  | setSlice s i j us =>
    have h := setitem_slice_program_refines_step st s i j 1 a
    simp only [step, setSliceExt] at h
    exact pack_eq _ _ _ _ h
  | setSliceExt s i j k us => exact pack_eq _ _ _ _ (setitem_slice_program_refines_step st s i j k a)
  | delItem s i => exact pack_eq _ _ _ _ (delitem_index_program_refines_step st s i a)
  | delSlice s i j =>
    have h := delitem_slice_program_refines_step st s i j 1 a
    simp only [step, delSliceExt] at h
    exact pack_eq _ _ _ _ h
  | delSliceExt s i j k => exact pack_eq _ _ _ _ (delitem_slice_program_refines_step st s i j k a)
  | pop s i => exact pack_eq _ _ _ _ (pop_program_refines_step st s i a)
  | remove s u => exact pack_eq _ _ _ _ (remove_program_refines_step st s u a)
  | clear s => exact pack_eq _ _ _ _ (clear_program_refines_step st s a)
  | drop s i => exact pack_eq _ _ _ _ (seq_drop_program_refines_step st s i a)
  | flatten s =>
    simp only [runOpSrc, flatten_program_refines_step, Option.map, Op.withArg, Op.arg?, step]
    rfl
  | listCopy s => exact pack_eq _ _ _ _ (copy_program_refines_step st s a).1

/-- with an argument that has not been iterated yet this is `stepSrc`, i.e. (by `stepSrc_form_independent`) `step` on
the items of the argument, whatever its form -/
theorem op_program_refines_step_list (st : TState) (op : Op) (a : Src) (hs : a.spent = false) :
    (runOpSrc st op a).map Prod.fst = some (step st (op.withArg a.items)) := by
  rw [op_program_refines_step]
  simp [Src.iterate, hs]

/-- hence what the SOURCE does preserves the invariant: the theorems about `step` transfer to the programs -/
theorem inv_step_source (st : TState) (op : Op) (a : Src) (h : Inv st) (hs : a.spent = false)
    (hv : Valid st (op.withArg a.items)) :
    ∃ r, runOpSrc st op a = some r ∧ r.1 = step st (op.withArg a.items) ∧ Inv r.1.1 := by
  refine ⟨_, op_program_refines_step st op a, ?_, ?_⟩
  · simp [Src.iterate, hs]
  · have : a.iterate.1 = a.items := by simp [Src.iterate, hs]
    simp only [this]
    exact inv_step st _ h hv

/-- non-vacuity: `l[::-1] = (generator over [a, b, c])`, run from the source's `__setitem__` -/
example : ((runOpSrc navExampleBase (.setSliceExt 4 none none (-1) []) (Src.fresh [0, 1, 2] true)).map
    fun r => (r.1.1.children 4, r.1.2, r.2.spent)) = some ([2, 1, 0], .ok, true) := by
  rw [op_program_refines_step]
  simp [navExampleBase, Op.withArg, Op.arg?, Src.fresh, Src.iterate,
    run, step, construct, alloc, setParents, setChildren, setSliceExt, slicePositions, extBounds, extPos, itemsAt,
    replaceAt, List.idxOf_cons, init]

/-! ### pinned: what is compared with the expected statements only -/

/-- the class inventory the model assumes: `_SubUnitsList` derives from `list` only; it overrides exactly these methods
of the list API; the mutating methods it inherits unchanged are `*=`, `reverse`, `sort` (they touch no parent - not part
of the property's operations, see notes); `PassSequence` defines no further list-like method; every modelled method is
defined in the class (none fell back to the inherited `list` method) -/
theorem list_api_as_modelled :
    listBases = ["list"] ∧
    overriddenListApi = ["__delitem__", "__iadd__", "__init__", "__setitem__", "append", "clear", "copy", "extend",
      "insert", "pop", "remove"] ∧
    inheritedMutators = ["__imul__", "reverse", "sort"] ∧
    seqListApi = [] ∧
    [Gen.C13.init, Gen.C13.append, Gen.C13.extend, Gen.C13.iadd, Gen.C13.insert, Gen.C13.pop, Gen.C13.clear,
      Gen.C13.remove, Gen.C13.copy, Gen.C13.setitem, Gen.C13.delitem, Gen.C13.seq_prepend, Gen.C13.seq_append,
      Gen.C13.seq_drop].all (·.defined) = true := by
  decide

/-- the statements of the methods that are not run but compared: the parent slot is a weak reference or `None` and the
getter dereferences it; `subunits` hands out the list object itself; `len` / iteration are those of the unit list;
a deep copy of a unit list copies its owner through the memo (never keeps the original owner) and appends deep copies of
the items through the overridden `append`; `HookHost.__deepcopy__` registers the copy in the memo first, keeps dead weak
references, redirects weak references to the memo copy of their target, otherwise to a deep copy of the target (which
nothing else holds: the copy of a unit inside a sequence names no parent), and deep-copies everything else -/
theorem pinned_methods_as_modelled :
    parentGet = ["(self)", "if self._parent is None:", "    return None", "return self._parent()"] ∧
    parentSet = ["(self, value)", "if value is None:", "    self._parent = None", "else:",
      "    self._parent = weakref.ref(value)"] ∧
    subunitsGet = ["(self)", "return self._subunits"] ∧
    Gen.C13.len = ("_subunits", "__len__") ∧ Gen.C13.iter = ("_subunits", "__iter__") ∧
    listDeepcopy = ["(self, memo)", "v0 = self.__class__", "v1 = v0.__new__(v0)", "v2 = self._owner()",
      "if id(v2) in memo:", "    v1._owner = weakref.ref(memo[id(v2)])", "else:",
      "    v1._owner = weakref.ref(copy.deepcopy(v2, memo))", "for v3 in self:",
      "    v1.append(copy.deepcopy(v3, memo))", "return v1"] ∧
    hostDeepcopy = ["(self, memo)", "v0 = self.__class__", "v1 = v0.__new__(v0)", "memo[id(self)] = v1",
      "for v2, v3 in self.__dict__.items():", "    if isinstance(v3, weakref.ref):", "        v4 = v3()",
      "        if v4 is None:", "            v5 = v3", "        elif id(v4) in memo:",
      "            v5 = weakref.ref(memo[id(v4)])", "        else:", "            v6 = copy.deepcopy(v4, memo)",
      "            v5 = weakref.ref(v6)", "    else:", "        v5 = copy.deepcopy(v3, memo)",
      "    setattr(v1, v2, v5)", "return v1"] := by
  decide

end Source

end Tree
