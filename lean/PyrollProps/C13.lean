import PyrollProofs.TreeLemmas

/-!
# C13 — the unit tree stays consistent under every edit of a sequence

Model: `PyrollModel/Tree.lean` (tied to `pyroll/core/unit/unit.py`, `pyroll/core/sequence/sequence.py` by the
correspondence harness `driver/props/c13.py`).  Only property theorems live here; helper lemmas are in
`PyrollProofs/TreeLemmas.lean`.
-/

namespace Tree

/-- the sequence whose unit list an operation edits -/
def Op.target : Op → List Nat
  | .append s _ | .prepend s _ | .insert s _ _ | .extend s _ | .iadd s _ | .setItem s _ _
  | .setSlice s _ _ _ | .delItem s _ | .delSlice s _ _ | .pop s _ | .remove s _ | .clear s | .drop s _
  | .flatten s | .listCopy s => [s]
  | _ => []

/-- Side condition under which the invariant is preserved: the edited sequence exists, the inserted units exist,
are pairwise distinct and are **not listed anywhere at that moment**, and a flattened sequence does not contain
itself.  The excluded point (a unit adopted while still listed elsewhere) is real: see `C13_counterexample`. -/
def Valid (st : TState) (op : Op) : Prop :=
  (∀ s ∈ op.target, s < st.n) ∧
  (∀ u ∈ op.inserted, st.parent u = none ∧ u < st.n) ∧
  op.inserted.Nodup ∧
  (∀ s, op = .flatten s → st.parent s ≠ some s)

theorem inv_init : Inv init := by
  constructor <;> simp [init]

/-- every operation of the list/sequence API preserves the tree invariant -/
theorem inv_step (st : TState) (op : Op) (h : Inv st) (hv : Valid st op) : Inv (step st op).1 := by
  obtain ⟨ht, hi, hd, hf⟩ := hv
  cases op with
  | newUnit k l => exact alloc_inv st k l h
  | construct us l =>
    exact construct_inv st us l h (fun u hu => (hi u hu).1) hd (fun u hu => (hi u hu).2)
  | append s u =>
    have := hi u (by simp [Op.inserted])
    exact append_inv st s u h (ht s (by simp [Op.target])) this.1 this.2
  | prepend s u =>
    have := hi u (by simp [Op.inserted])
    exact insert_inv st s 0 u h (ht s (by simp [Op.target])) this.1 this.2
  | insert s i u =>
    have := hi u (by simp [Op.inserted])
    exact insert_inv st s i u h (ht s (by simp [Op.target])) this.1 this.2
  | extend s us =>
    exact extend_inv st s us h (ht s (by simp [Op.target])) (fun u hu => (hi u hu).1) hd (fun u hu => (hi u hu).2)
  | iadd s us =>
    exact extend_inv st s us h (ht s (by simp [Op.target])) (fun u hu => (hi u hu).1) hd (fun u hu => (hi u hu).2)
  | setItem s i u =>
    have := hi u (by simp [Op.inserted])
    exact setItem_inv st s i u h (ht s (by simp [Op.target])) this.1 this.2
  | setSlice s i j us =>
    exact setSlice_inv st s i j us h (ht s (by simp [Op.target])) (fun u hu => (hi u hu).1) hd
      (fun u hu => (hi u hu).2)
  | delItem s i => exact delItem_inv st s i h (ht s (by simp [Op.target]))
  | delSlice s i j => exact delSlice_inv st s i j h (ht s (by simp [Op.target]))
  | pop s i => exact pop_inv st s i h (ht s (by simp [Op.target]))
  | remove s u => exact remove_inv st s u h (ht s (by simp [Op.target]))
  | clear s => exact clear_inv st s h (ht s (by simp [Op.target]))
  | drop s i => exact delItem_inv st s i h (ht s (by simp [Op.target]))
  | flatten s => exact flatten_inv st s h (ht s (by simp [Op.target])) (hf s rfl)
  | listCopy s => exact listCopy_inv st s h
  | deepCopy u => exact (deepCopy_spec (st.n + 1) st u h).inv

/-- validity of a whole history, checked against the states the history itself produces -/
def ValidRun : TState → List Op → Prop
  | _, [] => True
  | st, op :: ops => Valid st op ∧ ValidRun (step st op).1 ops

/-- the invariant holds in every state reachable by a valid history, from any state satisfying it -/
theorem inv_run (ops : List Op) : ∀ st, Inv st → ValidRun st ops → Inv (run st ops) := by
  induction ops with
  | nil => intro st h _; exact h
  | cons op ops ih =>
    intro st h hv
    simp only [run, List.foldl_cons]
    exact ih _ (inv_step st op h hv.1) hv.2

theorem inv_reachable (ops : List Op) (hv : ValidRun init ops) : Inv (run init ops) :=
  inv_run ops init inv_init hv

/-- every listed unit names that sequence as its parent; every unit that is listed nowhere names none -/
theorem listed_names_parent (st : TState) (h : Inv st) (s u : Nat) (hu : u ∈ st.children s) :
    st.parent u = some s := (h.mem_iff s u).1 hu

theorem unlisted_names_none (st : TState) (h : Inv st) (u : Nat) (hu : ∀ s, u ∉ st.children s) :
    st.parent u = none := by
  cases hp : st.parent u with
  | none => rfl
  | some p => exact absurd ((h.mem_iff p u).2 hp) (hu p)

/-- a deep copy's root names no parent and the copy does not disturb the existing units -/
theorem deepCopy_root_unlisted (st : TState) (u : Nat) (h : Inv st) :
    (step st (.deepCopy u)).1.parent (st.n) = none ∧
    ∀ x, x < st.n → (step st (.deepCopy u)).1.parent x = st.parent x ∧
      (step st (.deepCopy u)).1.children x = st.children x := by
  have sp := deepCopy_spec (st.n + 1) st u h
  refine ⟨?_, fun x hx => ⟨sp.keepP x hx, sp.keepC x hx⟩⟩
  have := sp.rootP
  rw [sp.root] at this
  exact this

/-- previous/next navigation agrees with the list order -/
theorem nav_agrees (st : TState) (h : Inv st) (p u : Nat) (pre post : List Nat)
    (hl : st.children p = pre ++ u :: post) :
    prev st u = (match pre.getLast? with | some v => .unit v | none => .indexError) ∧
    next st u = (match post.head? with | some v => .unit v | none => .indexError) := by
  have hmem : u ∈ st.children p := by rw [hl]; simp
  have hpar := (h.mem_iff p u).1 hmem
  have hnd := h.nodup p
  rw [hl] at hnd
  have hnotin : u ∉ pre := by
    intro hm
    have := List.nodup_append.1 hnd
    exact this.2.2 u hm u (by simp) rfl
  have hidx : (pre ++ u :: post).idxOf u = pre.length := by
    rw [List.idxOf_append]; simp [hnotin]
  constructor
  · simp only [prev, hpar, hl, hidx]
    have : u ∈ pre ++ u :: post := by simp
    simp only [this, if_true]
    rcases List.eq_nil_or_concat pre with rfl | ⟨pre', v, rfl⟩
    · simp
    · simp [List.getLast?_eq_getElem?]
  · simp only [next, hpar, hl, hidx]
    have : u ∈ pre ++ u :: post := by simp
    simp only [this, if_true]
    cases post with
    | nil => simp
    | cons v post' => simp

/-- a unit without parent has no previous/next (ValueError), as documented -/
theorem nav_orphan (st : TState) (u : Nat) (hp : st.parent u = none) :
    prev st u = .valueError ∧ next st u = .valueError := by
  simp [prev, next, hp]

/-- access by index returns the listed unit at that (python-normalised) position -/
theorem byIndex_spec (st : TState) (s : Nat) (i : Int) (k : Nat) (hk : normIdx (st.children s).length i = some k) :
    byIndex st s i = (st.children s)[k]? := by
  simp [byIndex, hk]

theorem byIndex_nonneg (len : Nat) (i : Nat) (h : i < len) : normIdx len (i : Int) = some i := by
  simp [normIdx, h]

theorem byIndex_neg (len : Nat) (i : Nat) (h1 : 0 < i) (h2 : i ≤ len) :
    normIdx len (-(i : Int)) = some (len - i) := by
  simp only [normIdx]
  have : ¬ (0 : Int) ≤ -(i : Int) := by omega
  simp only [this, if_false]
  have : -(len : Int) ≤ -(i : Int) := by omega
  simp only [this, if_true]
  congr 1
  omega

/-- label lookup returns the FIRST listed unit carrying the label -/
theorem byLabel_first (st : TState) (s lab : Nat) (pre post : List Nat) (u : Nat)
    (hl : st.children s = pre ++ u :: post) (hu : st.label u = lab) (hpre : ∀ v ∈ pre, st.label v ≠ lab) :
    byLabel st s lab = some u := by
  simp only [byLabel, hl]
  rw [List.find?_append]
  have : pre.find? (fun u => decide (st.label u = lab)) = none := by
    simp only [List.find?_eq_none]
    intro v hv; simpa using hpre v hv
  simp [this, hu]

theorem byLabel_missing (st : TState) (s lab : Nat) (h : ∀ v ∈ st.children s, st.label v ≠ lab) :
    byLabel st s lab = none := by
  simp only [byLabel, List.find?_eq_none]
  intro v hv; simpa using h v hv

/-- the lists of roll passes / transports are the order-preserving sub-lists by type -/
theorem ofKind_sublist (st : TState) (s k : Nat) : (ofKind st s k).Sublist (st.children s) :=
  List.filter_sublist

theorem ofKind_mem (st : TState) (s k u : Nat) : u ∈ ofKind st s k ↔ u ∈ st.children s ∧ st.kind u = k := by
  simp [ofKind]

/-- slices are contiguous runs of the list -/
theorem bySlice_spec (st : TState) (s : Nat) (i j : Option Int) :
    ∃ pre post, st.children s = pre ++ bySlice st s i j ++ post := by
  have hle := sliceBounds_le (st.children s).length i j
  refine ⟨(st.children s).take (sliceBounds (st.children s).length i j).1,
          (st.children s).drop (sliceBounds (st.children s).length i j).2, ?_⟩
  have := split3 (st.children s) _ _ hle
  simpa [bySlice, List.append_assoc] using this

/-! ### The full-strength statement is false of model and code (finding F10) -/

/-- C13 at full strength: the invariant after EVERY history (units may be inserted while still listed). -/
def C13_full : Prop := ∀ ops : List Op, Inv (run init ops)

/-- A unit adopted by a second sequence while still listed in the first one leaves the first list stale.
The same history is replayed on the implementation by the harness (known finding
`adopt-unit-still-listed-elsewhere`). -/
theorem C13_counterexample : ¬ C13_full := by
  intro h
  have := (h [.newUnit 0 0, .construct [0] 0, .construct [0] 1]).mem_iff 1 0
  simp [run, step, construct, alloc, setParents, setChildren, init] at this

/-! ### Non-vacuity: a concrete non-trivial history satisfies the hypotheses -/

def exampleOps : List Op :=
  [.newUnit 1 0, .newUnit 2 1, .newUnit 0 2, .construct [0, 1] 0, .newUnit 1 3,
   .setItem 3 0 4, .append 3 2, .pop 3 (-1), .insert 3 1 2, .flatten 3]

example : ValidRun init exampleOps := by
  simp [exampleOps, ValidRun, Valid, step, Op.target, Op.inserted, construct, alloc, setParents, setChildren,
    setItem, append, pop, insert, normIdx, clampIdx, init]

example : (run init exampleOps).children 3 = [4, 2, 1] := by
  simp [exampleOps, run, step, construct, alloc, setParents, setChildren, setItem, append, pop, insert,
    flatten, flattenAux, normIdx, clampIdx, init]

end Tree
