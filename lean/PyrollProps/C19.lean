import PyrollModel.VeloGen
import PyrollProofs.VeloRun

/-!
# C19 — velocity calculations leave a constant volume flux through all roll passes

The theorems are about `VeloGen.backward` / `VeloGen.forward`: the hand-written loop model `PyrollModel/Velo.lean`
instantiated with the recurrence, the seed expression and the tolerance GENERATED from the current
`pyroll/core/sequence/sequence.py` (`PyrollModel/Gen/C19.lean`, rewritten by `driver/props/c19.py::translate` on every
run), evaluated over ℝ.  The control skeleton the translator recognised is pinned by `backward_shape_as_modelled` /
`forward_shape_as_modelled`; a change of index range, seeding index, statement order, stop test or `for/else` changes the
generated `Shape` and these two stop building.

What `Unit.solve` does to the cross-sections is the parameter `S : call number → velocities just written → out areas`;
the only assumption is `SolveOK n S`: one non-zero area per roll pass.  How far the FINAL areas are from the ones the
last velocities were computed from is therefore an explicit hypothesis (`flux_with_final_areas_*`), discharged for spread
models that do not look at the velocity (`velocity_independent_areas_exact_*`).

"Finished within its iteration budget" is `r.converged = true`.  The python code does not tell: on exhaustion the loop
falls through silently (`exhaustion_is_silent`), with the state described by `exhausted_*` — see `exhausted_example`.
-/

open Velo VeloGen Gen.C19 Expr

namespace C19

/-! ### what the translator read out of the source -/

theorem backward_shape_as_modelled : backward_shape =
    { fn := "solve_velocities_backward", params := ["in_profile", "final_speed", "final_cross_section_area"],
      seedAreasFrom := "usable_cross_section.area",
      anchorIndex := -1, areaOverride := some (-1, "final_cross_section_area"),
      sweepStart := ⟨1, -2⟩, sweepStop := ⟨0, -1⟩, sweepStep := -1, srcOffset := 1,
      prelude := ["areas", "zeros", "seed", "override", "sweep", "set", "solve"],
      budget := "max_iteration_count",
      body := ["prior", "copy", "areas", "sweep", "set", "solve", "diff", "test"],
      priorFrom := "velocity", loopAreasFrom := "out_profile.cross_section.area", setTo := "velocity",
      testAll := true, testStrict := true, onExhaustion := "silent" } := rfl

theorem forward_shape_as_modelled : forward_shape =
    { fn := "solve_velocities_forward", params := ["in_profile", "initial_speed"],
      seedAreasFrom := "usable_cross_section.area",
      anchorIndex := 0, areaOverride := none,
      sweepStart := ⟨0, 1⟩, sweepStop := ⟨1, 0⟩, sweepStep := 1, srcOffset := -1,
      prelude := ["areas", "zeros", "seed", "sweep", "set", "solve"],
      budget := "max_iteration_count",
      body := ["prior", "copy", "areas", "sweep", "set", "solve", "diff", "test"],
      priorFrom := "velocity", loopAreasFrom := "out_profile.cross_section.area", setTo := "velocity",
      testAll := true, testStrict := true, onExhaustion := "silent" } := rfl

/-- `PassSequence.roll_passes` - read anew by every statement of the two functions that needs the passes - is built from
    the live unit list on every access (a single `return list(u for u in self._subunits if isinstance(u, BaseRollPass))`):
    the calculation always works on the roll passes that are in the sequence NOW (`Velo.rollPasses`, `VeloGen.backwardSeq`). -/
theorem roll_passes_as_modelled :
    roll_passes_shape = { source := "_subunits", filterClass := "BaseRollPass", fresh := true } := rfl

/-- for every unit the calculation takes for a roll pass (`isinstance(u, BaseRollPass)`) the entry and the exit velocity are
    root hooks - evaluated and written in every solve iteration, whatever the incoming profile carried - registered on that
    very class (not on one kind of roll pass), and the two generated implementations `in_velocity` / `out_velocity` are the
    ones of these hooks. -/
theorem entry_exit_velocity_written_for_every_roll_pass :
    root_velocity_hooks = ["BaseRollPass.InProfile.velocity", "BaseRollPass.OutProfile.velocity"] ∧
    roll_passes_shape.filterClass = "BaseRollPass" ∧
    in_velocity.host = "BaseRollPass.InProfile" ∧ in_velocity.hook = "velocity" ∧
    out_velocity.host = "BaseRollPass.OutProfile" ∧ out_velocity.hook = "velocity" := ⟨rfl, rfl, rfl, rfl, rfl, rfl⟩

/-- when the budget is used up neither function raises, warns or returns anything: the caller cannot tell -/
theorem exhaustion_is_silent :
    backward_shape.onExhaustion = "silent" ∧ forward_shape.onExhaustion = "silent" := ⟨rfl, rfl⟩

/-- the loop tolerance is the absolute number 0.01 (in velocity units) in both directions -/
theorem tolerance_value : (backTol : ℝ) = 1 / 100 ∧ (fwdTol : ℝ) = 1 / 100 := by
  constructor <;> simp [backTol, fwdTol, back_tol_e, fwd_tol_e, eval] <;> norm_num

/-- seeds: backward the prescribed final speed itself; forward `initial_speed · A_in / usable₀` -/
theorem seed_values (speed aIn u0 : ℝ) :
    backSeed speed = speed ∧ fwdSeed speed aIn u0 = speed * aIn / u0 := by
  constructor <;> simp [backSeed, fwdSeed, back_seed_e, fwd_seed_e, eval, seedEnv]

theorem backStep_flux : FluxStep (backStep : ℝ → ℝ → ℝ → ℝ) := by
  intro v a a' ha
  simp only [backStep, back_rec_e, eval, recEnv]
  simp
  field_simp

theorem fwdStep_flux : FluxStep (fwdStep : ℝ → ℝ → ℝ → ℝ) := by
  intro v a a' ha
  simp only [fwdStep, fwd_rec_e, eval, recEnv]
  simp
  field_simp

/-! ### one sweep -/

/-- **recurrence_constant_flux** — after one sweep over areas `A` (none zero) any two passes carry the same flux
    `vᵢ·Aᵢ = vⱼ·Aⱼ`, in both directions; the backward sweep keeps the last velocity, the forward sweep the first. -/
theorem recurrence_constant_flux (A v : List ℝ) (hlen : v.length = A.length) (hA : ∀ a ∈ A, a ≠ 0)
    (i j : ℕ) (hi : i < A.length) (hj : j < A.length) :
    (sweepB backStep A v)[i]! * A[i]! = (sweepB backStep A v)[j]! * A[j]! ∧
    (sweepF fwdStep A v)[i]! * A[i]! = (sweepF fwdStep A v)[j]! * A[j]! ∧
    (sweepB backStep A v).getLast? = v.getLast? ∧ (sweepF fwdStep A v).head? = v.head? := by
  have hne : A ≠ [] := by intro h; rw [h] at hi; simp at hi
  have hvne : v ≠ [] := by intro h; rw [h] at hlen; exact hne (List.length_eq_zero_iff.mp hlen.symm)
  obtain ⟨x, hx⟩ : ∃ x, v.getLast? = some x := ⟨_, List.getLast?_eq_some_getLast hvne⟩
  obtain ⟨a, ha⟩ : ∃ a, A.getLast? = some a := ⟨_, List.getLast?_eq_some_getLast hne⟩
  obtain ⟨y, hy⟩ : ∃ y, v.head? = some y := by cases v with
    | nil => exact absurd rfl hvne
    | cons y _ => exact ⟨y, rfl⟩
  obtain ⟨b, hb⟩ : ∃ b, A.head? = some b := by cases A with
    | nil => exact absurd rfl hne
    | cons b _ => exact ⟨b, rfl⟩
  have hB := (sweepB_spec backStep_flux).flux A v x a hx ha hA
  have hF := (sweepF_spec fwdStep_flux).flux A v y b hy hb hA
  have key : ∀ {Φ : ℝ} {w : List ℝ}, ConstFlux Φ w A → ∀ k, k < A.length → w[k]! * A[k]! = Φ := by
    intro Φ w h k hk
    have hl := constFlux_length h
    have := (List.forall₂_iff_get.mp h).2 k (by omega) hk
    simpa [getElem!_pos, hk, show k < w.length by omega] using this
  refine ⟨by rw [key hB i hi, key hB j hj], by rw [key hF i hi, key hF j hj], ?_, ?_⟩
  · rw [hx]; exact (sweepB_spec backStep_flux).anchor A v x hne hx
  · rw [hy]; exact (sweepF_spec fwdStep_flux).anchor A v y hne hy

/-- non-vacuity: three passes, areas 4,2,1, last velocity 3 -/
example : sweepB backStep [4, 2, 1] [0, 0, (3 : ℝ)] = [3 / 4, 3 / 2, 3] := by
  simp [sweepB, sweepF, chain, backStep, back_rec_e, eval, recEnv]

example : sweepF fwdStep [4, 2, 1] [(1 : ℝ), 0, 0] = [1, 2, 4] := by
  simp [sweepF, chain, fwdStep, fwd_rec_e, eval, recEnv]
  norm_num

/-! ### whole runs -/

/-- the contract on the `solve` parameter: one non-zero out area per roll pass after every call -/
def SolveOK (n : ℕ) (S : ℕ → List ℝ → List ℝ) : Prop := ∀ k vs, AreasOK n (S k vs)

section runs

/-- unfolding of the backward entry point for a sequence with at least one pass -/
theorem backward_ok {n : ℕ} {S : ℕ → List ℝ → List ℝ} (hn : 0 < n) (_hS : SolveOK n S) (budget : ℕ)
    (fs fa : ℝ) (usable : List ℝ) (hu : AreasOK n usable) (hfa : fa ≠ 0) :
    ∃ r, VeloGen.backward S budget fs fa usable = .ok r ∧
      r = run (sweepB backStep) backTol S budget (zerosLast usable (backSeed fs)) (setLast usable fa) ∧
      (zerosLast usable (backSeed fs)).length = n ∧ AreasOK n (setLast usable fa) ∧
      (zerosLast usable (backSeed fs)).getLast? = some fs := by
  have hne : usable ≠ [] := hu.ne_nil hn
  cases usable with
  | nil => exact absurd rfl hne
  | cons u us =>
    refine ⟨_, rfl, rfl, ?_, ⟨?_, ?_⟩, ?_⟩
    · rw [zerosLast_length]; exact hu.1
    · rw [setLast_length]; exact hu.1
    · intro a ha
      rcases setLast_mem _ _ _ ha with h | h
      · rw [h]; exact hfa
      · exact hu.2 a h
    · rw [zerosLast_last _ _ hne, (seed_values fs 0 0).1]

theorem forward_ok {n : ℕ} {S : ℕ → List ℝ → List ℝ} (hn : 0 < n) (_hS : SolveOK n S) (budget : ℕ)
    (speed aIn : ℝ) (usable : List ℝ) (hu : AreasOK n usable) :
    ∃ r u us, usable = u :: us ∧ VeloGen.forward S budget speed aIn usable = .ok r ∧
      r = run (sweepF fwdStep) fwdTol S budget (speed * aIn / u :: us.map (fun _ => (PyNum.nat 0 : ℝ))) usable ∧
      (speed * aIn / u :: us.map (fun _ => (PyNum.nat 0 : ℝ))).length = n := by
  have hne : usable ≠ [] := hu.ne_nil hn
  cases usable with
  | nil => exact absurd rfl hne
  | cons u us =>
    refine ⟨_, u, us, rfl, ?_, rfl, ?_⟩
    · simp only [VeloGen.forward, Velo.forward, (seed_values speed aIn u).2]
    · have := hu.1; simpa using this

/-- **backward_last_is_final_speed** — index −1 is never rewritten: after the call (converged or not) the last pass
    has exactly the prescribed final speed, and so had every velocity vector written on the way. -/
theorem backward_last_is_final_speed {n : ℕ} {S : ℕ → List ℝ → List ℝ} (hn : 0 < n) (hS : SolveOK n S) (budget : ℕ)
    (fs fa : ℝ) (usable : List ℝ) (hu : AreasOK n usable) (hfa : fa ≠ 0) :
    ∃ r, VeloGen.backward S budget fs fa usable = .ok r ∧ r.st.cur.getLast? = some fs ∧
      ∀ p ∈ r.st.trace, p.1.getLast? = some fs := by
  obtain ⟨r, hr, rfl, hl, hseed, hx⟩ := backward_ok hn hS budget fs fa usable hu hfa
  have hinv := run_inv (tol := backTol) (sweepB_spec backStep_flux) hn hS budget _ _ hl hseed hx
  exact ⟨_, hr, hinv.cur_good.1, fun p hp => (hinv.good p hp).1⟩

/-- forward: index 0 is never rewritten; the first pass keeps the seed `initial_speed · A_in / usable₀` -/
theorem forward_first_is_seed {n : ℕ} {S : ℕ → List ℝ → List ℝ} (hn : 0 < n) (hS : SolveOK n S) (budget : ℕ)
    (speed aIn : ℝ) (usable : List ℝ) (hu : AreasOK n usable) :
    ∃ r u, usable.head? = some u ∧ VeloGen.forward S budget speed aIn usable = .ok r ∧
      r.st.cur.head? = some (speed * aIn / u) ∧ ∀ p ∈ r.st.trace, p.1.head? = some (speed * aIn / u) := by
  obtain ⟨r, u, us, rfl, hr, rfl, hl⟩ := forward_ok hn hS budget speed aIn usable hu
  have hinv := run_inv (tol := fwdTol) (sweepF_spec fwdStep_flux) hn hS budget _ _ hl hu rfl
  exact ⟨_, u, rfl, hr, hinv.cur_good.1, fun p hp => (hinv.good p hp).1⟩

/-- **written velocities carry one flux** — every velocity vector written to the roll passes (the seed and every
    iteration, converged or not) carries the flux `final_speed · A_last` through ALL passes, where `A` are the areas
    it was computed from (the seed: usable areas with the last replaced; iteration k: the out areas left by solve k−1). -/
theorem written_velocities_constant_flux_backward {n : ℕ} {S : ℕ → List ℝ → List ℝ} (hn : 0 < n) (hS : SolveOK n S) (budget : ℕ)
    (fs fa : ℝ) (usable : List ℝ) (hu : AreasOK n usable) (hfa : fa ≠ 0) :
    ∃ r, VeloGen.backward S budget fs fa usable = .ok r ∧ (r.st.cur, r.st.used) ∈ r.st.trace ∧
      ∀ p ∈ r.st.trace, ∃ a, p.2.getLast? = some a ∧ ConstFlux (fs * a) p.1 p.2 := by
  obtain ⟨r, hr, rfl, hl, hseed, hx⟩ := backward_ok hn hS budget fs fa usable hu hfa
  have hinv := run_inv (tol := backTol) (sweepB_spec backStep_flux) hn hS budget _ _ hl hseed hx
  exact ⟨_, hr, hinv.head, fun p hp => (hinv.good p hp).2⟩

theorem written_velocities_constant_flux_forward {n : ℕ} {S : ℕ → List ℝ → List ℝ} (hn : 0 < n) (hS : SolveOK n S) (budget : ℕ)
    (speed aIn : ℝ) (usable : List ℝ) (hu : AreasOK n usable) :
    ∃ r u, usable.head? = some u ∧ VeloGen.forward S budget speed aIn usable = .ok r ∧ (r.st.cur, r.st.used) ∈ r.st.trace ∧
      ∀ p ∈ r.st.trace, ∃ a, p.2.head? = some a ∧ ConstFlux (speed * aIn / u * a) p.1 p.2 := by
  obtain ⟨r, u, us, rfl, hr, rfl, hl⟩ := forward_ok hn hS budget speed aIn usable hu
  have hinv := run_inv (tol := fwdTol) (sweepF_spec fwdStep_flux) hn hS budget _ _ hl hu rfl
  exact ⟨_, u, rfl, hr, hinv.head, fun p hp => (hinv.good p hp).2⟩

/-- **terminated_within_tolerance** — if the loop was left by `break` (= finished within its budget), at least one and
    at most `budget` iterations ran and in the last one every pass velocity moved by less than 0.01. -/
theorem terminated_within_tolerance_backward {n : ℕ} {S : ℕ → List ℝ → List ℝ} (hn : 0 < n) (hS : SolveOK n S) (budget : ℕ)
    (fs fa : ℝ) (usable : List ℝ) (hu : AreasOK n usable) (hfa : fa ≠ 0) :
    ∃ r, VeloGen.backward S budget fs fa usable = .ok r ∧ (r.converged = true →
      List.Forall₂ (fun p c => |p - c| < 1 / 100) r.st.prev r.st.cur ∧ 1 ≤ r.st.k ∧ r.st.k ≤ budget) := by
  obtain ⟨r, hr, rfl, hl, hseed, hx⟩ := backward_ok hn hS budget fs fa usable hu hfa
  refine ⟨_, hr, fun hc => ?_⟩
  have := run_converged (sweepB_spec backStep_flux) hn hS budget _ _ hl hseed hx hc
  exact ⟨this.1.imp (fun p c h => by rw [tolerance_value.1] at h; exact h), this.2, run_k_le budget _ _⟩

theorem terminated_within_tolerance_forward {n : ℕ} {S : ℕ → List ℝ → List ℝ} (hn : 0 < n) (hS : SolveOK n S) (budget : ℕ)
    (speed aIn : ℝ) (usable : List ℝ) (hu : AreasOK n usable) :
    ∃ r, VeloGen.forward S budget speed aIn usable = .ok r ∧ (r.converged = true →
      List.Forall₂ (fun p c => |p - c| < 1 / 100) r.st.prev r.st.cur ∧ 1 ≤ r.st.k ∧ r.st.k ≤ budget) := by
  obtain ⟨r, u, us, rfl, hr, rfl, hl⟩ := forward_ok hn hS budget speed aIn usable hu
  refine ⟨_, hr, fun hc => ?_⟩
  have := run_converged (sweepF_spec fwdStep_flux) hn hS budget _ _ hl hu rfl hc
  exact ⟨this.1.imp (fun p c h => by rw [tolerance_value.2] at h; exact h), this.2, run_k_le budget _ _⟩

/-- budget exhausted: exactly `budget` iterations (= `budget + 1` solve calls) ran, the state is the one the last
    iteration left, and in that iteration some velocity still moved by at least 0.01.  Nothing else distinguishes this
    outcome (`exhaustion_is_silent`). -/
theorem exhausted_backward {n : ℕ} {S : ℕ → List ℝ → List ℝ} (hn : 0 < n) (hS : SolveOK n S) (budget : ℕ)
    (fs fa : ℝ) (usable : List ℝ) (hu : AreasOK n usable) (hfa : fa ≠ 0) :
    ∃ r, VeloGen.backward S budget fs fa usable = .ok r ∧ (r.converged = false →
      r.st.k = budget ∧ (0 < budget → ¬ List.Forall₂ (fun p c => |p - c| < 1 / 100) r.st.prev r.st.cur)) := by
  obtain ⟨r, hr, rfl, hl, hseed, hx⟩ := backward_ok hn hS budget fs fa usable hu hfa
  refine ⟨_, hr, fun hc => ?_⟩
  have := run_exhausted (sweepB_spec backStep_flux) hn hS budget _ _ hl hseed hx hc
  exact ⟨this.1, fun hb hall => this.2 hb (hall.imp (fun p c h => by rw [tolerance_value.1]; exact h))⟩

theorem exhausted_forward {n : ℕ} {S : ℕ → List ℝ → List ℝ} (hn : 0 < n) (hS : SolveOK n S) (budget : ℕ)
    (speed aIn : ℝ) (usable : List ℝ) (hu : AreasOK n usable) :
    ∃ r, VeloGen.forward S budget speed aIn usable = .ok r ∧ (r.converged = false →
      r.st.k = budget ∧ (0 < budget → ¬ List.Forall₂ (fun p c => |p - c| < 1 / 100) r.st.prev r.st.cur)) := by
  obtain ⟨r, u, us, rfl, hr, rfl, hl⟩ := forward_ok hn hS budget speed aIn usable hu
  refine ⟨_, hr, fun hc => ?_⟩
  have := run_exhausted (sweepF_spec fwdStep_flux) hn hS budget _ _ hl hu rfl hc
  exact ⟨this.1, fun hb hall => this.2 hb (hall.imp (fun p c h => by rw [tolerance_value.2]; exact h))⟩

/-- **flux_with_final_areas** — the final `solve` ran AFTER the last velocities were written.  If it left every out area
    within the relative distance `ε` of the area those velocities were computed from (explicit hypothesis: a spread model
    may look at the velocity), the flux through the FINAL areas is within `ε·|Φ|` of `Φ = final_speed · A_last` in every pass. -/
theorem flux_with_final_areas_backward {n : ℕ} {S : ℕ → List ℝ → List ℝ} (hn : 0 < n) (hS : SolveOK n S) (budget : ℕ)
    (fs fa : ℝ) (usable : List ℝ) (hu : AreasOK n usable) (hfa : fa ≠ 0) (ε : ℝ) :
    ∃ r, VeloGen.backward S budget fs fa usable = .ok r ∧
      (List.Forall₂ (fun af au => |af - au| ≤ ε * |au|) r.st.areas r.st.used →
        ∃ a, r.st.used.getLast? = some a ∧
          List.Forall₂ (fun x af => |x * af - fs * a| ≤ ε * |fs * a|) r.st.cur r.st.areas) := by
  obtain ⟨r, hr, rfl, hl, hseed, hx⟩ := backward_ok hn hS budget fs fa usable hu hfa
  have hinv := run_inv (tol := backTol) (sweepB_spec backStep_flux) hn hS budget _ _ hl hseed hx
  refine ⟨_, hr, fun hclose => ?_⟩
  obtain ⟨a, ha, hflux⟩ := hinv.cur_good.2
  exact ⟨a, ha, flux_perturbed _ _ _ hflux hclose⟩

theorem flux_with_final_areas_forward {n : ℕ} {S : ℕ → List ℝ → List ℝ} (hn : 0 < n) (hS : SolveOK n S) (budget : ℕ)
    (speed aIn : ℝ) (usable : List ℝ) (hu : AreasOK n usable) (ε : ℝ) :
    ∃ r u, usable.head? = some u ∧ VeloGen.forward S budget speed aIn usable = .ok r ∧
      (List.Forall₂ (fun af au => |af - au| ≤ ε * |au|) r.st.areas r.st.used →
        ∃ a, r.st.used.head? = some a ∧
          List.Forall₂ (fun x af => |x * af - speed * aIn / u * a| ≤ ε * |speed * aIn / u * a|) r.st.cur r.st.areas) := by
  obtain ⟨r, u, us, rfl, hr, rfl, hl⟩ := forward_ok hn hS budget speed aIn usable hu
  have hinv := run_inv (tol := fwdTol) (sweepF_spec fwdStep_flux) hn hS budget _ _ hl hu rfl
  refine ⟨_, u, rfl, hr, fun hclose => ?_⟩
  obtain ⟨a, ha, hflux⟩ := hinv.cur_good.2
  exact ⟨a, ha, flux_perturbed _ _ _ hflux hclose⟩

/-! ### the sequence as a (mutable) list of units -/

/-- units added behind / in front: the roll passes of the joined list are the roll passes of the parts, in order -/
theorem rollPasses_append (us vs : List (SeqUnit ℝ)) : rollPasses (us ++ vs) = rollPasses us ++ rollPasses vs := by
  induction us with
  | nil => rfl
  | cons u us ih => cases u <;> simp [rollPasses, ih]

/-- **calculation_covers_current_line** — whatever the unit list of the sequence object was before: the calculation on the
    list `units` as it is at the time of the call writes one velocity for EVERY roll pass of that list, the last roll pass
    of that list gets exactly the final speed, and all of them carry its flux (w.r.t. the areas used). -/
theorem calculation_covers_current_line_backward {S : ℕ → List ℝ → List ℝ} (units : List (SeqUnit ℝ))
    (hn : 0 < (rollPasses units).length) (hS : SolveOK (rollPasses units).length S) (budget : ℕ) (fs fa : ℝ)
    (hu : ∀ a ∈ rollPasses units, a ≠ 0) (hfa : fa ≠ 0) :
    ∃ r, VeloGen.backwardSeq S budget fs fa units = .ok r ∧ r.st.cur.length = (rollPasses units).length ∧
      r.st.cur.getLast? = some fs ∧ ∃ a, r.st.used.getLast? = some a ∧ ConstFlux (fs * a) r.st.cur r.st.used := by
  obtain ⟨r, hr, rfl, hl, hseed, hx⟩ := backward_ok hn hS budget fs fa _ ⟨rfl, hu⟩ hfa
  have hinv := run_inv (tol := backTol) (sweepB_spec backStep_flux) hn hS budget _ _ hl hseed hx
  exact ⟨_, hr, hinv.cur_len, hinv.cur_good.1, hinv.cur_good.2⟩

theorem calculation_covers_current_line_forward {S : ℕ → List ℝ → List ℝ} (units : List (SeqUnit ℝ))
    (hn : 0 < (rollPasses units).length) (hS : SolveOK (rollPasses units).length S) (budget : ℕ) (speed aIn : ℝ)
    (hu : ∀ a ∈ rollPasses units, a ≠ 0) :
    ∃ r u, (rollPasses units).head? = some u ∧ VeloGen.forwardSeq S budget speed aIn units = .ok r ∧
      r.st.cur.length = (rollPasses units).length ∧ r.st.cur.head? = some (speed * aIn / u) ∧
      ∃ a, r.st.used.head? = some a ∧ ConstFlux (speed * aIn / u * a) r.st.cur r.st.used := by
  have key : ∀ U : List ℝ, 0 < U.length → SolveOK U.length S → (∀ a ∈ U, a ≠ 0) →
      ∃ r u, U.head? = some u ∧ VeloGen.forward S budget speed aIn U = .ok r ∧ r.st.cur.length = U.length ∧
        r.st.cur.head? = some (speed * aIn / u) ∧
        ∃ a, r.st.used.head? = some a ∧ ConstFlux (speed * aIn / u * a) r.st.cur r.st.used := by
    intro U hn hS hu
    obtain ⟨r, u, us, rfl, hr, rfl, hl⟩ := forward_ok hn hS budget speed aIn U ⟨rfl, hu⟩
    have hinv := run_inv (tol := fwdTol) (sweepF_spec fwdStep_flux) hn hS budget _ _ hl ⟨rfl, hu⟩ rfl
    exact ⟨_, u, rfl, hr, hinv.cur_len, hinv.cur_good.1, hinv.cur_good.2⟩
  exact key _ hn hS hu

end runs

/-- non-vacuity: a line of one stand and a transport to which a finishing stand was added (`[pass 4, other] ++ [pass 2]`):
    two velocities are written and the ADDED stand runs at the final speed -/
example : ∃ r, VeloGen.backwardSeq (fun _ _ => [(3 : ℝ), 2]) 100 (3 / 2) 2 ([.pass 4, .other] ++ [.pass 2]) = .ok r ∧
    r.st.cur.length = 2 ∧ r.st.cur.getLast? = some (3 / 2) := by
  have hA : AreasOK 2 [(3 : ℝ), 2] := ⟨rfl, by intro a ha; simp at ha; rcases ha with rfl | rfl <;> norm_num⟩
  obtain ⟨r, h1, h2, h3, _⟩ := calculation_covers_current_line_backward (S := fun _ _ => [(3 : ℝ), 2])
    ([.pass 4, .other] ++ [.pass 2]) (by simp [rollPasses]) (by intro k vs; simpa [rollPasses] using hA) 100 (3 / 2) 2
    (by intro a ha; simp [rollPasses] at ha; rcases ha with rfl | rfl <;> norm_num) (by norm_num)
  exact ⟨r, h1, by simpa [rollPasses] using h2, h3⟩

/-- **velocity_independent_areas_exact** — a spread model that does not look at the velocity (`solve` always leaves the
    areas `A`): with a budget of at least 2 the loop is left by `break` after at most two iterations and the flux through
    the final areas is EXACTLY the same in every pass (`final_speed · A_last` backward). -/
theorem velocity_independent_areas_exact_backward {n : ℕ} (hn : 0 < n) (A : List ℝ) (hA : AreasOK n A) (budget : ℕ)
    (hb : 2 ≤ budget) (fs fa : ℝ) (usable : List ℝ) (hu : AreasOK n usable) (hfa : fa ≠ 0) :
    ∃ r, VeloGen.backward (fun _ _ => A) budget fs fa usable = .ok r ∧ r.converged = true ∧ r.st.k ≤ 2 ∧ r.st.areas = A ∧
      ∃ a, A.getLast? = some a ∧ ConstFlux (fs * a) r.st.cur r.st.areas := by
  obtain ⟨r, hr, rfl, hl, hseed, hx⟩ := backward_ok hn (fun _ _ => hA) budget fs fa usable hu hfa
  have htol : (0 : ℝ) < backTol := by rw [tolerance_value.1]; norm_num
  have := run_fixed_areas (tol := backTol) (sweepB_spec backStep_flux) hn A hA htol budget hb _ _ hl hseed hx _ rfl
  exact ⟨_, hr, this⟩

theorem velocity_independent_areas_exact_forward {n : ℕ} (hn : 0 < n) (A : List ℝ) (hA : AreasOK n A) (budget : ℕ)
    (hb : 2 ≤ budget) (speed aIn : ℝ) (usable : List ℝ) (hu : AreasOK n usable) :
    ∃ r u, usable.head? = some u ∧ VeloGen.forward (fun _ _ => A) budget speed aIn usable = .ok r ∧ r.converged = true ∧
      r.st.k ≤ 2 ∧ r.st.areas = A ∧ ∃ a, A.head? = some a ∧ ConstFlux (speed * aIn / u * a) r.st.cur r.st.areas := by
  obtain ⟨r, u, us, rfl, hr, rfl, hl⟩ := forward_ok hn (fun _ _ => hA) budget speed aIn usable hu
  have htol : (0 : ℝ) < fwdTol := by rw [tolerance_value.2]; norm_num
  have := run_fixed_areas (tol := fwdTol) (sweepF_spec fwdStep_flux) hn A hA htol budget hb _ _ hl hu rfl _ rfl
  exact ⟨_, u, rfl, hr, this⟩

/-- a sequence without roll passes: both functions raise IndexError (outside the property's quantifier) -/
theorem no_passes_index_error (S : ℕ → List ℝ → List ℝ) (budget : ℕ) (x y : ℝ) :
    VeloGen.backward S budget x y [] = .error .indexError ∧ VeloGen.forward S budget x y [] = .error .indexError := ⟨rfl, rfl⟩

/-! ### non-vacuity of the run theorems: two passes, usable areas 4 and 2, spread model leaves 3 and 2 -/

theorem areasOK_example : AreasOK 2 [(3 : ℝ), 2] ∧ AreasOK 2 [(4 : ℝ), 2] := by
  constructor <;> exact ⟨rfl, by intro a ha; simp at ha; rcases ha with rfl | rfl <;> norm_num⟩

example : ∃ r, VeloGen.backward (fun _ _ => [(3 : ℝ), 2]) 100 (3 / 2) 2 [4, 2] = .ok r ∧ r.converged = true ∧ r.st.k ≤ 2 ∧
    ConstFlux (3 / 2 * 2) r.st.cur r.st.areas := by
  obtain ⟨r, h1, h2, h3, _, a, ha, h5⟩ := velocity_independent_areas_exact_backward (n := 2) (by norm_num) _
    areasOK_example.1 100 (by norm_num) (3 / 2) 2 [4, 2] areasOK_example.2 (by norm_num)
  simp at ha; subst ha
  exact ⟨r, h1, h2, h3, h5⟩

example : ∃ r, VeloGen.forward (fun _ _ => [(3 : ℝ), 2]) 100 1 5 [4, 2] = .ok r ∧ r.converged = true ∧
    ConstFlux (1 * 5 / 4 * 3) r.st.cur r.st.areas := by
  obtain ⟨r, u, hu, h1, h2, _, _, a, ha, h5⟩ := velocity_independent_areas_exact_forward (n := 2) (by norm_num) _
    areasOK_example.1 100 (by norm_num) 1 5 [4, 2] areasOK_example.2
  simp at ha hu; subst ha; subst hu
  exact ⟨r, h1, h2, h5⟩

/-- a `solve` whose areas keep jumping between two states (a spread model reacting strongly to the velocity) -/
def jumpy : ℕ → List ℝ → List ℝ := fun k _ => if k % 2 = 0 then [1, 1] else [2, 1]

/-- **exhausted_example** — budget 2 used up: the function returns normally, the last pass still has the final speed,
    but the passes carry the fluxes 1/2 and 1 through the final areas: nothing of the property survives exhaustion
    except the anchor. -/
theorem exhausted_example : ∃ r, VeloGen.backward jumpy 2 1 1 [2, 1] = .ok r ∧ r.converged = false ∧ r.st.k = 2 ∧
    r.st.cur = [1 / 2, 1] ∧ r.st.areas = [1, 1] := by
  refine ⟨_, rfl, ?_, ?_, ?_, ?_⟩ <;>
  · simp [run, loop, next, within, sweepB, sweepF, chain, zerosLast, setLast, jumpy, backStep, backSeed, backTol,
      back_rec_e, back_seed_e, back_tol_e, eval, recEnv, seedEnv, PyNum.lt, PyNum.abs]
    try norm_num

example : SolveOK 2 jumpy := by
  intro k vs
  unfold jumpy
  split <;> exact ⟨rfl, by intro a ha; simp at ha; rcases ha with rfl | rfl <;> norm_num⟩

/-! ### entry and exit velocity of a pass (generated hook implementations) -/

variable (ρ : String → ℝ)

/-- **in_out_carry_flux** — `BaseRollPass.InProfile.velocity` times the in cross-section equals the out velocity times the
    out cross-section the implementation read, and `BaseRollPass.OutProfile.velocity` is the pass velocity: with the pass
    velocity `v` both profiles carry `v · A_out`. -/
theorem in_out_carry_flux (hA : ρ "cross_section.area" ≠ 0) :
    eval ρ in_velocity_e0 * ρ "cross_section.area"
      = ρ "roll_pass.out_profile.velocity" * ρ "unit.out_profile.cross_section.area" ∧
    eval ρ out_velocity_e0 = ρ "roll_pass.velocity" := by
  constructor
  · simp only [in_velocity_e0, eval]; field_simp
  · simp [out_velocity_e0, eval]

/-- the two implementations are unconditional (no guard, no `cycle` parameter), so they are what the root-hook
    evaluation of every solve iteration uses -/
theorem in_out_unguarded :
    in_velocity.alts.map Prod.fst = [Guard.tt] ∧ out_velocity.alts.map Prod.fst = [Guard.tt] ∧
    in_velocity.wantsCycle = false ∧ out_velocity.wantsCycle = false := ⟨rfl, rfl, rfl, rfl⟩

/-- an explicitly set pass velocity drives the roll: `working_velocity · cos(angle) = velocity` with the neutral angle
    when the roll has one and the exit angle otherwise; and with a neutral angle the pass-velocity implementation gives
    the explicit value back. -/
theorem explicit_velocity_drives_roll
    (h0 : Real.cos (ρ "neutral_angle") ≠ 0) (h1 : Real.cos (ρ "exit_angle") ≠ 0) :
    eval ρ working_velocity_e0 * Real.cos (ρ "neutral_angle") = ρ "roll_pass.velocity" ∧
    eval ρ working_velocity_e1 * Real.cos (ρ "exit_angle") = ρ "roll_pass.velocity" ∧
    (working_velocity.alts.map Prod.fst).head? = some (.and (.hasSet "roll_pass" "velocity") (.hasValue "" "neutral_angle")) := by
  refine ⟨?_, ?_, rfl⟩
  · simp only [working_velocity_e0, eval, PyNum.cos_real]; field_simp
  · simp only [working_velocity_e1, eval, PyNum.cos_real]; field_simp

example : ∃ ρ : String → ℝ, ρ "cross_section.area" ≠ 0 ∧ Real.cos (ρ "neutral_angle") ≠ 0 ∧
    Real.cos (ρ "exit_angle") ≠ 0 ∧ ρ "roll_pass.velocity" ≠ 0 :=
  ⟨fun n => if n = "neutral_angle" ∨ n = "exit_angle" then 0 else 2, by simp, by simp, by simp, by simp⟩

/-! ### the rolls realise the calculated pass velocities; what a pass reports as its flux

`ρ` is the environment of the roll, `σ` the one of the roll pass (resp. of the unit), `τ`, `π` the ones the exit angle /
exit point implementations are evaluated in; the hypotheses `σ "…" = eval ρ …` say that one implementation's result is
the other one's input - the way the hook system chains them. -/

/-- **rolls_realise_explicit_velocity** — the round trip  explicit pass velocity → `Roll.working_velocity` →
    `SymmetricRollPass.velocity`  gives the explicit velocity back: both implementations branch on the SAME question
    (`has_value("neutral_angle")` of the roll - true also when only `neutral_point` is given, see
    `neutral_point_gives_neutral_angle`), with a neutral angle `v / cos θ · cos θ = v`, without one the generated
    exit angle `arcsin(exit_point / working_radius)` with the generated `exit_point = 0` has cosine 1.
    So a mill set to the roll speeds the velocity calculation results in runs every pass at its calculated velocity. -/
theorem rolls_realise_explicit_velocity (ρ σ τ π : String → ℝ) :
    pass_velocity.alts.map Prod.fst = [.hasValue "roll" "neutral_angle", .not (.hasValue "roll" "neutral_angle")] ∧
    working_velocity.alts.map Prod.fst =
      [.and (.hasSet "roll_pass" "velocity") (.hasValue "" "neutral_angle"),
       .and (.hasSet "roll_pass" "velocity") (.not (.hasValue "" "neutral_angle")),
       .not (.hasSet "roll_pass" "velocity")] ∧
    (Real.cos (ρ "neutral_angle") ≠ 0 → σ "roll.working_velocity" = eval ρ working_velocity_e0 →
      σ "roll.neutral_angle" = ρ "neutral_angle" → eval σ pass_velocity_e0 = ρ "roll_pass.velocity") ∧
    (σ "roll.working_velocity" = eval ρ working_velocity_e1 → ρ "exit_angle" = eval τ exit_angle_e0 →
      τ "roll_pass.exit_point" = eval π exit_point_e0 → eval σ pass_velocity_e1 = ρ "roll_pass.velocity") := by
  refine ⟨rfl, rfl, fun h0 hw hn => ?_, fun hw he hp => ?_⟩
  · simp only [pass_velocity_e0, working_velocity_e0, eval, PyNum.cos_real] at hw ⊢
    rw [hw, hn]
    field_simp
  · simp only [pass_velocity_e1, working_velocity_e1, exit_angle_e0, exit_point_e0, eval, PyNum.cos_real,
      PyNum.asin_real, PyNum.nat_real] at hw he hp ⊢
    rw [hw, he, hp]
    simp

example : ∃ ρ σ : String → ℝ, Real.cos (ρ "neutral_angle") ≠ 0 ∧ σ "roll.working_velocity" = eval ρ working_velocity_e0 ∧
    σ "roll.neutral_angle" = ρ "neutral_angle" ∧ ρ "roll_pass.velocity" = 2 :=
  ⟨fun n => if n = "neutral_angle" then 0 else 2, fun n => if n = "roll.neutral_angle" then 0 else 2,
    by simp, by simp [working_velocity_e0, eval], by simp, by simp⟩

/-- a roll whose neutral plane is given as `neutral_point` HAS a neutral angle (the implementation's guard is
    `has_value("neutral_point")`), and it is the angle of that point: `sin θ · working_radius = neutral_point` -/
theorem neutral_point_gives_neutral_angle (ρ : String → ℝ) (hr : ρ "working_radius" ≠ 0)
    (h1 : -1 ≤ ρ "neutral_point" / ρ "working_radius") (h2 : ρ "neutral_point" / ρ "working_radius" ≤ 1) :
    neutral_angle.alts.map Prod.fst = [.hasValue "" "neutral_point", .not (.hasValue "" "neutral_point")] ∧
    Real.sin (eval ρ neutral_angle_e0) * ρ "working_radius" = ρ "neutral_point" := by
  refine ⟨rfl, ?_⟩
  simp only [neutral_angle_e0, eval, PyNum.asin_real]
  rw [Real.sin_arcsin h1 h2]
  field_simp

example : ∃ ρ : String → ℝ, ρ "working_radius" ≠ 0 ∧ -1 ≤ ρ "neutral_point" / ρ "working_radius" ∧
    ρ "neutral_point" / ρ "working_radius" ≤ 1 ∧ ρ "neutral_point" ≠ 0 :=
  ⟨fun n => if n = "working_radius" then 4 else -1, by simp, by simp; norm_num, by simp; norm_num, by simp⟩

/-- **units_report_and_pass_on_flux** — `Unit.volume_flux` of a roll pass (its out profile has a velocity: the generated
    `out_velocity`) is `A_out · pass velocity`, i.e. the flux the velocity calculation equalises; without an out velocity
    it is `A_out · unit velocity`.  Units that are no roll passes hand the flux on: `Unit.OutProfile.velocity · A_out =
    v_in · A_in`, and their velocity is the in profile's. -/
theorem units_report_and_pass_on_flux (ρ σ : String → ℝ) :
    volume_flux.alts.map Prod.fst = [.hasValue "out_profile" "velocity", .not (.hasValue "out_profile" "velocity")] ∧
    (σ "out_profile.velocity" = eval ρ out_velocity_e0 →
      eval σ volume_flux_e0 = σ "out_profile.cross_section.area" * ρ "roll_pass.velocity") ∧
    eval σ volume_flux_e1 = σ "out_profile.cross_section.area" * σ "velocity" ∧
    (ρ "cross_section.area" ≠ 0 → eval ρ unit_out_velocity_e0 * ρ "cross_section.area"
      = ρ "unit.in_profile.velocity" * ρ "unit.in_profile.cross_section.area") ∧
    eval ρ unit_velocity_e0 = ρ "in_profile.velocity" := by
  refine ⟨rfl, fun h => ?_, ?_, fun hA => ?_, ?_⟩
  · simp only [volume_flux_e0, out_velocity_e0, eval] at h ⊢; rw [h]
  · simp only [volume_flux_e1, eval]
  · simp only [unit_out_velocity_e0, eval]; field_simp
  · simp only [unit_velocity_e0, eval]

example : ∃ ρ σ : String → ℝ, σ "out_profile.velocity" = eval ρ out_velocity_e0 ∧ ρ "cross_section.area" ≠ 0 ∧
    σ "out_profile.cross_section.area" * ρ "roll_pass.velocity" ≠ 0 :=
  ⟨fun _ => 2, fun _ => 2, by simp [out_velocity_e0, eval], by simp, by simp⟩

end C19
