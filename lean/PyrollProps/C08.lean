import PyrollModel.Gen.C08
import PyrollModel.Gen.C08Geom
import PyrollModel.Gen.C08Cache
import PyrollProofs.OutCSHalf
import PyrollProofs.OutCSMono

/-!
# C08 — a pass's outgoing profile is confined by the rolls and has the prescribed width

Every theorem is about terms GENERATED from the current `/repo` source on every run
(`driver/translate/c08_outcs.py` → `Gen/C08Geom.lean`, `Gen/C08.lean`):
* `two_lines`, `three_lines` — the contour lines of the passes, `out_cross_section`, `out_cross_section3` — the helpers,
  `cross_section`, `cross_section3` — the hook implementations with their checks, `two_cross_section`,
  `three_cross_section`, `two_usable_cs`, … — what answers on which pass class, `init_solve_seed`,
  `from_groove_wg/fg/wh/fh` — `Profile.from_groove` for every way of giving the dimensions,
* `out_width_default`, `two_usable_width`, … — the closed formulas,
* `two_memo`, `three_memo`, `two_reevaluate`, `three_reevaluate`, `two_roll_memo`, `two_roll_reevaluate`, …, `two_pass`,
  `three_pass`, `roll_contour_points`, `solve_loop`, `init_solve_ops` (`Gen/C08Cache.lean`) — the memo of `contour_lines`,
  the bodies of `reevaluate_cache` along the MRO of the pass classes, the memo `Roll.contour_line` and the bodies of
  `reevaluate_cache` along the MRO of the pass's roll class, what the roll's `contour_points` hands out, the body of the
  solution loop of `Unit.solve` and `BaseRollPass.init_solve`, statement by statement (part E, model
  `PyrollModel/OutCSCache.lean`).

Part A holds for EVERY interpretation `S : Sig α G` of the shapely signature (`translate`, `rotate`, `reverse`, `concat`,
`Polygon`, `clip_by_rect`, `refine`, measurements, `is_valid`).  Parts C and D are about one interpretation, vertex lists
over ℝ (`PyrollModel/OutCS.lean`, tied to GEOS by the correspondence run); the contour is an ARBITRARY vertex list `c`.
-/

open Gen.C08 OutCS PassGeom

namespace C08

/-! ## A. the two code paths build the same term — for every interpretation of the library -/

/-- The geometry returned by the pass side (`OutProfile.cross_section` on a two-roll pass: helper `out_cross_section`
    applied to `TwoRollPass.contour_lines`) and the geometry returned by `Profile.from_groove(groove, width, gap)` are the
    SAME TERM once the roll's contour is identified with the groove's. -/
theorem two_code_paths_agree_terms :
    two_cross_section.result.mapSrc toGroove = from_groove_wg.result := by
  rfl

/-- **same shape as the profile-from-groove constructor**, for every model of the shapely signature in which the roll's
    contour line is the groove's contour line: whatever `translate`, `rotate`, `Polygon`, `clip_by_rect`,
    `segmentize` … do, both code paths hand the same arguments to them in the same order. -/
theorem two_code_paths_agree {α G : Type} [PyNum α] (S : Sig α G) (ρ : String → α)
    (h : S.src .rollContour = S.src .grooveContour) :
    two_cross_section.result.eval S ρ = from_groove_wg.result.eval S ρ := by
  rw [← two_code_paths_agree_terms, eval_toGroove S ρ h]

/-- both sides test the validity of the clipped polygon: the constructor before, the pass after `refine_cross_section`
    (which returns its argument or its `segmentize`) -/
theorem validity_checks_agree :
    ∃ g, (from_groove_wg.checks.map fun c => c.cond).getLast? = some (.invalid g) ∧ from_groove_wg.result = .refine g ∧
      (two_cross_section.checks.map fun c => c.cond.mapSrc toGroove).getLast? = some (.invalid (.refine g)) := by
  refine ⟨_, by decide, rfl, by decide⟩

example : (two_cross_section.checks.map fun c => c.exc) = ["ValueError", "ValueError"] := rfl
example : (from_groove_wg.checks.map fun c => c.exc) = ["ValueError", "ValueError", "ValueError"] := rfl

/-- the other ways of giving the dimensions (`filling` for `width`, `height` for `gap`) build the same term at the
    resolved values, for every interpretation -/
theorem from_groove_variants_agree {α G : Type} [PyNum α] (S : Sig α G) (ρ σ : String → α)
    (hw : σ "width" = from_groove_fh_width.eval ρ) (hg : σ "gap" = from_groove_fh_gap.eval ρ) :
    from_groove_fh.result.eval S ρ = from_groove_wg.result.eval S σ ∧
    from_groove_fg.result.eval S (fun n => if n = "gap" then σ "gap" else ρ n) = from_groove_wg.result.eval S σ ∧
    from_groove_wh.result.eval S (fun n => if n = "width" then σ "width" else ρ n) = from_groove_wg.result.eval S σ := by
  simp only [from_groove_fh_width, from_groove_fh_gap, Expr.eval] at hw hg
  refine ⟨?_, ?_, ?_⟩ <;>
    simp [from_groove_fh, from_groove_fg, from_groove_wh, from_groove_wg, GT.eval, Bnd.eval, Expr.eval, hw, hg]

/-- combinations of arguments that do not determine the dimensions are TypeErrors on every path -/
theorem from_groove_rejects_ambiguous : ∀ r ∈ from_groove_rejects, r.2 = "TypeError" := by decide

/-- **default width = usable width**: the only implementation of `OutProfile.width` registered by the roll pass returns
    the pass's usable width unconditionally -/
theorem default_width_is_usable_width :
    out_width_default.alts = [(.tt, .expr (.var "roll_pass.usable_width"))] ∧
    out_width_default.hook = "width" ∧ out_width_default.host = "BaseRollPass.OutProfile" := by
  exact ⟨rfl, rfl, rfl⟩

/-- `init_solve` seeds the out profile's cross-section with the usable cross-section (after the base class created the
    out profile), and the usable cross-section is the out cross-section helper at the usable width -/
theorem seed_is_usable_cross_section :
    init_solve_seed = [("out_profile.cross_section", "usable_cross_section", true)] ∧
    two_usable_cs.result = out_cross_section two_lines (.var "usable_width") ∧
    three_usable_cs.result = out_cross_section3 three_lines (.var "usable_width") ∧
    two_usable_cs.checks = [] ∧ three_usable_cs.checks = [] := by
  exact ⟨rfl, rfl, rfl, rfl, rfl⟩

/-- WHEN the seed is assigned - the two forms of `BaseRollPass.init_solve` the model knows: on every solve
    (`super(); seed`), or only when the out profile is created by this call (`created = not self.out_profile; super();
    if created: seed`); the statement list of `Gen/C08Cache.lean` and the flag of `Gen/C08Geom.lean` say the same -/
theorem seed_form :
    init_solve_ops = (if init_solve_seed_on_creation = true then [.created, .super, .seedIfCreated] else [.super, .seed]) := by
  decide

/-- with no width model the out cross-section IS the seed: at `width = usable_width` both are the same geometry, for
    every interpretation (so the seed is a fixed point of the iteration) -/
theorem default_out_cs_is_seed {α G : Type} [PyNum α] (S : Sig α G) (ρ : String → α) (h : ρ "width" = ρ "usable_width") :
    two_cross_section.result.eval S ρ = two_usable_cs.result.eval S ρ ∧
    three_cross_section.result.eval S ρ = three_usable_cs.result.eval S ρ := by
  constructor <;>
    simp [two_cross_section, two_usable_cs, three_cross_section, three_usable_cs, cross_section, cross_section3,
      usable_cross_section, usable_cross_section3, out_cross_section, out_cross_section3, GT.eval, Bnd.eval, Expr.eval, h]

/-- the result of either pass side is the helper applied to the pass's OWN contour lines and the prescribed width `width`
    (not the usable width, not the other pass type's helper), and `refine_cross_section` only ever returns its argument or
    its `segmentize` -/
theorem out_cs_uses_prescribed_width :
    two_cross_section.result = out_cross_section two_lines (.var "width") ∧
    three_cross_section.result = out_cross_section3 three_lines (.var "width") ∧
    (∀ k ∈ refine_returns, k = "identity" ∨ k = "segmentize") := by
  refine ⟨rfl, rfl, by decide⟩

/-- shape of the helpers: a strip `|x| ≤ width/2` for two rolls; three times (keep `y ≤ width/2`, turn by 120°) for three,
    followed by the removal of vertices that coincide within a rounding-sized fraction `rel` of the perimeter -/
theorem helpers_shape (lines : GT) (w : Expr) :
    out_cross_section lines w = .refine (.clipRect (.polygon lines) (.fin (.div (.neg w) (.nat 2))) .ninf (.fin (.div w (.nat 2))) .pinf) ∧
    (∃ rel : Expr, out_cross_section3 lines w =
      .refine (.dedupe (.rotate (.clipRect (.rotate (.clipRect (.rotate (.clipRect (.polygon lines)
        .ninf .ninf .pinf (.fin (.div w (.nat 2)))) (.nat 120))
        .ninf .ninf .pinf (.fin (.div w (.nat 2)))) (.nat 120))
        .ninf .ninf .pinf (.fin (.div w (.nat 2)))) (.nat 120)) rel)) := by
  exact ⟨rfl, _, rfl⟩

/-- giving the constructor the pass's `filling_ratio` instead of the width (two rolls: the pass's usable width is the
    groove's) resolves to the same width -/
theorem filling_round_trip (ρ σ : String → ℝ) (huw : ρ "roll.groove.usable_width" ≠ 0)
    (h1 : ρ "roll_pass.usable_width" = two_usable_width_e.eval ρ)
    (h2 : σ "groove.usable_width" = ρ "roll.groove.usable_width") (h3 : σ "filling" = out_filling_ratio_e.eval ρ) :
    from_groove_fg_width.eval σ = ρ "width" := by
  simp only [two_usable_width_e, Expr.eval] at h1
  simp only [from_groove_fg_width, out_filling_ratio_e, Expr.eval, h1] at h3 ⊢
  rw [h2, h3]
  field_simp

/-! ## B. the over-width tests -/

/-- `if cs.width * 1.01 < self.width: raise ValueError` -/
def twoOver : Cond := .lt (.mul (.var "cs.width") (.dec 101 2)) (.var "width")

/-- `if -width / 2 < poly.bounds[0] * 1.01 or width / 2 > poly.bounds[2] * 1.01: raise ValueError` -/
def fgOver : Cond :=
  .or (.lt (.div (.neg (.var "width")) (.nat 2)) (.mul (.var "poly.bounds[0]") (.dec 101 2)))
      (.lt (.mul (.var "poly.bounds[2]") (.dec 101 2)) (.div (.var "width") (.nat 2)))

/-- `if (cs.bounds[3] + cs.centroid.y) * 2.02 < self.width: raise ValueError` -/
def threeOver : Cond := .lt (.mul (.add (.var "cs.bounds[3]") (.var "cs.centroid.y")) (.dec 202 2)) (.var "width")

/-- the checks of the translated constructions, in source order: what is measured on which geometry, which condition
    raises.  (Two rolls: over-width on the CLIPPED cross-section, then validity.  Constructor: range of the arguments,
    over-width on the UNCLIPPED polygon, validity.  Three rolls: over-width on the clipped cross-section.) -/
theorem checks_shape :
    two_cross_section.meas = [("cs.width", two_cross_section.result, .width)] ∧
    two_cross_section.checks = [⟨twoOver, "ValueError"⟩, ⟨.invalid two_cross_section.result, "ValueError"⟩] ∧
    three_cross_section.meas = [("cs.bounds[3]", three_cross_section.result, .bound 3),
                                ("cs.centroid.y", three_cross_section.result, .centroidY)] ∧
    three_cross_section.checks = [⟨threeOver, "ValueError"⟩] ∧
    (∃ g r, from_groove_wg.result = .refine (.clipRect g (.fin (.div (.neg (.var "width")) (.nat 2))) .ninf
                (.fin (.div (.var "width") (.nat 2))) .pinf) ∧
      from_groove_wg.meas = [("poly.bounds[0]", g, .bound 0), ("poly.bounds[2]", g, .bound 2)] ∧
      from_groove_wg.checks = [⟨r, "ValueError"⟩, ⟨fgOver, "ValueError"⟩,
        ⟨.invalid (.clipRect g (.fin (.div (.neg (.var "width")) (.nat 2))) .ninf (.fin (.div (.var "width") (.nat 2))) .pinf),
         "ValueError"⟩]) := by
  exact ⟨rfl, rfl, rfl, rfl, _, _, rfl, rfl, rfl⟩

section scalar
variable {G : Type} (S : Sig ℝ G) (ρ μ : String → ℝ)

theorem twoOver_iff : twoOver.eval S ρ μ = true ↔ μ "cs.width" * 1.01 < μ "width" := by
  simp only [twoOver, Cond.eval, Expr.eval, lt_real, decide_eq_true_eq, PyNum.dec_real]
  norm_num

theorem fgOver_iff :
    fgOver.eval S ρ μ = true ↔ (-μ "width" / 2 < μ "poly.bounds[0]" * 1.01 ∨ μ "poly.bounds[2]" * 1.01 < μ "width" / 2) := by
  simp only [fgOver, Cond.eval, Expr.eval, lt_real, Bool.or_eq_true, decide_eq_true_eq, PyNum.dec_real, PyNum.nat_real]
  norm_num

theorem threeOver_iff :
    threeOver.eval S ρ μ = true ↔ (μ "cs.bounds[3]" + μ "cs.centroid.y") * 2.02 < μ "width" := by
  simp only [threeOver, Cond.eval, Expr.eval, lt_real, decide_eq_true_eq, PyNum.dec_real]
  norm_num

/-- **over-width is rejected** (pass side): if the clipped cross-section is as wide as the strip clip of a polygon of
    extent `E` can be (`min w E`, see `clip_width_min`), the test fires exactly when the prescribed width exceeds the
    extent by more than one per cent -/
theorem overwidth_rejected (E : ℝ) (hE : 0 < E) (hw : 0 < μ "width") (hm : μ "cs.width" = min (μ "width") E) :
    twoOver.eval S ρ μ = true ↔ 1.01 * E < μ "width" := by
  rw [twoOver_iff, hm]
  rcases le_total (μ "width") E with h | h
  · rw [min_eq_left h]
    constructor <;> intro h' <;> nlinarith
  · rw [min_eq_right h]
    constructor <;> intro h' <;> linarith

/-- an accepted cross-section is at most one per cent narrower than prescribed -/
theorem accepted_width_ge (h : twoOver.eval S ρ μ = false) : μ "width" ≤ 1.01 * μ "cs.width" := by
  have := (twoOver_iff S ρ μ).not.mp (by simp [h])
  linarith

/-- the constructor's test on the unclipped polygon (extent `E`, symmetric) fires for exactly the same widths -/
theorem overwidth_rejected_constructor (E : ℝ) (h0 : μ "poly.bounds[0]" = -E / 2) (h2 : μ "poly.bounds[2]" = E / 2) :
    fgOver.eval S ρ μ = true ↔ 1.01 * E < μ "width" := by
  rw [fgOver_iff, h0, h2]
  constructor
  · rintro (h | h) <;> linarith
  · intro h; left; linarith

theorem overwidth_checks_agree (E : ℝ) (hE : 0 < E) (hw : 0 < μ "width") (hm : μ "cs.width" = min (μ "width") E)
    (h0 : μ "poly.bounds[0]" = -E / 2) (h2 : μ "poly.bounds[2]" = E / 2) :
    twoOver.eval S ρ μ = fgOver.eval S ρ μ := by
  have a := overwidth_rejected S ρ μ E hE hw hm
  have b := overwidth_rejected_constructor S ρ μ E h0 h2
  by_cases h : 1.01 * E < μ "width"
  · rw [a.mpr h, b.mpr h]
  · have ha : twoOver.eval S ρ μ = false := by
      cases hh : twoOver.eval S ρ μ
      · rfl
      · exact absurd (a.mp hh) h
    have hb : fgOver.eval S ρ μ = false := by
      cases hh : fgOver.eval S ρ μ
      · rfl
      · exact absurd (b.mp hh) h
    rw [ha, hb]

/-- three rolls: with the centroid on the axis (3-fold symmetric cross-section) and the cross-section reaching
    `min w E / 2` towards the upper gap, the test fires exactly when the prescribed width exceeds `E` by more than 1 % -/
theorem overwidth_rejected_three (E : ℝ) (hE : 0 < E) (hw : 0 < μ "width") (hc : μ "cs.centroid.y" = 0)
    (hm : μ "cs.bounds[3]" = min (μ "width") E / 2) :
    threeOver.eval S ρ μ = true ↔ 1.01 * E < μ "width" := by
  rw [threeOver_iff, hc, hm]
  rcases le_total (μ "width") E with h | h
  · rw [min_eq_left h]
    constructor <;> intro h' <;> nlinarith
  · rw [min_eq_right h]
    constructor <;> intro h' <;> linarith

/-- an accepted three-roll cross-section reports (through `Profile.width`'s 3-fold variant) at least `w / 1.01` -/
theorem accepted_width_ge_three (h : threeOver.eval S ρ μ = false) (hc : μ "cs.centroid.y" = 0)
    (σ : String → ℝ) (h3 : σ "cross_section.bounds[3]" = μ "cs.bounds[3]") (hy : σ "cross_section.centroid.y" = 0) :
    μ "width" ≤ 1.01 * profile_width_3fold_e.eval σ := by
  have := (threeOver_iff S ρ μ).not.mp (by simp [h])
  simp only [profile_width_3fold_e, Expr.eval, h3, hy, PyNum.nat_real]
  rw [hc] at this
  push_cast
  linarith

end scalar

/-- what the returned profile reports as its width (`Profile.width`): the span of the cross-section -/
theorem reported_width (σ : String → ℝ) (w : ℝ) (hw : 0 ≤ w) (h0 : σ "cross_section.bounds[0]" = -w / 2)
    (h2 : σ "cross_section.bounds[2]" = w / 2) : profile_width_e.eval σ = w := by
  simp only [profile_width_e, Expr.eval, h0, h2, PyNum.abs_real]
  rw [show w / 2 - -w / 2 = w by ring, abs_of_nonneg hw]

example : ∃ μ : String → ℝ, μ "cs.width" = min (μ "width") 4 ∧ 0 < μ "width" ∧ (1.01 : ℝ) * 4 < μ "width" :=
  ⟨fun n => if n = "width" then 5 else 4, by simp; norm_num, by norm_num, by norm_num⟩

/-! ## C. vertex lists over ℝ, two rolls: width, containment, symmetry, over-width, agreement with the constructor -/

/-- the placed upper contour: the groove contour lifted by half the gap -/
noncomputable def upper (ρ : String → ℝ) (c : List (Pt ℝ)) : List (Pt ℝ) := c.map fun p => ⟨p.x, p.y + ρ "gap" / 2⟩

theorem rot180_eq_ht : (rotPt ((180 : ℕ) : ℝ) : Pt ℝ → Pt ℝ) = ht := by
  funext p
  rw [show ((180 : ℕ) : ℝ) = 180 by norm_num, rotPt_180]
  rfl

/-- under the vertex-list interpretation the generated `TwoRollPass.contour_lines` are the lifted contour followed by its
    half-turn image, in this order -/
theorem two_lines_eval (c : Src → List (Pt ℝ)) (valid : List (Pt ℝ) → Bool) (ρ : String → ℝ) :
    two_lines.eval (VL c valid) ρ = upper ρ (c .rollContour) ++ (upper ρ (c .rollContour)).map ht := by
  simp only [two_lines, two_line0, two_line1, GT.eval, VL, Expr.eval, PyNum.nat_real, rot180_eq_ht, upper]
  simp

/-- the generated out cross-section of a two-roll pass IS the strip clip of (upper chain + half-turn image) -/
theorem two_result_is_clipStrip (c : Src → List (Pt ℝ)) (valid : List (Pt ℝ) → Bool) (ρ : String → ℝ) :
    two_cross_section.result.eval (VL c valid) ρ = clipStrip (ρ "width") (upper ρ (c .rollContour)) := by
  have h := two_lines_eval c valid ρ
  simp only [two_cross_section, cross_section, out_cross_section, GT.eval, Bnd.eval, Expr.eval, clipStrip] at h ⊢
  rw [h]
  rfl

/-- **width**: clipped to a width within the extent, the cross-section has exactly that width -/
theorem clip_width (w E : ℝ) (u : List (Pt ℝ)) (h : Spans u E) (hw : 0 < w) (hwE : w ≤ E) :
    measVL (clipStrip w u) .width = w ∧ bound 0 (clipStrip w u) = -w / 2 ∧ bound 2 (clipStrip w u) = w / 2 := by
  have := (clipStrip_xrange w E u h hw).bounds
  rw [min_eq_left hwE] at this
  refine ⟨?_, this.1, this.2⟩
  simp only [measVL, this.1, this.2]
  ring

/-- for any positive prescribed width the clipped cross-section is `min w E` wide (beyond the extent nothing is cut) -/
theorem clip_width_min (w E : ℝ) (u : List (Pt ℝ)) (h : Spans u E) (hw : 0 < w) :
    measVL (clipStrip w u) .width = min w E := by
  have := (clipStrip_xrange w E u h hw).bounds
  simp only [measVL, this.1, this.2]
  ring

/-- **containment** (vertices): every vertex of the clipped cross-section is a vertex of the opening ring (contour and its
    half-turn image) or lies on one of its edges — for EVERY contour -/
theorem clip_contained (w : ℝ) (u : List (Pt ℝ)) :
    ∀ q ∈ clipStrip w u, q ∈ ring u ∨ ∃ a b, (a, b) ∈ segsOf (ring u) ∧ OnSeg q a b :=
  fun q hq => clipStrip_contained w u q hq

/-- and no vertex lies outside the strip -/
theorem clip_within_strip (w E : ℝ) (u : List (Pt ℝ)) (h : Spans u E) (hw : 0 < w) :
    ∀ q ∈ clipStrip w u, -w / 2 ≤ q.x ∧ q.x ≤ w / 2 := by
  intro q hq
  have := (clipStrip_xrange w E u h hw).within q hq
  have h1 : min w E ≤ w := min_le_left _ _
  constructor <;> linarith [this.1, this.2]

/-- **symmetry**: the vertex set of the clipped cross-section is invariant under the half turn — for every contour -/
theorem clip_half_turn_symmetric (w : ℝ) (u : List (Pt ℝ)) : ∀ q, q ∈ clipStrip w u ↔ ht q ∈ clipStrip w u := by
  intro q
  constructor
  · exact clipStrip_ht w u q
  · intro h
    have := clipStrip_ht w u (ht q) h
    rwa [ht_ht] at this

/-- **containment for z-monotone contours** (edges): if the abscissae of the contour strictly increase, any two
    consecutive vertices of the clipped upper chain lie on ONE edge of the placed contour — the clipped upper boundary is a
    part of the upper roll contour (no chord cuts through a roll) … -/
theorem clip_chain_is_part_of_contour (ρ : String → ℝ) (c : List (Pt ℝ)) (hc : Incr c) (w : ℝ) (hw : 0 < w) :
    ∀ r r', (r, r') ∈ segsOf (clipWalkX (-w / 2) (w / 2) (upper ρ c)) →
      ∃ a b, (a, b) ∈ segsOf (upper ρ c) ∧ OnSeg r a b ∧ OnSeg r' a b := by
  have hu : Incr (upper ρ c) := by
    induction c with
    | nil => trivial
    | cons p rest ih =>
      cases rest with
      | nil => trivial
      | cons q rest' => exact ⟨hc.1, ih hc.2⟩
  exact clipWalkX_edges_of_incr _ _ (by linarith) _ hu

/-- … and the clipped lower chain is, vertex by vertex, the half-turn image of the clipped upper chain (for every contour) -/
theorem clip_lower_chain_is_half_turn (u : List (Pt ℝ)) (w : ℝ) :
    clipWalkX (-w / 2) (w / 2) (u.map ht) = (clipWalkX (-w / 2) (w / 2) u).map ht := by
  have := clipWalkX_map_ht (w / 2) u
  rw [show -(w / 2) = -w / 2 by ring] at this
  exact this

section run
variable (c : Src → List (Pt ℝ)) (valid : List (Pt ℝ) → Bool) (ρ : String → ℝ)

theorem two_meas_width :
    measEnv (VL c valid) ρ two_cross_section.meas "cs.width" = measVL (clipStrip (ρ "width") (upper ρ (c .rollContour))) .width ∧
    measEnv (VL c valid) ρ two_cross_section.meas "width" = ρ "width" := by
  rw [checks_shape.1]
  simp only [measEnv, if_true, two_result_is_clipStrip]
  refine ⟨rfl, ?_⟩
  rw [if_neg (by decide)]

/-- **over-width is an error** on the generated program: a prescribed width more than one per cent beyond the extent of
    the contour makes `OutProfile.cross_section` raise `ValueError` (no narrower profile comes back) -/
theorem two_roll_overwidth_rejected (E : ℝ) (h : Spans (upper ρ (c .rollContour)) E) (hw : 1.01 * E < ρ "width") :
    two_cross_section.run (VL c valid) ρ = .raised "ValueError" := by
  have hE := h.pos
  have hw0 : 0 < ρ "width" := by linarith
  obtain ⟨m1, m2⟩ := two_meas_width c valid ρ
  have fire : twoOver.eval (VL c valid) ρ (measEnv (VL c valid) ρ two_cross_section.meas) = true := by
    rw [overwidth_rejected _ _ _ E hE (by rw [m2]; exact hw0) (by rw [m1, m2, clip_width_min _ E _ h hw0])]
    rw [m2]; exact hw
  simp only [Prog.run, checks_shape.2.1, runChecks, fire, if_true]

/-- **accepted widths**: up to one per cent over the extent (and a valid clipped polygon) the program returns the strip
    clip, whose width is `min w E` — exactly the prescribed width whenever the contour can contain it -/
theorem two_roll_accepted (E : ℝ) (h : Spans (upper ρ (c .rollContour)) E) (hw0 : 0 < ρ "width") (hw : ρ "width" ≤ 1.01 * E)
    (hv : valid (clipStrip (ρ "width") (upper ρ (c .rollContour))) = true) :
    two_cross_section.run (VL c valid) ρ = .ok (clipStrip (ρ "width") (upper ρ (c .rollContour))) ∧
    measVL (clipStrip (ρ "width") (upper ρ (c .rollContour))) .width = min (ρ "width") E := by
  have hE := h.pos
  obtain ⟨m1, m2⟩ := two_meas_width c valid ρ
  have nofire : twoOver.eval (VL c valid) ρ (measEnv (VL c valid) ρ two_cross_section.meas) = false := by
    cases hh : twoOver.eval (VL c valid) ρ (measEnv (VL c valid) ρ two_cross_section.meas)
    · rfl
    · rw [overwidth_rejected _ _ _ E hE (by rw [m2]; exact hw0) (by rw [m1, m2, clip_width_min _ E _ h hw0]), m2] at hh
      linarith
  refine ⟨?_, clip_width_min _ E _ h hw0⟩
  have e := two_result_is_clipStrip c valid ρ
  have hv' : (VL c valid).isValid (clipStrip (ρ "width") (upper ρ (c .rollContour))) = true := hv
  simp only [Prog.run, checks_shape.2.1, runChecks, nofire, Cond.eval, e, hv']
  simp

/-- an invalid clipped polygon (GEOS's verdict, e.g. over-filling with a closed gap) is an error as well -/
theorem two_roll_degenerate_rejected (E : ℝ) (h : Spans (upper ρ (c .rollContour)) E) (hw0 : 0 < ρ "width")
    (hv : valid (clipStrip (ρ "width") (upper ρ (c .rollContour))) = false) :
    two_cross_section.run (VL c valid) ρ = .raised "ValueError" := by
  by_cases hw : 1.01 * E < ρ "width"
  · exact two_roll_overwidth_rejected c valid ρ E h hw
  · have hE := h.pos
    obtain ⟨m1, m2⟩ := two_meas_width c valid ρ
    have nofire : twoOver.eval (VL c valid) ρ (measEnv (VL c valid) ρ two_cross_section.meas) = false := by
      cases hh : twoOver.eval (VL c valid) ρ (measEnv (VL c valid) ρ two_cross_section.meas)
      · rfl
      · rw [overwidth_rejected _ _ _ E hE (by rw [m2]; exact hw0) (by rw [m1, m2, clip_width_min _ E _ h hw0]), m2] at hh
        exact absurd hh hw
    have e := two_result_is_clipStrip c valid ρ
    have hv' : (VL c valid).isValid (clipStrip (ρ "width") (upper ρ (c .rollContour))) = false := hv
    simp only [Prog.run, checks_shape.2.1, runChecks, nofire, Cond.eval, e, hv']
    simp

/-! ### the constructor on vertex lists: same outcome as the pass, errors included -/

/-- `poly` of `from_groove`: `Polygon(np.concatenate([upper_contour_line.coords, lower_contour_line.coords]))` -/
def fgPoly : GT := .polygon (two_lines.mapSrc toGroove)

/-- `if not (filling > 0 and width > 0 and height > 0 and gap >= 0): raise ValueError` with `filling`, `height` resolved -/
def fgRange : Cond :=
  .not (.and (.and (.and (.lt (.nat 0) (.div (.var "width") (.var "groove.usable_width"))) (.lt (.nat 0) (.var "width")))
    (.lt (.nat 0) (.add (.var "gap") (.mul (.nat 2) (.var "groove.depth"))))) (.le (.nat 0) (.var "gap")))

theorem constructor_shape :
    from_groove_wg.meas = [("poly.bounds[0]", fgPoly, .bound 0), ("poly.bounds[2]", fgPoly, .bound 2)] ∧
    from_groove_wg.checks = [⟨fgRange, "ValueError"⟩, ⟨fgOver, "ValueError"⟩,
      ⟨.invalid (.clipRect fgPoly (.fin (.div (.neg (.var "width")) (.nat 2))) .ninf (.fin (.div (.var "width") (.nat 2))) .pinf),
       "ValueError"⟩] ∧
    from_groove_wg.result =
      .refine (.clipRect fgPoly (.fin (.div (.neg (.var "width")) (.nat 2))) .ninf (.fin (.div (.var "width") (.nat 2))) .pinf) := by
  exact ⟨rfl, rfl, rfl⟩

theorem fgRange_ok (μ : String → ℝ) (hw0 : 0 < μ "width") (huw : 0 < μ "groove.usable_width")
    (hh : 0 < μ "gap" + 2 * μ "groove.depth") (hg : 0 ≤ μ "gap") : fgRange.eval (VL c valid) ρ μ = false := by
  have : 0 < μ "width" / μ "groove.usable_width" := div_pos hw0 huw
  simp [fgRange, Cond.eval, Expr.eval, this, hw0, hh, hg]

theorem fgPoly_eval (hc : c .rollContour = c .grooveContour) :
    fgPoly.eval (VL c valid) ρ = ring (upper ρ (c .rollContour)) := by
  have h := eval_toGroove (VL c valid) ρ hc two_lines
  simp only [fgPoly, GT.eval, h, two_lines_eval, ring]
  rfl

/-- **the two code paths agree on vertex lists, errors included**: for the same contour, gap and (admissible) width the
    constructor raises exactly when the pass raises, and otherwise both return the same vertex list -/
theorem constructor_agrees_with_pass (hc : c .rollContour = c .grooveContour) (E : ℝ)
    (h : Spans (upper ρ (c .rollContour)) E) (hw0 : 0 < ρ "width") (huw : 0 < ρ "groove.usable_width")
    (hh : 0 < ρ "gap" + 2 * ρ "groove.depth") (hg : 0 ≤ ρ "gap") :
    from_groove_wg.run (VL c valid) ρ = two_cross_section.run (VL c valid) ρ := by
  have hE := h.pos
  have hb := (ring_xrange _ E h).bounds
  have hp := fgPoly_eval c valid ρ hc
  -- the measurements of the constructor
  have m0 : measEnv (VL c valid) ρ from_groove_wg.meas "poly.bounds[0]" = -E / 2 := by
    rw [constructor_shape.1]; simp only [measEnv, if_true, hp]; exact hb.1
  have m2 : measEnv (VL c valid) ρ from_groove_wg.meas "poly.bounds[2]" = E / 2 := by
    rw [constructor_shape.1]; simp only [measEnv, hp, if_true]; exact hb.2
  have mv : ∀ n, n ≠ "poly.bounds[0]" → n ≠ "poly.bounds[2]" → measEnv (VL c valid) ρ from_groove_wg.meas n = ρ n := by
    intro n h0 h2
    rw [constructor_shape.1]; simp only [measEnv]
    rw [if_neg h0, if_neg h2]
  have rng := fgRange_ok c valid ρ (measEnv (VL c valid) ρ from_groove_wg.meas)
    (by rw [mv _ (by decide) (by decide)]; exact hw0) (by rw [mv _ (by decide) (by decide)]; exact huw)
    (by rw [mv _ (by decide) (by decide), mv _ (by decide) (by decide)]; exact hh) (by rw [mv _ (by decide) (by decide)]; exact hg)
  have ovr := overwidth_rejected_constructor (VL c valid) ρ (measEnv (VL c valid) ρ from_groove_wg.meas) E m0 m2
  rw [mv _ (by decide) (by decide)] at ovr
  -- the clipped polygon of the constructor is the pass's
  have eres : from_groove_wg.result.eval (VL c valid) ρ = clipStrip (ρ "width") (upper ρ (c .rollContour)) := by
    rw [← two_code_paths_agree (VL c valid) ρ hc, two_result_is_clipStrip]
  have eclip : (GT.clipRect fgPoly (.fin (.div (.neg (.var "width")) (.nat 2))) .ninf (.fin (.div (.var "width") (.nat 2))) .pinf).eval
      (VL c valid) ρ = clipStrip (ρ "width") (upper ρ (c .rollContour)) := by
    rw [← eres, constructor_shape.2.2]; rfl
  by_cases hw : 1.01 * E < ρ "width"
  · rw [two_roll_overwidth_rejected c valid ρ E h hw]
    simp only [Prog.run, constructor_shape.2.1, runChecks, rng, ovr.mpr hw]
    simp
  · have nofire : fgOver.eval (VL c valid) ρ (measEnv (VL c valid) ρ from_groove_wg.meas) = false := by
      cases hh' : fgOver.eval (VL c valid) ρ (measEnv (VL c valid) ρ from_groove_wg.meas)
      · rfl
      · exact absurd (ovr.mp hh') hw
    cases hv : valid (clipStrip (ρ "width") (upper ρ (c .rollContour)))
    · rw [two_roll_degenerate_rejected c valid ρ E h hw0 hv]
      have hv' : (VL c valid).isValid (clipStrip (ρ "width") (upper ρ (c .rollContour))) = false := hv
      simp only [Prog.run, constructor_shape.2.1, runChecks, rng, nofire, Cond.eval, eclip, hv']
      simp
    · rw [(two_roll_accepted c valid ρ E h hw0 (not_lt.mp hw) hv).1]
      have hv' : (VL c valid).isValid (clipStrip (ρ "width") (upper ρ (c .rollContour))) = true := hv
      simp only [Prog.run, constructor_shape.2.1, runChecks, rng, nofire, Cond.eval, eclip, hv', eres]
      simp

end run

/-! ### non-vacuity: a concrete contour -/

/-- a groove with faces on the axis: extent 4, usable part `|x| ≤ 1`, depth 1 -/
def tri : List (Pt ℝ) := [⟨-2, 0⟩, ⟨-1, 0⟩, ⟨0, 1⟩, ⟨1, 0⟩, ⟨2, 0⟩]

noncomputable def env2 : String → ℝ := fun n =>
  if n = "gap" then 1 else if n = "width" then 3 else if n = "groove.usable_width" then 2 else if n = "groove.depth" then 1 else 0

example : Incr tri := by simp [Incr, tri]

theorem tri_spans : Spans (upper env2 tri) 4 := by
  refine ⟨by norm_num, ?_, ⟨⟨-2, 0 + 1 / 2⟩, ?_, by norm_num⟩, ⟨⟨2, 0 + 1 / 2⟩, ?_, by norm_num⟩⟩
  · intro p hp
    simp only [upper, tri, List.map_cons, List.map_nil, List.mem_cons, List.not_mem_nil, or_false] at hp
    rcases hp with rfl | rfl | rfl | rfl | rfl <;> norm_num
  · simp [upper, tri, env2]
  · simp [upper, tri, env2]

/-- prescribed width 3 (over-filled into the face padding, extent 4): accepted, exactly 3 wide -/
example : measVL (clipStrip 3 (upper env2 tri)) .width = 3 := (clip_width 3 4 _ tri_spans (by norm_num) (by norm_num)).1

/-- prescribed width 4.03 (within 1 % over the extent): accepted with the width of the extent -/
example : measVL (clipStrip 4.03 (upper env2 tri)) .width = 4 := by
  rw [clip_width_min 4.03 4 _ tri_spans (by norm_num)]; norm_num

/-- prescribed width 5 (beyond the contour): `ValueError` -/
example (valid : List (Pt ℝ) → Bool) :
    two_cross_section.run (VL (fun _ => tri) valid) (fun n => if n = "width" then 5 else env2 n) = .raised "ValueError" := by
  apply two_roll_overwidth_rejected _ _ _ 4
  · have : upper (fun n => if n = "width" then 5 else env2 n) tri = upper env2 tri := by simp [upper, env2]
    simpa [this] using tri_spans
  · simp; norm_num

/-- the hypotheses of `constructor_agrees_with_pass` are satisfiable -/
example (valid : List (Pt ℝ) → Bool) :
    from_groove_wg.run (VL (fun _ => tri) valid) env2 = two_cross_section.run (VL (fun _ => tri) valid) env2 :=
  constructor_agrees_with_pass _ valid env2 rfl 4 tri_spans (by simp [env2]) (by simp [env2]) (by simp [env2]; norm_num) (by simp [env2])

/-- a vertex inserted by the clip: the crossing of the face `(1, ½)–(2, ½)` with the border `x = 3/2` -/
example : (⟨3 / 2, 1 / 2⟩ : Pt ℝ) ∈ clipStrip 3 (upper env2 tri) := by
  rw [clipStrip_eq, mem_clipStripRing]
  right
  refine ⟨⟨1, 1 / 2⟩, ⟨2, 1 / 2⟩, ?_, ?_⟩
  · apply segs_subset_closeRing
    rw [mem_segs_append]
    left
    simp [upper, tri, env2, segsOf]
  · rw [mem_crossings]
    right
    refine ⟨Or.inl ⟨by norm_num, by norm_num⟩, ?_⟩
    ext <;> simp [crossAt]

/-! ### the lower roll is the upper roll TURNED by 180°, not its mirror image at the pass line

Both rolls of a two-roll pass are the same roll; the lower one is the upper one turned about the rolling axis, so the
opening (and with it the out cross-section) is POINT symmetric.  For a contour that is mirror symmetric about its centre
line the half-turn image and the mirror image at the pass line are the same vertex list, for every other contour (a
groove with a steep and a shallow flank) they differ.  The theorems below pin the generated construction to the half
turn and show, on a witness contour, that this is a different statement. -/

/-- for EVERY interpretation of the library: the second line of `TwoRollPass.contour_lines` is the first one turned by 180
    degrees about the origin, and the two lines are handed on in this order -/
theorem two_lower_line_is_upper_turned :
    two_line1 = .rotate two_line0 (.nat 180) ∧ two_lines = .concat two_line0 two_line1 := ⟨rfl, rfl⟩

/-- on vertex lists: the generated upper line is the contour lifted by half the gap, the generated lower line IS its
    half-turn image, vertex by vertex in the same order (`List.map ht`) -/
theorem two_lower_line_is_half_turn (c : Src → List (Pt ℝ)) (valid : List (Pt ℝ) → Bool) (ρ : String → ℝ) :
    two_line0.eval (VL c valid) ρ = upper ρ (c .rollContour) ∧
    two_line1.eval (VL c valid) ρ = (upper ρ (c .rollContour)).map ht := by
  simp only [two_line0, two_line1, GT.eval, VL, Expr.eval, PyNum.nat_real, rot180_eq_ht, upper]
  simp

/-- what the lower line would be if the lower roll were the MIRROR IMAGE of the upper one at the pass line:
    `scale(upper, yfact=-1, origin=(0, 0))` with the coordinate order turned back (`LineString(lower.coords[::-1])`) -/
def mirroredLower : GT := .reverse (.scale two_line0 (.nat 1) (.neg (.nat 1)))

theorem mirroredLower_eval (c : Src → List (Pt ℝ)) (valid : List (Pt ℝ) → Bool) (ρ : String → ℝ) :
    mirroredLower.eval (VL c valid) ρ = mirrorRev (upper ρ (c .rollContour)) := by
  simp only [mirroredLower, two_line0, GT.eval, VL, Expr.eval, PyNum.nat_real, upper, mirrorRev]
  simp
  intro a _
  ext <;> simp [flipY]

theorem flipY_flipY (p : Pt ℝ) : flipY (flipY p) = p := by
  ext <;> simp [flipY]

/-- **when the two cannot be told apart**: the mirror image at the pass line (in ring order) equals the half-turn image
    exactly for contours that are mirror symmetric about their centre line (`u` read backwards = `u` with `x ↦ -x`) -/
theorem mirror_eq_half_turn_iff (u : List (Pt ℝ)) : mirrorRev u = u.map ht ↔ u.reverse = u.map flipX := by
  have hinv : ∀ l : List (Pt ℝ), (l.map flipY).map flipY = l := by
    intro l; simp [List.map_map, Function.comp_def, flipY_flipY]
  have e1 : mirrorRev u = (u.reverse).map flipY := by simp [mirrorRev, List.map_reverse]
  have e2 : u.map ht = (u.map flipX).map flipY := by
    simp only [List.map_map, Function.comp_def]
    rfl
  rw [e1, e2]
  constructor
  · intro h
    have := congrArg (List.map flipY) h
    rwa [hinv, hinv] at this
  · intro h; rw [h]

/-- a SKEW groove: steep left flank, shallow right flank, deepest point off the middle (abscissae strictly increasing,
    extent 4 like `tri`) -/
def skew : List (Pt ℝ) := [⟨-2, 0⟩, ⟨-1, 2⟩, ⟨1, 1⟩, ⟨2, 0⟩]

example : Incr skew := by simp [Incr, skew]

theorem skew_spans : Spans (upper env2 skew) 4 := by
  refine ⟨by norm_num, ?_, ⟨⟨-2, 0 + 1 / 2⟩, ?_, by norm_num⟩, ⟨⟨2, 0 + 1 / 2⟩, ?_, by norm_num⟩⟩
  · intro p hp
    simp only [upper, skew, List.map_cons, List.map_nil, List.mem_cons, List.not_mem_nil, or_false] at hp
    rcases hp with rfl | rfl | rfl | rfl <;> norm_num
  · simp [upper, skew, env2]
  · simp [upper, skew, env2]

theorem skew_not_mirror_symmetric (g : ℝ) :
    (skew.map fun p => (⟨p.x, p.y + g⟩ : Pt ℝ)).reverse ≠ (skew.map fun p => (⟨p.x, p.y + g⟩ : Pt ℝ)).map flipX := by
  intro h
  simp [skew, flipX] at h

/-- **the half turn is not the mirror image**: on the skew contour the generated lower line differs, at every gap, from
    the line a lower roll mirrored at the pass line would give -/
theorem half_turn_is_not_mirror_image (valid : List (Pt ℝ) → Bool) (ρ : String → ℝ) :
    two_line1.eval (VL (fun _ => skew) valid) ρ ≠ mirroredLower.eval (VL (fun _ => skew) valid) ρ := by
  rw [(two_lower_line_is_half_turn _ valid ρ).2, mirroredLower_eval]
  intro h
  exact skew_not_mirror_symmetric (ρ "gap" / 2) ((mirror_eq_half_turn_iff _).mp h.symm)

/-- … whereas on the mirror symmetric contour `tri` both give the same line (why passes on symmetric grooves cannot tell a
    mirrored lower roll from a turned one) -/
example (valid : List (Pt ℝ) → Bool) :
    two_line1.eval (VL (fun _ => tri) valid) env2 = mirroredLower.eval (VL (fun _ => tri) valid) env2 := by
  rw [(two_lower_line_is_half_turn _ valid env2).2, mirroredLower_eval]
  symm
  rw [mirror_eq_half_turn_iff]
  simp [upper, tri, flipX]

/-- the out cross-section on the skew contour (width = extent): a vertex whose half-turn image is a vertex as well
    (`clip_half_turn_symmetric`) but whose mirror image at the pass line is NOT - the section has the symmetry of the
    pass (half turn) and no other -/
theorem skew_section_not_mirror_symmetric :
    ∃ q, q ∈ clipStrip 4 (upper env2 skew) ∧ ht q ∈ clipStrip 4 (upper env2 skew) ∧ flipY q ∉ clipStrip 4 (upper env2 skew) := by
  have hq : (⟨-1, 2 + 1 / 2⟩ : Pt ℝ) ∈ clipStrip 4 (upper env2 skew) := by
    rw [clipStrip_eq, mem_clipStripRing]
    left
    refine ⟨?_, by norm_num, by norm_num⟩
    rw [mem_ring]
    left
    simp [upper, skew, env2]
  refine ⟨⟨-1, 2 + 1 / 2⟩, hq, (clip_half_turn_symmetric 4 _ _).mp hq, ?_⟩
  rw [clipStrip_eq, mem_clipStripRing]
  rintro (⟨h, -, -⟩ | ⟨a, b, -, hc⟩)
  · rw [mem_ring] at h
    simp [upper, skew, env2, flipY, ht] at h
    norm_num at h
  · have := (mem_crossings_x _ _ a b _ hc).1
    simp [flipY] at this
    norm_num at this

/-- the program on the skew contour: accepted at the width of the extent, result = the strip clip (so the theorems of this
    part are not about symmetric contours only) -/
example (valid : List (Pt ℝ) → Bool) (hv : valid (clipStrip 4 (upper env2 skew)) = true) :
    two_cross_section.run (VL (fun _ => skew) valid) (fun n => if n = "width" then 4 else env2 n) =
      .ok (clipStrip 4 (upper env2 skew)) := by
  have hu : upper (fun n => if n = "width" then 4 else env2 n) skew = upper env2 skew := by simp [upper, env2]
  have := (two_roll_accepted (fun _ => skew) valid (fun n => if n = "width" then 4 else env2 n) 4
    (by simpa [hu] using skew_spans) (by simp) (by simp; norm_num) (by simpa [hu] using hv)).1
  simpa [hu] using this

/-! ## D. three rolls -/

theorem rot120_eq : (rotPt (120 : ℝ) : Pt ℝ → Pt ℝ) = rot120 := by
  funext p
  rw [rotPt_120]
  rfl

/-- the generated three-roll out cross-section is the triple (keep `y ≤ width/2`, close, turn by 120°) of the ring of the
    pass's three contour lines -/
theorem three_result_is_triple_clip (c : Src → List (Pt ℝ)) (valid : List (Pt ℝ) → Bool) (ρ : String → ℝ) :
    three_cross_section.result.eval (VL c valid) ρ =
      clipTurn (ρ "width" / 2) (clipTurn (ρ "width" / 2) (clipTurn (ρ "width" / 2)
        (closeRing (three_lines.eval (VL c valid) ρ)))) := by
  simp only [three_cross_section, cross_section3, out_cross_section3, GT.eval, Bnd.eval, Expr.eval, PyNum.nat_real]
  simp only [VL, clipRectVL, clipExt, rot120_eq, clipTurn, Nat.cast_ofNat, Bool.false_eq_true, if_false, if_true]

/-- **three-roll over-width test, for every interpretation**: the program raises exactly when
    `(bounds[3] + centroid.y) · 2.02 < width`, measured on the cross-section it would return -/
theorem three_roll_overwidth {G : Type} (S : Sig ℝ G) (ρ : String → ℝ) :
    three_cross_section.run S ρ = .raised "ValueError" ↔
      (S.measure (three_cross_section.result.eval S ρ) (.bound 3) +
        S.measure (three_cross_section.result.eval S ρ) .centroidY) * 2.02 < ρ "width" := by
  have e3 : measEnv S ρ three_cross_section.meas "cs.bounds[3]" = S.measure (three_cross_section.result.eval S ρ) (.bound 3) := by
    rw [checks_shape.2.2.1]; simp only [measEnv, if_true]
  have ey : measEnv S ρ three_cross_section.meas "cs.centroid.y" = S.measure (three_cross_section.result.eval S ρ) .centroidY := by
    rw [checks_shape.2.2.1]; simp only [measEnv, if_true]; rw [if_neg (by decide)]
  have ew : measEnv S ρ three_cross_section.meas "width" = ρ "width" := by
    rw [checks_shape.2.2.1]; simp only [measEnv]; rw [if_neg (by decide), if_neg (by decide)]
  have key := threeOver_iff S ρ (measEnv S ρ three_cross_section.meas)
  rw [e3, ey, ew] at key
  rw [← key]
  simp only [Prog.run, checks_shape.2.2.2.1, runChecks]
  cases threeOver.eval S ρ (measEnv S ρ three_cross_section.meas) <;> simp

/-- **three rolls, width (upper bound)**: no vertex of the cross-section reaches further than `width/2` towards any of the
    three gaps (directions 90°, 210°, 330°) — for every ring of contour lines -/
theorem three_roll_clip_bounded (c : Src → List (Pt ℝ)) (valid : List (Pt ℝ) → Bool) (ρ : String → ℝ) :
    ∀ q ∈ three_cross_section.result.eval (VL c valid) ρ,
      reach90 q ≤ ρ "width" / 2 ∧ reach210 q ≤ ρ "width" / 2 ∧ reach330 q ≤ ρ "width" / 2 := by
  rw [three_result_is_triple_clip]
  exact clipTurn3_bounded _ _

/-- every vertex of the opening that respects the three bounds is a vertex of the cross-section -/
theorem three_roll_clip_keeps (c : Src → List (Pt ℝ)) (valid : List (Pt ℝ) → Bool) (ρ : String → ℝ) (p : Pt ℝ)
    (hp : p ∈ three_lines.eval (VL c valid) ρ)
    (h90 : reach90 p ≤ ρ "width" / 2) (h210 : reach210 p ≤ ρ "width" / 2) (h330 : reach330 p ≤ ρ "width" / 2) :
    p ∈ three_cross_section.result.eval (VL c valid) ρ := by
  rw [three_result_is_triple_clip]
  exact clipTurn3_keeps _ _ p ((mem_closeRing _ p).mpr hp) h90 h210 h330

/-- the full symmetry statement for three rolls: the vertex set of the cross-section is invariant under the 120° turn -/
def ThreeRollSymmetric (cs : List (Pt ℝ)) : Prop := ∀ q, q ∈ cs ↔ rot120 q ∈ cs

/-- what is carried of it (partial): if the opening's vertex set is invariant under the 120° turn (C09:
    `three_roll_120`), then so is the set of its vertices that survive in the cross-section, and the three bounds of
    `three_roll_clip_bounded` are permuted by the turn.  The vertices INSERTED by the three clips are not covered
    (their symmetry is checked on the real cross-section by the oracle). -/
theorem three_roll_symmetric_partial (c : Src → List (Pt ℝ)) (valid : List (Pt ℝ) → Bool) (ρ : String → ℝ)
    (hsym : ∀ p ∈ three_lines.eval (VL c valid) ρ, rot120 p ∈ three_lines.eval (VL c valid) ρ)
    (p : Pt ℝ) (hp : p ∈ three_lines.eval (VL c valid) ρ)
    (h90 : reach90 p ≤ ρ "width" / 2) (h210 : reach210 p ≤ ρ "width" / 2) (h330 : reach330 p ≤ ρ "width" / 2) :
    p ∈ three_cross_section.result.eval (VL c valid) ρ ∧ rot120 p ∈ three_cross_section.result.eval (VL c valid) ρ := by
  refine ⟨three_roll_clip_keeps c valid ρ p hp h90 h210 h330, ?_⟩
  apply three_roll_clip_keeps c valid ρ (rot120 p) (hsym p hp)
  · rw [reach90_rot]; exact h330
  · rw [reach210_rot]; exact h90
  · rw [reach330_rot]; exact h210

/-- the turn by 120° has order three, so after the three rounds the cross-section is back in the frame of the pass -/
theorem rotate_order_three (p : Pt ℝ) : rot120 (rot120 (rot120 p)) = p := rot120_three p

/-- non-vacuity: an equilateral opening (vertices at distance 2 towards 90°, 210°, 330°), prescribed width 2:
    the vertex `(0, 2)` is cut off, and the bound is attained -/
example : ¬ (reach90 (⟨0, 2⟩ : Pt ℝ) ≤ (2 : ℝ) / 2) := by simp [reach90]
example : reach210 (⟨0, 1⟩ : Pt ℝ) ≤ (2 : ℝ) / 2 ∧ reach330 (⟨0, 1⟩ : Pt ℝ) ≤ (2 : ℝ) / 2 ∧ reach90 (⟨0, 1⟩ : Pt ℝ) ≤ (2 : ℝ) / 2 := by
  simp [reach90, reach210, reach330]; norm_num

example : (⟨0, 1⟩ : Pt ℝ) ∈ clipTurn 1 (clipTurn 1 (clipTurn 1 [⟨0, 1⟩, ⟨-1, -1⟩, ⟨1, -1⟩, ⟨0, 1⟩])) := by
  apply clipTurn3_keeps
  · simp
  · simp [reach90]
  · simp [reach210]; norm_num
  · simp [reach330]; norm_num

section cache
open OutCS.Cache

/-! ## E. WHEN the contour lines are built and FROM WHICH ROLLS: the memos, the solution loop, histories of one pass object -/

/-- contour lines built NOW by a pass of kind `p`: placed at the gap `g` the hook answers now, made of the contour of the
    groove `k` that is mounted now (and, where the construction reads the groove directly, of that groove as well) -/
def provNow (p : Pass) {γ κ : Type} (g : γ) (k : κ) : Prov γ κ :=
  { gap := g, line := k, direct := if p.memo.direct then some k else none }

/-- what one iteration of the solution loop must achieve, whatever state pass and roll are in (stale memos, stale caches,
    left over from another gap or from another groove): the out cross-section evaluated in it is built from contour lines
    placed at the gap of THIS iteration and made of the contour of the groove mounted NOW, and the memos of pass and roll
    and the cached gap / contour points are at these values -/
def Rebuilds (p : Pass) (loop : List LStep) : Prop :=
  ∀ {γ κ : Type} (g : γ) (k : κ) (s : St γ κ),
    (iter p g k loop s).used = provNow p g k :: s.used ∧ (iter p g k loop s).lines = some (provNow p g k) ∧
    (iter p g k loop s).gapC = some g ∧ (iter p g k loop s).rline = some k ∧ (iter p g k loop s).cpC = some k ∧
    (iter p g k loop s).ocs = some (.built (provNow p g k)) ∧ (iter p g k loop s).outp = s.outp

/-- **every iteration rebuilds the contour lines, from the rolls as they are now** — the generated loop body of
    `Unit.solve`, the generated `reevaluate_cache` chains of the pass classes AND of the roll classes, the generated memos of
    `contour_lines` and of `Roll.contour_line`, two and three rolls; for EVERY state of pass and roll (a used pass) and
    every value of the gap and every groove -/
theorem iteration_rebuilds_contour_lines :
    Rebuilds two_pass solve_loop ∧ Rebuilds three_pass solve_loop := by
  constructor <;> intro γ κ g k s <;> obtain ⟨l, c, u, us, cp, rl, op, cr, oc⟩ := s <;> cases l <;> cases c <;> cases u <;> cases cp <;>
    cases rl <;>
    simp [iter, step, runChain, runOps, runRollChain, runRollOps, recompute, recomputeRoll, readLines, readRollLine, readCP,
      readGap, provNow, two_pass, three_pass, two_reevaluate, three_reevaluate, two_roll_reevaluate, three_roll_reevaluate,
      two_memo, three_memo, two_roll_memo, three_roll_memo, solve_loop]

theorem iterate_used {γ κ : Type} {p : Pass} {loop : List LStep} (h : Rebuilds p loop)
    (k : κ) (gs : List γ) (s : St γ κ) :
    (iterate p loop k gs s).used = (gs.map (provNow p · k)).reverse ++ s.used := by
  induction gs generalizing s with
  | nil => simp [iterate]
  | cons g gs ih => simp [iterate, ih, (h g k s).1]

theorem iterate_last {γ κ : Type} {p : Pass} {loop : List LStep} (h : Rebuilds p loop)
    (k : κ) (g : γ) (gs : List γ) (s : St γ κ) :
    (iterate p loop k (g :: gs) s).lines = some (provNow p ((g :: gs).getLast (by simp)) k) ∧
    (iterate p loop k (g :: gs) s).gapC = some ((g :: gs).getLast (by simp)) ∧
    (iterate p loop k (g :: gs) s).rline = some k ∧
    (iterate p loop k (g :: gs) s).ocs = some (.built (provNow p ((g :: gs).getLast (by simp)) k)) := by
  induction gs generalizing g s with
  | nil => simp [iterate, (h g k s).2.1, (h g k s).2.2.1, (h g k s).2.2.2.1, (h g k s).2.2.2.2.2.1]
  | cons g' gs ih =>
    have := ih g' (iter p g k loop s)
    simpa [iterate, List.getLast_cons] using this

/-- what `Unit.solve` leaves behind on a pass of kind `p` that went in in state `s0` -/
def SolvedAt (p : Pass) {γ κ : Type} (k : κ) (g : γ) (gs : List γ) (s : St γ κ) : Prop :=
  s.used.take (gs.length + 1) = ((g :: gs).map (provNow p · k)).reverse ∧
  s.used.head? = some (provNow p ((g :: gs).getLast (by simp)) k) ∧
  s.lines = some (provNow p ((g :: gs).getLast (by simp)) k) ∧
  s.gapC = some ((g :: gs).getLast (by simp)) ∧ s.rline = some k ∧
  s.ocs = some (.built (provNow p ((g :: gs).getLast (by simp)) k))

theorem solve_of_rebuilds {γ κ : Type} {p : Pass} {loop : List LStep} (h : Rebuilds p loop) (init : List IOp)
    (k : κ) (g0 g : γ) (gs : List γ) (s0 : St γ κ) : SolvedAt p k g gs (solve p loop init k g0 (g :: gs) s0) := by
  have u := iterate_used h k (g :: gs) (initSolve p g0 k init s0)
  have l := iterate_last h k g gs (initSolve p g0 k init s0)
  have hd : ∀ (t : List (Prov γ κ)), (((g :: gs).map (provNow p · k)).reverse ++ t).head? =
      some (provNow p ((g :: gs).getLast (by simp)) k) := by
    intro t
    rw [List.head?_append, List.head?_reverse, List.getLast?_map, List.getLast?_eq_some_getLast (by simp)]
    rfl
  have tk : ∀ (t : List (Prov γ κ)), (((g :: gs).map (provNow p · k)).reverse ++ t).take (gs.length + 1) =
      ((g :: gs).map (provNow p · k)).reverse := by
    intro t
    rw [List.take_append_of_le_length (by simp), List.take_of_length_le (by simp)]
  unfold SolvedAt solve
  refine ⟨?_, ?_, l.1, l.2.1, l.2.2.1, l.2.2.2⟩
  · rw [u, tk]
  · rw [u, hd]

/-- **the out profile is built at the gap the pass ends up with, from the rolls that are mounted**: run `Unit.solve` on a
    pass in ANY state `s0` (fresh, or used: memos and caches left over from an earlier gap, an earlier groove, an earlier roll
    object), groove `k` on the rolls, the gap hook answering `g0` during `init_solve` and `gs[i]` in iteration `i` (a constant
    gap, a gap set between two solves, a gap that settles with the roll force, …).  Then the out cross-section of every
    iteration was built from the contour of groove `k` at that iteration's gap (`used`), and after the solve the memoised
    lines, the gap the pass reports (`roll_pass.gap`, the cached value), the roll's memoised contour line and what is
    behind the final out cross-section are one and the same: groove `k` at the last gap. -/
theorem solve_builds_out_cs_at_reported_gap {γ κ : Type} (k : κ) (g0 g : γ) (gs : List γ) (s0 : St γ κ) :
    solve_init_first = true ∧
    SolvedAt two_pass k g gs (solve two_pass solve_loop init_solve_ops k g0 (g :: gs) s0) ∧
    SolvedAt three_pass k g gs (solve three_pass solve_loop init_solve_ops k g0 (g :: gs) s0) :=
  ⟨rfl, solve_of_rebuilds iteration_rebuilds_contour_lines.1 _ k g0 g gs s0,
    solve_of_rebuilds iteration_rebuilds_contour_lines.2 _ k g0 g gs s0⟩

/-- **nothing of an earlier use of the pass object survives into a later solve**: whatever was done with ONE pass object
    before (`acts`: solves with other grooves mounted by `rp.roll.groove = …`, with other gaps, roll objects put in), after a
    further `solve` with groove `k` on the rolls the out cross-section is the one of groove `k` at the last gap — the same
    `SolvedAt` a fresh pass reaches. -/
theorem history_last_solve {γ κ : Type} (acts : List (Act γ κ)) (k : κ) (g0 g : γ) (gs : List γ) (s0 : St γ κ) :
    SolvedAt two_pass k g gs (history two_pass solve_loop init_solve_ops (acts ++ [.solve k g0 (g :: gs)]) s0) ∧
    SolvedAt three_pass k g gs (history three_pass solve_loop init_solve_ops (acts ++ [.solve k g0 (g :: gs)]) s0) := by
  have hh : ∀ (p : Pass) (acts : List (Act γ κ)) (a : Act γ κ) (s : St γ κ),
      history p solve_loop init_solve_ops (acts ++ [a]) s =
        act p solve_loop init_solve_ops a (history p solve_loop init_solve_ops acts s) := by
    intro p acts a
    induction acts with
    | nil => intro s; simp [history]
    | cons b rest ih => intro s; simp [history, ih]
  rw [hh, hh]
  exact ⟨solve_of_rebuilds iteration_rebuilds_contour_lines.1 _ k g0 g gs _,
    solve_of_rebuilds iteration_rebuilds_contour_lines.2 _ k g0 g gs _⟩

/-- the contour lines depend on the pass only through the hook `gap` and the roll (contour line; three rolls: the groove's
    usable width): nothing else of the pass (targets, precision, orientation, …) enters the opening; the roll's contour
    line is made of the roll's hook `contour_points` and of nothing else, and the implementation of that hook hands out the
    contour points of the groove that is mounted -/
theorem contour_lines_read_gap_and_roll_only :
    (∀ r ∈ two_memo_reads, r = "gap" ∨ r = "roll.contour_line") ∧
    (∀ r ∈ three_memo_reads, r = "gap" ∨ r = "roll.contour_line" ∨ r = "roll.groove.usable_width") ∧
    "gap" ∈ two_memo_reads ∧ "gap" ∈ three_memo_reads ∧
    two_memo.direct = false ∧ three_memo.direct = true ∧
    two_roll_memo_reads = ["contour_points"] ∧ three_roll_memo_reads = ["contour_points"] ∧
    (∀ f ∈ roll_contour_points, f.2 = "groove.contour_points") ∧ roll_contour_points ≠ [] := by
  decide

/-- the remembered (cached) `usable_cross_section` keeps up with gap and rolls: whenever it is in the cache, one iteration
    leaves it built from contour lines at the gap of THIS iteration and of the groove mounted NOW -/
def UcsCurrent (p : Pass) (loop : List LStep) : Prop :=
  ∀ {γ κ : Type} (g : γ) (k : κ) (s : St γ κ), s.ucs.isSome → (iter p g k loop s).ucs = some (provNow p g k)

/-- **the remembered usable cross-section belongs to the current gap and groove** (no part of the statement about the out
    profile, but what `init_solve` seeds the out profile with, and what `cross_section_filling_ratio` is measured against):
    in the generated `reevaluate_cache` the memoised lines of pass and roll are dropped BEFORE `HookHost.reevaluate_cache`
    computes the remembered hook values again, so the usable cross-section is rebuilt from lines at the gap and groove of
    this iteration — for every state of pass and roll. -/
theorem cached_usable_cs_is_current : UcsCurrent two_pass solve_loop ∧ UcsCurrent three_pass solve_loop := by
  constructor <;> intro γ κ g k s hu <;> obtain ⟨l, c, u, us, cp, rl, op, cr, oc⟩ := s <;> cases u <;> simp at hu <;>
    cases l <;> cases c <;> cases cp <;> cases rl <;>
    simp [iter, step, runChain, runOps, runRollChain, runRollOps, recompute, recomputeRoll, readLines, readRollLine, readCP,
      readGap, provNow, two_pass, three_pass, two_reevaluate, three_reevaluate, two_roll_reevaluate, three_roll_reevaluate,
      two_memo, three_memo, two_roll_memo, three_roll_memo, solve_loop]

theorem iterate_ucs {γ κ : Type} {p : Pass} {loop : List LStep} (h : UcsCurrent p loop)
    (k : κ) (g : γ) (gs : List γ) (s : St γ κ) (hs : s.ucs.isSome) :
    (iterate p loop k (g :: gs) s).ucs = some (provNow p ((g :: gs).getLast (by simp)) k) := by
  induction gs generalizing g s with
  | nil => simp [iterate, h g k s hs]
  | cons g' gs ih =>
    have := ih g' (iter p g k loop s) (by rw [h g k s hs]; rfl)
    simpa [iterate, List.getLast_cons] using this

/-! ### `init_solve`: the start value of the out cross-section, and why it does not matter -/

/-- reading the contour lines does not touch the out profile -/
theorem readLines_outp {γ κ : Type} (p : Pass) (g : γ) (k : κ) (s : St γ κ) : (readLines p g k s).2.outp = s.outp := by
  obtain ⟨l, c, u, us, cp, rl, op, cr, oc⟩ := s
  obtain ⟨⟨mg, ms, md⟩, ⟨rg, rs, rd⟩, ch, rch⟩ := p
  cases mg <;> cases ms <;> cases rg <;> cases rs <;> cases l <;> cases c <;> cases cp <;> cases rl <;>
    simp [readLines, readRollLine, readCP, readGap]

/-- **first solve**: `init_solve` on a pass WITHOUT an out profile (any pass kind, any state of memos and caches) creates
    the out profile and seeds its cross-section with the usable cross-section (which is remembered from then on) - in
    both forms of `init_solve` (`seed_form`) -/
theorem init_solve_seeds_new_out_profile {γ κ : Type} (p : Pass) (g : γ) (k : κ) (s0 : St γ κ) (h : s0.outp = false) :
    (initSolve p g k init_solve_ops s0).outp = true ∧
    ∃ l, (initSolve p g k init_solve_ops s0).ucs = some l ∧ (initSolve p g k init_solve_ops s0).ocs = some (.seeded l) := by
  obtain ⟨l, c, u, us, cp, rl, op, cr, oc⟩ := s0
  simp only at h
  subst h
  cases u <;> simp [initSolve, init_solve_ops, superInit, seedOut, readUcs, readLines_outp]

/-- **a further solve of the same pass object**: with the seed assigned on creation only, `init_solve` leaves the out
    profile's cross-section (the result of the previous solution), the remembered usable cross-section and the evaluations
    so far as they are - the pass starts from the previous cross-section like from every other remembered result; with the
    seed assigned on every solve it starts from the usable cross-section again.  Whichever form the source has. -/
theorem init_solve_reused_out_profile {γ κ : Type} (p : Pass) (g : γ) (k : κ) (s0 : St γ κ) (h : s0.outp = true) :
    (init_solve_seed_on_creation = true →
      (initSolve p g k init_solve_ops s0).ocs = s0.ocs ∧ (initSolve p g k init_solve_ops s0).ucs = s0.ucs ∧
      (initSolve p g k init_solve_ops s0).lines = s0.lines ∧ (initSolve p g k init_solve_ops s0).used = s0.used) ∧
    (init_solve_seed_on_creation = false →
      ∃ l, (initSolve p g k init_solve_ops s0).ucs = some l ∧ (initSolve p g k init_solve_ops s0).ocs = some (.seeded l)) := by
  obtain ⟨l, c, u, us, cp, rl, op, cr, oc⟩ := s0
  simp only at h
  subst h
  cases u <;> simp [initSolve, init_solve_ops, init_solve_seed_on_creation, superInit, seedOut, readUcs]

/-- **the start value does not matter** (what the property needs): after `Unit.solve` - the generated `init_solve`, the
    generated loop - on a pass in ANY state `s0` (no out profile; an out profile holding the incoming profile's
    cross-section, the first guess, or the result of an earlier solution with another groove, gap or width) the out
    profile's cross-section is the one the hook implementation `OutProfile.cross_section` built in the LAST iteration: the
    helper at the prescribed width (parts A-D) on contour lines of the mounted groove `k` at the last gap.  Two passes in
    different states therefore end with the same out cross-section. -/
theorem out_cs_after_solve_ignores_start_value {γ κ : Type} (k : κ) (g0 g : γ) (gs : List γ) (s0 s1 : St γ κ) :
    (solve two_pass solve_loop init_solve_ops k g0 (g :: gs) s0).ocs =
      some (.built (provNow two_pass ((g :: gs).getLast (by simp)) k)) ∧
    (solve three_pass solve_loop init_solve_ops k g0 (g :: gs) s0).ocs =
      some (.built (provNow three_pass ((g :: gs).getLast (by simp)) k)) ∧
    (solve two_pass solve_loop init_solve_ops k g0 (g :: gs) s0).ocs = (solve two_pass solve_loop init_solve_ops k g0 (g :: gs) s1).ocs ∧
    (solve three_pass solve_loop init_solve_ops k g0 (g :: gs) s0).ocs = (solve three_pass solve_loop init_solve_ops k g0 (g :: gs) s1).ocs := by
  have a := fun s => (solve_of_rebuilds iteration_rebuilds_contour_lines.1 init_solve_ops k g0 g gs s).2.2.2.2.2
  have b := fun s => (solve_of_rebuilds iteration_rebuilds_contour_lines.2 init_solve_ops k g0 g gs s).2.2.2.2.2
  exact ⟨a s0, b s0, by rw [a s0, a s1], by rw [b s0, b s1]⟩

/-- a usable cross-section that is not remembered is not built by an iteration either -/
def UcsStaysOut (p : Pass) (loop : List LStep) : Prop :=
  ∀ {γ κ : Type} (g : γ) (k : κ) (s : St γ κ), s.ucs = none → (iter p g k loop s).ucs = none

theorem iteration_keeps_usable_cs_out : UcsStaysOut two_pass solve_loop ∧ UcsStaysOut three_pass solve_loop := by
  constructor <;> intro γ κ g k s hu <;> obtain ⟨l, c, u, us, cp, rl, op, cr, oc⟩ := s <;> simp only at hu <;> subst hu <;>
    cases l <;> cases c <;> cases cp <;> cases rl <;>
    simp [iter, step, runChain, runOps, runRollChain, runRollOps, recompute, recomputeRoll, readLines, readRollLine, readCP,
      readGap, two_pass, three_pass, two_reevaluate, three_reevaluate, two_roll_reevaluate, three_roll_reevaluate,
      two_memo, three_memo, two_roll_memo, three_roll_memo, solve_loop]

theorem iterate_ucs_none {γ κ : Type} {p : Pass} {loop : List LStep} (h : UcsStaysOut p loop)
    (k : κ) (gs : List γ) (s : St γ κ) (hs : s.ucs = none) : (iterate p loop k gs s).ucs = none := by
  induction gs generalizing s with
  | nil => simpa [iterate] using hs
  | cons g gs ih => simpa [iterate] using ih (iter p g k loop s) (h g k s hs)

theorem iterate_outp {γ κ : Type} {p : Pass} {loop : List LStep} (h : Rebuilds p loop)
    (k : κ) (gs : List γ) (s : St γ κ) : (iterate p loop k gs s).outp = s.outp := by
  induction gs generalizing s with
  | nil => simp [iterate]
  | cons g gs ih => simp [iterate, ih, (h g k s).2.2.2.2.2.2]

/-- `init_solve` leaves a usable cross-section behind whenever the pass had no out profile or remembered one already -/
theorem init_solve_ucs {γ κ : Type} (p : Pass) (g : γ) (k : κ) (s0 : St γ κ) (h : s0.outp = false ∨ s0.ucs.isSome) :
    (initSolve p g k init_solve_ops s0).ucs.isSome ∧ (initSolve p g k init_solve_ops s0).outp = true := by
  obtain ⟨l, c, u, us, cp, rl, op, cr, oc⟩ := s0
  cases op <;> cases u <;> simp at h <;> cases cr <;>
    simp [initSolve, init_solve_ops, superInit, seedOut, readUcs, readLines_outp]

/-- after `Unit.solve` the remembered usable cross-section is the one of the mounted groove at the last gap (the same
    lines as the final out cross-section, `solve_builds_out_cs_at_reported_gap`): for every pass that had no out profile
    or remembered a usable cross-section - for EVERY state when `init_solve` seeds on every solve; and in every state:
    whenever a usable cross-section is remembered after the solve, it is that one -/
theorem solve_usable_cs_current {γ κ : Type} (k : κ) (g0 g : γ) (gs : List γ) (s0 : St γ κ) :
    ((s0.outp = false ∨ s0.ucs.isSome ∨ init_solve_seed_on_creation = false) →
      (solve two_pass solve_loop init_solve_ops k g0 (g :: gs) s0).ucs = some (provNow two_pass ((g :: gs).getLast (by simp)) k) ∧
      (solve three_pass solve_loop init_solve_ops k g0 (g :: gs) s0).ucs = some (provNow three_pass ((g :: gs).getLast (by simp)) k)) ∧
    ((solve two_pass solve_loop init_solve_ops k g0 (g :: gs) s0).ucs.isSome →
      (solve two_pass solve_loop init_solve_ops k g0 (g :: gs) s0).ucs = some (provNow two_pass ((g :: gs).getLast (by simp)) k)) ∧
    ((solve three_pass solve_loop init_solve_ops k g0 (g :: gs) s0).ucs.isSome →
      (solve three_pass solve_loop init_solve_ops k g0 (g :: gs) s0).ucs = some (provNow three_pass ((g :: gs).getLast (by simp)) k)) := by
  have seeded : ∀ (p : Pass), (s0.outp = false ∨ s0.ucs.isSome ∨ init_solve_seed_on_creation = false) →
      (initSolve p g0 k init_solve_ops s0).ucs.isSome := by
    intro p h
    obtain ⟨l, c, u, us, cp, rl, op, cr, oc⟩ := s0
    cases op <;> cases u <;> cases cr <;>
      simp [init_solve_seed_on_creation] at h <;>
      simp [initSolve, init_solve_ops, superInit, seedOut, readUcs]
  have dich : ∀ (p : Pass), UcsCurrent p solve_loop → UcsStaysOut p solve_loop →
      (solve p solve_loop init_solve_ops k g0 (g :: gs) s0).ucs.isSome →
      (solve p solve_loop init_solve_ops k g0 (g :: gs) s0).ucs = some (provNow p ((g :: gs).getLast (by simp)) k) := by
    intro p hc hn hs
    cases hi : (initSolve p g0 k init_solve_ops s0).ucs with
    | none =>
      have := iterate_ucs_none hn k (g :: gs) _ hi
      simp [solve, this] at hs
    | some v => exact iterate_ucs hc k g gs _ (by simp [hi])
  exact ⟨fun h => ⟨iterate_ucs cached_usable_cs_is_current.1 k g gs _ (seeded _ h),
      iterate_ucs cached_usable_cs_is_current.2 k g gs _ (seeded _ h)⟩,
    dich _ cached_usable_cs_is_current.1 iteration_keeps_usable_cs_out.1,
    dich _ cached_usable_cs_is_current.2 iteration_keeps_usable_cs_out.2⟩

/-- along every history of ONE pass object that starts without an out profile (a new pass: `{}`), a pass that has an out
    profile remembers a usable cross-section -/
def HasUcs {γ κ : Type} (s : St γ κ) : Prop := s.outp = false ∨ s.ucs.isSome

theorem history_has_ucs {γ κ : Type} (acts : List (Act γ κ)) (s : St γ κ) (hs : HasUcs s) :
    HasUcs (history two_pass solve_loop init_solve_ops acts s) ∧ HasUcs (history three_pass solve_loop init_solve_ops acts s) := by
  have one : ∀ (p : Pass), UcsCurrent p solve_loop → Rebuilds p solve_loop → ∀ (acts : List (Act γ κ)) (s : St γ κ), HasUcs s →
      HasUcs (history p solve_loop init_solve_ops acts s) := by
    intro p hc hr acts
    induction acts with
    | nil => intro s hs; simpa [history] using hs
    | cons a rest ih =>
      intro s hs
      apply ih
      cases a with
      | newRoll =>
        rcases hs with h | h
        · exact Or.inl (by simpa [act] using h)
        · exact Or.inr (by simpa [act] using h)
      | solve k g0 gs =>
        right
        have i := init_solve_ucs p g0 k s hs
        cases gs with
        | nil => simpa [act, solve, iterate] using i.1
        | cons g gs => simp [act, solve, iterate_ucs hc k g gs _ i.1]
  exact ⟨one _ cached_usable_cs_is_current.1 iteration_rebuilds_contour_lines.1 acts s hs,
    one _ cached_usable_cs_is_current.2 iteration_rebuilds_contour_lines.2 acts s hs⟩

/-- **whatever was done with one pass object since it was created** (`acts`), after a further solve the remembered usable
    cross-section is the one of the mounted groove at the last gap - in both forms of `init_solve` -/
theorem history_usable_cs_current {γ κ : Type} (acts : List (Act γ κ)) (k : κ) (g0 g : γ) (gs : List γ) :
    (history two_pass solve_loop init_solve_ops (acts ++ [.solve k g0 (g :: gs)]) ({} : St γ κ)).ucs =
      some (provNow two_pass ((g :: gs).getLast (by simp)) k) ∧
    (history three_pass solve_loop init_solve_ops (acts ++ [.solve k g0 (g :: gs)]) ({} : St γ κ)).ucs =
      some (provNow three_pass ((g :: gs).getLast (by simp)) k) := by
  have hh : ∀ (p : Pass) (acts : List (Act γ κ)) (a : Act γ κ) (s : St γ κ),
      history p solve_loop init_solve_ops (acts ++ [a]) s =
        act p solve_loop init_solve_ops a (history p solve_loop init_solve_ops acts s) := by
    intro p acts a
    induction acts with
    | nil => intro s; simp [history]
    | cons b rest ih => intro s; simp [history, ih]
  have inv := history_has_ucs acts ({} : St γ κ) (Or.inl rfl)
  rw [hh, hh]
  constructor
  · rcases inv.1 with h | h
    · exact ((solve_usable_cs_current k g0 g gs _).1 (Or.inl h)).1
    · exact ((solve_usable_cs_current k g0 g gs _).1 (Or.inr (Or.inl h))).1
  · rcases inv.2 with h | h
    · exact ((solve_usable_cs_current k g0 g gs _).1 (Or.inl h)).2
    · exact ((solve_usable_cs_current k g0 g gs _).1 (Or.inr (Or.inl h))).2

/-- the order of the statements of `reevaluate_cache` BEFORE repair 20fe8da, written out by hand (a witness, not generated):
    `SymmetricRollPass` and `BaseRollPass` both `super(); roll; reset`, `Roll` `super(); reset` -/
def oldOrder (direct : Bool) : Pass :=
  { memo := { guarded := true, stored := true, direct := direct }, rollMemo := { guarded := true, stored := true },
    chain := [[.super, .roll, .reset], [.super, .roll, .reset], [.recompute]], rollChain := [[.super, .reset], [.recompute]] }

/-- witness for the OLD order: there `HookHost.reevaluate_cache` computed the remembered `usable_cross_section` again BEFORE
    the pass dropped the memoised contour lines, so from the second iteration on it was built from the lines of the PREVIOUS
    iteration — one iteration behind the gap, and in the first iteration after another groove was mounted still made of the
    OLD groove's contour (the same staleness made a three-roll gap derived from the height wrong, notes/C08.md finding 2). -/
theorem old_order_usable_cs_one_iteration_behind {γ κ : Type} (d : Bool) (g : γ) (k : κ) (l : Prov γ κ) (s : St γ κ)
    (hl : s.lines = some l) (hu : s.ucs.isSome) :
    (iter (oldOrder d) g k [.inReeval, .subunits, .selfReeval, .outReeval, .rootHooks] s).ucs = some l := by
  obtain ⟨l', c, u, us, cp, rl, op, cr, oc⟩ := s
  cases u with
  | none => simp at hu
  | some u =>
    simp only at hl
    subst hl
    cases c <;> cases cp <;> cases rl <;>
      simp [iter, step, runChain, runOps, runRollChain, runRollOps, recompute, recomputeRoll, readLines, readRollLine, readCP,
        readGap, oldOrder]

/-- the old order is NOT current: a used pass (lines and usable cross-section of gap 1) iterated at gap 2 -/
example : ¬ UcsCurrent (oldOrder false) [.inReeval, .subunits, .selfReeval, .outReeval, .rootHooks] := by
  intro h
  have := h (γ := Nat) (κ := Nat) 2 1 { lines := some ⟨1, 1, none⟩, gapC := some 1, ucs := some ⟨1, 1, none⟩ } rfl
  revert this
  decide

/-- non-vacuity: a fresh two-roll pass, groove 1, the gap hook answering 5 during `init_solve` and the first iteration, then 7, 6, 6 -/
example : ((solve two_pass solve_loop init_solve_ops 1 5 [5, 7, 6, 6] ({} : St Nat Nat)).used.map (·.gap)) = [6, 6, 7, 5] := by decide
example : (solve two_pass solve_loop init_solve_ops 1 5 [5, 7, 6] ({} : St Nat Nat)).ucs = some ⟨6, 1, none⟩ := by decide
/-- start values: a new pass is seeded with the usable cross-section at the gap of `init_solve`; a pass that was solved
    before (out cross-section and usable cross-section of gap 9) starts its next solve from the previous result or from the
    usable cross-section again, as the source says (`init_solve_seed_on_creation`); after the solve there is no difference -/
example : (initSolve two_pass 5 1 init_solve_ops ({} : St Nat Nat)).ocs = some (.seeded ⟨5, 1, none⟩) := by decide
example : (initSolve two_pass 4 1 init_solve_ops
    ({ outp := true, ocs := some (.built ⟨9, 1, none⟩), ucs := some ⟨9, 1, none⟩, used := [⟨9, 1, none⟩] } : St Nat Nat)).ocs =
    (if init_solve_seed_on_creation = true then some (.built ⟨9, 1, none⟩) else some (.seeded ⟨9, 1, none⟩)) := by decide
example : (solve two_pass solve_loop init_solve_ops 1 4 [4, 4]
    ({ outp := true, ocs := some (.built ⟨9, 1, none⟩), ucs := some ⟨9, 1, none⟩, used := [⟨9, 1, none⟩] } : St Nat Nat)).ocs =
    (solve two_pass solve_loop init_solve_ops 1 4 [4, 4] ({} : St Nat Nat)).ocs := by decide
example : HasUcs ({} : St Nat Nat) := Or.inl rfl
/-- a used pass (memos and caches from gap 9 and groove 1) solved after its gap was set to 4 and groove 2 was mounted -/
example : (solve three_pass solve_loop init_solve_ops 2 4 [4, 4]
    ({ lines := some ⟨9, 1, some 1⟩, gapC := some 9, ucs := some ⟨9, 1, some 1⟩, used := [⟨9, 1, some 1⟩], cpC := some 1, rline := some 1 } :
      St Nat Nat)).used = [⟨4, 2, some 2⟩, ⟨4, 2, some 2⟩, ⟨9, 1, some 1⟩] := by decide
/-- a history of one two-roll pass object: solved with groove 1 at gap 3; groove 2 mounted, the gap left alone; solved; a
    new roll object with groove 1 put in; solved: every solve ends on the groove that is mounted -/
example : ((history two_pass solve_loop init_solve_ops
    [.solve 1 3 [3, 3], .solve 2 3 [3, 3], .newRoll, .solve 1 3 [3, 3]] ({} : St Nat Nat)).used.map (·.line)) = [1, 1, 2, 2, 1, 1] := by
  decide
/-- without the reset in `reevaluate_cache` the lines of the first access stay: the loop would NOT rebuild -/
example : ¬ Rebuilds { two_pass with chain := [[.super, .roll], [.recompute]] } solve_loop := by
  intro h
  have := (h (γ := Nat) (κ := Nat) 2 1 { lines := some ⟨1, 1, none⟩, gapC := some 1 }).1
  revert this
  decide
/-- with a reset that is tied to the GAP only (here: no reset of the roll's memo) a newly mounted groove is not seen -/
example : ¬ Rebuilds { two_pass with rollChain := [[.super], [.recompute]] } solve_loop := by
  intro h
  have := (h (γ := Nat) (κ := Nat) 1 2 { lines := some ⟨1, 1, none⟩, gapC := some 1, cpC := some 1, rline := some 1 }).1
  revert this
  decide

end cache

end C08
