import PyrollModel.Gen.C03
import PyrollModel.Gen.C03Groove
import PyrollProofs.GrooveWFConstruct
import PyrollProofs.GrooveWFExample
import PyrollProofs.GrooveWFSpline
import PyrollProps.C04

/-!
# C03 — every groove handed out is a well-formed contour; unrealisable input is rejected

The model is `GrooveWF.construct Gen.C03.spec` (`PyrollModel/GrooveWF.lean`): the interpreter of the tables that
`driver/translate/c03_validate.py` regenerates from `GenericElongationGroove.__init__` on every run (argument checks,
fourth-of-four resolution, junction chain, `_enumerate_contour_points`, mirroring, every post-construction validation).
All statements are over ℝ; `simple` (GEOS' `is_simple`) and, for the solver-backed classes, the root finders are
parameters: the theorems speak about the generic constructor, which every parametric class ends in (the arguments a class
hands over are compared with the real code by the harness; that a solver root closes the chain is C04).

* `zmonotone_simple`            strictly increasing abscissae ⇒ simple polyline (vertex lists)
* `construct_ok_wellformed`     `construct p = .ok g → WellFormed g` + centre vertex + echo of every given value
* `step_two_sided`             accepted ⇒ the r2 arc ends within `0.001·depth + 1e-9·z0` of the flank line, either side
* `flank_meets_face_C03`        the extrapolated flank of an accepted groove hits the face at `usable_width/2` (from C04)
* `deepest_point_is_depth`      with the apex condition `indent = (r3+r4)(1−cos α4)` the r3 circle tops out at `depth`
* `construct_rejects`           negative dimension ∨ wrong arity ∨ junctions out of order ⇒ an exception
* `undercut_rejected`, `negative_flank_rejected`   two concrete ways of being out of order
* `factory_name_normalisation`  the by-name factory: result carries the suffix, resolution is sound, exact class names and
                                the documented spellings resolve
* `table_shape`                 the generated tables have the shape the theorems use (kernel-evaluated)
-/

open GrooveWF Gen.C03

set_option linter.unusedSimpArgs false
set_option linter.unusedVariables false
set_option linter.unusedTactic false        -- `spline_face_bounded`: only one alternative of `first` runs per source form
set_option linter.unreachableTactic false

namespace C03

/-! ## the generated tables have the shape the theorems below rely on -/

/-- kernel-evaluated facts about the tables regenerated from the source: the mirror statement is the modelled one, the
    contour is emitted from the face (`z0`) over the arcs r1 … r4 to the centre point `(z9, y9)`, the validations contain
    the strict-z, below-face, deepest-point and `is_simple` tests, and exactly the twelve documented measures are checked
    for non-negativity. -/
theorem table_shape :
    spec.mirror = stdMirror ∧
    spec.pieces = [.pt "z0" "y0", .arcUnlessClose "z1" "z3" "fn_r1_contour_line", .ptUnlessClose "z3" "z4" "z3" "y3",
      .arcUnlessClose "z4" "z5" "fn_r2_contour_line", .arcUnlessClose "z5" "z6" "fn_r3_contour_line",
      .arcUnlessClose "z6" "z7" "fn_r4_contour_line"] ++ [.pt "z9" "y9"] ∧
    hasZStrict spec.checks = true ∧
    spec.checks.length = 7 ∧
    spec.nonneg = ["r1", "r2", "r3", "r4", "alpha3", "alpha4", "indent", "even_ground_width", "flank_angle",
      "usable_width", "ground_width", "depth"] ∧
    spec.upper.map (·.1) = ["flank_angle"] ∧
    spec.resolution.map (·.target) = ["usable_width", "ground_width", "flank_angle", "depth"] ∧
    spec.required = ["r1", "r2"] := by
  refine ⟨rfl, rfl, by decide, rfl, rfl, rfl, rfl, rfl⟩

/-- the generated chain is the one C04's theorems are about -/
theorem chain_is_C04 : Gen.C03.Groove.chain = Gen.C04.Groove.chain ∧
    Gen.C03.Groove.fn_flank_contour_line = Gen.C04.Groove.fn_flank_contour_line ∧
    Gen.C03.Groove.z3 = Gen.C04.Groove.z3 ∧ Gen.C03.Groove.y3 = Gen.C04.Groove.y3 ∧
    Gen.C03.Groove.z4 = Gen.C04.Groove.z4 ∧ Gen.C03.Groove.y4 = Gen.C04.Groove.y4 ∧
    Gen.C03.Groove.y10 = Gen.C04.Groove.y10 := ⟨rfl, rfl, rfl, rfl, rfl, rfl, rfl⟩

/-- the three validations the well-formedness rests on, as generated (tolerances relative to the groove size) -/
def faceBound : Expr := .neg (.mul (.dec 1 9) (.add Groove.z0 (.var "depth")))
def deepHi : Expr := .add (.mul (.dec 1001 3) (.var "depth")) (.mul (.dec 1 9) (.add Groove.z0 (.var "depth")))
def deepLo : Expr := .sub (.mul (.sub (.dec 999 3) (.div (.nat 4) (.pow (.var "Config.GROOVE_RADIUS_POINT_COUNT") 2)))
  (.var "depth")) (.mul (.dec 1 9) (.add Groove.z0 (.var "depth")))

theorem checks_present :
    Check.zStrict "ValueError" ∈ spec.checks ∧ Check.yBelow faceBound "ValueError" ∈ spec.checks ∧
    Check.deepest Groove.z3 deepHi deepLo "ValueError" ∈ spec.checks := by
  refine ⟨?_, ?_, ?_⟩ <;> simp [spec, checks, faceBound, deepHi, deepLo]

theorem jv_z9 (σ : String → ℝ) : jv spec σ "z9" = 0 := by
  simp [jv, lookupE, spec, Groove.chain, List.lookup, Groove.z9, Expr.eval]

theorem jv_y9 (σ : String → ℝ) : jv spec σ "y9" = σ "depth" - σ "indent" := by
  simp [jv, lookupE, spec, Groove.chain, List.lookup, Groove.y9, Expr.eval]

/-! ## z-monotone ⇒ simple -/

/-- A polyline whose vertices are strictly increasing in the width coordinate does not touch or cross itself. -/
theorem zmonotone_simple (l : List (Pt ℝ)) (h : l.Pairwise (fun p q => p.z < q.z)) : Simple l :=
  GrooveWF.zmonotone_simple l h

example : Simple [(⟨-2, 0⟩ : Pt ℝ), ⟨-1, 1⟩, ⟨0, 1.5⟩, ⟨1, 1⟩, ⟨2, 0⟩] := by
  apply zmonotone_simple
  simp only [List.pairwise_cons, List.mem_cons, List.not_mem_nil, or_false, forall_eq_or_imp, forall_eq,
    List.Pairwise.nil, and_true, IsEmpty.forall_iff, implies_true]
  norm_num

/-- … and the hypothesis is needed: a polyline that runs backwards can cross itself -/
example : ¬ Simple [(⟨0, 0⟩ : Pt ℝ), ⟨2, 2⟩, ⟨2, 0⟩, ⟨0, 2⟩] := by
  intro h
  have := h 0 2 ⟨0, 0⟩ ⟨2, 2⟩ ⟨2, 0⟩ ⟨0, 2⟩ (by norm_num) rfl rfl ⟨1, 1⟩
    ⟨1 / 2, by norm_num, by norm_num, by norm_num, by norm_num⟩ ⟨1 / 2, by norm_num, by norm_num, by norm_num, by norm_num⟩
  omega

/-! ## accepted ⇒ well-formed -/

/-- **Every accepted groove is a well-formed contour.**  If the (translated) generic constructor accepts the arguments
    `p`, then the vertex list it hands out is non-empty, mirror-symmetric about the groove centre, strictly increasing in
    `z` (single-valued), simple, nowhere more than `1e-9·(z0 + depth)` below the roll face, inside the flanks (`|z| ≤ z3`)
    nowhere deeper than `1.001·depth + tol` and somewhere at least `(0.999 − 4/N²)·depth − tol` deep; it contains the centre
    vertex `(0, depth − indent)`; and every value that was given is echoed by the resolved arguments. -/
theorem construct_ok_wellformed (simple : List (Pt ℝ) → Bool) (cfg : List (String × ℝ)) (N : Nat) (dflt : ℝ)
    (p : Params ℝ) (g : Groove ℝ) (h : construct spec simple cfg N dflt p = .ok g) :
    WellFormed g (-(faceBound.eval (envOf' dflt cfg g))) (Groove.z3.eval (envOf' dflt cfg g))
      (deepHi.eval (envOf' dflt cfg g)) (deepLo.eval (envOf' dflt cfg g)) ∧
    (⟨0, envOf' dflt cfg g "depth" - envOf' dflt cfg g "indent"⟩ : Pt ℝ) ∈ g.pts ∧
    (∀ k v, p.get k = some v → k ≠ "pad" → g.env.lookup k = some v) := by
  obtain ⟨hm, hp, -⟩ := table_shape
  obtain ⟨c1, c2, c3⟩ := checks_present
  obtain ⟨hw, hc⟩ := wellFormed_of_checks h hm hp (jv_z9 _) c1 c2 c3
  rw [jv_y9] at hc
  refine ⟨hw, hc, ?_⟩
  intro k v hk hpad
  obtain ⟨hprep, -, -⟩ := construct_ok h
  obtain ⟨resolved, -, -, -, hres, henv⟩ := prepare_ok hprep
  rw [henv]
  simp only [List.lookup]
  rw [show (k == "pad") = false from by simpa using hpad]
  exact resolve_echo hres (withDefaults_given hk)

/-- the step test as generated: two-sided, tolerance relative to the groove size -/
def stepLhs : Expr := .abs (.sub Groove.y4 (.sub Groove.y3 (.mul (.tan (.var "flank_angle")) (.sub Groove.z4 Groove.z3))))
def stepRhs : Expr := .add (.mul (.dec 1 3) (.var "depth")) (.mul (.dec 1 9) Groove.z0)

/-- **No step at junction 4, in either direction.**  For an accepted groove the end of the r2 arc is off the flank line
    through junction 3 by at most `0.001·depth + 1e-9·z0` — upwards or downwards (the one-sided test of the unrepaired code
    let a negative step of any size through). -/
theorem step_two_sided (simple : List (Pt ℝ) → Bool) (cfg : List (String × ℝ)) (N : Nat) (dflt : ℝ)
    (p : Params ℝ) (g : Groove ℝ) (h : construct spec simple cfg N dflt p = .ok g) :
    |Groove.y4.eval (envOf' dflt cfg g) - (Groove.y3.eval (envOf' dflt cfg g)
        - Real.tan (envOf' dflt cfg g "flank_angle") * (Groove.z4.eval (envOf' dflt cfg g) - Groove.z3.eval (envOf' dflt cfg g)))|
      ≤ 1 / 10 ^ 3 * envOf' dflt cfg g "depth" + 1 / 10 ^ 9 * Groove.z0.eval (envOf' dflt cfg g) := by
  obtain ⟨-, -, hchk⟩ := construct_ok h
  have hmem : Check.scalarGt stepLhs stepRhs "ValueError" ∈ spec.checks := by
    simp [spec, checks, stepLhs, stepRhs]
  obtain ⟨j, hj⟩ := runChecks_none _ _ hchk _ hmem
  simp only [runCheck, lt_real] at hj
  split at hj
  · cases hj
  · rename_i hn
    have := not_lt.mp (by simpa using hn)
    simpa [stepLhs, stepRhs, Expr.eval] using this

/-- the face tolerance in closed form: never more than `1e-9·(z0 + depth)` below the roll face -/
theorem faceBound_eval (σ : String → ℝ) : -(faceBound.eval σ) = 1 / 10 ^ 9 * (Groove.z0.eval σ + σ "depth") := by
  simp only [faceBound, Expr.eval, PyNum.dec_real]; norm_num

/-- Non-vacuity: the hypothesis is satisfiable.  Evaluated over ℝ along the whole constructor
    (`PyrollProofs/GrooveWFExample.lean`): a groove of depth 1 with straight 45° flanks (`r1 = r2 = 0`,
    `usable_width = 4`, `even_ground_width = 2`, `pad = 2/5`) is accepted with the contour below … -/
example : construct spec (fun _ => true) GrooveWFExample.cfg0 2 0 GrooveWFExample.veeArgs
    = .ok ⟨[⟨-(12/5), 0⟩, ⟨-2, 0⟩, ⟨0, 1⟩, ⟨2, 0⟩, ⟨12/5, 0⟩], GrooveWFExample.env1⟩ := GrooveWFExample.vee_accepted

/-- … hence it is well-formed, has the centre vertex `(0, depth − indent) = (0, 1)` and echoes `usable_width = 4` -/
example : (⟨0, 1⟩ : Pt ℝ) ∈ GrooveWFExample.pts1 ∧
    (⟨GrooveWFExample.pts1, GrooveWFExample.env1⟩ : Groove ℝ).env.lookup "usable_width" = some 4 := by
  obtain ⟨-, h2, h3⟩ := construct_ok_wellformed _ _ _ _ _ _ GrooveWFExample.vee_accepted
  refine ⟨by simp [GrooveWFExample.pts1], h3 "usable_width" 4 ?_ (by decide)⟩
  simp [GrooveWFExample.veeArgs, Params.get, List.lookup]

/-- … and so is the flat groove (`usable_width = 2`, `pad = 1/5`, everything else `0`): all seven validations pass on
    `(±6/5, 0) (±1, 0) (0, 0)` -/
example : construct spec (fun _ => true) GrooveWFExample.cfg0 2 0 GrooveWFExample.flatArgs
    = .ok ⟨GrooveWFExample.pts0, GrooveWFExample.env0⟩ := GrooveWFExample.flat_accepted

/-! ## the face is met at the usable width, the deepest point is `depth` -/

/-- For an accepted groove with a proper flank angle the extrapolated flank meets the roll face `y = 0` exactly at
    `usable_width/2`, for every pad angle (C04's chain theorem applied to the generated chain). -/
theorem flank_meets_face_C03 (σ : String → ℝ) (A : C04.ChainOK σ) (hz : σ "z" = σ "usable_width" / 2) :
    Expr.eval σ Gen.C03.Groove.fn_flank_contour_line = 0 := by
  rw [chain_is_C04.2.1]; exact C04.flank_meets_face σ A hz

/-- the validator's flank-angle bound and the non-negativity test give exactly C04's side conditions on the angles
    (for a groove that is not flat and a pad angle in `[0, π/2)`) -/
theorem chainOK_of_accepted (σ : String → ℝ) (h0 : 0 < σ "flank_angle") (h1 : σ "flank_angle" < Real.pi / 2)
    (hp0 : 0 ≤ σ "pad_angle") (hp1 : σ "pad_angle" < Real.pi / 2) : C04.ChainOK σ :=
  C04.AngleOK.of_range h0 h1 hp0 hp1

/-- Deepest point: when the indent is the one that belongs to the constriction angle, `indent = (r3 + r4)(1 − cos α4)`,
    the top of the r3 circle (centre `(z10, y10)`) is exactly at `depth`; with `indent = 0 = α4` the centre vertex
    `(0, depth − indent)` of `construct_ok_wellformed` is itself at `depth`. -/
theorem deepest_point_is_depth (σ : String → ℝ)
    (hi : σ "indent" = (σ "r3" + σ "r4") * (1 - Real.cos (σ "alpha4"))) :
    Expr.eval σ Gen.C03.Groove.y10 + σ "r3" = σ "depth" := by
  rw [chain_is_C04.2.2.2.2.2.2, GrooveC04.eval_y10, GrooveC04.eval_y6, hi]; ring

example : ∃ σ : String → ℝ, σ "indent" = (σ "r3" + σ "r4") * (1 - Real.cos (σ "alpha4")) ∧ σ "r3" = 3 :=
  ⟨fun n => if n = "r3" then 3 else 0, by simp, by simp⟩

/-! ## unrealisable input is rejected -/

/-- the environment `__init__` evaluates the chain in, once the arguments are resolved -/
noncomputable def chainEnv (cfg : List (String × ℝ)) (dflt : ℝ) (env : List (String × ℝ)) : String → ℝ :=
  envOfL dflt (env ++ cfg)

/-- the junctions of `p` are in order: the right half of the polyline, as `_enumerate_contour_points` samples it,
    runs strictly inwards (from the face at `z0` to the centre) -/
def JunctionsOrdered (cfg : List (String × ℝ)) (N : Nat) (dflt : ℝ) (p : Params ℝ) : Prop :=
  ∀ env, prepare spec cfg dflt p = .ok env → RightSideOrdered spec (chainEnv cfg dflt env) N

/-- **Unrealisable input is rejected.**  A negative measure, a wrong number of defining values (not exactly three of
    `usable_width, ground_width, flank_angle, depth`), or junctions that are out of order make the constructor raise. -/
theorem construct_rejects (simple : List (Pt ℝ) → Bool) (cfg : List (String × ℝ)) (N : Nat) (dflt : ℝ) (p : Params ℝ)
    (h : (∃ k ∈ spec.nonneg, ∃ v, (withDefaults spec cfg dflt p).lookup k = some v ∧ v < 0) ∨
         ((spec.resolution.map (·.target)).filter
            (fun t => ((withDefaults spec cfg dflt p).lookup t).isNone)).length ≠ 1 ∨
         ¬ JunctionsOrdered cfg N dflt p) :
    ∃ e, construct spec simple cfg N dflt p = .error e := by
  rcases h with ⟨k, hk, v, hv, hneg⟩ | h | h
  · obtain ⟨e, he⟩ := prepare_error_negative hk hv hneg
    exact ⟨e, construct_error_of_prepare he⟩
  · obtain ⟨e, he⟩ := prepare_error_arity h
    exact ⟨e, construct_error_of_prepare he⟩
  · simp only [JunctionsOrdered, not_forall] at h
    obtain ⟨env, he, hbad⟩ := h
    exact construct_error_of_check he checks_present.1 (zStrict_fails hbad)

/-- Non-vacuity of the first alternative: `r1 = -1` is rejected whatever else is given. -/
example (simple : List (Pt ℝ) → Bool) (cfg : List (String × ℝ)) (N : Nat) (dflt : ℝ) (rest : List (String × ℝ)) :
    ∃ e, construct spec simple cfg N dflt ⟨("r1", -1) :: rest⟩ = .error e := by
  apply construct_rejects
  left
  refine ⟨"r1", by simp [spec], -1, ?_, by norm_num⟩
  simp [withDefaults, List.lookup]

/-- Non-vacuity of the second alternative: all four of the over-determined parameters given ("Too many arguments"). -/
example (simple : List (Pt ℝ) → Bool) (cfg : List (String × ℝ)) (N : Nat) (dflt : ℝ) :
    ∃ e, construct spec simple cfg N dflt
      ⟨[("r1", 1), ("r2", 1), ("usable_width", 4), ("ground_width", 2), ("flank_angle", 1), ("depth", 1)]⟩ = .error e := by
  apply construct_rejects
  right; left
  simp [withDefaults, spec, resolution, List.lookup, List.filter]

/-- … and only two of them given -/
example (simple : List (Pt ℝ) → Bool) (cfg : List (String × ℝ)) (N : Nat) (dflt : ℝ) :
    ∃ e, construct spec simple cfg N dflt ⟨[("r1", 1), ("r2", 1), ("usable_width", 4), ("depth", 1)]⟩ = .error e := by
  apply construct_rejects
  right; left
  simp [withDefaults, spec, resolution, Groove.defaults, List.lookup, List.filter, Params.get]

/-- Non-vacuity of the third alternative: a negative padding passes every argument check (`pad` is not one of the twelve
    measures) but puts the face end `z0 = 4/5` inside junction 1 (`z1 = 1`): the junctions are out of order. -/
example : ¬ JunctionsOrdered GrooveWFExample.cfg0 2 0 GrooveWFExample.negPadArgs := by
  intro h
  exact GrooveWFExample.negPad_unordered.2 (h _ GrooveWFExample.negPad_unordered.1)

/-- the flank-angle bound: a given flank angle of 90° or more (vertical or undercut flank) is rejected -/
theorem undercut_rejected (simple : List (Pt ℝ) → Bool) (cfg : List (String × ℝ)) (N : Nat) (dflt : ℝ) (p : Params ℝ)
    (fa : ℝ) (hfa : (withDefaults spec cfg dflt p).lookup "flank_angle" = some fa) (h : Real.pi / 2 ≤ fa) :
    ∃ e, construct spec simple cfg N dflt p = .error e := by
  suffices hs : ∃ e, prepare spec cfg dflt p = .error e by
    obtain ⟨e, he⟩ := hs; exact ⟨e, construct_error_of_prepare he⟩
  unfold prepare
  split
  · exact ⟨_, rfl⟩
  · split
    · exact ⟨_, rfl⟩
    · have hu : spec.upper = [("flank_angle", .div .pi (.nat 2))] := rfl
      have : spec.upper.any (upperViolated (envOfL dflt (withDefaults spec cfg dflt p ++ cfg))
          (withDefaults spec cfg dflt p)) = true := by
        rw [hu]
        simp only [List.any_cons, List.any_nil, Bool.or_false, upperViolated, hfa, Expr.eval, lt_real,
          PyNum.pi_real, PyNum.nat_real, Nat.cast_ofNat, Bool.not_eq_true', decide_eq_false_iff_not, not_lt]
        exact h
      rw [if_pos this]
      exact ⟨_, rfl⟩

example : ∃ fa : ℝ, Real.pi / 2 ≤ fa := ⟨Real.pi / 2, le_refl _⟩

/-! ## the by-name factory -/

theorem endsWith_append (u suf : List Char) : endsWith (u ++ suf) suf = true := by
  simp [endsWith]

/-- **Name normalisation of `create_groove_by_type_name`** (ASCII fragment).
    (1) whatever the spelling, the name that is looked up carries the suffix `Groove`;
    (2) the factory only ever resolves to a class of its table, under one of the names it tries;
    (3) with the exact-name lookup in front (generated flag `tryExactFirst`), every class is found by its own name;
    (4) the regex step: a separator run followed by a word character is replaced by that character in upper case, any
        other character is kept. -/
theorem factory_name_normalisation :
    (∀ F n, endsWith (normalise F n).toList F.suffix.toList = true) ∧
    (∀ F cls n c, resolveClass F cls n = some c → c ∈ cls ∧ c ∈ lookupNames F n) ∧
    (∀ c ∈ classes, resolveClass factory classes c = some c) ∧
    (∀ F fuel c r, isSep F c = false → subAux F (fuel + 1) (c :: r) = c :: subAux F fuel r) ∧
    (∀ F fuel s n w rest, sepRun F s = n → 0 < n → s.drop n = w :: rest → isWord w = true →
        subAux F (fuel + 1) s = toUpperA w :: subAux F fuel rest) := by
  refine ⟨?_, ?_, ?_, ?_, ?_⟩
  · intro F n
    simp only [normalise, String.toList_ofList]
    generalize subAux F _ _ = u
    by_cases hu : endsWith u F.suffix.toList = true
    · rw [if_pos hu]; exact hu
    · rw [if_neg hu]; exact endsWith_append _ _
  · intro F cls n c h
    simp only [resolveClass] at h
    have h1 := List.find?_some h
    have h2 := List.mem_of_find?_eq_some h
    exact ⟨by simpa using h1, h2⟩
  · decide
  · intro F fuel c r hc
    simp [subAux, sepRun, hc]
  · intro F fuel s n w rest hn hpos hd hw
    cases s with
    | nil => simp [sepRun] at hn; omega
    | cons c r =>
      simp only [subAux]
      rw [hn, if_neg (by omega), hd]
      simp [hw]

/-- Non-vacuity / kernel-evaluated instances on the generated tables: documented spellings of six classes. -/
example : (["false_round", "FALSE-ROUND groove", "oval 3 radii", "constricted__upset  box", "Swedish.Oval",
    "equivalent_ribbed_groove"].map (resolveClass factory classes)) =
  [some "FalseRoundGroove", some "FalseRoundGroove", some "Oval3RadiiGroove", some "ConstrictedUpsetBoxGroove",
   some "SwedishOvalGroove", some "EquivalentRibbedGroove"] := by decide

/-- … and spellings the regex does not repair: a trailing separator stays (`false_round_` → `FalseRound_Groove`), the
    backtracking case `__` at the end keeps one underscore -/
example : normalise factory "false_round_" = "FalseRound_Groove" ∧ normalise factory "false_round__" = "FalseRound_Groove" ∧
    resolveClass factory classes "false_round_" = none := by decide

/-! ## the shape checks of `SplineGroove.__init__`

All statements are about the GENERATED face test `splineFace` — `np.isclose(y, 0)` or `np.abs(y) <= <tolerance term>`,
whichever form the translator read from the source — and the generated list of checks. -/

/-- the spline shape checks, as generated -/
theorem spline_checks : splineChecks = [.ndim 2, .cols 2, .endsOnFace] := rfl

/-- the generated face test says `|y| ≤ tolerance`, the tolerance being the translated term evaluated on the vertex
    array as given -/
theorem spline_face_spec (rows : List (List ℝ)) (y : ℝ) :
    splineFace.onFace rows y = true ↔ |y| ≤ splineFace.tol rows := onFace_iff _ _ _

/-- the generated face test depends on `|y|` only and is downward closed in it -/
theorem spline_face_abs_only (rows : List (List ℝ)) (y y' : ℝ) :
    (|y| = |y'| → splineFace.onFace rows y = splineFace.onFace rows y') ∧
    (|y'| ≤ |y| → splineFace.onFace rows y = true → splineFace.onFace rows y' = true) :=
  ⟨onFace_abs _ _, onFace_mono _ _⟩

/-- the tolerance of the generated face test is non-negative and at most `max 1e-8 (1e-9·extent)` (the only theorem
    that looks at the FORM of the test: numpy's absolute default, or `1e-9 ×` the larger column extent; any other
    tolerance in the source does not build) -/
theorem spline_face_bounded : FaceBounded splineFace := by
  first
    | exact faceBounded_isclose
    | exact faceBounded_within_extent

/-- an ordinate that IS 0 lies on the face line -/
theorem spline_zero_on_face {rows : List (List ℝ)} (h : rows ≠ []) : splineFace.onFace rows 0 = true := by
  rw [spline_face_spec, abs_zero]; exact (spline_face_bounded rows h).1

/-- **what the shape checks accept** (full strength): exactly the two-dimensional arguments with at least one row, two
    entries in every row and the first and the last ordinate within the tolerance of the generated face test -/
theorem spline_accepts_iff (nd : Nat) (rows : List (List ℝ)) :
    splineAccepts splineFace splineChecks nd rows = true ↔
      nd = 2 ∧ rows ≠ [] ∧ (∀ r ∈ rows, r.length = 2) ∧
        ∀ a ∈ rows.head?, ∀ b ∈ rows.getLast?,
          |a.getD 1 1| ≤ splineFace.tol rows ∧ |b.getD 1 1| ≤ splineFace.tol rows :=
  splineAccepts_iff splineFace nd rows

/-- an accepted contour ends on the face line up to `max 1e-8 (1e-9·extent)`; a well-shaped contour whose end ordinates
    are 0 is accepted, whatever lies in between -/
theorem spline_ends_on_face (nd : Nat) (rows : List (List ℝ)) :
    (splineAccepts splineFace splineChecks nd rows = true →
      ∀ a ∈ rows.head?, ∀ b ∈ rows.getLast?,
        |a.getD 1 1| ≤ max (1 / 10 ^ 8) (1 / 10 ^ 9 * extent rows) ∧
        |b.getD 1 1| ≤ max (1 / 10 ^ 8) (1 / 10 ^ 9 * extent rows)) ∧
    (nd = 2 → rows ≠ [] → (∀ r ∈ rows, r.length = 2) → (∀ a ∈ rows.head?, a.getD 1 1 = 0) →
      (∀ b ∈ rows.getLast?, b.getD 1 1 = 0) → splineAccepts splineFace splineChecks nd rows = true) := by
  constructor
  · intro h a ha b hb
    obtain ⟨_, hne, _, hends⟩ := (spline_accepts_iff nd rows).mp h
    have hb2 := (spline_face_bounded rows hne).2
    exact ⟨le_trans (hends a ha b hb).1 hb2, le_trans (hends a ha b hb).2 hb2⟩
  · intro h2 hne hlen ha hb
    refine (spline_accepts_iff nd rows).mpr ⟨h2, hne, hlen, fun a ha' b hb' => ?_⟩
    rw [ha a ha', hb b hb', abs_zero]
    exact ⟨(spline_face_bounded rows hne).1, (spline_face_bounded rows hne).1⟩

/-- a contour that starts or ends farther off the face line than `max 1e-8 (1e-9·extent)` is rejected -/
theorem spline_rejects_off_face (nd : Nat) (rows : List (List ℝ))
    (h : (∃ a ∈ rows.head?, max (1 / 10 ^ 8) (1 / 10 ^ 9 * extent rows) < |a.getD 1 1|) ∨
      (∃ b ∈ rows.getLast?, max (1 / 10 ^ 8) (1 / 10 ^ 9 * extent rows) < |b.getD 1 1|)) :
    splineAccepts splineFace splineChecks nd rows = false := by
  rw [Bool.eq_false_iff]
  intro hacc
  have hends := (spline_ends_on_face nd rows).1 hacc
  obtain ⟨_, hne, _, _⟩ := (spline_accepts_iff nd rows).mp hacc
  obtain ⟨a, ha⟩ : ∃ a, rows.head? = some a := by
    rcases rows with _ | ⟨r, t⟩
    · exact absurd rfl hne
    · exact ⟨r, rfl⟩
  obtain ⟨b, hb⟩ : ∃ b, rows.getLast? = some b := ⟨_, List.getLast?_eq_some_getLast hne⟩
  rcases h with ⟨a', ha', hlt⟩ | ⟨b', hb', hlt⟩
  · have := (hends a' ha' b hb).1; linarith
  · have := (hends a ha b' hb').2; linarith

/-- Non-vacuity: a trapezoid given by four vertices is accepted (`nd = 2`, two columns, end ordinates 0) … -/
example : splineAccepts splineFace splineChecks 2 [[-2, 0], [-1, 1], [1, 1], [2, (0 : ℝ)]] = true :=
  (spline_ends_on_face 2 _).2 rfl (by simp) (by simp) (by simp) (by simp)

/-- … a contour starting at ordinate 1/2 (extent ≤ 4) is rejected, and so is a flat list of numbers -/
example : splineAccepts splineFace splineChecks 2 [[-2, 1 / 2], [0, 1], [2, (0 : ℝ)]] = false := by
  apply spline_rejects_off_face
  left
  refine ⟨_, rfl, ?_⟩
  have h := extent_le (rows := [[-2, 1 / 2], [0, 1], [2, (0 : ℝ)]]) (by simp) 2 (by
    intro r hr
    simp only [List.mem_cons, List.not_mem_nil, or_false] at hr
    rcases hr with rfl | rfl | rfl <;> norm_num [abs_le])
  have : max ((1 : ℝ) / 10 ^ 8) (1 / 10 ^ 9 * extent [[-2, 1 / 2], [0, 1], [2, (0 : ℝ)]]) < 1 / 2 := by
    apply max_lt (by norm_num); nlinarith
  simpa using this

example : splineAccepts splineFace splineChecks 1 [[0, 1, (2 : ℝ)]] = false := by
  rw [Bool.eq_false_iff, Ne, spline_accepts_iff]; simp

end C03
